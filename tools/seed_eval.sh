#!/bin/bash
# usage: tools/seed_eval.sh <seed-id> <property> <worktree> <demo go-test pkg> <demo -run regexp> [tier]
# Confirms a seeded change in its scratch worktree (build, pinned suite, demo fails with / passes without),
# then runs the property's check on the scratch worktree with the patch applied (VERIF_REPO), leaving /repo alone. Results -> /verif/seeded/<seed-id>/.
set -u
sid=$1; prop=$2; wt=$3; pkg=${4:-}; run=${5:-}; tier=${6:-quick}
if [ -z "$pkg" ]; then
  # demo_location.txt: "<relative path of the demo file> <go package> <-run regexp>"
  read -r dpath pkg run < $wt/_mutation/demo_location.txt
  rm -f $wt/$dpath   # placed only after the pinned suite has run
fi
export PATH=/opt/veriftools/go1.26.8/bin:$PATH GOTOOLCHAIN=local GOFLAGS=-mod=mod GOPROXY=off GOSUMDB=off
out=/verif/seeded/$sid; mkdir -p $out
cp $wt/_mutation/patch.diff $out/patch.diff
for f in $wt/_mutation/*; do case $f in *patch.diff) ;; *) cp -r $f $out/;; esac; done
log=$out/confirm.log; : > $log
# bring the scratch worktree to the current /repo HEAD (fixes committed since the worktree was made)
git -C $wt checkout -q --detach $(git -C /repo rev-parse HEAD) 2>> $log || echo "could not move the worktree to /repo HEAD" >> $log
cd $wt
# place the demo
while read -r line; do :; done < /dev/null
echo "== apply patch in scratch worktree" >> $log
git apply _mutation/patch.diff >> $log 2>&1 || { echo "patch does not apply" >> $log; exit 2; }
echo "== build" >> $log
go build ./sql/... ./memory/... . >> $log 2>&1; echo "build rc=$?" >> $log
echo "== pinned suite with patch" >> $log
go test -vet=off -count=1 ./errguard/ ./internal/... ./sql/in_mem_table/ ./sql/sqlredact/ ./sql/planbuilder/dateparse/ ./optgen/cmd/support/ ./enginetest/scriptgen/setup/ 2>&1 | grep -v "no test files" >> $log; echo "suite rc=${PIPESTATUS[0]}" >> $log
if [ -n "${dpath:-}" ]; then src=$wt/_mutation/$(basename $dpath); [ -f $src ] || src=$(ls $wt/_mutation/*_test.go | head -1); cp $src $wt/$dpath; fi
echo "== demo with patch (must FAIL)" >> $log
go test -vet=off -count=1 -run "$run" $pkg > $out/demo_with_patch.log 2>&1; rc1=$?; echo "demo-with-patch rc=$rc1" >> $log
git apply -R _mutation/patch.diff
echo "== demo without patch (must PASS)" >> $log
go test -vet=off -count=1 -run "$run" $pkg > $out/demo_without_patch.log 2>&1; rc0=$?; echo "demo-without-patch rc=$rc0" >> $log
echo "== check $prop on the scratch worktree with the patch (VERIF_REPO=$wt; /repo is not touched)" >> $log
cd $wt && git apply _mutation/patch.diff || { echo "patch does not re-apply" >> $log; exit 2; }
rm -f $wt/$dpath
(cd /verif && VERIF_REPO=$wt VERIF_EVIDENCE=$out/evidence VERIF_WORKTAG=-seed ./bin/gosymx check $prop --tier $tier) > $out/check_with_patch.log 2>&1; crc=$?
git -C $wt apply -R _mutation/patch.diff
rm -rf $out/evidence/replays
echo "check rc=$crc" >> $log
grep -E "^(VIOLATION|KNOWN-FINDING|INCONCLUSIVE)|tier=" $out/check_with_patch.log | cut -c1-300 >> $log
tail -12 $log
