#!/bin/bash
# Runs every claimed check (quick tier unless $1=thorough) and prints one line each.
# usage: tools/runall.sh [quick|thorough] [gosymx binary]
tier=${1:-quick}; bin=${2:-/verif/bin/gosymx}
cd /verif
for f in harness/props/C*.json; do
  id=$(basename $f .json)
  grep -q '"claim"' $f || [ -n "$ALL" ] || continue
  out=$($bin check $id --tier $tier 2>&1); rc=$?
  echo "$out" | grep -E "^\[$id\] tier=" | sed "s/^/rc=$rc /"
  echo "$out" | grep -E "^(VIOLATION|INCONCLUSIVE)" | cut -c1-220
done
