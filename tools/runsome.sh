#!/bin/bash
# usage: tools/runsome.sh <tier> <id>...
tier=$1; shift
cd /verif
for id in "$@"; do
  out=$(/verif/bin/gosymx check $id --tier $tier 2>&1); rc=$?
  echo "$out" | grep -E "^\[$id\] tier=" | sed "s/^/rc=$rc /"
  echo "$out" | grep -E "^(VIOLATION|INCONCLUSIVE|KNOWN)" | cut -c1-260
done
