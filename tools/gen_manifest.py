#!/usr/bin/env python3
"""Generates /verif/MANIFEST.json and validates it.

A property is claimed when harness/props/<id>.json has a "claim" block
({"text": ..., "note": ..., "technique"?: ..., "design_ref"?: ...}); every other
property id must have a reason in tools/not_applicable.json.
"""
import json, os, sys

root = os.path.dirname(os.path.dirname(os.path.abspath(__file__)))
claims = json.load(open(os.path.join(root, "tools/not_applicable.json")))
ids = [json.loads(l)["id"] for l in open(os.path.join(root, "properties.jsonl")) if l.strip()]
na = dict(claims["not_applicable"])
claimed = {}
pdir = os.path.join(root, "harness/props")
for fn in sorted(os.listdir(pdir)):
    if fn.endswith(".json"):
        pc = json.load(open(os.path.join(pdir, fn)))
        if "claim" in pc:  # a property is claimed once its props file carries a claim block
            claimed[fn[:-5]] = pc["claim"]
for i in claimed:
    na.pop(i, None)
for i in ids:
    if (i in claimed) == (i in na):
        sys.exit(f"{i}: must be in exactly one of claimed / not_applicable")
for i in list(claimed) + list(na):
    if i not in ids:
        sys.exit(f"{i}: unknown property id")

GO_ENV = "PATH=/opt/veriftools/go1.26.8/bin:$PATH GOTOOLCHAIN=local GOFLAGS=-mod=mod GOPROXY=off GOSUMDB=off"
checks = []
for i in ids:
    if i not in claimed:
        continue
    c = claimed[i]
    checks.append({
        "property_id": i,
        "quick_cmd": f"/verif/bin/gosymx check {i} --tier quick",
        "thorough_cmd": f"/verif/bin/gosymx check {i} --tier thorough",
        "evidence_file": f"/verif/evidence/{i}.json",
        "replay_cmd_template": "/verif/bin/gosymx replay {path}",
        "engine": "gosymx",
        "level_claimed": {
            "category": "model_checking",
            "text": c["text"],
            "design_ref": c.get("design_ref", f"DESIGN.md §7 {i}"),
        },
        "level_note": c["note"],
        "technique": c.get("technique", "bounded symbolic execution of the go/ssa form of the real functions; SMT (z3) decides every branch, run-time check and assertion; counterexamples replayed natively"),
    })

manifest = {
    "version": 1,
    "setup_cmd": f"cd /verif/engine && {GO_ENV} go build -o /verif/bin/gosymx ./cmd/gosymx",
    "hooks": {
        "guard": "verif",
        "enable": "harnesses and the nd package are supplied as go build overlays (-overlay, -tags verif); nothing under /repo is added or edited for them, so there are no hook commits",
        "baseline_off_cmd": f"cd /repo && {GO_ENV} go test -json -vet=off -count=1 -timeout 25m ./errguard/ ./internal/... ./sql/in_mem_table/ ./sql/sqlredact/ ./sql/planbuilder/dateparse/ ./optgen/cmd/support/ ./enginetest/scriptgen/setup/",
        "source_commits": [],
        "add_only": True,
    },
    "engines": [{
        "name": "gosymx",
        "path": "/verif/engine",
        "serves_properties": [c["property_id"] for c in checks],
        "kind_free_text": "symbolic executor for go/ssa written for this task: loads /repo's working tree (go/packages + overlay), interprets harness and callee SSA with bit-vector terms, discharges branch feasibility, Go run-time checks and assertions through long-lived z3 processes, replays every model against the natively compiled code",
    }],
    "checks": checks,
    "notes": claims.get("notes", ""),
    "not_applicable": [{"property_id": i, "reason": na[i]} for i in ids if i in na],
}
out = os.path.join(root, "MANIFEST.json")
json.dump(manifest, open(out, "w"), indent=1)
try:
    import jsonschema
    jsonschema.validate(manifest, json.load(open("/root/.vp/MANIFEST.schema.json")))
    print("MANIFEST.json valid;", len(checks), "checks,", len(manifest["not_applicable"]), "not applicable")
except ImportError:
    print("MANIFEST.json written (jsonschema not available to validate)")
