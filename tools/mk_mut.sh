#!/bin/bash
# usage: tools/mk_mut.sh <prop-id> <tag>  -> creates worktree /tmp/mut/<tag> and prints the agent prompt
id=$1; tag=$2; wt=/tmp/mut/$tag
mkdir -p /tmp/mut
git -C /repo worktree add --detach $wt HEAD >/dev/null 2>&1
cp /verif/overlay/srs_stub.go $wt/sql/types/spatial_reference_systems.go
git -C $wt update-index --assume-unchanged sql/types/spatial_reference_systems.go
python3 - "$id" "$wt" <<'PY'
import json,sys
pid,wt=sys.argv[1],sys.argv[2]
p=[json.loads(l) for l in open('/verif/properties.jsonl') if json.loads(l)['id']==pid][0]
print(f'''You are a careful software engineer doing mutation-style robustness research on the Go repository dolthub/go-mysql-server (a MySQL-compatible SQL engine). You work ONLY inside the scratch git worktree {wt} (a checkout of the repository). Do not read or write anything outside it except the Go toolchain/module cache. In particular do not look at /verif or /repo.

Environment for every go command: export PATH=/opt/veriftools/go1.26.8/bin:$PATH GOTOOLCHAIN=local GOFLAGS=-mod=mod GOPROXY=off GOSUMDB=off  (no network). The file sql/types/spatial_reference_systems.go in this worktree has been locally filled with a small stub so that the whole repository compiles (at the pinned commit it is an empty file); never include that file in a patch.

Here is a property the system is supposed to satisfy:

  "{p['title']}" — {p['statement']}
  (Intended to hold for: {p['quantifier']['text']})

Your task: produce ONE small source change (a patch of a few lines, to non-test files) that BREAKS this property while
  (a) the repository still compiles (`go build ./sql/... ./memory/... .` plus the package you touched),
  (b) the pinned regression suite still passes:  go test -vet=off -count=1 ./errguard/ ./internal/... ./sql/in_mem_table/ ./sql/sqlredact/ ./sql/planbuilder/dateparse/ ./optgen/cmd/support/ ./enginetest/scriptgen/setup/
      and preferably the existing unit tests that exercise the code you changed still pass too (find them with grep and run just those with -run; say so if they do not),
  (c) the breakage needs something SPECIFIC to manifest — a particular interleaving, a fault or error at a particular point, a multi-step sequence of operations, an unusual/boundary input, or two cooperating sites that each look fine alone — i.e. ordinary use would NOT expose it at once. A realistic slip a developer could make (off-by-one at a boundary, a dropped re-check, a wrong signedness cast, an inclusive/exclusive bound mix-up, a missing case for NULL/empty, a swapped argument in a rare branch) is ideal. Avoid changes that make every ordinary call fail.

Also write a DEMONSTRATION: a Go test file (new `_test.go` file in a suitable package, or an engine-level test using sqle.NewDefault with the in-memory provider) that PASSES on the unmodified worktree and FAILS with your change applied, exercising the public or package-level API the property talks about. Keep it deterministic (for schedule-dependent bugs force the interleaving or loop enough times with a clear failure criterion, and say how reliable it is). Use `-timeout 120s` on every go test run.

Deliverables, all inside {wt}/_mutation/ :
  - patch.diff      : `git diff` of your source change only (not the demo, not the stub file), applicable with `git apply` from the repository root
  - the demonstration file(s), plus demo_location.txt: first line exactly `<relative path where the demo file must be placed> <go package path to test, e.g. ./sql/types/> <-run regexp>`
  - NOTES.md        : which part of the property breaks, what exactly is needed for it to manifest, the commands you ran and their outcomes (build, pinned suite, related unit tests, demo with and without the patch)
Leave the worktree with your source change REVERTED (clean apart from _mutation/ and the stub file; remove your demo copy from the tree too).

Work efficiently: locate the implementation yourself with grep. Only run tests of the packages involved, with -run filters where a package is slow — the machine is shared; never run enginetest or `go test ./...` as a whole. Final answer: a short summary of the change, the trigger, and the verification results.''')
PY
