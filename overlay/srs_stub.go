package types

// Reconstruction of the emptied file sql/types/spatial_reference_systems.go
// (see DESIGN.md §2, Appendix H). Applied by overlay only while the real
// file is empty.

type SpatialRef struct {
	Name          string
	ID            uint32
	Organization  interface{}
	OrgCoordsysId interface{}
	Definition    string
	Description   interface{}
}

var SupportedSRIDs = map[uint32]SpatialRef{
	0:    {Name: "", ID: 0},
	3857: {Name: "WGS 84 / Pseudo-Mercator", ID: 3857, Organization: "EPSG", OrgCoordsysId: uint32(3857)},
	4326: {Name: "WGS 84", ID: 4326, Organization: "EPSG", OrgCoordsysId: uint32(4326)},
}
