//go:build verif

// Package c46 holds the C46 harnesses: index range operations preserve the
// set of keys they denote. It is a harness-only package (it needs both sql and
// sql/types, which an in-package harness of sql cannot import).
package c46

import (
	nd "github.com/dolthub/go-mysql-server/internal/zzverifnd"
	"github.com/dolthub/go-mysql-server/sql"
	"github.com/dolthub/go-mysql-server/sql/types"
)

// ---------------------------------------------------------------------------
// Reference model (independent of the code under test).
//
// A cut is a position on the line
//   BelowNull < NULL < AboveNull < ... Below k <= k < Above k ... < AboveAll
// A point is NULL or an int64. A cut either lies below a point or above it
// (never on it); a range column expression [lo,hi] denotes the points p with
// lo below p and hi not below p.
// ---------------------------------------------------------------------------

const (
	kBelowNull = iota
	kAboveNull
	kBelow
	kAbove
	kAboveAll
)

type cut struct {
	kind int // concrete
	key  int64
}

type rng struct{ lo, hi cut }

type point struct {
	null bool
	v    int64
}

var colType = types.Int64

func mkCut(c cut) sql.MySQLRangeCut {
	switch c.kind {
	case kBelowNull:
		return sql.BelowNull{}
	case kAboveNull:
		return sql.AboveNull{}
	case kBelow:
		return sql.Below{Key: c.key, Typ: colType}
	case kAbove:
		return sql.Above{Key: c.key, Typ: colType}
	}
	return sql.AboveAll{}
}

func mkExpr(r rng) sql.MySQLRangeColumnExpr {
	return sql.MySQLRangeColumnExpr{LowerBound: mkCut(r.lo), UpperBound: mkCut(r.hi), Typ: colType}
}

// specCut reads a cut produced by the code under test back into the model.
func specCut(c sql.MySQLRangeCut) (cut, bool) {
	switch c := c.(type) {
	case sql.BelowNull:
		return cut{kind: kBelowNull}, true
	case sql.AboveNull:
		return cut{kind: kAboveNull}, true
	case sql.AboveAll:
		return cut{kind: kAboveAll}, true
	case sql.Below:
		k, ok := c.Key.(int64)
		return cut{kind: kBelow, key: k}, ok
	case sql.Above:
		k, ok := c.Key.(int64)
		return cut{kind: kAbove, key: k}, ok
	}
	return cut{}, false
}

func specExpr(e sql.MySQLRangeColumnExpr) (rng, bool) {
	lo, ok1 := specCut(e.LowerBound)
	hi, ok2 := specCut(e.UpperBound)
	return rng{lo, hi}, ok1 && ok2
}

// class is the coarse position: 0 BelowNull, 1 AboveNull, 2 keyed, 3 AboveAll.
func class(kind int) int {
	switch kind {
	case kBelowNull:
		return 0
	case kAboveNull:
		return 1
	case kAboveAll:
		return 3
	}
	return 2
}

// side of a keyed cut relative to its key: 0 just below, 1 just above.
func side(kind int) int {
	if kind == kAbove {
		return 1
	}
	return 0
}

// refLT: position(a) < position(b). Kinds are concrete, keys symbolic.
func refLT(a, b cut) bool {
	ca, cb := class(a.kind), class(b.kind)
	if ca != cb {
		return ca < cb
	}
	if ca != 2 {
		return false
	}
	// (key, side) lexicographically
	return nd.Or(a.key < b.key, nd.And(a.key == b.key, side(a.kind) < side(b.kind)))
}

func refEQ(a, b cut) bool {
	ca, cb := class(a.kind), class(b.kind)
	if ca != cb {
		return false
	}
	if ca != 2 {
		return true
	}
	return nd.And(a.key == b.key, a.kind == b.kind)
}

func refLE(a, b cut) bool { return !refLT(b, a) }

// below: the cut lies below the point.
func below(c cut, p point) bool {
	switch c.kind {
	case kBelowNull:
		return true
	case kAboveNull:
		return !p.null
	case kBelow:
		return nd.And(!p.null, p.v >= c.key)
	case kAbove:
		return nd.And(!p.null, p.v > c.key)
	}
	return false // AboveAll
}

// in: point membership in a range column expression, by definition.
func in(r rng, p point) bool {
	return nd.And(below(r.lo, p), !below(r.hi, p))
}

// ---------------------------------------------------------------------------
// Input generators.
// ---------------------------------------------------------------------------

func ndCut(name string) cut {
	c := cut{kind: nd.Pick(name+".kind", 5)}
	if c.kind == kBelow || c.kind == kAbove {
		c.key = nd.Int64(name + ".key")
	}
	return c
}

// The 16 shapes (lower kind, upper kind) that can satisfy lower <= upper,
// most representative first so that a prefix can serve as the quick bound.
var shapes = [16][2]int{
	// the first four already use every cut kind in every admissible role
	{kBelow, kAbove},         // [a, b]
	{kAbove, kAboveAll},      // x > a
	{kAboveNull, kBelow},     // x < b
	{kBelowNull, kAboveNull}, // IS NULL
	{kAbove, kBelow},         // (a, b)
	{kBelowNull, kAboveAll},  // everything
	{kBelow, kAboveAll},      // x >= a
	{kAboveNull, kAbove},     // x <= b
	{kBelow, kBelow},         // [a, b)
	{kAbove, kAbove},         // (a, b]
	{kAboveNull, kAboveAll},  // IS NOT NULL
	{kBelowNull, kBelow},     // NULL or x < b
	{kBelowNull, kAbove},     // NULL or x <= b
	{kAboveAll, kAboveAll},   // empty
	{kAboveNull, kAboveNull}, // empty
	{kBelowNull, kBelowNull}, // empty
}

// ndKey is a symbolic key of the given width, widened to the int64 the
// column type stores (64 = full range).
func ndKey(name string, bits int) int64 {
	switch bits {
	case 8:
		return int64(nd.Int8(name))
	case 16:
		return int64(nd.Int16(name))
	case 32:
		return int64(nd.Int32(name))
	}
	return nd.Int64(name)
}

// ndRangeW yields a valid (lower <= upper) range whose shape is one of the
// first nshapes shapes and whose keys are bits wide.
func ndRangeW(name string, nshapes, bits int) rng {
	s := shapes[nd.Pick(name+".shape", nshapes)]
	r := rng{cut{kind: s[0]}, cut{kind: s[1]}}
	if class(s[0]) == 2 {
		r.lo.key = ndKey(name+".lo", bits)
	}
	if class(s[1]) == 2 {
		r.hi.key = ndKey(name+".hi", bits)
	}
	nd.Assume(refLE(r.lo, r.hi))
	return r
}

func ndRange(name string, nshapes int) rng { return ndRangeW(name, nshapes, 64) }

func ndPoint(name string) point { return ndPointW(name, 64) }

func ndPointW(name string, bits int) point {
	return point{null: nd.Bool(name + ".null"), v: ndKey(name+".v", bits)}
}

func sign(x int) int {
	if x < 0 {
		return -1
	}
	if x > 0 {
		return 1
	}
	return 0
}

// ---------------------------------------------------------------------------
// (1) The cut order.
// ---------------------------------------------------------------------------

// Compare is the total order given by the reference position function, is
// antisymmetric, and is monotone w.r.t. the denotation (a <= b: every point
// above b is above a).
func VerifC46CutCompare() {
	a, b := ndCut("a"), ndCut("b")
	p := ndPoint("p")
	ca, cb := mkCut(a), mkCut(b)
	ab, err1 := ca.Compare(nil, cb, colType)
	ba, err2 := cb.Compare(nil, ca, colType)
	nd.Reach("c46.cut.compare")
	nd.Assert("c46.cut.compare.no-error", nd.And(err1 == nil, err2 == nil))
	lt, eq := refLT(a, b), refEQ(a, b)
	nd.Assert("c46.cut.compare.position", nd.And((ab < 0) == lt, (ab == 0) == eq))
	nd.Assert("c46.cut.compare.antisymmetric", nd.And((ba > 0) == (ab < 0), (ba == 0) == (ab == 0)))
	nd.Assert("c46.cut.compare.monotone", nd.Implies(nd.And(ab <= 0, below(b, p)), below(a, p)))
	nd.Observe(sign(ab), sign(ba))
}

// Transitivity on three cuts, stated on the code's own answers.
func VerifC46CutCompareTransitive() {
	a, b, c := ndCut("a"), ndCut("b"), ndCut("c")
	ca, cb, cc := mkCut(a), mkCut(b), mkCut(c)
	ab, _ := ca.Compare(nil, cb, colType)
	bc, _ := cb.Compare(nil, cc, colType)
	ac, _ := ca.Compare(nil, cc, colType)
	nd.Reach("c46.cut.transitive")
	nd.Assert("c46.cut.transitive.le", nd.Implies(nd.And(ab <= 0, bc <= 0), ac <= 0))
	nd.Assert("c46.cut.transitive.lt", nd.Implies(nd.And(ab <= 0, bc < 0), ac < 0))
	nd.Assert("c46.cut.transitive.eq", nd.Implies(nd.And(ab == 0, bc == 0), ac == 0))
}

// GetMySQLRangeCutMin/Max return an argument at the extreme position.
func VerifC46CutMinMax() {
	a, b, c := ndCut("a"), ndCut("b"), ndCut("c")
	ca, cb, cc := mkCut(a), mkCut(b), mkCut(c)
	mn, err1 := sql.GetMySQLRangeCutMin(nil, colType, ca, cb, cc)
	mx, err2 := sql.GetMySQLRangeCutMax(nil, colType, ca, cb, cc)
	nd.Reach("c46.cut.minmax")
	nd.Assert("c46.cut.minmax.no-error", nd.And(err1 == nil, err2 == nil))
	m, ok1 := specCut(mn)
	x, ok2 := specCut(mx)
	nd.Assert("c46.cut.minmax.kind", ok1 && ok2)
	nd.Assert("c46.cut.min.lower-bound", nd.And(refLE(m, a), nd.And(refLE(m, b), refLE(m, c))))
	nd.Assert("c46.cut.min.is-argument", nd.Or(refEQ(m, a), nd.Or(refEQ(m, b), refEQ(m, c))))
	nd.Assert("c46.cut.max.upper-bound", nd.And(refLE(a, x), nd.And(refLE(b, x), refLE(c, x))))
	nd.Assert("c46.cut.max.is-argument", nd.Or(refEQ(x, a), nd.Or(refEQ(x, b), refEQ(x, c))))
}

// ---------------------------------------------------------------------------
// (2) Operations on one column.
// ---------------------------------------------------------------------------

func VerifC46ColIntersect() {
	a, b := ndRange("a", nd.Bound(10, 16)), ndRange("b", nd.Bound(10, 16))
	p := ndPoint("p")
	res, ok, err := mkExpr(a).TryIntersect(nil, mkExpr(b))
	nd.Reach("c46.col.intersect")
	nd.Assert("c46.col.intersect.no-error", err == nil)
	r, isInt := specExpr(res)
	nd.Assert("c46.col.intersect.kind", isInt)
	nd.Assert("c46.col.intersect.valid", refLE(r.lo, r.hi))
	inR, inA, inB := in(r, p), in(a, p), in(b, p)
	nd.Assert("c46.col.intersect.sound-a", nd.Implies(inR, inA))
	nd.Assert("c46.col.intersect.sound-b", nd.Implies(inR, inB))
	nd.Assert("c46.col.intersect.complete", nd.Implies(nd.And(inA, inB), inR))
	// "Returns true if the intersection result is not the empty range".
	nd.Assert("c46.col.intersect.ok-iff-nonempty", ok == refLT(r.lo, r.hi))
	nd.Observe(ok)
}

// TryUnion: when it succeeds the result denotes exactly a ∪ b; it may only
// refuse when the two ranges share no point.
func VerifC46ColUnion() {
	a, b := ndRange("a", nd.Bound(10, 16)), ndRange("b", nd.Bound(10, 16))
	p := ndPoint("p")
	res, ok, err := mkExpr(a).TryUnion(nil, mkExpr(b))
	nd.Reach("c46.col.union")
	nd.Assert("c46.col.union.no-error", err == nil)
	inA, inB := in(a, p), in(b, p)
	nd.Observe(ok)
	if !ok {
		nd.Assert("c46.col.union.refused-only-if-disjoint", !nd.And(inA, inB))
		return
	}
	r, isInt := specExpr(res)
	nd.Assert("c46.col.union.kind", isInt)
	inR := in(r, p)
	nd.Assert("c46.col.union.sound", nd.Implies(inR, nd.Or(inA, inB)))
	nd.Assert("c46.col.union.complete-a", nd.Implies(inA, inR))
	nd.Assert("c46.col.union.complete-b", nd.Implies(inB, inR))
}

// Subtract: the pieces denote exactly a \ b.
func VerifC46ColSubtract() {
	a, b := ndRange("a", nd.Bound(10, 16)), ndRange("b", nd.Bound(10, 16))
	p := ndPoint("p")
	res, err := mkExpr(a).Subtract(nil, mkExpr(b))
	nd.Reach("c46.col.subtract")
	nd.Assert("c46.col.subtract.no-error", err == nil)
	nd.Assert("c46.col.subtract.at-most-two", len(res) <= 2)
	inA, inB := in(a, p), in(b, p)
	inRes, hits := false, 0
	for _, e := range res {
		r, isInt := specExpr(e)
		nd.Assert("c46.col.subtract.kind", isInt)
		x := in(r, p)
		inRes = nd.Or(inRes, x)
		hits += b2i(x)
	}
	nd.Assert("c46.col.subtract.sound-in-a", nd.Implies(inRes, inA))
	nd.Assert("c46.col.subtract.sound-not-in-b", nd.Implies(inRes, !inB))
	nd.Assert("c46.col.subtract.complete", nd.Implies(nd.And(inA, !inB), inRes))
	nd.Assert("c46.col.subtract.pieces-disjoint", hits <= 1)
	nd.Observe(len(res))
}

func b2i(b bool) int {
	r := 0
	if b {
		r = 1
	}
	return r
}

// IsSubsetOf: a positive answer is sound for every point; for a range that is
// non-empty on the cut line the answer is exactly "bounds are nested".
func VerifC46ColSubset() {
	a, b := ndRange("a", nd.Bound(10, 16)), ndRange("b", nd.Bound(10, 16))
	p := ndPoint("p")
	sub, err := mkExpr(a).IsSubsetOf(nil, mkExpr(b))
	sup, err2 := mkExpr(b).IsSupersetOf(nil, mkExpr(a))
	nd.Reach("c46.col.subset")
	nd.Assert("c46.col.subset.no-error", nd.And(err == nil, err2 == nil))
	nd.Assert("c46.col.subset.sound", nd.Implies(nd.And(sub, in(a, p)), in(b, p)))
	nested := nd.And(refLE(b.lo, a.lo), refLE(a.hi, b.hi))
	nd.Assert("c46.col.subset.nested-bounds", nd.Implies(refLT(a.lo, a.hi), sub == nested))
	nd.Assert("c46.col.subset.superset-is-converse", sub == sup)
	nd.Observe(sub)
}

// Overlaps: the returned region is exactly a ∩ b; "no overlap" only if the
// ranges share no point.
func VerifC46ColOverlaps() {
	a, b := ndRange("a", nd.Bound(10, 16)), ndRange("b", nd.Bound(10, 16))
	p := ndPoint("p")
	res, ok, err := mkExpr(a).Overlaps(nil, mkExpr(b))
	nd.Reach("c46.col.overlaps")
	nd.Assert("c46.col.overlaps.no-error", err == nil)
	r, isInt := specExpr(res)
	nd.Assert("c46.col.overlaps.kind", isInt)
	inR, inA, inB := in(r, p), in(a, p), in(b, p)
	nd.Assert("c46.col.overlaps.sound-a", nd.Implies(inR, inA))
	nd.Assert("c46.col.overlaps.sound-b", nd.Implies(inR, inB))
	nd.Assert("c46.col.overlaps.complete", nd.Implies(nd.And(inA, inB), inR))
	nd.Assert("c46.col.overlaps.false-only-if-disjoint", nd.Implies(!ok, !nd.And(inA, inB)))
	nd.Observe(ok)
}

// IsConnected: "overlaps or is adjacent". Not connected => no common point;
// connected => the hull [min lower, max upper] adds no point; touching cuts
// are connected.
func VerifC46ColConnected() {
	a, b := ndRange("a", nd.Bound(10, 16)), ndRange("b", nd.Bound(10, 16))
	p := ndPoint("p")
	conn, err := mkExpr(a).IsConnected(nil, mkExpr(b))
	nd.Reach("c46.col.connected")
	nd.Assert("c46.col.connected.no-error", err == nil)
	inA, inB := in(a, p), in(b, p)
	// min(lower) is below p iff some lower is; max(upper) is below p iff both are.
	inHull := nd.And(nd.Or(below(a.lo, p), below(b.lo, p)), !nd.And(below(a.hi, p), below(b.hi, p)))
	nd.Assert("c46.col.connected.false-only-if-disjoint", nd.Implies(!conn, !nd.And(inA, inB)))
	nd.Assert("c46.col.connected.hull-exact", nd.Implies(nd.And(conn, inHull), nd.Or(inA, inB)))
	nd.Assert("c46.col.connected.adjacent", nd.Implies(nd.Or(refEQ(a.hi, b.lo), refEQ(b.hi, a.lo)), conn))
	nd.Observe(conn)
}

// ---------------------------------------------------------------------------
// Multi-range / multi-column model.
// ---------------------------------------------------------------------------

func mkRange(cols []rng) sql.MySQLRange {
	out := make(sql.MySQLRange, len(cols))
	for i, c := range cols {
		out[i] = mkExpr(c)
	}
	return out
}

func inCols(cols []rng, p []point) bool {
	r := true
	for i, c := range cols {
		r = nd.And(r, in(c, p[i]))
	}
	return r
}

// specRange reads a MySQLRange of the code back into the model. A range whose
// column count differs from the probe's denotes nothing (MySQLRange.IsEmpty
// documents the zero-column range as empty).
func specRange(rg sql.MySQLRange, ncols int) ([]rng, bool, bool) {
	if len(rg) != ncols {
		return nil, false, true
	}
	out := make([]rng, ncols)
	kindOK := true
	for i, e := range rg {
		r, ok := specExpr(e)
		kindOK = kindOK && ok
		out[i] = r
	}
	return out, true, kindOK
}

// inSQL: point-tuple membership in a MySQLRange of the code; also reports
// whether all cut keys had the expected dynamic type.
func inSQL(rg sql.MySQLRange, p []point) (bool, bool) {
	cols, has, kindOK := specRange(rg, len(p))
	if !has || !kindOK {
		return false, kindOK
	}
	return inCols(cols, p), true
}

// rangeLE: lexicographic order on (lower, upper) per column, i.e. the order
// MySQLRange.Compare is documented to implement.
func rangeLE(x, y []rng) bool {
	lt, eq := false, true
	for i := range x {
		lt = nd.Or(lt, nd.And(eq, refLT(x[i].lo, y[i].lo)))
		eq = nd.And(eq, refEQ(x[i].lo, y[i].lo))
		lt = nd.Or(lt, nd.And(eq, refLT(x[i].hi, y[i].hi)))
		eq = nd.And(eq, refEQ(x[i].hi, y[i].hi))
	}
	return nd.Or(lt, eq)
}

// ndRanges: n ranges of ncols columns; column c draws from the first
// nshapes[c] shapes.
func ndRanges(n int, nshapes []int, bits int) [][]rng {
	out := make([][]rng, n)
	for i := 0; i < n; i++ {
		cols := make([]rng, len(nshapes))
		for c := range nshapes {
			cols[c] = ndRangeW("r"+string(rune('0'+i))+"c"+string(rune('0'+c)), nshapes[c], bits)
		}
		out[i] = cols
	}
	return out
}

func ndPoints(ncols, bits int) []point {
	p := make([]point, ncols)
	for c := range p {
		p[c] = ndPointW("p"+string(rune('0'+c)), bits)
	}
	return p
}

func inAny(in [][]rng, p []point) bool {
	r := false
	for _, x := range in {
		r = nd.Or(r, inCols(x, p))
	}
	return r
}

// checkCollection asserts, for a collection produced by the code: every cut
// has the expected dynamic type; the union at p equals want; at most one
// member contains p; members are sorted.
func checkCollection(id string, out []sql.MySQLRange, p []point, want bool, disjoint, sorted bool) {
	got, hits := false, 0
	var prev []rng
	for _, rg := range out {
		cols, has, kindOK := specRange(rg, len(p))
		nd.Assert(id+".kind", kindOK)
		if !has || !kindOK {
			continue
		}
		x := inCols(cols, p)
		got = nd.Or(got, x)
		hits += b2i(x)
		if sorted && prev != nil {
			nd.Assert(id+".sorted", rangeLE(prev, cols))
		}
		prev = cols
	}
	nd.Assert(id+".no-point-added", nd.Implies(got, want))
	nd.Assert(id+".no-point-lost", nd.Implies(want, got))
	if disjoint {
		nd.Assert(id+".non-overlapping", hits <= 1)
	}
}

// ---------------------------------------------------------------------------
// (2)/(3) Operations on several ranges.
//
// multiBits is the key width of the harnesses with >= 3 symbolic keys per
// column: chains of 64-bit order constraints over 6-8 variables are where the
// solver stops answering, so these keys are symbolic over a narrower domain
// (stored as int64 in a BIGINT column; the code only compares keys).
// ---------------------------------------------------------------------------

func multiBits() int { return nd.Bound(8, 16) }

// SimplifyRangeColumn: same union, results sorted and pairwise disjoint.
func VerifC46Simplify() {
	n := nd.IntRange("n", 1, 3)
	in := ndRanges(n, []int{nd.Bound(4, 6)}, multiBits())
	p := ndPoints(1, 64)
	exprs := make([]sql.MySQLRangeColumnExpr, n)
	for i := range in {
		exprs[i] = mkExpr(in[i][0])
	}
	res, err := sql.SimplifyRangeColumn(nil, exprs...)
	nd.Reach("c46.simplify")
	nd.Assert("c46.simplify.no-error", err == nil)
	out := make([]sql.MySQLRange, len(res))
	for i := range res {
		out[i] = sql.MySQLRange{res[i]}
	}
	checkCollection("c46.simplify", out, p, inAny(in, p), true, true)
	nd.Observe(len(res))
}

// MySQLRange.Compare is the lexicographic order on (lower, upper) per column
// (this is the comparator SortRanges hands to sort.Slice).
func VerifC46RangeCompare() {
	in := ndRanges(2, []int{nd.Bound(3, 6), nd.Bound(3, 6)}, 64)
	ab, err1 := mkRange(in[0]).Compare(nil, mkRange(in[1]))
	ba, err2 := mkRange(in[1]).Compare(nil, mkRange(in[0]))
	nd.Reach("c46.range.compare")
	nd.Assert("c46.range.compare.no-error", nd.And(err1 == nil, err2 == nil))
	le, ge := rangeLE(in[0], in[1]), rangeLE(in[1], in[0])
	nd.Assert("c46.range.compare.lexicographic", nd.And((ab <= 0) == le, (ab >= 0) == ge))
	nd.Assert("c46.range.compare.antisymmetric", nd.And((ba > 0) == (ab < 0), (ba == 0) == (ab == 0)))
	nd.Observe(sign(ab))
}

// MySQLRange.Intersect on two 2-column ranges.
func VerifC46RangeIntersect() {
	in := ndRanges(2, []int{nd.Bound(3, 5), nd.Bound(2, 4)}, multiBits())
	p := ndPoints(2, 64)
	res, err := mkRange(in[0]).Intersect(nil, mkRange(in[1]))
	nd.Reach("c46.range.intersect")
	nd.Assert("c46.range.intersect.no-error", err == nil)
	want := nd.And(inCols(in[0], p), inCols(in[1], p))
	checkCollection("c46.range.intersect", []sql.MySQLRange{res}, p, want, false, false)
}

// MySQLRange.TryMerge: a successful merge denotes exactly a ∪ b.
func VerifC46RangeTryMerge() {
	in := ndRanges(2, []int{nd.Bound(3, 5), nd.Bound(2, 4)}, multiBits())
	p := ndPoints(2, 64)
	res, ok, err := mkRange(in[0]).TryMerge(nil, mkRange(in[1]))
	nd.Reach("c46.range.trymerge")
	nd.Assert("c46.range.trymerge.no-error", err == nil)
	nd.Observe(ok)
	if !ok {
		return
	}
	checkCollection("c46.range.trymerge", []sql.MySQLRange{res}, p, inAny(in, p), false, false)
}

// MySQLRange.RemoveOverlap: the pieces cover exactly a ∪ b and do not overlap.
func VerifC46RangeRemoveOverlap() {
	in := ndRanges(2, []int{nd.Bound(3, 4), nd.Bound(2, 3)}, multiBits())
	p := ndPoints(2, 64)
	res, ok, err := mkRange(in[0]).RemoveOverlap(nil, mkRange(in[1]))
	nd.Reach("c46.range.removeoverlap")
	nd.Assert("c46.range.removeoverlap.no-error", err == nil)
	checkCollection("c46.range.removeoverlap", res, p, inAny(in, p), true, false)
	nd.Observe(ok, len(res))
}

// sql.IntersectRanges: "intersects each MySQLRange for each column expression".
func VerifC46IntersectRanges() {
	n := 2
	in := ndRanges(n, []int{nd.Bound(8, 16)}, 64)
	p := ndPoints(1, 64)
	args := make([]sql.MySQLRange, n)
	want := true
	for i := range in {
		args[i] = mkRange(in[i])
		want = nd.And(want, inCols(in[i], p))
	}
	res := sql.IntersectRanges(nil, args...)
	nd.Reach("c46.intersectranges")
	checkCollection("c46.intersectranges", []sql.MySQLRange{res}, p, want, false, false)
}

// sql.RemoveOverlappingRanges on one column: same union, sorted, disjoint.
func VerifC46RemoveOverlapping1() {
	n := nd.IntRange("n", 1, 3)
	in := ndRanges(n, []int{nd.Bound(4, 6)}, multiBits())
	p := ndPoints(1, 64)
	args := make([]sql.MySQLRange, n)
	for i := range in {
		args[i] = mkRange(in[i])
	}
	res, err := sql.RemoveOverlappingRanges(nil, args...)
	nd.Reach("c46.removeoverlapping.1col")
	nd.Assert("c46.removeoverlapping.1col.no-error", err == nil)
	checkCollection("c46.removeoverlapping.1col", res, p, inAny(in, p), true, true)
	nd.Observe(len(res))
}

// sql.RemoveOverlappingRanges on two columns (inner trees).
func VerifC46RemoveOverlapping2() {
	n := 2
	in := ndRanges(n, []int{nd.Bound(3, 4), nd.Bound(2, 3)}, multiBits())
	p := ndPoints(2, 64)
	args := make([]sql.MySQLRange, n)
	for i := range in {
		args[i] = mkRange(in[i])
	}
	res, err := sql.RemoveOverlappingRanges(nil, args...)
	nd.Reach("c46.removeoverlapping.2col")
	nd.Assert("c46.removeoverlapping.2col.no-error", err == nil)
	checkCollection("c46.removeoverlapping.2col", res, p, inAny(in, p), true, true)
	nd.Observe(len(res))
}

// zzSortRanges is the SortRanges harness (a sorted permutation, multiplicity
// at p preserved). It is NOT registered: sort.Slice reaches
// internal/reflectlite.ValueOf, which the executor does not interpret. Rename
// to VerifC46SortRanges to enable it.
func zzSortRanges() {
	n := nd.IntRange("n", 1, 3)
	in := ndRanges(n, []int{nd.Bound(5, 16)}, 64)
	p := ndPoints(1, 64)
	args := make([]sql.MySQLRange, n)
	wantHits := 0
	for i := range in {
		args[i] = mkRange(in[i])
		wantHits += b2i(inCols(in[i], p))
	}
	res, err := sql.SortRanges(nil, args...)
	nd.Reach("c46.sortranges")
	nd.Assert("c46.sortranges.no-error", err == nil)
	nd.Assert("c46.sortranges.same-length", len(res) == n)
	checkCollection("c46.sortranges", res, p, inAny(in, p), false, true)
	hits := 0
	for _, rg := range res {
		x, _ := inSQL(rg, p)
		hits += b2i(x)
	}
	nd.Assert("c46.sortranges.multiplicity", hits == wantHits)
}

var _ = zzSortRanges
