//go:build verif

// Package c01: experiments with whole-engine execution under the symbolic executor.
package c01

import (
	sqle "github.com/dolthub/go-mysql-server"
	nd "github.com/dolthub/go-mysql-server/internal/zzverifnd"
	"github.com/dolthub/go-mysql-server/memory"
	"github.com/dolthub/go-mysql-server/sql"
)

func c01Engine() (*sqle.Engine, *sql.Context) {
	db := memory.NewDatabase("d")
	pro := memory.NewDBProvider(db)
	e := sqle.NewDefault(pro)
	sess := memory.NewSession(sql.NewBaseSession(), pro)
	ctx := sql.NewContext(nil, sql.WithSession(sess))
	ctx.SetCurrentDatabase("d")
	return e, ctx
}

func c01Run(e *sqle.Engine, ctx *sql.Context, q string) ([]sql.Row, error) {
	_, it, _, err := e.Query(ctx, q)
	if err != nil {
		return nil, err
	}
	return sql.RowIterToRows(ctx, it)
}

func VerifC01Probe() {
	e, ctx := c01Engine()
	_, err := c01Run(e, ctx, "create table t (a bigint primary key, b bigint)")
	nd.Assert("c01.probe.create", err == nil)
	_, err = c01Run(e, ctx, "insert into t values (1, 2)")
	nd.Assert("c01.probe.insert", err == nil)
	rows, err := c01Run(e, ctx, "select a, b from t where b > 1")
	nd.Reach("c01.probe")
	nd.Assert("c01.probe.select", err == nil && len(rows) == 1)
}
