//go:build verif

// Package c03 holds the C03 harnesses: index lookups return exactly the rows
// a full scan would — for range construction (sql.MySQLIndexBuilder) and the
// range -> row-filter conversion (expression.NewRangeFilterExpr) over integer
// keys. Harness-only package (needs sql, sql/types and sql/expression).
package c03

import (
	nd "github.com/dolthub/go-mysql-server/internal/zzverifnd"
	"github.com/dolthub/go-mysql-server/sql"
	"github.com/dolthub/go-mysql-server/sql/expression"
	"github.com/dolthub/go-mysql-server/sql/types"
)

// ---------------------------------------------------------------------------
// Mathematical integers covering int64 ∪ uint64: 128-bit two's complement.
// ---------------------------------------------------------------------------

type wide struct {
	hi int64
	lo uint64
}

func wInt(x int64) wide   { return wide{x >> 63, uint64(x)} }
func wUint(u uint64) wide { return wide{0, u} }

func wLT(a, b wide) bool { return nd.Or(a.hi < b.hi, nd.And(a.hi == b.hi, a.lo < b.lo)) }
func wEQ(a, b wide) bool { return nd.And(a.hi == b.hi, a.lo == b.lo) }

// toWide reads an integer of any Go integer type (cut keys are stored in the
// column's Go type).
func toWide(v interface{}) (wide, bool) {
	switch x := v.(type) {
	case int8:
		return wInt(int64(x)), true
	case int16:
		return wInt(int64(x)), true
	case int32:
		return wInt(int64(x)), true
	case int64:
		return wInt(x), true
	case int:
		return wInt(int64(x)), true
	case uint8:
		return wUint(uint64(x)), true
	case uint16:
		return wUint(uint64(x)), true
	case uint32:
		return wUint(uint64(x)), true
	case uint64:
		return wUint(x), true
	case uint:
		return wUint(uint64(x)), true
	}
	return wide{}, false
}

// ---------------------------------------------------------------------------
// Reference denotation of cuts and ranges (written from the cut definitions:
// BelowNull < NULL < AboveNull < Below k <= k < Above k < AboveAll).
// ---------------------------------------------------------------------------

type point struct {
	null bool
	v    wide
}

// below: the cut lies below the point. Second result: the cut was of a known
// kind with an integer key.
func below(c sql.MySQLRangeCut, p point) (bool, bool) {
	switch c := c.(type) {
	case sql.BelowNull:
		return true, true
	case sql.AboveNull:
		return !p.null, true
	case sql.AboveAll:
		return false, true
	case sql.Below:
		k, ok := toWide(c.Key)
		return nd.And(!p.null, !wLT(p.v, k)), ok
	case sql.Above:
		k, ok := toWide(c.Key)
		return nd.And(!p.null, wLT(k, p.v)), ok
	}
	return false, false
}

func inExpr(e sql.MySQLRangeColumnExpr, p point) (bool, bool) {
	lo, ok1 := below(e.LowerBound, p)
	hi, ok2 := below(e.UpperBound, p)
	return nd.And(lo, !hi), ok1 && ok2
}

func inRange(r sql.MySQLRange, p []point) (bool, bool) {
	if len(r) != len(p) {
		return false, true
	}
	res, kindOK := true, true
	for i := range r {
		x, ok := inExpr(r[i], p[i])
		res = nd.And(res, x)
		kindOK = kindOK && ok
	}
	return res, kindOK
}

func b2i(b bool) int {
	r := 0
	if b {
		r = 1
	}
	return r
}

// membership of the row in the union of the ranges, number of ranges that
// contain it, and whether every cut could be read.
func inCollection(rc []sql.MySQLRange, p []point) (bool, int, bool) {
	res, hits, kindOK := false, 0, true
	for _, r := range rc {
		x, ok := inRange(r, p)
		res = nd.Or(res, x)
		hits += b2i(x)
		kindOK = kindOK && ok
	}
	return res, hits, kindOK
}

// ---------------------------------------------------------------------------
// Column types, row values, literals.
// ---------------------------------------------------------------------------

const (
	tInt8 = iota
	tUint8
	tInt16
	tInt64
	tUint64
)

func colType(kind int) sql.Type {
	switch kind {
	case tInt8:
		return types.Int8
	case tUint8:
		return types.Uint8
	case tInt16:
		return types.Int16
	case tInt64:
		return types.Int64
	}
	return types.Uint64
}

// ndColValue: a symbolic in-range value of the column's Go type.
func ndColValue(name string, kind int) (interface{}, wide) {
	switch kind {
	case tInt8:
		x := nd.Int8(name)
		return x, wInt(int64(x))
	case tUint8:
		x := nd.Uint8(name)
		return x, wUint(uint64(x))
	case tInt16:
		x := nd.Int16(name)
		return x, wInt(int64(x))
	case tInt64:
		x := nd.Int64(name)
		return x, wInt(x)
	}
	x := nd.Uint64(name)
	return x, wUint(x)
}

// ndLiteral: a literal key as the planner passes it: an int64 (any value,
// also outside the column's range) or, when nlit == 2, a uint64.
func ndLiteral(name string, nlit int) (interface{}, sql.Type, wide) {
	if nd.Pick(name+".kind", nlit) == 0 {
		x := nd.Int64(name)
		return x, types.Int64, wInt(x)
	}
	u := nd.Uint64(name + ".u")
	return u, types.Uint64, wUint(u)
}

// nLiteralKinds: uint64 literals are drawn for the 64-bit column types, and at
// the thorough tier for every column type as long as the chain has <= 2
// operations (a third conjunct with both literal kinds does not fit the budget).
func nLiteralKinds(kind, chain int) int {
	if kind == tInt64 || kind == tUint64 || (nd.Tier() > 0 && chain <= 2) {
		return 2
	}
	return 1
}

// ---------------------------------------------------------------------------
// Predicates by SQL semantics on mathematical integers.
// ---------------------------------------------------------------------------

const (
	opEq = iota
	opNe
	opGt
	opGe
	opLt
	opLe
	opIsNull
	opIsNotNull
	nOps
)

func pred(op int, p point, k wide) bool {
	switch op {
	case opIsNull:
		return p.null
	case opIsNotNull:
		return !p.null
	}
	var c bool
	switch op {
	case opEq:
		c = wEQ(p.v, k)
	case opNe:
		c = !wEQ(p.v, k)
	case opGt:
		c = wLT(k, p.v)
	case opGe:
		c = !wLT(p.v, k)
	case opLt:
		c = wLT(p.v, k)
	default:
		c = !wLT(k, p.v)
	}
	// a NULL row value never satisfies a comparison
	return nd.And(!p.null, c)
}

func apply(b *sql.MySQLIndexBuilder, col string, op int, key interface{}, keyType sql.Type) {
	switch op {
	case opEq:
		b.Equals(nil, col, keyType, key)
	case opNe:
		b.NotEquals(nil, col, keyType, key)
	case opGt:
		b.GreaterThan(nil, col, keyType, key)
	case opGe:
		b.GreaterOrEqual(nil, col, keyType, key)
	case opLt:
		b.LessThan(nil, col, keyType, key)
	case opLe:
		b.LessOrEqual(nil, col, keyType, key)
	case opIsNull:
		b.IsNull(nil, col)
	default:
		b.IsNotNull(nil, col)
	}
}

// ndOp draws one operation on col, applies it to the builder and returns the
// reference truth value for the row value p.
func ndOp(b *sql.MySQLIndexBuilder, name, col string, nlit int, p point) bool {
	op := nd.Pick(name, nOps)
	if op >= opIsNull {
		apply(b, col, op, nil, nil)
		return pred(op, p, wide{})
	}
	key, keyType, k := ndLiteral(name+".key", nlit)
	apply(b, col, op, key, keyType)
	return pred(op, p, k)
}

// ---------------------------------------------------------------------------
// Test double for sql.Index: expressions and types only.
// ---------------------------------------------------------------------------

type fakeIndex struct {
	cols []sql.ColumnExpressionType
}

var _ sql.Index = (*fakeIndex)(nil)

func (f *fakeIndex) ID() string       { return "zz_idx" }
func (f *fakeIndex) Database() string { return "db" }
func (f *fakeIndex) Table() string    { return "t" }
func (f *fakeIndex) Expressions() []string {
	out := make([]string, len(f.cols))
	for i, c := range f.cols {
		out[i] = c.Expression
	}
	return out
}
func (f *fakeIndex) IsUnique() bool    { return false }
func (f *fakeIndex) IsSpatial() bool   { return false }
func (f *fakeIndex) IsFullText() bool  { return false }
func (f *fakeIndex) IsVector() bool    { return false }
func (f *fakeIndex) Comment() string   { return "" }
func (f *fakeIndex) IndexType() string { return "BTREE" }
func (f *fakeIndex) IsGenerated() bool { return false }
func (f *fakeIndex) ColumnExpressionTypes(*sql.Context) []sql.ColumnExpressionType {
	return f.cols
}
func (f *fakeIndex) CanSupport(*sql.Context, ...sql.Range) bool { return true }
func (f *fakeIndex) CanSupportOrderBy(sql.Expression) bool      { return false }
func (f *fakeIndex) CoversColumns([]string) bool                { return false }
func (f *fakeIndex) PrefixLengths() []uint16                    { return nil }

// finish builds the lookup and returns the ranges.
func finish(id string, b *sql.MySQLIndexBuilder, idx sql.Index) []sql.MySQLRange {
	rc := b.Ranges(nil)
	lookup, err := b.Build(nil)
	nd.Reach(id)
	nd.Assert(id+".no-error", err == nil)
	lr, isMy := lookup.Ranges.(sql.MySQLRangeCollection)
	nd.Assert(id+".lookup-carries-ranges", nd.And(isMy, len(lr) == len(rc)))
	nd.Assert(id+".lookup-index", lookup.Index == idx)
	return rc
}

// ---------------------------------------------------------------------------
// (a) Range construction: 1-2 operations on one column.
// ---------------------------------------------------------------------------

func builderOneColumn(id string, kind int) {
	idx := &fakeIndex{cols: []sql.ColumnExpressionType{{Type: colType(kind), Expression: "t.a"}}}
	b := sql.NewMySQLIndexBuilder(nil, idx)
	_, v := ndColValue("row", kind)
	p := point{null: nd.Bool("row.null"), v: v}
	maxN := nd.Bound(2, 3)
	if kind == tInt64 || kind == tUint64 {
		maxN = 2
	}
	n := nd.IntRange("n", 1, maxN)
	want := true
	for i := 0; i < n; i++ {
		want = nd.And(want, ndOp(b, "op"+string(rune('0'+i)), "t.a", nLiteralKinds(kind, n), p))
	}
	rc := finish(id, b, idx)
	got, hits, kindOK := inCollection(rc, []point{p})
	nd.Assert(id+".cut-keys-are-integers", kindOK)
	nd.Assert(id+".no-row-lost", nd.Implies(want, got))
	nd.Assert(id+".no-row-added", nd.Implies(got, want))
	nd.Assert(id+".no-row-twice", hits <= 1)
	nd.Observe(len(rc))
}

func VerifC03BuilderInt8()   { builderOneColumn("c03.builder.int8", tInt8) }
func VerifC03BuilderUint8()  { builderOneColumn("c03.builder.uint8", tUint8) }
func VerifC03BuilderInt16()  { builderOneColumn("c03.builder.int16", tInt16) }
func VerifC03BuilderInt64()  { builderOneColumn("c03.builder.int64", tInt64) }
func VerifC03BuilderUint64() { builderOneColumn("c03.builder.uint64", tUint64) }

// IN / NOT IN lists of two literals, optionally followed by one more
// operation. The planner hands the builder's ranges to
// sql.RemoveOverlappingRanges (analyzer/costed_index_scan.go), and repeated
// literals in an IN list legitimately yield repeated point ranges, so "no row
// twice" is asserted after that step.
func builderInList(id string, kind int) {
	idx := &fakeIndex{cols: []sql.ColumnExpressionType{{Type: colType(kind), Expression: "t.a"}}}
	b := sql.NewMySQLIndexBuilder(nil, idx)
	_, v := ndColValue("row", kind)
	p := point{null: nd.Bool("row.null"), v: v}
	l1, t1, k1 := ndLiteral("k1", nLiteralKinds(kind, 2))
	l2, t2, k2 := ndLiteral("k2", 1)
	hit := nd.Or(wEQ(p.v, k1), wEQ(p.v, k2))
	var want bool
	if nd.Pick("not", 2) == 0 {
		b.In(nil, "t.a", []sql.Type{t1, t2}, []interface{}{l1, l2})
		want = nd.And(!p.null, hit)
	} else {
		b.NotIn(nil, "t.a", []sql.Type{t1, t2}, []interface{}{l1, l2})
		want = nd.And(!p.null, !hit)
	}
	if nd.Pick("then", 2) == 1 {
		want = nd.And(want, ndOp(b, "op", "t.a", 1, p))
	}
	rc := finish(id, b, idx)
	got, _, kindOK := inCollection(rc, []point{p})
	nd.Assert(id+".cut-keys-are-integers", kindOK)
	nd.Assert(id+".no-row-lost", nd.Implies(want, got))
	nd.Assert(id+".no-row-added", nd.Implies(got, want))
	clean, err := sql.RemoveOverlappingRanges(nil, rc...)
	nd.Assert(id+".overlap-removal.no-error", err == nil)
	got2, hits2, kindOK2 := inCollection(clean, []point{p})
	nd.Assert(id+".overlap-removal.cut-keys-are-integers", kindOK2)
	nd.Assert(id+".overlap-removal.no-row-lost", nd.Implies(want, got2))
	nd.Assert(id+".overlap-removal.no-row-added", nd.Implies(got2, want))
	nd.Assert(id+".overlap-removal.no-row-twice", hits2 <= 1)
	nd.Observe(len(rc), len(clean))
}

func VerifC03BuilderInListInt8()  { builderInList("c03.inlist.int8", tInt8) }
func VerifC03BuilderInListUint8() { builderInList("c03.inlist.uint8", tUint8) }

// Two-column index (t.a TINYINT, t.b BIGINT): one operation on the first
// column and optionally one on the second (otherwise the lookup is a prefix
// lookup and the second column is unconstrained).
func VerifC03BuilderTwoColumns() {
	id := "c03.builder.2col"
	idx := &fakeIndex{cols: []sql.ColumnExpressionType{
		{Type: colType(tInt8), Expression: "t.a"},
		{Type: colType(tInt64), Expression: "t.b"},
	}}
	b := sql.NewMySQLIndexBuilder(nil, idx)
	_, va := ndColValue("rowa", tInt8)
	_, vb := ndColValue("rowb", tInt64)
	p := []point{{null: nd.Bool("rowa.null"), v: va}, {null: nd.Bool("rowb.null"), v: vb}}
	want := ndOp(b, "opa", "t.a", nLiteralKinds(tInt8, 2), p[0])
	if nd.Pick("second", 2) == 1 {
		want = nd.And(want, ndOp(b, "opb", "t.b", 1, p[1]))
	}
	rc := finish(id, b, idx)
	got, hits, kindOK := inCollection(rc, p)
	nd.Assert(id+".cut-keys-are-integers", kindOK)
	nd.Assert(id+".no-row-lost", nd.Implies(want, got))
	nd.Assert(id+".no-row-added", nd.Implies(got, want))
	nd.Assert(id+".no-row-twice", hits <= 1)
	nd.Observe(len(rc))
}

// ---------------------------------------------------------------------------
// (b) Range -> filter expression.
// ---------------------------------------------------------------------------

const (
	kBelowNull = iota
	kAboveNull
	kBelow
	kAbove
	kAboveAll
)

// The 16 (lower kind, upper kind) shapes that can satisfy lower <= upper.
var shapes = [16][2]int{
	{kBelow, kAbove},
	{kAbove, kAboveAll},
	{kAboveNull, kBelow},
	{kBelowNull, kAboveNull},
	{kAbove, kBelow},
	{kBelowNull, kAboveAll},
	{kBelow, kAboveAll},
	{kAboveNull, kAbove},
	{kBelow, kBelow},
	{kAbove, kAbove},
	{kAboveNull, kAboveAll},
	{kBelowNull, kBelow},
	{kBelowNull, kAbove},
	{kAboveAll, kAboveAll},
	{kAboveNull, kAboveNull},
	{kBelowNull, kBelowNull},
}

func mkCut(kind int, key interface{}, typ sql.Type) sql.MySQLRangeCut {
	switch kind {
	case kBelowNull:
		return sql.BelowNull{}
	case kAboveNull:
		return sql.AboveNull{}
	case kBelow:
		return sql.Below{Key: key, Typ: typ}
	case kAbove:
		return sql.Above{Key: key, Typ: typ}
	}
	return sql.AboveAll{}
}

// ndExpr: a valid range column expression over the column type whose keys
// are symbolic values of the column's Go type.
func ndExpr(name string, kind, nshapes int) sql.MySQLRangeColumnExpr {
	typ := colType(kind)
	s := shapes[nd.Pick(name+".shape", nshapes)]
	var lo, hi interface{}
	var wlo, whi wide
	keyedLo, keyedHi := s[0] == kBelow || s[0] == kAbove, s[1] == kBelow || s[1] == kAbove
	if keyedLo {
		lo, wlo = ndColValue(name+".lo", kind)
	}
	if keyedHi {
		hi, whi = ndColValue(name+".hi", kind)
	}
	if keyedLo && keyedHi {
		// lower <= upper on the cut line: (key, side) lexicographically
		if s[0] == kAbove && s[1] == kBelow {
			nd.Assume(wLT(wlo, whi))
		} else {
			nd.Assume(!wLT(whi, wlo))
		}
	}
	return sql.MySQLRangeColumnExpr{LowerBound: mkCut(s[0], lo, typ), UpperBound: mkCut(s[1], hi, typ), Typ: typ}
}

// ndRow: NULL or an in-range value of the column type, as a row cell.
func ndRow(name string, kind int) (interface{}, point) {
	cell, v := ndColValue(name, kind)
	null := nd.Bool(name + ".null")
	if null {
		cell = nil
	}
	return cell, point{null: null, v: v}
}

func isTrue(v interface{}) bool {
	b, ok := v.(bool)
	return ok && b
}

func rangeFilter(id string, kind int) {
	maxN := nd.Bound(2, 3)
	if kind == tInt64 || kind == tUint64 {
		maxN = 2 // six 64-bit keys: the solver stops answering
	}
	n := nd.IntRange("n", 1, maxN)
	nshapes := nd.Bound(13, 16)
	if n == 2 {
		nshapes = nd.Bound(5, 8)
	} else if n == 3 {
		nshapes = 4
	}
	ranges := make([]sql.MySQLRange, n)
	for i := range ranges {
		ranges[i] = sql.MySQLRange{ndExpr("r"+string(rune('0'+i)), kind, nshapes)}
	}
	cell, p := ndRow("row", kind)
	field := expression.NewGetField(0, colType(kind), "a", true)
	e, err := expression.NewRangeFilterExpr(nil, []sql.Expression{field}, ranges)
	nd.Assert(id+".constructed", nd.And(err == nil, e != nil))
	res, err := e.Eval(nil, sql.Row{cell})
	nd.Reach(id)
	nd.Assert(id+".no-error", err == nil)
	member, _, kindOK := inCollection(ranges, []point{p})
	nd.Assert(id+".cut-keys-are-integers", kindOK)
	got := isTrue(res)
	nd.Assert(id+".true-implies-member", nd.Implies(got, member))
	nd.Assert(id+".member-implies-true", nd.Implies(member, got))
	nd.Observe(got)
}

func VerifC03RangeFilterInt8()   { rangeFilter("c03.filter.int8", tInt8) }
func VerifC03RangeFilterUint8()  { rangeFilter("c03.filter.uint8", tUint8) }
func VerifC03RangeFilterInt64()  { rangeFilter("c03.filter.int64", tInt64) }
func VerifC03RangeFilterUint64() { rangeFilter("c03.filter.uint64", tUint64) }

// Two columns, one range: the conjunction over the columns.
func VerifC03RangeFilterTwoColumns() {
	id := "c03.filter.2col"
	ns := nd.Bound(5, 16)
	ranges := []sql.MySQLRange{{ndExpr("ra", tInt16, ns), ndExpr("rb", tInt64, ns)}}
	ca, pa := ndRow("rowa", tInt16)
	cb, pb := ndRow("rowb", tInt64)
	fields := []sql.Expression{
		expression.NewGetField(0, colType(tInt16), "a", true),
		expression.NewGetField(1, colType(tInt64), "b", true),
	}
	e, err := expression.NewRangeFilterExpr(nil, fields, ranges)
	nd.Assert(id+".constructed", nd.And(err == nil, e != nil))
	res, err := e.Eval(nil, sql.Row{ca, cb})
	nd.Reach(id)
	nd.Assert(id+".no-error", err == nil)
	member, _, kindOK := inCollection(ranges, []point{pa, pb})
	nd.Assert(id+".cut-keys-are-integers", kindOK)
	got := isTrue(res)
	nd.Assert(id+".true-implies-member", nd.Implies(got, member))
	nd.Assert(id+".member-implies-true", nd.Implies(member, got))
}

// ---------------------------------------------------------------------------
// (a)+(b) end to end, as memory.Index does: build the ranges, turn them into
// the row filter, evaluate it on the row; TRUE iff the predicate holds.
// ---------------------------------------------------------------------------

func builderThenFilter(id string, kind int) {
	idx := &fakeIndex{cols: []sql.ColumnExpressionType{{Type: colType(kind), Expression: "t.a"}}}
	b := sql.NewMySQLIndexBuilder(nil, idx)
	cell, p := ndRow("row", kind)
	n := nd.IntRange("n", 1, 2)
	want := true
	for i := 0; i < n; i++ {
		want = nd.And(want, ndOp(b, "op"+string(rune('0'+i)), "t.a", nLiteralKinds(kind, n), p))
	}
	rc := b.Ranges(nil)
	field := expression.NewGetField(0, colType(kind), "a", true)
	e, err := expression.NewRangeFilterExpr(nil, []sql.Expression{field}, rc)
	nd.Assert(id+".constructed", nd.And(err == nil, e != nil))
	res, err := e.Eval(nil, sql.Row{cell})
	nd.Reach(id)
	nd.Assert(id+".no-error", err == nil)
	got := isTrue(res)
	nd.Assert(id+".no-row-lost", nd.Implies(want, got))
	nd.Assert(id+".no-row-added", nd.Implies(got, want))
}

func VerifC03EndToEndInt8()   { builderThenFilter("c03.e2e.int8", tInt8) }
func VerifC03EndToEndUint64() { builderThenFilter("c03.e2e.uint64", tUint64) }

// ---------------------------------------------------------------------------
// (e) Non-integer literals on integer columns: the builder rounds the key with
// floor / ceil depending on the operator. Literals are concrete DOUBLE values
// (floats are concrete-only in the executor); the row value is symbolic.
// (Added after the seeded change /verif/seeded/C05-greaterthan-ceil — floor
// turned into ceil in GreaterThan — was missed: non-integer literals were
// outside the first version's claim.)
// ---------------------------------------------------------------------------

func builderFractional(id string, kind int) {
	idx := &fakeIndex{cols: []sql.ColumnExpressionType{{Type: colType(kind), Expression: "t.a"}}}
	b := sql.NewMySQLIndexBuilder(nil, idx)
	_, v := ndColValue("fr.row", kind)
	p := point{null: nd.Bool("fr.row.null"), v: v}
	lits := [...]float64{2.5, -2.5, 0.5, -0.5, 126.5, -128.5, 2.0, -3.0, 0.0}
	c := lits[nd.Pick("fr.lit", len(lits))]
	f := int64(c) // truncation toward zero …
	if float64(f) > c {
		f-- // … corrected to floor
	}
	frac := float64(f) != c
	op := nd.Pick("fr.op", 6) // opEq..opLe
	apply(b, "t.a", op, c, types.Float64)
	k := wInt(f)
	var want bool
	switch op {
	case opEq:
		want = !frac && pred(opEq, p, k)
	case opNe:
		if frac {
			want = !p.null
		} else {
			want = pred(opNe, p, k)
		}
	case opGt: // v > c  <=>  v > floor(c)
		want = pred(opGt, p, k)
	case opGe: // v >= c <=>  v > floor(c) for fractional c, v >= c otherwise
		if frac {
			want = pred(opGt, p, k)
		} else {
			want = pred(opGe, p, k)
		}
	case opLt: // v < c  <=>  v <= floor(c) for fractional c, v < c otherwise
		if frac {
			want = pred(opLe, p, k)
		} else {
			want = pred(opLt, p, k)
		}
	default: // v <= c <=>  v <= floor(c)
		want = pred(opLe, p, k)
	}
	rc := finish(id, b, idx)
	got, hits, _ := inCollection(rc, []point{p})
	nd.Assert(id+".no-row-lost", nd.Implies(want, got))
	nd.Assert(id+".no-row-added", nd.Implies(got, want))
	nd.Assert(id+".no-row-twice", hits <= 1)
}

func VerifC03BuilderFractionalInt8()  { builderFractional("c03.fractional.int8", tInt8) }
func VerifC03BuilderFractionalInt64() { builderFractional("c03.fractional.int64", tInt64) }
