//go:build verif

package c51

import (
	"context"
	"fmt"
	"strconv"
	"strings"

	"github.com/dolthub/vitess/go/sqltypes"

	nd "github.com/dolthub/go-mysql-server/internal/zzverifnd"
	"github.com/dolthub/go-mysql-server/sql"
	"github.com/dolthub/go-mysql-server/sql/fulltext"
	"github.com/dolthub/go-mysql-server/sql/types"
)

// Package c51, storage-double harnesses (the real-memory ones are in
// zz_verif_c51_memory*.go).
//
// C51, index-maintenance half: the REAL fulltext.CreateFulltextIndexes /
// GetKeyColumns / NewSchema / fulltext.CreateEditor / fulltext.CreateMultiTableEditor /
// TableEditor.Insert / Update / Delete / getRowCount / updateGlobalCount /
// fulltext.HashRow run against slice-backed table doubles (a parent table and the
// five pseudo-index tables). After every DML operation the four index
// tables are compared with what the parent rows alone prescribe under the
// reference tokeniser of harness/sql/fulltext/zz_verif_c51.go.
//
// What each table must hold (schema.go comments + fulltext.go:34-45), for
// the multiset R of parent rows, key(r) = the row's key columns (PRIMARY /
// UNIQUE NOT NULL key) or fulltext.HashRow(r) (keyless), word equality under the
// column collation:
//
//	ROW_COUNT    one row (fulltext.HashRow(v), multiplicity of v in R, number of distinct words of v) per distinct row value v
//	POSITION     one row (word text, key(v), byte offset) per distinct v and word occurrence in v
//	DOC_COUNT    one row (word, key(v), occurrences of the word in v) per distinct v and distinct word of v
//	GLOBAL_COUNT one row (word, number of rows of R - duplicates counted - that contain the word) per word contained in some row
//
// Inputs are concrete selectors: no solver is involved, the harnesses are an
// exhaustive comparison over the enumerated histories.

// ---------------------------------------------------------------- doubles

// c51eIndex: sql.Index + fulltext.Index.
type c51eIndex struct {
	id, table string
	exprs     []string
	unique    bool
	ft        bool
	names     fulltext.IndexTableNames
	keyCols   fulltext.KeyColumns
}

var _ fulltext.Index = (*c51eIndex)(nil)

func (i *c51eIndex) ID() string            { return i.id }
func (i *c51eIndex) Database() string      { return "db" }
func (i *c51eIndex) Table() string         { return i.table }
func (i *c51eIndex) Expressions() []string { return i.exprs }
func (i *c51eIndex) IsUnique() bool        { return i.unique }
func (i *c51eIndex) IsSpatial() bool       { return false }
func (i *c51eIndex) IsFullText() bool      { return i.ft }
func (i *c51eIndex) IsVector() bool        { return false }
func (i *c51eIndex) Comment() string       { return "" }
func (i *c51eIndex) IndexType() string {
	if i.ft {
		return "FULLTEXT"
	}
	return "BTREE"
}
func (i *c51eIndex) IsGenerated() bool { return false }
func (i *c51eIndex) ColumnExpressionTypes(*sql.Context) []sql.ColumnExpressionType {
	return nil
}
func (i *c51eIndex) CanSupport(*sql.Context, ...sql.Range) bool { return true }
func (i *c51eIndex) CanSupportOrderBy(sql.Expression) bool      { return false }
func (i *c51eIndex) CoversColumns([]string) bool                { return false }
func (i *c51eIndex) PrefixLengths() []uint16                    { return nil }
func (i *c51eIndex) FullTextTableNames(*sql.Context) (fulltext.IndexTableNames, error) {
	return i.names, nil
}
func (i *c51eIndex) FullTextKeyColumns(*sql.Context) (fulltext.KeyColumns, error) {
	return i.keyCols, nil
}

// c51ePart: the single partition of a double; carries the lookup of an
// indexed access (nil = full scan).
type c51ePart struct{ lookup *sql.IndexLookup }

func (c51ePart) Key() []byte { return []byte("p") }

// c51eTable: a table as a slice of rows. With primary-key columns it is a
// map from key (compared with the columns' types, hence under their
// collation) to row: Insert of a present key fails with the duplicate
// primary key error, Delete and the delete half of Update go by key only
// (what the editor relies on, fulltext_editor.go:481). Without key columns
// it is a multiset and Delete removes one row equal in every cell.
// It is its own editor (writes are visible at once) and its own indexed
// view: IndexedAccess returns the table, LookupPartitions a partition that
// filters by the lookup's ranges.
type c51eTable struct {
	name string
	pks  sql.PrimaryKeySchema
	rows []sql.Row
	idxs []sql.Index
	// deleteMisses counts Delete calls that found no row (tolerated, as the
	// in-memory tables do).
	deleteMisses int
}

var _ fulltext.EditableTable = (*c51eTable)(nil)
var _ fulltext.IndexAlterableTable = (*c51eTable)(nil)
var _ sql.StatisticsTable = (*c51eTable)(nil)
var _ sql.PrimaryKeyTable = (*c51eTable)(nil)
var _ sql.ForeignKeyEditor = (*c51eTable)(nil)
var _ sql.AutoIncrementSetter = (*c51eTable)(nil)
var _ sql.IndexedTable = (*c51eTable)(nil)

func (t *c51eTable) Name() string                   { return t.name }
func (t *c51eTable) String() string                 { return t.name }
func (t *c51eTable) Schema(*sql.Context) sql.Schema { return t.pks.Schema }
func (t *c51eTable) Collation() sql.CollationID     { return sql.Collation_Default }
func (t *c51eTable) PrimaryKeySchema(*sql.Context) sql.PrimaryKeySchema {
	return t.pks
}
func (t *c51eTable) Partitions(*sql.Context) (sql.PartitionIter, error) {
	return sql.PartitionsToPartitionIter(c51ePart{}), nil
}
func (t *c51eTable) LookupPartitions(_ *sql.Context, lookup sql.IndexLookup) (sql.PartitionIter, error) {
	return sql.PartitionsToPartitionIter(c51ePart{lookup: &lookup}), nil
}
func (t *c51eTable) PartitionRows(ctx *sql.Context, part sql.Partition) (sql.RowIter, error) {
	p := part.(c51ePart)
	var out []sql.Row
	for _, r := range t.rows {
		if p.lookup == nil || c51eInLookup(ctx, *p.lookup, r) {
			out = append(out, append(sql.Row{}, r...))
		}
	}
	return sql.RowsToRowIter(out...), nil
}
func (t *c51eTable) Inserter(*sql.Context) sql.RowInserter { return t }
func (t *c51eTable) Updater(*sql.Context) sql.RowUpdater   { return t }
func (t *c51eTable) Deleter(*sql.Context) sql.RowDeleter   { return t }
func (t *c51eTable) IndexedAccess(*sql.Context, sql.IndexLookup) sql.IndexedTable {
	return t
}
func (t *c51eTable) GetIndexes(*sql.Context) ([]sql.Index, error) { return t.idxs, nil }
func (t *c51eTable) PreciseMatch() bool                           { return true }
func (t *c51eTable) StatementBegin(*sql.Context)                  {}
func (t *c51eTable) DiscardChanges(*sql.Context, error) error     { return nil }
func (t *c51eTable) StatementComplete(*sql.Context) error         { return nil }
func (t *c51eTable) Close(*sql.Context) error                     { return nil }
func (t *c51eTable) SetAutoIncrementValue(*sql.Context, uint64) error {
	return nil
}
func (t *c51eTable) AcquireAutoIncrementLock(*sql.Context) (func(), error) {
	return func() {}, nil
}
func (t *c51eTable) DataLength(*sql.Context) (uint64, error) { return 0, nil }
func (t *c51eTable) RowCount(*sql.Context) (uint64, bool, error) {
	return uint64(len(t.rows)), true, nil
}
func (t *c51eTable) CreateIndex(*sql.Context, sql.IndexDef) error {
	return fmt.Errorf("c51 double: CreateIndex is not expected")
}
func (t *c51eTable) DropIndex(*sql.Context, string) error {
	return fmt.Errorf("c51 double: DropIndex is not expected")
}
func (t *c51eTable) RenameIndex(*sql.Context, string, string) error {
	return fmt.Errorf("c51 double: RenameIndex is not expected")
}
func (t *c51eTable) CreateFulltextIndex(_ *sql.Context, def sql.IndexDef, keyCols fulltext.KeyColumns, names fulltext.IndexTableNames) error {
	exprs := make([]string, len(def.Columns))
	for i, c := range def.Columns {
		exprs[i] = t.name + "." + c.Name
	}
	t.idxs = append(t.idxs, &c51eIndex{id: def.Name, table: t.name, exprs: exprs, ft: true, names: names, keyCols: keyCols})
	return nil
}

// c51eCellEq / c51eRowEq: identity of parent rows (cells are nil, int64 or string).
func c51eRowEq(a, b sql.Row) bool {
	if len(a) != len(b) {
		return false
	}
	for i := range a {
		if a[i] != b[i] {
			return false
		}
	}
	return true
}

// c51eSameCell: the two cells are equal under the column's type. Identical
// values are equal under every type (and collation), two different integers
// of the same Go type are not; everything else (different texts, NULL against
// a value, mixed Go types) is decided by the type's comparison.
func c51eSameCell(ctx *sql.Context, typ sql.Type, a, b interface{}) bool {
	if a == b {
		return true
	}
	switch a.(type) {
	case int64:
		if _, ok := b.(int64); ok {
			return false
		}
	case uint64:
		if _, ok := b.(uint64); ok {
			return false
		}
	}
	c, err := typ.Compare(ctx, a, b)
	if err != nil {
		panic(err)
	}
	return c == 0
}

func (t *c51eTable) find(ctx *sql.Context, row sql.Row) int {
	for i, r := range t.rows {
		if len(t.pks.PkOrdinals) == 0 {
			if c51eRowEq(r, row) {
				return i
			}
			continue
		}
		// cheapest key columns first (integers, then short texts, then long
		// texts such as row hashes): the collation-aware comparison of a
		// column is only needed when the cheaper columns agree
		same := true
		for pass := 0; pass < 3 && same; pass++ {
			for _, o := range t.pks.PkOrdinals {
				cls := 0
				if sv, isStr := r[o].(string); isStr {
					cls = 1
					if len(sv) > 16 {
						cls = 2
					}
				}
				if cls != pass {
					continue
				}
				if !c51eSameCell(ctx, t.pks.Schema[o].Type, r[o], row[o]) {
					same = false
					break
				}
			}
		}
		if same {
			return i
		}
	}
	return -1
}

func (t *c51eTable) Insert(ctx *sql.Context, row sql.Row) error {
	if len(row) != len(t.pks.Schema) {
		return fmt.Errorf("c51 double: table %s: row of %d cells for %d columns", t.name, len(row), len(t.pks.Schema))
	}
	if len(t.pks.PkOrdinals) > 0 {
		if i := t.find(ctx, row); i >= 0 {
			return sql.NewUniqueKeyErr(t.name, true, t.rows[i])
		}
	}
	t.rows = append(t.rows, append(sql.Row{}, row...))
	return nil
}

func (t *c51eTable) Delete(ctx *sql.Context, row sql.Row) error {
	if len(row) != len(t.pks.Schema) {
		return fmt.Errorf("c51 double: table %s: row of %d cells for %d columns", t.name, len(row), len(t.pks.Schema))
	}
	i := t.find(ctx, row)
	if i < 0 {
		t.deleteMisses++
		return nil
	}
	rest := append([]sql.Row{}, t.rows[:i]...)
	t.rows = append(rest, t.rows[i+1:]...)
	return nil
}

func (t *c51eTable) Update(ctx *sql.Context, old, new sql.Row) error {
	if err := t.Delete(ctx, old); err != nil {
		return err
	}
	return t.Insert(ctx, new)
}

// c51eInLookup: the row lies in one of the lookup's ranges. The editor only
// builds closed ranges [k, k] (sql.ClosedRangeColumnExpr); anything else is
// a change of the code under test that the double does not model.
func c51eInLookup(ctx *sql.Context, lookup sql.IndexLookup, row sql.Row) bool {
	ranges, ok := lookup.Ranges.(sql.MySQLRangeCollection)
	if !ok {
		panic("c51 double: lookup without MySQL ranges")
	}
	for _, rng := range ranges {
		all := true
		for i, ce := range rng {
			lo, ok1 := ce.LowerBound.(sql.Below)
			hi, ok2 := ce.UpperBound.(sql.Above)
			if !ok1 || !ok2 {
				panic("c51 double: only closed ranges are modelled")
			}
			if lo.Key == hi.Key {
				// point range [k, k]
				if !c51eSameCell(ctx, ce.Typ, lo.Key, row[i]) {
					all = false
					break
				}
				continue
			}
			c1, err := ce.Typ.Compare(ctx, lo.Key, row[i])
			if err != nil {
				panic(err)
			}
			c2, err := ce.Typ.Compare(ctx, hi.Key, row[i])
			if err != nil {
				panic(err)
			}
			if c1 > 0 || c2 < 0 {
				all = false
				break
			}
		}
		if all {
			return true
		}
	}
	return false
}

// c51eDb: fulltext.Database (tables by name, CreateTable, table names for a
// new index).
type c51eDb struct{ tables []*c51eTable }

var _ fulltext.Database = (*c51eDb)(nil)

func (d *c51eDb) Name() string { return "db" }
func (d *c51eDb) get(name string) *c51eTable {
	for _, t := range d.tables {
		if strings.EqualFold(t.name, name) {
			return t
		}
	}
	return nil
}
func (d *c51eDb) GetTableInsensitive(_ *sql.Context, name string) (sql.Table, bool, error) {
	if t := d.get(name); t != nil {
		return t, true, nil
	}
	return nil, false, nil
}
func (d *c51eDb) GetTableNames(*sql.Context) ([]string, error) {
	var names []string
	for _, t := range d.tables {
		names = append(names, t.name)
	}
	return names, nil
}
func (d *c51eDb) CreateTable(_ *sql.Context, name string, sch sql.PrimaryKeySchema, _ sql.CollationID, _ string) error {
	if d.get(name) != nil {
		return sql.ErrTableAlreadyExists.New(name)
	}
	t := &c51eTable{name: name, pks: sch}
	if len(sch.PkOrdinals) > 0 {
		var exprs []string
		for _, o := range sch.PkOrdinals {
			exprs = append(exprs, name+"."+sch.Schema[o].Name)
		}
		t.idxs = []sql.Index{&c51eIndex{id: "PRIMARY", table: name, exprs: exprs, unique: true}}
	}
	d.tables = append(d.tables, t)
	return nil
}
func (d *c51eDb) CreateFulltextTableNames(_ *sql.Context, parent string, index string) (fulltext.IndexTableNames, error) {
	p := parent + "_" + index
	return fulltext.IndexTableNames{
		Config:      parent + "_fts_config",
		Position:    p + "_fts_position",
		DocCount:    p + "_fts_doc_count",
		GlobalCount: p + "_fts_global_count",
		RowCount:    p + "_fts_row_count",
	}, nil
}

// ---------------------------------------------------------------- fixture

// Parent table kinds.
const (
	c51eKindPk       = 0 // (k BIGINT PRIMARY KEY, doc TEXT), FULLTEXT ft(doc)
	c51eKindKeyless  = 1 // (n BIGINT, doc TEXT), no key: rows are keyed by fulltext.HashRow; FULLTEXT ft(doc)
	c51eKindUnique   = 2 // (k BIGINT NOT NULL UNIQUE, doc TEXT), no primary key; FULLTEXT ft(doc)
	c51eKindTwoIndex = 3 // (doc TEXT, doc2 TEXT), no key; FULLTEXT ft(doc, doc2) and FULLTEXT ft2(doc2)
)

// c51eSet: the tables of one FULLTEXT index and the parent columns it reads.
type c51eSet struct {
	id   string // assertion id prefix
	ftx  *c51eIndex
	cols []int
	pos  *c51eTable
	doc  *c51eTable
	glob *c51eTable
	rowc *c51eTable
}

type c51eFixture struct {
	id     string // assertion id prefix
	kind   int
	ci     bool
	ctx    *sql.Context
	db     *c51eDb
	parent *c51eTable
	editor sql.TableEditor
	sets   []*c51eSet
}

func (f *c51eFixture) keyless() bool {
	return f.kind == c51eKindKeyless || f.kind == c51eKindTwoIndex
}

// c51eNewFixture: parent table `t` holding the rows pre, then - through the
// real code - CREATE FULLTEXT INDEX on t (tables created with the real
// schemas, populated from pre by the real editor), then the editor the
// in-memory tables build for a DML statement: MultiTableEditor(parent
// editor, fulltext TableEditor).
func c51eNewFixture(id string, kind int, ci bool, pre []sql.Row) *c51eFixture {
	f := &c51eFixture{id: id, kind: kind, ci: ci}
	f.ctx = sql.NewContext(context.Background())
	// case-sensitive variant: the default collation utf8mb4_0900_bin (a TEXT
	// column with the `binary` collation is a BLOB, which FULLTEXT rejects)
	coll := sql.Collation_utf8mb4_0900_bin
	if ci {
		coll = sql.Collation_utf8mb4_general_ci
	}
	docType := types.MustCreateString(sqltypes.Text, types.TextBlobMax, coll)
	var sch sql.Schema
	defs := sql.IndexDefs{{Name: "ft", Columns: []sql.IndexColumn{{Name: "doc"}}, Constraint: sql.IndexConstraint_Fulltext}}
	srcCols := [][]int{{1}}
	switch kind {
	case c51eKindPk:
		sch = sql.Schema{
			{Name: "k", Source: "t", Type: types.Int64, Nullable: false, PrimaryKey: true},
			{Name: "doc", Source: "t", Type: docType, Nullable: true},
		}
	case c51eKindKeyless:
		sch = sql.Schema{
			{Name: "n", Source: "t", Type: types.Int64, Nullable: true},
			{Name: "doc", Source: "t", Type: docType, Nullable: true},
		}
	case c51eKindUnique:
		sch = sql.Schema{
			{Name: "k", Source: "t", Type: types.Int64, Nullable: false},
			{Name: "doc", Source: "t", Type: docType, Nullable: true},
		}
	default:
		sch = sql.Schema{
			{Name: "doc", Source: "t", Type: docType, Nullable: true},
			{Name: "doc2", Source: "t", Type: docType, Nullable: true},
		}
		defs = sql.IndexDefs{
			{Name: "ft", Columns: []sql.IndexColumn{{Name: "doc"}, {Name: "doc2"}}, Constraint: sql.IndexConstraint_Fulltext},
			{Name: "ft2", Columns: []sql.IndexColumn{{Name: "doc2"}}, Constraint: sql.IndexConstraint_Fulltext},
		}
		srcCols = [][]int{{0, 1}, {1}}
	}
	f.parent = &c51eTable{name: "t", pks: sql.NewPrimaryKeySchema(sch)}
	if kind == c51eKindUnique {
		f.parent.idxs = []sql.Index{&c51eIndex{id: "uk", table: "t", exprs: []string{"t.k"}, unique: true}}
	}
	for _, r := range pre {
		f.parent.rows = append(f.parent.rows, append(sql.Row{}, r...))
	}
	f.db = &c51eDb{tables: []*c51eTable{f.parent}}

	err := fulltext.CreateFulltextIndexes(f.ctx, f.db, f.parent, nil, defs)
	nd.Assert(id+".create-index.no-error", err == nil)
	if err != nil {
		return nil
	}
	var config *c51eTable
	var tableSets []fulltext.TableSet
	for _, idx := range f.parent.idxs {
		if !idx.IsFullText() {
			continue
		}
		k := len(f.sets)
		if k >= len(defs) {
			break
		}
		ftx := idx.(*c51eIndex)
		set := &c51eSet{id: id, ftx: ftx, cols: srcCols[k]}
		if k > 0 {
			set.id = id + ".second-index"
		}
		set.pos = f.db.get(ftx.names.Position)
		set.doc = f.db.get(ftx.names.DocCount)
		set.glob = f.db.get(ftx.names.GlobalCount)
		set.rowc = f.db.get(ftx.names.RowCount)
		config = f.db.get(ftx.names.Config)
		ok := set.pos != nil && set.doc != nil && set.glob != nil && set.rowc != nil && config != nil
		nd.Assert(id+".create-index.tables-created", ok)
		if !ok {
			return nil
		}
		// key columns chosen for the index tables (GetKeyColumns)
		kc := ftx.keyCols
		switch kind {
		case c51eKindPk:
			nd.Assert(id+".key-columns", kc.Type == fulltext.KeyType_Primary && len(kc.Positions) == 1 && kc.Positions[0] == 0)
		case c51eKindUnique:
			nd.Assert(id+".key-columns", kc.Type == fulltext.KeyType_Unique && len(kc.Positions) == 1 && kc.Positions[0] == 0)
		default:
			nd.Assert(id+".key-columns", kc.Type == fulltext.KeyType_None && len(kc.Positions) == 0)
		}
		f.sets = append(f.sets, set)
		tableSets = append(tableSets, fulltext.TableSet{Index: ftx, Position: set.pos, DocCount: set.doc, GlobalCount: set.glob, RowCount: set.rowc})
	}
	nd.Assert(id+".create-index.index-declared", len(f.sets) == len(defs))
	if len(f.sets) != len(defs) {
		return nil
	}
	// as memory.Table.newFulltextTableEditor does
	ftEditor, err := fulltext.CreateEditor(f.ctx, f.parent, config, tableSets...)
	nd.Assert(id+".create-editor.no-error", err == nil)
	if err != nil {
		return nil
	}
	f.editor, err = fulltext.CreateMultiTableEditor(f.ctx, f.parent, ftEditor)
	nd.Assert(id+".create-multi-editor.no-error", err == nil)
	if err != nil {
		return nil
	}
	return f
}

// ---------------------------------------------------------------- oracle

type c51eWord struct {
	text string
	pos  int
}

// c51eDocument: the document of a row for an index over the columns cols:
// the non-NULL values in column order, each one but a first-column value
// preceded by one space (default_parser.go:58-79; the positions of the
// POSITION table are byte offsets into this text).
func c51eDocument(row sql.Row, cols []int) string {
	doc := ""
	for i, c := range cols {
		s, ok := row[c].(string)
		if !ok {
			continue
		}
		if i > 0 {
			doc += " "
		}
		doc += s
	}
	return doc
}

// c51eHashMemo: fulltext.HashRow is a pure function of the row value; the oracle asks
// for the same few rows after every operation.
var c51eHashMemo = map[string]string{}

// c51eHashOf: the real fulltext.HashRow of a parent row (cells nil, int64 or string).
func c51eHashOf(ctx *sql.Context, r sql.Row) (string, error) {
	key := ""
	for _, c := range r {
		switch v := c.(type) {
		case nil:
			key += "\x00N"
		case int64:
			key += "\x00I" + strconv.FormatInt(v, 10)
		case string:
			key += "\x00S" + v
		default:
			return fulltext.HashRow(ctx, r)
		}
	}
	if h, ok := c51eHashMemo[key]; ok {
		return h, nil
	}
	h, err := fulltext.HashRow(ctx, r)
	if err == nil {
		c51eHashMemo[key] = h
	}
	return h, err
}

// c51eWordMemo: c51eRefWords is a pure function of the document; the oracle
// asks for the same few documents after every operation.
var c51eWordMemo = map[string][]c51eWord{}

// c51eRefWords: the words of a document by the reference tokenisation
// (fulltext.ZzC51RefWords: the definition the tokeniser harnesses check the
// parser against).
func c51eRefWords(s string) []c51eWord {
	if ws, ok := c51eWordMemo[s]; ok {
		return ws
	}
	var ws []c51eWord
	for _, w := range fulltext.ZzC51RefWords(s) {
		ws = append(ws, c51eWord{text: w.Text, pos: w.Pos})
	}
	c51eWordMemo[s] = ws
	return ws
}

// c51eSameWord: word equality under the collation (ASCII words: general_ci
// = case folding, utf8mb4_0900_bin = bytes).
func c51eSameWord(ci bool, a, b string) bool {
	if len(a) != len(b) {
		return false
	}
	for i := 0; i < len(a); i++ {
		x, y := a[i], b[i]
		if ci {
			x, y = fulltext.ZzC51Fold(x), fulltext.ZzC51Fold(y)
		}
		if x != y {
			return false
		}
	}
	return true
}

type c51eClass struct {
	text  string // first spelling
	count uint64
}

// c51eClasses: the distinct words of a word list with their occurrence counts.
func c51eClasses(ci bool, ws []c51eWord) []c51eClass {
	var out []c51eClass
	for _, w := range ws {
		found := false
		for k := range out {
			if c51eSameWord(ci, out[k].text, w.text) {
				out[k].count++
				found = true
				break
			}
		}
		if !found {
			out = append(out, c51eClass{text: w.text, count: 1})
		}
	}
	return out
}

// c51eDiff: number of expected entries without a matching actual row and of
// actual rows without a matching expected entry.
func c51eDiff(exp, act []sql.Row, eq func(e, a sql.Row) bool) (missing, stale int) {
	for _, e := range exp {
		hit := false
		for _, a := range act {
			if eq(e, a) {
				hit = true
			}
		}
		if !hit {
			missing++
		}
	}
	for _, a := range act {
		hit := false
		for _, e := range exp {
			if eq(e, a) {
				hit = true
			}
		}
		if !hit {
			stale++
		}
	}
	return
}

// c51eVocabulary: the search words of the MATCH-level check ("ccc" occurs in
// no document).
var c51eVocabulary = []string{"aaa", "AAA", "bbb", "ccc"}

// check compares the index tables of every FULLTEXT index with the parent rows.
func (f *c51eFixture) check() {
	for _, set := range f.sets {
		c51CheckIndexTables(f.ctx, set.id, f.ci, f.keyless(), f.parent.rows, set.cols,
			set.rowc.rows, set.pos.rows, set.doc.rows, set.glob.rows)
	}
}

// c51CheckIndexTables compares the four tables of one FULLTEXT index
// (their rows as read from the storage) with what the parent rows prescribe.
// rows: the parent rows (cells nil, int64 or string); cols: the index's
// source columns; keyless: entries are keyed by fulltext.HashRow, else by the parent's
// first column; ci: words compare case-insensitively. Used by the
// storage-double harnesses and by the real-memory harnesses.
func c51CheckIndexTables(ctx *sql.Context, id string, ci, keyless bool, rows []sql.Row, cols []int, rowc, pos, doc, glob []sql.Row) {
	n := len(rows)
	hashes := make([]string, n)
	keys := make([]interface{}, n)
	for i, r := range rows {
		h, err := c51eHashOf(ctx, r)
		nd.Assert(id+".rowhash.no-error", err == nil)
		hashes[i] = h
		if keyless {
			keys[i] = h
		} else {
			keys[i] = r[0]
		}
	}
	// fulltext.HashRow identifies the row value (64 hex digits; NULL differs from '')
	hashOk := true
	first := make([]bool, n)
	mult := make([]uint64, n)
	for i := 0; i < n; i++ {
		if len(hashes[i]) != 64 {
			hashOk = false
		}
		first[i] = true
		for j := 0; j < n; j++ {
			same := c51eRowEq(rows[i], rows[j])
			if (hashes[i] == hashes[j]) != same {
				hashOk = false
			}
			if same {
				mult[i]++
				if j < i {
					first[i] = false
				}
			}
		}
	}
	nd.Assert(id+".rowhash.equal-iff-same-row", hashOk)

	words := make([][]c51eWord, n)
	classes := make([][]c51eClass, n)
	for i := range rows {
		words[i] = c51eRefWords(c51eDocument(rows[i], cols))
		classes[i] = c51eClasses(ci, words[i])
	}

	var expRow, expPos, expDoc, expGlob []sql.Row
	for i := range rows {
		if !first[i] {
			continue
		}
		expRow = append(expRow, sql.Row{hashes[i], mult[i], uint64(len(classes[i]))})
		for _, w := range words[i] {
			expPos = append(expPos, sql.Row{w.text, keys[i], uint64(w.pos)})
		}
		for _, c := range classes[i] {
			expDoc = append(expDoc, sql.Row{c.text, keys[i], c.count})
		}
	}
	for i := range rows {
		for _, c := range classes[i] {
			known := false
			for _, g := range expGlob {
				if c51eSameWord(ci, g[0].(string), c.text) {
					known = true
				}
			}
			if known {
				continue
			}
			cnt := uint64(0)
			for j := range rows {
				for _, cj := range classes[j] {
					if c51eSameWord(ci, cj.text, c.text) {
						cnt++
					}
				}
			}
			expGlob = append(expGlob, sql.Row{c.text, cnt})
		}
	}

	str := func(v interface{}) string { s, _ := v.(string); return s }
	isStr := func(v interface{}) bool { _, ok := v.(string); return ok }
	u64 := func(v interface{}) uint64 { u, _ := v.(uint64); return u }
	isU64 := func(v interface{}) bool { _, ok := v.(uint64); return ok }

	nd.Observe(len(rowc), len(pos), len(doc), len(glob))

	// ROW_COUNT
	miss, stale := c51eDiff(expRow, rowc, func(e, a sql.Row) bool {
		return len(a) == 3 && a[0] == e[0] && isU64(a[1]) && a[1] == e[1] && isU64(a[2]) && a[2] == e[2]
	})
	nd.Assert(id+".rowcount.no-entry-missing", miss == 0)
	nd.Assert(id+".rowcount.no-stale-entry", stale == 0 && len(rowc) == len(expRow))

	// POSITION (the word text is the document text at that offset)
	miss, stale = c51eDiff(expPos, pos, func(e, a sql.Row) bool {
		return len(a) == 3 && a[0] == e[0] && a[1] == e[1] && isU64(a[2]) && a[2] == e[2]
	})
	nd.Assert(id+".position.no-entry-missing", miss == 0)
	nd.Assert(id+".position.no-stale-entry", stale == 0 && len(pos) == len(expPos))

	// DOC_COUNT (words compared under the collation)
	miss, stale = c51eDiff(expDoc, doc, func(e, a sql.Row) bool {
		return len(a) == 3 && isStr(a[0]) && c51eSameWord(ci, str(a[0]), str(e[0])) && a[1] == e[1] && isU64(a[2]) && a[2] == e[2]
	})
	nd.Assert(id+".doccount.no-entry-missing", miss == 0)
	nd.Assert(id+".doccount.no-stale-entry", stale == 0 && len(doc) == len(expDoc))

	// GLOBAL_COUNT
	miss, stale = c51eDiff(expGlob, glob, func(e, a sql.Row) bool {
		return len(a) == 2 && isStr(a[0]) && c51eSameWord(ci, str(a[0]), str(e[0])) && isU64(a[1]) && a[1] == e[1]
	})
	nd.Assert(id+".globalcount.no-entry-missing", miss == 0)
	nd.Assert(id+".globalcount.no-stale-entry", stale == 0 && len(glob) == len(expGlob))

	// MATCH level: a row is found for a search word through its DOC_COUNT
	// entry (word, key) - sql/expression/matchagainst.go:343-358
	missed, spurious := 0, 0
	for _, v := range c51eVocabulary {
		for i := range rows {
			contains := false
			for _, c := range classes[i] {
				if c51eSameWord(ci, c.text, v) {
					contains = true
				}
			}
			says := false
			for _, a := range doc {
				if len(a) == 3 && c51eSameWord(ci, str(a[0]), v) && a[1] == keys[i] && u64(a[2]) > 0 {
					says = true
				}
			}
			if contains && !says {
				missed++
			}
			if says && !contains {
				spurious++
			}
		}
	}
	nd.Assert(id+".match.no-row-missed", missed == 0)
	nd.Assert(id+".match.no-spurious-row", spurious == 0)
}

// ---------------------------------------------------------------- histories

// c51eDocs: the document cells. Two words ("aaa", "bbb") shared between
// documents, repeated within one, at offset 0 and 4, in two spellings (one
// word under utf8mb4_general_ci, two under utf8mb4_0900_bin); NULL; the
// empty text. Harnesses that use fewer cells take a prefix.
var c51eDocs = []interface{}{"aaa", nil, "bbb aaa", "aaa AAA", "aaa aaa", "AAA bbb", ""}

func c51eName(tag string, k int) string { return tag + string(rune('0'+k)) }

// freeKey: the smallest of 1, 2, ... that no parent row uses as key.
func (f *c51eFixture) freeKey() int64 {
	for k := int64(1); ; k++ {
		used := false
		for _, r := range f.parent.rows {
			if r[0] == k {
				used = true
			}
		}
		if !used {
			return k
		}
	}
}

// c51eGen draws the row of the k-th operation: a fresh row (old == nil) or
// the new version of old.
type c51eGen func(f *c51eFixture, k int, old sql.Row) sql.Row

// c51eGenKeyed: (k, doc) for the tables with a key: an inserted row gets the
// smallest unused key; an updated row keeps its key or moves to the smallest
// unused one; doc from the first ndocs entries of c51eDocs.
func c51eGenKeyed(ndocs int) c51eGen {
	return func(f *c51eFixture, k int, old sql.Row) sql.Row {
		var key interface{}
		if old == nil {
			key = f.freeKey()
		} else if nd.Pick(c51eName("rekey", k), 2) == 1 {
			key = f.freeKey()
		} else {
			key = old[0]
		}
		return sql.Row{key, c51eDocs[nd.Pick(c51eName("doc", k), ndocs)]}
	}
}

// c51eGenKeyless: (n, doc) with n from ns and doc from the first ndocs
// entries of c51eDocs: includes exact duplicates of existing rows.
func c51eGenKeyless(ndocs int, ns []int64) c51eGen {
	return func(f *c51eFixture, k int, old sql.Row) sql.Row {
		n := ns[0]
		if len(ns) > 1 {
			n = ns[nd.Pick(c51eName("n", k), len(ns))]
		}
		return sql.Row{n, c51eDocs[nd.Pick(c51eName("doc", k), ndocs)]}
	}
}

// c51eGenTwoDocs: (doc, doc2) with doc from cellsA and doc2 from cellsB
// (indexes into c51eDocs).
func c51eGenTwoDocs(cellsA, cellsB []int) c51eGen {
	return func(f *c51eFixture, k int, old sql.Row) sql.Row {
		a := cellsA[nd.Pick(c51eName("doc", k), len(cellsA))]
		b := cellsB[nd.Pick(c51eName("dtwo", k), len(cellsB))]
		return sql.Row{c51eDocs[a], c51eDocs[b]}
	}
}

// step performs the k-th operation of a history, drawn by concrete
// selectors, through the MultiTableEditor, framed as one statement:
// INSERT of a generated row / DELETE of one existing row (one of two
// duplicates, if it has a twin) / UPDATE of one existing row to a generated
// row. On the empty table the operation is an INSERT.
func (f *c51eFixture) step(k int, gen c51eGen) {
	id := f.id
	present := len(f.parent.rows)
	op := 0
	if present > 0 {
		op = nd.Pick(c51eName("op", k), 3)
	}
	var err error
	f.editor.StatementBegin(f.ctx)
	switch op {
	case 0:
		err = f.editor.Insert(f.ctx, gen(f, k, nil))
	case 1:
		old := f.parent.rows[nd.Pick(c51eName("row", k), present)]
		err = f.editor.Delete(f.ctx, old)
	default:
		old := f.parent.rows[nd.Pick(c51eName("row", k), present)]
		err = f.editor.Update(f.ctx, old, gen(f, k, old))
	}
	nd.Assert(id+".dml.no-error", err == nil)
	if err != nil {
		return
	}
	err = f.editor.StatementComplete(f.ctx)
	nd.Assert(id+".dml.no-error", err == nil)
	nd.Reach(id + ".dml-applied")
	f.check()
}

func c51eCi(tag string) bool { return nd.Pick(tag, 2) == 0 }

// VerifC51EditPrimaryKey: parent (k BIGINT PRIMARY KEY, doc TEXT), index
// created on the empty table, then every history of 3 operations over the
// first 4 document cells (thorough: 3 operations over all 7 cells, and 4
// operations over the first 3); index tables compared with the parent after
// every operation.
func VerifC51EditPrimaryKey() {
	f := c51eNewFixture("c51.edit.pk", c51eKindPk, c51eCi("pkcoll"), nil)
	if f == nil {
		return
	}
	f.check()
	ops, ndocs := 3, 4
	if nd.Tier() == 1 {
		ndocs = len(c51eDocs)
		if nd.Pick("pkmode", 2) == 1 {
			ops, ndocs = 4, 3
		}
	}
	gen := c51eGenKeyed(ndocs)
	for k := 0; k < ops; k++ {
		f.step(k, gen)
	}
}

// VerifC51EditKeyless: parent (n BIGINT, doc TEXT) without any key: rows
// keyed by HashRow, duplicate rows counted in ROW_COUNT. n from {1, 2};
// histories of 2 operations over all 7 document cells (thorough: those, and 3
// operations over the first 5 cells). Longer histories over fewer row values:
// VerifC51EditKeylessDuplicates.
func VerifC51EditKeyless() {
	f := c51eNewFixture("c51.edit.keyless", c51eKindKeyless, c51eCi("klcoll"), nil)
	if f == nil {
		return
	}
	f.check()
	ops, ndocs := 2, len(c51eDocs)
	if nd.Tier() == 1 && nd.Pick("klmode", 2) == 1 {
		ops, ndocs = 3, 5
	}
	gen := c51eGenKeyless(ndocs, []int64{1, 2})
	for k := 0; k < ops; k++ {
		f.step(k, gen)
	}
}

// VerifC51EditKeylessDuplicates: the keyless table over a tiny row domain,
// so that histories are long enough for a row to reach multiplicity 4 (5)
// and go back to 0 while another row sharing its word is present or absent.
// Quick: 4 operations over (1,'aaa'), (1,'bbb aaa'). Thorough: 5 operations
// over those two values, and 4 operations over three values (with (1,NULL)).
func VerifC51EditKeylessDuplicates() {
	f := c51eNewFixture("c51.edit.keyless-dup", c51eKindKeyless, c51eCi("kdcoll"), nil)
	if f == nil {
		return
	}
	ops, cells := 4, []int{0, 2}
	if nd.Tier() == 1 {
		if nd.Pick("kdmode", 2) == 1 {
			cells = []int{0, 2, 1}
		} else {
			ops = 5
		}
	}
	gen := func(f *c51eFixture, k int, old sql.Row) sql.Row {
		return sql.Row{int64(1), c51eDocs[cells[nd.Pick(c51eName("doc", k), len(cells))]]}
	}
	for k := 0; k < ops; k++ {
		f.step(k, gen)
	}
}

// VerifC51EditUniqueKey: parent (k BIGINT NOT NULL UNIQUE, doc TEXT) without
// primary key: the unique key's column becomes the key column. Histories of
// 2 (thorough 3) operations over all 7 cells.
func VerifC51EditUniqueKey() {
	f := c51eNewFixture("c51.edit.unique", c51eKindUnique, c51eCi("ukcoll"), nil)
	if f == nil {
		return
	}
	f.check()
	ops := nd.Bound(2, 3)
	gen := c51eGenKeyed(len(c51eDocs))
	for k := 0; k < ops; k++ {
		f.step(k, gen)
	}
}

// VerifC51EditTwoIndexes: keyless parent (doc TEXT, doc2 TEXT) with two
// FULLTEXT indexes, ft(doc, doc2) (a two-column document) and ft2(doc2): the
// editor maintains both table sets per operation. Histories of 3 operations;
// doc from {'aaa', NULL}, doc2 from {'bbb aaa', NULL} (thorough: doc from
// {'aaa', NULL, 'bbb aaa'}).
func VerifC51EditTwoIndexes() {
	f := c51eNewFixture("c51.edit.two-index", c51eKindTwoIndex, c51eCi("ticoll"), nil)
	if f == nil {
		return
	}
	f.check()
	gen := c51eGenTwoDocs([]int{0, 1}, []int{2, 1})
	if nd.Tier() == 1 {
		gen = c51eGenTwoDocs([]int{0, 1, 2}, []int{2, 1})
	}
	for k := 0; k < 3; k++ {
		f.step(k, gen)
	}
}

// VerifC51EditBuildIndex: the index is created on a table that already holds
// 0..2 rows (fulltext.CreateFulltextIndexes populates the index tables through the
// editor), then one more operation. Quick: the first 3 document cells,
// keyless n = 1 (so duplicates are frequent); thorough: the first 5 cells,
// keyless n from {1, 2}.
func VerifC51EditBuildIndex() {
	kind := nd.Pick("bkind", 2) // primary key / keyless
	ci := c51eCi("bcoll")
	npre := nd.IntRange("bpre", 0, 2)
	ndocs := nd.Bound(3, 5)
	ns := []int64{1}
	if nd.Tier() == 1 {
		ns = []int64{1, 2}
	}
	var pre []sql.Row
	for i := 0; i < npre; i++ {
		key := int64(i + 1)
		if kind == c51eKindKeyless {
			key = ns[0]
			if len(ns) > 1 {
				key = ns[nd.Pick(c51eName("bn", i), len(ns))]
			}
		}
		pre = append(pre, sql.Row{key, c51eDocs[nd.Pick(c51eName("bdoc", i), ndocs)]})
	}
	id := "c51.edit.build.pk"
	gen := c51eGenKeyed(ndocs)
	if kind == c51eKindKeyless {
		id = "c51.edit.build.keyless"
		gen = c51eGenKeyless(ndocs, ns)
	}
	f := c51eNewFixture(id, kind, ci, pre)
	if f == nil {
		return
	}
	nd.Reach(id + ".index-built")
	f.check()
	f.step(0, gen)
}
