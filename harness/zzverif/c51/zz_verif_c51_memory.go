//go:build verif

// Package c51 holds the C51 harnesses that run the full-text index
// maintenance on the REAL in-memory storage: memory.Database / memory.Table
// for the parent table and for the five pseudo-index tables, the index
// created by fulltext.CreateFulltextIndexes, every DML operation through the
// editor memory.Table hands to the engine (Inserter / Updater / Deleter =
// fulltext.MultiTableEditor over the table's own editor and the
// fulltext.TableEditor, memory/table.go:916-931, 1054-1071), framed
// StatementBegin / StatementComplete / Close like a statement.
//
// Harness-only package (memory imports sql/fulltext, so these cannot live in
// package fulltext). The oracle is c51CheckIndexTables of
// zz_verif_c51_editor.go: after every operation the four
// index tables, read back from the storage, are compared with what the parent
// table's rows (also read back) prescribe under the reference tokeniser.
package c51

import (
	"context"

	"github.com/dolthub/vitess/go/sqltypes"

	nd "github.com/dolthub/go-mysql-server/internal/zzverifnd"
	"github.com/dolthub/go-mysql-server/memory"
	"github.com/dolthub/go-mysql-server/sql"
	"github.com/dolthub/go-mysql-server/sql/fulltext"
	"github.com/dolthub/go-mysql-server/sql/types"
)

type c51mFixture struct {
	id      string
	keyless bool
	ci      bool
	ctx     *sql.Context
	db      *memory.Database
	names   fulltext.IndexTableNames
}

// c51mDocs: the document cells (see c51eDocs of the in-package harness).
var c51mDocs = []interface{}{"aaa", "bbb aaa", nil, "aaa AAA", "AAA bbb", "aaa aaa", ""}

func c51mName(tag string, k int) string { return tag + string(rune('0'+k)) }

// c51mRows reads a table of the database through the session.
func (f *c51mFixture) rows(name string) []sql.Row {
	t, ok, err := f.db.GetTableInsensitive(f.ctx, name)
	nd.Assert(f.id+".read.no-error", err == nil && ok)
	pi, err := t.Partitions(f.ctx)
	nd.Assert(f.id+".read.no-error", err == nil)
	rows, err := sql.RowIterToRows(f.ctx, sql.NewTableRowIter(f.ctx, t, pi))
	nd.Assert(f.id+".read.no-error", err == nil)
	return rows
}

func (f *c51mFixture) table() *memory.Table {
	t, ok, err := f.db.GetTableInsensitive(f.ctx, "t")
	nd.Assert(f.id+".read.no-error", err == nil && ok)
	return t.(*memory.Table)
}

// c51mNewFixture: database with the parent table t - (k BIGINT PRIMARY KEY,
// doc TEXT) or keyless (n BIGINT, doc TEXT) - holding the rows pre, then
// CREATE FULLTEXT INDEX ft ON t(doc) by the real CreateFulltextIndexes.
func c51mNewFixture(id string, keyless, ci bool, pre []sql.Row) *c51mFixture {
	f := &c51mFixture{id: id, keyless: keyless, ci: ci}
	f.db = memory.NewDatabase("db")
	sess := memory.NewSession(sql.NewBaseSession(), sql.NewDatabaseProvider(f.db))
	f.ctx = sql.NewContext(context.Background(), sql.WithSession(sess))
	coll := sql.Collation_utf8mb4_0900_bin
	if ci {
		coll = sql.Collation_utf8mb4_general_ci
	}
	docType := types.MustCreateString(sqltypes.Text, types.TextBlobMax, coll)
	sch := sql.Schema{
		{Name: "k", Source: "t", Type: types.Int64, Nullable: false, PrimaryKey: true},
		{Name: "doc", Source: "t", Type: docType, Nullable: true},
	}
	if keyless {
		sch = sql.Schema{
			{Name: "n", Source: "t", Type: types.Int64, Nullable: true},
			{Name: "doc", Source: "t", Type: docType, Nullable: true},
		}
	}
	parent := memory.NewTable(f.ctx, f.db, "t", sql.NewPrimaryKeySchema(sch), f.db.GetForeignKeyCollection())
	f.db.AddTable("t", parent)
	for _, r := range pre {
		err := parent.Insert(f.ctx, r)
		nd.Assert(id+".prefill.no-error", err == nil)
	}
	err := fulltext.CreateFulltextIndexes(f.ctx, f.db, f.table(), nil, sql.IndexDefs{{
		Name:       "ft",
		Columns:    []sql.IndexColumn{{Name: "doc"}},
		Constraint: sql.IndexConstraint_Fulltext,
	}})
	nd.Assert(id+".create-index.no-error", err == nil)
	if err != nil {
		return nil
	}
	idxs, err := f.table().GetIndexes(f.ctx)
	nd.Assert(id+".create-index.no-error", err == nil)
	found := false
	for _, idx := range idxs {
		if idx.IsFullText() {
			f.names, err = idx.(fulltext.Index).FullTextTableNames(f.ctx)
			nd.Assert(id+".create-index.no-error", err == nil)
			found = true
		}
	}
	nd.Assert(id+".create-index.index-declared", found)
	if !found {
		return nil
	}
	return f
}

func (f *c51mFixture) check() {
	c51CheckIndexTables(f.ctx, f.id, f.ci, f.keyless, f.rows("t"), []int{1},
		f.rows(f.names.RowCount), f.rows(f.names.Position), f.rows(f.names.DocCount), f.rows(f.names.GlobalCount))
}

func (f *c51mFixture) freeKey(rows []sql.Row) int64 {
	for k := int64(1); ; k++ {
		used := false
		for _, r := range rows {
			if r[0] == k {
				used = true
			}
		}
		if !used {
			return k
		}
	}
}

// gen: the row of the k-th operation. Keyed table: an inserted row gets the
// smallest unused key, an updated row keeps its key or moves to the smallest
// unused one. Keyless: n from {1, 2} (ns entries), so exact duplicates occur.
func (f *c51mFixture) gen(k int, present []sql.Row, old sql.Row, ndocs, ns int) sql.Row {
	var key interface{}
	if f.keyless {
		key = int64(1)
		if ns > 1 {
			key = int64(1 + nd.Pick(c51mName("n", k), ns))
		}
	} else if old == nil || nd.Pick(c51mName("rekey", k), 2) == 1 {
		key = f.freeKey(present)
	} else {
		key = old[0]
	}
	return sql.Row{key, c51mDocs[nd.Pick(c51mName("doc", k), ndocs)]}
}

// step: the k-th operation as one statement on a fresh editor of the table.
func (f *c51mFixture) step(k int, ndocs, ns int) {
	id := f.id
	present := f.rows("t")
	op := 0
	if len(present) > 0 {
		op = nd.Pick(c51mName("op", k), 3)
	}
	var err error
	switch op {
	case 0:
		ed := f.table().Inserter(f.ctx)
		ed.StatementBegin(f.ctx)
		err = ed.Insert(f.ctx, f.gen(k, present, nil, ndocs, ns))
		if err == nil {
			err = ed.StatementComplete(f.ctx)
		}
		if cerr := ed.Close(f.ctx); err == nil {
			err = cerr
		}
	case 1:
		old := present[nd.Pick(c51mName("row", k), len(present))]
		ed := f.table().Deleter(f.ctx)
		ed.StatementBegin(f.ctx)
		err = ed.Delete(f.ctx, old)
		if err == nil {
			err = ed.StatementComplete(f.ctx)
		}
		if cerr := ed.Close(f.ctx); err == nil {
			err = cerr
		}
	default:
		old := present[nd.Pick(c51mName("row", k), len(present))]
		ed := f.table().Updater(f.ctx)
		ed.StatementBegin(f.ctx)
		err = ed.Update(f.ctx, old, f.gen(k, present, old, ndocs, ns))
		if err == nil {
			err = ed.StatementComplete(f.ctx)
		}
		if cerr := ed.Close(f.ctx); err == nil {
			err = cerr
		}
	}
	nd.Assert(id+".dml.no-error", err == nil)
	if err != nil {
		return
	}
	nd.Reach(id + ".dml-applied")
	f.check()
}

// VerifC51MemoryPrimaryKey: real in-memory tables, parent (k BIGINT PRIMARY
// KEY, doc TEXT); histories of 2 (thorough 3) operations over 'aaa',
// 'bbb aaa', NULL; both collations.
func VerifC51MemoryPrimaryKey() {
	f := c51mNewFixture("c51.memory.pk", false, nd.Pick("mpcoll", 2) == 0, nil)
	if f == nil {
		return
	}
	f.check()
	ops := nd.Bound(2, 3)
	for k := 0; k < ops; k++ {
		f.step(k, 3, 0)
	}
}

// c51mBuildIndex: the index is created on a table that already holds 1..2
// rows over 'aaa', 'bbb aaa' (thorough: also NULL, 'aaa AAA'; keyless: n = 1,
// so duplicates are included), then one operation.
func c51mBuildIndex(id string, keyless bool, tag string) {
	ci := nd.Pick(tag+"coll", 2) == 0
	npre := nd.IntRange(tag+"pre", 1, 2)
	ndocs := nd.Bound(2, 4)
	var pre []sql.Row
	for i := 0; i < npre; i++ {
		key := int64(i + 1)
		if keyless {
			key = 1
		}
		pre = append(pre, sql.Row{key, c51mDocs[nd.Pick(c51mName(tag+"doc", i), ndocs)]})
	}
	f := c51mNewFixture(id, keyless, ci, pre)
	if f == nil {
		return
	}
	nd.Reach(id + ".index-built")
	f.check()
	f.step(0, ndocs, 1)
}

// VerifC51MemoryBuildIndex: real in-memory tables, primary-key parent: index
// created on a populated table (see c51mBuildIndex).
func VerifC51MemoryBuildIndex() {
	c51mBuildIndex("c51.memory.build.pk", false, "mb")
}
