//go:build verif

package c51

import nd "github.com/dolthub/go-mysql-server/internal/zzverifnd"

// The keyless variants of the real-memory harnesses. They need an executor
// whose xxhash model accepts concrete pre-images above 256 bytes:
// memory.(*TableData).partition hashes the collation weight strings of the key
// columns; for the keyless POSITION table (word, 64 character row hash,
// position) that is 271 bytes.

// VerifC51MemoryKeyless: real in-memory tables, keyless parent (n BIGINT,
// doc TEXT) with n = 1; histories of 3 operations over 'aaa', 'bbb aaa'
// (thorough: 4 operations over these two, and 3 operations over 'aaa',
// 'bbb aaa', NULL), so that duplicate rows come and go; both collations.
func VerifC51MemoryKeyless() {
	f := c51mNewFixture("c51.memory.keyless", true, nd.Pick("mkcoll", 2) == 0, nil)
	if f == nil {
		return
	}
	f.check()
	ops, ndocs := 3, 2
	if nd.Tier() == 1 {
		if nd.Pick("mkmode", 2) == 1 {
			ndocs = 3
		} else {
			ops = 4
		}
	}
	for k := 0; k < ops; k++ {
		f.step(k, ndocs, 1)
	}
}

// VerifC51MemoryKeylessBuildIndex: real in-memory tables, keyless parent:
// index created on a populated table (see c51mBuildIndex).
func VerifC51MemoryKeylessBuildIndex() {
	c51mBuildIndex("c51.memory.build.keyless", true, "mkb")
}
