//go:build verif

// Package c37 holds the C37 harnesses: the process list (sqle.ProcessList in
// the module's root package) tracks exactly the connected sessions and their
// running queries, KILL cancels exactly the targeted work, and the
// Threads_connected / Threads_running status counters agree with the list.
//
// Harness-only package; only the exported ProcessList API is used. Sessions,
// contexts and the status-variable registry are the real ones
// (sql.NewBaseSessionWithClientServer, sql.NewContext,
// variables.InitStatusVariables); cancellation is observed with ctx.Err() on
// the contexts BeginQuery / BeginOperation return.
package c37

import (
	"context"
	"sync"

	sqle "github.com/dolthub/go-mysql-server"
	nd "github.com/dolthub/go-mysql-server/internal/zzverifnd"
	"github.com/dolthub/go-mysql-server/sql"
	"github.com/dolthub/go-mysql-server/sql/variables"
)

// ---- reference model ---------------------------------------------------------------

const (
	c37Absent     = 0
	c37Connecting = 1 // AddConnection done, session not ready
	c37Idle       = 2 // ConnectionReady done
)

const (
	c37None  = 0
	c37Query = 1
	c37Op    = 2
)

// c37Work: one context handed out by BeginQuery / BeginOperation (derived by
// the process list with context.WithCancel from the statement's context).
type c37Work struct {
	ctx  *sql.Context
	want bool // the model's cancel flag
}

func (wk *c37Work) cancelled() bool { return wk.ctx.Err() != nil }

type c37Conn struct {
	state   int
	running int
	query   string
	pid     uint64
	work    *c37Work     // the running query / operation
	rctx    *sql.Context // what Begin* returned, to be passed to End*
	orphan  *sql.Context // query context whose connection was removed before EndQuery
	// the context of the last query on this connection id that is over (ended, or cut off by RemoveConnection):
	// a late EndQuery with it (the engine ends every query twice: TrackedRowIter.done and the handler's defer)
	// must be a no-op whatever runs on the connection id by then
	stale    *sql.Context
	stalePid uint64
	hasStale bool
}

type c37Model struct {
	conn [2]c37Conn
	all  []*c37Work
	// input classes with their own assertion ids (the model follows the code and
	// the flag is asserted last):
}

func (m *c37Model) connected() int {
	n := 0
	for i := range m.conn {
		if m.conn[i].state != c37Absent {
			n++
		}
	}
	return n
}

func (m *c37Model) runningQueries() int {
	n := 0
	for i := range m.conn {
		if m.conn[i].running == c37Query {
			n++
		}
	}
	return n
}

func (m *c37Model) pidInUse(pid uint64) bool {
	for i := range m.conn {
		if m.conn[i].running == c37Query && m.conn[i].pid == pid {
			return true
		}
	}
	return false
}

// operation kinds
const (
	c37AddConnection = iota
	c37ConnectionReady
	c37BeginQuery
	c37BeginOperation
	c37EndOperation
	c37Kill
	c37RemoveConnection
	c37EndQuery
	c37EndStale
	c37Kinds
)

type c37Step struct {
	kind, c int
	pid     uint64
}

// allowed: the per-connection protocol the server follows (one goroutine per
// connection: AddConnection, ConnectionReady, then bracketed Begin/End pairs;
// RemoveConnection at any time; Kill comes from other connections at any
// time). BeginQuery / BeginOperation are also offered where they must fail.
func (m *c37Model) allowed(s c37Step) bool {
	cn := &m.conn[s.c]
	switch s.kind {
	case c37AddConnection:
		return cn.state == c37Absent // connection ids are unique
	case c37ConnectionReady:
		return cn.state != c37Absent && cn.running == c37None
	case c37BeginQuery:
		return (cn.state == c37Idle && cn.running == c37None) || cn.state == c37Absent
	case c37EndQuery:
		return cn.running == c37Query || cn.orphan != nil
	case c37EndOperation:
		return cn.running == c37Op
	case c37EndStale:
		// pids are unique per query in the server: a stale context whose pid is in use again is not a real history
		return cn.hasStale && !m.pidInUse(cn.stalePid)
	}
	return true // BeginOperation (fails when unregistered or busy), Kill, RemoveConnection: any time
}

// ---- driver ---------------------------------------------------------------------------

type c37World struct {
	pl   *sqle.ProcessList
	sess [2]*sql.BaseSession
	m    c37Model
	// the statement contexts passed INTO Begin*: never cancelled by the process list
	parents []*sql.Context
}

var c37Users = [2]string{"u1", "u2"}
var c37Hosts = [2]string{"h1:1", "h2:2"}
var c37Queries = [2]string{"select 1", "select 2"}

func c37Counter(name string) (uint64, bool) {
	_, v, ok := sql.StatusVariables.GetGlobal(name)
	n, isU := v.(uint64)
	return n, ok && isU
}

func c37NewWorld() *c37World {
	if sql.StatusVariables == nil {
		variables.InitStatusVariables()
	}
	sql.StatusVariables.SetGlobal("Threads_connected", uint64(0))
	sql.StatusVariables.SetGlobal("Threads_running", uint64(0))
	// slow-query accounting off: with long_query_time > 0 EndQuery evaluates
	// (time.Duration).Seconds, which the executor does not model
	if err := sql.SystemVariables.SetGlobal(nil, "long_query_time", float64(0)); err != nil {
		nd.Assume(false)
	}
	w := &c37World{pl: sqle.NewProcessList()}
	for i := range w.sess {
		w.sess[i] = sql.NewBaseSessionWithClientServer("srv", sql.Client{User: c37Users[i], Address: c37Hosts[i]}, uint32(i+1))
	}
	return w
}

// newCtx: the context of one statement of connection c, as the server builds it.
func (w *c37World) newCtx(c int, pid uint64) *sql.Context {
	ctx := sql.NewContext(context.Background(), sql.WithSession(w.sess[c]), sql.WithPid(pid))
	w.parents = append(w.parents, ctx)
	return ctx
}

// started registers the context a successful Begin* returned.
func (w *c37World) started(rctx *sql.Context) *c37Work {
	wk := &c37Work{ctx: rctx}
	w.m.all = append(w.m.all, wk)
	return wk
}

// apply runs one step on the real process list and on the model.
func (w *c37World) apply(id string, s c37Step) {
	m := &w.m
	cn := &m.conn[s.c]
	connID := uint32(s.c + 1)
	switch s.kind {
	case c37AddConnection:
		w.pl.AddConnection(connID, c37Hosts[s.c])
		cn.state = c37Connecting
	case c37ConnectionReady:
		w.pl.ConnectionReady(w.sess[s.c])
		cn.state = c37Idle
	case c37BeginQuery:
		rctx, err := w.pl.BeginQuery(w.newCtx(s.c, s.pid), c37Queries[s.c])
		mustFail := cn.state == c37Absent || m.pidInUse(s.pid)
		nd.Assert(id+".begin-query.fails-iff-unregistered-or-pid-in-use", (err != nil) == mustFail)
		if err != nil {
			break
		}
		cn.running, cn.query, cn.pid, cn.work, cn.rctx = c37Query, c37Queries[s.c], s.pid, w.started(rctx), rctx
	case c37EndQuery:
		if cn.running == c37Query {
			w.pl.EndQuery(cn.rctx)
			cn.work.want = true
			cn.stale, cn.stalePid, cn.hasStale = cn.rctx, cn.pid, true
			cn.running, cn.query, cn.pid, cn.work, cn.rctx = c37None, "", 0, nil, nil
		} else {
			// the deferred EndQuery of a query whose connection is already gone
			w.pl.EndQuery(cn.orphan)
			cn.orphan = nil
		}
	case c37BeginOperation:
		rctx, err := w.pl.BeginOperation(w.newCtx(s.c, 0))
		mustFail := cn.state == c37Absent || cn.running != c37None
		nd.Assert(id+".begin-operation.fails-iff-unregistered-or-busy", (err != nil) == mustFail)
		if err != nil {
			break
		}
		cn.running, cn.work, cn.rctx = c37Op, w.started(rctx), rctx
	case c37EndOperation:
		w.pl.EndOperation(cn.rctx)
		cn.work.want = true
		cn.running, cn.work, cn.rctx = c37None, nil, nil
	case c37EndStale:
		w.pl.EndQuery(cn.stale) // no effect: the model does not move
	case c37Kill:
		w.pl.Kill(connID)
		if cn.state != c37Absent && cn.running != c37None {
			cn.work.want = true
		}
	case c37RemoveConnection:
		w.pl.RemoveConnection(connID)
		if cn.state != c37Absent {
			if cn.running != c37None {
				cn.work.want = true
			}
			orphan := cn.orphan
			stale, stalePid, hasStale := cn.stale, cn.stalePid, cn.hasStale
			if cn.running == c37Query {
				orphan = cn.rctx
				stale, stalePid, hasStale = cn.rctx, cn.pid, true
			}
			*cn = c37Conn{orphan: orphan, stale: stale, stalePid: stalePid, hasStale: hasStale}
		}
	}
}

// check compares everything observable with the model.
func (w *c37World) check(id string) {
	m := &w.m
	// the process list shows exactly the connected sessions and their queries
	procs := w.pl.Processes()
	nd.Assert(id+".processes.count", len(procs) == m.connected())
	var seen [2]bool
	ok := true
	for _, p := range procs {
		if p.Connection != 1 && p.Connection != 2 {
			ok = false
			continue
		}
		c := int(p.Connection) - 1
		cn := &m.conn[c]
		ok = ok && !seen[c] && cn.state != c37Absent
		seen[c] = true
		switch {
		case cn.state == c37Connecting:
			ok = ok && p.Command == sql.ProcessCommandConnect && p.User == "unauthenticated user" && p.Host == c37Hosts[c] && p.Database == ""
		case cn.running == c37Query:
			ok = ok && p.Command == sql.ProcessCommandQuery
		default:
			ok = ok && p.Command == sql.ProcessCommandSleep
		}
		if cn.state == c37Idle {
			ok = ok && p.User == c37Users[c] && p.Host == c37Hosts[c]
		}
		ok = ok && p.Query == cn.query && p.QueryPid == cn.pid
	}
	nd.Assert(id+".processes.match-model", ok)
	// KILL / End* / disconnect cancel exactly the targeted contexts
	flags := true
	for _, wk := range m.all {
		flags = flags && wk.cancelled() == wk.want
	}
	for _, p := range w.parents {
		flags = flags && p.Err() == nil
	}
	nd.Assert(id+".cancel-flags.exactly-the-targeted-work", flags)
	// status counters
	tc, ok1 := c37Counter("Threads_connected")
	tr, ok2 := c37Counter("Threads_running")
	nd.Assert(id+".threads-connected", ok1 && tc == uint64(m.connected()))
	nd.Assert(id+".threads-running", ok2 && tr == uint64(m.runningQueries()))
}

// c37Run: every protocol-conforming history of n steps; the longest ones only
// from the richest initial states.
func c37Run(id string, n, longest int) { c37RunFrom(id, n, longest, nil) }

// c37RunFrom: prefix (if given) is a fixed beginning of the history, played from
// the state (connection 1 idle, connection 2 idle or absent).
func c37RunFrom(id string, n, longest int, prefix []c37Step) {
	// initial state of the two connections: absent, connecting or idle
	var init [2]int
	if prefix == nil {
		init = [2]int{nd.Pick("init0", 3), nd.Pick("init1", 3)}
	} else {
		init = [2]int{c37Idle, 2 * nd.Pick("init1", 2)}
	}
	// the longest histories only from the starts in which the most can happen:
	// connection 1 idle, connection 2 idle or absent
	rich := init[0] == c37Idle && init[1] != c37Connecting
	if n == longest && !rich {
		nd.Assume(false)
	}
	// draw the history and validate it on a scratch model first (cheap), so that
	// rejected histories do not pay for the real set-up
	steps := make([]c37Step, n)
	var scratch c37Model
	for c, st := range init {
		scratch.conn[c].state = st
	}
	for _, s := range prefix {
		if !scratch.allowed(s) {
			nd.Assume(false)
		}
		scratch.simulate(s)
	}
	for k := range steps {
		tag := string(rune('0' + k))
		s := c37Step{kind: nd.Pick("kind"+tag, c37Kinds), c: nd.Pick("conn"+tag, 2)}
		if s.kind == c37BeginQuery {
			s.pid = uint64(7 + nd.Pick("pid"+tag, 2))
		}
		if !scratch.allowed(s) {
			nd.Assume(false)
		}
		scratch.simulate(s)
		steps[k] = s
	}
	w := c37NewWorld()
	for c, st := range init {
		if st >= c37Connecting {
			w.apply(id, c37Step{kind: c37AddConnection, c: c})
		}
		if st == c37Idle {
			w.apply(id, c37Step{kind: c37ConnectionReady, c: c})
		}
	}
	w.check(id)
	for _, s := range prefix {
		w.apply(id, s)
		w.check(id)
	}
	for _, s := range steps {
		w.apply(id, s)
		w.check(id)
	}
	nd.Reach(id)
	// a fresh query on every connection that can take one starts un-cancelled,
	// whatever was killed before
	for c := range w.m.conn {
		cn := &w.m.conn[c]
		if cn.state == c37Idle && cn.running == c37None {
			w.apply(id, c37Step{kind: c37BeginQuery, c: c, pid: 9})
			nd.Assert(id+".earlier-cancellation-does-not-reach-a-new-query", cn.running == c37Query && !cn.work.cancelled())
			w.check(id)
			wk := cn.work
			w.apply(id, c37Step{kind: c37Kill, c: c})
			nd.Assert(id+".kill-reaches-the-new-query", wk.cancelled())
			w.check(id)
			break
		}
	}
}

// simulate: the model transition alone (used to validate a drawn history).
func (m *c37Model) simulate(s c37Step) {
	cn := &m.conn[s.c]
	switch s.kind {
	case c37AddConnection:
		cn.state = c37Connecting
	case c37ConnectionReady:
		cn.state = c37Idle
	case c37BeginQuery:
		if cn.state != c37Absent && !m.pidInUse(s.pid) {
			cn.running, cn.pid = c37Query, s.pid
		}
	case c37EndQuery:
		if cn.running == c37Query {
			cn.stalePid, cn.hasStale = cn.pid, true
			cn.running, cn.pid = c37None, 0
		} else {
			cn.orphan = nil
		}
	case c37BeginOperation:
		if cn.state != c37Absent && cn.running == c37None {
			cn.running = c37Op
		}
	case c37EndOperation:
		cn.running = c37None
	case c37RemoveConnection:
		if cn.state != c37Absent {
			orphan := cn.orphan
			stalePid, hasStale := cn.stalePid, cn.hasStale
			if cn.running == c37Query {
				orphan = &sql.Context{}
				stalePid, hasStale = cn.pid, true
			}
			*cn = c37Conn{orphan: orphan, stalePid: stalePid, hasStale: hasStale}
		}
	}
}

// VerifC37Sequential: every protocol-conforming history by two connections
// from {AddConnection, ConnectionReady, BeginQuery, EndQuery, BeginOperation,
// EndOperation, Kill, RemoveConnection}: 1..2 (thorough 3) operations from
// every initial state (each connection absent, connecting or idle), 3
// (thorough 4) operations from the states (idle, idle) and (idle, absent);
// everything observable is compared with the model after every step.
func VerifC37Sequential() {
	longest := nd.Bound(3, 4)
	c37Run("c37.seq", nd.IntRange("n", 1, longest), longest)
}

// VerifC37AfterAQuery: the same from a connection that has already run and
// ended one query (pid 7): 1..2 (thorough 3) further operations, among them the
// late EndQuery of that finished query — which must not touch whatever the
// connection id is doing by then (a new query, an operation, nothing).
// (Added after the seeded change /verif/seeded/C37-endquery-pid-guard — EndQuery
// no longer matching the pid — was missed: the histories of VerifC37Sequential
// are too short to begin, end, begin again and end late.)
func VerifC37AfterAQuery() {
	longest := nd.Bound(2, 3)
	c37RunFrom("c37.after", nd.IntRange("n", 1, longest), longest+1, []c37Step{
		{kind: c37BeginQuery, c: 0, pid: 7}, {kind: c37EndQuery, c: 0},
	})
}

// VerifC37Concurrent: the lock discipline. Connection 1 is idle, connection 2
// idle; thread A runs BeginQuery on connection 1 while thread B runs one of
//
//	0 Processes()             the snapshot shows connection 1 either before or
//	                          after the BeginQuery, never a mixture
//	1 Kill(1)                 afterwards the query is registered and running;
//	                          it is cancelled or not (both orders are legal)
//	2 BeginQuery on conn 2    with the SAME pid: exactly one of the two succeeds
//
// under every interleaving at mutex / atomic granularity.
func VerifC37Concurrent() {
	other := nd.Pick("other", 3)
	w := c37NewWorld()
	for c := 0; c < 2; c++ {
		w.apply("c37.conc", c37Step{kind: c37AddConnection, c: c})
		w.apply("c37.conc", c37Step{kind: c37ConnectionReady, c: c})
	}
	ctxA := w.newCtx(0, 7)
	ctxB := w.newCtx(1, 7)
	var ra, rb *sql.Context
	var ea, eb error
	var snap []sql.Process
	var wg sync.WaitGroup
	wg.Add(2)
	go func() {
		defer wg.Done()
		ra, ea = w.pl.BeginQuery(ctxA, c37Queries[0])
	}()
	go func() {
		defer wg.Done()
		switch other {
		case 0:
			snap = w.pl.Processes()
		case 1:
			w.pl.Kill(1)
		default:
			rb, eb = w.pl.BeginQuery(ctxB, c37Queries[1])
		}
	}()
	wg.Wait()
	nd.Reach("c37.conc")
	find := func(ps []sql.Process, id uint32) (sql.Process, bool) {
		for _, p := range ps {
			if p.Connection == id {
				return p, true
			}
		}
		return sql.Process{}, false
	}
	before := func(p sql.Process) bool {
		return p.Command == sql.ProcessCommandSleep && p.Query == "" && p.QueryPid == 0
	}
	after := func(p sql.Process, c int) bool {
		return p.Command == sql.ProcessCommandQuery && p.Query == c37Queries[c] && p.QueryPid == 7
	}
	final := w.pl.Processes()
	p1, ok1 := find(final, 1)
	p2, ok2 := find(final, 2)
	nd.Assert("c37.conc.both-connections-listed", len(final) == 2 && ok1 && ok2)
	tr, _ := c37Counter("Threads_running")
	switch other {
	case 0:
		s1, ok := find(snap, 1)
		nd.Assert("c37.conc.snapshot.atomic", len(snap) == 2 && ok && (before(s1) || after(s1, 0)))
		nd.Assert("c37.conc.snapshot.final", ea == nil && after(p1, 0) && before(p2) && tr == 1)
	case 1:
		nd.Assert("c37.conc.kill.query-registered", ea == nil && after(p1, 0) && before(p2) && tr == 1)
		nd.Assert("c37.conc.kill.statement-context-untouched", ctxA.Err() == nil)
	default:
		// one pid cannot be registered twice
		nd.Assert("c37.conc.same-pid.exactly-one-succeeds", (ea == nil) != (eb == nil))
		if ea == nil {
			nd.Assert("c37.conc.same-pid.winner-registered", after(p1, 0) && before(p2) && ra.Err() == nil)
		} else {
			nd.Assert("c37.conc.same-pid.winner-registered", after(p2, 1) && before(p1) && rb.Err() == nil)
		}
	}
}
