//go:build verif

// Package c37 holds the C37 harnesses (process list and KILL). Harness-only
// package: the tool cannot address the module's root package (sqle), whose
// ProcessList API is exported.
package c37

import (
	"context"

	sqle "github.com/dolthub/go-mysql-server"
	nd "github.com/dolthub/go-mysql-server/internal/zzverifnd"
	"github.com/dolthub/go-mysql-server/sql"
	"github.com/dolthub/go-mysql-server/sql/variables"
)

// probe 1: real constructors
func VerifC37ProbeRealCtx() {
	variables.InitStatusVariables()
	sess := sql.NewBaseSessionWithClientServer("srv", sql.Client{User: "u", Address: "h"}, 1)
	ctx := sql.NewContext(context.Background(), sql.WithSession(sess), sql.WithPid(7))
	pl := sqle.NewProcessList()
	pl.AddConnection(1, "h")
	pl.ConnectionReady(sess)
	qctx, err := pl.BeginQuery(ctx, "select 1")
	nd.Reach("c37.probe.real")
	nd.Assert("c37.probe.real.ok", err == nil && qctx != nil)
	_, v, ok := sql.StatusVariables.GetGlobal("Threads_running")
	n, isU := v.(uint64)
	nd.Assert("c37.probe.real.counter", ok && isU && n == 1)
	pl.Kill(1)
	nd.Assert("c37.probe.real.killed", context.Cause(qctx) != nil && context.Cause(ctx) == nil)
	pl.EndQuery(qctx)
	nd.Assert("c37.probe.real.procs", len(pl.Processes()) == 1)
}
