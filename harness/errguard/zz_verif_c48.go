//go:build verif

package errguard

import (
	"errors"

	"golang.org/x/sync/errgroup"

	nd "github.com/dolthub/go-mysql-server/internal/zzverifnd"
)

// C48: a function run through errguard.Go never crashes the process: a panic
// with any value becomes an error returned by the group, and an ordinary
// returned error is propagated unchanged.

type c48Custom struct{ code int }

var c48Sentinel = errors.New("c48 sentinel")

// c48Body returns a function with the selected behaviour:
//
//	0 return nil      1 return the sentinel error
//	2 panic(error)    3 panic(string)   4 panic(symbolic int)
//	5 panic(custom struct)   6 panic(nil)   7 run-time panic (nil map write)
//	8 run-time panic (index out of range with a symbolic index)
func c48Body(tag string, kind int) func() error {
	return func() error {
		switch kind {
		case 0:
			return nil
		case 1:
			return c48Sentinel
		case 2:
			panic(errors.New("boom"))
		case 3:
			panic("boom")
		case 4:
			panic(nd.Int64(tag + ".v"))
		case 5:
			panic(c48Custom{code: int(nd.Int8(tag + ".c"))})
		case 6:
			panic(nil)
		case 7:
			var mp map[string]int
			mp["x"] = 1
		default:
			a := []int{1, 2, 3}
			// always out of range; no nd.Assume here: natively an Assume is a panic and
			// the guard under test would swallow it
			i := 3 + int(nd.Uint8(tag+".i"))
			_ = a[i]
		}
		return nil
	}
}

const c48Kinds = 9

// One guarded function.
func VerifC48One() {
	kind := nd.Pick("kind", c48Kinds)
	var g errgroup.Group
	Go(&g, c48Body("f", kind))
	err := g.Wait()
	nd.Reach("c48.one")
	switch kind {
	case 0:
		nd.Assert("c48.one.nil-stays-nil", err == nil)
	case 1:
		nd.Assert("c48.one.error-unchanged", err == c48Sentinel)
	default:
		nd.Assert("c48.one.panic-becomes-error", err != nil)
	}
}

// Two guarded functions in one group, under every schedule: Wait fails iff
// some function failed or panicked; a plain error is one of the returned ones.
func VerifC48Two() {
	k1, k2 := nd.Pick("k1", c48Kinds), nd.Pick("k2", c48Kinds)
	var g errgroup.Group
	Go(&g, c48Body("f1", k1))
	Go(&g, c48Body("f2", k2))
	err := g.Wait()
	nd.Reach("c48.two")
	if k1 == 0 && k2 == 0 {
		nd.Assert("c48.two.all-ok", err == nil)
	} else {
		nd.Assert("c48.two.failure-reported", err != nil)
	}
	if (k1 == 1 && k2 <= 1) || (k2 == 1 && k1 <= 1) {
		nd.Assert("c48.two.error-unchanged", err == c48Sentinel)
	}
}

// A guarded function that itself starts a guarded goroutine in an inner group
// and returns that group's result (nested goroutines).
func VerifC48Nested() {
	kind := nd.Pick("kind", c48Kinds)
	var outer errgroup.Group
	Go(&outer, func() error {
		var inner errgroup.Group
		Go(&inner, c48Body("in", kind))
		return inner.Wait()
	})
	err := outer.Wait()
	nd.Reach("c48.nested")
	switch kind {
	case 0:
		nd.Assert("c48.nested.nil-stays-nil", err == nil)
	case 1:
		nd.Assert("c48.nested.error-unchanged", err == c48Sentinel)
	default:
		nd.Assert("c48.nested.panic-becomes-error", err != nil)
	}
}

// RecoverAndLog as a deferred call swallows any panic of the surrounding function.
func VerifC48RecoverAndLog() {
	kind := 2 + nd.Pick("kind", c48Kinds-2)
	done := false
	func() {
		defer func() { done = true }()
		defer RecoverAndLog("c48")
		c48Body("f", kind)()
	}()
	nd.Reach("c48.recoverandlog")
	nd.Assert("c48.recoverandlog.continues", done)
}
