//go:build verif

// Package zzverifself holds executor self-test harnesses: plain Go code over
// nondeterministic inputs whose observable results are compared between the
// native build and the symbolic executor (conformance mode).
package zzverifself

import (
	"bufio"
	"bytes"
	"context"
	"crypto/sha256"
	"encoding/binary"
	"encoding/hex"
	"errors"
	"fmt"
	"math/big"
	"math/bits"
	"net"
	"os"
	"regexp"
	"sort"
	"strconv"
	"strings"
	"time"
	"unicode"
	"unicode/utf8"

	nd "github.com/dolthub/go-mysql-server/internal/zzverifnd"
)

type pair struct {
	a int32
	b uint8
}

type shape interface{ area() int }
type sq struct{ s int }
type rect struct{ w, h int }

func (s sq) area() int    { return s.s * s.s }
func (r *rect) area() int { return r.w * r.h }

var errBoom = errors.New("boom")

func VerifSELFArith() {
	a, b := nd.Int64("a"), nd.Int64("b")
	u, v := nd.Uint32("u"), nd.Uint8("v")
	i8 := nd.Int8("i8")
	nd.Observe(a+b, a-b, a*b, a&b, a|b, a^b, a&^b, -a, ^a)
	if b != 0 {
		nd.Observe(a/b, a%b)
	}
	nd.Observe(a<<(v%70), a>>(v%70), uint64(a)>>(v%70), u<<v, u>>v, i8>>(v%9), i8<<(v%9))
	nd.Observe(int8(a), uint16(a), int32(u), int64(i8), uint64(i8), uint32(i8), int16(v))
	nd.Observe(a < b, a <= b, uint64(a) < uint64(b), u > uint32(v))
	nd.Observe(bits.Len64(uint64(a)), bits.OnesCount32(u), bits.TrailingZeros64(uint64(b)), bits.Reverse8(v), bits.LeadingZeros32(u), bits.Len(uint(v)))
	hi, lo := bits.Mul64(uint64(a), uint64(b))
	s, c := bits.Add64(uint64(a), uint64(b), uint64(v&1))
	nd.Observe(hi, lo, s, c)
	nd.Observe(min(a, b), max(a, b, 7))
}

func VerifSELFStrings() {
	s := nd.String("s", nd.IntRange("n", 0, 3))
	t := nd.String("t", 2)
	c := nd.Uint8("c")
	nd.Observe(s+t, s == t, s < t, len(s), strings.ToUpper(s), strings.ToLower(s), strings.TrimSpace(s))
	nd.Observe(strings.IndexByte(s, c), strings.Contains(s, t), strings.HasPrefix(s, t[:1]), strings.Index(s, t), strings.Repeat(t, 2))
	nd.Observe(strings.Split(s, ",")[0], strings.Join([]string{s, t}, "-"), strings.Count(s, "a"), strings.TrimLeft(s, "a "), strings.EqualFold(s, t))
	var rs []rune
	for i, r := range s {
		rs = append(rs, r)
		nd.Observe(i, r)
	}
	nd.Observe(string(rs), []byte(s), utf8.ValidString(s), utf8.RuneCountInString(s), len([]rune(s)))
	nd.Observe(hex.EncodeToString([]byte(t)))
	var sb strings.Builder
	sb.WriteString(s)
	sb.WriteByte(c)
	sb.WriteRune(rune(c) + 200)
	nd.Observe(sb.String(), sb.Len())
	if len(s) > 0 {
		nd.Observe(unicode.IsLetter(rune(s[0])), unicode.IsDigit(rune(s[0])), unicode.IsSpace(rune(s[0])), unicode.ToUpper(rune(s[0])))
	}
	nd.Observe(fmt.Sprintf("%d-%s", 5, "x"))
}

func VerifSELFSlicesMaps() {
	n := nd.IntRange("n", 0, 4)
	xs := make([]int, 0, 2)
	for i := 0; i < n; i++ {
		xs = append(xs, int(nd.Int8(fmt.Sprintf("x%d", i))))
	}
	ys := append([]int(nil), xs...)
	sort.Ints(ys)
	total := 0
	for _, y := range ys {
		total += y
	}
	nd.Observe(len(xs), total)
	for _, y := range ys {
		nd.Observe(y)
	}
	m := map[int]string{}
	for i, x := range xs {
		m[x] = strconv.Itoa(i)
	}
	k := int(nd.Int8("k"))
	v, ok := m[k]
	nd.Observe(len(m), v, ok)
	delete(m, k)
	nd.Observe(len(m))
	ms := map[string]int{"a": 1, "b": 2}
	key := nd.String("key", 1)
	ms[key] += 10
	nd.Observe(ms["a"], ms["b"], len(ms))
	type k2 struct {
		a int8
		b string
	}
	mk := map[k2]int{{1, "x"}: 5}
	mk[k2{nd.Int8("ka"), "x"}]++
	nd.Observe(len(mk), mk[k2{1, "x"}])
	idx := int(nd.Uint8("idx") % 5)
	arr := [5]int{10, 20, 30, 40, 50}
	arr[idx] = 7
	nd.Observe(arr[0], arr[4], arr[(idx+1)%5])
	bs := nd.Bytes("bs", 3)
	cp := make([]byte, 2)
	nd.Observe(copy(cp, bs), cp, bytes.Contains(bs, cp[:1]), bytes.IndexByte(bs, 7), binary.BigEndian.Uint16(bs), binary.LittleEndian.Uint16(bs[1:]))
	sub := bs[1:2]
	sub = append(sub, 9)
	nd.Observe(bs, sub, len(sub), cap(bs[:1]))
}

func VerifSELFControl() {
	a := nd.Int16("a")
	p := pair{a: int32(a), b: nd.Uint8("b")}
	q := p
	q.a++
	pp := &p
	pp.b ^= 0xff
	nd.Observe(p.a, p.b, q.a, q.b, p == q)
	var sh shape
	switch nd.Pick("shape", 3) {
	case 0:
		sh = sq{int(a)}
	case 1:
		sh = &rect{int(a), 2}
	}
	if sh != nil {
		nd.Observe(sh.area())
		if r, ok := sh.(*rect); ok {
			nd.Observe(r.w)
		}
	}
	switch x := any(p.b).(type) {
	case int:
		nd.Observe("int", x)
	case uint8:
		nd.Observe("u8", x)
	}
	f := func(k int) (res int, err error) {
		defer func() {
			if r := recover(); r != nil {
				res = -1
				err = errBoom
			}
		}()
		arr := []int{1, 2, 3}
		return arr[k], nil
	}
	r, err := f(int(a))
	nd.Observe(r, err, errors.Is(err, errBoom))
	acc := 0
	for i := 0; i < int(p.b%6); i++ {
		if i == 3 {
			continue
		}
		acc += i
	}
	nd.Observe(acc)
	lbl := "none"
	switch {
	case a < 0:
		lbl = "neg"
	case a == 0:
		lbl = "zero"
	case a > 100:
		lbl = "big"
	}
	nd.Observe(lbl)
	clo := func() func() int {
		c := int(a)
		return func() int { c++; return c }
	}()
	clo()
	nd.Observe(clo())
	var e error = fmt.Errorf("wrap: %w", errBoom)
	nd.Observe(errors.Is(e, errBoom), e != nil)
}

func VerifSELFStrconv() {
	s := nd.String("s", nd.IntRange("n", 0, 3))
	c := nd.Uint8("c")
	w := nd.Int64("w")
	n, err := strconv.Atoi(s)
	nd.Observe(n, err)
	u64, err := strconv.ParseUint(s, 16, 64)
	nd.Observe(u64, err)
	nd.Observe(strconv.Itoa(int(c)), strconv.FormatInt(int64(int8(c)), 2), strconv.FormatInt(w, 10), strconv.FormatUint(uint64(w), 16))
	nd.Observe(strconv.AppendInt([]byte("x"), int64(int16(w)), 10), fmt.Sprintf("%d|%v|%s", 3, "q", "z"))
}

func dbgMax(v, w int) int {
	if w > v {
		v = w
	}
	return v
}

func VerifSELFIfConv() {
	a, b := nd.Int64("a"), nd.Int64("b")
	v := int(a)
	w := int(b)
	r := dbgMax(v, w)
	nd.Assert("self.ifconv.max.ge-a", r >= v)
	nd.Assert("self.ifconv.max.ge-b", r >= w)
	x := nd.Uint8("x")
	y := nd.Uint8("y")
	k := 5
	if x != y {
		k += 2
	}
	nd.Assert("self.ifconv.k", (k == 7) == (x != y))
	s := []int{1, 2}
	d := s[0] + 1
	if x == y {
		k = d
	}
	nd.Assert("self.ifconv.k2", nd.Or(nd.And(x == y, k == 2), nd.And(x != y, k == 7)))
}

func VerifSELFContextCancel() {
	ctx, cancel := context.WithCancel(context.Background())
	nd.Assert("self.ctx.live", ctx.Err() == nil)
	child := context.WithValue(ctx, selfKey{}, 7)
	cancel()
	nd.Assert("self.ctx.cancelled", ctx.Err() == context.Canceled)
	nd.Assert("self.ctx.child-cancelled", child.Err() != nil)
	nd.Assert("self.ctx.value", child.Value(selfKey{}) == 7)
	ch := make(chan int, 2)
	ch <- int(nd.Int8("x"))
	close(ch)
	v, ok := <-ch
	_, ok2 := <-ch
	nd.Assert("self.chan", ok && !ok2 && v == int(nd.Int8("x")))
	nd.Reach("self.ctx")
}

type selfKey struct{}

// Environment models: time.Unix arithmetic, net address parsing, the in-memory
// file model and bufio.Scanner. Each is compared with the native run
// (conformance) and asserted against what the real library guarantees.
func VerifSELFEnvModels() {
	sec := nd.Int64("env.sec")
	nd.Assume(sec > -1<<40 && sec < 1<<40)
	t := time.Unix(sec, 0)
	nd.Assert("self.env.time-unix-roundtrip", t.Unix() == sec)
	nd.Assert("self.env.time-zero", time.Time{}.Unix() == -62135596800)

	b := nd.Bytes("env.ip", 4)
	ip := net.IP(b).String()
	back := net.ParseIP(ip).To4()
	nd.Assert("self.env.ip-roundtrip", back != nil && back[0] == b[0] && back[1] == b[1] && back[2] == b[2] && back[3] == b[3])

	path := nd.TempPath("self-env")
	defer os.Remove(path)
	_, err := os.Stat(path)
	nd.Assert("self.env.stat-missing", err != nil)
	f, err := os.OpenFile(path, os.O_RDWR|os.O_CREATE|os.O_EXCL, 0640)
	nd.Assert("self.env.create", err == nil)
	if err != nil {
		return
	}
	c := nd.Uint8("env.c")
	nd.Assume(c != '\n' && c != '\r') // ScanLines strips a trailing CR
	f.WriteString("ab\n")
	f.Write([]byte{c, '\n'})
	f.Close()
	data, err := os.ReadFile(path)
	nd.Assert("self.env.readback", err == nil && len(data) == 5 && data[3] == c)
	sc := bufio.NewScanner(bytes.NewReader(data))
	n := 0
	last := ""
	for sc.Scan() {
		n++
		last = sc.Text()
	}
	nd.Reach("self.env.done")
	nd.Observe(n, last, ip)
	nd.Assert("self.env.scanner-lines", n == 2 && len(last) == 1 && last[0] == c)
}

// regexp interpreted from source: a concrete pattern against a symbolic subject.
var selfWordRe = regexp.MustCompile(`^(\w+)(.*)$`)

func VerifSELFRegexp() {
	s := nd.String("re.s", 3)
	m := selfWordRe.FindStringSubmatch(s)
	isWord := func(c byte) bool {
		return nd.Or(nd.Or(c >= '0' && c <= '9', c == '_'), nd.Or(c >= 'a' && c <= 'z', c >= 'A' && c <= 'Z'))
	}
	nl := nd.Or(nd.Or(s[0] == '\n', s[1] == '\n'), s[2] == '\n')
	nd.Assume(!nl) // . does not match a newline
	nd.Reach("self.re.done")
	nd.Assert("self.re.match-iff-leading-word-char", (m != nil) == isWord(s[0]))
	if m != nil {
		nd.Observe(m[1], m[2])
		nd.Assert("self.re.groups-partition", m[1]+m[2] == s && len(m[1]) >= 1)
		pat := regexp.MustCompile("^" + regexp.QuoteMeta("a.b") + "$")
		nd.Assert("self.re.quotemeta", pat.MatchString("a.b") && !pat.MatchString("axb"))
	}
}

// math/big with its portable kernels (build tag math_big_pure_go on the
// executor side only; the native build uses the assembly kernels).
func VerifSELFBig() {
	a := nd.Uint64("big.a")
	b := nd.Uint64("big.b")
	x := new(big.Int).SetUint64(a)
	y := new(big.Int).SetUint64(b)
	sum := new(big.Int).Add(x, y)
	back := new(big.Int).Sub(sum, y)
	nd.Reach("self.big.done")
	nd.Assert("self.big.add-sub", back.Cmp(x) == 0 && back.IsUint64() && back.Uint64() == a)
	nd.Assert("self.big.cmp", (x.Cmp(y) < 0) == (a < b))
	p := new(big.Int).Mul(big.NewInt(1000), big.NewInt(1000))
	nd.Assert("self.big.concrete", p.String() == "1000000")
}

// select: non-blocking forms over nil / open-empty / buffered / closed channels.
func VerifSELFSelect() {
	var nilCh chan int
	open := make(chan int, 1)
	done := make(chan struct{})
	k := nd.Pick("sel.k", 4)
	if k >= 1 {
		open <- 7
	}
	if k >= 2 {
		close(done)
	}
	got, which := -1, 0
	select {
	case <-nilCh:
		which = 1
	case v := <-open:
		got, which = v, 2
	case <-done:
		which = 3
	default:
		which = 4
	}
	nd.Reach("self.select.done")
	nd.Observe(k)
	switch k {
	case 0:
		nd.Assert("self.select.default", which == 4)
	case 1:
		nd.Assert("self.select.buffered", which == 2 && got == 7)
	default:
		nd.Assert("self.select.either-ready", (which == 2 && got == 7) || which == 3)
	}
	ctx, cancel := context.WithCancel(context.Background())
	if k == 3 {
		cancel()
	}
	cancelled := false
	select {
	case <-ctx.Done():
		cancelled = true
	default:
	}
	nd.Assert("self.select.ctx-done", cancelled == (k == 3))
	cancel()
}

// crypto/sha256 as used by the engine (New / Write / Sum, Sum256): real digests
// on concrete input, consistent between the two entry points.
func VerifSELFSha256() {
	h := sha256.New()
	h.Write([]byte("ab"))
	h.Write([]byte("c"))
	sum := h.Sum(nil)
	one := sha256.Sum256([]byte("abc"))
	nd.Reach("self.sha256.done")
	nd.Observe(hex.EncodeToString(sum))
	nd.Assert("self.sha256.known-value", hex.EncodeToString(sum) == "ba7816bf8f01cfea414140de5dae2223b00361a396177a9cb410ff61f20015ad")
	nd.Assert("self.sha256.entry-points-agree", bytes.Equal(sum, one[:]) && h.Size() == 32)
}
