//go:build verif

package strings

import (
	nd "github.com/dolthub/go-mysql-server/internal/zzverifnd"
)

// C32 (quoting part): JSON string quoting / unquoting.
//
//   - no input makes Quote, Unquote or UnquoteBytes crash (a run-time panic on
//     any path is reported by the executor by itself);
//   - for valid UTF-8 s: Unquote(Quote(s)) == s with nil error;
//   - Unquote and UnquoteBytes agree on every input.
//
// Cost notes (measured): Quote's table lookup quoteEscape[b] forks once per
// byte VALUE (128 ways per symbolic ASCII byte); symbolic bytes >= 0x80 that
// reach unicode/utf8's table driven decoder make every solver query take
// seconds (executor gap). So Quote's input is fully symbolic ASCII up to two
// bytes, and longer / non-ASCII inputs are enumerated from concrete alphabets
// chosen to contain every byte that is special to Quote, Unquote or UTF-8.

// ---- input builders ---------------------------------------------------------

// c32ASCII: n symbolic bytes, each < 0x80.
func c32ASCII(name string, n int) string {
	s := nd.String(name, n)
	for i := 0; i < n; i++ {
		c := s[i]
		nd.Assume(c < 0x80)
	}
	return s
}

// bytes that are special to Quote/Unquote: control bytes with a \u00XX escape
// (first, last), a control byte with a short escape, the quote, the backslash,
// letters that form escapes after a backslash, a hex digit.
var c32Alphabet = [...]byte{0x00, 0x1f, '\n', '"', '\\', 'u', 'n', '0'}

// shorter list used where it is combined with non-ASCII material.
var c32AlphabetShort = [...]byte{0x00, '"', '\\', 'a'}

// first and last code point of every well-formed multi-byte range of the
// Unicode standard's table 3-7, plus U+FFFD (which Quote must not confuse with
// a decoding error).
var c32Runes = [...]string{
	"\xC2\x80", "\xDF\xBF",
	"\xE0\xA0\x80", "\xE0\xBF\xBF", "\xE1\x80\x80", "\xEC\xBF\xBF", "\xED\x80\x80", "\xED\x9F\xBF", "\xEE\x80\x80", "\xEF\xBF\xBD", "\xEF\xBF\xBF",
	"\xF0\x90\x80\x80", "\xF1\x80\x80\x80", "\xF3\xBF\xBF\xBF", "\xF4\x8F\xBF\xBF",
}

// low and high end of every class of bytes >= 0x80 that unicode/utf8's tables
// distinguish (first[] entry x accept range).
var c32HighBytes = [...]byte{0x80, 0x8F, 0x90, 0x9F, 0xA0, 0xBF, 0xC0, 0xC1, 0xC2, 0xDF, 0xE0, 0xE1, 0xEC, 0xED, 0xEE, 0xEF, 0xF0, 0xF1, 0xF3, 0xF4, 0xF5, 0xFF}

func c32Name(p string, i int) string { return p + string(rune('0'+i)) }

// ---- round trip -------------------------------------------------------------

// every ASCII string of 0..2 bytes (all 128 byte values per position).
func VerifC32RoundTripAscii() {
	n := nd.IntRange("n", 0, 2)
	s := c32ASCII("s", n)
	q := Quote(s)
	u, err := Unquote(q)
	nd.Reach("c32.roundtrip.ascii")
	nd.Observe(q, u, err == nil)
	nd.Assert("c32.roundtrip.ascii.no-error", err == nil)
	nd.Assert("c32.roundtrip.ascii.identity", u == s)
}

// longer strings over the alphabet of special bytes.
func VerifC32RoundTripAlphabet() {
	n := nd.IntRange("n", 3, nd.Bound(4, 5))
	b := make([]byte, n)
	for i := 0; i < n; i++ {
		b[i] = c32Alphabet[nd.Pick(c32Name("k", i), len(c32Alphabet))]
	}
	s := string(b)
	q := Quote(s)
	u, err := Unquote(q)
	nd.Reach("c32.roundtrip.alphabet")
	nd.Observe(q, u, err == nil)
	nd.Assert("c32.roundtrip.alphabet.no-error", err == nil)
	nd.Assert("c32.roundtrip.alphabet.identity", u == s)
}

// valid UTF-8 with multi-byte sequences: 0..3 segments, each one special
// ASCII byte or one boundary code point.
func VerifC32RoundTripMultibyte() {
	k := nd.IntRange("k", 0, 3)
	s := ""
	for i := 0; i < k; i++ {
		kind := nd.Pick(c32Name("kind", i), len(c32Runes)+len(c32AlphabetShort))
		if kind >= len(c32Runes) {
			s += string([]byte{c32AlphabetShort[kind-len(c32Runes)]})
		} else {
			s += c32Runes[kind]
		}
	}
	q := Quote(s)
	u, err := Unquote(q)
	nd.Reach("c32.roundtrip.multibyte")
	nd.Observe(q, u, err == nil)
	nd.Assert("c32.roundtrip.multibyte.no-error", err == nil)
	nd.Assert("c32.roundtrip.multibyte.identity", u == s)
}

// the in-place variant inverts Quote as well.
func VerifC32RoundTripBytesAscii() {
	n := nd.IntRange("n", 0, 2)
	s := c32ASCII("s", n)
	q := Quote(s)
	u, err := UnquoteBytes([]byte(q))
	nd.Reach("c32.roundtrip-bytes.ascii")
	nd.Observe(q, u, err == nil)
	nd.Assert("c32.roundtrip-bytes.ascii.no-error", err == nil)
	nd.Assert("c32.roundtrip-bytes.ascii.identity", string(u) == s)
}

// ---- Quote on arbitrary (also ill-formed) byte strings ----------------------

func VerifC32QuoteNoPanic() {
	n := nd.IntRange("n", 0, nd.Bound(3, 4))
	b := make([]byte, n)
	for i := 0; i < n; i++ {
		kind := nd.Pick(c32Name("kind", i), len(c32HighBytes)+len(c32AlphabetShort))
		if kind >= len(c32HighBytes) {
			b[i] = c32AlphabetShort[kind-len(c32HighBytes)]
		} else {
			b[i] = c32HighBytes[kind]
		}
	}
	q := Quote(string(b))
	nd.Reach("c32.quote")
	nd.Observe(q)
	nd.Assert("c32.quote.delimited", len(q) >= 2 && q[0] == '"' && q[len(q)-1] == '"')
}

// ---- Unquote / UnquoteBytes on arbitrary bytes ------------------------------

func VerifC32UnquoteNoPanic() {
	n := nd.IntRange("n", 0, nd.Bound(5, 6))
	s := nd.String("s", n)
	u, err := Unquote(s)
	nd.Reach("c32.unquote")
	nd.Observe(u, err == nil)
}

func VerifC32UnquoteBytesNoPanic() {
	n := nd.IntRange("n", 0, nd.Bound(5, 6))
	b := nd.Bytes("b", n)
	u, err := UnquoteBytes(b)
	nd.Reach("c32.unquotebytes")
	nd.Observe(u, err == nil)
}

func c32Agree(id string, b []byte) {
	s := string(b)
	us, errS := Unquote(s)
	c := make([]byte, len(b))
	copy(c, b)
	ub, errB := UnquoteBytes(c)
	nd.Reach(id)
	nd.Observe(us, ub, errS == nil, errB == nil)
	nd.Assert(id+".error-ness", (errS == nil) == (errB == nil))
	if errS == nil && errB == nil {
		nd.Assert(id+".result", us == string(ub))
	}
}

func VerifC32UnquoteAgree() {
	n := nd.IntRange("n", 0, nd.Bound(5, 6))
	c32Agree("c32.agree", nd.Bytes("b", n))
}

// A complete \uXXXX escape needs six bytes: np arbitrary bytes + `\u` + four
// arbitrary bytes + nt arbitrary bytes. One harness per shape (np,nt).
func c32Escape(np, nt int) []byte {
	var b []byte
	b = append(b, nd.Bytes("p", np)...)
	b = append(b, '\\', 'u')
	b = append(b, nd.Bytes("x", 4)...)
	b = append(b, nd.Bytes("t", nt)...)
	return b[:len(b):len(b)]
}

func c32UnquoteEscape(np, nt int) {
	u, err := Unquote(string(c32Escape(np, nt)))
	nd.Reach("c32.unquote.escape")
	nd.Observe(u, err == nil)
}

func c32UnquoteBytesEscape(np, nt int) {
	u, err := UnquoteBytes(c32Escape(np, nt))
	nd.Reach("c32.unquotebytes.escape")
	nd.Observe(u, err == nil)
}

// Naming: the engine explores harnesses of one package on a shared pool in
// reverse name order and solver definitions linger; the Escape harnesses
// (symbolic hex-table lookups, seconds per query) sort first so they run last.
func VerifC32EscapeAgree00()        { c32Agree("c32.agree.escape", c32Escape(0, 0)) }
func VerifC32EscapeAgree01()        { c32Agree("c32.agree.escape", c32Escape(0, 1)) }
func VerifC32EscapeAgree10()        { c32Agree("c32.agree.escape", c32Escape(1, 0)) }
func VerifC32EscapeUnquote00()      { c32UnquoteEscape(0, 0) }
func VerifC32EscapeUnquote01()      { c32UnquoteEscape(0, 1) }
func VerifC32EscapeUnquote10()      { c32UnquoteEscape(1, 0) }
func VerifC32EscapeUnquoteBytes00() { c32UnquoteBytesEscape(0, 0) }
func VerifC32EscapeUnquoteBytes01() { c32UnquoteBytesEscape(0, 1) }
func VerifC32EscapeUnquoteBytes10() { c32UnquoteBytesEscape(1, 0) }
