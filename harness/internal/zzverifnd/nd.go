//go:build verif

// Package zzverifnd is the native side of the nondeterministic-input API used
// by verification harnesses. The symbolic executor (gosymx) intercepts every
// function here; natively the values come from a replay file or from a seeded
// random generator (conformance mode).
package zzverifnd

import (
	"encoding/hex"
	"encoding/json"
	"fmt"
	"math/rand"
	"os"
	"runtime/debug"
	"sort"
	"strconv"
	"strings"
	"testing"
)

type state struct {
	vals     map[string]uint64
	random   *rand.Rand
	drawn    map[string]uint64
	failed   []string
	reached  []string
	observes []string
}

var cur *state

type assumeFailed struct{}

func draw(name string, bits int) uint64 {
	if cur == nil {
		panic("zzverifnd: used outside a harness run")
	}
	if v, ok := cur.drawn[name]; ok {
		return v
	}
	var v uint64
	if cur.random != nil {
		v = biased(cur.random, bits)
	} else {
		v = cur.vals[name]
	}
	if bits < 64 {
		v &= (uint64(1) << uint(bits)) - 1
	}
	cur.drawn[name] = v
	return v
}

func biased(r *rand.Rand, bits int) uint64 {
	mask := ^uint64(0)
	if bits < 64 {
		mask = (uint64(1) << uint(bits)) - 1
	}
	switch r.Intn(8) {
	case 0:
		return 0
	case 1:
		return 1
	case 2:
		return mask // -1 / max unsigned
	case 3:
		return (uint64(1) << uint(bits-1)) & mask // min signed
	case 4:
		return ((uint64(1) << uint(bits-1)) - 1) & mask // max signed
	case 5:
		return uint64(r.Intn(16)) & mask
	case 6:
		return (mask - uint64(r.Intn(16))) & mask
	}
	return r.Uint64() & mask
}

func Bool(name string) bool     { return draw(name, 1) != 0 }
func Int8(name string) int8     { return int8(draw(name, 8)) }
func Int16(name string) int16   { return int16(draw(name, 16)) }
func Int32(name string) int32   { return int32(draw(name, 32)) }
func Int64(name string) int64   { return int64(draw(name, 64)) }
func Int(name string) int       { return int(draw(name, 64)) }
func Uint8(name string) uint8   { return uint8(draw(name, 8)) }
func Uint16(name string) uint16 { return uint16(draw(name, 16)) }
func Uint32(name string) uint32 { return uint32(draw(name, 32)) }
func Uint64(name string) uint64 { return draw(name, 64) }
func Uint(name string) uint     { return uint(draw(name, 64)) }

// Bytes returns n nondeterministic bytes with capacity exactly n.
func Bytes(name string, n int) []byte {
	b := make([]byte, n, n)
	for i := range b {
		b[i] = uint8(draw(name+"["+strconv.Itoa(i)+"]", 8))
	}
	return b
}

// String returns a string of exactly n nondeterministic bytes.
func String(name string, n int) string { return string(Bytes(name, n)) }

// IntRange returns a value in [lo,hi]; the executor forks concretely.
func IntRange(name string, lo, hi int) int {
	if hi < lo {
		panic("zzverifnd.IntRange: empty range")
	}
	if v, ok := cur.drawn[name]; ok {
		return int(int64(v))
	}
	var v int
	if cur.random != nil {
		v = lo + cur.random.Intn(hi-lo+1)
	} else {
		x, ok := cur.vals[name]
		v = int(int64(x))
		if !ok || v < lo || v > hi {
			v = lo
		}
	}
	cur.drawn[name] = uint64(int64(v))
	return v
}

// Pick is IntRange(name, 0, n-1).
func Pick(name string, n int) int { return IntRange(name, 0, n-1) }

func Assume(cond bool) {
	if !cond {
		panic(assumeFailed{})
	}
}

func Assert(id string, cond bool) {
	if !cond {
		cur.failed = append(cur.failed, id)
		// like the executor, continue under the assumption that it held: stop here
		panic(assumeFailed{})
	}
}

func Reach(id string) { cur.reached = append(cur.reached, id) }

// Observe records values for the conformance comparison between the native
// build and the symbolic executor run in concrete mode.
func Observe(vals ...any) {
	var sb strings.Builder
	for i, v := range vals {
		if i > 0 {
			sb.WriteByte(' ')
		}
		sb.WriteString(Fmt(v))
	}
	cur.observes = append(cur.observes, sb.String())
}

// Fmt is the canonical rendering shared with the executor.
func Fmt(v any) string {
	switch x := v.(type) {
	case nil:
		return "nil"
	case bool:
		if x {
			return "true"
		}
		return "false"
	case int:
		return strconv.FormatInt(int64(x), 10)
	case int8:
		return strconv.FormatInt(int64(x), 10)
	case int16:
		return strconv.FormatInt(int64(x), 10)
	case int32:
		return strconv.FormatInt(int64(x), 10)
	case int64:
		return strconv.FormatInt(x, 10)
	case uint:
		return strconv.FormatUint(uint64(x), 10)
	case uint8:
		return strconv.FormatUint(uint64(x), 10)
	case uint16:
		return strconv.FormatUint(uint64(x), 10)
	case uint32:
		return strconv.FormatUint(uint64(x), 10)
	case uint64:
		return strconv.FormatUint(x, 10)
	case uintptr:
		return strconv.FormatUint(uint64(x), 10)
	case string:
		return "s:" + hex.EncodeToString([]byte(x))
	case []byte:
		if x == nil {
			return "b:nil"
		}
		return "b:" + hex.EncodeToString(x)
	case error:
		return "err"
	}
	return fmt.Sprintf("?%T", v)
}

// Result is what one native run of a harness reports.
type Result struct {
	Inputs       map[string]string `json:"inputs"`
	Failed       []string          `json:"failed"`
	Reached      []string          `json:"reached"`
	Observes     []string          `json:"observes"`
	AssumeFailed bool              `json:"assume_failed"`
	Panic        string            `json:"panic,omitempty"`
	Stack        string            `json:"stack,omitempty"`
}

// Run executes one harness natively.
func Run(h func(), vals map[string]uint64, rnd *rand.Rand) (res Result) {
	cur = &state{vals: vals, random: rnd, drawn: map[string]uint64{}}
	defer func() {
		if r := recover(); r != nil {
			if _, ok := r.(assumeFailed); ok {
				res.AssumeFailed = len(cur.failed) == 0
			} else {
				res.Panic = fmt.Sprint(r)
				st := string(debug.Stack())
				if len(st) > 3000 {
					st = st[:3000]
				}
				res.Stack = st
			}
		}
		res.Inputs = map[string]string{}
		for k, v := range cur.drawn {
			res.Inputs[k] = strconv.FormatUint(v, 10)
		}
		res.Failed = cur.failed
		res.Reached = cur.reached
		res.Observes = cur.observes
		cur = nil
	}()
	h()
	return
}

// Main is called by the generated TestVerifHarness in each harness package.
//
//	VERIF_HARNESS=<name> VERIF_REPLAY=<file>           replay one input
//	VERIF_HARNESS=<name> VERIF_CONF=<seed>,<n>,<out>   n random runs, JSON lines
func Main(t *testing.T, table map[string]func()) {
	name := os.Getenv("VERIF_HARNESS")
	if name == "" {
		t.Skip("no VERIF_HARNESS")
	}
	if name == "?" {
		var names []string
		for k := range table {
			names = append(names, k)
		}
		sort.Strings(names)
		fmt.Println("VERIF-HARNESSES", strings.Join(names, " "))
		return
	}
	h := table[name]
	if h == nil {
		t.Fatalf("unknown harness %q", name)
	}
	if conf := os.Getenv("VERIF_CONF"); conf != "" {
		parts := strings.Split(conf, ",")
		seed, _ := strconv.ParseInt(parts[0], 10, 64)
		n, _ := strconv.Atoi(parts[1])
		f, err := os.Create(parts[2])
		if err != nil {
			t.Fatal(err)
		}
		defer f.Close()
		rnd := rand.New(rand.NewSource(seed))
		enc := json.NewEncoder(f)
		for i := 0; i < n; i++ {
			r := Run(h, nil, rnd)
			r.Stack = ""
			enc.Encode(r)
		}
		return
	}
	vals := map[string]uint64{}
	if file := os.Getenv("VERIF_REPLAY"); file != "" {
		raw, err := os.ReadFile(file)
		if err != nil {
			t.Fatal(err)
		}
		var in struct {
			Vals map[string]string `json:"vals"`
		}
		if err := json.Unmarshal(raw, &in); err != nil {
			t.Fatal(err)
		}
		for k, s := range in.Vals {
			v, err := strconv.ParseUint(s, 10, 64)
			if err != nil {
				t.Fatalf("bad value for %s: %v", k, err)
			}
			vals[k] = v
		}
	}
	r := Run(h, vals, nil)
	out, _ := json.Marshal(r)
	fmt.Println("VERIF-RESULT", string(out))
}

// Branch-free boolean connectives (the executor builds one term instead of
// forking as it would for && and ||).
func And(a, b bool) bool     { return a && b }
func Or(a, b bool) bool      { return a || b }
func Implies(a, b bool) bool { return !a || b }
func Iff(a, b bool) bool     { return a == b }

// Tier is 0 for the quick tier and 1 for the thorough tier (VERIF_TIER).
func Tier() int {
	if os.Getenv("VERIF_TIER") == "thorough" {
		return 1
	}
	return 0
}

// Bound selects a bound by tier.
func Bound(quick, thorough int) int {
	if Tier() == 1 {
		return thorough
	}
	return quick
}
