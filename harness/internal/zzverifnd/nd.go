//go:build verif

// Package zzverifnd is the native side of the nondeterministic-input API used
// by verification harnesses. The symbolic executor (gosymx) intercepts every
// function here; natively the values come from a replay file or from a seeded
// random generator (conformance mode).
package zzverifnd

import (
	"encoding/hex"
	"encoding/json"
	"fmt"
	"math/rand"
	"os"
	"runtime/debug"
	"sort"
	"strconv"
	"strings"
	"sync"
	"testing"
)

type state struct {
	vals     map[string]uint64
	random   *rand.Rand
	drawn    map[string]uint64
	failed   []string
	reached  []string
	observes []string
}

var cur *state

type assumeFailed struct{}

func draw(name string, bits int) uint64 {
	if cur == nil {
		panic("zzverifnd: used outside a harness run")
	}
	if v, ok := cur.drawn[name]; ok {
		return v
	}
	var v uint64
	if cur.random != nil {
		v = biased(cur.random, bits)
	} else {
		v = cur.vals[name]
	}
	if bits < 64 {
		v &= (uint64(1) << uint(bits)) - 1
	}
	cur.drawn[name] = v
	return v
}

func biased(r *rand.Rand, bits int) uint64 {
	mask := ^uint64(0)
	if bits < 64 {
		mask = (uint64(1) << uint(bits)) - 1
	}
	switch r.Intn(8) {
	case 0:
		return 0
	case 1:
		return 1
	case 2:
		return mask // -1 / max unsigned
	case 3:
		return (uint64(1) << uint(bits-1)) & mask // min signed
	case 4:
		return ((uint64(1) << uint(bits-1)) - 1) & mask // max signed
	case 5:
		return uint64(r.Intn(16)) & mask
	case 6:
		return (mask - uint64(r.Intn(16))) & mask
	}
	return r.Uint64() & mask
}

func Bool(name string) bool     { return draw(name, 1) != 0 }
func Int8(name string) int8     { return int8(draw(name, 8)) }
func Int16(name string) int16   { return int16(draw(name, 16)) }
func Int32(name string) int32   { return int32(draw(name, 32)) }
func Int64(name string) int64   { return int64(draw(name, 64)) }
func Int(name string) int       { return int(draw(name, 64)) }
func Uint8(name string) uint8   { return uint8(draw(name, 8)) }
func Uint16(name string) uint16 { return uint16(draw(name, 16)) }
func Uint32(name string) uint32 { return uint32(draw(name, 32)) }
func Uint64(name string) uint64 { return draw(name, 64) }
func Uint(name string) uint     { return uint(draw(name, 64)) }

// Bytes returns n nondeterministic bytes with capacity exactly n.
func Bytes(name string, n int) []byte {
	b := make([]byte, n, n)
	for i := range b {
		b[i] = uint8(draw(name+"["+strconv.Itoa(i)+"]", 8))
	}
	return b
}

// String returns a string of exactly n nondeterministic bytes.
func String(name string, n int) string { return string(Bytes(name, n)) }

// IntRange returns a value in [lo,hi]; the executor forks concretely.
func IntRange(name string, lo, hi int) int {
	if hi < lo {
		panic("zzverifnd.IntRange: empty range")
	}
	if v, ok := cur.drawn[name]; ok {
		return int(int64(v))
	}
	var v int
	if cur.random != nil {
		v = lo + cur.random.Intn(hi-lo+1)
	} else {
		x, ok := cur.vals[name]
		v = int(int64(x))
		if !ok || v < lo || v > hi {
			v = lo
		}
	}
	cur.drawn[name] = uint64(int64(v))
	return v
}

// Pick is IntRange(name, 0, n-1).
func Pick(name string, n int) int { return IntRange(name, 0, n-1) }

func Assume(cond bool) {
	if !cond {
		panic(assumeFailed{})
	}
}

func Assert(id string, cond bool) {
	if !cond {
		cur.failed = append(cur.failed, id)
		// like the executor, continue under the assumption that it held: stop here
		panic(assumeFailed{})
	}
}

func Reach(id string) { cur.reached = append(cur.reached, id) }

// Observe records values for the conformance comparison between the native
// build and the symbolic executor run in concrete mode.
func Observe(vals ...any) {
	var sb strings.Builder
	for i, v := range vals {
		if i > 0 {
			sb.WriteByte(' ')
		}
		sb.WriteString(Fmt(v))
	}
	cur.observes = append(cur.observes, sb.String())
}

// Fmt is the canonical rendering shared with the executor.
func Fmt(v any) string {
	switch x := v.(type) {
	case nil:
		return "nil"
	case bool:
		if x {
			return "true"
		}
		return "false"
	case int:
		return strconv.FormatInt(int64(x), 10)
	case int8:
		return strconv.FormatInt(int64(x), 10)
	case int16:
		return strconv.FormatInt(int64(x), 10)
	case int32:
		return strconv.FormatInt(int64(x), 10)
	case int64:
		return strconv.FormatInt(x, 10)
	case uint:
		return strconv.FormatUint(uint64(x), 10)
	case uint8:
		return strconv.FormatUint(uint64(x), 10)
	case uint16:
		return strconv.FormatUint(uint64(x), 10)
	case uint32:
		return strconv.FormatUint(uint64(x), 10)
	case uint64:
		return strconv.FormatUint(x, 10)
	case uintptr:
		return strconv.FormatUint(uint64(x), 10)
	case string:
		return "s:" + hex.EncodeToString([]byte(x))
	case []byte:
		if x == nil {
			return "b:nil"
		}
		return "b:" + hex.EncodeToString(x)
	case error:
		return "err"
	}
	return fmt.Sprintf("?%T", v)
}

// Result is what one native run of a harness reports.
type Result struct {
	Inputs       map[string]string `json:"inputs"`
	Failed       []string          `json:"failed"`
	Reached      []string          `json:"reached"`
	Observes     []string          `json:"observes"`
	AssumeFailed bool              `json:"assume_failed"`
	Panic        string            `json:"panic,omitempty"`
	Stack        string            `json:"stack,omitempty"`
	Deadlock     bool              `json:"deadlock,omitempty"`
	SchedDesync  bool              `json:"sched_desync,omitempty"`
}

// Run executes one harness natively.
func Run(h func(), vals map[string]uint64, rnd *rand.Rand) (res Result) {
	return RunSched(h, vals, rnd, nil, 3)
}

// RunSched is Run with a recorded schedule (thread ids chosen at the
// scheduling decisions) for harnesses that start goroutines.
func RunSched(h func(), vals map[string]uint64, rnd *rand.Rand, schedule []int, maxPreempt int) (res Result) {
	cur = &state{vals: vals, random: rnd, drawn: map[string]uint64{}}
	defer func() {
		if r := recover(); r != nil {
			if gp, ok := r.(goroutinePanic); ok {
				res.Panic = "in goroutine: " + fmt.Sprint(gp.v)
				res.Stack = gp.stack
			} else if dl, ok := r.(deadlockError); ok {
				res.Panic = dl.msg
				res.Deadlock = true
			} else if _, ok := r.(assumeFailed); ok {
				res.AssumeFailed = len(cur.failed) == 0
			} else {
				res.Panic = fmt.Sprint(r)
				st := string(debug.Stack())
				if len(st) > 3000 {
					st = st[:3000]
				}
				res.Stack = st
			}
		}
		res.Inputs = map[string]string{}
		for k, v := range cur.drawn {
			res.Inputs[k] = strconv.FormatUint(v, 10)
		}
		res.Failed = cur.failed
		res.Reached = cur.reached
		res.Observes = cur.observes
		cur = nil
	}()
	desync := false
	func() {
		defer func() {
			if sch != nil {
				desync = sch.desync
			}
		}()
		runScheduled(h, schedule, maxPreempt)
	}()
	res.SchedDesync = desync
	return
}

// Main is called by the generated TestVerifHarness in each harness package.
//
//	VERIF_HARNESS=<name> VERIF_REPLAY=<file>           replay one input
//	VERIF_HARNESS=<name> VERIF_CONF=<seed>,<n>,<out>   n random runs, JSON lines
func Main(t *testing.T, table map[string]func()) {
	name := os.Getenv("VERIF_HARNESS")
	if name == "" {
		t.Skip("no VERIF_HARNESS")
	}
	if name == "?" {
		var names []string
		for k := range table {
			names = append(names, k)
		}
		sort.Strings(names)
		fmt.Println("VERIF-HARNESSES", strings.Join(names, " "))
		return
	}
	h := table[name]
	if h == nil {
		t.Fatalf("unknown harness %q", name)
	}
	if conf := os.Getenv("VERIF_CONF"); conf != "" {
		parts := strings.Split(conf, ",")
		seed, _ := strconv.ParseInt(parts[0], 10, 64)
		n, _ := strconv.Atoi(parts[1])
		f, err := os.Create(parts[2])
		if err != nil {
			t.Fatal(err)
		}
		defer f.Close()
		rnd := rand.New(rand.NewSource(seed))
		enc := json.NewEncoder(f)
		for i := 0; i < n; i++ {
			r := Run(h, nil, rnd)
			r.Stack = ""
			enc.Encode(r)
		}
		return
	}
	vals := map[string]uint64{}
	var replaySched []int
	replayMaxPre := 3
	if file := os.Getenv("VERIF_REPLAY"); file != "" {
		raw, err := os.ReadFile(file)
		if err != nil {
			t.Fatal(err)
		}
		var in struct {
			Vals       map[string]string `json:"vals"`
			Sched      []int             `json:"sched"`
			MaxPreempt int               `json:"max_preempt"`
		}
		if err := json.Unmarshal(raw, &in); err != nil {
			t.Fatal(err)
		}
		for k, s := range in.Vals {
			v, err := strconv.ParseUint(s, 10, 64)
			if err != nil {
				t.Fatalf("bad value for %s: %v", k, err)
			}
			vals[k] = v
		}
		replaySched = in.Sched
		if in.MaxPreempt > 0 {
			replayMaxPre = in.MaxPreempt
		}
	}
	r := RunSched(h, vals, nil, replaySched, replayMaxPre)
	out, _ := json.Marshal(r)
	fmt.Println("VERIF-RESULT", string(out))
}

// Branch-free boolean connectives (the executor builds one term instead of
// forking as it would for && and ||).
func And(a, b bool) bool     { return a && b }
func Or(a, b bool) bool      { return a || b }
func Implies(a, b bool) bool { return !a || b }
func Iff(a, b bool) bool     { return a == b }

// Tier is 0 for the quick tier and 1 for the thorough tier (VERIF_TIER).
func Tier() int {
	if os.Getenv("VERIF_TIER") == "thorough" {
		return 1
	}
	return 0
}

// Bound selects a bound by tier.
func Bound(quick, thorough int) int {
	if Tier() == 1 {
		return thorough
	}
	return quick
}

// TempPath returns a private file name for the harness: natively a name under
// the temporary directory that is unique to this process and does not exist
// (an earlier file of that name is removed); under the symbolic executor a
// name in the path's own in-memory file model (see engine/sx/intrinsics_os.go).
func TempPath(name string) string {
	p := os.TempDir() + "/zzverif-" + strconv.Itoa(os.Getpid()) + "-" + name
	_ = os.Remove(p)
	return p
}

// ---------------------------------------------------------------------------
// Native cooperative scheduler (schedule replay).
//
// The symbolic executor interleaves goroutines at synchronisation operations
// and records the thread chosen at every scheduling decision. For the native
// replay the sources involved are rewritten (in a build overlay) so that the
// same operations call the functions below; exactly one goroutine runs at a
// time and the recorded choices are followed. Without a recorded schedule the
// policy is "keep running; when blocked or finished continue with the lowest
// thread id" — the executor uses the same policy in concrete mode.

type nthread struct {
	id        int
	resume    chan struct{}
	done      bool
	blockedOn any
}

type nmutex struct {
	writer  int
	readers int
}

type nsched struct {
	threads  []*nthread
	cur      *nthread
	choices  []int
	next     int
	preempts int
	maxPre   int
	mutexes  map[any]*nmutex
	wgs      map[any]*int64
	fatal    any
	killed   bool
	desync   bool
	alive    sync.WaitGroup
}

type nkill struct{}

var sch *nsched

func newSched(choices []int, maxPre int) *nsched {
	s := &nsched{choices: choices, maxPre: maxPre, mutexes: map[any]*nmutex{}, wgs: map[any]*int64{}}
	main := &nthread{id: 0, resume: make(chan struct{}, 1)}
	s.threads = []*nthread{main}
	s.cur = main
	return s
}

func (s *nsched) runnable() []*nthread {
	var out []*nthread
	if !s.cur.done && s.cur.blockedOn == nil {
		out = append(out, s.cur)
	}
	for _, t := range s.threads {
		if t != s.cur && !t.done && t.blockedOn == nil {
			out = append(out, t)
		}
	}
	return out
}

// pick makes one scheduling decision among rs (len > 1).
func (s *nsched) pick(rs []*nthread) *nthread {
	if s.next < len(s.choices) {
		id := s.choices[s.next]
		s.next++
		for _, t := range rs {
			if t.id == id {
				return t
			}
		}
		s.desync = true
	}
	return rs[0]
}

func (s *nsched) switchTo(t *nthread, park bool) {
	me := s.cur
	if t == me {
		return
	}
	s.cur = t
	t.resume <- struct{}{}
	if !park {
		return
	}
	<-me.resume
	if s.killed {
		panic(nkill{})
	}
	if s.fatal != nil && me.id == 0 {
		f := s.fatal
		s.fatal = nil
		panic(f)
	}
}

func (s *nsched) yield() {
	if len(s.threads) <= 1 {
		return
	}
	rs := s.runnable()
	if len(rs) <= 1 || s.preempts >= s.maxPre {
		return
	}
	t := s.pick(rs)
	if t != s.cur {
		s.preempts++
		s.switchTo(t, true)
	}
}

type deadlockError struct{ msg string }

func (s *nsched) block(on any) {
	me := s.cur
	me.blockedOn = on
	rs := s.runnable()
	if len(rs) == 0 {
		me.blockedOn = nil
		panic(deadlockError{"deadlock: all goroutines blocked"})
	}
	t := rs[0]
	if len(rs) > 1 {
		t = s.pick(rs)
	}
	s.switchTo(t, true)
}

func (s *nsched) wake(on any) {
	for _, t := range s.threads {
		if t.blockedOn == on {
			t.blockedOn = nil
		}
	}
}

func (s *nsched) toMain(r any) {
	if s.fatal == nil {
		s.fatal = r
	}
	main := s.threads[0]
	s.cur = main
	main.resume <- struct{}{}
}

func (s *nsched) exit(t *nthread) {
	defer func() {
		if r := recover(); r != nil {
			s.toMain(r)
		}
	}()
	s.wake(s)
	rs := s.runnable()
	if len(rs) == 0 {
		all := true
		for _, x := range s.threads {
			if !x.done {
				all = false
			}
		}
		if !all {
			s.toMain(deadlockError{"deadlock: all goroutines blocked"})
		}
		return
	}
	n := rs[0]
	if len(rs) > 1 {
		n = s.pick(rs)
	}
	s.switchTo(n, false)
}

func (s *nsched) pendingOthers() bool {
	for _, t := range s.threads {
		if t != s.cur && !t.done {
			return true
		}
	}
	return false
}

// goroutinePanic marks a panic that escaped a goroutine (it would crash the process).
type goroutinePanic struct {
	v     any
	stack string
}

// Go replaces a go statement.
func Go(f func()) {
	if sch == nil {
		go f()
		return
	}
	s := sch
	t := &nthread{id: len(s.threads), resume: make(chan struct{}, 1)}
	s.threads = append(s.threads, t)
	s.alive.Add(1)
	go func() {
		defer s.alive.Done()
		<-t.resume
		if s.killed {
			return
		}
		defer func() {
			r := recover()
			if _, ok := r.(nkill); ok {
				return
			}
			t.done = true
			if r != nil {
				if _, isAssume := r.(assumeFailed); !isAssume {
					if _, isDl := r.(deadlockError); !isDl {
						r = goroutinePanic{v: r, stack: string(debug.Stack())}
					}
				}
				s.toMain(r)
				return
			}
			s.exit(t)
		}()
		f()
	}()
	s.yield()
}

// SchedPoint is a scheduling point before a synchronisation operation.
func SchedPoint() {
	if sch != nil {
		sch.yield()
	}
}

func (s *nsched) mu(p any) *nmutex {
	st := s.mutexes[p]
	if st == nil {
		st = &nmutex{}
		s.mutexes[p] = st
	}
	return st
}

type locker interface {
	Lock()
	Unlock()
	TryLock() bool
}

type rwlocker interface {
	locker
	RLock()
	RUnlock()
	TryRLock() bool
}

func MuLock(m locker) {
	if sch == nil {
		m.Lock()
		return
	}
	s := sch
	st := s.mu(m)
	s.yield()
	for st.writer != 0 || st.readers > 0 {
		s.block(st)
	}
	st.writer = s.cur.id + 1
	if !m.TryLock() {
		panic("zzverifnd: scheduler model and real mutex disagree (Lock)")
	}
}

func MuUnlock(m locker) {
	if sch == nil {
		m.Unlock()
		return
	}
	s := sch
	st := s.mu(m)
	m.Unlock() // panics like the real thing when not locked
	st.writer = 0
	s.wake(st)
	s.yield()
}

func MuTryLock(m locker) bool {
	if sch == nil {
		return m.TryLock()
	}
	s := sch
	st := s.mu(m)
	s.yield()
	if st.writer != 0 || st.readers > 0 {
		return false
	}
	st.writer = s.cur.id + 1
	return m.TryLock()
}

func MuRLock(m rwlocker) {
	if sch == nil {
		m.RLock()
		return
	}
	s := sch
	st := s.mu(m)
	s.yield()
	for st.writer != 0 {
		s.block(st)
	}
	st.readers++
	if !m.TryRLock() {
		panic("zzverifnd: scheduler model and real RWMutex disagree (RLock)")
	}
}

func MuRUnlock(m rwlocker) {
	if sch == nil {
		m.RUnlock()
		return
	}
	s := sch
	st := s.mu(m)
	m.RUnlock()
	st.readers--
	s.wake(st)
	s.yield()
}

func WgAdd(wg *sync.WaitGroup, delta int) {
	if sch == nil {
		wg.Add(delta)
		return
	}
	s := sch
	n := s.wgs[wg]
	if n == nil {
		n = new(int64)
		s.wgs[wg] = n
	}
	*n += int64(delta)
	if *n < 0 {
		panic("sync: negative WaitGroup counter")
	}
	if *n == 0 {
		s.wake(n)
	}
	s.yield()
}

func WgWait(wg *sync.WaitGroup) {
	if sch == nil {
		wg.Wait()
		return
	}
	s := sch
	s.yield()
	n := s.wgs[wg]
	for n != nil && *n > 0 {
		s.block(n)
	}
}

func Sp0[R any](f func() R) R                     { SchedPoint(); return f() }
func Sp1[A, R any](f func(A) R, a A) R            { SchedPoint(); return f(a) }
func Sp2[A, B, R any](f func(A, B) R, a A, b B) R { SchedPoint(); return f(a, b) }
func Sp3[A, B, C, R any](f func(A, B, C) R, a A, b B, c C) R {
	SchedPoint()
	return f(a, b, c)
}
func SpV0(f func())                                    { SchedPoint(); f() }
func SpV1[A any](f func(A), a A)                       { SchedPoint(); f(a) }
func SpV2[A, B any](f func(A, B), a A, b B)            { SchedPoint(); f(a, b) }
func SpV3[A, B, C any](f func(A, B, C), a A, b B, c C) { SchedPoint(); f(a, b, c) }

// runScheduled runs h as thread 0 under the cooperative scheduler and joins
// every goroutine it started.
func runScheduled(h func(), choices []int, maxPre int) {
	s := newSched(choices, maxPre)
	sch = s
	defer func() {
		// release parked goroutines so that they unwind
		s.killed = true
		for _, t := range s.threads[1:] {
			if !t.done {
				select {
				case t.resume <- struct{}{}:
				default:
				}
			}
		}
		s.alive.Wait()
		sch = nil
	}()
	h()
	for s.pendingOthers() {
		s.block(s)
	}
}
