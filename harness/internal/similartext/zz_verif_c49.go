//go:build verif

package similartext

import (
	"strings"

	nd "github.com/dolthub/go-mysql-server/internal/zzverifnd"
)

// C49: name suggestions pick a closest candidate.
//
// Oracle for the distance: substitution costs 2 here, i.e. exactly a delete plus
// an insert, so the metric is the indel distance |a|+|b|-2*LCS(a,b). LCS is
// computed by its own (row-major, full-matrix) recurrence.

func c49LCS(a, b string) int {
	L := make([][]int, len(a)+1)
	for i := range L {
		L[i] = make([]int, len(b)+1)
	}
	for i := 1; i <= len(a); i++ {
		for j := 1; j <= len(b); j++ {
			v := L[i-1][j]
			w := L[i][j-1]
			d := L[i-1][j-1] + 1
			if w > v {
				v = w
			}
			if a[i-1] == b[j-1] {
				v = d
			}
			L[i][j] = v
		}
	}
	return L[len(a)][len(b)]
}

func VerifC49Distance() {
	mx := nd.Bound(3, 4)
	na, nb := nd.IntRange("na", 0, mx), nd.IntRange("nb", 0, mx)
	a, b := nd.String("a", na), nd.String("b", nb)
	d := distanceForStrings(a, b)
	nd.Reach("c49.distance")
	nd.Assert("c49.distance.indel", d == na+nb-2*c49LCS(a, b))
	nd.Assert("c49.distance.symmetric", d == distanceForStrings(b, a))
	nd.Assert("c49.distance.zero-iff-equal", (d == 0) == (a == b))
	nd.Observe(d)
}

// Find lists exactly the candidates at minimal distance among those below
// DistanceSkipped (in input order), and suggests nothing when none qualifies.
func VerifC49Find() {
	mx := nd.Bound(2, 3)
	ns := nd.IntRange("ns", 0, mx)
	src := nd.String("src", ns)
	k := nd.IntRange("k", 0, nd.Bound(2, 3))
	names := make([]string, k)
	dist := make([]int, k)
	for i := 0; i < k; i++ {
		names[i] = nd.String("name"+string(rune('0'+i)), nd.IntRange("n"+string(rune('0'+i)), 0, mx))
	}
	got := Find(names, src)
	nd.Reach("c49.find")
	nd.Observe(got)
	if ns == 0 {
		nd.Assert("c49.find.empty-source", got == "")
		return
	}
	best := -1
	for i := 0; i < k; i++ {
		dist[i] = ns + len(names[i]) - 2*c49LCS(names[i], src)
		if dist[i] < DistanceSkipped && (best < 0 || dist[i] < best) {
			best = dist[i]
		}
	}
	if best < 0 {
		nd.Assert("c49.find.nothing-qualifies", got == "")
		return
	}
	var want []string
	for i := 0; i < k; i++ {
		if dist[i] == best {
			want = append(want, names[i])
		}
	}
	nd.Assert("c49.find.closest", got == ", maybe you mean "+strings.Join(want, " or ")+"?")
}
