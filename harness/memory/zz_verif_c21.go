//go:build verif

package memory

import (
	"math"
	"strconv"

	nd "github.com/dolthub/go-mysql-server/internal/zzverifnd"
	"github.com/dolthub/go-mysql-server/sql"
	"github.com/dolthub/go-mysql-server/sql/expression"
	"github.com/dolthub/go-mysql-server/sql/types"
)

// C21 for the in-memory backend's in-place column operations
//
//	Table.AddColumn    (addColumnToSchema, insertValueInRows)
//	Table.DropColumn   (dropColumnFromSchema)
//	Table.ModifyColumn (types.TypeAwareConversion per row, then drop + add in the schema)
//
// on table t (c0 BIGINT, c1 BIGINT, c2 BIGINT) of a database, inside a
// transaction of a real memory.Session (session fixture of C15). The primary
// key is none or any one column (selector); one other column is nullable and
// holds NULL or a value; 0..2 rows of full-range symbolic int64.
//
// Oracle, by column NAME on the table data the session reads afterwards:
// every retained column of every row holds its old value (numerically equal,
// in the Go type of the column's type), the added column holds the default,
// the row count is unchanged, rows are as long as the schema; MODIFY succeeds
// exactly when every stored value is representable in the new type, and a
// failed MODIFY leaves rows and schema as they were.

var c21Names = [3]string{"c0", "c1", "c2"}

type c21Cell struct {
	null bool
	v    int64
}

// c21Col: what a column must look like afterwards.
type c21Col struct {
	name  string
	typ   sql.Type
	cells []c21Cell // one per row
}

type c21Fix struct {
	db    *Database
	ctx   *sql.Context
	tbl   *Table // the table as session A sees it
	pkPos int    // -1: keyless
	n     int
	cols  []c21Col // the state before the operation
}

// c21Setup builds the table with its rows and opens the session.
func c21Setup() *c21Fix {
	f := &c21Fix{pkPos: nd.Pick("pk", 4) - 1, n: nd.IntRange("rows", 0, 2)}
	nullCol := 2
	if f.pkPos == 2 {
		nullCol = 1
	}
	sch := make(sql.Schema, 3)
	for i := range sch {
		sch[i] = &sql.Column{Name: c21Names[i], Type: types.Int64, Source: "t", PrimaryKey: i == f.pkPos, Nullable: i == nullCol}
		f.cols = append(f.cols, c21Col{name: c21Names[i], typ: types.Int64, cells: make([]c21Cell, f.n)})
	}
	f.db = NewDatabase("d")
	base := NewTable(nil, f.db, "t", sql.NewPrimaryKeySchema(sch), nil)
	f.db.AddTable("t", base)
	rows := make([]sql.Row, f.n)
	for r := 0; r < f.n; r++ {
		row := make(sql.Row, 3)
		for c := 0; c < 3; c++ {
			name := "r" + strconv.Itoa(r) + c21Names[c]
			cell := c21Cell{v: nd.Int64(name)}
			row[c] = cell.v
			if c == nullCol && nd.Bool(name+".null") {
				cell.null = true
				row[c] = nil
			}
			f.cols[c].cells[r] = cell
		}
		if f.pkPos >= 0 && r > 0 {
			nd.Assume(f.cols[f.pkPos].cells[0].v != f.cols[f.pkPos].cells[1].v)
		}
		rows[r] = row
	}
	base.data.partitions["0"] = rows
	sess, ctx := c15NewSession(f.db)
	tx, err := sess.StartTransaction(ctx, sql.ReadWrite)
	nd.Assert("c21.fixture.begin", err == nil)
	ctx.SetTransaction(tx)
	f.ctx = ctx
	t, ok, err := f.db.GetTableInsensitive(ctx, "t")
	nd.Assert("c21.fixture.table-found", ok && err == nil)
	f.tbl = t.(*Table)
	return f
}

// c21Num: the mathematical value and the width of an integer cell.
func c21Num(cell interface{}) (v int64, bits int, ok bool) {
	switch x := cell.(type) {
	case int64:
		return x, 64, true
	case int32:
		return int64(x), 32, true
	case int16:
		return int64(x), 16, true
	case uint32:
		return int64(x), -32, true
	case int8:
		return int64(x), 8, true
	case uint8:
		return int64(x), -8, true
	}
	return 0, 0, false
}

func c21Bits(t sql.Type) int {
	switch t {
	case types.Int32:
		return 32
	case types.Int16:
		return 16
	case types.Uint32:
		return -32
	case types.Int8:
		return 8
	case types.Uint8:
		return -8
	}
	return 64
}

// c21Fits: v is a value of type t.
func c21Fits(v int64, t sql.Type) bool {
	switch t {
	case types.Int32:
		return nd.And(v >= math.MinInt32, v <= math.MaxInt32)
	case types.Int16:
		return nd.And(v >= math.MinInt16, v <= math.MaxInt16)
	case types.Uint32:
		return nd.And(v >= 0, v <= math.MaxUint32)
	case types.Int8:
		return nd.And(v >= math.MinInt8, v <= math.MaxInt8)
	case types.Uint8:
		return nd.And(v >= 0, v <= math.MaxUint8)
	}
	return true
}

// check compares the table data the session reads now with the expected columns.
func (f *c21Fix) check(prefix string, want []c21Col) {
	t, ok, err := f.db.GetTableInsensitive(f.ctx, "t")
	if !ok || err != nil {
		nd.Assert(prefix+".table-still-there", false)
		return
	}
	view := t.(*Table).sessionTableData(f.ctx)
	sch := view.schema.Schema
	rows := view.partitions["0"]
	nd.Assert(prefix+".row-count-unchanged", len(view.partitions) == 1 && len(rows) == f.n)
	if len(rows) != f.n {
		return
	}
	shape := len(sch) == len(want)
	order := shape
	pk := true
	kept := true
	for _, row := range rows {
		shape = shape && len(row) == len(sch)
	}
	if shape {
		for i, c := range want {
			idx := sch.IndexOfColName(c.name)
			if idx < 0 || !sch[idx].Type.Equals(c.typ) {
				shape = false
				break
			}
			order = order && idx == i
			for r, row := range rows {
				cell := row[idx]
				if cell == nil || c.cells[r].null {
					kept = nd.And(kept, cell == nil && c.cells[r].null)
					continue
				}
				v, bits, isInt := c21Num(cell)
				if !isInt || bits != c21Bits(c.typ) {
					shape = false
					continue
				}
				kept = nd.And(kept, v == c.cells[r].v)
			}
		}
		// the primary key is still the column it was
		ords := view.schema.PkOrdinals
		if f.pkPos < 0 {
			pk = len(ords) == 0
		} else {
			pk = len(ords) == 1 && ords[0] >= 0 && ords[0] < len(sch) && sch[ords[0]].Name == c21Names[f.pkPos]
		}
	}
	nd.Assert(prefix+".schema-columns-and-cell-types", shape)
	nd.Assert(prefix+".values-kept", nd.Or(!shape, kept))
	nd.Assert(prefix+".column-order", !shape || order)
	nd.Assert(prefix+".primary-key-column-unchanged", !shape || pk)
}

func c21Without(cols []c21Col, i int) []c21Col {
	out := append([]c21Col{}, cols[:i]...)
	return append(out, cols[i+1:]...)
}

func c21Insert(cols []c21Col, at int, c c21Col) []c21Col {
	out := append([]c21Col{}, cols[:at]...)
	out = append(out, c)
	return append(out, cols[at:]...)
}

// VerifC21DropColumn: DROP COLUMN ci for a column that is not the primary key.
func VerifC21DropColumn() {
	f := c21Setup()
	i := nd.Pick("column", 3)
	if i == f.pkPos {
		nd.Assume(false)
	}
	err := f.tbl.DropColumn(f.ctx, c21Names[i])
	nd.Reach("c21.drop")
	nd.Observe(err)
	nd.Assert("c21.drop.no-error", err == nil)
	f.check("c21.drop", c21Without(f.cols, i))
}

// VerifC21AddColumn: ADD COLUMN c3 BIGINT [NOT NULL] [DEFAULT d] at the end
// (no position), FIRST, or AFTER ci; d is a symbolic literal.
func VerifC21AddColumn() {
	f := c21Setup()
	pos := nd.Pick("position", 5) // 0: none, 1: FIRST, 2..4: AFTER c0..c2
	nullable := nd.Bool("nullable")
	hasDefault := nd.Bool("has-default")
	d := nd.Int64("default")
	col := &sql.Column{Name: "c3", Type: types.Int64, Source: "t", Nullable: nullable}
	added := c21Col{name: "c3", typ: types.Int64, cells: make([]c21Cell, f.n)}
	for r := range added.cells {
		switch {
		case hasDefault:
			added.cells[r] = c21Cell{v: d}
		case nullable:
			added.cells[r] = c21Cell{null: true}
		default:
			added.cells[r] = c21Cell{v: 0} // implicit default of a NOT NULL integer column
		}
	}
	if hasDefault {
		def, err := sql.NewColumnDefaultValue(expression.NewLiteral(d, types.Int64), types.Int64, true, false, nullable)
		nd.Assert("c21.fixture.default", err == nil)
		col.Default = def
	}
	var order *sql.ColumnOrder
	at := 3
	switch {
	case pos == 1:
		order, at = &sql.ColumnOrder{First: true}, 0
	case pos >= 2:
		order, at = &sql.ColumnOrder{AfterColumn: c21Names[pos-2]}, pos-1
	}
	err := f.tbl.AddColumn(f.ctx, col, order)
	nd.Reach("c21.add")
	nd.Observe(err)
	nd.Assert("c21.add.no-error", err == nil)
	f.check("c21.add", c21Insert(f.cols, at, added))
}

var c21Targets = [...]sql.Type{types.Int32, types.Int16, types.Int8, types.Uint32, types.Uint8, types.Int64}

// c21Modify: MODIFY COLUMN ci <type> with the given position clause.
func c21Modify(prefix string, f *c21Fix, i int, order *sql.ColumnOrder, at int) {
	typ := c21Targets[nd.Pick("type", len(c21Targets))]
	old := f.tbl.data.schema.Schema[i]
	col := &sql.Column{Name: old.Name, Type: typ, Source: "t", Nullable: old.Nullable, PrimaryKey: old.PrimaryKey}
	allFit := true
	for _, c := range f.cols[i].cells {
		allFit = nd.And(allFit, nd.Or(c.null, c21Fits(c.v, typ)))
	}
	err := f.tbl.ModifyColumn(f.ctx, c21Names[i], col, order)
	nd.Reach(prefix)
	nd.Observe(err != nil)
	if err != nil {
		nd.Reach(prefix + ".failed")
		nd.Assert(prefix+".fails-only-if-a-value-is-not-representable", !allFit)
		f.check(prefix+".failed-without-effect", f.cols)
		return
	}
	nd.Assert(prefix+".non-representable-value-is-rejected", allFit)
	want := f.cols[i]
	want.typ = typ
	f.check(prefix+".done", c21Insert(c21Without(f.cols, i), at, want))
}

// VerifC21ModifyColumnType: MODIFY COLUMN ci BIGINT -> INT / TINYINT / TINYINT
// UNSIGNED / SMALLINT / INT UNSIGNED / BIGINT, position unchanged (the case the engine runs in place).
func VerifC21ModifyColumnType() {
	f := c21Setup()
	i := nd.Pick("column", 3)
	c21Modify("c21.modify", f, i, nil, i)
}

// VerifC21ModifyColumnMove: the same with FIRST or AFTER cj. The engine sends
// a MODIFY that moves the column through the table-rewrite path
// (ShouldRewriteTable: orderChanged), so this is the in-place code only.
func VerifC21ModifyColumnMove() {
	f := c21Setup()
	i := nd.Pick("column", 3)
	pos := nd.Pick("position", 3) // 0: FIRST, 1..2: AFTER the j-th OTHER column
	if pos == 0 {
		c21Modify("c21.modify-move", f, i, &sql.ColumnOrder{First: true}, 0)
		return
	}
	others := c21Without(f.cols, i)
	c21Modify("c21.modify-move", f, i, &sql.ColumnOrder{AfterColumn: others[pos-1].name}, pos)
}
