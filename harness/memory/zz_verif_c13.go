//go:build verif

package memory

import (
	"strconv"

	nd "github.com/dolthub/go-mysql-server/internal/zzverifnd"
	"github.com/dolthub/go-mysql-server/sql"
	"github.com/dolthub/go-mysql-server/sql/types"
)

// C13 at kernel level: the per-statement edit accumulators of the in-memory
// backend against a reference table model.
//
// Keyed table (pk BIGINT PRIMARY KEY, v BIGINT, pad BIGINT NULL): the model is
// a map pk -> v. Insert(pk, v) sets the entry, Delete(pk, _) removes it;
// ApplyEdits must leave exactly the model's rows, in primary-key order.
// Keyless table (a BIGINT, b BIGINT): the model is a multiset of rows.
//
// The model is kept as "slots" so that symbolic keys need no forking: one slot
// per initial row and per operation, each (key, value, present). Setting a key
// clears every other slot with that key, so present slots have distinct keys.

type c13Slots struct {
	k, v    []int64
	present []bool
}

func (m *c13Slots) clear(key int64) {
	for i := range m.k {
		m.present[i] = nd.And(m.present[i], m.k[i] != key)
	}
}

func (m *c13Slots) set(key, val int64) {
	m.clear(key)
	m.k = append(m.k, key)
	m.v = append(m.v, val)
	m.present = append(m.present, true)
}

// lookup returns whether key is present and, if so, its value.
func (m *c13Slots) lookup(key int64) (found bool, val int64) {
	for i := range m.k {
		hit := nd.And(m.present[i], m.k[i] == key)
		if hit {
			val = m.v[i]
		}
		found = nd.Or(found, hit)
	}
	return found, val
}

func (m *c13Slots) count() int {
	n := 0
	for i := range m.present {
		if m.present[i] {
			n++
		}
	}
	return n
}

func c13B(b bool) int {
	r := 0
	if b {
		r = 1
	}
	return r
}

// c13KeyedTable: the keyed table with n0 initial rows (pairwise distinct,
// full-range primary keys, in any order) and its model. Rows omit the trailing
// nullable column (see c20Table: verifyRowTypes is not evaluable by the executor).
func c13KeyedTable(n0 int) (*Table, *pkTableEditAccumulator, *c13Slots) {
	sch := sql.Schema{
		{Name: "pk", Type: types.Int64, Source: "t", PrimaryKey: true},
		{Name: "v", Type: types.Int64, Source: "t"},
		{Name: "pad", Type: types.Int64, Source: "t", Nullable: true},
	}
	m := &c13Slots{}
	var rows []sql.Row
	for i := 0; i < n0; i++ {
		s := strconv.Itoa(i)
		k, v := nd.Int64("pk"+s), nd.Int64("v"+s)
		for _, prev := range m.k {
			nd.Assume(prev != k)
		}
		m.k, m.v, m.present = append(m.k, k), append(m.v, v), append(m.present, true)
		rows = append(rows, sql.Row{k, v})
	}
	td := c14Data(sql.NewPrimaryKeySchema(sch), rows...)
	tbl := &Table{name: "t", data: td, ignoreSessionData: true}
	return tbl, c14Pke(td), m
}

// c13CheckKeyed compares the stored rows with the model.
func c13CheckKeyed(prefix string, rows []sql.Row, m *c13Slots) {
	nd.Assert(prefix+".row-count", len(rows) == m.count())
	asc, shape := true, true
	for i, row := range rows {
		_, ok1 := row[0].(int64)
		_, ok2 := row[1].(int64)
		shape = shape && len(row) == 2 && ok1 && ok2
		if i > 0 && shape {
			asc = nd.And(asc, rows[i-1][0].(int64) < row[0].(int64))
		}
	}
	nd.Assert(prefix+".row-shape", shape)
	if !shape {
		return
	}
	nd.Assert(prefix+".primary-key-order-no-duplicates", asc)
	// every model entry is stored with its value
	all := true
	for i := range m.k {
		found := false
		for _, row := range rows {
			found = nd.Or(found, nd.And(row[0].(int64) == m.k[i], row[1].(int64) == m.v[i]))
		}
		all = nd.And(all, nd.Implies(m.present[i], found))
	}
	nd.Assert(prefix+".every-model-row-stored", all)
}

// c13Key: a symbolic primary key in -9..99 (the accumulator renders keys with
// %v, which is modelled by forking on sign and digit count: "-d", "d", "dd").
func c13Key(name string) int64 {
	k := nd.Int64(name)
	nd.Assume(nd.And(k >= -9, k <= 99))
	return k
}

// c13KeyedOps applies nops operations (Insert or Delete by selector) to the
// accumulator and to the model.
func c13KeyedOps(pke *pkTableEditAccumulator, m *c13Slots, nops int) {
	for i := 0; i < nops; i++ {
		s := strconv.Itoa(i)
		k := c13Key("k" + s)
		v := nd.Int64("w" + s)
		if nd.Pick("op"+s, 2) == 0 {
			nd.Assert("c13.keyed.insert-no-error", pke.Insert(nil, sql.Row{k, v}) == nil)
			m.set(k, v)
		} else {
			nd.Assert("c13.keyed.delete-no-error", pke.Delete(nil, sql.Row{k, v}) == nil)
			m.clear(k)
		}
	}
}

// VerifC13KeyedApply: 0..2 initial rows (full-range keys and values), then 0..3
// accumulator operations (keys in -9..99, values full range), then ApplyEdits:
// the stored rows are the model's rows in primary-key order. Quick tier: at
// most 4 rows and operations together (the final sort forks on every order of
// the keys), thorough: all 5.
func VerifC13KeyedApply() {
	n0 := nd.IntRange("n0", 0, 2)
	nops := nd.IntRange("nops", 0, 3)
	if n0+nops > nd.Bound(4, 5) {
		nd.Assume(false)
	}
	tbl, pke, m := c13KeyedTable(n0)
	c13KeyedOps(pke, m, nops)
	err := pke.ApplyEdits(nil, tbl)
	nd.Reach("c13.keyed.applied")
	nd.Assert("c13.keyed.apply.no-error", err == nil)
	c13CheckKeyed("c13.keyed.accumulator-data", pke.tableData.partitions["0"], m)
	c13CheckKeyed("c13.keyed.table-data", tbl.data.partitions["0"], m)
	nd.Assert("c13.keyed.table-gets-a-copy", tbl.data != pke.tableData)
}

// VerifC13KeyedGet: 0..2 initial rows, 0..2 operations, then Get with a probe
// key: it reports a row exactly when the model (stored rows as of the pending
// edits) has that key, and then returns the model's row.
func VerifC13KeyedGet() {
	n0 := nd.IntRange("n0", 0, 2)
	nops := nd.IntRange("nops", 0, 2)
	_, pke, m := c13KeyedTable(n0)
	c13KeyedOps(pke, m, nops)
	probe := c13Key("probe")
	got, added, err := pke.Get(sql.Row{probe, int64(0)})
	nd.Reach("c13.keyed.get")
	want, wantVal := m.lookup(probe)
	nd.Assert("c13.keyed.get.no-error", err == nil)
	nd.Assert("c13.keyed.get.found-iff-in-model", added == want)
	if added {
		gk, ok1 := got[0].(int64)
		gv, ok2 := got[1].(int64)
		nd.Assert("c13.keyed.get.returns-model-row", nd.Implies(want, ok1 && ok2 && gk == probe && gv == wantVal))
	}
}

// ---- keyless ------------------------------------------------------------------

type c13Bag struct {
	a, b    []int64
	present []bool
}

func (m *c13Bag) add(a, b int64) {
	m.a, m.b, m.present = append(m.a, a), append(m.b, b), append(m.present, true)
}

// contains: some present slot equals (a, b).
func (m *c13Bag) contains(a, b int64) bool {
	f := false
	for i := range m.a {
		f = nd.Or(f, nd.And(m.present[i], nd.And(m.a[i] == a, m.b[i] == b)))
	}
	return f
}

// removeOne clears the first present slot equal to (a, b).
func (m *c13Bag) removeOne(a, b int64) {
	done := false
	for i := range m.a {
		hit := nd.And(!done, nd.And(m.present[i], nd.And(m.a[i] == a, m.b[i] == b)))
		m.present[i] = nd.And(m.present[i], !hit)
		done = nd.Or(done, hit)
	}
}

// c13SameBag: rows and the model are the same multiset of (a, b).
func c13SameBag(rows []sql.Row, m *c13Bag) (shape, same bool) {
	shape = true
	for _, row := range rows {
		_, ok1 := row[0].(int64)
		_, ok2 := row[1].(int64)
		shape = shape && len(row) == 2 && ok1 && ok2
	}
	if !shape {
		return false, false
	}
	total := 0
	for i := range m.a {
		total += c13B(m.present[i])
	}
	same = total == len(rows)
	// each value occurs as often among the rows as among the present slots
	for i := range m.a {
		inModel, inRows := 0, 0
		for j := range m.a {
			inModel += c13B(nd.And(m.present[j], nd.And(m.a[j] == m.a[i], m.b[j] == m.b[i])))
		}
		for _, row := range rows {
			inRows += c13B(nd.And(row[0].(int64) == m.a[i], row[1].(int64) == m.b[i]))
		}
		same = nd.And(same, nd.Implies(m.present[i], inModel == inRows))
	}
	return shape, same
}

func c13KeylessTable(n0 int) (*Table, *keylessTableEditAccumulator, *c13Bag) {
	sch := sql.Schema{
		{Name: "a", Type: types.Int64, Source: "t"},
		{Name: "b", Type: types.Int64, Source: "t"},
	}
	m := &c13Bag{}
	var rows []sql.Row
	for i := 0; i < n0; i++ {
		s := strconv.Itoa(i)
		a, b := nd.Int64("a"+s), nd.Int64("b"+s)
		m.add(a, b)
		rows = append(rows, sql.Row{a, b})
	}
	td := c14Data(sql.NewPrimaryKeySchema(sch), rows...)
	tbl := &Table{name: "t", data: td, ignoreSessionData: true}
	acc := newTableEditAccumulator(td).(*keylessTableEditAccumulator)
	return tbl, acc, m
}

// c13Keyless runs 0..3 operations on the keyless accumulator and applies them.
// Delete is only issued for a row that is in the table as of the pending edits
// (a DELETE/UPDATE statement selects the row before deleting it).
// storedDeletes: whether a delete may target a stored row (then ApplyEdits runs
// deleteHelper) or only a row inserted earlier in the same statement.
func c13Keyless(prefix string, storedDeletes bool) {
	n0 := nd.IntRange("n0", 0, 2)
	nops := nd.IntRange("nops", 0, 3)
	tbl, acc, m := c13KeylessTable(n0)
	pendingAdds := &c13Bag{}
	for i := 0; i < nops; i++ {
		s := strconv.Itoa(i)
		a, b := nd.Int64("x"+s), nd.Int64("y"+s)
		if nd.Pick("op"+s, 2) == 0 {
			nd.Assert(prefix+".insert-no-error", acc.Insert(nil, sql.Row{a, b}) == nil)
			m.add(a, b)
			pendingAdds.add(a, b)
		} else {
			nd.Assume(m.contains(a, b))
			if !storedDeletes {
				nd.Assume(pendingAdds.contains(a, b))
			}
			nd.Assert(prefix+".delete-no-error", acc.Delete(nil, sql.Row{a, b}) == nil)
			m.removeOne(a, b)
			pendingAdds.removeOne(a, b)
		}
	}
	err := acc.ApplyEdits(nil, tbl)
	nd.Reach(prefix + ".applied")
	nd.Assert(prefix+".apply.no-error", err == nil)
	shape, same := c13SameBag(acc.tableData.partitions["0"], m)
	nd.Assert(prefix+".accumulator-data.row-shape", shape)
	nd.Assert(prefix+".accumulator-data.same-multiset", same)
	shape, same = c13SameBag(tbl.data.partitions["0"], m)
	nd.Assert(prefix+".table-data.row-shape", shape)
	nd.Assert(prefix+".table-data.same-multiset", same)
}

// VerifC13KeylessPendingOnly: inserts, and deletes of rows inserted earlier in
// the same statement (they cancel in the accumulator); ApplyEdits only appends.
func VerifC13KeylessPendingOnly() { c13Keyless("c13.keyless.pending", false) }

// VerifC13KeylessStoredDeletes: deletes may also target stored rows.
func VerifC13KeylessStoredDeletes() { c13Keyless("c13.keyless.stored", true) }
