//go:build verif

package memory

import (
	"context"
	"errors"
	"strconv"
	"sync"

	nd "github.com/dolthub/go-mysql-server/internal/zzverifnd"
	"github.com/dolthub/go-mysql-server/sql"
	"github.com/dolthub/go-mysql-server/sql/expression"
	"github.com/dolthub/go-mysql-server/sql/types"
)

// C15 at the level of the in-memory table editor's statement protocol
//
//	StatementBegin; Insert / Update / Delete ...; StatementComplete | DiscardChanges(err); Close
//
// as sql/plan.TableEditorIter (one cycle per statement) and
// sql/plan.CheckpointingTableEditorIter (one cycle per row: INSERT IGNORE,
// UPDATE IGNORE) drive it. There is no fault injection hook: the harness picks
// the number of row edits k and then ends the statement with DiscardChanges,
// which is what the iterators do when the (k+1)-th row fails; a row edit that
// itself returns an error (duplicate key) ends the statement at that row.
//
// Table t (pk BIGINT PRIMARY KEY, v BIGINT NULL), one partition, optionally
// the secondary index idx_v on (v) whose storage holds (v, pk, location).
//
// Oracle. The state BEFORE the statement is kept by the harness as plain
// values (primary keys, values, the order of the index entries); the model of
// the edits is the slot model of C13 (c13Slots).
//   discarded  => rows and index storage are exactly the state before
//   completed  => rows are the model's rows in primary-key order, and every
//                 index entry is the (v, pk) of the row at its location, one
//                 entry per row.

const c15Idx = "idx_v"

const (
	c15Complete = iota
	c15DiscardHard
	c15DiscardIgnorable
	c15NumEndings
)

var c15ErrInjected = errors.New("injected failure at this row")

func c15Schema() sql.PrimaryKeySchema {
	return sql.NewPrimaryKeySchema(sql.Schema{
		{Name: "pk", Type: types.Int64, Source: "t", PrimaryKey: true},
		{Name: "v", Type: types.Int64, Source: "t", Nullable: true},
	})
}

// c15Key: a symbolic primary key in 0..9. getRowKey renders keys with %v, which
// the executor models by forking on sign and digit count; how keys of other
// widths render is the business of C13 / C14, here one digit keeps the forks
// for the table sizes.
func c15Key(name string) int64 {
	k := nd.Int64(name)
	nd.Assume(nd.And(k >= 0, k <= 9))
	return k
}

// c15Pre is the state before the statement, as values.
type c15Pre struct {
	k, v    []int64
	withIdx bool
	perm    []int // index entry e describes row perm[e]
}

// c15Fill stores n rows (ascending primary keys: every ApplyEdits leaves the
// partition sorted) in tbl and, if withIdx, defines idx_v with one entry per
// row, the entries in any order that is sorted by v (entries with equal v in any order).
func c15Fill(tbl *Table, n int, withIdx bool) (*c13Slots, *c15Pre) {
	td := tbl.data
	m := &c13Slots{}
	rows := make([]sql.Row, n)
	for i := 0; i < n; i++ {
		s := strconv.Itoa(i)
		k, v := c15Key("pk"+s), nd.Int64("v"+s)
		if i > 0 {
			nd.Assume(m.k[i-1] < k)
		}
		m.k, m.v, m.present = append(m.k, k), append(m.v, v), append(m.present, true)
		rows[i] = sql.Row{k, v}
	}
	td.partitions["0"] = rows
	pre := &c15Pre{k: append([]int64{}, m.k...), v: append([]int64{}, m.v...), withIdx: withIdx}
	if withIdx {
		td.indexes = map[string]sql.Index{
			c15Idx: &Index{DB: td.dbName, Tbl: tbl, TableName: "t", Name: c15Idx,
				Exprs: []sql.Expression{expression.NewGetFieldWithTable(1, 0, types.Int64, td.dbName, "t", "v", true)}},
		}
		perms := c16Perms[n]
		which := 0
		if len(perms) > 2 {
			// three rows: the identity and the reversed order only
			which = nd.Pick("perm", 2) * (len(perms) - 1)
		} else {
			which = nd.Pick("perm", len(perms))
		}
		pre.perm = perms[which]
		st := make([]sql.Row, n)
		for e, i := range pre.perm {
			st[e] = sql.Row{m.v[i], m.k[i], primaryRowLocation{"0", i}}
			if e > 0 {
				// sortSecondaryIndexes (stable, by v) ran at the end of the last ApplyEdits
				nd.Assume(m.v[pre.perm[e-1]] <= m.v[i])
			}
		}
		td.secondaryIndexStorage[indexName(c15Idx)] = st
	}
	return m, pre
}

func c15CopySlots(m *c13Slots) *c13Slots {
	return &c13Slots{k: append([]int64{}, m.k...), v: append([]int64{}, m.v...), present: append([]bool{}, m.present...)}
}

func c15Int(cell interface{}) (int64, bool) {
	v, ok := cell.(int64)
	return v, ok
}

// c15SameAsBefore: td holds exactly the state pre (rows in the same order with
// the same cells; index storage with the same entries in the same order,
// including their row locations).
func c15SameAsBefore(td *TableData, pre *c15Pre) (rows, index bool) {
	part := td.partitions["0"]
	rows = len(td.partitions) == 1 && len(part) == len(pre.k)
	if rows {
		for i, row := range part {
			if len(row) != 2 {
				rows = false
				break
			}
			k, ok1 := c15Int(row[0])
			v, ok2 := c15Int(row[1])
			if !ok1 || !ok2 {
				rows = false
				break
			}
			rows = nd.And(rows, nd.And(k == pre.k[i], v == pre.v[i]))
		}
	}
	if !pre.withIdx {
		index = true
		for _, st := range td.secondaryIndexStorage {
			index = index && len(st) == 0
		}
		return rows, index
	}
	st := td.secondaryIndexStorage[indexName(c15Idx)]
	index = len(td.secondaryIndexStorage) == 1 && len(st) == len(pre.perm)
	if index {
		for e, i := range pre.perm {
			ent := st[e]
			if len(ent) != 3 || ent[2] != (primaryRowLocation{"0", i}) {
				index = false
				break
			}
			v, ok1 := c15Int(ent[0])
			k, ok2 := c15Int(ent[1])
			if !ok1 || !ok2 {
				index = false
				break
			}
			index = nd.And(index, nd.And(k == pre.k[i], v == pre.v[i]))
		}
	}
	return rows, index
}

func c15AssertRestored(prefix string, td *TableData, pre *c15Pre) {
	rows, index := c15SameAsBefore(td, pre)
	nd.Assert(prefix+".rows-as-before", rows)
	nd.Assert(prefix+".index-storage-as-before", index)
}

// c15IndexInv: one index entry per row, locations in range and distinct, every
// entry carries the (v, pk) of the row at its location.
func c15IndexInv(td *TableData, withIdx bool) (shape, current bool) {
	if !withIdx {
		return true, true
	}
	rows := td.partitions["0"]
	st := td.secondaryIndexStorage[indexName(c15Idx)]
	shape = len(td.secondaryIndexStorage) == 1 && len(st) == len(rows)
	current = true
	seen := make([]bool, len(rows))
	for _, e := range st {
		if len(e) != 3 {
			return false, current
		}
		loc, ok := e[2].(primaryRowLocation)
		if !ok || loc.partition != "0" || loc.idx < 0 || loc.idx >= len(rows) || seen[loc.idx] {
			return false, current
		}
		seen[loc.idx] = true
		row := rows[loc.idx]
		ev, ok1 := c15Int(e[0])
		ek, ok2 := c15Int(e[1])
		rk, ok3 := c15Int(row[0])
		rv, ok4 := c15Int(row[1])
		if !(ok1 && ok2 && ok3 && ok4) {
			return false, current
		}
		current = nd.And(current, nd.And(ev == rv, ek == rk))
	}
	return shape, current
}

// c15RowsAreModel: the partition holds exactly the model's present rows, in
// ascending primary-key order (hence without duplicates).
func c15RowsAreModel(td *TableData, m *c13Slots) bool {
	rows := td.partitions["0"]
	if len(td.partitions) != 1 {
		return false
	}
	ks := make([]int64, len(rows))
	vs := make([]int64, len(rows))
	for i, row := range rows {
		if len(row) != 2 {
			return false
		}
		var ok1, ok2 bool
		ks[i], ok1 = c15Int(row[0])
		vs[i], ok2 = c15Int(row[1])
		if !ok1 || !ok2 {
			return false
		}
	}
	ok := true
	for i := 1; i < len(rows); i++ {
		ok = nd.And(ok, ks[i-1] < ks[i])
	}
	count := 0
	for i := range m.k {
		found := false
		for j := range rows {
			found = nd.Or(found, nd.And(ks[j] == m.k[i], vs[j] == m.v[i]))
		}
		ok = nd.And(ok, nd.Implies(m.present[i], found))
		count += c13B(m.present[i])
	}
	return nd.And(ok, count == len(rows))
}

// c15AssertModel: td holds the model's rows (primary-key order) and a
// consistent index.
func c15AssertModel(prefix string, td *TableData, m *c13Slots, withIdx bool) {
	nd.Assert(prefix+".rows-are-all-edits-applied", c15RowsAreModel(td, m))
	shape, current := c15IndexInv(td, withIdx)
	nd.Assert(prefix+".index-consistent-with-rows", nd.And(shape, current))
}

// c15Edit performs one row edit chosen by selector on the editor and, if the
// editor accepts it, on the model. Delete and Update name a row that is in the
// table as of the pending edits (the statement selected it first).
func c15Edit(ed *tableEditor, ctx *sql.Context, m *c13Slots, s string) error {
	nops := 3
	if len(m.k) == 0 {
		nops = 1
	}
	switch nd.Pick("op"+s, nops) {
	case 0:
		k, v := c15Key("k"+s), nd.Int64("w"+s)
		err := ed.Insert(ctx, sql.Row{k, v})
		if err == nil {
			m.set(k, v)
		}
		return err
	case 1:
		j := nd.Pick("target"+s, len(m.k))
		nd.Assume(m.present[j])
		err := ed.Delete(ctx, sql.Row{m.k[j], m.v[j]})
		if err == nil {
			m.clear(m.k[j])
		}
		return err
	}
	j := nd.Pick("target"+s, len(m.k))
	nd.Assume(m.present[j])
	k, v := c15Key("k"+s), nd.Int64("w"+s)
	old := m.k[j]
	err := ed.Update(ctx, sql.Row{old, m.v[j]}, sql.Row{k, v})
	if err == nil {
		m.clear(old)
		m.set(k, v)
	}
	return err
}

// c15Cycle runs one begin ... complete/discard cycle with up to maxEdits row
// edits (how many, and how the cycle ends, are chosen as late as possible so
// that paths share their prefix). It returns the ending that took place (a
// failing row edit ends the cycle with DiscardChanges of that error, or of an
// IgnorableError as INSERT IGNORE / UPDATE IGNORE produce it) and leaves in m
// the model of the table after the cycle.
func c15Cycle(ed *tableEditor, ctx *sql.Context, m *c13Slots, tag string, minEdits, maxEdits int) int {
	saved := c15CopySlots(m)
	ed.StatementBegin(ctx)
	for i := 0; i < maxEdits; i++ {
		s := tag + strconv.Itoa(i)
		if i >= minEdits && nd.Pick("stop-before"+s, 2) == 1 {
			break
		}
		if err := c15Edit(ed, ctx, m, s); err != nil {
			ending := c15DiscardHard
			if nd.Pick("ignore-error"+s, 2) == 1 {
				ending = c15DiscardIgnorable
				err = sql.NewIgnorableError(nil)
			}
			nd.Assert("c15.discard.no-error", ed.DiscardChanges(ctx, err) == nil)
			*m = *saved
			return ending
		}
	}
	ending := nd.Pick("ending"+tag, c15NumEndings)
	switch ending {
	case c15Complete:
		nd.Assert("c15.complete.no-error", ed.StatementComplete(ctx) == nil)
		return ending
	case c15DiscardHard:
		nd.Assert("c15.discard.no-error", ed.DiscardChanges(ctx, c15ErrInjected) == nil)
	default:
		nd.Assert("c15.discard.no-error", ed.DiscardChanges(ctx, sql.NewIgnorableError(nil)) == nil)
	}
	*m = *saved
	return ending
}

// c15SessionFixture: database d with table t registered, a memory.Session over
// a real sql.BaseSession and a sql.Context carrying it. The provider is a
// struct literal (NewDBProvider registers external procedures through
// reflect.ValueOf, which the executor does not model).
func c15SessionFixture() (*Database, *Table) {
	db := NewDatabase("d")
	tbl := NewTable(nil, db, "t", c15Schema(), nil)
	db.AddTable("t", tbl)
	return db, tbl
}

func c15NewSession(db *Database) (*Session, *sql.Context) {
	pro := &DbProvider{dbs: map[string]sql.Database{"d": db}, mu: &sync.RWMutex{}, tableFunctions: map[string]sql.TableFunction{}}
	sess := NewSession(sql.NewBaseSession(), pro)
	return sess, sql.NewContext(context.Background(), sql.WithSession(sess))
}

// c15View: the table data a statement of this session reads next.
func c15View(db *Database, ctx *sql.Context) *TableData {
	t, ok, err := db.GetTableInsensitive(ctx, "t")
	if !ok || err != nil {
		nd.Assert("c15.fixture.table-found", false)
		return nil
	}
	return t.(*Table).sessionTableData(ctx)
}

// c15MaxEdits: rows and row edits together are at most 4 (the final sort forks
// on every order of the keys): up to 2 edits on up to 2 rows at the quick tier,
// up to 3 edits / up to 3 rows at the thorough tier.
func c15MaxEdits(n int) int {
	e := nd.Bound(2, 3)
	if n+e > 4 {
		e = 4 - n
	}
	return e
}

// VerifC15LocalStatement: a table that ignores session data (NewLocalTable),
// one statement of k row edits on the editor the table hands out, ended by
// StatementComplete, by DiscardChanges(hard error) or by
// DiscardChanges(IgnorableError), then Close. Both the table the caller holds
// and the editor's own view are checked.
func VerifC15LocalStatement() {
	n := nd.IntRange("n", 0, nd.Bound(2, 3))
	withIdx := nd.Bool("index")
	tbl := NewLocalTable(nil, nil, "t", c15Schema(), nil)
	m, pre := c15Fill(tbl, n, withIdx)
	ed := tbl.getTableEditor(nil).(*tableEditor)
	ending := c15Cycle(ed, nil, m, "e", 0, c15MaxEdits(n))
	cerr := ed.Close(nil)
	nd.Observe(ending, cerr)
	if ending == c15Complete {
		nd.Reach("c15.local.completed")
		c15AssertModel("c15.local.completed.table", tbl.data, m, withIdx)
		c15AssertModel("c15.local.completed.editor-view", ed.editedTable.data, m, withIdx)
		return
	}
	nd.Reach("c15.local.discarded")
	c15AssertRestored("c15.local.discarded.table", tbl.data, pre)
	c15AssertRestored("c15.local.discarded.editor-view", ed.editedTable.data, pre)
}

// c15Begin: fixture of the session harnesses: table t of database d holding n
// rows, a session with a transaction started and the editor of the table as
// the session sees it.
func c15Begin(n int, withIdx bool) (db *Database, base *Table, ctx *sql.Context, ed *tableEditor, m *c13Slots, pre *c15Pre) {
	db, base = c15SessionFixture()
	m, pre = c15Fill(base, n, withIdx)
	sess, ctx := c15NewSession(db)
	_, err := sess.StartTransaction(ctx, sql.ReadWrite)
	nd.Assert("c15.fixture.begin", err == nil)
	t, _, _ := db.GetTableInsensitive(ctx, "t")
	ed = t.(*Table).getTableEditor(ctx).(*tableEditor)
	return db, base, ctx, ed, m, pre
}

// VerifC15SessionStatement: the same statement on a table of a database, inside
// a transaction of a memory.Session (the default path of the engine). Checked:
// what the session reads next, and that the rows of the database's own copy
// are untouched (nothing is committed).
func VerifC15SessionStatement() {
	n := nd.IntRange("n", 0, nd.Bound(2, 3))
	withIdx := nd.Bool("index")
	db, base, ctx, ed, m, pre := c15Begin(n, withIdx)
	ending := c15Cycle(ed, ctx, m, "e", 0, c15MaxEdits(n))
	cerr := ed.Close(ctx)
	nd.Observe(ending, cerr)
	view := c15View(db, ctx)
	if ending == c15Complete {
		nd.Reach("c15.session.completed")
		c15AssertModel("c15.session.completed.session-view", view, m, withIdx)
	} else {
		nd.Reach("c15.session.discarded")
		c15AssertRestored("c15.session.discarded.session-view", view, pre)
	}
	rows, _ := c15SameAsBefore(base.data, pre)
	nd.Assert("c15.session.uncommitted.database-rows-as-before", rows)
}

// VerifC15CheckpointedCycles: the protocol of CheckpointingTableEditorIter
// (INSERT IGNORE, UPDATE IGNORE): ONE editor, one begin/complete-or-discard
// cycle per row. Each cycle is atomic on its own: a completed cycle applies its
// row edit, a discarded one (IgnorableError: the statement goes on; hard error:
// the statement stops) leaves the state of its own StatementBegin. The final
// state must be the model after the completed cycles.
func VerifC15CheckpointedCycles() {
	n := nd.IntRange("n", 0, nd.Bound(1, 2))
	withIdx := nd.Bool("index")
	db, _, ctx, ed, m, _ := c15Begin(n, withIdx)
	cycles := 2
	for c := 0; c < cycles; c++ {
		s := strconv.Itoa(c)
		if c > 0 && nd.Pick("stop-before-cycle"+s, 2) == 1 {
			break
		}
		if c15Cycle(ed, ctx, m, "c"+s+"e", 1, 1) == c15DiscardHard {
			break
		}
	}
	cerr := ed.Close(ctx)
	nd.Observe(cerr)
	nd.Reach("c15.cycles.closed")
	c15AssertModel("c15.cycles.session-view", c15View(db, ctx), m, withIdx)
}

// VerifC15DiscardAfterIndexedAccess: tableEditor.IndexedAccess (the lookups of
// foreign-key checks and cascades go through it) applies the pending edits in
// the middle of the statement. A statement that is discarded afterwards must
// still leave the state of its StatementBegin. This is the place where the
// snapshot and the edited data can alias: TableData.copy copies the slice of
// index entries but not the entries, and deleteRowFromIndexes /
// partitionssort.Swap rewrite an entry's location cell in place.
func VerifC15DiscardAfterIndexedAccess() {
	n := nd.IntRange("n", 1, nd.Bound(2, 3))
	withIdx := nd.Bool("index")
	db, _, ctx, ed, m, pre := c15Begin(n, withIdx)
	ed.StatementBegin(ctx)
	failed := c15Edit(ed, ctx, m, "b0") != nil
	if !failed {
		nd.Assert("c15.indexed-access.returns-table", ed.IndexedAccess(ctx, sql.IndexLookup{}) != nil)
		if nd.Pick("edit-after-lookup", 2) == 1 {
			failed = c15Edit(ed, ctx, m, "a0") != nil
		}
	}
	nd.Assert("c15.discard.no-error", ed.DiscardChanges(ctx, c15ErrInjected) == nil)
	cerr := ed.Close(ctx)
	nd.Observe(failed, cerr)
	nd.Reach("c15.indexed-access.discarded")
	rows, index := c15SameAsBefore(c15View(db, ctx), pre)
	nd.Assert("c15.indexed-access.discarded.rows-as-before", rows)
	if withIdx {
		nd.Assert("c15.indexed-access.discarded.index-storage-as-before.shared-entry-rewritten-in-place", index)
	} else {
		nd.Assert("c15.indexed-access.discarded.no-index-storage", index)
	}
}
