//go:build verif

package memory

import (
	"context"
	"math"

	nd "github.com/dolthub/go-mysql-server/internal/zzverifnd"
	"github.com/dolthub/go-mysql-server/sql"
	"github.com/dolthub/go-mysql-server/sql/expression"
	"github.com/dolthub/go-mysql-server/sql/types"
)

// C20 at kernel level: one step of the AUTO_INCREMENT counter of the in-memory
// backend, from an ARBITRARY counter value a (so that a history of any length
// is a chain of such steps).
//
//	updateAutoIncrementSafe            a -> a+1 unless that leaves the column type
//	Table.GetNextAutoIncrementValue    the value handed out / the bump on an explicit value
//	Table.PeekNextAutoIncrementValue   read-only
//	tableEditor.Insert (counter block) the bump after the row is stored
//
// Mathematical values: a column value is (negative, magnitude bits); the
// counter is a uint64. Oracles compare those, never call Compare/Convert.

const (
	c20Int8 = iota
	c20Int16
	c20Int24
	c20Int32
	c20Int64
	c20Uint8
	c20Uint16
	c20Uint24
	c20Uint32
	c20Uint64
	c20NumTypes
)

var c20Types = [c20NumTypes]sql.Type{types.Int8, types.Int16, types.Int24, types.Int32, types.Int64,
	types.Uint8, types.Uint16, types.Uint24, types.Uint32, types.Uint64}

var c20Max = [c20NumTypes]uint64{math.MaxInt8, math.MaxInt16, 1<<23 - 1, math.MaxInt32, math.MaxInt64,
	math.MaxUint8, math.MaxUint16, 1<<24 - 1, math.MaxUint32, math.MaxUint64}

// c20Val returns a symbolic value of the Go type that column type k stores
// (MEDIUMINT is stored as int32/uint32 within its 24-bit range), with its
// mathematical value: neg, or else the non-negative magnitude mag.
func c20Val(name string, k int) (cell interface{}, neg bool, mag uint64) {
	switch k {
	case c20Int8:
		v := nd.Int8(name)
		return v, v < 0, uint64(int64(v))
	case c20Int16:
		v := nd.Int16(name)
		return v, v < 0, uint64(int64(v))
	case c20Int24:
		v := nd.Int32(name)
		nd.Assume(nd.And(v >= -(1 << 23), v < 1<<23))
		return v, v < 0, uint64(int64(v))
	case c20Int32:
		v := nd.Int32(name)
		return v, v < 0, uint64(int64(v))
	case c20Int64:
		v := nd.Int64(name)
		return v, v < 0, uint64(v)
	case c20Uint8:
		v := nd.Uint8(name)
		return v, false, uint64(v)
	case c20Uint16:
		v := nd.Uint16(name)
		return v, false, uint64(v)
	case c20Uint24:
		v := nd.Uint32(name)
		nd.Assume(v < 1<<24)
		return v, false, uint64(v)
	case c20Uint32:
		v := nd.Uint32(name)
		return v, false, uint64(v)
	}
	v := nd.Uint64(name)
	return v, false, v
}

// c20Mag: mathematical value of a stored cell of column type k (ok=false: not that Go type).
func c20Mag(cell interface{}) (neg bool, mag uint64, ok bool) {
	switch v := cell.(type) {
	case int8:
		return v < 0, uint64(int64(v)), true
	case int16:
		return v < 0, uint64(int64(v)), true
	case int32:
		return v < 0, uint64(int64(v)), true
	case int64:
		return v < 0, uint64(v), true
	case uint8:
		return false, uint64(v), true
	case uint16:
		return false, uint64(v), true
	case uint32:
		return false, uint64(v), true
	case uint64:
		return false, v, true
	}
	return false, 0, false
}

// c20Table: table t (pk BIGINT PRIMARY KEY, id T AUTO_INCREMENT UNIQUE, pad BIGINT NULL)
// with counter a, and an editor over it. Harness rows are (pk, id): they omit
// the trailing nullable column, because memory.verifyRowTypes (reflect.Type
// comparisons, which the executor cannot evaluate) only runs for rows as long
// as the schema; it is a Go-type sanity check of the row and plays no part in
// the counter. Primary keys are concrete, so no symbolic value is rendered
// with %v; duplicates of id are detected by the unique index (columnsMatch).
func c20Table(k int, a uint64) (*Table, *tableEditor) {
	sch := sql.Schema{
		{Name: "pk", Type: types.Int64, Source: "t", PrimaryKey: true},
		{Name: "id", Type: c20Types[k], Source: "t", AutoIncrement: true},
		{Name: "pad", Type: types.Int64, Source: "t", Nullable: true},
	}
	td := c14Data(sql.NewPrimaryKeySchema(sch))
	td.autoColIdx = 1
	td.autoIncVal = a
	tbl := &Table{name: "t", data: td, ignoreSessionData: true}
	ed := &tableEditor{ea: c14Pke(td), editedTable: tbl, uniqueIdxCols: [][]int{{1}}, prefixLengths: [][]uint16{nil}, uniqueIdxNames: []string{"id"}}
	return tbl, ed
}

// VerifC20UpdateSafe: updateAutoIncrementSafe moves the counter to a+1 exactly
// when a+1 is a value of the column type; otherwise the counter stays. It never
// decreases and never wraps.
func VerifC20UpdateSafe() {
	k := nd.Pick("type", c20NumTypes)
	a := nd.Uint64("a")
	before := a
	updateAutoIncrementSafe(nil, &sql.Column{Name: "id", Type: c20Types[k], AutoIncrement: true}, &a)
	nd.Reach("c20.updatesafe")
	nd.Observe(a)
	fits := nd.And(before != math.MaxUint64, before+1 <= c20Max[k])
	if fits {
		nd.Assert("c20.updatesafe.increments", a == before+1)
	} else {
		nd.Assert("c20.updatesafe.stays-at-type-limit", a == before)
	}
	nd.Assert("c20.updatesafe.never-decreases", a >= before)
}

// VerifC20GetNext: GetNextAutoIncrementValue(NULL) hands out the counter and
// leaves it; with an explicit positive value v of the column's Go type (the
// AutoIncrement expression passes nothing else: NULL/0 become NULL, negative
// values bypass the call) the counter becomes max(a, v) and is returned.
func VerifC20GetNext() {
	k := nd.Pick("type", c20NumTypes)
	a := nd.Uint64("a")
	tbl, _ := c20Table(k, a)
	if nd.Pick("given", 2) == 0 {
		r, err := tbl.GetNextAutoIncrementValue(nil, nil)
		nd.Reach("c20.getnext.null")
		nd.Observe(r, err)
		nd.Assert("c20.getnext.null.no-error", err == nil)
		nd.Assert("c20.getnext.null.generated-is-counter", r == a)
		nd.Assert("c20.getnext.null.counter-unchanged", tbl.data.autoIncVal == a)
		return
	}
	cell, neg, v := c20Val("v", k)
	nd.Assume(nd.And(!neg, v != 0))
	r, err := tbl.GetNextAutoIncrementValue(nil, cell)
	nd.Reach("c20.getnext.explicit")
	nd.Observe(r, err)
	after := tbl.data.autoIncVal
	want := a
	if v > a {
		want = v
	}
	nd.Assert("c20.getnext.explicit.no-error", err == nil)
	nd.Assert("c20.getnext.explicit.counter-is-max", after == want)
	nd.Assert("c20.getnext.explicit.returns-counter", r == after)
	nd.Assert("c20.getnext.explicit.never-decreases", after >= a)
}

// VerifC20Peek: PeekNextAutoIncrementValue does not move the counter and, for a
// counter inside the column type's range, reports it.
func VerifC20Peek() {
	k := nd.Pick("type", c20NumTypes)
	a := nd.Uint64("a")
	tbl, _ := c20Table(k, a)
	r, err := tbl.PeekNextAutoIncrementValue(nil)
	nd.Reach("c20.peek")
	nd.Observe(r, err)
	nd.Assert("c20.peek.no-error", err == nil)
	nd.Assert("c20.peek.counter-unchanged", tbl.data.autoIncVal == a)
	nd.Assert("c20.peek.in-range-reports-counter", nd.Implies(a <= c20Max[k], r == a))
	nd.Assert("c20.peek.reports-value-of-type", nd.Implies(a == c20Max[k]+1 && a != 0, r == c20Max[k]))
}

// VerifC20InsertCounter: the counter block of tableEditor.Insert on table
// (pk BIGINT PRIMARY KEY, id T AUTO_INCREMENT), counter a, row (1, v) with v any
// value of T's Go type: the row is accepted; the counter never decreases;
// v < a leaves it; v >= a moves it past v, except that it stops at the largest
// value of T.
func VerifC20InsertCounter() {
	k := nd.Pick("type", c20NumTypes)
	a := nd.Uint64("a")
	_, ed := c20Table(k, a)
	cell, neg, v := c20Val("v", k)
	err := ed.Insert(nil, sql.Row{int64(1), cell})
	nd.Reach("c20.insert")
	after := ed.ea.TableData().autoIncVal
	nd.Observe(after, err)
	max := c20Max[k]
	nd.Assert("c20.insert.accepted", err == nil)
	nd.Assert("c20.insert.never-decreases", after >= a)
	below := nd.Or(neg, v < a)
	if below {
		nd.Assert("c20.insert.smaller-value-leaves-counter", after == a)
	} else if v < max {
		nd.Assert("c20.insert.counter-passes-explicit-value", after == v+1)
	} else {
		nd.Assert("c20.insert.counter-stops-at-type-limit", after == v)
	}
	nd.Assert("c20.insert.stays-in-type-range", nd.Implies(a <= max, after <= max))
}

// c20Generate evaluates the real AUTO_INCREMENT expression over the row
// (pk, given) and, if it yields a value, inserts (pk, value) through the editor.
func c20Generate(tbl *Table, ed *tableEditor, k int, pk int64, given interface{}) (val interface{}, evalErr, insErr error) {
	ai, err := expression.NewAutoIncrement(nil, tbl, expression.NewGetField(1, c20Types[k], "id", true))
	if err != nil {
		return nil, err, nil
	}
	val, evalErr = ai.Eval(nil, sql.Row{pk, given})
	if evalErr != nil {
		return nil, evalErr, nil
	}
	return val, nil, ed.Insert(nil, sql.Row{pk, val})
}

// VerifC20TwoGenerated: table (pk, id T AUTO_INCREMENT UNIQUE), arbitrary
// counter a, two consecutive inserts of NULL through expression.AutoIncrement
// and tableEditor.Insert: the first gets a (or fails if a is not a value of
// T); the second gets a strictly larger value, or fails.
func VerifC20TwoGenerated() {
	k := nd.Pick("type", c20NumTypes)
	a := nd.Uint64("a")
	tbl, ed := c20Table(k, a)
	v1, e1, i1 := c20Generate(tbl, ed, k, 1, nil)
	mid := tbl.data.autoIncVal
	v2, e2, i2 := c20Generate(tbl, ed, k, 2, nil)
	nd.Reach("c20.two-generated")
	max := c20Max[k]
	ok1 := e1 == nil && i1 == nil
	ok2 := e2 == nil && i2 == nil
	nd.Observe(ok1, ok2, mid, tbl.data.autoIncVal)
	nd.Assert("c20.two-generated.counter-never-decreases", nd.And(mid >= a, tbl.data.autoIncVal >= mid))
	if a > max {
		nd.Assert("c20.two-generated.out-of-range-counter-fails", !ok1)
		return
	}
	nd.Assert("c20.two-generated.first-accepted", ok1)
	if !ok1 {
		return
	}
	_, m1, isT := c20Mag(v1)
	nd.Assert("c20.two-generated.first-is-counter", isT && m1 == a)
	if ok2 {
		_, m2, isT2 := c20Mag(v2)
		nd.Assert("c20.two-generated.strictly-increasing", isT2 && m2 > m1)
	} else {
		// only legitimate reason: the type is exhausted
		nd.Assert("c20.two-generated.fails-only-at-type-limit", a == max)
	}
}

// VerifC20ExplicitThenGenerated: same table, arbitrary counter a; first an
// insert with an explicit non-zero value v of T's Go type, then an insert of
// NULL: the generated value is at least a and larger than v, or the second
// insert fails (which it may only do when the type is exhausted).
func VerifC20ExplicitThenGenerated() {
	k := nd.Pick("type", c20NumTypes)
	a := nd.Uint64("a")
	tbl, ed := c20Table(k, a)
	cell, neg, v := c20Val("v", k)
	nd.Assume(nd.Or(neg, v != 0)) // 0 means NULL and needs the session's sql_mode
	_, e1, i1 := c20Generate(tbl, ed, k, 1, cell)
	mid := tbl.data.autoIncVal
	v2, e2, i2 := c20Generate(tbl, ed, k, 2, nil)
	nd.Reach("c20.explicit-then-generated")
	max := c20Max[k]
	ok2 := e2 == nil && i2 == nil
	nd.Observe(e1 == nil && i1 == nil, ok2, mid, tbl.data.autoIncVal)
	nd.Assert("c20.explicit.accepted", e1 == nil && i1 == nil)
	nd.Assert("c20.explicit.counter-never-decreases", nd.And(mid >= a, tbl.data.autoIncVal >= mid))
	if ok2 {
		gneg, g, isT := c20Mag(v2)
		nd.Assert("c20.explicit.generated-is-value-of-type", isT && !gneg && g <= max)
		nd.Assert("c20.explicit.generated-not-below-counter", g >= a)
		nd.Assert("c20.explicit.generated-exceeds-explicit", nd.Or(neg, g > v))
	} else {
		nd.Assert("c20.explicit.fails-only-at-type-limit", nd.Or(a >= max, nd.And(!neg, v == max)))
	}
}

// c20Session is a stub session that only answers the sql_mode variable (the
// default mode). The executor can build neither sql.NewEmptyContext() (time.Now)
// nor sql.NewBaseSession() (sync/atomic.Value).
type c20Session struct{ sql.Session }

func (c20Session) GetSessionVariable(ctx *sql.Context, name string) (interface{}, error) {
	if name == sql.SqlModeSessionVar {
		return sql.DefaultSqlMode, nil
	}
	return nil, sql.ErrUnknownSystemVariable.New(name)
}

// VerifC20ZeroIsGenerated: an explicit 0 is treated like NULL (default sql_mode,
// read from a stub session): the row gets the counter value.
func VerifC20ZeroIsGenerated() {
	k := nd.Pick("type", c20NumTypes)
	a := nd.Uint64("a")
	nd.Assume(nd.And(a >= 1, a <= c20Max[k]))
	tbl, _ := c20Table(k, a)
	ctx := &sql.Context{Context: context.Background(), Session: c20Session{}}
	ai, err := expression.NewAutoIncrement(ctx, tbl, expression.NewGetField(1, c20Types[k], "id", true))
	if err != nil {
		nd.Assert("c20.zero.expression-built", false)
		return
	}
	val, err := ai.Eval(ctx, sql.Row{int64(1), c20Types[k].Zero()})
	nd.Reach("c20.zero")
	nd.Observe(err)
	_, m, isT := c20Mag(val)
	nd.Assert("c20.zero.no-error", err == nil)
	nd.Assert("c20.zero.gets-counter", isT && m == a)
}
