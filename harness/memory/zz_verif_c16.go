//go:build verif

package memory

import (
	"sort"
	"strconv"

	nd "github.com/dolthub/go-mysql-server/internal/zzverifnd"
	"github.com/dolthub/go-mysql-server/sql"
	"github.com/dolthub/go-mysql-server/sql/expression"
	"github.com/dolthub/go-mysql-server/sql/types"
)

// C16 at kernel level: one step of secondary-index maintenance in the
// in-memory backend.
//
// Table t (pk BIGINT PRIMARY KEY, k BIGINT NULL, pad BIGINT NULL), one
// partition "0", secondary index idx_k on (k). The index storage is a slice of
// entries (k, pk, primaryRowLocation{partition, position}) -- the layout
// Index.rowToIndexStorage produces.
//
// Representation invariant INV (what an index scan relies on, see
// indexScanRowIter.Next: it filters on the entry's key values and returns the
// row at the entry's location):
//
//	as many entries as rows; every entry has 3 cells, its location is in
//	partition "0" and in range, no two entries share a location, and the
//	entry's (k, pk) are the CURRENT (k, pk) of the row at that location.
//
// The order of the entries is not part of INV: deletes and inserts run
// unsorted inside ApplyEdits, which re-sorts at the end (VerifC16Sort*).
// Each harness starts from an arbitrary state satisfying INV (rows symbolic,
// entry order an arbitrary permutation) and checks INV after one step, so a
// history of any length keeps INV.

const c16Idx = "idx_k"

type c16Row struct {
	pk    int64
	k     int64
	kNull bool
}

func (r c16Row) key() interface{} {
	if r.kNull {
		return nil
	}
	return r.k
}

// c16Perms[n] lists the permutations of 0..n-1.
var c16Perms = [4][][]int{
	{{}},
	{{0}},
	{{0, 1}, {1, 0}},
	{{0, 1, 2}, {0, 2, 1}, {1, 0, 2}, {1, 2, 0}, {2, 0, 1}, {2, 1, 0}},
}

// c16State builds a table of n rows with pairwise distinct primary keys and an
// index storage that satisfies INV, entries in the order of permutation perm.
// Rows are stored without the trailing nullable column (see c20Table: rows
// shorter than the schema skip the reflect-based verifyRowTypes).
func c16State(n int, nullableKeys bool) (*TableData, []c16Row) {
	sch := sql.Schema{
		{Name: "pk", Type: types.Int64, Source: "t", PrimaryKey: true},
		{Name: "k", Type: types.Int64, Source: "t", Nullable: true},
		{Name: "pad", Type: types.Int64, Source: "t", Nullable: true},
	}
	td := c14Data(sql.NewPrimaryKeySchema(sch))
	tbl := &Table{name: "t", data: td, ignoreSessionData: true}
	td.indexes = map[string]sql.Index{
		c16Idx: &Index{Tbl: tbl, TableName: "t", Name: c16Idx,
			Exprs: []sql.Expression{expression.NewGetFieldWithTable(1, 0, types.Int64, "", "t", "k", true)}},
	}
	model := make([]c16Row, n)
	rows := make([]sql.Row, n)
	for i := 0; i < n; i++ {
		s := strconv.Itoa(i)
		model[i] = c16Row{pk: nd.Int64("pk" + s), k: nd.Int64("k" + s)}
		if nullableKeys {
			model[i].kNull = nd.Bool("k" + s + ".null")
		}
		for j := 0; j < i; j++ {
			nd.Assume(model[j].pk != model[i].pk)
		}
		rows[i] = sql.Row{model[i].pk, model[i].key()}
	}
	td.partitions["0"] = rows
	perm := c16Perms[n][nd.Pick("perm", len(c16Perms[n]))]
	st := make([]sql.Row, n)
	for e, i := range perm {
		st[e] = sql.Row{model[i].key(), model[i].pk, primaryRowLocation{"0", i}}
	}
	td.secondaryIndexStorage[indexName(c16Idx)] = st
	return td, model
}

// c16SameCell: two cells hold the same NULL-or-BIGINT.
func c16SameCell(a, b interface{}) bool {
	if a == nil || b == nil {
		return a == nil && b == nil
	}
	x, ok1 := a.(int64)
	y, ok2 := b.(int64)
	return ok1 && ok2 && x == y
}

// c16Inv reports whether INV holds, as separate facts.
func c16Inv(td *TableData) (sizes, shape, distinct, current bool) {
	rows := td.partitions["0"]
	st := td.secondaryIndexStorage[indexName(c16Idx)]
	sizes = len(st) == len(rows) && len(td.partitions) == 1 && len(td.secondaryIndexStorage) == 1
	shape, distinct, current = true, true, true
	seen := make([]bool, len(rows))
	for _, e := range st {
		if len(e) != 3 {
			shape = false
			continue
		}
		loc, ok := e[2].(primaryRowLocation)
		if !ok || loc.partition != "0" || loc.idx < 0 || loc.idx >= len(rows) {
			shape = false
			continue
		}
		if seen[loc.idx] {
			distinct = false
		}
		seen[loc.idx] = true
		row := rows[loc.idx]
		current = nd.And(current, nd.And(c16SameCell(e[0], row[1]), c16SameCell(e[1], row[0])))
	}
	return
}

func c16AssertInv(prefix string, td *TableData) {
	sizes, shape, distinct, current := c16Inv(td)
	nd.Assert(prefix+".one-entry-per-row", sizes)
	nd.Assert(prefix+".locations-in-range", shape)
	nd.Assert(prefix+".locations-distinct", distinct)
	nd.Assert(prefix+".entry-matches-current-row", current)
}

// c16SameRows: the partition holds exactly the model rows, in order.
func c16SameRows(td *TableData, want []c16Row) bool {
	rows := td.partitions["0"]
	if len(rows) != len(want) {
		return false
	}
	same := true
	for i, w := range want {
		same = nd.And(same, nd.And(c16SameCell(rows[i][0], w.pk), c16SameCell(rows[i][1], w.key())))
	}
	return same
}

// VerifC16RowToIndexStorage: the entry built for a row is (k, pk, location).
func VerifC16RowToIndexStorage() {
	td, _ := c16State(0, false)
	r := c16Row{pk: nd.Int64("pk"), k: nd.Int64("k"), kNull: nd.Bool("k.null")}
	pos := nd.IntRange("pos", 0, 3)
	e, err := td.indexes[c16Idx].(*Index).rowToIndexStorage(sql.Row{r.pk, r.key()}, "0", pos)
	nd.Reach("c16.entry")
	nd.Assert("c16.entry.no-error", err == nil)
	nd.Assert("c16.entry.layout", len(e) == 3 && c16SameCell(e[0], r.key()) && c16SameCell(e[1], r.pk) && e[2] == primaryRowLocation{"0", pos})
}

// VerifC16DeleteStep: from a state satisfying INV (1..3 rows), remove the row
// at position d the way both deleteHelpers do and call deleteRowFromIndexes.
func VerifC16DeleteStep() {
	n := nd.IntRange("n", 1, 3)
	td, model := c16State(n, true)
	d := nd.Pick("d", n)
	part := td.partitions["0"]
	td.partitions["0"] = append(part[:d], part[d+1:]...)
	deleteRowFromIndexes(td, "0", d)
	nd.Reach("c16.delete-step")
	want := append(append([]c16Row{}, model[:d]...), model[d+1:]...)
	nd.Assert("c16.delete-step.rows", c16SameRows(td, want))
	c16AssertInv("c16.delete-step", td)
}

// VerifC16AddStep: from a state satisfying INV (0..3 rows), append a row the
// way both insertHelpers do and call addRowToIndexes.
func VerifC16AddStep() {
	n := nd.IntRange("n", 0, 3)
	td, model := c16State(n, true)
	r := c16Row{pk: nd.Int64("pk"), k: nd.Int64("k"), kNull: nd.Bool("k.null")}
	row := sql.Row{r.pk, r.key()}
	td.partitions["0"] = append(td.partitions["0"], row)
	err := addRowToIndexes(td, row, "0", len(td.partitions["0"])-1)
	nd.Reach("c16.add-step")
	nd.Assert("c16.add-step.no-error", err == nil)
	nd.Assert("c16.add-step.rows", c16SameRows(td, append(append([]c16Row{}, model...), r)))
	c16AssertInv("c16.add-step", td)
}

// VerifC16DeleteHelper: the real pkTableEditAccumulator.deleteHelper on a
// state satisfying INV (0..3 rows) with an arbitrary row to delete: the rows
// afterwards are the rows before without the one with that primary key (if
// any), and INV holds.
func VerifC16DeleteHelper() {
	n := nd.IntRange("n", 0, 3)
	td, model := c16State(n, false)
	r := c16Row{pk: nd.Int64("pk"), k: nd.Int64("k")}
	pke := c14Pke(td)
	err := pke.deleteHelper(nil, td, sql.Row{r.pk, r.key()})
	nd.Reach("c16.delete-helper")
	nd.Assert("c16.delete-helper.no-error", err == nil)
	var want []c16Row
	for _, m := range model {
		if m.pk != r.pk {
			want = append(want, m)
		}
	}
	nd.Assert("c16.delete-helper.rows", c16SameRows(td, want))
	c16AssertInv("c16.delete-helper", td)
}

// VerifC16InsertHelper: the real pkTableEditAccumulator.insertHelper on a state
// satisfying INV (0..3 rows) with an arbitrary new row.
func VerifC16InsertHelper() {
	n := nd.IntRange("n", 0, 3)
	td, model := c16State(n, false)
	r := c16Row{pk: nd.Int64("pk"), k: nd.Int64("k")}
	pke := c14Pke(td)
	clash := false
	for _, m := range model {
		clash = nd.Or(clash, m.pk == r.pk)
	}
	// Precondition guaranteed by every caller: tableEditor.Insert rejects a row whose
	// primary key is stored or pending (ea.Get) before it reaches the accumulator, and
	// Update / REPLACE delete the old row first (ApplyEdits applies deletes before adds).
	// With a clashing key insertHelper overwrites the row in place and leaves the old
	// index entry behind — a state no history reaches, so it is assumed away, not claimed.
	nd.Assume(!clash)
	err := pke.insertHelper(nil, td, sql.Row{r.pk, r.key()})
	nd.Reach("c16.insert-helper")
	nd.Assert("c16.insert-helper.no-error", err == nil)
	nd.Assert("c16.insert-helper.rows", c16SameRows(td, append(append([]c16Row{}, model...), r)))
	c16AssertInv("c16.insert-helper", td)
}

// c16Sorter is the sort.Interface that TableData.sortRows builds (same fields).
func c16Sorter(td *TableData) partitionssort {
	_, col := td.getColumnOrdinal("pk")
	var flat []partitionRow
	for i := range td.partitions["0"] {
		flat = append(flat, partitionRow{"0", i})
	}
	return partitionssort{pk: []pkfield{{i: 0, c: col}}, ps: td.partitions, allRows: flat, indexes: td.secondaryIndexStorage, ctx: nil}
}

// VerifC16SwapStep: partitionssort.Swap(i, j) -- the step by which sortRows
// reorders rows -- on a state satisfying INV (2..3 rows): rows i and j trade
// places and INV holds (the index locations move with the rows).
func VerifC16SwapStep() {
	n := nd.IntRange("n", 2, 3)
	td, model := c16State(n, true)
	i, j := nd.Pick("i", n), nd.Pick("j", n)
	c16Sorter(td).Swap(i, j)
	nd.Reach("c16.swap-step")
	want := append([]c16Row{}, model...)
	want[i], want[j] = want[j], want[i]
	nd.Assert("c16.swap-step.rows", c16SameRows(td, want))
	c16AssertInv("c16.swap-step", td)
}

// VerifC16SortRowsByPk: sort.Sort over the real partitionssort (Len/Less/Swap),
// i.e. TableData.sortRows without its final sortSecondaryIndexes call (which
// the executor cannot run: sort.SliceStable needs reflectlite), on a state
// satisfying INV (0..3 rows in any order): the rows end up in ascending
// primary-key order, the same rows as before, and INV holds.
func VerifC16SortRowsByPk() {
	n := nd.IntRange("n", 0, 3)
	td, model := c16State(n, false)
	sort.Sort(c16Sorter(td))
	nd.Reach("c16.sort-rows")
	rows := td.partitions["0"]
	nd.Assert("c16.sort-rows.count", len(rows) == n)
	asc := true
	for i := 0; i+1 < len(rows); i++ {
		asc = nd.And(asc, rows[i][0].(int64) < rows[i+1][0].(int64))
	}
	nd.Assert("c16.sort-rows.ascending-primary-key", asc)
	// same rows: every model row is present (primary keys are distinct)
	all := true
	for _, m := range model {
		found := false
		for _, row := range rows {
			found = nd.Or(found, nd.And(c16SameCell(row[0], m.pk), c16SameCell(row[1], m.key())))
		}
		all = nd.And(all, found)
	}
	nd.Assert("c16.sort-rows.same-rows", all)
	c16AssertInv("c16.sort-rows", td)
}

// TRUNCATE followed by inserts: truncate() must leave no index entry behind —
// a stale entry still names a storage position, and the next rows inserted
// occupy exactly those positions. From an arbitrary valid state (0..3 rows):
// truncate, then 0..2 inserts through the real insertHelper; afterwards the
// invariant holds and the rows are exactly the inserted ones.
// (Added after the seeded change /verif/seeded/C16-truncate-stale-index — a
// range-variable slip that cleared nothing — was missed by the single-step
// harnesses.)
func VerifC16TruncateThenInsert() {
	n := nd.IntRange("tr.n", 0, 3)
	td, _ := c16State(n, false)
	td = td.truncate(nil, td.schema)
	nd.Reach("c16.truncate")
	nd.Assert("c16.truncate.rows-gone", len(td.partitions) == 1 && len(td.partitions["0"]) == 0)
	nd.Assert("c16.truncate.index-entries-gone", len(td.secondaryIndexStorage[indexName(c16Idx)]) == 0)
	k := nd.IntRange("tr.inserts", 0, 2)
	pke := c14Pke(td)
	var want []c16Row
	for i := 0; i < k; i++ {
		r := c16Row{pk: int64(10 + i), k: nd.Int64("tr.k" + string(rune('0'+i)))}
		err := pke.insertHelper(nil, td, sql.Row{r.pk, r.key()})
		nd.Assert("c16.truncate.insert-no-error", err == nil)
		want = append(want, r)
	}
	nd.Assert("c16.truncate.rows", c16SameRows(td, want))
	// after truncate() the storage map may legitimately have no slot for the index until the
	// first insert, so only the entry count is compared, not the number of map slots
	_, shape, distinct, current := c16Inv(td)
	entries := len(td.secondaryIndexStorage[indexName(c16Idx)])
	nd.Assert("c16.truncate.index-consistent", entries == len(want) && shape && distinct && current)
}
