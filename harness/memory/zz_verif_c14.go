//go:build verif

package memory

import (
	"strconv"

	nd "github.com/dolthub/go-mysql-server/internal/zzverifnd"
	"github.com/dolthub/go-mysql-server/internal/cmap"
	"github.com/dolthub/go-mysql-server/sql"
	"github.com/dolthub/go-mysql-server/sql/types"
	"github.com/dolthub/vitess/go/sqltypes"
)

// C14 at kernel level: the functions that decide "these two rows have the same
// primary / unique key" in the in-memory backend.
//
//	pkTableEditAccumulator.getRowKey   row -> key of the per-statement edit maps
//	columnsMatch                       stored row vs new row on the listed columns
//	hasNullForAnyCols                  NULLs exempt a row from a unique index
//	tableEditor.checkUniqueConstraints the decision built from the three
//
// Oracles are definitions: two keys are the same iff every key column is equal
// under the column type (integers: numeric equality; *_bin / binary: the same
// bytes; case-insensitive collations on printable ASCII: equal after folding
// 'a'..'z' onto 'A'..'Z' -- the literal table is tied to the real collation by
// VerifC14FoldTableMatchesCollation).

// c14Schema builds a schema of len(ts) columns; the first npk are the primary key.
func c14Schema(npk int, ts ...sql.Type) sql.PrimaryKeySchema {
	sch := make(sql.Schema, len(ts))
	for i, t := range ts {
		sch[i] = &sql.Column{Name: "c" + strconv.Itoa(i), Type: t, Source: "t", PrimaryKey: i < npk, Nullable: i >= npk}
	}
	return sql.NewPrimaryKeySchema(sch)
}

// c14Data is a one-partition TableData as NewPartitionedTableWithCollation builds it.
func c14Data(schema sql.PrimaryKeySchema, rows ...sql.Row) *TableData {
	return &TableData{
		tableName:             "t",
		schema:                schema,
		partitions:            map[string][]sql.Row{"0": rows},
		partitionKeys:         [][]byte{[]byte("0")},
		autoColIdx:            -1,
		secondaryIndexStorage: make(map[indexName][]sql.Row),
	}
}

func c14Pke(td *TableData) *pkTableEditAccumulator {
	return &pkTableEditAccumulator{
		tableData: td,
		adds:      cmap.NewMap[string, sql.Row](),
		deletes:   cmap.NewMap[string, sql.Row](),
	}
}

// c14Small returns a symbolic BIGINT with |v| < bound (the digit model of %v
// forks on the number of digits).
func c14Small(name string, bound int64) int64 {
	v := nd.Int64(name)
	nd.Assume(nd.And(v > -bound, v < bound))
	return v
}

// VerifC14RowKeyInt: primary key of one or two BIGINT columns. Two rows get the
// same edit-map key iff they agree on every key column.
func VerifC14RowKeyInt() {
	npk := nd.IntRange("npk", 1, 2)
	bound := int64(nd.Bound(1000, 10000))
	if npk == 1 {
		bound = 10000
	}
	ts := make([]sql.Type, npk+1)
	for i := range ts {
		ts[i] = types.Int64
	}
	pke := c14Pke(c14Data(c14Schema(npk, ts...)))
	r1 := make(sql.Row, npk+1)
	r2 := make(sql.Row, npk+1)
	a := make([]int64, npk)
	b := make([]int64, npk)
	same := true
	for i := 0; i < npk; i++ {
		a[i] = c14Small("a"+strconv.Itoa(i), bound)
		b[i] = c14Small("b"+strconv.Itoa(i), bound)
		r1[i], r2[i] = a[i], b[i]
		same = nd.And(same, a[i] == b[i])
	}
	r1[npk], r2[npk] = nd.Int64("va"), nd.Int64("vb")
	k1 := pke.getRowKey(r1)
	k2 := pke.getRowKey(r2)
	nd.Reach("c14.rowkey.int")
	nd.Observe(k1, k2)
	nd.Assert("c14.rowkey.int.no-missed-duplicate", nd.Implies(same, k1 == k2))
	// Defect class of the known finding: a composite key whose rows differ but
	// whose column renderings, written one after the other, give the same text.
	if npk == 2 {
		t1 := strconv.FormatInt(a[0], 10) + strconv.FormatInt(a[1], 10)
		t2 := strconv.FormatInt(b[0], 10) + strconv.FormatInt(b[1], 10)
		if !same && t1 == t2 {
			nd.Assert("c14.rowkey.int.no-false-duplicate.composite-concatenation", k1 != k2)
			return
		}
	}
	nd.Assert("c14.rowkey.int.no-false-duplicate", nd.Implies(k1 == k2, same))
}

// ---- strings ---------------------------------------------------------------

const (
	c14CollBin  = iota // utf8mb4_0900_bin: equal iff the same bytes
	c14Coll0900        // utf8mb4_0900_ai_ci (the default collation)
	c14CollGen         // utf8mb4_general_ci
	c14NumColl
)

func c14StrType(coll int) sql.Type {
	switch coll {
	case c14CollBin:
		return types.MustCreateString(sqltypes.VarChar, 16, sql.Collation_utf8mb4_0900_bin)
	case c14Coll0900:
		return types.MustCreateString(sqltypes.VarChar, 16, sql.Collation_utf8mb4_0900_ai_ci)
	}
	return types.MustCreateString(sqltypes.VarChar, 16, sql.Collation_utf8mb4_general_ci)
}

// c14Fold is the case folding of both case-insensitive collations on printable ASCII.
func c14Fold(c byte) byte {
	f := c
	if nd.And(c >= 'a', c <= 'z') {
		f = c - 32
	}
	return f
}

// c14Printable restricts a string to printable ASCII (0x20..0x7E).
func c14Printable(s string) {
	for i := 0; i < len(s); i++ {
		nd.Assume(nd.And(s[i] >= 0x20, s[i] <= 0x7E))
	}
}

// c14StrEq: equality of two strings of printable ASCII under the collation;
// bytes reports plain byte equality.
func c14StrEq(coll int, a, b string) (eq, bytes bool) {
	if len(a) != len(b) {
		return false, false
	}
	eq, bytes = true, true
	for i := 0; i < len(a); i++ {
		x, y := a[i], b[i]
		bytes = nd.And(bytes, x == y)
		eq = nd.And(eq, c14Fold(x) == c14Fold(y))
	}
	if coll == c14CollBin {
		eq = bytes
	}
	return eq, bytes
}

// VerifC14FoldTableMatchesCollation ties the literal folding table to the real
// collations: for every pair of printable ASCII characters the column type's
// Compare says "equal" exactly when the folded bytes are equal (concrete
// inputs: first character by selector, second by loop). utf8mb4_0900_ai_ci is
// not in this harness: its weight table is a go:embed file the executor sees
// as empty; the same 95x95 table was checked once with the native build.
func VerifC14FoldTableMatchesCollation() {
	coll := [...]int{c14CollBin, c14CollGen}[nd.Pick("coll", 2)]
	typ := c14StrType(coll)
	x := byte(0x20 + nd.Pick("x", 0x7F-0x20))
	for y := byte(0x20); y <= 0x7E; y++ {
		cmp, err := typ.Compare(nil, string([]byte{x}), string([]byte{y}))
		want, _ := c14StrEq(coll, string([]byte{x}), string([]byte{y}))
		nd.Assert("c14.fold-table.compare-ok", err == nil)
		nd.Assert("c14.fold-table.same-as-collation", (cmp == 0) == want)
	}
	nd.Reach("c14.fold-table")
}

// VerifC14RowKeyStr: primary key of one or two VARCHAR columns (0..2 bytes of
// printable ASCII each). Same edit-map key iff equal under the collation.
func VerifC14RowKeyStr() {
	npk := nd.IntRange("npk", 1, 2)
	coll := nd.Pick("coll", c14NumColl)
	ts := make([]sql.Type, npk+1)
	for i := 0; i < npk; i++ {
		ts[i] = c14StrType(coll)
	}
	ts[npk] = types.Int64
	pke := c14Pke(c14Data(c14Schema(npk, ts...)))
	r1 := make(sql.Row, npk+1)
	r2 := make(sql.Row, npk+1)
	same, sameBytes := true, true
	t1, t2 := "", ""
	for i := 0; i < npk; i++ {
		si := strconv.Itoa(i)
		a := nd.String("a"+si, nd.IntRange("na"+si, 0, 2))
		b := nd.String("b"+si, nd.IntRange("nb"+si, 0, 2))
		c14Printable(a)
		c14Printable(b)
		r1[i], r2[i] = a, b
		eq, beq := c14StrEq(coll, a, b)
		same = nd.And(same, eq)
		sameBytes = nd.And(sameBytes, beq)
		t1 += a
		t2 += b
	}
	r1[npk], r2[npk] = nd.Int64("va"), nd.Int64("vb")
	k1 := pke.getRowKey(r1)
	k2 := pke.getRowKey(r2)
	nd.Reach("c14.rowkey.str")
	nd.Observe(k1, k2)
	// Defect class: rows equal under a case-insensitive collation but not byte for byte.
	if same && !sameBytes {
		nd.Assert("c14.rowkey.str.no-missed-duplicate.case-insensitive", k1 == k2)
		return
	}
	nd.Assert("c14.rowkey.str.no-missed-duplicate", nd.Implies(same, k1 == k2))
	// Defect class: composite key, rows differ, the concatenated column texts coincide.
	if npk == 2 && !same && t1 == t2 {
		nd.Assert("c14.rowkey.str.no-false-duplicate.composite-concatenation", k1 != k2)
		return
	}
	nd.Assert("c14.rowkey.str.no-false-duplicate", nd.Implies(k1 == k2, same))
}

// ---- unique indexes -----------------------------------------------------------

// c14NullableInt returns a NULL-or-BIGINT cell (full range).
func c14NullableInt(name string) (cell interface{}, v int64, null bool) {
	v = nd.Int64(name)
	null = nd.Bool(name + ".null")
	cell = v
	if null {
		cell = nil
	}
	return cell, v, null
}

// VerifC14HasNull: hasNullForAnyCols is true iff a listed column is NULL.
func VerifC14HasNull() {
	ncols := nd.IntRange("ncols", 0, 3)
	row := make(sql.Row, 3)
	nulls := make([]bool, 3)
	for i := range row {
		row[i], _, nulls[i] = c14NullableInt("c" + strconv.Itoa(i))
	}
	// listed columns: any ordinals, repeats allowed
	cols := make([]int, ncols)
	want := false
	for i := range cols {
		cols[i] = nd.Pick("col"+strconv.Itoa(i), 3)
		want = nd.Or(want, nulls[cols[i]])
	}
	got := hasNullForAnyCols(row, cols)
	nd.Reach("c14.hasnull")
	nd.Assert("c14.hasnull.definition", got == want)
}

// VerifC14UniqueCheckInt: table (c0 BIGINT PRIMARY KEY, c1 BIGINT, c2 BIGINT)
// with a unique index on (c1) or (c1,c2); up to two existing rows, each either
// stored in the table or pending in the statement's accumulator; the new row
// is rejected iff some existing row agrees with it on every indexed column,
// all of them non-NULL. Indexed cells are NULL or a full-range BIGINT.
func VerifC14UniqueCheckInt() {
	ncols := nd.IntRange("ncols", 1, 2)
	nrows := nd.IntRange("nrows", 0, 2)
	cols := []int{1, 2}[:ncols]
	mk := func(name string, pk int64) (sql.Row, []int64, []bool) {
		row := make(sql.Row, 3)
		v := make([]int64, 3)
		null := make([]bool, 3)
		row[0] = pk
		for i := 1; i < 3; i++ {
			if i <= ncols {
				row[i], v[i], null[i] = c14NullableInt(name + ".c" + strconv.Itoa(i))
			} else {
				v[i] = nd.Int64(name + ".c" + strconv.Itoa(i))
				row[i] = v[i]
			}
		}
		return row, v, null
	}
	newRow, nv, nn := mk("new", nd.Int64("new.pk"))
	dup := false
	pke := c14Pke(c14Data(c14Schema(1, types.Int64, types.Int64, types.Int64)))
	for i := 0; i < nrows; i++ {
		// primary keys of existing rows are the concrete 1, 2 (they play no part in the unique check)
		row, v, null := mk("r"+strconv.Itoa(i), int64(i+1))
		if nd.Pick("where"+strconv.Itoa(i), 2) == 0 {
			pke.tableData.partitions["0"] = append(pke.tableData.partitions["0"], row)
		} else {
			_ = pke.Insert(nil, row)
		}
		m := true
		for _, c := range cols {
			m = nd.And(m, nd.And(nd.And(!null[c], !nn[c]), v[c] == nv[c]))
		}
		dup = nd.Or(dup, m)
	}
	ed := &tableEditor{ea: pke, uniqueIdxCols: [][]int{cols}, prefixLengths: [][]uint16{nil}, uniqueIdxNames: []string{"u"}}
	err := ed.checkUniqueConstraints(nil, newRow)
	nd.Reach("c14.unique.int")
	nd.Observe(err != nil)
	nd.Assert("c14.unique.int.duplicate-rejected", nd.Implies(dup, err != nil))
	nd.Assert("c14.unique.int.no-false-duplicate", nd.Implies(err != nil, dup))
	if err != nil {
		nd.Assert("c14.unique.int.error-kind", sql.ErrUniqueKeyViolation.Is(err))
	}
}

// VerifC14ColumnsMatchStr: columnsMatch on one VARCHAR column (0..2 bytes of
// printable ASCII) with an index prefix length 0..3 (0 = whole value), both
// values non-NULL (checkUniqueConstraints skips rows with a NULL): it answers
// "same key" iff the prefixes are equal under the column's collation.
func VerifC14ColumnsMatchStr() {
	coll := nd.Pick("coll", c14NumColl)
	plen := nd.IntRange("prefix", 0, 3)
	a := nd.String("a", nd.IntRange("na", 0, 2))
	b := nd.String("b", nd.IntRange("nb", 0, 2))
	c14Printable(a)
	c14Printable(b)
	schema := c14Schema(1, types.Int64, c14StrType(coll))
	var prefixLengths []uint16
	if plen > 0 || nd.Bool("explicit-zero") {
		prefixLengths = []uint16{uint16(plen)}
	}
	got := columnsMatch([]int{1}, prefixLengths, sql.Row{nd.Int64("pa"), a}, sql.Row{nd.Int64("pb"), b}, schema.Schema)
	nd.Reach("c14.columnsmatch.str")
	nd.Observe(got)
	// definition: the first plen characters (all of them if plen == 0 or the value is shorter)
	pa, pb := a, b
	if plen > 0 {
		if len(pa) > plen {
			pa = pa[:plen]
		}
		if len(pb) > plen {
			pb = pb[:plen]
		}
	}
	same, sameBytes := c14StrEq(coll, pa, pb)
	// Defect class: equal under a case-insensitive collation, different bytes.
	if same && !sameBytes {
		nd.Assert("c14.columnsmatch.str.duplicate-detected.case-insensitive", got)
		return
	}
	nd.Assert("c14.columnsmatch.str.duplicate-detected", nd.Implies(same, got))
	nd.Assert("c14.columnsmatch.str.no-false-duplicate", nd.Implies(got, same))
}

// VerifC14ColumnsMatchBinary: the same for a VARBINARY column (values are
// []byte, arbitrary bytes; prefix length counts bytes).
func VerifC14ColumnsMatchBinary() {
	plen := nd.IntRange("prefix", 0, 3)
	a := nd.Bytes("a", nd.IntRange("na", 0, 2))
	b := nd.Bytes("b", nd.IntRange("nb", 0, 2))
	schema := c14Schema(1, types.Int64, types.MustCreateBinary(sqltypes.VarBinary, 16))
	var prefixLengths []uint16
	if plen > 0 {
		prefixLengths = []uint16{uint16(plen)}
	}
	got := columnsMatch([]int{1}, prefixLengths, sql.Row{nd.Int64("pa"), a}, sql.Row{nd.Int64("pb"), b}, schema.Schema)
	nd.Reach("c14.columnsmatch.binary")
	nd.Observe(got)
	na, nb := len(a), len(b)
	if plen > 0 {
		if na > plen {
			na = plen
		}
		if nb > plen {
			nb = plen
		}
	}
	same := na == nb
	if same {
		for i := 0; i < na; i++ {
			same = nd.And(same, a[i] == b[i])
		}
	}
	nd.Assert("c14.columnsmatch.binary.duplicate-detected", nd.Implies(same, got))
	nd.Assert("c14.columnsmatch.binary.no-false-duplicate", nd.Implies(got, same))
}

// VerifC14UniqueCheckStr: the whole decision for a unique index on a VARCHAR
// column of a table with one stored row: rejected iff both values are non-NULL
// and equal under the collation.
func VerifC14UniqueCheckStr() {
	coll := nd.Pick("coll", c14NumColl)
	a := nd.String("a", nd.IntRange("na", 0, 2))
	b := nd.String("b", nd.IntRange("nb", 0, 2))
	c14Printable(a)
	c14Printable(b)
	an, bn := nd.Bool("a.null"), nd.Bool("b.null")
	var ac, bc interface{} = a, b
	if an {
		ac = nil
	}
	if bn {
		bc = nil
	}
	pke := c14Pke(c14Data(c14Schema(1, types.Int64, c14StrType(coll)), sql.Row{nd.Int64("pa"), ac}))
	ed := &tableEditor{ea: pke, uniqueIdxCols: [][]int{{1}}, prefixLengths: [][]uint16{nil}, uniqueIdxNames: []string{"u"}}
	err := ed.checkUniqueConstraints(nil, sql.Row{nd.Int64("pb"), bc})
	nd.Reach("c14.unique.str")
	nd.Observe(err != nil)
	eq, beq := c14StrEq(coll, a, b)
	dup := nd.And(nd.And(!an, !bn), eq)
	if dup && !beq {
		nd.Assert("c14.unique.str.duplicate-rejected.case-insensitive", err != nil)
		return
	}
	nd.Assert("c14.unique.str.duplicate-rejected", nd.Implies(dup, err != nil))
	nd.Assert("c14.unique.str.no-false-duplicate", nd.Implies(err != nil, dup))
}

// c14Utf8 restricts s (1..2 bytes) to well-formed UTF-8: ASCII bytes, or one
// two-byte character (lead C2..DF, continuation 80..BF). It returns whether s
// is a single two-byte character.
func c14Utf8(s string) (twoByteChar bool) {
	if len(s) == 1 {
		nd.Assume(s[0] < 0x80)
		return false
	}
	b0, b1 := s[0], s[1]
	ascii := nd.And(b0 < 0x80, b1 < 0x80)
	two := nd.And(nd.And(b0 >= 0xC2, b0 <= 0xDF), nd.And(b1 >= 0x80, b1 <= 0xBF))
	nd.Assume(nd.Or(ascii, two))
	return two
}

// VerifC14ColumnsMatchPrefixUtf8: unique index s(p) on a VARCHAR column with
// collation utf8mb4_0900_bin; values are 1..2 bytes of well-formed UTF-8 (so a
// value may be ONE two-byte character). For non-binary string columns MySQL
// counts an index prefix length in characters; under a _bin collation two
// prefixes are equal iff they are the same characters, i.e. the same bytes.
func VerifC14ColumnsMatchPrefixUtf8() {
	plen := nd.IntRange("prefix", 1, 2)
	// value shapes: one ASCII byte, two ASCII bytes, or ONE two-byte character whose lead
	// byte is one of three concrete values (symbolic lead bytes drag the unicode/utf8
	// decoding tables into every query) and whose continuation byte is symbolic
	mk := func(tag string) (string, bool) {
		switch nd.Pick(tag+".shape", 3) {
		case 0:
			b := nd.Uint8(tag + ".a0")
			nd.Assume(b < 0x80)
			return string([]byte{b}), false
		case 1:
			b0, b1 := nd.Uint8(tag+".a0"), nd.Uint8(tag+".a1")
			nd.Assume(nd.And(b0 < 0x80, b1 < 0x80))
			return string([]byte{b0, b1}), false
		}
		lead := [...]byte{0xC2, 0xD0, 0xDF}[nd.Pick(tag+".lead", 3)]
		c := nd.Uint8(tag + ".cont")
		nd.Assume(nd.And(c >= 0x80, c <= 0xBF))
		return string([]byte{lead, c}), true
	}
	a, aTwo := mk("pu.a")
	b, bTwo := mk("pu.b")
	schema := c14Schema(1, types.Int64, c14StrType(c14CollBin))
	got := columnsMatch([]int{1}, []uint16{uint16(plen)}, sql.Row{nd.Int64("pu.pa"), a}, sql.Row{nd.Int64("pu.pb"), b}, schema.Schema)
	nd.Reach("c14.columnsmatch.prefix-utf8")
	nd.Observe(got)
	// the first plen characters of each value
	pa, pb := a, b
	if plen == 1 && len(a) == 2 && !aTwo {
		pa = a[:1]
	}
	if plen == 1 && len(b) == 2 && !bTwo {
		pb = b[:1]
	}
	same := len(pa) == len(pb)
	if same {
		for i := 0; i < len(pa); i++ {
			same = nd.And(same, pa[i] == pb[i])
		}
	}
	nd.Assert("c14.columnsmatch.prefix-utf8.duplicate-detected", nd.Implies(same, got))
	nd.Assert("c14.columnsmatch.prefix-utf8.no-false-duplicate", nd.Implies(got, same))
}

// Two unique indexes on one table (u1 on c1, u2 on c2; visiting order either
// way): a row is rejected iff it duplicates a stored row in SOME index whose
// columns are all non-NULL in both rows — a NULL in one index must only
// exempt that index, not the others. (Added after a seeded change that turned
// `continue` into `return nil` in checkUniqueConstraints was missed by the
// single-index harnesses; see /verif/seeded/C14-unique-null-return.)
func VerifC14UniqueCheckTwoIndexes() {
	mk := func(name string, pk int64) (sql.Row, []int64, []bool) {
		row := make(sql.Row, 3)
		v := make([]int64, 3)
		null := make([]bool, 3)
		row[0] = pk
		for i := 1; i < 3; i++ {
			row[i], v[i], null[i] = c14NullableInt(name + ".c" + strconv.Itoa(i))
		}
		return row, v, null
	}
	newRow, nv, nn := mk("two.new", nd.Int64("two.new.pk"))
	pke := c14Pke(c14Data(c14Schema(1, types.Int64, types.Int64, types.Int64)))
	nrows := nd.IntRange("two.nrows", 1, 2)
	dup := false
	for i := 0; i < nrows; i++ {
		row, v, null := mk("two.r"+strconv.Itoa(i), int64(i+1))
		if nd.Pick("two.where"+strconv.Itoa(i), 2) == 0 {
			pke.tableData.partitions["0"] = append(pke.tableData.partitions["0"], row)
		} else {
			_ = pke.Insert(nil, row)
		}
		for c := 1; c <= 2; c++ {
			dup = nd.Or(dup, nd.And(nd.And(!null[c], !nn[c]), v[c] == nv[c]))
		}
	}
	order := [][]int{{1}, {2}}
	if nd.Pick("two.order", 2) == 1 {
		order = [][]int{{2}, {1}}
	}
	ed := &tableEditor{ea: pke, uniqueIdxCols: order, prefixLengths: [][]uint16{nil, nil}, uniqueIdxNames: []string{"u1", "u2"}}
	err := ed.checkUniqueConstraints(nil, newRow)
	nd.Reach("c14.unique.two")
	nd.Observe(err != nil)
	nd.Assert("c14.unique.two.duplicate-rejected", nd.Implies(dup, err != nil))
	nd.Assert("c14.unique.two.no-false-duplicate", nd.Implies(err != nil, dup))
}

// A pending delete must not hide another live duplicate: within one statement
// the stored row r0 is deleted (e.g. an UPDATE moved its unique value away),
// r1 is live (stored, or added in this statement) and a new row arrives. The
// unique check must report a duplicate iff the new row equals a LIVE row on
// the non-NULL unique column — whatever the deleted row's value was.
func VerifC14UniqueCheckPendingDelete() {
	mkRow := func(name string, pk int64) (sql.Row, int64, bool) {
		c, v, null := c14NullableInt(name + ".u")
		return sql.Row{pk, c, int64(0)}, v, null
	}
	pke := c14Pke(c14Data(c14Schema(1, types.Int64, types.Int64, types.Int64)))
	r0, v0, n0 := mkRow("pd.r0", 1)
	r1, v1, n1 := mkRow("pd.r1", 2)
	nw, vn, nn := mkRow("pd.new", 3)
	pke.tableData.partitions["0"] = append(pke.tableData.partitions["0"], r0)
	r1Pending := nd.Bool("pd.r1.pending")
	if r1Pending {
		_ = pke.Insert(nil, r1)
	} else {
		pke.tableData.partitions["0"] = append(pke.tableData.partitions["0"], r1)
	}
	_ = pke.Delete(nil, r0)
	ed := &tableEditor{ea: pke, uniqueIdxCols: [][]int{{1}}, prefixLengths: [][]uint16{nil}, uniqueIdxNames: []string{"u"}}
	err := ed.checkUniqueConstraints(nil, nw)
	nd.Reach("c14.unique.pending-delete")
	nd.Observe(err != nil)
	dup := nd.And(nd.And(!n1, !nn), v1 == vn)
	_ = v0
	_ = n0
	// class of the defect found with this harness: the deleted row has the same unique value too
	deletedAlsoMatches := nd.And(nd.And(!n0, !nn), v0 == vn)
	if nd.And(dup, deletedAlsoMatches) {
		nd.Assert("c14.unique.pending-delete.duplicate-rejected.deleted-row-has-same-value", err != nil)
		return
	}
	nd.Assert("c14.unique.pending-delete.duplicate-rejected", nd.Implies(dup, err != nil))
	nd.Assert("c14.unique.pending-delete.no-false-duplicate", nd.Implies(err != nil, dup))
}
