//go:build verif

package memory

import (
	"sync"

	"github.com/dolthub/go-mysql-server/sql"
)

// ZzVerifProvider builds a DbProvider as NewDBProvider does, minus the
// registration of the external stored procedures (which goes through
// reflect.ValueOf, outside the executor's reach). For harness-only packages.
func ZzVerifProvider(dbs ...*Database) *DbProvider {
	m := map[string]sql.Database{}
	for _, db := range dbs {
		m[db.Name()] = db
	}
	return &DbProvider{dbs: m, mu: &sync.RWMutex{}, tableFunctions: map[string]sql.TableFunction{}}
}
