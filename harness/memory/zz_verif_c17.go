//go:build verif

package memory

import (
	"strconv"

	nd "github.com/dolthub/go-mysql-server/internal/zzverifnd"
	"github.com/dolthub/go-mysql-server/sql"
)

// C17 at the level of the in-memory backend's transaction staging:
//
//	memory.Session.StartTransaction / CommitTransaction / Rollback
//	Session.tableData / putTable, BaseDatabase.GetTableInsensitive / putTable
//	the tableEditor statement protocol (as in C15) writing into the session
//
// Two real sessions A and B (memory.Session over sql.NewBaseSession, each with
// its own sql.Context) on one database with table t (pk BIGINT PRIMARY KEY,
// v BIGINT NULL), optionally with the secondary index idx_v (fixture of C15).
// The harness plays the part of the engine: before every statement
// Engine.beginTransaction starts a transaction if none is open; START
// TRANSACTION commits an open one, starts a new one and switches autocommit
// off until COMMIT / ROLLBACK; with autocommit on TransactionCommittingIter
// commits after the statement.
//
// Histories of session A are built from {START TRANSACTION, one-row DML
// statement, COMMIT, ROLLBACK}: four fixed shapes (isolation, rollback, commit,
// autocommit) and VerifC17History with every step chosen by selector. A and B
// read the table between A's statements (B in autocommit mode: no overlapping
// statements, no writes by B). A violated assertion hides later ones on the
// same path, which is why the rollback shape has no reads before the ROLLBACK.
//
// Oracle: reference model with the committed rows and A's staged rows.
//   A reads its staged rows while its transaction is open, else the committed rows
//   B reads the committed rows, always
//   COMMIT (explicit, or the autocommit after a statement) : committed := staged
//   ROLLBACK : staged is dropped, committed unchanged
// and every index entry a session reads describes the row at its location.

type c17Sess struct {
	sess     *Session
	ctx      *sql.Context
	explicit bool      // START TRANSACTION seen: autocommit is suspended
	staged   *c13Slots // rows this session reads while its transaction is open
}

type c17World struct {
	db        *Database
	withIdx   bool
	rows      int // committed rows at the start
	committed *c13Slots
}

func c17NewSess(db *Database) *c17Sess {
	s, ctx := c15NewSession(db)
	return &c17Sess{sess: s, ctx: ctx}
}

// begin is Engine.beginTransaction.
func (w *c17World) begin(s *c17Sess) {
	if s.ctx.GetTransaction() != nil {
		return
	}
	tx, err := s.sess.StartTransaction(s.ctx, sql.ReadWrite)
	nd.Assert("c17.start-transaction.no-error", err == nil)
	s.ctx.SetTransaction(tx)
	s.staged = c15CopySlots(w.committed)
}

func (w *c17World) commit(s *c17Sess) {
	tx := s.ctx.GetTransaction()
	if tx == nil {
		return
	}
	nd.Assert("c17.commit.no-error", s.sess.CommitTransaction(s.ctx, tx) == nil)
	s.ctx.SetIgnoreAutoCommit(false)
	s.ctx.SetTransaction(nil)
	s.explicit = false
	w.committed = s.staged
	s.staged = nil
}

// autoCommit is TransactionCommittingIter.Close with autocommit = 1.
func (w *c17World) autoCommit(s *c17Sess) {
	if s.ctx.GetTransaction() == nil || s.ctx.GetIgnoreAutoCommit() {
		return
	}
	w.commit(s)
}

// read: a SELECT of session s: the table data it reads must hold exactly the
// rows want, and a consistent index.
func (w *c17World) read(s *c17Sess, prefix string, want *c13Slots) {
	w.begin(s)
	if s.staged != nil && want == nil {
		want = s.staged
	}
	view := c15View(w.db, s.ctx)
	if view != nil {
		nd.Assert(prefix+".rows", c15RowsAreModel(view, want))
		shape, current := c15IndexInv(view, w.withIdx)
		nd.Assert(prefix+".index-consistent-with-rows", nd.And(shape, current))
	}
	w.autoCommit(s)
}

// dml: one DML statement of one row edit in session s, through the editor the
// session's table hands out, driven as TableEditorIter and the DML iterators
// drive it.
func (w *c17World) dml(s *c17Sess, tag string) {
	w.begin(s)
	t, ok, err := w.db.GetTableInsensitive(s.ctx, "t")
	if !ok || err != nil {
		nd.Assert("c17.fixture.table-found", false)
		return
	}
	ed := t.(*Table).getTableEditor(s.ctx).(*tableEditor)
	saved := c15CopySlots(s.staged)
	ed.StatementBegin(s.ctx)
	if err := c15Edit(ed, s.ctx, s.staged, tag); err != nil {
		nd.Assert("c17.discard.no-error", ed.DiscardChanges(s.ctx, err) == nil)
		s.staged = saved
	} else {
		nd.Assert("c17.complete.no-error", ed.StatementComplete(s.ctx) == nil)
	}
	nd.Assert("c17.close.no-error", ed.Close(s.ctx) == nil)
	w.autoCommit(s)
}

// startTransaction is the START TRANSACTION statement: the statement itself
// runs inside an (implicit) transaction, which buildStartTransaction commits
// before it starts the new one and suspends autocommit.
func (w *c17World) startTransaction(s *c17Sess) {
	w.begin(s)
	w.commit(s)
	w.begin(s)
	s.ctx.SetIgnoreAutoCommit(true)
	s.explicit = true
}

// commitStmt is the COMMIT statement.
func (w *c17World) commitStmt(s *c17Sess) {
	w.begin(s)
	w.commit(s)
}

// rollbackStmt is the ROLLBACK statement.
func (w *c17World) rollbackStmt(s *c17Sess) {
	w.begin(s)
	nd.Assert("c17.rollback.no-error", s.sess.Rollback(s.ctx, s.ctx.GetTransaction()) == nil)
	s.ctx.SetIgnoreAutoCommit(false)
	s.ctx.SetTransaction(nil)
	s.explicit = false
	s.staged = nil
}

// c17Fixture: the database with table t holding 0..maxRows committed rows,
// with or without the index, and the sessions A and B.
func c17Fixture(maxRows int) (w *c17World, a, b *c17Sess) {
	n := nd.IntRange("n", 0, maxRows)
	w = &c17World{withIdx: nd.Bool("index"), rows: n}
	var base *Table
	w.db, base = c15SessionFixture()
	w.committed, _ = c15Fill(base, n, w.withIdx)
	return w, c17NewSess(w.db), c17NewSess(w.db)
}

// VerifC17Isolation: A: START TRANSACTION, then 1..2 DML statements (one on a
// table of 3 rows); after each of them A reads its staged rows and B reads the
// rows committed before.
func VerifC17Isolation() {
	w, a, b := c17Fixture(nd.Bound(2, 3))
	w.startTransaction(a)
	stmts := 2
	if w.rows > 2 {
		stmts = 1
	}
	for i := 0; i < stmts; i++ {
		s := strconv.Itoa(i)
		if i > 0 && nd.Pick("stop-before"+s, 2) == 1 {
			break
		}
		w.dml(a, "s"+s)
		nd.Reach("c17.isolation.step")
		w.read(b, "c17.isolation.other-session-reads-committed", w.committed)
		w.read(a, "c17.isolation.own-session-reads-staged", nil)
	}
}

// VerifC17Rollback: A: START TRANSACTION, 1..2 DML statements, ROLLBACK. Nobody
// reads in between. Afterwards B and A read the rows committed before.
func VerifC17Rollback() {
	w, a, b := c17Fixture(nd.Bound(1, 2))
	w.startTransaction(a)
	w.dml(a, "s0")
	if nd.Pick("second-statement", 2) == 1 {
		w.dml(a, "s1")
	}
	w.rollbackStmt(a)
	nd.Reach("c17.rollback.done")
	w.read(b, "c17.rollback.other-session-reads-committed", w.committed)
	w.read(a, "c17.rollback.own-session-reads-committed", w.committed)
}

// VerifC17Commit: A: START TRANSACTION, 1..2 DML statements, COMMIT. Afterwards
// B and A read A's rows.
func VerifC17Commit() {
	w, a, b := c17Fixture(nd.Bound(1, 2))
	w.startTransaction(a)
	w.dml(a, "s0")
	if nd.Pick("second-statement", 2) == 1 {
		w.dml(a, "s1")
	}
	w.commitStmt(a)
	nd.Reach("c17.commit.done")
	w.read(b, "c17.commit.other-session-reads-published", w.committed)
	w.read(a, "c17.commit.own-session-reads-published", w.committed)
}

// VerifC17Autocommit: A runs 1..2 DML statements with autocommit on: each
// successful statement is committed on its own; B reads after each.
func VerifC17Autocommit() {
	w, a, b := c17Fixture(nd.Bound(1, 2))
	for i := 0; i < 2; i++ {
		s := strconv.Itoa(i)
		if i > 0 && nd.Pick("stop-before"+s, 2) == 1 {
			break
		}
		w.dml(a, "s"+s)
		nd.Reach("c17.autocommit.step")
		nd.Assert("c17.autocommit.no-transaction-left-open", a.ctx.GetTransaction() == nil)
		w.read(b, "c17.autocommit.other-session-reads-published", w.committed)
		w.read(a, "c17.autocommit.own-session-reads-published", w.committed)
	}
}

const (
	c17StartTransaction = iota
	c17DML
	c17Commit
	c17Rollback
	c17NumSteps
)

// VerifC17History: any history of up to 2 (thorough 3) steps of session A (0..1 committed rows) from
// {START TRANSACTION, DML statement, COMMIT, ROLLBACK}; after every step A and
// B read. The assertion ids carry the phase: how A's last transaction ended
// ("autocommit", "commit", "rollback"), or "open".
func VerifC17History() {
	w, a, b := c17Fixture(1)
	phase := "initial"
	for i := 0; i < nd.Bound(2, 3); i++ {
		s := strconv.Itoa(i)
		if i > 0 && nd.Pick("stop-before"+s, 2) == 1 {
			break
		}
		switch nd.Pick("step"+s, c17NumSteps) {
		case c17StartTransaction:
			w.startTransaction(a)
			phase = "open"
		case c17DML:
			w.dml(a, "s"+s)
			if !a.explicit {
				phase = "autocommit"
			}
		case c17Commit:
			w.commitStmt(a)
			phase = "commit"
		case c17Rollback:
			w.rollbackStmt(a)
			phase = "rollback"
		}
		nd.Reach("c17.history.step")
		w.read(b, "c17.history."+phase+".other-session", w.committed)
		w.read(a, "c17.history."+phase+".own-session", nil)
	}
}
