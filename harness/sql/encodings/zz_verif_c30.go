//go:build verif

package encodings

import (
	"bytes"
	"unicode/utf8"

	nd "github.com/dolthub/go-mysql-server/internal/zzverifnd"
)

// C30: character set conversion round-trips and never crashes, for every
// RangeMap charset with its real tables (package init).
//
// Two harness shapes per charset:
//   - Rune:   ONE character of 1..4 arbitrary bytes through DecodeRune /
//             EncodeRune in both directions (exhaustive per character: all byte
//             values are symbolic);
//   - String: a string of 1 (thorough 1..2) arbitrary bytes, capacity == length
//             (what []byte(string) and the zero-copy StringToBytes produce),
//             through Encode / Decode / EncodeReplaceUnknown: crash freedom of
//             the loops around the per-character functions and the
//             string-level round trips.
// A Go run-time panic anywhere is a counterexample without any assertion.

func c30Rune(enc Encoder, tag string) {
	rm := enc.(*RangeMap)
	n := nd.IntRange(tag+".n", 1, 4)
	in := nd.Bytes(tag+".in", n)
	nd.Reach(tag + ".rune")
	// charset bytes -> UTF-8 -> charset bytes
	if d, ok := rm.DecodeRune(in); ok {
		nd.Assert(tag+".rune.decoded-is-one-utf8-char", len(d) >= 1 && len(d) <= 4)
		e, ok2 := rm.EncodeRune(d)
		nd.Assert(tag+".rune.decode-then-encode-ok", ok2)
		nd.Assert(tag+".rune.decode-then-encode-identity", bytes.Equal(e, in))
	}
	// UTF-8 -> charset bytes -> UTF-8, for well-formed UTF-8 (the tables of UTF-16 / UTF-32
	// also accept the 3-byte forms of surrogate code points, which are not valid UTF-8 and
	// are deliberately not decodable back)
	if e, ok := rm.EncodeRune(in); ok && c30WellFormedChar(in) {
		d, ok2 := rm.DecodeRune(e)
		nd.Assert(tag+".rune.encode-then-decode-ok", ok2)
		nd.Assert(tag+".rune.encode-then-decode-identity", bytes.Equal(d, in))
	}
}

// c30WellFormedChar: in is exactly one well-formed UTF-8 character (Unicode
// standard, table 3-7), written with branch-free connectives instead of the
// unicode/utf8 lookup tables (which are very expensive on symbolic bytes).
func c30WellFormedChar(in []byte) bool {
	cont := func(b byte) bool { return nd.And(b >= 0x80, b <= 0xBF) }
	b0 := in[0]
	switch len(in) {
	case 1:
		return b0 < 0x80
	case 2:
		return nd.And(nd.And(b0 >= 0xC2, b0 <= 0xDF), cont(in[1]))
	case 3:
		b1 := in[1]
		second := nd.Or(nd.And(b0 == 0xE0, nd.And(b1 >= 0xA0, b1 <= 0xBF)),
			nd.Or(nd.And(b0 == 0xED, nd.And(b1 >= 0x80, b1 <= 0x9F)),
				nd.And(nd.Or(nd.And(b0 >= 0xE1, b0 <= 0xEC), nd.And(b0 >= 0xEE, b0 <= 0xEF)), cont(b1))))
		return nd.And(second, cont(in[2]))
	case 4:
		b1 := in[1]
		second := nd.Or(nd.And(b0 == 0xF0, nd.And(b1 >= 0x90, b1 <= 0xBF)),
			nd.Or(nd.And(b0 == 0xF4, nd.And(b1 >= 0x80, b1 <= 0x8F)),
				nd.And(nd.And(b0 >= 0xF1, b0 <= 0xF3), cont(b1))))
		return nd.And(second, nd.And(cont(in[2]), cont(in[3])))
	}
	return false
}

func c30String(enc Encoder, tag string) {
	rm := enc.(*RangeMap)
	n := nd.IntRange(tag+".n", 1, nd.Bound(1, 2))
	in := nd.Bytes(tag+".in", n)
	nd.Reach(tag + ".string")
	e, okE := rm.Encode(in)
	if okE && utf8.Valid(in) {
		d, okD := rm.Decode(e)
		nd.Assert(tag+".encode-then-decode-ok", okD)
		nd.Assert(tag+".encode-then-decode-identity", bytes.Equal(d, in))
	}
	d2, okD2 := rm.Decode(in)
	if okD2 {
		e2, okE2 := rm.Encode(d2)
		nd.Assert(tag+".decode-then-encode-ok", okE2)
		nd.Assert(tag+".decode-then-encode-identity", bytes.Equal(e2, in))
	}
	// EncodeReplaceUnknown is total and agrees with Encode where that succeeds
	r := rm.EncodeReplaceUnknown(in)
	if okE {
		nd.Assert(tag+".replace-agrees-with-encode", bytes.Equal(r, e))
	}
}

// c30Char: ONE well-formed UTF-8 character of 1..4 symbolic
// bytes followed by 0..1 symbolic ASCII bytes, through the strict Encode: the
// string encodes iff each of its characters does (an unrepresentable character
// is REPORTED, never skipped), nothing is dropped, and Decode gives the string
// back. (Added after the seeded change /verif/seeded/C30-rangemap-encode-offbyone
// — the strict encoder no longer probing 4-byte prefixes — was missed by the
// 1..2-byte string harnesses.)
func c30Char(enc Encoder, tag string) {
	rm := enc.(*RangeMap)
	k := nd.IntRange(tag+".k", 1, 4)
	m := nd.IntRange(tag+".m", 0, 1)
	ch := nd.Bytes(tag+".ch", k)
	nd.Assume(c30WellFormedChar(ch))
	full := append([]byte{}, ch...)
	var tail []byte
	if m == 1 {
		t := nd.Uint8(tag + ".tail")
		nd.Assume(t < 0x80)
		tail = []byte{t}
		full = append(full, t)
	}
	nd.Reach(tag + ".char")
	e, ok := rm.Encode(full)
	ec, okc := rm.EncodeRune(ch)
	want := okc
	var et []byte
	if m == 1 {
		var okt bool
		et, okt = rm.EncodeRune(tail)
		want = nd.And(want, okt)
	}
	nd.Assert(tag+".char.encodes-iff-every-character-does", ok == want)
	if ok {
		nd.Assert(tag+".char.encoding-is-concatenation", bytes.Equal(e, append(append([]byte{}, ec...), et...)))
		d, okD := rm.Decode(e)
		nd.Assert(tag+".char.decode-gives-the-string-back", nd.And(okD, bytes.Equal(d, full)))
	}
}

func VerifC30CharLatin1()   { c30Char(Latin1, "c30.latin1") }
func VerifC30CharAscii()    { c30Char(Ascii, "c30.ascii") }
func VerifC30CharCp1256()   { c30Char(Cp1256, "c30.cp1256") }
func VerifC30CharCp1257()   { c30Char(Cp1257, "c30.cp1257") }
func VerifC30CharDec8()     { c30Char(Dec8, "c30.dec8") }
func VerifC30CharGeostd8()  { c30Char(Geostd8, "c30.geostd8") }
func VerifC30CharLatin7()   { c30Char(Latin7, "c30.latin7") }
func VerifC30CharArmscii8() { c30Char(Armscii8, "c30.armscii8") }
func VerifC30CharSwe7()     { c30Char(Swe7, "c30.swe7") }
func VerifC30CharUtf16()    { c30Char(Utf16, "c30.utf16") }
func VerifC30CharUtf32()    { c30Char(Utf32, "c30.utf32") }
func VerifC30CharUtf8mb3()  { c30Char(Utf8mb3, "c30.utf8mb3") }

func VerifC30RuneLatin1()   { c30Rune(Latin1, "c30.latin1") }
func VerifC30RuneAscii()    { c30Rune(Ascii, "c30.ascii") }
func VerifC30RuneCp1256()   { c30Rune(Cp1256, "c30.cp1256") }
func VerifC30RuneCp1257()   { c30Rune(Cp1257, "c30.cp1257") }
func VerifC30RuneDec8()     { c30Rune(Dec8, "c30.dec8") }
func VerifC30RuneGeostd8()  { c30Rune(Geostd8, "c30.geostd8") }
func VerifC30RuneLatin7()   { c30Rune(Latin7, "c30.latin7") }
func VerifC30RuneArmscii8() { c30Rune(Armscii8, "c30.armscii8") }
func VerifC30RuneSwe7()     { c30Rune(Swe7, "c30.swe7") }
func VerifC30RuneUtf16()    { c30Rune(Utf16, "c30.utf16") }
func VerifC30RuneUtf32()    { c30Rune(Utf32, "c30.utf32") }
func VerifC30RuneUtf8mb3()  { c30Rune(Utf8mb3, "c30.utf8mb3") }

func VerifC30StringLatin1()   { c30String(Latin1, "c30.latin1") }
func VerifC30StringAscii()    { c30String(Ascii, "c30.ascii") }
func VerifC30StringCp1256()   { c30String(Cp1256, "c30.cp1256") }
func VerifC30StringCp1257()   { c30String(Cp1257, "c30.cp1257") }
func VerifC30StringDec8()     { c30String(Dec8, "c30.dec8") }
func VerifC30StringGeostd8()  { c30String(Geostd8, "c30.geostd8") }
func VerifC30StringLatin7()   { c30String(Latin7, "c30.latin7") }
func VerifC30StringArmscii8() { c30String(Armscii8, "c30.armscii8") }
func VerifC30StringSwe7()     { c30String(Swe7, "c30.swe7") }
func VerifC30StringUtf16()    { c30String(Utf16, "c30.utf16") }
func VerifC30StringUtf32()    { c30String(Utf32, "c30.utf32") }
func VerifC30StringUtf8mb3()  { c30String(Utf8mb3, "c30.utf8mb3") }
