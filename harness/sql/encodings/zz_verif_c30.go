//go:build verif

package encodings

import (
	"bytes"
	"unicode/utf8"

	nd "github.com/dolthub/go-mysql-server/internal/zzverifnd"
)

// C30: character set conversion round-trips and never crashes, for every
// RangeMap charset with its real tables.
//
// Input: 1..3 (thorough 1..5) arbitrary bytes, slice capacity == length (what
// []byte(string) and the zero-copy StringToBytes produce).

func c30RoundTrip(enc Encoder, tag string) {
	rm := enc.(*RangeMap)
	n := nd.IntRange("n", 1, nd.Bound(3, 5))
	in := nd.Bytes("in", n)
	nd.Reach(tag + ".start")

	// no crash on any bytes; encode→decode round trip (UTF-8 → charset → UTF-8) for valid UTF-8
	e, okE := rm.Encode(in)
	if okE && utf8.Valid(in) {
		d, okD := rm.Decode(e)
		nd.Assert(tag+".encode-then-decode-ok", okD)
		nd.Assert(tag+".encode-then-decode-identity", bytes.Equal(d, in))
	}
	// decode→encode round trip (charset → UTF-8 → charset)
	d2, okD2 := rm.Decode(in)
	if okD2 {
		e2, okE2 := rm.Encode(d2)
		nd.Assert(tag+".decode-then-encode-ok", okE2)
		nd.Assert(tag+".decode-then-encode-identity", bytes.Equal(e2, in))
	}
	// EncodeReplaceUnknown is total and agrees with Encode where that succeeds
	r := rm.EncodeReplaceUnknown(in)
	if okE {
		nd.Assert(tag+".replace-agrees-with-encode", bytes.Equal(r, e))
	}
	nd.Reach(tag + ".end")
}

func VerifC30Latin1()   { c30RoundTrip(Latin1, "c30.latin1") }
func VerifC30Ascii()    { c30RoundTrip(Ascii, "c30.ascii") }
func VerifC30Cp1256()   { c30RoundTrip(Cp1256, "c30.cp1256") }
func VerifC30Cp1257()   { c30RoundTrip(Cp1257, "c30.cp1257") }
func VerifC30Dec8()     { c30RoundTrip(Dec8, "c30.dec8") }
func VerifC30Geostd8()  { c30RoundTrip(Geostd8, "c30.geostd8") }
func VerifC30Latin7()   { c30RoundTrip(Latin7, "c30.latin7") }
func VerifC30Armscii8() { c30RoundTrip(Armscii8, "c30.armscii8") }
func VerifC30Swe7()     { c30RoundTrip(Swe7, "c30.swe7") }
func VerifC30Utf16()    { c30RoundTrip(Utf16, "c30.utf16") }
func VerifC30Utf32()    { c30RoundTrip(Utf32, "c30.utf32") }
func VerifC30Utf8mb3()  { c30RoundTrip(Utf8mb3, "c30.utf8mb3") }
