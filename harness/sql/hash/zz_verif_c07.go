//go:build verif

package hash

import (
	"github.com/dolthub/vitess/go/sqltypes"

	nd "github.com/dolthub/go-mysql-server/internal/zzverifnd"
	"github.com/dolthub/go-mysql-server/sql"
	"github.com/dolthub/go-mysql-server/sql/types"
)

// C07: grouping / de-duplication keys (hash.HashOf, hash.HashOfSimple) identify
// exactly the rows whose columns are equal under the column type's Compare
// (NULL grouped with NULL).
//
// xxhash is an uninterpreted function of the bytes written to the digest and
// the property config assumes it injective ("hash_injective"): two keys are
// equal iff the PRE-IMAGES (the bytes HashOf writes) are equal. What the
// harnesses decide is therefore whether the pre-image encoding is injective
// modulo the column equality, in both directions:
//
//	equal rows      => equal key   (no group is split)
//	different rows  => different key (no two groups are merged)

// ---- integer cells -----------------------------------------------------------

const (
	c07Null = iota
	c07Int64
	c07Uint64
	c07Int8
	c07Uint8
	c07Int32
	c07Uint16
	c07Int16
	c07Uint32
	c07Int
	c07Uint
	c07NumKinds
)

// c07IntCell returns NULL or an integer of the Go kind chosen by a concrete
// selector among the first n kinds, with a symbolic payload bounded in
// magnitude by lim (the decimal rendering forks on the digit count); nonNeg
// restricts it to values >= 0.
func c07IntCell(name string, n int, lim int32, nonNeg bool) interface{} {
	k := nd.Pick(name+".kind", n)
	if k == c07Null {
		return nil
	}
	switch k {
	case c07Int8:
		v := nd.Int8(name)
		nd.Assume(nd.Or(!nonNeg, v >= 0))
		return v
	case c07Uint8:
		return nd.Uint8(name)
	}
	s := nd.Int32(name)
	nd.Assume(nd.And(s > -lim, s < lim))
	nd.Assume(nd.Or(!nonNeg, s >= 0))
	switch k {
	case c07Int64:
		return int64(s)
	case c07Int32:
		return s
	case c07Int16:
		nd.Assume(nd.And(s >= -32768, s <= 32767))
		return int16(s)
	case c07Int:
		return int(s)
	}
	nd.Assume(s >= 0)
	switch k {
	case c07Uint64:
		return uint64(s)
	case c07Uint32:
		return uint32(s)
	case c07Uint16:
		nd.Assume(s <= 65535)
		return uint16(s)
	}
	return uint(s)
}

var c07IntTypes = [...]sql.Type{types.Int64, types.Uint64, types.Int8, types.Uint8, types.Int16, types.Uint16, types.Int32, types.Uint32}

// ---- string cells ------------------------------------------------------------

const (
	c07CollBinary = iota // VARBINARY (collation binary), cells are []byte
	c07Coll0900Bin
	c07CollGeneralCI
	c07NumColl
)

func c07StrType(coll int) sql.StringType {
	switch coll {
	case c07CollBinary:
		return types.MustCreateBinary(sqltypes.VarBinary, 16)
	case c07Coll0900Bin:
		return types.MustCreateString(sqltypes.VarChar, 16, sql.Collation_utf8mb4_0900_bin)
	}
	return types.MustCreateString(sqltypes.VarChar, 16, sql.Collation_utf8mb4_general_ci)
}

// c07StrCell returns (cell, raw): NULL (only if withNull) or a string of
// 0..maxLen symbolic ASCII bytes (shape by concrete selector); raw is the
// string itself ("" for NULL). Cells of the binary type are []byte, the Go
// type such a column holds.
func c07StrCell(name string, coll int, maxLen int, withNull bool) (cell interface{}, raw string, null bool) {
	lo := 0
	if withNull {
		lo = -1
	}
	n := nd.IntRange(name+".len", lo, maxLen)
	if n < 0 {
		return nil, "", true
	}
	s := nd.String(name, n)
	for i := 0; i < n; i++ {
		nd.Assume(s[i] < 0x80)
	}
	if coll == c07CollBinary {
		return []byte(s), s, false
	}
	return s, s, false
}

// c07Alphabet: concrete strings (1..2 characters) for the second operand under
// utf8mb4_general_ci. Its weight table is a Go map of ~1900 entries: a lookup
// with a symbolic key is an if-then-else chain over all entries, and the
// solver does not decide queries with two such chains. So under general_ci the
// first row is symbolic ASCII and the second row is drawn from this alphabet
// (case variants, NUL, accented variants that general_ci equates with 'A').
var c07Alphabet = [...]string{"", "\x00", "a", "A", "b", "a\x00", "\x00b", "aB", "Ab", "\u00e1", "\u00c1", "a\u00e1"}

// c07StrCellB is the cell of the SECOND row: like c07StrCell, except that under
// utf8mb4_general_ci it is one of the first nAlpha alphabet strings (or NULL).
func c07StrCellB(name string, coll int, maxLen int, withNull bool, nAlpha int) (cell interface{}, raw string, null bool) {
	if coll != c07CollGeneralCI {
		return c07StrCell(name, coll, maxLen, withNull)
	}
	lo := 0
	if withNull {
		lo = -1
	}
	k := nd.IntRange(name+".alpha", lo, nAlpha-1)
	if k < 0 {
		return nil, "", true
	}
	return c07Alphabet[k], c07Alphabet[k], false
}

func c07HasNUL(s string) bool {
	r := false
	for i := 0; i < len(s); i++ {
		r = nd.Or(r, s[i] == 0)
	}
	return r
}

// ---- one integer column -------------------------------------------------------

// VerifC07HashOfIntColumn: rows of one integer column. The two cells may have
// different Go kinds (what expressions of different integer types produce).
func VerifC07HashOfIntColumn() {
	nt := nd.Bound(2, len(c07IntTypes))
	nk := nd.Bound(7, c07NumKinds)
	lim := int32(nd.Bound(1000, 100000))
	typ := c07IntTypes[nd.Pick("type", nt)]
	a := c07IntCell("a", nk, lim, false)
	b := c07IntCell("b", nk, lim, false)
	sch := sql.Schema{&sql.Column{Name: "c", Type: typ, Nullable: true}}
	h1, e1 := HashOf(nil, sch, sql.Row{a})
	h2, e2 := HashOf(nil, sch, sql.Row{b})
	cmp, e3 := typ.Compare(nil, a, b)
	nd.Reach("c07.hashof.int")
	nd.Assert("c07.hashof.int.no-error", nd.And(e1 == nil, nd.And(e2 == nil, e3 == nil)))
	nd.Assert("c07.hashof.int.equal-values-same-key", nd.Implies(cmp == 0, h1 == h2))
	nd.Assert("c07.hashof.int.same-key-equal-values", nd.Implies(h1 == h2, cmp == 0))
}

// VerifC07HashOfSimpleInt: HashOfSimple (IN lists, hash joins) of integers under
// an integer comparison type t: the key is the decimal rendering of
// t.Promote().Convert(v). Under an unsigned comparison type the operands are
// assumed non-negative: a negative operand converts to 2^64-|v| flagged
// Underflow, which the callers (expression.newInMap / HashInTuple.Eval) handle
// before using the key (C06), and whose 20-digit rendering the solver does not
// decide.
func VerifC07HashOfSimpleInt() {
	nt := nd.Bound(2, len(c07IntTypes))
	nk := nd.Bound(6, c07NumKinds)
	lim := int32(nd.Bound(1000, 100000))
	ti := nd.Pick("type", nt)
	typ := c07IntTypes[ti]
	unsigned := ti%2 == 1
	a := c07IntCell("a", nk, lim, unsigned)
	b := c07IntCell("b", nk, lim, unsigned)
	nd.Assume(a != nil)
	nd.Assume(b != nil)
	h1, r1, e1 := HashOfSimple(nil, a, typ)
	h2, r2, e2 := HashOfSimple(nil, b, typ)
	cmp, e3 := typ.Compare(nil, a, b)
	nd.Reach("c07.hashofsimple.int")
	nd.Assert("c07.hashofsimple.int.no-error", nd.And(e1 == nil, nd.And(e2 == nil, e3 == nil)))
	nd.Assert("c07.hashofsimple.int.in-range", nd.And(r1 == sql.InRange, r2 == sql.InRange))
	nd.Assert("c07.hashofsimple.int.equal-values-same-key", nd.Implies(cmp == 0, h1 == h2))
	nd.Assert("c07.hashofsimple.int.same-key-equal-values", nd.Implies(h1 == h2, cmp == 0))
}

// ---- one string column --------------------------------------------------------

// VerifC07HashOfStringColumn: rows of one string column with a schema (the
// GROUP BY path): key from the collation's weight string.
func VerifC07HashOfStringColumn() {
	coll := nd.Pick("coll", c07NumColl)
	typ := c07StrType(coll)
	maxLen := nd.Bound(2, 3)
	a, _, _ := c07StrCell("a", coll, maxLen, true)
	b, _, _ := c07StrCellB("b", coll, maxLen, true, len(c07Alphabet))
	sch := sql.Schema{&sql.Column{Name: "c", Type: typ, Nullable: true}}
	h1, e1 := HashOf(nil, sch, sql.Row{a})
	h2, e2 := HashOf(nil, sch, sql.Row{b})
	cmp, e3 := typ.Compare(nil, a, b)
	nd.Reach("c07.hashof.str")
	nd.Assert("c07.hashof.str.no-error", nd.And(e1 == nil, nd.And(e2 == nil, e3 == nil)))
	nd.Assert("c07.hashof.str.equal-values-same-key", nd.Implies(cmp == 0, h1 == h2))
	nd.Assert("c07.hashof.str.same-key-equal-values", nd.Implies(h1 == h2, cmp == 0))
}

// VerifC07HashOfSimpleString: HashOfSimple of strings under a string comparison
// type. Text types hash the weight string. The binary type is not "text only":
// the key is fmt.Sprintf("%v") of the converted []byte ("[97 0]"), which the
// executor only renders for concrete bytes, so for the binary type both
// operands are drawn from the concrete alphabet.
func VerifC07HashOfSimpleString() {
	coll := nd.Pick("coll", c07NumColl)
	typ := c07StrType(coll)
	maxLen := nd.Bound(2, 3)
	var a, b interface{}
	if coll == c07CollBinary {
		a = []byte(c07Alphabet[nd.Pick("a.alpha", len(c07Alphabet))])
		b = []byte(c07Alphabet[nd.Pick("b.alpha", len(c07Alphabet))])
	} else {
		a, _, _ = c07StrCell("a", coll, maxLen, false)
		b, _, _ = c07StrCellB("b", coll, maxLen, false, len(c07Alphabet))
	}
	h1, _, e1 := HashOfSimple(nil, a, typ)
	h2, _, e2 := HashOfSimple(nil, b, typ)
	cmp, e3 := typ.Compare(nil, a, b)
	nd.Reach("c07.hashofsimple.str")
	nd.Assert("c07.hashofsimple.str.no-error", nd.And(e1 == nil, nd.And(e2 == nil, e3 == nil)))
	nd.Assert("c07.hashofsimple.str.equal-values-same-key", nd.Implies(cmp == 0, h1 == h2))
	nd.Assert("c07.hashofsimple.str.same-key-equal-values", nd.Implies(h1 == h2, cmp == 0))
}

// VerifC07HashOfNoSchema: the schema-less path (sch shorter than the row), which
// is what DISTINCT, INTERSECT/EXCEPT, hash joins and UPDATE de-duplication use
// (hash.HashOf(ctx, nil, row)): a string is hashed as its raw bytes whatever
// the collation of the column it came from. The oracle is still the column
// type's Compare. For a case-insensitive collation "equal values => same key"
// asserts under its own id.
func VerifC07HashOfNoSchema() {
	coll := nd.Pick("coll", c07NumColl)
	typ := c07StrType(coll)
	maxLen := nd.Bound(2, 3)
	a, _, _ := c07StrCell("a", coll, maxLen, true)
	b, _, _ := c07StrCellB("b", coll, maxLen, true, len(c07Alphabet))
	h1, e1 := HashOf(nil, nil, sql.Row{a})
	h2, e2 := HashOf(nil, nil, sql.Row{b})
	cmp, e3 := typ.Compare(nil, a, b)
	nd.Reach("c07.hashof.noschema")
	nd.Assert("c07.hashof.noschema.no-error", nd.And(e1 == nil, nd.And(e2 == nil, e3 == nil)))
	if coll == c07CollGeneralCI {
		nd.Assert("c07.hashof.noschema.equal-values-same-key.case-insensitive", nd.Implies(cmp == 0, h1 == h2))
	} else {
		nd.Assert("c07.hashof.noschema.equal-values-same-key", nd.Implies(cmp == 0, h1 == h2))
	}
	nd.Assert("c07.hashof.noschema.same-key-equal-values", nd.Implies(h1 == h2, cmp == 0))
}

// ---- two columns ------------------------------------------------------------

// VerifC07HashOfTwoStringColumns: rows of two string columns of one collation.
// HashOf joins the per-column pre-images with a single 0x00 byte and does not
// length-prefix them. Rows in which some string cell contains a NUL character
// (the class of the known pre-image collision) assert "same key => equal rows"
// under their own id. For ASCII strings this class is complete: weights of the
// utf8mb4 collations are written as 4 bytes little-endian, so two rows with
// different column splits can only coincide where a weight is 0, and the only
// ASCII character of weight 0 is NUL; for the binary collation the raw bytes
// are written, and a shifted split needs a 0x00 byte in a cell.
func VerifC07HashOfTwoStringColumns() {
	coll := nd.Pick("coll", c07NumColl)
	typ := c07StrType(coll)
	maxLen := 2
	withNull := nd.Tier() == 1 // quick tier: NULL cells of multi-column rows are in VerifC07HashOfIntAndStringColumns
	nAlpha := nd.Bound(4, 9)
	a0, ra0, _ := c07StrCell("a0", coll, maxLen, withNull)
	a1, ra1, _ := c07StrCell("a1", coll, maxLen, withNull)
	b0, rb0, _ := c07StrCellB("b0", coll, maxLen, withNull, nAlpha)
	b1, rb1, _ := c07StrCellB("b1", coll, maxLen, withNull, nAlpha)
	sch := sql.Schema{
		&sql.Column{Name: "c0", Type: typ, Nullable: true},
		&sql.Column{Name: "c1", Type: typ, Nullable: true},
	}
	h1, e1 := HashOf(nil, sch, sql.Row{a0, a1})
	h2, e2 := HashOf(nil, sch, sql.Row{b0, b1})
	c0, e3 := typ.Compare(nil, a0, b0)
	c1, e4 := typ.Compare(nil, a1, b1)
	nd.Reach("c07.hashof.2str")
	nd.Assert("c07.hashof.2str.no-error", nd.And(nd.And(e1 == nil, e2 == nil), nd.And(e3 == nil, e4 == nil)))
	same := nd.And(c0 == 0, c1 == 0)
	nul := nd.Or(nd.Or(c07HasNUL(ra0), c07HasNUL(ra1)), nd.Or(c07HasNUL(rb0), c07HasNUL(rb1)))
	nd.Assert("c07.hashof.2str.equal-rows-same-key", nd.Implies(same, h1 == h2))
	nd.Assert("c07.hashof.2str.same-key-equal-rows", nd.Implies(nd.And(!nul, h1 == h2), same))
	nd.Assert("c07.hashof.2str.same-key-equal-rows.nul-in-string", nd.Implies(nd.And(nul, h1 == h2), same))
}

// VerifC07HashOfIntAndStringColumns: rows (BIGINT, string) or (string, BIGINT),
// cells NULL or value: the decimal rendering of an integer never contains the
// separator, "<nil>" is no rendering of a value in the explored space.
func VerifC07HashOfIntAndStringColumns() {
	coll := nd.Pick("coll", c07NumColl)
	styp := c07StrType(coll)
	ityp := types.Int64
	intFirst := nd.Pick("order", 2) == 0
	lim := int32(nd.Bound(100, 10000))
	ai := c07IntCell("ai", 2, lim, false)
	bi := c07IntCell("bi", 2, lim, false)
	as, ras, _ := c07StrCell("as", coll, nd.Bound(1, 2), true)
	bs, rbs, _ := c07StrCellB("bs", coll, nd.Bound(1, 2), true, nd.Bound(4, 9))
	var sch sql.Schema
	var r1, r2 sql.Row
	if intFirst {
		sch = sql.Schema{&sql.Column{Name: "c0", Type: ityp, Nullable: true}, &sql.Column{Name: "c1", Type: styp, Nullable: true}}
		r1, r2 = sql.Row{ai, as}, sql.Row{bi, bs}
	} else {
		sch = sql.Schema{&sql.Column{Name: "c0", Type: styp, Nullable: true}, &sql.Column{Name: "c1", Type: ityp, Nullable: true}}
		r1, r2 = sql.Row{as, ai}, sql.Row{bs, bi}
	}
	h1, e1 := HashOf(nil, sch, r1)
	h2, e2 := HashOf(nil, sch, r2)
	ci, e3 := ityp.Compare(nil, ai, bi)
	cs, e4 := styp.Compare(nil, as, bs)
	nd.Reach("c07.hashof.int-str")
	nd.Assert("c07.hashof.int-str.no-error", nd.And(nd.And(e1 == nil, e2 == nil), nd.And(e3 == nil, e4 == nil)))
	same := nd.And(ci == 0, cs == 0)
	nul := nd.Or(c07HasNUL(ras), c07HasNUL(rbs))
	nd.Assert("c07.hashof.int-str.equal-rows-same-key", nd.Implies(same, h1 == h2))
	nd.Assert("c07.hashof.int-str.same-key-equal-rows", nd.Implies(nd.And(!nul, h1 == h2), same))
	nd.Assert("c07.hashof.int-str.same-key-equal-rows.nul-in-string", nd.Implies(nd.And(nul, h1 == h2), same))
}

// VerifC07HashOfTwoIntColumns: rows of two integer columns of one type; first
// cell NULL / int64 / uint64, second cell int64: (1,23) and (12,3) must differ.
func VerifC07HashOfTwoIntColumns() {
	typ := c07IntTypes[nd.Pick("type", 2)]
	lim := int32(nd.Bound(100, 10000))
	a0 := c07IntCell("a0", 3, lim, false)
	b0 := c07IntCell("b0", 3, lim, false)
	a1 := c07IntCell("a1", 2, lim, false)
	b1 := c07IntCell("b1", 2, lim, false)
	nd.Assume(a1 != nil)
	nd.Assume(b1 != nil)
	sch := sql.Schema{&sql.Column{Name: "c0", Type: typ, Nullable: true}, &sql.Column{Name: "c1", Type: typ, Nullable: true}}
	h1, e1 := HashOf(nil, sch, sql.Row{a0, a1})
	h2, e2 := HashOf(nil, sch, sql.Row{b0, b1})
	c0, e3 := typ.Compare(nil, a0, b0)
	c1, e4 := typ.Compare(nil, a1, b1)
	nd.Reach("c07.hashof.2int")
	nd.Assert("c07.hashof.2int.no-error", nd.And(nd.And(e1 == nil, e2 == nil), nd.And(e3 == nil, e4 == nil)))
	same := nd.And(c0 == 0, c1 == 0)
	nd.Assert("c07.hashof.2int.equal-rows-same-key", nd.Implies(same, h1 == h2))
	nd.Assert("c07.hashof.2int.same-key-equal-rows", nd.Implies(h1 == h2, same))
}

// VerifC07HashOfWitnesses: concrete pairs of DIFFERENT rows outside the symbolic
// input space of the harnesses above, each asserting "different rows =>
// different key" under the id of its defect class.
//
//	0: no NUL character involved: under utf8mb4_0900_bin U+0100 has the weight
//	   bytes 00 01 00 00 and U+0001 the bytes 01 00 00 00, so the rows
//	   ('\u0100','') and ('','\x01') both render as 00 01 00 00 00.
//	1: the witness of the design document, ('a\x00','b') vs ('a','\x00b'),
//	   VARBINARY columns.
//	2: a NULL cell is rendered as the text <nil>: under the binary collation
//	   (and on the schema-less path) NULL and the string '<nil>' get the same key.
//	3: same on the schema-less path with a text value.
func VerifC07HashOfWitnesses() {
	w := nd.Pick("witness", 4)
	var sch sql.Schema
	var r1, r2 sql.Row
	var differ bool
	bin := c07StrType(c07CollBinary)
	u8 := c07StrType(c07Coll0900Bin)
	switch w {
	case 0:
		sch = sql.Schema{&sql.Column{Name: "c0", Type: u8}, &sql.Column{Name: "c1", Type: u8}}
		r1, r2 = sql.Row{"\u0100", ""}, sql.Row{"", "\x01"}
		c0, _ := u8.Compare(nil, r1[0], r2[0])
		c1, _ := u8.Compare(nil, r1[1], r2[1])
		differ = c0 != 0 || c1 != 0
	case 1:
		sch = sql.Schema{&sql.Column{Name: "c0", Type: bin}, &sql.Column{Name: "c1", Type: bin}}
		r1, r2 = sql.Row{[]byte("a\x00"), []byte("b")}, sql.Row{[]byte("a"), []byte("\x00b")}
		c0, _ := bin.Compare(nil, r1[0], r2[0])
		c1, _ := bin.Compare(nil, r1[1], r2[1])
		differ = c0 != 0 || c1 != 0
	case 2:
		sch = sql.Schema{&sql.Column{Name: "c0", Type: bin, Nullable: true}}
		r1, r2 = sql.Row{nil}, sql.Row{[]byte("<nil>")}
		c0, _ := bin.Compare(nil, r1[0], r2[0])
		differ = c0 != 0
	default:
		sch = nil
		r1, r2 = sql.Row{nil}, sql.Row{"<nil>"}
		c0, _ := u8.Compare(nil, r1[0], r2[0])
		differ = c0 != 0
	}
	h1, e1 := HashOf(nil, sch, r1)
	h2, e2 := HashOf(nil, sch, r2)
	nd.Reach("c07.hashof.witness")
	nd.Assert("c07.hashof.witness.no-error", e1 == nil && e2 == nil)
	nd.Assert("c07.hashof.witness.rows-differ", differ)
	switch w {
	case 0:
		nd.Assert("c07.hashof.witness.different-rows-different-key.weight-bytes-vs-separator", h1 != h2)
	case 1:
		nd.Assert("c07.hashof.witness.different-rows-different-key.nul-in-string", h1 != h2)
	default:
		nd.Assert("c07.hashof.witness.different-rows-different-key.null-rendered-as-text", h1 != h2)
	}
}
