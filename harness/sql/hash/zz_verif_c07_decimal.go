//go:build verif

package hash

import (
	nd "github.com/dolthub/go-mysql-server/internal/zzverifnd"
	"github.com/dolthub/go-mysql-server/sql"
	"github.com/dolthub/go-mysql-server/sql/types"
)

// C07, DECIMAL keys: HashOfSimple with a DECIMAL comparison type gives two
// values the same key exactly when they are numerically equal (10.00 = 10,
// 1.50 = 1.5, 10 != 1, 0.10 != 0.01, -0 = 0).
//
// Values are decimal numerals assembled from concrete pieces (sign, integer
// part, fraction) by selectors and converted by the real DECIMAL type
// (apd.Decimal over math/big, which the executor interprets with the portable
// kernels); the reference compares the numerals after stripping the sign of
// zero, and trailing zeros of the fraction. Concrete enumeration: symbolic
// digits through math/big's radix conversion do not decide.
// (Added after the seeded change /verif/seeded/C07-decimal-trimright — trimming
// "0." in one call, which also eats the integer part's trailing zeros — was
// missed while math/big was outside the executor's reach.)

var c07DecInts = [...]string{"0", "1", "10", "100", "105", "20"}
var c07DecFracs = [...]string{"", ".0", ".00", ".5", ".50", ".05", ".10", ".01"}

func c07DecNumeral(tag string) (text string, canon string) {
	neg := nd.Pick(tag+".neg", 2) == 1
	ip := c07DecInts[nd.Pick(tag+".int", nd.Bound(4, len(c07DecInts)))]
	fp := c07DecFracs[nd.Pick(tag+".frac", nd.Bound(6, len(c07DecFracs)))]
	text = ip + fp
	// canonical form: fraction without trailing zeros, no '.' if empty
	f := fp
	for len(f) > 0 && (f[len(f)-1] == '0') {
		f = f[:len(f)-1]
	}
	if f == "." {
		f = ""
	}
	canon = ip + f
	if neg && canon != "0" {
		canon = "-" + canon
	}
	if neg {
		text = "-" + text
	}
	return
}

func VerifC07HashOfSimpleDecimal() {
	typ := types.MustCreateDecimalType(10, 2)
	ta, ca := c07DecNumeral("c07dec.a")
	tb, cb := c07DecNumeral("c07dec.b")
	h1, r1, e1 := HashOfSimple(nil, ta, typ)
	h2, r2, e2 := HashOfSimple(nil, tb, typ)
	nd.Reach("c07.hashofsimple.decimal")
	nd.Observe(ta, tb, h1 == h2)
	nd.Assert("c07.hashofsimple.decimal.no-error", e1 == nil && e2 == nil)
	nd.Assert("c07.hashofsimple.decimal.in-range", r1 == sql.InRange && r2 == sql.InRange)
	nd.Assert("c07.hashofsimple.decimal.equal-values-same-key", ca != cb || h1 == h2)
	nd.Assert("c07.hashofsimple.decimal.same-key-equal-values", h1 != h2 || ca == cb)
	// and the type's own comparison agrees with the reference
	cmp, e3 := typ.Compare(nil, ta, tb)
	nd.Assert("c07.hashofsimple.decimal.compare-agrees", e3 == nil && (cmp == 0) == (ca == cb))
}
