//go:build verif

package sqlredact

import (
	"sync"

	nd "github.com/dolthub/go-mysql-server/internal/zzverifnd"
)

// C45 (token mapping part): within one Mapping equal lexemes map to equal
// tokens and different lexemes to different tokens, per namespace; tokens are
// n<k>/v<k> with k bounded by the number of distinct lexemes; the empty
// identifier passes through; and all of that under every interleaving of
// concurrent redactions sharing the mapping.

func c45Lexeme(tag string) string {
	return nd.String(tag, nd.IntRange(tag+".len", 0, 2))
}

// Sequential: three lexemes, namespace per call by selector.
func VerifC45Sequential() {
	m := NewMapping()
	var lex [3]string
	var ns [3]int
	var tok [3]string
	for i := range lex {
		s := string(rune('0' + i))
		lex[i] = c45Lexeme("l" + s)
		ns[i] = nd.Pick("ns"+s, 2)
		if ns[i] == 0 {
			tok[i] = m.RedactIdent(lex[i])
		} else {
			tok[i] = m.RedactValue(lex[i])
		}
	}
	nd.Reach("c45.seq")
	for i := range lex {
		if ns[i] == 0 && lex[i] == "" {
			nd.Assert("c45.seq.empty-ident-passes", tok[i] == "")
			continue
		}
		// token shape: prefix + decimal counter in 1..3
		want := byte('n')
		if ns[i] == 1 {
			want = 'v'
		}
		nd.Assert("c45.seq.token-shape", len(tok[i]) == 2 && tok[i][0] == want && tok[i][1] >= '1' && tok[i][1] <= '3')
		for j := 0; j < i; j++ {
			if ns[j] != ns[i] || (ns[j] == 0 && lex[j] == "") {
				continue
			}
			nd.Assert("c45.seq.equal-iff-equal", (lex[i] == lex[j]) == (tok[i] == tok[j]))
		}
	}
	// the mapping accessors report exactly what was handed out
	ids, vals := m.Idents(), m.Values()
	for i := range lex {
		if ns[i] == 0 && lex[i] != "" {
			nd.Assert("c45.seq.idents-recorded", ids[lex[i]] == tok[i])
		}
		if ns[i] == 1 {
			nd.Assert("c45.seq.values-recorded", vals[lex[i]] == tok[i])
		}
	}
}

// Concurrent: two goroutines redact one lexeme each in the same namespace
// while sharing the mapping; every interleaving at lock granularity. The
// window between RUnlock and Lock in RedactIdent/RedactValue is what matters.
func VerifC45Concurrent() {
	m := NewMapping()
	ns := nd.Pick("ns", 2)
	a, b := c45Lexeme("a"), c45Lexeme("b")
	if ns == 0 {
		nd.Assume(a != "")
		nd.Assume(b != "")
	}
	var ta, tb string
	var wg sync.WaitGroup
	wg.Add(2)
	go func() {
		defer wg.Done()
		if ns == 0 {
			ta = m.RedactIdent(a)
		} else {
			ta = m.RedactValue(a)
		}
	}()
	go func() {
		defer wg.Done()
		if ns == 0 {
			tb = m.RedactIdent(b)
		} else {
			tb = m.RedactValue(b)
		}
	}()
	wg.Wait()
	nd.Reach("c45.conc")
	nd.Assert("c45.conc.equal-iff-equal", (a == b) == (ta == tb))
	// a third, later call sees a consistent mapping
	var tc string
	if ns == 0 {
		tc = m.RedactIdent(a)
	} else {
		tc = m.RedactValue(a)
	}
	nd.Assert("c45.conc.stable", tc == ta)
	n := 1
	if a != b {
		n = 2
	}
	if ns == 0 {
		nd.Assert("c45.conc.count", len(m.Idents()) == n)
	} else {
		nd.Assert("c45.conc.count", len(m.Values()) == n)
	}
}
