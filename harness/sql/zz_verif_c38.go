//go:build verif

package sql

import (
	"sync"

	nd "github.com/dolthub/go-mysql-server/internal/zzverifnd"
)

// C38: named locks give mutual exclusion and are linearizable.
//
// Sessions are test doubles that implement exactly what LockSubsystem uses
// (ID, AddLock, DelLock, IterLocks); everything else of the Session interface
// is the embedded nil interface.

type c38Session struct {
	Session
	id    uint32
	locks map[string]bool
}

func (s *c38Session) ID() uint32 { return s.id }
func (s *c38Session) AddLock(name string) error {
	s.locks[name] = true
	return nil
}
func (s *c38Session) DelLock(name string) error {
	delete(s.locks, name)
	return nil
}
func (s *c38Session) IterLocks(cb func(name string) error) error {
	for _, n := range [...]string{"x", "y"} { // fixed order: map iteration order is not part of the claim
		if s.locks[n] {
			if err := cb(n); err != nil {
				return err
			}
		}
	}
	return nil
}

func c38Ctx(id uint32) *Context {
	return &Context{Session: &c38Session{id: id, locks: map[string]bool{}}}
}

// reference model of one named lock
type c38Model struct {
	owner uint32
	count int64
}

func (m *c38Model) tryLock(s uint32) bool {
	switch {
	case m.owner == 0:
		m.owner, m.count = s, 1
		return true
	case m.owner == s:
		m.count++
		return true
	}
	return false
}

// unlock reports whether the call succeeds (the holder releases one level).
func (m *c38Model) unlock(s uint32) bool {
	if m.owner != s {
		return false
	}
	m.count--
	if m.count == 0 {
		m.owner = 0
	}
	return true
}

func c38Names(i int) string { return [...]string{"x", "y"}[i] }

// c38Apply runs operation op of session ctx on name against the real
// subsystem and returns an outcome code (1 = success / acquired, 0 = not).
//
//	0 TryLock   1 Lock with timeout 0 (one attempt)   2 Unlock
func c38Apply(ls *LockSubsystem, ctx *Context, op int, name string) int {
	switch op {
	case 0:
		ok, err := ls.TryLock(ctx, name)
		if err == nil && ok {
			return 1
		}
		return 0
	case 1:
		if ls.Lock(ctx, name, 0) == nil {
			return 1
		}
		return 0
	default:
		if ls.Unlock(ctx, name) == nil {
			return 1
		}
		return 0
	}
}

func c38ApplyModel(m *c38Model, op int, s uint32) int {
	ok := false
	if op == 2 {
		ok = m.unlock(s)
	} else {
		ok = m.tryLock(s)
	}
	if ok {
		return 1
	}
	return 0
}

// c38Observe: what GetLockState reports must be the model's owner.
func c38StateMatches(ls *LockSubsystem, name string, m *c38Model, created bool) bool {
	st, owner := ls.GetLockState(name)
	switch {
	case !created:
		return st == LockDoesNotExist && owner == 0
	case m.owner == 0:
		return st == LockFree && owner == 0
	}
	return st == LockInUse && owner == m.owner
}

// Sequential histories: two sessions with arbitrary distinct non-zero ids, up
// to 4 operations on two names; after every step the outcome and the state of
// both names equal the reference model's.
func VerifC38Sequential() {
	ids := [2]uint32{nd.Uint32("id0"), nd.Uint32("id1")}
	nd.Assume(nd.And(ids[0] != 0, nd.And(ids[1] != 0, ids[0] != ids[1]))) // id 0 is the subsystem's "free" marker; real session ids start at 1
	ctxs := [2]*Context{c38Ctx(ids[0]), c38Ctx(ids[1])}
	ls := NewLockSubsystem()
	var model [2]c38Model
	var created [2]bool
	steps := nd.IntRange("steps", 1, 4)
	for k := 0; k < steps; k++ {
		tag := string(rune('0' + k))
		who := nd.Pick("who"+tag, 2)
		op := nd.Pick("op"+tag, 4)
		n := nd.Pick("name"+tag, 2)
		if op == 3 {
			// RELEASE_ALL_LOCKS by session `who`
			cnt, err := ls.ReleaseAll(ctxs[who])
			want := 0
			for j := range model {
				if model[j].owner == ids[who] {
					model[j] = c38Model{}
					want++
				}
			}
			nd.Assert("c38.seq.releaseall.count", nd.And(err == nil, cnt == want))
		} else {
			got := c38Apply(ls, ctxs[who], op, c38Names(n))
			if op != 2 || created[n] {
				want := c38ApplyModel(&model[n], op, ids[who])
				nd.Assert("c38.seq.outcome", got == want)
			} else {
				nd.Assert("c38.seq.unlock-missing-lock-fails", got == 0)
			}
			if op != 2 {
				created[n] = true
			}
		}
		for j := range model {
			nd.Assert("c38.seq.state", c38StateMatches(ls, c38Names(j), &model[j], created[j]))
		}
	}
	nd.Reach("c38.seq")
}

// Two sessions act concurrently on ONE name, one operation each, from an
// initial state in which the lock is free, or held once or twice by session A.
// Under every interleaving (scheduling points: the RWMutex around the name
// table and every atomic load / compare-and-swap) the two outcomes and the
// final state equal those of one of the two sequential orders.
func VerifC38Concurrent() {
	// concrete ids: the schedule space is what is explored here (symbolic ids are
	// covered by the sequential harness); 2^32-1 exercises the uint32/int64 casts
	idA, idB := uint32(1), uint32(4294967295)
	ca, cb := c38Ctx(idA), c38Ctx(idB)
	ls := NewLockSubsystem()
	var init c38Model
	held := nd.Pick("held", 3)
	for i := 0; i < held; i++ {
		ok, err := ls.TryLock(ca, "x")
		nd.Assume(ok && err == nil)
		init.tryLock(idA)
	}
	if held == 0 && nd.Bool("precreate") {
		// the name exists but is free
		ok, _ := ls.TryLock(cb, "x")
		nd.Assume(ok)
		nd.Assume(ls.Unlock(cb, "x") == nil)
	}
	opA, opB := nd.Pick("opA", 3), nd.Pick("opB", 3)
	var ra, rb int
	var wg sync.WaitGroup
	wg.Add(2)
	go func() {
		defer wg.Done()
		ra = c38Apply(ls, ca, opA, "x")
	}()
	go func() {
		defer wg.Done()
		rb = c38Apply(ls, cb, opB, "x")
	}()
	wg.Wait()
	nd.Reach("c38.conc")
	st, owner := ls.GetLockState("x")

	// sequential order A then B
	m1 := init
	a1 := c38ApplyModel(&m1, opA, idA)
	b1 := c38ApplyModel(&m1, opB, idB)
	// sequential order B then A
	m2 := init
	b2 := c38ApplyModel(&m2, opB, idB)
	a2 := c38ApplyModel(&m2, opA, idA)
	final := func(m c38Model) bool {
		if m.owner == 0 {
			return st != LockInUse && owner == 0
		}
		return st == LockInUse && owner == m.owner
	}
	ab := ra == a1 && rb == b1 && final(m1)
	ba := ra == a2 && rb == b2 && final(m2)
	nd.Assert("c38.conc.linearizable", ab || ba)
	// mutual exclusion stated directly: both cannot have acquired a free lock
	if held == 0 && opA != 2 && opB != 2 {
		nd.Assert("c38.conc.mutual-exclusion", ra+rb == 1)
	}
}

// The holder needs as many releases as acquisitions; a non-holder's release
// fails without effect; RELEASE_ALL frees everything the session holds.
func VerifC38Reentrant() {
	idA, idB := nd.Uint32("idA"), nd.Uint32("idB")
	nd.Assume(nd.And(idA != 0, nd.And(idB != 0, idA != idB)))
	ca, cb := c38Ctx(idA), c38Ctx(idB)
	ls := NewLockSubsystem()
	n := nd.IntRange("n", 1, 3)
	for i := 0; i < n; i++ {
		ok, err := ls.TryLock(ca, "x")
		nd.Assert("c38.reentrant.acquire", ok && err == nil)
	}
	nd.Assert("c38.reentrant.other-cannot-lock", c38Apply(ls, cb, 0, "x") == 0)
	nd.Assert("c38.reentrant.other-cannot-unlock", c38Apply(ls, cb, 2, "x") == 0)
	for i := 0; i < n; i++ {
		st, owner := ls.GetLockState("x")
		nd.Assert("c38.reentrant.still-held", st == LockInUse && owner == idA)
		nd.Assert("c38.reentrant.release", ls.Unlock(ca, "x") == nil)
	}
	st, owner := ls.GetLockState("x")
	nd.Assert("c38.reentrant.free-after-n-releases", st == LockFree && owner == 0)
	nd.Assert("c38.reentrant.extra-release-fails", ls.Unlock(ca, "x") != nil)
	// and now the other session can take it
	nd.Assert("c38.reentrant.other-acquires-after-release", c38Apply(ls, cb, 0, "x") == 1)
	nd.Reach("c38.reentrant")
}
