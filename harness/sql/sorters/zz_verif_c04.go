//go:build verif

package sorters

import (
	nd "github.com/dolthub/go-mysql-server/internal/zzverifnd"
	"github.com/dolthub/go-mysql-server/sql"
	"github.com/dolthub/go-mysql-server/sql/expression"
	"github.com/dolthub/go-mysql-server/sql/types"
)

// C04: ORDER BY output is ordered; LIMIT takes the right slice.
//
// Rows have two BIGINT sort keys (columns 0 and 1), each NULL or a full-range
// symbolic int64, and a concrete tag (column 2, not a sort key) that holds the
// position of the row in the input, so that the oracle can tell which input row
// an output row is.
//
// Definition of the order (the oracle, c04RowCmp): compare the keys left to
// right; within one key NULL is the lowest value and values compare
// numerically; DESC reverses the order of that key (so NULLs come first for
// ASC and last for DESC, as the property states). This is what the planner
// asks for: it never sets SortCondition.NullOrdering, whose zero value is
// sql.NullsFirst. With the other flag value, sql.NullsLast, NULL is the highest
// value of the key instead (again reversed by DESC); that reading is asserted
// under assertion ids of its own (".nulls-last-flag").

const c04Keys = 2

type c04Row struct {
	v    [c04Keys]int64
	null [c04Keys]bool
	row  sql.Row
}

type c04Order struct {
	desc      [c04Keys]bool
	nullsLast [c04Keys]bool
	conds     sql.SortConditions
	anyNL     bool // some key uses the NullsLast flag
}

func c04Name(p string, i int) string { return p + string(rune('0'+i)) }

func c04NewRow(name string, tag int) *c04Row {
	r := &c04Row{row: make(sql.Row, c04Keys+1)}
	for k := 0; k < c04Keys; k++ {
		r.v[k] = nd.Int64(c04Name(name+".k", k))
		r.null[k] = nd.Bool(c04Name(name+".null", k))
		var cell interface{} = r.v[k]
		if r.null[k] {
			cell = nil
		}
		r.row[k] = cell
	}
	r.row[c04Keys] = int64(tag)
	return r
}

// c04NewOrder picks, per key, ASC/DESC and the NULL ordering flag. key1Combos
// limits the flag combinations of the SECOND key (4 = all, 2 = ASC/DESC).
func c04NewOrder(key1Combos int) *c04Order { return c04NewOrder2(4, key1Combos) }

func c04NewOrder2(key0Combos, key1Combos int) *c04Order {
	o := &c04Order{}
	for k := 0; k < c04Keys; k++ {
		combos := key0Combos
		if k > 0 {
			combos = key1Combos
		}
		// 0 ASC  1 DESC  2 ASC+NullsLast  3 DESC+NullsLast
		f := nd.Pick(c04Name("order", k), combos)
		o.desc[k] = f == 1 || f == 3
		o.nullsLast[k] = f >= 2
		sc := sql.SortCondition{
			Expr:         expression.NewGetField(k, types.Int64, c04Name("k", k), true),
			Order:        sql.Ascending,
			NullOrdering: sql.NullsFirst,
		}
		if o.desc[k] {
			sc.Order = sql.Descending
		}
		if o.nullsLast[k] {
			sc.NullOrdering = sql.NullsLast
			o.anyNL = true
		}
		o.conds = append(o.conds, sc)
	}
	return o
}

func (o *c04Order) id(base string) string {
	if o.anyNL {
		return base + ".nulls-last-flag"
	}
	return base
}

// c04KeyCmp: the definition for one key. The null flags are concrete on every
// path (the cell is either nil or an int64), the values symbolic.
func c04KeyCmp(an bool, av int64, bn bool, bv int64, desc, nullsLast bool) int {
	r := 0
	switch {
	case an && bn:
		r = 0
	case an:
		r = -1 // NULL is the lowest value ...
		if nullsLast {
			r = 1 // ... or the highest, with the NullsLast flag
		}
	case bn:
		r = 1
		if nullsLast {
			r = -1
		}
	default:
		if av < bv {
			r = -1
		}
		if av > bv {
			r = 1
		}
	}
	if desc {
		r = -r
	}
	return r
}

// c04RowCmp: keys left to right, the first key that differs decides.
func c04RowCmp(o *c04Order, a, b *c04Row) int {
	r0 := c04KeyCmp(a.null[0], a.v[0], b.null[0], b.v[0], o.desc[0], o.nullsLast[0])
	r1 := c04KeyCmp(a.null[1], a.v[1], b.null[1], b.v[1], o.desc[1], o.nullsLast[1])
	r := r0
	if r0 == 0 {
		r = r1
	}
	return r
}

// (i) CompareRows / IsLesserRow / Less equal the definition on every pair of
// rows, for every flag combination; reflexive and antisymmetric.
func VerifC04CompareRowsPair() {
	o := c04NewOrder(4)
	a, b := c04NewRow("a", 0), c04NewRow("b", 1)
	s := NewRowSorterWithRows(nil, o.conds, []sql.Row{a.row, b.row})
	ab := s.CompareRows(a.row, b.row)
	ba := s.CompareRows(b.row, a.row)
	aa := s.CompareRows(a.row, a.row)
	lesser := s.IsLesserRow(a.row, b.row)
	less01, less10 := s.Less(0, 1), s.Less(1, 0)
	nd.Reach("c04.compare.pair")
	nd.Observe(ab, ba, aa, lesser)
	want := c04RowCmp(o, a, b)
	nd.Assert("c04.compare.no-error", s.GetError() == nil)
	nd.Assert(o.id("c04.compare.equals-definition"), ab == want)
	nd.Assert(o.id("c04.compare.antisymmetric"), ab == -ba)
	nd.Assert(o.id("c04.compare.reflexive"), aa == 0)
	nd.Assert(o.id("c04.compare.islesser-iff-before"), lesser == (want < 0))
	nd.Assert(o.id("c04.compare.less-iff-before"), nd.And(less01 == (want < 0), less10 == (want > 0)))
}

// (i) transitivity over three rows: <= is transitive, a strict step makes the
// composition strict, and "equal keys" is an equivalence.
func VerifC04CompareRowsTransitive() {
	o := c04NewOrder(nd.Bound(2, 4))
	a, b, c := c04NewRow("a", 0), c04NewRow("b", 1), c04NewRow("c", 2)
	s := NewRowSorter(nil, o.conds)
	ab := s.CompareRows(a.row, b.row)
	bc := s.CompareRows(b.row, c.row)
	ac := s.CompareRows(a.row, c.row)
	nd.Reach("c04.compare.triple")
	nd.Observe(ab, bc, ac)
	nd.Assert("c04.compare.no-error", s.GetError() == nil)
	le := nd.And(ab <= 0, bc <= 0)
	nd.Assert(o.id("c04.compare.transitive"), nd.And(nd.Implies(le, ac <= 0),
		nd.And(nd.Implies(nd.And(le, nd.Or(ab < 0, bc < 0)), ac < 0),
			nd.Implies(nd.And(ab == 0, bc == 0), ac == 0))))
}

// c04Before: a comes before b in the STABLE sort of the input: smaller by the
// definition, or equal keys and earlier in the input.
func c04Before(o *c04Order, a *c04Row, ai int, b *c04Row, bi int) bool {
	c := c04RowCmp(o, a, b)
	return nd.Or(c < 0, nd.And(c == 0, ai < bi))
}

// c04CheckTopN: got is exactly the first min(k,n) rows of the stable sort of in.
// Stated without sorting: got has min(k,n) rows, each an input row (by tag) used
// at most once, consecutive rows are in stable-sort order, and every input row
// that was left out comes after the last returned row in the stable sort.
func c04CheckTopN(id string, o *c04Order, in []*c04Row, k int, got []sql.Row) {
	n := len(in)
	wantLen := k
	if n < k {
		wantLen = n
	}
	nd.Assert(id+".row-count", len(got) == wantLen)
	used := make([]bool, n)
	tags := make([]int, 0, len(got))
	for _, r := range got {
		t := -1
		if len(r) == c04Keys+1 {
			if tv, ok := r[c04Keys].(int64); ok && tv >= 0 && int(tv) < n {
				t = int(tv)
			}
		}
		// an input row, not returned twice, with its cells unchanged
		isInput := t >= 0 && !used[t]
		nd.Assert(id+".sub-multiset-of-input", isInput)
		if !isInput {
			return
		}
		same := true
		for c := 0; c < c04Keys; c++ {
			same = nd.And(same, r[c] == in[t].row[c])
		}
		nd.Assert(id+".rows-unchanged", same)
		used[t] = true
		tags = append(tags, t)
	}
	// one assertion per pair of rows: small solver queries
	for j := 0; j+1 < len(tags); j++ {
		nd.Assert(o.id(id+".sorted-ties-in-input-order"), c04Before(o, in[tags[j]], tags[j], in[tags[j+1]], tags[j+1]))
	}
	if len(tags) > 0 {
		last := tags[len(tags)-1]
		for t := 0; t < n; t++ {
			if !used[t] {
				nd.Assert(o.id(id+".no-omitted-row-before-last-returned"), c04Before(o, in[last], last, in[t], t))
			}
		}
	}
}

func c04Input(n int) (in []*c04Row, rows []sql.Row) {
	for i := 0; i < n; i++ {
		r := c04NewRow(c04Name("r", i), i)
		in = append(in, r)
		rows = append(rows, r.row)
	}
	return in, rows
}

// (ii) GetTopNRows (maxRowsHeap on container/heap): LIMIT k over n rows.
func VerifC04GetTopNRows() {
	n := nd.IntRange("n", 0, 3)
	k := nd.IntRange("k", 0, n+1)
	c04TopN(n, k, c04NewOrder(nd.Bound(2, 4)))
}

// Thorough tier only: 4 rows, with the flag combinations the planner produces
// (ASC/DESC per key, NULL ordering flag at its default).
func VerifC04GetTopNRows4() {
	k := nd.IntRange("k", 1, 4) // k = 0 and k > n are covered for n <= 3
	c04TopN(4, k, c04NewOrder2(2, 2))
}

func c04TopN(n, k int, o *c04Order) {
	in, rows := c04Input(n)
	got, count, err := GetTopNRows(nil, sql.RowsToRowIter(rows...), o.conds, int64(k))
	nd.Reach("c04.topn")
	nd.Observe(len(got), count)
	nd.Assert("c04.topn.no-error", err == nil)
	if err != nil {
		return
	}
	nd.Assert("c04.topn.rows-seen", count == int64(n))
	c04CheckTopN("c04.topn", o, in, k, got)
}
