//go:build verif

package fulltext

import (
	nd "github.com/dolthub/go-mysql-server/internal/zzverifnd"
	"github.com/dolthub/go-mysql-server/sql"
)

// C51 at tokeniser level: fulltext.NewDefaultParser / Next / NextUnique /
// DocumentCount / UniqueWordCount / Reset against a definition of "word".
//
// Reference tokenisation of an ASCII document d (what the state machine of
// default_parser.go is meant to compute, written as a definition):
//
//	wordChar(b)  = b is an ASCII letter, digit or '_'
//	inWord(p)    = wordChar(d[p]) or (d[p] == '\'' and wordChar(d[p-1]) and wordChar(d[p+1]))
//	                (an apostrophe belongs to a word only strictly inside it)
//	run(s, e)    = every p in [s,e) is inWord, s-1 and e are not (or are outside d)
//	words        = the runs of length >= 3, left to right, with start offset s
//
// c51MinWord is the parser's minimum word length (the literal 3 in NewDefaultParser).
const c51MinWord = 3

func c51WordChar(b byte) bool {
	lower := nd.And(b >= 'a', b <= 'z')
	upper := nd.And(b >= 'A', b <= 'Z')
	digit := nd.And(b >= '0', b <= '9')
	return nd.Or(nd.Or(lower, upper), nd.Or(digit, b == '_'))
}

// c51InWord: the inWord predicate for every position of d.
func c51InWord(d []byte) []bool {
	n := len(d)
	wc := make([]bool, n)
	for i := range d {
		wc[i] = c51WordChar(d[i])
	}
	in := make([]bool, n)
	for i := range d {
		inner := false
		if i > 0 && i+1 < n {
			inner = nd.And(d[i] == '\'', nd.And(wc[i-1], wc[i+1]))
		}
		in[i] = nd.Or(wc[i], inner)
	}
	return in
}

// c51Run: [s,e) is a maximal run of inWord positions.
func c51Run(in []bool, s, e int) bool {
	r := true
	for p := s; p < e; p++ {
		r = nd.And(r, in[p])
	}
	if s > 0 {
		r = nd.And(r, !in[s-1])
	}
	if e < len(in) {
		r = nd.And(r, !in[e])
	}
	return r
}

// c51SameBytes: w == d[s:s+len(w)] (no fork).
func c51SameBytes(w string, d []byte, s int) bool {
	eq := true
	for k := 0; k < len(w); k++ {
		eq = nd.And(eq, w[k] == d[s+k])
	}
	return eq
}

func c51Collation(tag string) sql.CollationID {
	if nd.Pick(tag, 2) == 0 {
		return sql.Collation_utf8mb4_general_ci
	}
	return sql.Collation_binary
}

// c51Doc: n symbolic ASCII bytes.
func c51Doc(tag string, n int) []byte {
	d := nd.Bytes(tag, n)
	for i := range d {
		nd.Assume(d[i] < 0x80)
	}
	return d
}

// c51Expect checks the parser's whole output for the document d against the
// reference tokenisation. ci: words are compared case-insensitively (ASCII case
// folding = utf8mb4_general_ci restricted to ASCII), else byte-wise (binary).
// maxWords bounds the number of words a document of this length can hold.
//
// Position has two input classes with their own assertion ids: the word is in
// the first word-character run of the document / some run (possibly a short,
// dropped one) precedes it.
func c51Expect(id string, p *DefaultParser, d []byte, ci bool, maxWords int) {
	n := len(d)
	in := c51InWord(d)
	type ref struct {
		ok      bool // this (s, e) is a qualifying run
		s, e    int
		earlier bool
	}
	var runs []ref // every candidate (s,e), left to right; at most one per s is ok
	for s := 0; s+c51MinWord <= n; s++ {
		earlier := false
		for j := 0; j < s; j++ {
			earlier = nd.Or(earlier, c51WordChar(d[j]))
		}
		for e := s + c51MinWord; e <= n; e++ {
			runs = append(runs, ref{ok: c51Run(in, s, e), s: s, e: e, earlier: earlier})
		}
	}
	want := 0
	for _, r := range runs {
		if r.ok {
			want++
		}
	}

	var words []string
	var poss []uint64
	for k := 0; k <= maxWords; k++ {
		w, pos, end, err := p.Next(nil)
		nd.Assert(id+".next.no-error", err == nil)
		if end {
			break
		}
		words = append(words, w)
		poss = append(poss, pos)
	}
	nd.Observe(len(words))
	nd.Assert(id+".no-qualifying-run-missed", len(words) >= want)
	nd.Assert(id+".no-word-invented", len(words) <= want)
	if len(words) != want {
		return
	}
	// k-th emitted word = k-th qualifying run, left to right
	k := 0
	for _, r := range runs {
		if !r.ok {
			continue
		}
		w := words[k]
		nd.Observe(w, poss[k])
		nd.Assert(id+".word.is-maximal-run-text", len(w) == r.e-r.s && c51SameBytes(w, d, r.s))
		k++
	}

	// unique words, in order of first occurrence, and per-word counts
	same := func(a, b string) bool {
		if len(a) != len(b) {
			return false
		}
		eq := true
		for i := 0; i < len(a); i++ {
			x, y := a[i], b[i]
			if ci {
				x, y = c51Fold(x), c51Fold(y)
			}
			eq = nd.And(eq, x == y)
		}
		return eq
	}
	var uniq []string
	total := uint64(0)
	for i, w := range words {
		seen := false
		for j := 0; j < i; j++ {
			if same(words[j], w) {
				seen = true
			}
		}
		cnt := uint64(0)
		for _, v := range words {
			if same(v, w) {
				cnt++
			}
		}
		c, err := p.DocumentCount(nil, w)
		nd.Assert(id+".document-count", err == nil && c == cnt)
		if !seen {
			uniq = append(uniq, w)
			total += c
		}
	}
	nd.Assert(id+".unique-word-count", p.UniqueWordCount(nil) == uint64(len(uniq)))
	nd.Assert(id+".counts-add-up", total == uint64(len(words)))
	for _, u := range uniq {
		g, end, err := p.NextUnique(nil)
		nd.Assert(id+".next-unique", err == nil && !end && g == u)
	}
	_, uend, _ := p.NextUnique(nil)
	nd.Assert(id+".next-unique.end", uend)
	// a word that is not in the document counts 0 ("q" is below the minimum
	// length, so it is never a word of the document)
	c0, err0 := p.DocumentCount(nil, "q")
	nd.Assert(id+".document-count.absent-word", err0 == nil && c0 == 0)
	// Reset rewinds both cursors
	p.Reset()
	w2, pos2, end2, _ := p.Next(nil)
	if len(words) > 0 {
		nd.Assert(id+".reset", !end2 && w2 == words[0] && pos2 == poss[0])
	} else {
		nd.Assert(id+".reset", end2)
	}

	// reported position = start offset of the run. These come last: a failing
	// assertion ends the path, so nothing else is masked by a position finding.
	// The first-run class is checked for all words before the later-run class.
	for pass := 0; pass < 2; pass++ {
		k = 0
		for _, r := range runs {
			if !r.ok {
				continue
			}
			if pass == 0 && !r.earlier {
				nd.Assert(id+".position.first-run", poss[k] == uint64(r.s))
			}
			if pass == 1 && r.earlier {
				nd.Assert(id+".position.after-earlier-run", poss[k] == uint64(r.s))
			}
			k++
		}
	}
}

// c51Fold: ASCII upper-casing.
func c51Fold(b byte) byte {
	if nd.And(b >= 'a', b <= 'z') {
		return b - 32
	}
	return b
}

// VerifC51AsciiDocument: one document of 0..3 (thorough 4) ARBITRARY ASCII
// bytes: decides the classification of every ASCII byte (word character /
// apostrophe / separator) in every context of that length.
func VerifC51AsciiDocument() {
	n := nd.IntRange("n", 0, nd.Bound(3, 4))
	d := c51Doc("d", n)
	ci := nd.Pick("coll", 2) == 0
	coll := sql.Collation_binary
	if ci {
		coll = sql.Collation_utf8mb4_general_ci
	}
	p, err := NewDefaultParser(nil, coll, string(d))
	nd.Reach("c51.ascii.parsed")
	nd.Assert("c51.ascii.no-error", err == nil)
	if err != nil {
		return
	}
	c51Expect("c51.ascii", &p, d, ci, 1)
}

// c51Alphabet: representatives of the three input classes of the state
// machine: word characters (two letters differing in case-folding, a third
// letter, a digit, '_'), the apostrophe, separators.
var c51Alphabet = [...]byte{'a', 'A', '\'', ' ', 'b', '7', '_', '-'}

// VerifC51AlphabetDocument: every document of 0..7 characters over
// {a, A, ', space} (thorough: 0..8 over the same alphabet): two words fit,
// so repeated words, case folding, positions after earlier runs and the
// counts are exercised. Inputs are concrete selectors (no solver involved):
// an exhaustive comparison with the reference tokeniser.
func VerifC51AlphabetDocument() {
	n := nd.IntRange("n", 0, nd.Bound(7, 8))
	d := make([]byte, n)
	for i := range d {
		d[i] = c51Alphabet[nd.Pick("d"+string(rune('0'+i)), 4)]
	}
	ci := nd.Pick("coll", 2) == 0
	coll := sql.Collation_binary
	if ci {
		coll = sql.Collation_utf8mb4_general_ci
	}
	p, err := NewDefaultParser(nil, coll, string(d))
	nd.Reach("c51.alphabet.parsed")
	nd.Assert("c51.alphabet.no-error", err == nil)
	if err != nil {
		return
	}
	c51Expect("c51.alphabet", &p, d, ci, 2)
}

// VerifC51WideAlphabetDocument: every document of 0..5 characters over
// {a, A, ', space, b, 7, _, -} (digits, underscore and a second separator).
func VerifC51WideAlphabetDocument() {
	n := nd.IntRange("n", 0, nd.Bound(4, 5))
	d := make([]byte, n)
	for i := range d {
		d[i] = c51Alphabet[nd.Pick("d"+string(rune('0'+i)), len(c51Alphabet))]
	}
	p, err := NewDefaultParser(nil, sql.Collation_utf8mb4_general_ci, string(d))
	nd.Reach("c51.wide.parsed")
	nd.Assert("c51.wide.no-error", err == nil)
	if err != nil {
		return
	}
	c51Expect("c51.wide", &p, d, true, 1)
}

// VerifC51ColumnValues: the document is the column values joined by one
// space; string and []byte values are text, NULL values are skipped. Three
// values (string, NULL or string, []byte) of 3 characters over {a, A, b}.
func VerifC51ColumnValues() {
	val := func(tag string) []byte {
		v := make([]byte, 3)
		for i := range v {
			v[i] = [...]byte{'a', 'A', 'b'}[nd.Pick(tag+string(rune('0'+i)), 3)]
		}
		return v
	}
	v0, v2 := val("x"), val("z")
	ci := nd.Pick("coll", 2) == 0
	coll := sql.Collation_binary
	if ci {
		coll = sql.Collation_utf8mb4_general_ci
	}
	var mid interface{}
	d := append([]byte{}, v0...)
	maxWords := 2
	if nd.Pick("midnull", 2) == 1 {
		mid = nil
	} else {
		mid = "bab"
		d = append(d, " bab"...)
		maxWords = 3
	}
	d = append(append(d, ' '), v2...)
	p, err := NewDefaultParser(nil, coll, string(v0), mid, v2)
	nd.Reach("c51.columns.parsed")
	nd.Assert("c51.columns.no-error", err == nil)
	if err != nil {
		return
	}
	nd.Assert("c51.columns.document", p.document == string(d))
	c51Expect("c51.columns", &p, d, ci, maxWords)
}
