//go:build verif

package fulltext

// Reference tokeniser of zz_verif_c51.go, exported for the harness-only
// package zzverif/c51 (index maintenance harnesses): the oracle there and the
// tokeniser harnesses here share one definition of "word".

// ZzC51Word: a word of a document with the byte offset of its first character.
type ZzC51Word struct {
	Text string
	Pos  int
}

// ZzC51RefWords: the words of an ASCII document by the reference
// tokenisation: the maximal runs of in-word positions of length >= 3, left to
// right.
func ZzC51RefWords(s string) []ZzC51Word {
	d := []byte(s)
	in := c51InWord(d)
	var out []ZzC51Word
	for st := 0; st+c51MinWord <= len(d); st++ {
		for e := st + c51MinWord; e <= len(d); e++ {
			if c51Run(in, st, e) {
				out = append(out, ZzC51Word{Text: s[st:e], Pos: st})
			}
		}
	}
	return out
}

// ZzC51Fold: ASCII upper-casing (utf8mb4_general_ci restricted to ASCII).
func ZzC51Fold(b byte) byte { return c51Fold(b) }
