//go:build verif

package rowexec

import (
	"errors"
	"io"
	"math"

	nd "github.com/dolthub/go-mysql-server/internal/zzverifnd"
	"github.com/dolthub/go-mysql-server/sql"
	"github.com/dolthub/go-mysql-server/sql/expression"
	"github.com/dolthub/go-mysql-server/sql/plan"
	"github.com/dolthub/go-mysql-server/sql/types"
)

// C19 for generated columns: "generated columns always equal their expression
// over the row's current values", together with CHECK and NOT NULL, for the
// three statements that write a row of
//
//	t (id BIGINT NOT NULL PRIMARY KEY,
//	   a  BIGINT [NOT NULL],
//	   g  BIGINT GENERATED ALWAYS AS (a + 1) STORED)
//
// INSERT ... ON DUPLICATE KEY UPDATE   real insertIter.Next incl. handleOnDuplicateKeyUpdate / applyUpdates
// INSERT                               real insertIter.Next
// UPDATE                               real updateSourceIter.Next (applyUpdateExpressionsWithIgnore) + updateIter.Next
//
// each under the real plan.TableEditorIter (statement begin / complete / discard),
// wired the way BaseBuilder.buildInsertInto / buildUpdate / buildUpdateSource do.
//
// Who computes g:
//   - INSERT: NOT the insert iterator. The analyzer (wrapRowSource) puts a Project
//     above the values whose projection for the omitted column g is the column's
//     Generated *sql.ColumnDefaultValue with its GetFields re-indexed to the table
//     schema. The harness builds that projection and runs the real ProjectIter /
//     ProjectRow as the row source, so insertIter receives rows with g computed.
//   - ON DUPLICATE KEY UPDATE and UPDATE: the planbuilder (addDependentUpdateExprs)
//     appends one DERIVED update expression SET g = <Generated> after the user's
//     EXPLICIT ones (plan.NewUpdateExprs(exprs, numExplicit)); the iterators apply
//     the derived ones after the explicit ones when the explicit ones changed the row.
//
// The table is a double: Insert reports sql.NewUniqueKeyErr(.., true, <the stored
// row>) for a key that is already stored (as memory.tableEditor.Insert does) and
// appends otherwise, Update replaces the row with the old row's key, StatementBegin
// snapshots, DiscardChanges restores. It accepts every value (no NOT NULL or type
// checks of its own), so what is asserted is the gate of the iterators.
//
// Reference: a table model of (id, a, g) triples and one step function per
// statement kind, written from the definitions: g is NULL for a NULL and a + 1
// otherwise (out of range, an error, for the largest BIGINT); a CHECK rejects
// only when FALSE (3-valued); a statement that hits an error is rejected as a
// whole.

// ---- values and rows of the reference ---------------------------------------------

type c19gVal struct {
	null bool
	v    int64
}

func (x c19gVal) cell() interface{} {
	if x.null {
		return nil
	}
	return x.v
}

func c19gEq(x, y c19gVal) bool {
	return nd.And(x.null == y.null, nd.Or(x.null, x.v == y.v))
}

type c19gRow struct {
	id   int64
	a, g c19gVal
}

func (r c19gRow) row() sql.Row { return sql.Row{r.id, r.a.cell(), r.g.cell()} }

func c19gSameRow(x, y c19gRow) bool {
	return nd.And(x.id == y.id, nd.And(c19gEq(x.a, y.a), c19gEq(x.g, y.g)))
}

// c19gGen: the generated column's expression a + 1, by definition.
func c19gGen(a c19gVal) (g c19gVal, outOfRange bool) {
	if a.null {
		return c19gVal{null: true}, false
	}
	if a.v == math.MaxInt64 {
		return c19gVal{}, true
	}
	return c19gVal{v: a.v + 1}, false
}

// c19gConsistent: g equals its expression over the row's a.
func c19gConsistent(r c19gRow) bool {
	if r.a.null {
		return r.g.null
	}
	return nd.And(!r.g.null, nd.And(r.a.v != math.MaxInt64, r.g.v == r.a.v+1))
}

// c19gOf reads a stored row back.
func c19gOf(row sql.Row) (c19gRow, bool) {
	var r c19gRow
	if len(row) != 3 {
		return r, false
	}
	id, ok := row[0].(int64)
	if !ok {
		return r, false
	}
	r.id = id
	for i := 1; i < 3; i++ {
		x := c19gVal{null: row[i] == nil}
		if !x.null {
			v, ok := row[i].(int64)
			if !ok {
				return r, false
			}
			x.v = v
		}
		if i == 1 {
			r.a = x
		} else {
			r.g = x
		}
	}
	return r, true
}

// ---- doubles ---------------------------------------------------------------------------

type c19gSession struct {
	sql.Session
	warns int
}

func (s *c19gSession) Warn(*sql.Warning)            { s.warns++ }
func (s *c19gSession) GetCurrentDatabase() string   { return "db" }
func (s *c19gSession) GetSessionVariable(*sql.Context, string) (interface{}, error) {
	return nil, errors.New("c19: no system variables")
}

// c19gStore: the table's rows and the statement protocol.
type c19gStore struct {
	rows      []sql.Row
	snap      []sql.Row
	begun     int
	completed int
	discarded int
	bad       bool // the double was used outside its contract (edit outside a statement, update of a row that is not stored, malformed row)
}

func c19gCopyRows(rows []sql.Row) []sql.Row {
	out := make([]sql.Row, len(rows))
	for i, r := range rows {
		out[i] = r.Copy()
	}
	return out
}

// c19gEditor is one edit handle (the inserter or the updater) on the store.
type c19gEditor struct{ st *c19gStore }

func (e *c19gEditor) StatementBegin(*sql.Context) {
	if e.st.begun == 0 {
		e.st.snap = c19gCopyRows(e.st.rows)
	}
	e.st.begun++
}
func (e *c19gEditor) DiscardChanges(*sql.Context, error) error {
	e.st.rows = c19gCopyRows(e.st.snap)
	e.st.discarded++
	return nil
}
func (e *c19gEditor) StatementComplete(*sql.Context) error { e.st.completed++; return nil }
func (e *c19gEditor) Close(*sql.Context) error             { return nil }

func (e *c19gEditor) Insert(_ *sql.Context, r sql.Row) error {
	st := e.st
	if st.begun == 0 || len(r) != 3 {
		st.bad = true
		return errors.New("c19g: insert outside the contract")
	}
	id, ok := r[0].(int64)
	if !ok {
		st.bad = true
		return errors.New("c19g: key is not a BIGINT")
	}
	for _, have := range st.rows {
		if have[0].(int64) == id {
			return sql.NewUniqueKeyErr("[id]", true, have)
		}
	}
	st.rows = append(st.rows, r.Copy())
	return nil
}

func (e *c19gEditor) Update(_ *sql.Context, old, new sql.Row) error {
	st := e.st
	if st.begun == 0 || len(old) != 3 || len(new) != 3 {
		st.bad = true
		return errors.New("c19g: update outside the contract")
	}
	oid, ok1 := old[0].(int64)
	nid, ok2 := new[0].(int64)
	if !ok1 || !ok2 || oid != nid {
		st.bad = true // the harnessed statements never change the key
		return errors.New("c19g: key change")
	}
	for j, have := range st.rows {
		if have[0].(int64) == oid {
			st.rows[j] = new.Copy()
			return nil
		}
	}
	st.bad = true
	return errors.New("c19g: update of a row that is not stored")
}

// c19gScan yields the stored rows (the slices themselves, as a table scan may).
func c19gScan(st *c19gStore) *c19Source {
	return &c19Source{rows: append([]sql.Row(nil), st.rows...)}
}

// ---- table, checks -----------------------------------------------------------------------

type c19gCheck struct {
	shape    int // 0: g < k   1: a > k
	k        int64
	enforced bool
}

type c19gTable struct {
	aNotNull bool
	schema   sql.Schema
	gen      *sql.ColumnDefaultValue // GENERATED ALWAYS AS (a + 1), GetField indexes = table schema
	checks   sql.CheckConstraints
	ref      []c19gCheck
}

func c19gField(i int, nullable bool) *expression.GetField {
	names := [3]string{"id", "a", "g"}
	return expression.NewGetFieldWithTable(i, 1, types.Int64, "db", "t", names[i], nullable)
}

func c19gNewTable(p string) *c19gTable {
	t := &c19gTable{aNotNull: nd.Bool(p + "a-not-null")}
	one := expression.NewLiteral(int8(1), types.Int8)
	// what planbuilder.convertDefaultExpression builds for the column: OutType = column type, ReturnNil = column nullable
	gen, err := sql.NewColumnDefaultValue(expression.NewPlus(c19gField(1, !t.aNotNull), one), types.Int64, false, true, true)
	if err != nil {
		panic(err)
	}
	t.gen = gen
	t.schema = sql.Schema{
		{Name: "id", Type: types.Int64, Source: "t", DatabaseSource: "db", PrimaryKey: true},
		{Name: "a", Type: types.Int64, Source: "t", DatabaseSource: "db", Nullable: !t.aNotNull},
		{Name: "g", Type: types.Int64, Source: "t", DatabaseSource: "db", Nullable: true, Generated: gen},
	}
	n := nd.IntRange(p+"nchecks", 0, 1)
	for j := 0; j < n; j++ {
		c := c19gCheck{shape: nd.Pick(p+"check-shape", 2), k: nd.Int64(p + "check-k"), enforced: nd.Bool(p + "check-enforced")}
		var e sql.Expression
		if c.shape == 0 {
			e = expression.NewLessThan(c19gField(2, true), expression.NewLiteral(c.k, types.Int64))
		} else {
			e = expression.NewGreaterThan(c19gField(1, !t.aNotNull), expression.NewLiteral(c.k, types.Int64))
		}
		t.ref = append(t.ref, c)
		t.checks = append(t.checks, &sql.CheckConstraint{Name: "chk", Expr: e, Enforced: c.enforced})
	}
	return t
}

// checkFalse: some ENFORCED check is FALSE on the row (a comparison with NULL is NULL, not FALSE).
func (t *c19gTable) checkFalse(r c19gRow) bool {
	f := false
	for _, c := range t.ref {
		var isFalse bool
		if c.shape == 0 {
			isFalse = nd.And(!r.g.null, !(r.g.v < c.k))
		} else {
			isFalse = nd.And(!r.a.null, !(r.a.v > c.k))
		}
		f = nd.Or(f, nd.And(c.enforced, isFalse))
	}
	return f
}

func (t *c19gTable) nullViolation(r c19gRow) bool { return nd.And(t.aNotNull, r.a.null) }

// c19gDrawVal: NULL or a full-range BIGINT.
func c19gDrawVal(name string) c19gVal {
	x := c19gVal{v: nd.Int64(name)}
	if nd.Pick(name+".null", 2) == 1 {
		x = c19gVal{null: true}
	}
	return x
}

// existing draws the table's rows before the statement: distinct keys, and every row
// satisfies the stored-row invariant (g = a + 1, NOT NULL, no enforced CHECK FALSE).
func (t *c19gTable) existing(p string, n int) []c19gRow {
	var rows []c19gRow
	for j := 0; j < n; j++ {
		tag := p + "old" + string(rune('0'+j))
		r := c19gRow{id: nd.Int64(tag + ".id"), a: c19gDrawVal(tag + ".a")}
		g, over := c19gGen(r.a)
		nd.Assume(!over)
		r.g = g
		nd.Assume(!t.nullViolation(r))
		nd.Assume(!t.checkFalse(r))
		for _, o := range rows {
			nd.Assume(o.id != r.id)
		}
		rows = append(rows, r)
	}
	return rows
}

func c19gLoad(rows []c19gRow) *c19gStore {
	st := &c19gStore{}
	for _, r := range rows {
		st.rows = append(st.rows, r.row())
	}
	return st
}

func c19gCtx() (*sql.Context, *c19gSession) {
	ctx, _ := c19Ctx()
	s := &c19gSession{}
	ctx.Session = s
	return ctx, s
}

// ---- the user's SET a = <expr> ---------------------------------------------------------------

const (
	c19gSetConst = iota // a = k
	c19gSetNull         // a = NULL
	c19gSetOther        // ODKU: a = VALUES(a)     UPDATE: a = id
	c19gSetIncr         // a = a + 1
	c19gSetShapes
)

// c19gSetExpr builds SET a = <expr>; otherIdx is the row position of the "other" operand
// (the to-be-inserted a in the combined old ++ new row of ODKU, id for UPDATE).
func (t *c19gTable) setExpr(shape int, k int64, otherIdx int) sql.Expression {
	var rhs sql.Expression
	switch shape {
	case c19gSetConst:
		rhs = expression.NewLiteral(k, types.Int64)
	case c19gSetNull:
		rhs = expression.NewLiteral(nil, types.Null)
	case c19gSetOther:
		rhs = expression.NewGetField(otherIdx, types.Int64, "other", true)
	default:
		rhs = expression.NewPlus(c19gField(1, !t.aNotNull), expression.NewLiteral(int8(1), types.Int8))
	}
	return expression.NewSetField(c19gField(1, !t.aNotNull), rhs)
}

// setValue: the value the user's expression assigns, by definition.
func c19gSetValue(shape int, k int64, old c19gRow, other c19gVal) (a c19gVal, outOfRange bool) {
	switch shape {
	case c19gSetConst:
		return c19gVal{v: k}, false
	case c19gSetNull:
		return c19gVal{null: true}, false
	case c19gSetOther:
		return other, false
	default:
		return c19gGen(old.a) // a + 1: the same function of a
	}
}

// updateExprs: the user's explicit SET followed by the derived SET g = <Generated>.
func (t *c19gTable) updateExprs(explicit sql.Expression) *plan.UpdateExprs {
	derived := expression.NewSetField(c19gField(2, true), t.gen)
	return plan.NewUpdateExprs([]sql.Expression{explicit, derived}, 1)
}

// c19gRewrite: the reference for "SET a = v on row old": the row to store, whether the
// statement must be rejected, whether nothing is written (the row did not change), and the
// class "NULL assigned to the NOT NULL column".
func (t *c19gTable) rewrite(old c19gRow, a c19gVal, aOutOfRange bool) (out c19gRow, reject, unchanged, nullClass bool) {
	if aOutOfRange {
		return old, true, false, false
	}
	if c19gEq(a, old.a) {
		return old, false, true, false
	}
	g, over := c19gGen(a)
	if over {
		return old, true, false, false
	}
	out = c19gRow{id: old.id, a: a, g: g}
	if t.checkFalse(out) {
		return old, true, false, false
	}
	if t.nullViolation(out) {
		return out, true, false, true
	}
	return out, false, false, false
}

func c19gFind(model []c19gRow, id int64) int {
	for j, m := range model {
		if m.id == id {
			return j
		}
	}
	return -1
}

// c19gDrive runs the statement's iterator to its end (or first error) and closes it.
func c19gDrive(ctx *sql.Context, it sql.RowIter) (failed bool, closeErr error) {
	for n := 0; n < 4; n++ {
		_, err := it.Next(ctx)
		if err == io.EOF {
			break
		}
		if err != nil {
			failed = true
			break
		}
	}
	closeErr = it.Close(ctx)
	return failed, closeErr
}

// c19gVerdict asserts the outcome of one statement.
//
//	before / want   the reference table before the statement and after it if it is accepted
//	wantReject      the reference rejects the statement
//	nullClass       the statement assigns NULL to the NOT NULL column through a SET expression
//	                of ON DUPLICATE KEY UPDATE (own assertion id, asserted last)
func c19gVerdict(p string, t *c19gTable, st *c19gStore, before, want []c19gRow, failed bool, closeErr error, wantReject, nullClass bool, editors int) {
	nd.Observe(failed, len(st.rows), st.begun, st.completed, st.discarded)
	nd.Assert(p+"double-used-within-its-contract", !st.bad)
	nd.Assert(p+"statement-protocol", nd.And(st.begun == editors,
		nd.Or(nd.And(failed, nd.And(st.discarded == editors, st.completed == 0)),
			nd.And(!failed, nd.And(st.completed == editors, st.discarded == 0)))))
	nd.Assert(p+"close-reports-the-failure", failed == (closeErr != nil))

	got := make([]c19gRow, 0, len(st.rows))
	for _, row := range st.rows {
		r, ok := c19gOf(row)
		nd.Assert(p+"stored-row.shape", ok)
		if !ok {
			return
		}
		got = append(got, r)
	}

	if failed {
		// a rejected statement stores nothing: the table holds what it held before
		same := len(got) == len(before)
		if same {
			for j := range got {
				same = nd.And(same, c19gSameRow(got[j], before[j]))
			}
		}
		nd.Assert(p+"rejected-statement.without-effect", same)
	} else {
		// (1) the property, on what the table holds after the accepted statement
		cons, chk, nn := true, true, true
		for _, r := range got {
			cons = nd.And(cons, c19gConsistent(r))
			chk = nd.And(chk, !t.checkFalse(r))
			nn = nd.And(nn, !t.nullViolation(r))
		}
		nd.Assert(p+"stored-row.generated-column-equals-its-expression", cons)
		nd.Assert(p+"stored-row.no-enforced-check-false", chk)
		if !nullClass {
			nd.Assert(p+"stored-row.no-null-in-not-null-column", nn)
		}
	}

	// (2) the decision and the result are the reference's
	if !nullClass {
		nd.Assert(p+"rejected-iff-reference", failed == wantReject)
	}
	if !failed {
		same := len(got) == len(want)
		if same {
			for j := range got {
				same = nd.And(same, c19gSameRow(got[j], want[j]))
			}
		}
		nd.Assert(p+"accepted-statement.table-is-reference", same)
	}
	if nullClass {
		nd.Assert(p+"set-null-into-not-null-column.rejected", failed)
	}
}

// c19gValues draws the statement's VALUES rows (id, a) and builds the row source the
// analyzer builds: Project(id, a, <Generated of g>) over the values.
func (t *c19gTable) values(p string, n int) (in []c19gRow, src sql.RowIter, projs []sql.Expression) {
	var rows []sql.Row
	for j := 0; j < n; j++ {
		tag := p + "new" + string(rune('0'+j))
		r := c19gRow{id: nd.Int64(tag + ".id"), a: c19gDrawVal(tag + ".a")}
		in = append(in, r)
		rows = append(rows, sql.Row{r.id, r.a.cell()})
	}
	projs = []sql.Expression{
		expression.NewGetField(0, types.Int64, "id", false),
		expression.NewGetField(1, types.Int64, "a", !t.aNotNull),
		t.gen,
	}
	return in, &ProjectIter{projs: projs, childIter: &c19Source{rows: rows}}, projs
}

// insertGate: the reference for the row INSERT is about to write: rejected when the
// generated column cannot be computed, a NOT NULL column gets NULL, or an enforced CHECK is FALSE.
func (t *c19gTable) insertGate(in c19gRow) (row c19gRow, reject bool) {
	g, over := c19gGen(in.a)
	if over {
		return in, true
	}
	row = c19gRow{id: in.id, a: in.a, g: g}
	return row, nd.Or(t.nullViolation(row), t.checkFalse(row))
}

// VerifC19OdkuGenerated: INSERT INTO t (id, a) VALUES (..)[, (..)] ON DUPLICATE KEY UPDATE a = <expr>
// on a table of 0..1 rows (thorough: 0..2), 1 VALUES row (thorough: 1..2). <expr> is a constant,
// NULL, VALUES(a) or a + 1. A later VALUES row can hit the row an earlier one inserted or updated.
func VerifC19OdkuGenerated() {
	const p = "c19.odku."
	t := c19gNewTable(p)
	before := t.existing(p, nd.IntRange(p+"existing", 0, nd.Bound(1, 2)))
	in, src, projs := t.values(p, nd.IntRange(p+"values", 1, nd.Bound(1, 2)))
	shape := nd.Pick(p+"set", c19gSetShapes)
	k := nd.Int64(p + "set-k")

	st := c19gLoad(before)
	ctx, _ := c19gCtx()
	ins, upd := &c19gEditor{st: st}, &c19gEditor{st: st}
	it := &insertIter{
		schema:                      t.schema,
		inserter:                    ins,
		updater:                     upd,
		rowSource:                   src,
		onDupKeyUpdateExprs:         t.updateExprs(t.setExpr(shape, k, 3+1)), // combined row: old (0..2) ++ new (3..5)
		insertExprs:                 projs,
		checks:                      t.checks,
		ctx:                         ctx,
		firstGeneratedAutoIncRowIdx: -1,
	}
	failed, closeErr := c19gDrive(ctx, plan.NewTableEditorIter(it, ins, upd))
	nd.Reach("c19.odku.statement")

	// reference
	want := append([]c19gRow(nil), before...)
	reject, nullClass := false, false
	for _, v := range in {
		row, rej := t.insertGate(v)
		if rej {
			reject = true
			break
		}
		j := c19gFind(want, row.id)
		if j < 0 {
			want = append(want, row)
			continue
		}
		a, over := c19gSetValue(shape, k, want[j], row.a)
		out, rej, _, nc := t.rewrite(want[j], a, over)
		if nc {
			nullClass = true // the model follows the code for this class: the row is written
			want[j] = out
			continue
		}
		if rej {
			reject = true
			break
		}
		want[j] = out
	}
	c19gVerdict(p, t, st, before, want, failed, closeErr, reject, nullClass, 2)
}

// VerifC19InsertGenerated: plain INSERT INTO t (id, a) VALUES (..)[, (..)] on a table of 0..1 rows;
// a duplicate key is an error.
func VerifC19InsertGenerated() {
	const p = "c19.insgen."
	t := c19gNewTable(p)
	before := t.existing(p, nd.IntRange(p+"existing", 0, 1))
	in, src, projs := t.values(p, nd.IntRange(p+"values", 1, nd.Bound(1, 2)))

	st := c19gLoad(before)
	ctx, _ := c19gCtx()
	ins := &c19gEditor{st: st}
	it := &insertIter{
		schema:                      t.schema,
		inserter:                    ins,
		rowSource:                   src,
		insertExprs:                 projs,
		checks:                      t.checks,
		ctx:                         ctx,
		firstGeneratedAutoIncRowIdx: -1,
	}
	failed, closeErr := c19gDrive(ctx, plan.NewTableEditorIter(it, ins))
	nd.Reach("c19.insgen.statement")

	want := append([]c19gRow(nil), before...)
	reject := false
	for _, v := range in {
		row, rej := t.insertGate(v)
		if rej || c19gFind(want, row.id) >= 0 {
			reject = true
			break
		}
		want = append(want, row)
	}
	c19gVerdict(p, t, st, before, want, failed, closeErr, reject, false, 1)
}

// VerifC19UpdateGenerated: UPDATE t SET a = <expr> over every row of a table of 1 row
// (thorough: 1..2). <expr> is a constant, NULL, id or a + 1.
func VerifC19UpdateGenerated() {
	const p = "c19.updgen."
	t := c19gNewTable(p)
	before := t.existing(p, nd.IntRange(p+"existing", 1, nd.Bound(1, 2)))
	shape := nd.Pick(p+"set", c19gSetShapes)
	k := nd.Int64(p + "set-k")

	st := c19gLoad(before)
	ctx, _ := c19gCtx()
	upd := &c19gEditor{st: st}
	it := &updateIter{
		childIter: &updateSourceIter{
			childIter:   c19gScan(st),
			updateExprs: t.updateExprs(t.setExpr(shape, k, 0)),
			tableSchema: t.schema,
		},
		updater: upd,
		checks:  t.checks,
		schema:  t.schema,
	}
	failed, closeErr := c19gDrive(ctx, plan.NewTableEditorIter(it, upd))
	nd.Reach("c19.updgen.statement")

	want := append([]c19gRow(nil), before...)
	reject := false
	for j := range want {
		a, over := c19gSetValue(shape, k, want[j], c19gVal{v: want[j].id})
		out, rej, _, _ := t.rewrite(want[j], a, over)
		if rej {
			reject = true // UPDATE validates NOT NULL itself: NULL into the NOT NULL column is an ordinary rejection
			break
		}
		want[j] = out
	}
	c19gVerdict(p, t, st, before, want, failed, closeErr, reject, false, 1)
}
