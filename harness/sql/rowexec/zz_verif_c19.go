//go:build verif

package rowexec

import (
	"context"
	"io"

	nd "github.com/dolthub/go-mysql-server/internal/zzverifnd"
	"github.com/dolthub/go-mysql-server/sql"
	"github.com/dolthub/go-mysql-server/sql/expression"
	"github.com/dolthub/go-mysql-server/sql/types"
)

// C19 at the write-time gate: the rows that insertIter / updateIter hand to the
// table editor satisfy every enforced CHECK (3-valued: only FALSE rejects) and
// hold no NULL in a NOT NULL column; rows that satisfy both are not rejected.
//
// The iterators are struct literals with the fields their Next reads; the row
// source, the table editor and the session (warnings) are test doubles.
//
// Table: c0, c1, c2 BIGINT, each with a symbolic Nullable flag. 0..2 CHECK
// constraints from three shapes with a symbolic constant k and a symbolic
// Enforced flag:
//
//	0: c0 > k      1: c0 < c1      2: c0 IS NOT NULL OR c1 = k

const c19Cols = 3

// ---- test doubles -----------------------------------------------------------------

type c19Session struct {
	sql.Session
	warns []*sql.Warning
}

func (s *c19Session) Warn(w *sql.Warning) { s.warns = append(s.warns, w) }

type c19Source struct {
	rows []sql.Row
	next int
}

func (s *c19Source) Next(*sql.Context) (sql.Row, error) {
	if s.next >= len(s.rows) {
		return nil, io.EOF
	}
	s.next++
	return s.rows[s.next-1], nil
}
func (s *c19Source) Close(*sql.Context) error { return nil }

// c19Editor records what reaches the table.
type c19Editor struct {
	stored []sql.Row
}

func (e *c19Editor) StatementBegin(*sql.Context)              {}
func (e *c19Editor) DiscardChanges(*sql.Context, error) error { return nil }
func (e *c19Editor) StatementComplete(*sql.Context) error     { return nil }
func (e *c19Editor) Close(*sql.Context) error                 { return nil }
func (e *c19Editor) Insert(_ *sql.Context, r sql.Row) error {
	e.stored = append(e.stored, r.Copy())
	return nil
}
func (e *c19Editor) Update(_ *sql.Context, _, r sql.Row) error {
	e.stored = append(e.stored, r.Copy())
	return nil
}

// ---- table, checks, reference -------------------------------------------------------

type c19Check struct {
	shape    int
	k        int64
	enforced bool
}

type c19Table struct {
	nullable [c19Cols]bool
	schema   sql.Schema
	checks   sql.CheckConstraints
	ref      []c19Check
}

func c19NewTable() *c19Table {
	t := &c19Table{}
	names := [c19Cols]string{"c0", "c1", "c2"}
	for i := 0; i < c19Cols; i++ {
		t.nullable[i] = nd.Bool("nullable" + string(rune('0'+i)))
		t.schema = append(t.schema, &sql.Column{Name: names[i], Type: types.Int64, Source: "t", Nullable: t.nullable[i]})
	}
	f0 := expression.NewGetField(0, types.Int64, "c0", true)
	f1 := expression.NewGetField(1, types.Int64, "c1", true)
	n := nd.IntRange("nchecks", 0, 2)
	for j := 0; j < n; j++ {
		tag := string(rune('0' + j))
		c := c19Check{shape: nd.Pick("shape"+tag, 3), k: nd.Int64("k" + tag), enforced: nd.Bool("enforced" + tag)}
		var e sql.Expression
		switch c.shape {
		case 0:
			e = expression.NewGreaterThan(f0, expression.NewLiteral(c.k, types.Int64))
		case 1:
			e = expression.NewLessThan(f0, f1)
		default:
			e = expression.NewOr(expression.NewNot(expression.NewIsNull(f0)), expression.NewEquals(f1, expression.NewLiteral(c.k, types.Int64)))
		}
		t.ref = append(t.ref, c)
		t.checks = append(t.checks, &sql.CheckConstraint{Name: "chk" + tag, Expr: e, Enforced: c.enforced})
	}
	return t
}

// c19Vals: a row as (is NULL, value) pairs.
type c19Vals struct {
	null [c19Cols]bool
	v    [c19Cols]int64
}

// c19Input draws a row: every cell NULL or a full-range BIGINT.
func c19Input(tag string) (sql.Row, c19Vals) {
	var vals c19Vals
	row := make(sql.Row, c19Cols)
	for i := 0; i < c19Cols; i++ {
		s := tag + string(rune('0'+i))
		vals.v[i] = nd.Int64(s)
		if nd.Pick(s+".null", 2) == 1 {
			vals.null[i] = true
			vals.v[i] = 0
		} else {
			row[i] = vals.v[i]
		}
	}
	return row, vals
}

// c19IsFalse: the check evaluates to FALSE on the row, by the definition of
// SQL's three-valued logic (a comparison with a NULL operand is NULL; OR is
// FALSE only when both operands are FALSE).
func c19IsFalse(c c19Check, r c19Vals) bool {
	switch c.shape {
	case 0: // c0 > k
		return nd.And(!r.null[0], !(r.v[0] > c.k))
	case 1: // c0 < c1
		return nd.And(nd.And(!r.null[0], !r.null[1]), !(r.v[0] < r.v[1]))
	default: // c0 IS NOT NULL OR c1 = k
		aFalse := r.null[0]                         // "c0 IS NOT NULL" is FALSE iff c0 is NULL (never NULL itself)
		bFalse := nd.And(!r.null[1], r.v[1] != c.k) // "c1 = k" is FALSE iff c1 is not NULL and differs
		return nd.And(aFalse, bFalse)
	}
}

// anyFalse: some ENFORCED check is FALSE on the row.
func (t *c19Table) anyFalse(r c19Vals) bool {
	f := false
	for _, c := range t.ref {
		f = nd.Or(f, nd.And(c.enforced, c19IsFalse(c, r)))
	}
	return f
}

// nullInNotNull: some NOT NULL column holds NULL.
func (t *c19Table) nullInNotNull(r c19Vals) bool {
	f := false
	for i := 0; i < c19Cols; i++ {
		f = nd.Or(f, nd.And(r.null[i], !t.nullable[i]))
	}
	return f
}

// adjusted: the row INSERT/UPDATE IGNORE writes instead: NULL in a NOT NULL
// column becomes the type's zero value (0); returns also how many were replaced.
func (t *c19Table) adjusted(r c19Vals) (c19Vals, int) {
	n := 0
	for i := 0; i < c19Cols; i++ {
		if nd.And(r.null[i], !t.nullable[i]) {
			r.null[i], r.v[i] = false, 0
			n++
		}
	}
	return r, n
}

// c19Of reads a stored row back as (is NULL, value) pairs.
func c19Of(row sql.Row) (c19Vals, bool) {
	var r c19Vals
	if len(row) != c19Cols {
		return r, false
	}
	for i, c := range row {
		if c == nil {
			r.null[i] = true
			continue
		}
		v, ok := c.(int64)
		if !ok {
			return r, false
		}
		r.v[i] = v
	}
	return r, true
}

func c19Same(a, b c19Vals) bool {
	eq := true
	for i := 0; i < c19Cols; i++ {
		eq = nd.And(eq, nd.And(a.null[i] == b.null[i], nd.Or(a.null[i], a.v[i] == b.v[i])))
	}
	return eq
}

func c19Ctx() (*sql.Context, *c19Session) {
	s := &c19Session{}
	return &sql.Context{Context: context.Background(), Session: s}, s
}

// VerifC19Insert: one row through the real insertIter.Next (nullability,
// checks, type conversion, inserter.Insert).
func VerifC19Insert() {
	t := c19NewTable()
	row, in := c19Input("v")
	ignore := nd.Bool("ignore")
	ctx, sess := c19Ctx()
	ed := &c19Editor{}
	it := &insertIter{
		rowSource:                   &c19Source{rows: []sql.Row{row}},
		inserter:                    ed,
		ctx:                         ctx,
		checks:                      t.checks,
		schema:                      t.schema,
		ignore:                      ignore,
		firstGeneratedAutoIncRowIdx: -1,
	}
	_, err := it.Next(ctx)
	nd.Reach("c19.insert.next")
	nd.Observe(err == nil, len(ed.stored), len(sess.warns))
	if len(ed.stored) == 1 && len(ed.stored[0]) == c19Cols {
		nd.Observe(ed.stored[0][0], ed.stored[0][1], ed.stored[0][2])
	}

	// (1) the property: whatever reached the table satisfies the stored-row invariant
	nd.Assert("c19.insert.at-most-one-row-stored", len(ed.stored) <= 1)
	var st c19Vals
	stored := len(ed.stored) == 1
	if stored {
		var ok bool
		st, ok = c19Of(ed.stored[0])
		nd.Assert("c19.insert.stored-row.shape", ok)
		if !ok {
			return
		}
		nd.Assert("c19.insert.stored-row.no-null-in-not-null-column", !t.nullInNotNull(st))
		nd.Assert("c19.insert.stored-row.no-enforced-check-false", !t.anyFalse(st))
	}
	nd.Assert("c19.insert.stored-iff-no-error", stored == (err == nil))

	// (2) the gate decides exactly as specified
	adj, replaced := t.adjusted(in)
	if !ignore {
		reject := nd.Or(t.nullInNotNull(in), t.anyFalse(in))
		nd.Assert("c19.insert.strict.rejected-iff-violation", (err != nil) == reject)
		if stored {
			nd.Assert("c19.insert.strict.stored-row-is-input", c19Same(st, in))
			nd.Assert("c19.insert.strict.no-warning", len(sess.warns) == 0)
		} else {
			_, wrapped := err.(sql.WrappedInsertError)
			nd.Assert("c19.insert.strict.error-carries-the-row", wrapped)
		}
	} else {
		skip := t.anyFalse(adj)
		nd.Assert("c19.insert.ignore.skipped-iff-check-false-on-adjusted-row", (err != nil) == skip)
		if err != nil {
			_, ignorable := err.(sql.IgnorableError)
			nd.Assert("c19.insert.ignore.skip-is-ignorable-error", ignorable)
			nd.Assert("c19.insert.ignore.skip-warns", len(sess.warns) == replaced+1)
		}
		if stored {
			nd.Assert("c19.insert.ignore.stored-row-is-adjusted-input", c19Same(st, adj))
			nd.Assert("c19.insert.ignore.one-warning-per-replaced-null", len(sess.warns) == replaced)
		}
	}
}

// VerifC19InsertNarrow: a column narrower than the inserted value. Table
// (c0 TINYINT NOT NULL, c1 BIGINT NOT NULL) with one enforced CHECK, c0 > k or
// c0 < c1; the source row holds two full-range BIGINT values. insertIter.Next
// evaluates the checks on the row as it arrives and converts to the column
// types afterwards; without IGNORE an out-of-range value is an error, with
// IGNORE it is replaced by the nearest TINYINT.
//
// Input classes with their own assertion ids:
//
//	in range     c0 fits TINYINT (the stored row is the input row)
//	ignore-clamp INSERT IGNORE with c0 outside TINYINT: the checks must hold
//	             for the clamped row that is STORED
func VerifC19InsertNarrow() {
	v0, v1, k := nd.Int64("v0"), nd.Int64("v1"), nd.Int64("k")
	shape := nd.Pick("shape", 2)
	ignore := nd.Bool("ignore")
	schema := sql.Schema{
		{Name: "c0", Type: types.Int8, Source: "t"},
		{Name: "c1", Type: types.Int64, Source: "t"},
	}
	f0 := expression.NewGetField(0, types.Int8, "c0", false)
	f1 := expression.NewGetField(1, types.Int64, "c1", false)
	var e sql.Expression
	if shape == 0 {
		e = expression.NewGreaterThan(f0, expression.NewLiteral(k, types.Int64))
	} else {
		e = expression.NewLessThan(f0, f1)
	}
	holds := func(a, b int64) bool { // the check is not FALSE on (a, b); no NULLs here
		if shape == 0 {
			return a > k
		}
		return a < b
	}
	ctx, sess := c19Ctx()
	ed := &c19Editor{}
	it := &insertIter{
		rowSource:                   &c19Source{rows: []sql.Row{{v0, v1}}},
		inserter:                    ed,
		ctx:                         ctx,
		checks:                      sql.CheckConstraints{{Name: "chk", Expr: e, Enforced: true}},
		schema:                      schema,
		ignore:                      ignore,
		firstGeneratedAutoIncRowIdx: -1,
	}
	_, err := it.Next(ctx)
	nd.Reach("c19.narrow.next")
	inRange := nd.And(v0 >= -128, v0 <= 127)
	stored := len(ed.stored) == 1
	nd.Assert("c19.narrow.stored-iff-no-error", stored == (err == nil) && len(ed.stored) <= 1)
	var s0, s1 int64
	if stored {
		a, ok0 := ed.stored[0][0].(int8)
		b, ok1 := ed.stored[0][1].(int64)
		nd.Assert("c19.narrow.stored-row.column-types", ok0 && ok1)
		if !(ok0 && ok1) {
			return
		}
		s0, s1 = int64(a), b
	}
	if inRange {
		// the ordinary case: exactly the gate's decision, the input row is stored
		nd.Assert("c19.narrow.in-range.stored-iff-check-not-false", stored == holds(v0, v1))
		if stored {
			nd.Assert("c19.narrow.in-range.stored-row-is-input", nd.And(s0 == v0, s1 == v1))
			nd.Assert("c19.narrow.in-range.stored-row.no-enforced-check-false", holds(s0, s1))
		}
		return
	}
	if !ignore {
		nd.Assert("c19.narrow.strict.out-of-range-rejected", !stored)
		return
	}
	if stored {
		clamped := int64(127)
		if v0 < 0 {
			clamped = -128
		}
		nd.Assert("c19.narrow.ignore-clamp.nearest-value-and-warning", nd.And(s0 == clamped, s1 == v1) && len(sess.warns) >= 1)
		nd.Assert("c19.narrow.ignore-clamp.stored-row.no-enforced-check-false", holds(s0, s1))
	}
}

// VerifC19Update: one (old, new) row pair through the real updateIter.Next.
// The old row is (NULL, NULL, NULL): it only serves the "row changed" test.
//
// Input classes with their own assertion ids:
//
//	ordinary            the new row needs no NULL replacement (or IGNORE is off)
//	ignore-replacement  UPDATE IGNORE replaces a NULL in a NOT NULL column by 0;
//	                    the checks must hold for the row that is STORED
func VerifC19Update() {
	t := c19NewTable()
	row, in := c19Input("v")
	ignore := nd.Bool("ignore")
	ctx, sess := c19Ctx()
	ed := &c19Editor{}
	oldAndNew := append(make(sql.Row, c19Cols), row...)
	it := &updateIter{
		childIter: &c19Source{rows: []sql.Row{oldAndNew}},
		updater:   ed,
		checks:    t.checks,
		schema:    t.schema,
		ignore:    ignore,
	}
	_, err := it.Next(ctx)
	nd.Reach("c19.update.next")
	unchanged := nd.And(in.null[0], nd.And(in.null[1], in.null[2]))
	if unchanged {
		// nothing to write: no update, no error
		nd.Assert("c19.update.unchanged-row.not-written", len(ed.stored) == 0 && err == nil)
		return
	}
	adj, replaced := t.adjusted(in)
	replacing := ignore && replaced > 0

	nd.Assert("c19.update.at-most-one-row-stored", len(ed.stored) <= 1)
	var st c19Vals
	stored := len(ed.stored) == 1
	nd.Assert("c19.update.stored-iff-no-error", stored == (err == nil))
	if stored {
		var ok bool
		st, ok = c19Of(ed.stored[0])
		nd.Assert("c19.update.stored-row.shape", ok)
		if !ok {
			return
		}
	}

	// (2) the gate decides as specified
	if !ignore {
		reject := nd.Or(t.nullInNotNull(in), t.anyFalse(in))
		nd.Assert("c19.update.strict.rejected-iff-violation", (err != nil) == reject)
		if stored {
			nd.Assert("c19.update.strict.stored-row-is-input", c19Same(st, in))
			nd.Assert("c19.update.strict.no-warning", len(sess.warns) == 0)
		}
	} else {
		if err != nil {
			_, ignorable := err.(sql.IgnorableError)
			nd.Assert("c19.update.ignore.skip-is-ignorable-error", ignorable)
			nd.Assert("c19.update.ignore.skip-warns", len(sess.warns) >= 1)
		}
		if !replacing {
			nd.Assert("c19.update.ignore.skipped-iff-check-false", (err != nil) == t.anyFalse(in))
		}
		if stored {
			nd.Assert("c19.update.ignore.stored-row-is-adjusted-input", c19Same(st, adj))
			nd.Assert("c19.update.ignore.one-warning-per-replaced-null", len(sess.warns) == replaced)
		}
	}

	// (1) the property, last (a failing assertion ends the path)
	if stored {
		nd.Assert("c19.update.stored-row.no-null-in-not-null-column", !t.nullInNotNull(st))
		if replacing {
			nd.Assert("c19.update.ignore-replacement.stored-row.no-enforced-check-false", !t.anyFalse(st))
		} else {
			nd.Assert("c19.update.stored-row.no-enforced-check-false", !t.anyFalse(st))
		}
	}
}
