//go:build verif

package rowexec

import (
	"context"
	"io"

	nd "github.com/dolthub/go-mysql-server/internal/zzverifnd"
	"github.com/dolthub/go-mysql-server/sql"
	"github.com/dolthub/go-mysql-server/sql/expression"
	"github.com/dolthub/go-mysql-server/sql/types"
)

// C19 at the write-time gate: the rows that insertIter / updateIter hand to the
// table editor satisfy every enforced CHECK (3-valued: only FALSE rejects) and
// hold no NULL in a NOT NULL column; rows that satisfy both are not rejected.
//
// The iterators are struct literals with the fields their Next reads; the row
// source, the table editor and the session (warnings) are test doubles.
//
// Table: c0, c1, c2 BIGINT, each with a symbolic Nullable flag. 0..2 CHECK
// constraints from three shapes with a symbolic constant k and a symbolic
// Enforced flag:
//
//	0: c0 > k      1: c0 < c1      2: c0 IS NOT NULL OR c1 = k

const c19Cols = 3

// ---- test doubles -----------------------------------------------------------------

type c19Session struct {
	sql.Session
	warns []*sql.Warning
}

func (s *c19Session) Warn(w *sql.Warning) { s.warns = append(s.warns, w) }

type c19Source struct {
	rows []sql.Row
	next int
}

func (s *c19Source) Next(*sql.Context) (sql.Row, error) {
	if s.next >= len(s.rows) {
		return nil, io.EOF
	}
	s.next++
	return s.rows[s.next-1], nil
}
func (s *c19Source) Close(*sql.Context) error { return nil }

// c19Editor records what reaches the table.
type c19Editor struct {
	stored []sql.Row
}

func (e *c19Editor) StatementBegin(*sql.Context)              {}
func (e *c19Editor) DiscardChanges(*sql.Context, error) error { return nil }
func (e *c19Editor) StatementComplete(*sql.Context) error     { return nil }
func (e *c19Editor) Close(*sql.Context) error                 { return nil }
func (e *c19Editor) Insert(_ *sql.Context, r sql.Row) error {
	e.stored = append(e.stored, r.Copy())
	return nil
}
func (e *c19Editor) Update(_ *sql.Context, _, r sql.Row) error {
	e.stored = append(e.stored, r.Copy())
	return nil
}

// ---- table, checks, reference -------------------------------------------------------

type c19Check struct {
	shape    int
	k        int64
	enforced bool
}

type c19Table struct {
	nullable [c19Cols]bool
	schema   sql.Schema
	checks   sql.CheckConstraints
	ref      []c19Check
}

func c19NewTable() *c19Table {
	t := &c19Table{}
	names := [c19Cols]string{"c0", "c1", "c2"}
	for i := 0; i < c19Cols; i++ {
		t.nullable[i] = nd.Bool("nullable" + string(rune('0'+i)))
		t.schema = append(t.schema, &sql.Column{Name: names[i], Type: types.Int64, Source: "t", Nullable: t.nullable[i]})
	}
	f0 := expression.NewGetField(0, types.Int64, "c0", true)
	f1 := expression.NewGetField(1, types.Int64, "c1", true)
	n := nd.IntRange("nchecks", 0, 2)
	for j := 0; j < n; j++ {
		tag := string(rune('0' + j))
		c := c19Check{shape: nd.Pick("shape"+tag, 3), k: nd.Int64("k" + tag), enforced: nd.Bool("enforced" + tag)}
		var e sql.Expression
		switch c.shape {
		case 0:
			e = expression.NewGreaterThan(f0, expression.NewLiteral(c.k, types.Int64))
		case 1:
			e = expression.NewLessThan(f0, f1)
		default:
			e = expression.NewOr(expression.NewNot(expression.NewIsNull(f0)), expression.NewEquals(f1, expression.NewLiteral(c.k, types.Int64)))
		}
		t.ref = append(t.ref, c)
		t.checks = append(t.checks, &sql.CheckConstraint{Name: "chk" + tag, Expr: e, Enforced: c.enforced})
	}
	return t
}

// c19Vals: a row as (is NULL, value) pairs.
type c19Vals struct {
	null [c19Cols]bool
	v    [c19Cols]int64
}

// c19Input draws a row: every cell NULL or a full-range BIGINT.
func c19Input(tag string) (sql.Row, c19Vals) {
	var vals c19Vals
	row := make(sql.Row, c19Cols)
	for i := 0; i < c19Cols; i++ {
		s := tag + string(rune('0'+i))
		vals.v[i] = nd.Int64(s)
		if nd.Pick(s+".null", 2) == 1 {
			vals.null[i] = true
			vals.v[i] = 0
		} else {
			row[i] = vals.v[i]
		}
	}
	return row, vals
}

// c19IsFalse: the check evaluates to FALSE on the row, by the definition of
// SQL's three-valued logic (a comparison with a NULL operand is NULL; OR is
// FALSE only when both operands are FALSE).
func c19IsFalse(c c19Check, r c19Vals) bool {
	switch c.shape {
	case 0: // c0 > k
		return nd.And(!r.null[0], !(r.v[0] > c.k))
	case 1: // c0 < c1
		return nd.And(nd.And(!r.null[0], !r.null[1]), !(r.v[0] < r.v[1]))
	default: // c0 IS NOT NULL OR c1 = k
		aFalse := r.null[0]                         // "c0 IS NOT NULL" is FALSE iff c0 is NULL (never NULL itself)
		bFalse := nd.And(!r.null[1], r.v[1] != c.k) // "c1 = k" is FALSE iff c1 is not NULL and differs
		return nd.And(aFalse, bFalse)
	}
}

// anyFalse: some ENFORCED check is FALSE on the row.
func (t *c19Table) anyFalse(r c19Vals) bool {
	f := false
	for _, c := range t.ref {
		f = nd.Or(f, nd.And(c.enforced, c19IsFalse(c, r)))
	}
	return f
}

// nullInNotNull: some NOT NULL column holds NULL.
func (t *c19Table) nullInNotNull(r c19Vals) bool {
	f := false
	for i := 0; i < c19Cols; i++ {
		f = nd.Or(f, nd.And(r.null[i], !t.nullable[i]))
	}
	return f
}

// adjusted: the row INSERT/UPDATE IGNORE writes instead: NULL in a NOT NULL
// column becomes the type's zero value (0); returns also how many were replaced.
func (t *c19Table) adjusted(r c19Vals) (c19Vals, int) {
	n := 0
	for i := 0; i < c19Cols; i++ {
		if nd.And(r.null[i], !t.nullable[i]) {
			r.null[i], r.v[i] = false, 0
			n++
		}
	}
	return r, n
}

// c19Of reads a stored row back as (is NULL, value) pairs.
func c19Of(row sql.Row) (c19Vals, bool) {
	var r c19Vals
	if len(row) != c19Cols {
		return r, false
	}
	for i, c := range row {
		if c == nil {
			r.null[i] = true
			continue
		}
		v, ok := c.(int64)
		if !ok {
			return r, false
		}
		r.v[i] = v
	}
	return r, true
}

func c19Same(a, b c19Vals) bool {
	eq := true
	for i := 0; i < c19Cols; i++ {
		eq = nd.And(eq, nd.And(a.null[i] == b.null[i], nd.Or(a.null[i], a.v[i] == b.v[i])))
	}
	return eq
}

func c19Ctx() (*sql.Context, *c19Session) {
	s := &c19Session{}
	return &sql.Context{Context: context.Background(), Session: s}, s
}

// c19InsertGate is the gate section of insertIter.Next (insert.go:105-113),
// statement for statement. Next itself cannot be run by the executor beyond
// this point: the type-conversion loop that follows calls context.WithValue
// (executor gap: reflectlite Type.Comparable). What Next does after the gate
// with a BIGINT row into BIGINT columns is an identity conversion and
// inserter.Insert(row).
func c19InsertGate(i *insertIter, ctx *sql.Context, row sql.Row) error {
	err := i.validateNullability(ctx, i.schema, row)
	if err != nil {
		return i.ignoreOrClose(ctx, row, err)
	}

	err = i.evaluateChecks(ctx, row)
	if err != nil {
		return i.ignoreOrClose(ctx, row, err)
	}
	return nil
}

// VerifC19InsertGate: one row through the write-time gate of insertIter; the
// row as the gate leaves it is the row that gets stored.
func VerifC19InsertGate() {
	t := c19NewTable()
	row, in := c19Input("v")
	ignore := nd.Bool("ignore")
	ctx, sess := c19Ctx()
	it := &insertIter{
		ctx:                         ctx,
		checks:                      t.checks,
		schema:                      t.schema,
		ignore:                      ignore,
		firstGeneratedAutoIncRowIdx: -1,
	}
	err := c19InsertGate(it, ctx, row)
	nd.Reach("c19.insert.gate")
	stored := err == nil

	// (1) the property: a row that passes the gate satisfies the stored-row invariant
	var st c19Vals
	if stored {
		var ok bool
		st, ok = c19Of(row)
		nd.Assert("c19.insert.stored-row.shape", ok)
		if !ok {
			return
		}
		nd.Assert("c19.insert.stored-row.no-null-in-not-null-column", !t.nullInNotNull(st))
		nd.Assert("c19.insert.stored-row.no-enforced-check-false", !t.anyFalse(st))
	}

	// (2) the gate decides exactly as specified
	adj, replaced := t.adjusted(in)
	if !ignore {
		reject := nd.Or(t.nullInNotNull(in), t.anyFalse(in))
		nd.Assert("c19.insert.strict.rejected-iff-violation", (err != nil) == reject)
		if stored {
			nd.Assert("c19.insert.strict.stored-row-is-input", c19Same(st, in))
			nd.Assert("c19.insert.strict.no-warning", len(sess.warns) == 0)
		} else {
			_, wrapped := err.(sql.WrappedInsertError)
			nd.Assert("c19.insert.strict.error-carries-the-row", wrapped)
		}
	} else {
		skip := t.anyFalse(adj)
		nd.Assert("c19.insert.ignore.skipped-iff-check-false-on-adjusted-row", (err != nil) == skip)
		if err != nil {
			_, ignorable := err.(sql.IgnorableError)
			nd.Assert("c19.insert.ignore.skip-is-ignorable-error", ignorable)
			nd.Assert("c19.insert.ignore.skip-warns", len(sess.warns) == replaced+1)
		}
		if stored {
			nd.Assert("c19.insert.ignore.stored-row-is-adjusted-input", c19Same(st, adj))
			nd.Assert("c19.insert.ignore.one-warning-per-replaced-null", len(sess.warns) == replaced)
		}
	}
}

// VerifC19Update: one (old, new) row pair through the real updateIter.Next.
// The old row is (NULL, NULL, NULL): it only serves the "row changed" test.
//
// Input classes with their own assertion ids:
//
//	ordinary            the new row needs no NULL replacement (or IGNORE is off)
//	ignore-replacement  UPDATE IGNORE replaces a NULL in a NOT NULL column by 0;
//	                    the checks must hold for the row that is STORED
func VerifC19Update() {
	t := c19NewTable()
	row, in := c19Input("v")
	ignore := nd.Bool("ignore")
	ctx, sess := c19Ctx()
	ed := &c19Editor{}
	oldAndNew := append(make(sql.Row, c19Cols), row...)
	it := &updateIter{
		childIter: &c19Source{rows: []sql.Row{oldAndNew}},
		updater:   ed,
		checks:    t.checks,
		schema:    t.schema,
		ignore:    ignore,
	}
	_, err := it.Next(ctx)
	nd.Reach("c19.update.next")
	unchanged := nd.And(in.null[0], nd.And(in.null[1], in.null[2]))
	if unchanged {
		// nothing to write: no update, no error
		nd.Assert("c19.update.unchanged-row.not-written", len(ed.stored) == 0 && err == nil)
		return
	}
	adj, replaced := t.adjusted(in)
	replacing := ignore && replaced > 0

	nd.Assert("c19.update.at-most-one-row-stored", len(ed.stored) <= 1)
	var st c19Vals
	stored := len(ed.stored) == 1
	nd.Assert("c19.update.stored-iff-no-error", stored == (err == nil))
	if stored {
		var ok bool
		st, ok = c19Of(ed.stored[0])
		nd.Assert("c19.update.stored-row.shape", ok)
		if !ok {
			return
		}
	}

	// (2) the gate decides as specified
	if !ignore {
		reject := nd.Or(t.nullInNotNull(in), t.anyFalse(in))
		nd.Assert("c19.update.strict.rejected-iff-violation", (err != nil) == reject)
		if stored {
			nd.Assert("c19.update.strict.stored-row-is-input", c19Same(st, in))
			nd.Assert("c19.update.strict.no-warning", len(sess.warns) == 0)
		}
	} else {
		if err != nil {
			_, ignorable := err.(sql.IgnorableError)
			nd.Assert("c19.update.ignore.skip-is-ignorable-error", ignorable)
			nd.Assert("c19.update.ignore.skip-warns", len(sess.warns) >= 1)
		}
		if !replacing {
			nd.Assert("c19.update.ignore.skipped-iff-check-false", (err != nil) == t.anyFalse(in))
		}
		if stored {
			nd.Assert("c19.update.ignore.stored-row-is-adjusted-input", c19Same(st, adj))
			nd.Assert("c19.update.ignore.one-warning-per-replaced-null", len(sess.warns) == replaced)
		}
	}

	// (1) the property, last (a failing assertion ends the path)
	if stored {
		nd.Assert("c19.update.stored-row.no-null-in-not-null-column", !t.nullInNotNull(st))
		if replacing {
			nd.Assert("c19.update.ignore-replacement.stored-row.no-enforced-check-false", !t.anyFalse(st))
		} else {
			nd.Assert("c19.update.stored-row.no-enforced-check-false", !t.anyFalse(st))
		}
	}
}
