//go:build verif

package rowexec

import (
	"context"
	"errors"

	nd "github.com/dolthub/go-mysql-server/internal/zzverifnd"
	"github.com/dolthub/go-mysql-server/sql"
	"github.com/dolthub/go-mysql-server/sql/plan"
)

// C17 (statement level): START TRANSACTION / COMMIT / ROLLBACK, executed by the
// real BaseBuilder.buildStartTransaction / buildCommit / buildRollback, end and
// begin exactly the transactions they should:
//
//   - COMMIT and ROLLBACK hand the CURRENT transaction to the session exactly once
//     and leave the context WITHOUT a transaction (so the next statement begins a
//     fresh one and takes a fresh snapshot — this is what an autocommit=0 session
//     relies on) and with automatic commits re-enabled;
//   - START TRANSACTION commits an open transaction first, then makes a NEW
//     transaction current and suspends automatic commits;
//   - when the session reports an error nothing else changes.
//
// The session is a double that records the calls and fails on demand.
// (Added after the seeded change /verif/seeded/C17-commit-keeps-transaction —
// buildCommit no longer clearing the context's transaction — was missed: the
// first C17 check covered the in-memory backend's staging only.)

type c17rTx struct{ id int }

func (t *c17rTx) String() string   { return "c17rTx" }
func (t *c17rTx) IsReadOnly() bool { return false }

type c17rCall struct {
	kind int // 0 start, 1 commit, 2 rollback
	tx   *c17rTx
}

type c17rSession struct {
	sql.Session
	cur        sql.Transaction
	ignoreAuto bool
	calls      []c17rCall
	fail       bool // the next Commit / Rollback / Start fails
	started    int
}

func (s *c17rSession) GetTransaction() sql.Transaction   { return s.cur }
func (s *c17rSession) SetTransaction(tx sql.Transaction) { s.cur = tx }
func (s *c17rSession) SetIgnoreAutoCommit(b bool)        { s.ignoreAuto = b }
func (s *c17rSession) GetIgnoreAutoCommit() bool         { return s.ignoreAuto }

var c17rErr = errors.New("c17r: session failure")

func (s *c17rSession) StartTransaction(*sql.Context, sql.TransactionCharacteristic) (sql.Transaction, error) {
	if s.fail {
		return nil, c17rErr
	}
	s.started++
	tx := &c17rTx{id: s.started}
	s.calls = append(s.calls, c17rCall{0, tx})
	return tx, nil
}
func (s *c17rSession) CommitTransaction(_ *sql.Context, tx sql.Transaction) error {
	if s.fail {
		return c17rErr
	}
	t, _ := tx.(*c17rTx)
	s.calls = append(s.calls, c17rCall{1, t})
	return nil
}
func (s *c17rSession) Rollback(_ *sql.Context, tx sql.Transaction) error {
	if s.fail {
		return c17rErr
	}
	t, _ := tx.(*c17rTx)
	s.calls = append(s.calls, c17rCall{2, t})
	return nil
}
func (s *c17rSession) CreateSavepoint(*sql.Context, sql.Transaction, string) error     { return nil }
func (s *c17rSession) RollbackToSavepoint(*sql.Context, sql.Transaction, string) error { return nil }
func (s *c17rSession) ReleaseSavepoint(*sql.Context, sql.Transaction, string) error    { return nil }

func VerifC17TransactionStatements() {
	sess := &c17rSession{}
	ctx := &sql.Context{Context: context.Background(), Session: sess}
	b := &BaseBuilder{}
	// the statement before the history may have left a transaction open (autocommit = 0)
	var cur *c17rTx
	if nd.Pick("c17r.open", 2) == 1 {
		cur = &c17rTx{id: 100}
		sess.cur = cur
	}
	ignore := false
	n := nd.IntRange("c17r.n", 1, nd.Bound(3, 4))
	for i := 0; i < n; i++ {
		tag := "c17r.s" + string(rune('0'+i))
		kind := nd.Pick(tag+".kind", 3)
		sess.fail = nd.Pick(tag+".fail", 2) == 1
		before := len(sess.calls)
		var err error
		switch kind {
		case 0:
			_, err = b.buildStartTransaction(ctx, plan.NewStartTransaction(sql.ReadWrite), nil)
		case 1:
			_, err = b.buildCommit(ctx, plan.NewCommit(), nil)
		default:
			_, err = b.buildRollback(ctx, plan.NewRollback(), nil)
		}
		newCalls := sess.calls[before:]
		switch {
		case kind == 0 && sess.fail:
			// the implicit commit (if a transaction is open) or the start fails: error, nothing changes
			nd.Assert("c17r.start.failure-reported", err != nil)
			nd.Assert("c17r.start.failure-changes-nothing", len(newCalls) == 0 && sess.cur == sql.Transaction(cur) || (cur == nil && sess.cur == nil && len(newCalls) == 0))
		case kind == 0:
			nd.Assert("c17r.start.no-error", err == nil)
			if cur != nil {
				nd.Assert("c17r.start.commits-the-open-transaction-first", len(newCalls) == 2 && newCalls[0].kind == 1 && newCalls[0].tx == cur && newCalls[1].kind == 0)
			} else {
				nd.Assert("c17r.start.only-starts", len(newCalls) == 1 && newCalls[0].kind == 0)
			}
			nt, _ := sess.cur.(*c17rTx)
			nd.Assert("c17r.start.new-transaction-is-current", nt != nil && nt != cur && len(newCalls) > 0 && nt == newCalls[len(newCalls)-1].tx)
			nd.Assert("c17r.start.suspends-autocommit", sess.ignoreAuto)
			cur, ignore = nt, true
		case cur == nil:
			// COMMIT / ROLLBACK without a transaction: nothing to do
			nd.Assert("c17r.end.without-transaction.no-error", err == nil)
			nd.Assert("c17r.end.without-transaction.no-session-call", len(newCalls) == 0 && sess.cur == nil)
		case sess.fail:
			nd.Assert("c17r.end.failure-reported", err != nil)
			nd.Assert("c17r.end.failure-keeps-the-transaction", len(newCalls) == 0 && sess.cur == sql.Transaction(cur) && sess.ignoreAuto == ignore)
		default:
			nd.Assert("c17r.end.no-error", err == nil)
			nd.Assert("c17r.end.current-transaction-handed-over-once", len(newCalls) == 1 && newCalls[0].kind == kind && newCalls[0].tx == cur)
			nd.Assert("c17r.end.no-transaction-left-in-the-context", sess.cur == nil)
			nd.Assert("c17r.end.autocommit-resumes", !sess.ignoreAuto)
			cur, ignore = nil, false
		}
	}
	nd.Reach("c17r.history")
	nd.Observe(len(sess.calls), sess.cur == nil)
}
