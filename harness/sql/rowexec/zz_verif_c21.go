//go:build verif

package rowexec

import (
	"context"
	"strings"

	nd "github.com/dolthub/go-mysql-server/internal/zzverifnd"
	"github.com/dolthub/go-mysql-server/memory"
	"github.com/dolthub/go-mysql-server/sql"
	"github.com/dolthub/go-mysql-server/sql/plan"
	"github.com/dolthub/go-mysql-server/sql/types"
)

// C21 for ALTER TABLE t MODIFY COLUMN e <ENUM or SET type> [FIRST]: the statement as the
// engine executes it below the analyzer,
//
//	BaseBuilder.buildModifyColumn  ->  modifyColumnIter.Next  ->  modifyColumnIter.rewriteTable
//
// on a REAL in-memory table (memory.Database / memory.Table in a memory.Session over a real
// sql.BaseSession), so both outcomes of the decision in rewriteTable are the real code:
//
//	old.IsSubsetOf(new) and no move   in place: memory.Table.ModifyColumn (TypeAwareConversion per row)
//	otherwise                         rewrite: every row read, ENUM index remapped by label
//	                                  (new.IndexOf(old.At(idx))), projectRowWithTypes, memory's rewrite editor
//
// Statement boundaries as the engine sets them: the rows are inserted and committed in one
// transaction, the ALTER runs in the next one, which is committed on success and rolled back
// on error; the state that is checked is what a further transaction of the session reads.
//
// Property (C21): every existing row keeps its value - for ENUM / SET the LABEL(S) the stored
// number denotes under the column's type - when it is representable in the new type; otherwise
// the statement fails without effect.

type c21eFix struct {
	ctx  *sql.Context
	sess *memory.Session
	db   *memory.Database
	tx   sql.Transaction
	bad  bool
}

func (f *c21eFix) begin() {
	tx, err := f.sess.StartTransaction(f.ctx, sql.ReadWrite)
	if err != nil {
		f.bad = true
	}
	f.tx = tx
	f.ctx.SetTransaction(tx)
}

func (f *c21eFix) commit() {
	if err := f.sess.CommitTransaction(f.ctx, f.tx); err != nil {
		f.bad = true
	}
	f.begin()
}

func (f *c21eFix) rollback() {
	if err := f.sess.Rollback(f.ctx, f.tx); err != nil {
		f.bad = true
	}
	f.begin()
}

// c21eFixture: table t (id BIGINT PRIMARY KEY, e <colType> NULL) holding the rows given.
func c21eFixture(colType sql.Type, rows []sql.Row) *c21eFix {
	db := memory.NewDatabase("db")
	sess := memory.NewSession(sql.NewBaseSession(), sql.NewDatabaseProvider(db))
	f := &c21eFix{ctx: sql.NewContext(context.Background(), sql.WithSession(sess)), sess: sess, db: db}
	sch := sql.NewPrimaryKeySchema(sql.Schema{
		{Name: "id", Type: types.Int64, Source: "t", PrimaryKey: true},
		{Name: "e", Type: colType, Source: "t", Nullable: true},
	})
	db.AddTable("t", memory.NewTable(f.ctx, db, "t", sch, db.GetForeignKeyCollection()))
	f.begin()
	tbl, ok, err := db.GetTableInsensitive(f.ctx, "t")
	if !ok || err != nil {
		f.bad = true
		return f
	}
	for _, r := range rows {
		if err := tbl.(*memory.Table).Insert(f.ctx, r); err != nil {
			f.bad = true
		}
	}
	f.commit()
	return f
}

// modify runs ALTER TABLE t MODIFY COLUMN e <newType> NULL [FIRST] and ends the transaction.
func (f *c21eFix) modify(newType sql.Type, first bool) error {
	tbl, ok, err := f.db.GetTableInsensitive(f.ctx, "t")
	if !ok || err != nil {
		f.bad = true
		return err
	}
	var order *sql.ColumnOrder
	if first {
		order = &sql.ColumnOrder{First: true}
	}
	node := plan.NewModifyColumnResolved(plan.NewResolvedTable(tbl, f.db, nil), "e",
		sql.Column{Name: "e", Type: newType, Nullable: true, Source: "t"}, order)
	withSch, err := node.WithTargetSchema(tbl.Schema(f.ctx))
	if err != nil {
		f.bad = true
		return err
	}
	it, err := (&BaseBuilder{}).buildModifyColumn(f.ctx, withSch.(*plan.ModifyColumn), nil)
	if err == nil {
		_, err = it.Next(f.ctx)
		_ = it.Close(f.ctx)
	}
	if err != nil {
		f.rollback()
	} else {
		f.commit()
	}
	return err
}

// c21eState: what the session reads: the column names in order, the type of e, and e's cell per id.
type c21eState struct {
	ok    bool
	cols  []string
	typ   sql.Type
	cells map[int64]interface{}
	n     int
}

func (f *c21eFix) read() c21eState {
	st := c21eState{cells: map[int64]interface{}{}}
	tbl, ok, err := f.db.GetTableInsensitive(f.ctx, "t")
	if !ok || err != nil {
		return st
	}
	sch := tbl.Schema(f.ctx)
	idPos, ePos := -1, -1
	for i, c := range sch {
		st.cols = append(st.cols, c.Name)
		if c.Name == "id" {
			idPos = i
		}
		if c.Name == "e" {
			ePos = i
			st.typ = c.Type
		}
	}
	if idPos < 0 || ePos < 0 || len(sch) != 2 {
		return st
	}
	pi, err := tbl.Partitions(f.ctx)
	if err != nil {
		return st
	}
	rows, err := sql.RowIterToRows(f.ctx, sql.NewTableRowIter(f.ctx, tbl, pi))
	if err != nil {
		return st
	}
	for _, r := range rows {
		if len(r) != 2 {
			return st
		}
		id, isInt := r[idPos].(int64)
		if !isInt {
			return st
		}
		st.cells[id] = r[ePos]
		st.n++
	}
	st.ok = true
	return st
}

func c21eHas(list []string, l string) bool {
	for _, x := range list {
		if x == l {
			return true
		}
	}
	return false
}

// c21eColsAre: the column order is the one after MODIFY e ... [FIRST] (or the original one).
func c21eColsAre(cols []string, first bool) bool {
	if len(cols) != 2 {
		return false
	}
	if first {
		return cols[0] == "e" && cols[1] == "id"
	}
	return cols[0] == "id" && cols[1] == "e"
}

// VerifC21ModifyEnum: old and new ENUM types from the real constructor, lists of distinct labels
// over {a,b,c} (thorough {a,b,c,z}), old of 1..2 (thorough 1..3) labels, new of 1..3 labels, same
// collation. Rows: id i (1..len(old)) holds the member with index i for a selected subset of the
// members, id 0 holds NULL, id -1 holds index 0 (the '' error value an INSERT IGNORE leaves).
// MODIFY in place or with FIRST (for memory tables a move always takes the rewrite path).
func VerifC21ModifyEnum() {
	k := nd.Bound(3, 4)
	oldLabels := types.ZzC21Labels("c21.enum.old", nd.IntRange("c21.enum.old.len", 1, nd.Bound(2, 3)), k)
	oldT := types.MustCreateEnumType(append([]string(nil), oldLabels...), sql.Collation_Default)
	stored := nd.Pick("c21.enum.stored-members", 1<<len(oldLabels))

	rows := []sql.Row{{int64(0), nil}, {int64(-1), uint16(0)}}
	for i := range oldLabels {
		if stored&(1<<i) != 0 {
			rows = append(rows, sql.Row{int64(i + 1), uint16(i + 1)})
		}
	}
	f := c21eFixture(oldT, rows)
	before := f.read()
	nd.Assert("c21.enum.fixture", !f.bad && before.ok && before.n == len(rows))
	if f.bad || !before.ok {
		return
	}

	newLabels := types.ZzC21Labels("c21.enum.new", nd.IntRange("c21.enum.new.len", 1, 3), k)
	newT := types.MustCreateEnumType(append([]string(nil), newLabels...), sql.Collation_Default)
	first := nd.Pick("c21.enum.first", 2) == 1

	err := f.modify(newT, first)
	after := f.read()
	nd.Reach("c21.enum.altered")
	nd.Observe(err == nil, after.ok, after.n)
	nd.Assert("c21.enum.readable-afterwards", !f.bad && after.ok)
	if f.bad || !after.ok {
		return
	}

	// representable: every STORED label is a label of the new type
	representable := true
	for i, l := range oldLabels {
		if stored&(1<<i) != 0 && !c21eHas(newLabels, l) {
			representable = false
		}
	}

	if err != nil {
		// fails only when it must, and without effect
		nd.Assert("c21.enum.fails-only-if-a-stored-label-is-not-representable", !representable)
		nd.Assert("c21.enum.failed-alter.schema-and-row-count-unchanged",
			after.n == before.n && c21eColsAre(after.cols, false) && after.typ != nil && after.typ.Equals(oldT))
		// own class, asserted last: the rows scanned before the one that cannot be represented
		same := true
		for id, c := range before.cells {
			c2, present := after.cells[id]
			same = same && present && c == c2
		}
		nd.Assert("c21.enum.failed-alter.rows-unchanged", same)
		return
	}

	nd.Assert("c21.enum.accepted.schema-is-the-new-one", c21eColsAre(after.cols, first) && after.typ != nil && after.typ.Equals(newT))
	nd.Assert("c21.enum.accepted.row-count", after.n == before.n)
	et, isEnum := after.typ.(sql.EnumType)
	if !isEnum {
		return
	}
	// every row reads back the SAME label as before
	keeps := true
	for id, c := range before.cells {
		c2, present := after.cells[id]
		if !present {
			keeps = false
			continue
		}
		if c == nil {
			keeps = keeps && c2 == nil
			continue
		}
		was, _ := oldT.At(int(c.(uint16)))
		idx, isIdx := c2.(uint16)
		now, valid := et.At(int(idx))
		keeps = keeps && isIdx && valid && now == was && (idx == 0) == (c.(uint16) == 0)
	}
	nd.Assert("c21.enum.accepted.every-row-reads-back-the-same-label", keeps)
	nd.Assert("c21.enum.accepted-only-if-every-stored-label-is-representable", representable)
}

// c21eMembers: the labels a SET value denotes.
func c21eMembers(t sql.SetType, cell interface{}) (members [4]bool, ok bool) {
	bits, isBits := cell.(uint64)
	if !isBits {
		return members, false
	}
	s, err := t.BitsToString(bits)
	if err != nil {
		return members, false
	}
	for i, l := range types.ZzC21Alphabet {
		members[i] = strings.Contains(s, l) // the labels are single distinct letters
	}
	return members, true
}

// VerifC21ModifySet: the same for SET -> SET. Old list of 1..2 labels, new list of 1..3 labels over
// {a,b,c}; the rows hold every value of the old type (id = bit field 0 .. 2^n-1) and NULL (id -1).
// rewriteTable has no SET counterpart of the ENUM remapping, and there is no SetType counterpart of
// IsSubsetOf: the stored bit field goes through SetType.Convert unchanged in both paths.
func VerifC21ModifySet() {
	oldLabels := types.ZzC21Labels("c21.set.old", nd.IntRange("c21.set.old.len", 1, 2), 3)
	oldT := types.MustCreateSetType(append([]string(nil), oldLabels...), sql.Collation_Default)
	rows := []sql.Row{{int64(-1), nil}}
	for m := 0; m < 1<<len(oldLabels); m++ {
		rows = append(rows, sql.Row{int64(m), uint64(m)})
	}
	f := c21eFixture(oldT, rows)
	before := f.read()
	nd.Assert("c21.set.fixture", !f.bad && before.ok && before.n == len(rows))
	if f.bad || !before.ok {
		return
	}

	newLabels := types.ZzC21Labels("c21.set.new", nd.IntRange("c21.set.new.len", 1, 3), 3)
	newT := types.MustCreateSetType(append([]string(nil), newLabels...), sql.Collation_Default)
	first := nd.Pick("c21.set.first", 2) == 1

	err := f.modify(newT, first)
	after := f.read()
	nd.Reach("c21.set.altered")
	nd.Observe(err == nil, after.ok, after.n)
	nd.Assert("c21.set.readable-afterwards", !f.bad && after.ok)
	if f.bad || !after.ok {
		return
	}

	// every label of the old type is stored (the row with all bits), so:
	representable := true
	for _, l := range oldLabels {
		representable = representable && c21eHas(newLabels, l)
	}

	if err != nil {
		nd.Assert("c21.set.fails-only-if-a-stored-label-is-not-representable", !representable)
		same := after.n == before.n && c21eColsAre(after.cols, false) && after.typ != nil && after.typ.Equals(oldT)
		for id, c := range before.cells {
			c2, present := after.cells[id]
			same = same && present && c == c2
		}
		nd.Assert("c21.set.failed-alter.without-effect", same)
		return
	}

	nd.Assert("c21.set.accepted.schema-is-the-new-one", c21eColsAre(after.cols, first) && after.typ != nil && after.typ.Equals(newT))
	nd.Assert("c21.set.accepted.row-count", after.n == before.n)
	st, isSet := after.typ.(sql.SetType)
	if !isSet {
		return
	}
	keeps := true
	for id, c := range before.cells {
		c2, present := after.cells[id]
		if !present {
			keeps = false
			continue
		}
		if c == nil {
			keeps = keeps && c2 == nil
			continue
		}
		was, ok1 := c21eMembers(oldT, c)
		now, ok2 := c21eMembers(st, c2)
		keeps = keeps && ok1 && ok2 && was == now
	}
	nd.Assert("c21.set.accepted.every-row-reads-back-the-same-members", keeps)
	nd.Assert("c21.set.accepted-only-if-every-stored-label-is-representable", representable)
}
