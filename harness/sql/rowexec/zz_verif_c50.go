//go:build verif

package rowexec

import (
	"context"
	"io"
	"os"
	"strings"

	nd "github.com/dolthub/go-mysql-server/internal/zzverifnd"
	"github.com/dolthub/go-mysql-server/sql"
	"github.com/dolthub/go-mysql-server/sql/expression"
	"github.com/dolthub/go-mysql-server/sql/plan"
	"github.com/dolthub/go-mysql-server/sql/types"
)

// C50: rows written by SELECT ... INTO OUTFILE and read back by LOAD DATA with
// the same options reproduce the original rows.
//
// The real BaseBuilder.buildInto writes a plan.Values child to a file (the
// executor's in-memory file model; natively a private temporary file), the
// file content is handed to the real BaseBuilder.buildLoadData through the
// LOAD DATA LOCAL service callback, and the real loadDataIter.Next parses it
// (bufio.Scanner with the node's SplitLines, parseFields).
//
// The input space is split into disjoint CLASSES by the first special thing a
// value contains; each class has its own assert id, so a class in which the
// round trip is broken does not hide the others:
//
//	plain        no cell contains a byte with a meaning in the file format
//	escape       a cell contains the ESCAPED BY character
//	enclosure    (else) a cell contains the ENCLOSED BY character
//	field-term   (else) a cell contains the first FIELDS TERMINATED BY character
//	line-term    (else) a cell contains the LINES TERMINATED BY character
//	null-word    (else) a cell is the four letters NULL
//
// With FIELDS ESCAPED BY '' MySQL itself does not promise a round trip for
// values containing special characters: only the plain class is asserted then.

// c50Vars: the two global variables the code reads.
type c50Vars struct{ sql.SystemVariableRegistry }

func (c50Vars) GetGlobal(name string) (sql.SystemVariable, interface{}, bool) {
	switch name {
	case "secure_file_priv":
		return nil, "", true
	case "local_infile":
		return nil, int8(1), true
	}
	return nil, nil, false
}

type c50Session struct{ sql.Session }

type c50Opts struct {
	fieldTerm, enclosedBy, escapedBy, lineTerm, lineStart string
	encOpt                                                bool
}

var c50Configs = []c50Opts{
	{fieldTerm: "\t", enclosedBy: "", escapedBy: "\\", lineTerm: "\n"},                   // the defaults
	{fieldTerm: ",", enclosedBy: "\"", escapedBy: "\\", lineTerm: "\n"},                  // CSV
	{fieldTerm: ",", enclosedBy: "\"", escapedBy: "", lineTerm: "\n"},                    // CSV, no escape character
	{fieldTerm: ";", enclosedBy: "'", escapedBy: "!", lineTerm: "\r\n"},                  // unusual characters, 2-byte line end
	{fieldTerm: "||", enclosedBy: "", escapedBy: "\\", lineTerm: "\n"},                   // 2-byte field separator
	{fieldTerm: ",", enclosedBy: "\"", escapedBy: "\\", lineTerm: "\n", lineStart: ">>"}, // line prefix
}

// c50Cell: NULL, the word NULL, or a string of 0..maxLen symbolic bytes.
func c50Cell(name string, maxLen int) (interface{}, bool) {
	switch k := nd.Pick(name+".kind", maxLen+3); k {
	case 0:
		return nil, false
	case 1:
		return "NULL", true
	default:
		return nd.String(name+".s", k-2), false
	}
}

func c50Contains(s string, c byte) bool {
	r := false
	for i := 0; i < len(s); i++ {
		r = nd.Or(r, s[i] == c)
	}
	return r
}

func c50RoundTrip(id string, cfgs []c50Opts, nrows, ncols, maxLen int) {
	o := cfgs[nd.Pick(id+".cfg", len(cfgs))]
	// the rows
	rows := make([]sql.Row, nrows)
	tuples := make([][]sql.Expression, nrows)
	anyEsc, anyEnc, anyFT, anyLT, anyNullWord := false, false, false, false, false
	for r := 0; r < nrows; r++ {
		rows[r] = make(sql.Row, ncols)
		tuples[r] = make([]sql.Expression, ncols)
		for c := 0; c < ncols; c++ {
			v, nullWord := c50Cell(id+".r"+string(rune('0'+r))+"c"+string(rune('0'+c)), maxLen)
			rows[r][c] = v
			tuples[r][c] = expression.NewLiteral(v, types.LongText)
			anyNullWord = anyNullWord || nullWord
			if s, ok := v.(string); ok && !nullWord {
				if o.escapedBy != "" {
					anyEsc = nd.Or(anyEsc, c50Contains(s, o.escapedBy[0]))
				}
				if o.enclosedBy != "" {
					anyEnc = nd.Or(anyEnc, c50Contains(s, o.enclosedBy[0]))
				}
				anyFT = nd.Or(anyFT, c50Contains(s, o.fieldTerm[0]))
				for i := 0; i < len(o.lineTerm); i++ {
					anyLT = nd.Or(anyLT, c50Contains(s, o.lineTerm[i]))
				}
				if o.lineStart != "" {
					// a value containing the prefix text is ambiguous for every reader: keep it out
					nd.Assume(!c50Contains(s, o.lineStart[0]))
				}
			}
		}
	}

	old := sql.SystemVariables
	sql.SystemVariables = c50Vars{}
	defer func() { sql.SystemVariables = old }()

	path := nd.TempPath(id)
	defer os.Remove(path)
	var content []byte
	ctx := sql.NewContext(context.Background(), sql.WithSession(c50Session{}), sql.WithServices(sql.Services{
		LoadInfile: func(string) (io.ReadCloser, error) { return io.NopCloser(strings.NewReader(string(content))), nil },
	}))
	b := &BaseBuilder{}

	// SELECT ... INTO OUTFILE
	into := plan.NewInto(plan.NewValues(tuples), nil, path, "")
	into.FieldsTerminatedBy, into.FieldsEnclosedBy, into.FieldsEnclosedByOpt = o.fieldTerm, o.enclosedBy, o.encOpt
	into.FieldsEscapedBy, into.LinesTerminatedBy, into.LinesStartingBy = o.escapedBy, o.lineTerm, o.lineStart
	it, err := b.buildInto(ctx, into, nil)
	nd.Assert(id+".outfile.no-error", err == nil)
	if err != nil {
		return
	}
	_, _ = it.Next(ctx)
	content, err = os.ReadFile(path)
	nd.Assert(id+".outfile.file-written", err == nil)
	if err != nil {
		return
	}
	nd.Observe(content)

	// LOAD DATA LOCAL INFILE with the same options
	sch := make(sql.Schema, ncols)
	for c := range sch {
		sch[c] = &sql.Column{Name: "c" + string(rune('0'+c)), Type: types.LongText, Source: "t", Nullable: true}
	}
	ld := plan.NewLoadData(true, path, sch, nil, make([]sql.Expression, ncols), 0, "")
	ld.FieldsTerminatedBy, ld.FieldsEnclosedBy, ld.FieldsEnclosedByOpt = o.fieldTerm, o.enclosedBy, o.encOpt
	ld.FieldsEscapedBy, ld.LinesTerminatedBy, ld.LinesStartingBy = o.escapedBy, o.lineTerm, o.lineStart
	lit, err := b.buildLoadData(ctx, ld, nil)
	nd.Assert(id+".load.opens", err == nil)
	if err != nil {
		return
	}
	same := true
	n := 0
	for ; n <= nrows; n++ {
		row, err := lit.Next(ctx)
		if err != nil {
			same = same && err == io.EOF
			break
		}
		if n >= nrows || len(row) != ncols {
			same = false
			break
		}
		for c := 0; c < ncols; c++ {
			want, got := rows[n][c], row[c]
			if want == nil || got == nil {
				same = same && want == nil && got == nil
				continue
			}
			gs, ok := got.(string)
			same = nd.And(same, nd.And(ok, gs == want.(string)))
		}
	}
	same = nd.And(same, n == nrows)
	nd.Reach(id + ".round-trip")
	nd.Observe(n, same)

	special := o.escapedBy != ""
	plain := !anyNullWord && !nd.Or(nd.Or(anyEsc, anyEnc), nd.Or(anyFT, anyLT))
	nd.Assert(id+".plain-values.reproduced", nd.Implies(plain, same))
	if !special {
		return
	}
	nd.Assert(id+".value-contains-escape-character.reproduced", nd.Implies(anyEsc, same))
	nd.Assert(id+".value-contains-enclosure-character.reproduced", nd.Implies(nd.And(!anyEsc, anyEnc), same))
	rest := nd.And(!anyEsc, !anyEnc)
	nd.Assert(id+".value-contains-field-terminator.reproduced", nd.Implies(nd.And(rest, anyFT), same))
	rest = nd.And(rest, !anyFT)
	nd.Assert(id+".value-contains-line-terminator.reproduced", nd.Implies(nd.And(rest, anyLT), same))
	rest = nd.And(rest, !anyLT)
	nd.Assert(id+".value-is-the-word-NULL.reproduced", nd.Implies(nd.And(rest, anyNullWord), same))
}

// One row, two columns, every configuration.
func VerifC50OneRow() {
	c50RoundTrip("c50.one", c50Configs, 1, 2, nd.Bound(1, 2))
}

// Two rows (line splitting), two columns, the default and the CSV configuration.
func VerifC50TwoRows() {
	c50RoundTrip("c50.two", c50Configs[:2], 2, 2, 1)
}
