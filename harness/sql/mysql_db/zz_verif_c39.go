//go:build verif

package mysql_db

import (
	nd "github.com/dolthub/go-mysql-server/internal/zzverifnd"
	"github.com/dolthub/go-mysql-server/sql"
)

// C39 at the level of the privilege hierarchy: PrivilegeSet (global / database /
// table / routine levels) against a bit-matrix model, and the decision function
// MySQLDb.UserHasPrivileges run on a harness-built PrivilegeSet.
//
// Domain: privileges {Select, Insert, Execute}, databases {a, b}, tables {t, u},
// one routine "p" (a procedure) per database. All selectors are concrete
// (nd.Pick): the harnesses are exhaustive comparisons with the model.

var c39Privs = [3]sql.PrivilegeType{sql.PrivilegeType_Select, sql.PrivilegeType_Insert, sql.PrivilegeType_Execute}
var c39Dbs = [2]string{"a", "b"}
var c39Tbls = [2]string{"t", "u"}

const c39Routine = "p"

// c39Model: which privilege is granted at which level. Levels are independent
// sets (a GRANT / REVOKE at one level touches only that level).
type c39Model struct {
	g [3]bool       // global
	d [2][3]bool    // database
	t [2][2][3]bool // table
	r [2][3]bool    // routine p of the database

	// Set when an operation at DATABASE level also dropped table- or
	// routine-level privileges of that database (input classes with their own
	// assertion ids, asserted last; the model then follows the code so that all
	// other assertions stay meaningful on those paths):
	lostByClearDatabase bool // ClearDatabase dropped the whole database entry
}

func (m *c39Model) anyBelowDb(d int) bool {
	any := false
	for p := range c39Privs {
		any = any || m.r[d][p]
		for t := range c39Tbls {
			any = any || m.t[d][t][p]
		}
	}
	return any
}

func (m *c39Model) wipeBelowDb(d int) {
	m.t[d] = [2][3]bool{}
	m.r[d] = [3]bool{}
}

func (m *c39Model) dbLevelEmpty(d int) bool {
	return !m.d[d][0] && !m.d[d][1] && !m.d[d][2]
}

func (m *c39Model) union(o *c39Model) {
	for p := range c39Privs {
		m.g[p] = m.g[p] || o.g[p]
		for d := range c39Dbs {
			m.d[d][p] = m.d[d][p] || o.d[d][p]
			m.r[d][p] = m.r[d][p] || o.r[d][p]
			for t := range c39Tbls {
				m.t[d][t][p] = m.t[d][t][p] || o.t[d][t][p]
			}
		}
	}
}

const c39OpKinds = 12

// c39Domain: how many operation kinds / privileges / databases / tables the
// selectors of one operation range over (prefixes of the arrays above).
type c39Domain struct{ kinds, nprivs, ndbs, ntbls int }

var c39Full = c39Domain{c39OpKinds, 3, 2, 2} // 63 operations
var c39Grants = c39Domain{4, 3, 2, 2}        // 27 operations (adds only)

// c39Apply picks one operation and applies it to the real set and to the model.
//
//	0..3  Add    global / database / table / routine
//	4..7  Remove global / database / table / routine
//	8..11 Clear  global / database / table / routine
func c39Apply(ps *PrivilegeSet, m *c39Model, tag string, dom c39Domain) {
	kinds, nprivs, ndbs, ntbls := dom.kinds, dom.nprivs, dom.ndbs, dom.ntbls
	kind := nd.Pick("kind"+tag, kinds)
	level := kind % 4
	p, d, t := 0, 0, 0
	if kind < 8 {
		p = nd.Pick("priv"+tag, nprivs)
	}
	if level >= 1 {
		d = nd.Pick("db"+tag, ndbs)
	}
	if level == 2 {
		t = nd.Pick("tbl"+tag, ntbls)
	}
	priv, db, tbl := c39Privs[p], c39Dbs[d], c39Tbls[t]
	switch kind {
	case 0:
		ps.AddGlobalStatic(priv)
		m.g[p] = true
	case 1:
		ps.AddDatabase(db, priv)
		m.d[d][p] = true
	case 2:
		ps.AddTable(db, tbl, priv)
		m.t[d][t][p] = true
	case 3:
		ps.AddRoutine(db, c39Routine, true, priv)
		m.r[d][p] = true
	case 4:
		ps.RemoveGlobalStatic(priv)
		m.g[p] = false
	case 5:
		ps.RemoveDatabase(db, priv)
		m.d[d][p] = false
	case 6:
		ps.RemoveTable(db, tbl, priv)
		m.t[d][t][p] = false
	case 7:
		ps.RemoveRoutine(db, c39Routine, true, priv)
		m.r[d][p] = false
	case 8:
		ps.ClearGlobal()
		m.g = [3]bool{}
	case 9:
		ps.ClearDatabase(db)
		m.d[d] = [3]bool{}
		// observed behaviour of ClearDatabase (privilege_set.go:296): the
		// database entry is deleted, and with it the table and routine levels.
		if m.anyBelowDb(d) {
			m.lostByClearDatabase = true
			m.wipeBelowDb(d)
		}
	case 10:
		ps.ClearTable(db, tbl)
		m.t[d][t] = [3]bool{}
	default:
		ps.ClearRoutine(db, c39Routine, true)
		m.r[d] = [3]bool{}
	}
}

// c39Check: a privilege is reported at a level iff the model has it there.
func c39Check(id string, ps PrivilegeSet, m *c39Model) {
	okG, okD, okT, okR, okKind := true, true, true, true, true
	anyAt := false
	var dbHas [2]bool
	for p, priv := range c39Privs {
		okG = okG && ps.Has(priv) == m.g[p]
		anyAt = anyAt || m.g[p]
		for d, db := range c39Dbs {
			dbSet := ps.Database(db)
			okD = okD && dbSet.Has(priv) == m.d[d][p]
			okR = okR && dbSet.Routine(c39Routine, true).Has(priv) == m.r[d][p]
			// a FUNCTION named p is a different object and was never granted
			okKind = okKind && !dbSet.Routine(c39Routine, false).Has(priv)
			dbHas[d] = dbHas[d] || m.d[d][p] || m.r[d][p]
			for t, tbl := range c39Tbls {
				okT = okT && dbSet.Table(tbl).Has(priv) == m.t[d][t][p]
				dbHas[d] = dbHas[d] || m.t[d][t][p]
			}
		}
	}
	nd.Assert(id+".global.has-iff-granted", okG)
	nd.Assert(id+".database.has-iff-granted", okD)
	nd.Assert(id+".table.has-iff-granted", okT)
	nd.Assert(id+".routine.has-iff-granted", okR)
	nd.Assert(id+".routine.function-and-procedure-distinct", okKind)
	// Has with several privileges = all of them
	nd.Assert(id+".global.has-all", ps.Has(c39Privs[0], c39Privs[2]) == (m.g[0] && m.g[2]))
	nd.Assert(id+".database.has-all", ps.Database("a").Has(c39Privs[0], c39Privs[1]) == (m.d[0][0] && m.d[0][1]))
	nd.Assert(id+".table.has-all", ps.Database("b").Table("u").Has(c39Privs[1], c39Privs[2]) == (m.t[1][1][1] && m.t[1][1][2]))
	// counts and summaries
	cnt := func(b [3]bool) int {
		n := 0
		for _, x := range b {
			if x {
				n++
			}
		}
		return n
	}
	nd.Assert(id+".global.count", ps.Count() == cnt(m.g))
	nd.Assert(id+".database.count", ps.Database("a").Count() == cnt(m.d[0]) && ps.Database("b").Count() == cnt(m.d[1]))
	nd.Assert(id+".has-privileges-iff-any", ps.HasPrivileges() == (anyAt || dbHas[0] || dbHas[1]))
	// GetDatabases lists exactly the databases holding a privilege at any level, by name
	dbs := ps.GetDatabases()
	want := 0
	for d := range c39Dbs {
		if dbHas[d] {
			want++
		}
	}
	listed := len(dbs) == want
	if listed {
		k := 0
		for d := range c39Dbs {
			if dbHas[d] {
				listed = listed && dbs[k].Name() == c39Dbs[d]
				k++
			}
		}
	}
	nd.Assert(id+".get-databases", listed)
}

// c39History: every history of n operations over the domain; the set is
// compared with the model after the last operation (every prefix is a history
// of its own), the class findings last.
func c39History(id string, n int, dom c39Domain) {
	ps := NewPrivilegeSet()
	m := &c39Model{}
	for k := 0; k < n; k++ {
		c39Apply(&ps, m, string(rune('0'+k)), dom)
	}
	nd.Reach(id)
	c39Check(id, ps, m)
	// one id per input class, shared by the history harnesses
	nd.Assert("c39.clear-database.keeps-table-and-routine-privileges", !m.lostByClearDatabase)
}

// VerifC39Ops2: every history of 1..2 operations over the full domain (63
// operations per step): in particular "revoke removes exactly that level's
// bit and nothing else" for every pair (grant X, revoke/clear Y).
func VerifC39Ops2() {
	c39History("c39.ops2", nd.IntRange("n", 1, 2), c39Full)
}

// VerifC39Ops3: every history of exactly 3 operations; quick tier over
// privileges {Select, Insert}, databases {a, b}, table {t} (35 operations per
// step), thorough over the full domain.
func VerifC39Ops3() {
	dom := c39Domain{c39OpKinds, 2, 2, 1}
	if nd.Tier() == 1 {
		dom = c39Full
	}
	c39History("c39.ops3", 3, dom)
}

// VerifC39Ops4: every history of exactly 4 operations over privilege
// {Select}, table {t}, procedure p and database {a} (12 operations per step;
// thorough: databases {a, b}, 21 per step).
func VerifC39Ops4() {
	c39History("c39.ops4", 4, c39Domain{c39OpKinds, 1, nd.Bound(1, 2), 1})
}

// VerifC39Union: two sets built by grants only (revokes are covered above):
// (0..1, 1..2) operations (thorough: up to 3 together); UnionWith = set union
// per level, the argument is unchanged, Copy is an independent equal set.
func VerifC39Union() {
	a, b := NewPrivilegeSet(), NewPrivilegeSet()
	ma, mb := &c39Model{}, &c39Model{}
	na, nb := nd.IntRange("na", 0, nd.Bound(1, 2)), nd.IntRange("nb", 1, 2)
	if na+nb > 3 {
		nd.Assume(false)
	}
	for k := 0; k < na; k++ {
		c39Apply(&a, ma, "a"+string(rune('0'+k)), c39Grants)
	}
	for k := 0; k < nb; k++ {
		c39Apply(&b, mb, "b"+string(rune('0'+k)), c39Grants)
	}
	cp := a.Copy()
	mcp := *ma
	nd.Assert("c39.union.copy-equals", cp.Equals(a) && a.Equals(cp))
	a.UnionWith(b)
	nd.Reach("c39.union")
	ma.union(mb)
	c39Check("c39.union.result", a, ma)
	c39Check("c39.union.argument-unchanged", b, mb)
	c39Check("c39.union.copy-independent", cp, &mcp)
	// the union does not share state with its argument: revoking everything
	// from the argument afterwards leaves the union as it was
	b.ClearGlobal()
	for _, db := range c39Dbs {
		for _, priv := range c39Privs {
			b.RemoveDatabase(db, priv)
			b.RemoveRoutine(db, c39Routine, true, priv)
			for _, tbl := range c39Tbls {
				b.RemoveTable(db, tbl, priv)
			}
		}
	}
	c39Check("c39.union.no-aliasing", a, ma)
}

// ---- the decision function ------------------------------------------------------

// c39Session: the session of the user whose privileges are checked. MySQLDb
// caches the user's active privilege set in the session together with the
// database's update counter (UserActivePrivilegeSet); the double returns the
// harness-built set with the current counter, so the user-table lookup and the
// role union are not run.
type c39Session struct {
	sql.Session
	ps PrivilegeSet
	db string
}

func (s *c39Session) GetPrivilegeSet() (sql.PrivilegeSet, uint64) { return s.ps, 0 }
func (s *c39Session) GetCurrentDatabase() string                  { return s.db }

func c39Db(enabled bool) *MySQLDb {
	db := &MySQLDb{}
	db.enabled.Store(enabled)
	return db
}

// c39Allowed: the model's decision for one required privilege on (d, t?, r?).
func c39Allowed(m *c39Model, p, d, t int, routine bool) bool {
	ok := m.g[p] || m.d[d][p]
	if t >= 0 {
		ok = ok || m.t[d][t][p]
	}
	if routine {
		ok = ok || m.r[d][p]
	}
	return ok
}

// VerifC39Decision: a privilege set built by 1..2 operations (thorough 3), then
// EVERY operation of the domain is put to UserHasPrivileges: allowed iff the
// required privilege is in the set at global, database, table or routine level
// of the object named by the operation.
func VerifC39Decision() {
	ps := NewPrivilegeSet()
	m := &c39Model{}
	n := nd.IntRange("n", 1, nd.Bound(2, 3))
	for k := 0; k < n; k++ {
		c39Apply(&ps, m, string(rune('0'+k)), c39Full)
	}
	db := c39Db(true)
	ctx := &sql.Context{Session: &c39Session{ps: ps, db: "b"}}
	okDb, okTbl, okRoutine, okCur, okBoth := true, true, true, true, true
	for p, priv := range c39Privs {
		for d, dbName := range c39Dbs {
			// database-level object
			got := db.UserHasPrivileges(ctx, sql.PrivilegedOperation{Database: dbName, StaticPrivileges: []sql.PrivilegeType{priv}})
			okDb = okDb && got == c39Allowed(m, p, d, -1, false)
			// routine
			got = db.UserHasPrivileges(ctx, sql.PrivilegedOperation{Database: dbName, Routine: c39Routine, IsProcedure: true, StaticPrivileges: []sql.PrivilegeType{priv}})
			okRoutine = okRoutine && got == c39Allowed(m, p, d, -1, true)
			// a function of the same name is not the granted procedure
			got = db.UserHasPrivileges(ctx, sql.PrivilegedOperation{Database: dbName, Routine: c39Routine, IsProcedure: false, StaticPrivileges: []sql.PrivilegeType{priv}})
			okRoutine = okRoutine && got == c39Allowed(m, p, d, -1, false)
			for t, tbl := range c39Tbls {
				got = db.UserHasPrivileges(ctx, sql.PrivilegedOperation{Database: dbName, Table: tbl, StaticPrivileges: []sql.PrivilegeType{priv}})
				okTbl = okTbl && got == c39Allowed(m, p, d, t, false)
			}
		}
		// no database named: the session's current database (b)
		got := db.UserHasPrivileges(ctx, sql.PrivilegedOperation{Table: "t", StaticPrivileges: []sql.PrivilegeType{priv}})
		okCur = okCur && got == c39Allowed(m, p, 1, 0, false)
	}
	// several privileges / several operations: all are required
	s, i := c39Allowed(m, 0, 0, 0, false), c39Allowed(m, 1, 0, 0, false)
	e := c39Allowed(m, 2, 1, -1, true)
	got := db.UserHasPrivileges(ctx, sql.PrivilegedOperation{Database: "a", Table: "t", StaticPrivileges: []sql.PrivilegeType{c39Privs[0], c39Privs[1]}})
	okBoth = okBoth && got == (s && i)
	got = db.UserHasPrivileges(ctx,
		sql.PrivilegedOperation{Database: "a", Table: "t", StaticPrivileges: []sql.PrivilegeType{c39Privs[0]}},
		sql.PrivilegedOperation{Database: "b", Routine: c39Routine, IsProcedure: true, StaticPrivileges: []sql.PrivilegeType{c39Privs[2]}})
	okBoth = okBoth && got == (s && e)
	nd.Reach("c39.decision")
	nd.Assert("c39.decision.database-object", okDb)
	nd.Assert("c39.decision.table-object", okTbl)
	nd.Assert("c39.decision.routine-object", okRoutine)
	nd.Assert("c39.decision.current-database", okCur)
	nd.Assert("c39.decision.all-required", okBoth)
	nd.Assert("c39.decision.no-operation-is-allowed", db.UserHasPrivileges(ctx))
}

// VerifC39DecisionOverrides: SUPER at global level allows everything; with
// user accounts disabled everything is allowed; SUPER at database level does
// not.
func VerifC39DecisionOverrides() {
	ps := NewPrivilegeSet()
	where := nd.Pick("super", 3) // 0 nowhere, 1 global, 2 database a
	enabled := nd.Pick("enabled", 2) == 1
	switch where {
	case 1:
		ps.AddGlobalStatic(sql.PrivilegeType_Super)
	case 2:
		ps.AddDatabase("a", sql.PrivilegeType_Super)
	}
	db := c39Db(enabled)
	ctx := &sql.Context{Session: &c39Session{ps: ps, db: "a"}}
	got := db.UserHasPrivileges(ctx, sql.PrivilegedOperation{Database: "a", Table: "t", StaticPrivileges: []sql.PrivilegeType{sql.PrivilegeType_Select}})
	nd.Reach("c39.overrides")
	nd.Assert("c39.overrides.allowed-iff-super-or-disabled", got == (where == 1 || !enabled))
	gotDyn := db.UserHasPrivileges(ctx, sql.PrivilegedOperation{DynamicPrivileges: []string{"replication_slave_admin"}})
	nd.Assert("c39.overrides.dynamic-allowed-iff-super-or-disabled", gotDyn == (where == 1 || !enabled))
}
