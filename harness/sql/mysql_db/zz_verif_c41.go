//go:build verif

package mysql_db

import (
	"strings"
	"time"

	flatbuffers "github.com/dolthub/flatbuffers/v23/go"

	nd "github.com/dolthub/go-mysql-server/internal/zzverifnd"
	"github.com/dolthub/go-mysql-server/sql"
	"github.com/dolthub/go-mysql-server/sql/mysql_db/serial"
)

// C41: persisting the accounts, roles and grants and loading them again yields
// the same access-control state.
//
// The state is built directly (PrivilegeSet.Add*, struct literals), written
// with the REAL serializer (serializePrivilegeSet / MySQLDb.Persist, through
// the FlatBuffers builder interpreted from source) and read back with the REAL
// loader (loadPrivilegeSet / OverwriteUsersAndGrantData / LoadUser /
// LoadRoleEdge / LoadReplicaSourceInfo). The oracle is the state before the
// round trip: every query of the domain must give the same answer afterwards.
//
// Object names compare case-insensitively in this engine (PrivilegeSet.Database,
// PrivilegeSetDatabase.Table / Routine, PrivilegeSetTable.Column lower-case the
// name they are asked for; GRANT hands the name over as the user spelled it),
// so the name domain has one lower-case and one mixed-case name per level, and
// every query is put in the granted spelling and in the swapped-case spelling.

var c41Privs = [3]sql.PrivilegeType{sql.PrivilegeType_Select, sql.PrivilegeType_Execute, sql.PrivilegeType_DropRole} // ids 0, 18, 30 (lowest, highest)
var c41Dbs = [2]string{"a", "Bd"}
var c41Tbls = [2]string{"t", "Tu"}
var c41Cols = [2]string{"c", "Cx"}

type c41Rt struct {
	name string
	proc bool
}

var c41Rts = [3]c41Rt{{"p", true}, {"p", false}, {"Fn", false}}
var c41Dyn = [2]string{"binlog_admin", "Replication_Slave_Admin"}

// c41Swap: the same name in the other case (ASCII).
func c41Swap(s string) string {
	b := []byte(s)
	for i, c := range b {
		if c >= 'a' && c <= 'z' {
			b[i] = c - 32
		} else if c >= 'A' && c <= 'Z' {
			b[i] = c + 32
		}
	}
	return string(b)
}

// c41IsLower: the name has no upper-case letter.
func c41IsLower(s string) bool {
	for i := 0; i < len(s); i++ {
		if s[i] >= 'A' && s[i] <= 'Z' {
			return false
		}
	}
	return true
}

// c41Domain: prefixes of the arrays above that one operation ranges over.
type c41Domain struct{ nprivs, ndbs, ntbls, ncols, nrts, ndyn int }

var c41Full = c41Domain{3, 2, 2, 2, 3, 2} // 65 grants

// c41Grant picks one grant and applies it to the set:
//
//	0 global static, 1 global dynamic (WITH GRANT OPTION flag symbolic),
//	2 database, 3 table, 4 column, 5 routine
//
// The grants of one state are picked with strictly increasing codes (grants
// commute and are idempotent: a state is a SET of grants); after is the code of
// the previous grant (-1 for the first), the new code is returned. used records
// which privileges of c41Privs were granted anywhere.
func c41Grant(ps *PrivilegeSet, tag string, dom c41Domain, after int, used *[3]bool) int {
	kind := nd.Pick("c41kind"+tag, 6)
	if kind*1000 < after/1000*1000 {
		nd.Assume(false)
	}
	p, d, t := 0, 0, 0
	if kind != 1 {
		p = nd.Pick("c41priv"+tag, dom.nprivs)
	}
	if kind >= 2 {
		d = nd.Pick("c41db"+tag, dom.ndbs)
	}
	if kind == 3 || kind == 4 {
		t = nd.Pick("c41tbl"+tag, dom.ntbls)
	}
	priv, db, tbl := c41Privs[p], c41Dbs[d], c41Tbls[t]
	c, r, n := 0, 0, 0
	switch kind {
	case 1:
		n = nd.Pick("c41dyn"+tag, dom.ndyn)
	case 4:
		c = nd.Pick("c41col"+tag, dom.ncols)
	case 5:
		r = nd.Pick("c41rt"+tag, dom.nrts)
	}
	code := kind*1000 + p*100 + d*50 + t*20 + c*10 + r*3 + n
	if code <= after {
		nd.Assume(false)
	}
	if kind != 1 {
		used[p] = true
	}
	switch kind {
	case 0:
		ps.AddGlobalStatic(priv)
	case 1:
		ps.AddGlobalDynamic(nd.Bool("c41wgo"+tag), c41Dyn[n])
	case 2:
		ps.AddDatabase(db, priv)
	case 3:
		ps.AddTable(db, tbl, priv)
	case 4:
		ps.AddColumn(db, tbl, c41Cols[c], priv)
	default:
		ps.AddRoutine(db, c41Rts[r].name, c41Rts[r].proc, priv)
	}
	return code
}

// c41Revoke picks one revocation (it may hit nothing); used to reach states
// with emptied entries, which the serializer skips.
//
//	0 RemoveGlobalStatic 1 RemoveGlobalDynamic 2 RemoveDatabase 3 RemoveTable
//	4 RemoveColumn 5 RemoveRoutine 6 ClearTable 7 ClearColumn 8 ClearRoutine
func c41Revoke(ps *PrivilegeSet, tag string, dom c41Domain) {
	kind := nd.Pick("c41rkind"+tag, 9)
	p, d, t := 0, 0, 0
	if kind != 1 && kind < 6 {
		p = nd.Pick("c41rpriv"+tag, dom.nprivs)
	}
	if kind >= 2 {
		d = nd.Pick("c41rdb"+tag, dom.ndbs)
	}
	if kind == 3 || kind == 4 || kind == 6 || kind == 7 {
		t = nd.Pick("c41rtbl"+tag, dom.ntbls)
	}
	priv, db, tbl := c41Privs[p], c41Dbs[d], c41Tbls[t]
	switch kind {
	case 0:
		ps.RemoveGlobalStatic(priv)
	case 1:
		ps.RemoveGlobalDynamic(strings.ToLower(c41Dyn[nd.Pick("c41rdyn"+tag, dom.ndyn)]))
	case 2:
		ps.RemoveDatabase(db, priv)
	case 3:
		ps.RemoveTable(db, tbl, priv)
	case 4:
		ps.RemoveColumn(db, tbl, c41Cols[nd.Pick("c41rcol"+tag, dom.ncols)], priv)
	case 5:
		r := nd.Pick("c41rrt"+tag, dom.nrts)
		ps.RemoveRoutine(db, c41Rts[r].name, c41Rts[r].proc, priv)
	case 6:
		ps.ClearTable(db, tbl)
	case 7:
		ps.ClearColumn(db, tbl, c41Cols[nd.Pick("c41rcol"+tag, dom.ncols)])
	default:
		r := nd.Pick("c41rrt"+tag, dom.nrts)
		ps.ClearRoutine(db, c41Rts[r].name, c41Rts[r].proc)
	}
}

// c41RoundTripPS: the privilege set through the real serializer and the real
// loader, as the root table of a buffer of its own.
func c41RoundTripPS(ps *PrivilegeSet) PrivilegeSet {
	b := flatbuffers.NewBuilder(0)
	b.Finish(serializePrivilegeSet(b, ps))
	buf := b.FinishedBytes()
	return *loadPrivilegeSet(serial.GetRootAsPrivilegeSet(buf, 0))
}

// c41Lost: input classes in which the reloaded set answers differently
// (each asserted LAST under its own id; the expectation of all other
// assertions follows the code on these inputs so that they stay meaningful).
//
// Class "mixed-case name": the loader files every database / table / column /
// routine under its name as spelled in the GRANT (mysql_db_load.go:49,75,85,105)
// while every lookup lower-cases the name asked for (privilege_set.go:236,460,
// 501,685): after a reload an object whose spelling has an upper-case letter is
// never found again, with everything below it.
type c41Lost struct{ db, tbl, col, rt bool }

func c41SamePrivs(x, y []sql.PrivilegeType) bool {
	if len(x) != len(y) {
		return false
	}
	for i := range x {
		if x[i] != y[i] {
			return false
		}
	}
	return true
}

// c41SameListing: what SHOW GRANTS reads (rowexec/show.go: ToSlice,
// GetDatabases, GetTables, GetRoutines) plus the column listing: same objects
// by name in the same order with the same privilege lists.
func c41SameListing(a, b PrivilegeSet) bool {
	if !c41SamePrivs(a.ToSlice(), b.ToSlice()) {
		return false
	}
	da, db := a.GetDatabases(), b.GetDatabases()
	if len(da) != len(db) {
		return false
	}
	for i := range da {
		if da[i].Name() != db[i].Name() || !c41SamePrivs(da[i].ToSlice(), db[i].ToSlice()) {
			return false
		}
		ta, tb := da[i].GetTables(), db[i].GetTables()
		if len(ta) != len(tb) {
			return false
		}
		for j := range ta {
			if ta[j].Name() != tb[j].Name() || !c41SamePrivs(ta[j].ToSlice(), tb[j].ToSlice()) {
				return false
			}
			ca, cb := ta[j].GetColumns(), tb[j].GetColumns()
			if len(ca) != len(cb) {
				return false
			}
			for k := range ca {
				if ca[k].Name() != cb[k].Name() || !c41SamePrivs(ca[k].ToSlice(), cb[k].ToSlice()) {
					return false
				}
			}
		}
		ra, rb := da[i].GetRoutines(), db[i].GetRoutines()
		if len(ra) != len(rb) {
			return false
		}
		for j := range ra {
			if ra[j].RoutineName() != rb[j].RoutineName() || ra[j].RoutineType() != rb[j].RoutineType() ||
				!c41SamePrivs(ra[j].ToSlice(), rb[j].ToSlice()) {
				return false
			}
		}
	}
	return true
}

// c41Session: the session of the user whose privileges are checked. With
// counter 0 (= the update counter of a MySQLDb literal) UserActivePrivilegeSet
// takes the set from the session; with a real MySQLDb (counter >= 1) it looks
// the user up by Client() and stores the computed set back.
type c41Session struct {
	sql.Session
	ps     sql.PrivilegeSet
	db     string
	client sql.Client
}

func (s *c41Session) GetPrivilegeSet() (sql.PrivilegeSet, uint64)   { return s.ps, 0 }
func (s *c41Session) SetPrivilegeSet(ps sql.PrivilegeSet, c uint64) {}
func (s *c41Session) GetCurrentDatabase() string                    { return s.db }
func (s *c41Session) Client() sql.Client                            { return s.client }

func c41One(p sql.PrivilegeType) []sql.PrivilegeType { return []sql.PrivilegeType{p} }

// c41ComparePS: every query of the domain on the original set a and on the
// reloaded set b.
func c41ComparePS(id string, a, b PrivilegeSet, lost *c41Lost) {
	okG, okDyn, okD, okT, okC, okR := true, true, true, true, true, true
	okWgo := true
	for _, priv := range c41Privs {
		okG = okG && a.Has(priv) == b.Has(priv)
	}
	okG = okG && a.Count() == b.Count()
	for _, name := range c41Dyn {
		okDyn = okDyn && a.HasDynamic(name) == b.HasDynamic(name) && a.HasDynamic(c41Swap(name)) == b.HasDynamic(c41Swap(name))
		wa, ina := a.globalDynamic[strings.ToLower(name)]
		wb, inb := b.globalDynamic[strings.ToLower(name)]
		okDyn = okDyn && ina == inb
		okWgo = nd.And(okWgo, wa == wb) // the flags are symbolic
	}
	okDyn = okDyn && len(a.globalDynamic) == len(b.globalDynamic)
	for _, dbStored := range c41Dbs {
		reachD := true           // (before the repair of the loader: only lower-case spellings were found again)
		for v := 0; v < 2; v++ { // v=1: every name of the query in the other case
			sp := func(s string) string {
				if v == 1 {
					return c41Swap(s)
				}
				return s
			}
			da, db := a.Database(sp(dbStored)), b.Database(sp(dbStored))
			for _, priv := range c41Privs {
				x := da.Has(priv)
				lost.db = lost.db || (x && !reachD)
				okD = okD && db.Has(priv) == (x && reachD)
			}
			for _, tblStored := range c41Tbls {
				reachT := reachD
				ta, tb := da.Table(sp(tblStored)), db.Table(sp(tblStored))
				for _, priv := range c41Privs {
					x := ta.Has(priv)
					lost.db = lost.db || (x && !reachD)
					lost.tbl = lost.tbl || (x && reachD && !reachT)
					okT = okT && tb.Has(priv) == (x && reachT)
				}
				for _, colStored := range c41Cols {
					reachC := reachT
					ca, cb := ta.Column(sp(colStored)), tb.Column(sp(colStored))
					for _, priv := range c41Privs {
						x := ca.Has(priv)
						lost.db = lost.db || (x && !reachD)
						lost.tbl = lost.tbl || (x && reachD && !reachT)
						lost.col = lost.col || (x && reachT && !reachC)
						okC = okC && cb.Has(priv) == (x && reachC)
					}
				}
			}
			for _, rt := range c41Rts {
				reachR := reachD
				ra, rb := da.Routine(sp(rt.name), rt.proc), db.Routine(sp(rt.name), rt.proc)
				for _, priv := range c41Privs {
					x := ra.Has(priv)
					lost.db = lost.db || (x && !reachD)
					lost.rt = lost.rt || (x && reachD && !reachR)
					okR = okR && rb.Has(priv) == (x && reachR)
				}
			}
		}
	}
	nd.Assert(id+".global-static.same", okG)
	nd.Assert(id+".global-dynamic.same", okDyn)
	nd.Assert(id+".global-dynamic.grant-option-flag.same", okWgo)
	nd.Assert(id+".database.same", okD)
	nd.Assert(id+".table.same", okT)
	nd.Assert(id+".column.same", okC)
	nd.Assert(id+".routine.same", okR)
	nd.Assert(id+".has-privileges.same", a.HasPrivileges() == b.HasPrivileges())
	nd.Assert(id+".show-grants-listing.same", c41SameListing(a, b))
}

// c41Levels: the hierarchy read through the level API: the privilege is held
// at global / database / table / routine level of the named object.
func c41Levels(ps PrivilegeSet, priv sql.PrivilegeType, db, tbl, rt string, proc bool) (g, d, t, r bool) {
	dbSet := ps.Database(db)
	return ps.Has(priv), dbSet.Has(priv), tbl != "" && dbSet.Table(tbl).Has(priv), rt != "" && dbSet.Routine(rt, proc).Has(priv)
}

// c41CompareDecisions: UserHasPrivileges for the user holding a resp. b, for
// every single-privilege operation of the domain (database, table, procedure /
// function objects, in both spellings; current-database default), two
// privileges at once and a dynamic privilege.
//
// Swept for the privileges in used (those granted at some level); for the
// others c41ComparePS has already shown that neither set holds them anywhere.
func c41CompareDecisions(id string, a, b PrivilegeSet, used [3]bool) {
	mdb := &MySQLDb{}
	mdb.enabled.Store(true)
	ctxA := &sql.Context{Session: &c41Session{ps: a, db: "a"}}
	ctxB := &sql.Context{Session: &c41Session{ps: b, db: "a"}}
	okBefore, okAfter := true, true
	one := func(op sql.PrivilegedOperation, dbStored, tblStored, rtStored string) {
		priv := op.StaticPrivileges[0]
		dbq := op.Database
		if dbq == "" {
			dbq = "a"
		}
		g, d, t, r := c41Levels(a, priv, dbq, op.Table, op.Routine, op.IsProcedure)
		okBefore = okBefore && mdb.UserHasPrivileges(ctxA, op) == (g || d || t || r)
		reachD := true // (before the repair of the loader: only lower-case spellings were found again)
		want := g || (d && reachD) || (t && reachD) || (r && reachD)
		okAfter = okAfter && mdb.UserHasPrivileges(ctxB, op) == want
	}
	for p, priv := range c41Privs {
		if !used[p] {
			continue
		}
		for _, dbStored := range c41Dbs {
			for v := 0; v < 2; v++ {
				sp := func(s string) string {
					if v == 1 {
						return c41Swap(s)
					}
					return s
				}
				one(sql.PrivilegedOperation{Database: sp(dbStored), StaticPrivileges: c41One(priv)}, dbStored, "", "")
				for _, tbl := range c41Tbls {
					one(sql.PrivilegedOperation{Database: sp(dbStored), Table: sp(tbl), StaticPrivileges: c41One(priv)}, dbStored, tbl, "")
				}
				for _, rt := range c41Rts {
					one(sql.PrivilegedOperation{Database: sp(dbStored), Routine: sp(rt.name), IsProcedure: rt.proc, StaticPrivileges: c41One(priv)}, dbStored, "", rt.name)
				}
			}
		}
		one(sql.PrivilegedOperation{Table: "t", StaticPrivileges: c41One(priv)}, "a", "t", "")
	}
	nd.Assert(id+".decision.original-follows-hierarchy", okBefore)
	nd.Assert(id+".decision.same", okAfter)
	// several privileges at once on objects with lower-case names, and a dynamic privilege
	both := sql.PrivilegedOperation{Database: "a", Table: "t", StaticPrivileges: []sql.PrivilegeType{c41Privs[0], c41Privs[1]}}
	nd.Assert(id+".decision.two-privileges.same", mdb.UserHasPrivileges(ctxA, both) == mdb.UserHasPrivileges(ctxB, both))
	for _, name := range c41Dyn {
		dyn := sql.PrivilegedOperation{DynamicPrivileges: []string{name}}
		nd.Assert(id+".decision.dynamic.same", mdb.UserHasPrivileges(ctxA, dyn) == mdb.UserHasPrivileges(ctxB, dyn))
	}
}

func c41AssertLost(lost *c41Lost) {
	nd.Assert("c41.mixed-case-database-name.found-after-reload", !lost.db)
	nd.Assert("c41.mixed-case-table-name.found-after-reload", !lost.tbl)
	nd.Assert("c41.mixed-case-column-name.found-after-reload", !lost.col)
	nd.Assert("c41.mixed-case-routine-name.found-after-reload", !lost.rt)
}

func c41PrivSetHistory(id string, n int, dom c41Domain) {
	ps := NewPrivilegeSet()
	var used [3]bool
	code := -1
	for k := 0; k < n; k++ {
		code = c41Grant(&ps, string(rune('0'+k)), dom, code, &used)
	}
	got := c41RoundTripPS(&ps)
	nd.Reach(id)
	lost := &c41Lost{}
	c41ComparePS(id, ps, got, lost)
	c41CompareDecisions(id, ps, got, used)
	// grants only: no emptied entries, so the reloaded set is Equal as well,
	// unless a name is filed under another key (class above)
	if !lost.db && !lost.tbl && !lost.col && !lost.rt {
		nd.Assert(id+".equals", ps.Equals(got) && got.Equals(ps))
	}
	c41AssertLost(lost)
}

// VerifC41PrivSet2: every set of 0..2 grants of the full domain (65 grants:
// 2146 sets), through serializePrivilegeSet / loadPrivilegeSet.
func VerifC41PrivSet2() {
	c41PrivSetHistory("c41.privset2", nd.IntRange("c41n", 0, 2), c41Full)
}

// VerifC41PrivSet3: every set of exactly 3 grants; quick: privilege {Select},
// one dynamic privilege (23 grants: 1771 sets); thorough: privileges {Select,
// Execute} (44 grants: 13244 sets).
func VerifC41PrivSet3() {
	dom := c41Domain{nd.Bound(1, 2), 2, 2, 2, 3, 1}
	c41PrivSetHistory("c41.privset3", 3, dom)
}

// VerifC41PrivSet4 (thorough only): every set of exactly 4 grants over
// privilege {Select} and one dynamic privilege (23 grants: 8855 sets).
func VerifC41PrivSet4() {
	c41PrivSetHistory("c41.privset4", 4, c41Domain{1, 2, 2, 2, 3, 1})
}

// VerifC41PrivSetEmptied: 2 grants then 1 revocation (Remove* / Clear* at any
// level): the set may hold emptied entries (a table entry without privileges,
// a database holding only such a table, ...) which the serializer skips. The
// answers and the decisions stay the same; Equals is not asserted (it counts
// the emptied entries).
func VerifC41PrivSetEmptied() {
	dom := c41Domain{1, nd.Bound(1, 2), 2, 2, 3, 1}
	ps := NewPrivilegeSet()
	var used [3]bool
	code := c41Grant(&ps, "0", dom, -1, &used)
	c41Grant(&ps, "1", dom, code, &used)
	c41Revoke(&ps, "2", dom)
	got := c41RoundTripPS(&ps)
	nd.Reach("c41.emptied")
	lost := &c41Lost{}
	c41ComparePS("c41.emptied", ps, got, lost)
	c41CompareDecisions("c41.emptied", ps, got, used)
	c41AssertLost(lost)
}

// ---- role edges and replica source info through Persist -------------------------

type c41Capture struct{ data []byte }

func (p *c41Capture) Persist(ctx *sql.Context, data []byte) error {
	p.data = append([]byte(nil), data...)
	return nil
}

// c41NewDb: what CreateEmptyMySQLDb builds, minus the auth server and the help
// tables, and with the write lock standing in for lock.RLocker() (the executor
// has no (*sync.RWMutex).RLocker; locks are no-ops single-threaded).
func c41NewDb() *MySQLDb {
	db := &MySQLDb{}
	lock := &db.lock
	userSet, userTable := NewUserIndexedSetTable(lock, lock)
	db.user = userTable
	db.role_edges = NewRoleEdgesIndexedSetTable(lock, lock)
	db.replica_source_info = NewReplicaSourceInfoIndexedSetTable(lock, lock)
	db.db = NewUserDBIndexedSetTable(userSet, lock, lock)
	db.tables_priv = NewUserTablesIndexedSetTable(userSet, lock, lock)
	db.procs_priv = NewUserProcsIndexedSetTable(userSet, lock, lock)
	db.global_grants = NewUserGlobalGrantsIndexedSetTable(userSet, lock, lock)
	db.updateCounter.Store(1)
	return db
}

// c41Reload: Persist of db (the real MySQLDb.Persist with a persister that
// keeps the bytes), then OverwriteUsersAndGrantData of the bytes into a fresh
// MySQLDb. (LoadData runs the same LoadUser / LoadRoleEdge loops but first
// probes the bytes with encoding/json, which the executor does not run.)
func c41Reload(id string, db *MySQLDb) (*MySQLDb, []byte) {
	cap := &c41Capture{}
	db.SetPersister(cap)
	ed := db.Editor()
	err := db.Persist(nil, ed)
	ed.Close()
	nd.Assert(id+".persist.no-error", err == nil && len(cap.data) > 0)
	fresh := c41NewDb()
	ed2 := fresh.Editor()
	err = fresh.OverwriteUsersAndGrantData(nil, ed2, cap.data)
	ed2.Close()
	nd.Assert(id+".load.no-error", err == nil)
	return fresh, cap.data
}

func c41Edges(db *MySQLDb) []*RoleEdge {
	var out []*RoleEdge
	rd := db.Reader()
	rd.VisitRoleEdges(func(e *RoleEdge) { out = append(out, e) })
	rd.Close()
	return out
}

// VerifC41RoleEdges: 1..2 role edges with symbolic names (from / to user and
// host, 0..2 symbolic bytes each for the first edge; the second edge differs
// from the first in a symbolic to-user) and symbolic WITH ADMIN OPTION flags,
// no accounts: Persist -> OverwriteUsersAndGrantData. The reloaded role_edges
// table holds exactly the same edges, found under the same keys.
func VerifC41RoleEdges() {
	db := c41NewDb()
	n := nd.IntRange("c41ren", 1, 2)
	l := nd.IntRange("c41relen", 0, 2)
	e0 := &RoleEdge{
		FromHost:        nd.String("c41refh", l),
		FromUser:        nd.String("c41refu", l),
		ToHost:          nd.String("c41reth", l),
		ToUser:          nd.String("c41retu", l),
		WithAdminOption: nd.Bool("c41rewao0"),
	}
	edges := []*RoleEdge{e0}
	if n == 2 {
		e1 := &RoleEdge{FromHost: e0.FromHost, FromUser: e0.FromUser, ToHost: e0.ToHost, ToUser: nd.String("c41retu1", 1), WithAdminOption: nd.Bool("c41rewao1")}
		nd.Assume(e1.ToUser != e0.ToUser)
		edges = append(edges, e1)
	}
	ed := db.Editor()
	for _, e := range edges {
		ed.PutRoleEdge(e)
	}
	ed.Close()
	fresh, _ := c41Reload("c41.roles", db)
	nd.Reach("c41.roles")
	got := c41Edges(fresh)
	nd.Assert("c41.roles.count.same", len(got) == len(edges))
	// every original edge is found under its primary key, its to-key and its from-key
	okPk, okTo, okFrom := true, true, true
	admin := true
	rd := fresh.Reader()
	for _, e := range edges {
		byPk := rd.roleEdges.GetMany(RoleEdgePrimaryKeyer{}, RoleEdgesPrimaryKey{FromHost: e.FromHost, FromUser: e.FromUser, ToHost: e.ToHost, ToUser: e.ToUser})
		okPk = okPk && len(byPk) == 1
		if len(byPk) == 1 {
			g := byPk[0]
			okPk = okPk && g.FromHost == e.FromHost && g.FromUser == e.FromUser && g.ToHost == e.ToHost && g.ToUser == e.ToUser
			admin = nd.And(admin, g.WithAdminOption == e.WithAdminOption)
		}
		byTo := rd.GetToUserRoleEdges(RoleEdgesToKey{ToHost: e.ToHost, ToUser: e.ToUser})
		okTo = okTo && len(byTo) == 1
		byFrom := rd.roleEdges.GetMany(RoleEdgeFromKeyer{}, RoleEdgesFromKey{FromHost: e.FromHost, FromUser: e.FromUser})
		okFrom = okFrom && len(byFrom) == len(edges)
	}
	rd.Close()
	nd.Assert("c41.roles.edge.same", okPk)
	nd.Assert("c41.roles.edge.found-by-grantee", okTo)
	nd.Assert("c41.roles.edge.found-by-role", okFrom)
	// class of its own (asserted last): LoadRoleEdge does not read with_admin_option
	nd.Assert("c41.roles.with-admin-option.same", admin)
}

// VerifC41ReplicaSource: the replica source info record (symbolic strings of
// 0..2 bytes, full-range port / retry interval / retry count): Persist, then
// LoadReplicaSourceInfo of the persisted record (the loop body of LoadData;
// OverwriteUsersAndGrantData does not restore this table).
func VerifC41ReplicaSource() {
	db := c41NewDb()
	l := nd.IntRange("c41rslen", 0, 2)
	in := &ReplicaSourceInfo{
		Host:                 nd.String("c41rsh", l),
		User:                 nd.String("c41rsu", l),
		Password:             nd.String("c41rsp", l),
		Uuid:                 nd.String("c41rsid", l),
		ConnectRetryCount:    nd.Uint64("c41rscnt"),
		ConnectRetryInterval: nd.Uint32("c41rsint"),
		Port:                 nd.Uint16("c41rsport"),
	}
	ed := db.Editor()
	ed.PutReplicaSourceInfo(in)
	ed.Close()
	_, buf := c41Reload("c41.replica", db)
	root := serial.GetRootAsMySQLDb(buf, 0)
	nd.Assert("c41.replica.count.same", root.ReplicaSourceInfoLength() == 1)
	rec := new(serial.ReplicaSourceInfo)
	nd.Assert("c41.replica.present", root.ReplicaSourceInfo(rec, 0))
	got := LoadReplicaSourceInfo(rec)
	nd.Reach("c41.replica")
	nd.Assert("c41.replica.strings.same", got.Host == in.Host && got.User == in.User && got.Password == in.Password && got.Uuid == in.Uuid)
	nd.Assert("c41.replica.numbers.same", nd.And(got.Port == in.Port, nd.And(got.ConnectRetryInterval == in.ConnectRetryInterval, got.ConnectRetryCount == in.ConnectRetryCount)))
}

// ---- accounts, roles and grants through Persist --------------------------------

// c41Small: the lower-case part of the domain (database a, table t, column c,
// procedure / function p, privileges Select / Execute, one dynamic privilege):
// 15 grants. The mixed-case classes are covered by the PrivSet harnesses.
var c41Small = c41Domain{2, 1, 1, 1, 2, 1}

func c41FindUser(db *MySQLDb, user, host string) (*User, bool) {
	rd := db.Reader()
	u, ok := rd.GetUser(UserPrimaryKey{Host: host, User: user})
	rd.Close()
	return u, ok
}

// c41SameUserFields: every persisted field of the account except the privilege
// set (compared by c41ComparePS).
func c41SameUserFields(a, b *User) bool {
	ok := a.User == b.User && a.Host == b.Host && a.Plugin == b.Plugin && a.AuthString == b.AuthString &&
		a.Identity == b.Identity && a.SslType == b.SslType && a.SslCipher == b.SslCipher &&
		a.X509Issuer == b.X509Issuer && a.X509Subject == b.X509Subject
	ok = ok && (a.Attributes == nil) == (b.Attributes == nil)
	if ok && a.Attributes != nil {
		ok = *a.Attributes == *b.Attributes
	}
	return ok
}

// c41Decisions: the allow / deny answers of UserHasPrivileges for the client
// (user, address) on db: the real lookup (GetUser, role edges, union of the
// roles' sets), for the operations of c41Small.
func c41Decisions(db *MySQLDb, user, address string) [11]bool {
	ctx := &sql.Context{Session: &c41Session{db: "a", client: sql.Client{User: user, Address: address}}}
	var out [11]bool
	k := 0
	for p := 0; p < 2; p++ {
		pr := c41One(c41Privs[p])
		out[k] = db.UserHasPrivileges(ctx, sql.PrivilegedOperation{Database: "a", StaticPrivileges: pr})
		out[k+1] = db.UserHasPrivileges(ctx, sql.PrivilegedOperation{Database: "a", Table: "t", StaticPrivileges: pr})
		out[k+2] = db.UserHasPrivileges(ctx, sql.PrivilegedOperation{Database: "a", Routine: "p", IsProcedure: true, StaticPrivileges: pr})
		out[k+3] = db.UserHasPrivileges(ctx, sql.PrivilegedOperation{Database: "a", Routine: "p", IsProcedure: false, StaticPrivileges: pr})
		out[k+4] = db.UserHasPrivileges(ctx, sql.PrivilegedOperation{Database: "zz", Table: "t", StaticPrivileges: pr})
		k += 5
	}
	out[k] = db.UserHasPrivileges(ctx, sql.PrivilegedOperation{DynamicPrivileges: []string{c41Dyn[0]}})
	return out
}

// VerifC41Accounts: an access-control state of 1..3 accounts in one of six
// shapes, through MySQLDb.Persist and OverwriteUsersAndGrantData into a fresh
// MySQLDb:
//
//	0 one account                       3 account + ephemeral superuser (not persisted, by contract)
//	1 two accounts u@localhost, v@%     4 account + role + edge role -> account
//	2 account + superuser               5 two accounts + role + edges to both
//
// The first account is u@localhost (thorough: also the anonymous account at
// localhost) with symbolic plugin / auth string / identity / ssl_type / ssl_cipher / x509 issuer / subject (0..1 bytes, auth
// string 2), symbolic attributes (nil or 1 byte), symbolic locked flag and
// password_last_changed (any whole second), and a privilege set of 1 grant
// (thorough 1..2) of c41Small; the other accounts are fixed and all different.
func VerifC41Accounts() {
	shape := nd.Pick("c41shape", 6)
	l := nd.IntRange("c41ulen", 0, 1)
	ps0 := NewPrivilegeSet()
	var used [3]bool
	code := c41Grant(&ps0, "0", c41Small, -1, &used)
	if nd.Tier() == 1 && nd.Pick("c41two", 2) == 1 {
		c41Grant(&ps0, "1", c41Small, code, &used)
	}
	sec := nd.Int64("c41sec")
	// account names are map keys and sort keys: concrete (thorough: also the
	// anonymous account); the byte-transparency of strings is covered by the
	// other fields, which go through the same CreateString / ByteVector code
	name := "u"
	if nd.Tier() == 1 && nd.Pick("c41uname", 2) == 1 {
		name = ""
	}
	u0 := &User{
		User:                name,
		Host:                "localhost",
		PrivilegeSet:        ps0,
		Plugin:              nd.String("c41uplug", l),
		AuthString:          nd.String("c41uauth", 2),
		Identity:            nd.String("c41uident", l),
		SslType:             nd.String("c41ussl", l),
		SslCipher:           nd.String("c41ucipher", l),
		X509Issuer:          nd.String("c41uissuer", l),
		X509Subject:         nd.String("c41usubject", l),
		Locked:              nd.Bool("c41ulocked"),
		PasswordLastChanged: time.Unix(sec, 0),
	}
	// quick: (empty strings, no attributes) or (1-byte strings, attributes); thorough: all four
	withAttr := l == 1
	if nd.Tier() == 1 {
		withAttr = nd.Pick("c41uattr", 2) == 1
	}
	if withAttr {
		attr := nd.String("c41uattrs", 1)
		u0.Attributes = &attr
	}

	ps1 := NewPrivilegeSet()
	ps1.AddDatabase("a", sql.PrivilegeType_DropRole)
	ps1.AddTable("a", "t", sql.PrivilegeType_Select)
	empty := ""
	u1 := &User{User: "v", Host: "%", PrivilegeSet: ps1, Plugin: "mysql_native_password", AuthString: "*AB", Attributes: &empty, PasswordLastChanged: time.Unix(1, 0)}
	psR := NewPrivilegeSet()
	psR.AddGlobalStatic(sql.PrivilegeType_Execute)
	psR.AddRoutine("a", "p", false, sql.PrivilegeType_Select)
	psR.AddGlobalDynamic(true, c41Dyn[0])
	role := &User{User: "R", Host: "%", PrivilegeSet: psR, Plugin: "mysql_native_password", Locked: true, IsRole: true, PasswordLastChanged: time.Unix(-5, 0)}
	psS := NewPrivilegeSetWithAllPrivileges()
	super := &User{User: "s", Host: "localhost", PrivilegeSet: psS, Plugin: "mysql_native_password", IsSuperUser: true, IsEphemeral: shape == 3, PasswordLastChanged: time.Unix(7, 0)}

	users := []*User{u0}
	var edges []*RoleEdge
	switch shape {
	case 1:
		users = append(users, u1)
	case 2, 3:
		users = append(users, super)
	case 4:
		users = append(users, role)
		edges = append(edges, &RoleEdge{FromHost: "%", FromUser: "R", ToHost: "localhost", ToUser: u0.User, WithAdminOption: nd.Bool("c41uwao")})
	case 5:
		users = append(users, u1, role)
		edges = append(edges, &RoleEdge{FromHost: "%", FromUser: "R", ToHost: "localhost", ToUser: u0.User, WithAdminOption: nd.Bool("c41uwao")},
			&RoleEdge{FromHost: "%", FromUser: "R", ToHost: "%", ToUser: "v"})
	}
	db := c41NewDb()
	db.SetEnabled(true)
	ed := db.Editor()
	for _, u := range users {
		ed.PutUser(u)
	}
	for _, e := range edges {
		ed.PutRoleEdge(e)
	}
	ed.Close()

	fresh, _ := c41Reload("c41.accounts", db)
	fresh.SetEnabled(true) // LoadData does this; OverwriteUsersAndGrantData is run on an enabled server
	nd.Reach("c41.accounts")

	// the same set of accounts (name, host)
	count := 0
	rd := fresh.Reader()
	rd.VisitUsers(func(*User) { count++ })
	rd.Close()
	want := len(users)
	if shape == 3 {
		want-- // the ephemeral account
	}
	nd.Assert("c41.accounts.count.same", count == want)
	okFound, okFields, okLocked, okTime, okEquals, okSuper := true, true, true, true, true, true
	lost := &c41Lost{}
	for _, u := range users {
		g, found := c41FindUser(fresh, u.User, u.Host)
		if u.IsEphemeral {
			nd.Assert("c41.accounts.ephemeral-not-persisted", !found)
			continue
		}
		okFound = okFound && found
		if !found {
			continue
		}
		okFields = okFields && c41SameUserFields(u, g)
		okLocked = nd.And(okLocked, u.Locked == g.Locked)
		okTime = nd.And(okTime, nd.And(u.PasswordLastChanged.Unix() == g.PasswordLastChanged.Unix(), u.PasswordLastChanged.Equal(g.PasswordLastChanged)))
		okSuper = okSuper && u.IsSuperUser == g.IsSuperUser && !g.IsEphemeral
		okEquals = okEquals && UserEquals(u, g) && UserEquals(g, u)
	}
	nd.Assert("c41.accounts.found-by-name-and-host", okFound)
	nd.Assert("c41.accounts.fields.same", okFields)
	nd.Assert("c41.accounts.locked.same", okLocked)
	nd.Assert("c41.accounts.password-last-changed.same", okTime)
	nd.Assert("c41.accounts.superuser-flag.same", okSuper)
	for i, u := range users {
		if g, found := c41FindUser(fresh, u.User, u.Host); found {
			c41ComparePS("c41.accounts.privileges"+string(rune('0'+i)), u.PrivilegeSet, g.PrivilegeSet, lost)
		}
	}
	nd.Assert("c41.accounts.user-equals", okEquals)

	// the same decisions for every client, through the real lookup and role union
	nd.Assert("c41.accounts.decision.first-account.same", c41Decisions(db, u0.User, "localhost") == c41Decisions(fresh, u0.User, "localhost"))
	nd.Assert("c41.accounts.decision.second-account.same", c41Decisions(db, "v", "h9") == c41Decisions(fresh, "v", "h9"))
	nd.Assert("c41.accounts.decision.unknown-client.same", c41Decisions(db, "w", "h9") == c41Decisions(fresh, "w", "h9"))
	if shape == 2 {
		nd.Assert("c41.accounts.decision.superuser.same", c41Decisions(db, "s", "localhost") == c41Decisions(fresh, "s", "localhost"))
	}

	// role edges
	okEdge, admin := true, true
	rd = fresh.Reader()
	n := 0
	rd.VisitRoleEdges(func(*RoleEdge) { n++ })
	for _, e := range edges {
		byTo := rd.GetToUserRoleEdges(RoleEdgesToKey{ToHost: e.ToHost, ToUser: e.ToUser})
		okEdge = okEdge && len(byTo) == 1
		if len(byTo) == 1 {
			okEdge = okEdge && byTo[0].FromHost == e.FromHost && byTo[0].FromUser == e.FromUser
			admin = nd.And(admin, byTo[0].WithAdminOption == e.WithAdminOption)
		}
	}
	rd.Close()
	nd.Assert("c41.accounts.role-edges.same", okEdge && n == len(edges))
	c41AssertLost(lost)
	// class of its own (asserted last): LoadRoleEdge does not read with_admin_option
	nd.Assert("c41.roles.with-admin-option.same", admin)
}
