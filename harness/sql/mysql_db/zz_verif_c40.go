//go:build verif

package mysql_db

import (
	"crypto/sha1"

	nd "github.com/dolthub/go-mysql-server/internal/zzverifnd"
)

// C40: the native-password verifier.
//
// SHA-1 is an uninterpreted function in the executor (functional consistency
// only), so what is decided is the PROTOCOL arithmetic around it: lengths,
// hex decoding of the stored hash, the XOR unmasking, the final comparison —
// and crash-freedom for every auth-response length.

const c40hex = "0123456789ABCDEF"

// c40Stored renders "*" + uppercase hex of a 20-byte hash (what
// mysql_native_password stores); lower selects lowercase digits per nibble.
func c40Stored(h []byte, star bool) string {
	out := make([]byte, 0, 41)
	if star {
		out = append(out, '*')
	}
	for _, b := range h {
		out = append(out, c40hex[b>>4], c40hex[b&15])
	}
	return string(out)
}

// VerifC40NoCrash: an auth response of any of the lengths 0,1,2,19,20,21,24
// (thorough: every length 0..24), any 20-byte salt, a well-formed stored hash:
// the verifier returns — it does not panic — and a response whose length is
// not the 20 bytes of a SHA-1 scramble is rejected.
func VerifC40NoCrash() {
	var nr int
	if nd.Tier() == 1 {
		nr = nd.IntRange("nr", 0, 24)
	} else {
		nr = [...]int{0, 1, 2, 19, 20, 21, 24}[nd.Pick("nrSel", 7)]
	}
	resp := nd.Bytes("resp", nr)
	salt := nd.Bytes("salt", 20)
	stored := c40Stored(nd.Bytes("h", 20), nd.Bool("star"))
	ok := validateMysqlNativePassword(resp, salt, stored)
	nd.Reach("c40.nocrash")
	if nr < 20 {
		// fewer bytes than a SHA-1 scramble can never prove knowledge of the password
		nd.Assert("c40.short-response-rejected", !ok)
	}
}

// VerifC40Malformed: a 20-byte response against a stored string that is not
// "*" + 40 hex digits (0..3 arbitrary bytes, or 41 arbitrary bytes of which at
// least one after the first is not a hex digit): no crash, and rejected.
func VerifC40Malformed() {
	resp := nd.Bytes("resp", 20)
	salt := nd.Bytes("salt", 20)
	var stored string
	if nd.Pick("storedShape", 2) == 0 {
		stored = nd.String("s", nd.IntRange("ns", 0, 3))
	} else {
		stored = nd.String("s41", 41)
		bad := false
		for i := 1; i < 41; i++ {
			c := stored[i]
			isHex := nd.Or(nd.And(c >= '0', c <= '9'), nd.Or(nd.And(c >= 'a', c <= 'f'), nd.And(c >= 'A', c <= 'F')))
			bad = nd.Or(bad, !isHex)
		}
		nd.Assume(bad)
	}
	ok := validateMysqlNativePassword(resp, salt, stored)
	nd.Reach("c40.malformed")
	if len(stored) != 40 && len(stored) != 41 {
		// fewer than 20 decoded bytes can never equal a SHA-1 value
		nd.Assert("c40.short-stored-rejected", !ok)
	} else {
		nd.Assert("c40.non-hex-stored-rejected", !ok)
	}
}

// VerifC40Complete: the response the client algorithm computes from the right
// password, SHA1(p) XOR SHA1(salt ‖ SHA1(SHA1(p))), is accepted.
func VerifC40Complete() {
	pw := nd.Bytes("pw", nd.IntRange("npw", 0, 3))
	salt := nd.Bytes("salt", 20)
	s1 := sha1.Sum(pw)
	s2 := sha1.Sum(s1[:])
	h := sha1.New()
	h.Write(salt)
	h.Write(s2[:])
	mask := h.Sum(nil)
	resp := make([]byte, 20)
	for i := range resp {
		resp[i] = s1[i] ^ mask[i]
	}
	ok := validateMysqlNativePassword(resp, salt, c40Stored(s2[:], nd.Bool("star")))
	nd.Reach("c40.complete")
	nd.Assert("c40.valid-accepted", ok)
}

// VerifC40Overlong: the valid 20-byte scramble followed by 1..4 extra bytes is
// a malformed credential and must be rejected (the response of
// mysql_native_password is exactly the 20 bytes of a SHA-1 value).
func VerifC40Overlong() {
	pw := nd.Bytes("pw", nd.IntRange("npw", 0, 2))
	salt := nd.Bytes("salt", 20)
	s1 := sha1.Sum(pw)
	s2 := sha1.Sum(s1[:])
	h := sha1.New()
	h.Write(salt)
	h.Write(s2[:])
	mask := h.Sum(nil)
	extra := nd.IntRange("extra", 1, 4)
	resp := make([]byte, 20, 20+extra)
	for i := range resp {
		resp[i] = s1[i] ^ mask[i]
	}
	resp = append(resp, nd.Bytes("tail", extra)...)
	ok := validateMysqlNativePassword(resp, salt, c40Stored(s2[:], true))
	nd.Reach("c40.overlong")
	nd.Assert("c40.overlong-response-rejected", !ok)
}

// VerifC40WrongHash: with the stored hash different from SHA1(SHA1(p)) in at
// least one byte, the same response is rejected (given SHA-1 collision-free on
// the explored pre-images).
func VerifC40WrongHash() {
	pw := nd.Bytes("pw", 2)
	salt := nd.Bytes("salt", 20)
	s1 := sha1.Sum(pw)
	s2 := sha1.Sum(s1[:])
	other := nd.Bytes("other", 20)
	differs := false
	for i := range other {
		differs = nd.Or(differs, other[i] != s2[i])
	}
	nd.Assume(differs)
	h := sha1.New()
	h.Write(salt)
	h.Write(other)
	mask := h.Sum(nil)
	resp := make([]byte, 20)
	for i := range resp {
		resp[i] = s1[i] ^ mask[i]
	}
	// resp is what a client knowing p would send if the server's stored hash were `other`
	// but the account really stores `other` != SHA1(SHA1(p)): must be rejected
	ok := validateMysqlNativePassword(resp, salt, c40Stored(other, true))
	nd.Reach("c40.wronghash")
	nd.Assert("c40.wrong-password-rejected", !ok)
}

// Account host patterns: matchesHostPattern(host, pattern) holds exactly when
// the WHOLE host matches the pattern with '%' standing for any (possibly empty)
// sequence and every other character for itself. The real function builds a
// regular expression (regexp.QuoteMeta, ReplaceAll, anchors) and matches it with
// package regexp, both interpreted from source. Hosts and patterns are drawn
// from concrete alphabets by selectors (a symbolic subject through the regexp
// machines costs minutes per query — measured), so this harness is an exhaustive
// enumeration of short hosts x patterns, not a solver question.
// (Added after the seeded change /verif/seeded/C40-hostpattern-unanchored — the
// trailing '$' anchor lost — was missed: the first C40 check covered the
// password verifier only.)
func c40WildMatch(h, p string) bool {
	if p == "" {
		return h == ""
	}
	if p[0] == '%' {
		for i := 0; i <= len(h); i++ {
			if c40WildMatch(h[i:], p[1:]) {
				return true
			}
		}
		return false
	}
	return h != "" && h[0] == p[0] && c40WildMatch(h[1:], p[1:])
}

func c40Word(tag string, alphabet string, maxLen int) string {
	n := nd.IntRange(tag+".len", 0, maxLen)
	b := make([]byte, n)
	for i := range b {
		b[i] = alphabet[nd.Pick(tag+".c"+string(rune('0'+i)), len(alphabet))]
	}
	return string(b)
}

func VerifC40HostPattern() {
	host := c40Word("c40.host", "a.1", nd.Bound(4, 5))
	pattern := c40Word("c40.pat", "%a.1", nd.Bound(3, 4))
	got := matchesHostPattern(host, pattern)
	nd.Reach("c40.hostpattern")
	nd.Observe(host, pattern, got)
	hasWild := false
	for i := 0; i < len(pattern); i++ {
		hasWild = hasWild || pattern[i] == '%'
	}
	nd.Assert("c40.hostpattern.whole-host-matches", got == (hasWild && c40WildMatch(host, pattern)))
}
