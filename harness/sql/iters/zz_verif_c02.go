//go:build verif

package iters

import (
	"io"

	nd "github.com/dolthub/go-mysql-server/internal/zzverifnd"
	"github.com/dolthub/go-mysql-server/sql"
)

// C02 (set operations): INTERSECT ALL / EXCEPT ALL as bag operations.
// (Added after a seeded change to IntersectIter — `<= 0` turned into `< 0` —
// was missed: the expression-level harnesses did not reach the set-operation
// iterators. See /verif/seeded/C02-intersect-all-count.)
//
// Rows have one BIGINT column with a value in 0..3 (two symbolic bits), so that
// duplicates are frequent; row hashing goes through the real hash.HashOf with
// xxhash as a collision-free uninterpreted function.

type c02SliceIter struct {
	rows []sql.Row
	i    int
}

func (it *c02SliceIter) Next(*sql.Context) (sql.Row, error) {
	if it.i >= len(it.rows) {
		return nil, io.EOF
	}
	r := it.rows[it.i]
	it.i++
	return r, nil
}

func (it *c02SliceIter) Close(*sql.Context) error { return nil }

func c02Side(tag string, n int) ([]sql.Row, []int64) {
	rows := make([]sql.Row, n)
	vals := make([]int64, n)
	for i := range rows {
		v := int64(nd.Uint8(tag+string(rune('0'+i))) & 3)
		vals[i] = v
		rows[i] = sql.Row{v}
	}
	return rows, vals
}

// c02Count: how many entries of vals equal v (no forking).
func c02Count(vals []int64, v int64) int {
	n := 0
	for _, x := range vals {
		one := 0
		if x == v {
			one = 1
		}
		n += one
	}
	return n
}

func c02Drain(it sql.RowIter) ([]int64, bool) {
	var out []int64
	for k := 0; k < 8; k++ {
		r, err := it.Next(nil)
		if err == io.EOF {
			return out, true
		}
		if err != nil || len(r) != 1 {
			return out, false
		}
		v, ok := r[0].(int64)
		if !ok {
			return out, false
		}
		out = append(out, v)
	}
	return out, false
}

func c02SetOp(tag string, except bool) {
	// (measured: with 3 rows on both sides two of the final queries of EXCEPT ALL stay undecided at 90 s;
	// 4 on both sides left 17 undecided)
	nlMax, nrMax := 3, nd.Bound(2, 3)
	if except {
		nlMax, nrMax = nd.Bound(2, 3), 2
	}
	nl := nd.IntRange(tag+".nl", 0, nlMax)
	nr := nd.IntRange(tag+".nr", 0, nrMax)
	lrows, lv := c02Side(tag+".l", nl)
	rrows, rv := c02Side(tag+".r", nr)
	var it sql.RowIter
	if except {
		it = &ExceptIter{LIter: &c02SliceIter{rows: lrows}, RIter: &c02SliceIter{rows: rrows}}
	} else {
		it = &IntersectIter{LIter: &c02SliceIter{rows: lrows}, RIter: &c02SliceIter{rows: rrows}}
	}
	out, ok := c02Drain(it)
	nd.Reach(tag)
	nd.Assert(tag+".terminates-with-eof", ok)
	for v := int64(0); v < 4; v++ {
		l, r := c02Count(lv, v), c02Count(rv, v)
		want := l
		if except {
			// EXCEPT ALL: max(l - r, 0) copies
			want = l - r
			if want < 0 {
				want = 0
			}
		} else if r < l {
			// INTERSECT ALL: min(l, r) copies
			want = r
		}
		nd.Assert(tag+".multiplicity", c02Count(out, v) == want)
	}
}

func VerifC02IntersectAll() { c02SetOp("c02.intersect-all", false) }
func VerifC02ExceptAll()    { c02SetOp("c02.except-all", true) }
