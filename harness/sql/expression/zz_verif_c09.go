//go:build verif

package expression

import (
	nd "github.com/dolthub/go-mysql-server/internal/zzverifnd"
	"github.com/dolthub/go-mysql-server/sql"
	"github.com/dolthub/go-mysql-server/sql/types"
)

// C09 at expression level: the value v an expression evaluates to is a valid
// value of the type T the expression reports, and NULL only if the expression
// says it is nullable:
//
//	v == nil  =>  e.IsNullable()
//	v != nil  =>  T.Convert(v) succeeds, reports InRange, and returns a value of
//	              the Go kind T stores that is numerically equal to v
//
// (paths on which Eval returns an error are not results and are skipped).
// Children are column references (GetField) of the integer column types, the
// row holds NULL (only if the column is declared nullable) or a symbolic value
// of the column's Go type.

var c09Types = [...]sql.Type{types.Int8, types.Int16, types.Int32, types.Int64, types.Uint8, types.Uint16, types.Uint32, types.Uint64}

const (
	c09Int8 = iota
	c09Int16
	c09Int32
	c09Int64
	c09Uint8
	c09Uint16
	c09Uint32
	c09Uint64
)

func c09Unsigned(ti int) bool { return ti >= c09Uint8 }

// c09Value: a full-range symbolic value of the Go type of column type ti.
func c09Value(name string, ti int) interface{} {
	switch ti {
	case c09Int8:
		return nd.Int8(name)
	case c09Int16:
		return nd.Int16(name)
	case c09Int32:
		return nd.Int32(name)
	case c09Int64:
		return nd.Int64(name)
	case c09Uint8:
		return nd.Uint8(name)
	case c09Uint16:
		return nd.Uint16(name)
	case c09Uint32:
		return nd.Uint32(name)
	}
	return nd.Uint64(name)
}

// c09Field: column idx of type ti. mode 0: NOT NULL column with a value;
// 1: nullable column holding a value; 2: nullable column holding NULL.
func c09Field(idx int, name string, ti int, mode int) (sql.Expression, interface{}) {
	f := NewGetField(idx, c09Types[ti], name, mode != 0)
	if mode == 2 {
		return f, nil
	}
	return f, c09Value(name, ti)
}

// c09Wide widens a Go integer to (negative, two's-complement bits).
func c09Wide(v interface{}) (neg bool, bits uint64, ok bool) {
	switch x := v.(type) {
	case int8:
		return x < 0, uint64(int64(x)), true
	case int16:
		return x < 0, uint64(int64(x)), true
	case int32:
		return x < 0, uint64(int64(x)), true
	case int64:
		return x < 0, uint64(x), true
	case int:
		return x < 0, uint64(int64(x)), true
	case uint8:
		return false, uint64(x), true
	case uint16:
		return false, uint64(x), true
	case uint32:
		return false, uint64(x), true
	case uint64:
		return false, x, true
	case uint:
		return false, uint64(x), true
	}
	return false, 0, false
}

// c09WideOfType widens c if it has exactly the Go kind the integer type t
// stores (reflect-free: one type assertion per type).
func c09WideOfType(c interface{}, t sql.Type) (neg bool, bits uint64, kindOK bool) {
	switch t {
	case types.Int8:
		x, ok := c.(int8)
		return x < 0, uint64(int64(x)), ok
	case types.Int16:
		x, ok := c.(int16)
		return x < 0, uint64(int64(x)), ok
	case types.Int24, types.Int32:
		x, ok := c.(int32)
		return x < 0, uint64(int64(x)), ok
	case types.Int64:
		x, ok := c.(int64)
		return x < 0, uint64(x), ok
	case types.Uint8:
		x, ok := c.(uint8)
		return false, uint64(x), ok
	case types.Uint16:
		x, ok := c.(uint16)
		return false, uint64(x), ok
	case types.Uint24, types.Uint32:
		x, ok := c.(uint32)
		return false, uint64(x), ok
	case types.Uint64:
		x, ok := c.(uint64)
		return false, x, ok
	}
	return false, 0, false
}

// c09Check evaluates e on row and asserts conformance of the result; class is
// appended to the ids of the value assertions ("" or ".<defect class>").
func c09Check(id string, class string, e sql.Expression, row sql.Row) {
	v, err := e.Eval(nil, row)
	if err != nil {
		nd.Reach(id + ".eval-error")
		return
	}
	t := e.Type(nil)
	nd.Reach(id)
	if v == nil {
		nd.Assert(id+".null-only-if-nullable", e.IsNullable(nil))
		return
	}
	nd.Assert(id+".integer-type", types.IsInteger(t))
	if !types.IsInteger(t) {
		return
	}
	c, inRange, cerr := t.Convert(nil, v)
	nd.Assert(id+".convert-ok"+class, cerr == nil)
	nd.Assert(id+".in-range"+class, inRange == sql.InRange)
	vn, vb, vok := c09Wide(v)
	cn, cb, kindOK := c09WideOfType(c, t)
	nd.Assert(id+".value-is-integer", vok)
	nd.Assert(id+".converted-kind", kindOK)
	nd.Assert(id+".value-preserved"+class, nd.And(vn == cn, vb == cb))
}

// c09Modes enumerates the NULL modes of two columns; sel < 3 keeps both
// columns NOT NULL / nullable with values / ... as listed.
var c09ModePairs = [...][2]int{{0, 0}, {1, 1}, {2, 1}, {1, 2}, {2, 2}, {0, 2}, {2, 0}}

// VerifC09PlusMinus: l + r and l - r over every pair of integer column types,
// full-range values.
func VerifC09PlusMinus() {
	lt := nd.Pick("ltype", len(c09Types))
	rt := nd.Pick("rtype", len(c09Types))
	op := [...]string{"+", "-"}[nd.Pick("op", 2)]
	l, lv := c09Field(0, "l", lt, 1)
	r, rv := c09Field(1, "r", rt, 1)
	c09Check("c09.plusminus", "", NewArithmetic(l, r, op), sql.Row{lv, rv})
}

// VerifC09Mult: l * r; the product of two symbolic 64-bit values is not decided
// by the solver, so one operand is an 8-bit column (TINYINT / TINYINT
// UNSIGNED), the other any integer column type; both orders.
func VerifC09Mult() {
	small := [...]int{c09Int8, c09Uint8}[nd.Pick("small", 2)]
	other := nd.Pick("other", len(c09Types))
	lt, rt := small, other
	if nd.Pick("order", 2) == 1 {
		lt, rt = other, small
	}
	l, lv := c09Field(0, "l", lt, 1)
	r, rv := c09Field(1, "r", rt, 1)
	c09Check("c09.mult", "", NewMult(l, r), sql.Row{lv, rv})
}

// VerifC09ArithmeticNull: NULL-ness of + - * against IsNullable for every
// combination of NOT NULL / nullable / NULL operands (BIGINT and TINYINT
// UNSIGNED columns; values 8-bit where the operator is *).
func VerifC09ArithmeticNull() {
	op := [...]string{"+", "-", "*"}[nd.Pick("op", 3)]
	lt := [...]int{c09Int64, c09Uint8}[nd.Pick("ltype", 2)]
	rt := c09Uint8
	m := c09ModePairs[nd.Pick("modes", len(c09ModePairs))]
	l, lv := c09Field(0, "l", lt, m[0])
	r, rv := c09Field(1, "r", rt, m[1])
	c09Check("c09.arith-null", "", NewArithmetic(l, r, op), sql.Row{lv, rv})
}

// VerifC09IntDiv: l DIV r for column types of the same signedness (the integer
// path of IntDiv; mixed signedness goes through decimals, see
// VerifC09DecimalPathSweep in zz_verif_c09_gaps.go). The divisor is an 8-bit column where the
// dividend is 64-bit wide.
func VerifC09IntDiv() {
	uns := nd.Pick("unsigned", 2) == 1
	base := 0
	if uns {
		base = c09Uint8
	}
	lt := base + nd.Pick("ltype", 4)
	rt := base + nd.Pick("rtype", 4)
	// 64-bit by 64-bit symbolic division: keep one side narrow
	nd.Assume(lt%4 != 3 || rt%4 == 0)
	nd.Assume(rt%4 != 3 || lt%4 == 0)
	m := c09ModePairs[nd.Pick("modes", 4)]
	l, lv := c09Field(0, "l", lt, m[0])
	r, rv := c09Field(1, "r", rt, m[1])
	c09Check("c09.intdiv", "", NewIntDiv(l, r), sql.Row{lv, rv})
}

// VerifC09UnaryMinus: -x over every integer column type. Children of the types
// TINYINT UNSIGNED and SMALLINT UNSIGNED (class ".small-unsigned-child") assert
// under their own ids: UnaryMinus.Type keeps the unsigned type while Eval
// returns -int8(n) / -int16(n).
func VerifC09UnaryMinus() {
	ti := nd.Pick("type", len(c09Types))
	mode := nd.Pick("mode", 3)
	x, xv := c09Field(0, "x", ti, mode)
	class := ""
	if ti == c09Uint8 || ti == c09Uint16 {
		class = ".small-unsigned-child"
	}
	c09Check("c09.neg", class, NewUnaryMinus(x), sql.Row{xv})
}
