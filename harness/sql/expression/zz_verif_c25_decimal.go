//go:build verif

package expression

import (
	"math/bits"
	"strconv"
	"strings"

	"github.com/cockroachdb/apd/v3"

	nd "github.com/dolthub/go-mysql-server/internal/zzverifnd"
	"github.com/dolthub/go-mysql-server/sql"
	"github.com/dolthub/go-mysql-server/sql/types"
)

// C25, DECIMAL operands: + - * / DIV % through the real Arithmetic / Div /
// IntDiv / Mod Eval (apd.Decimal over math/big, interpreted from source with
// "math_big": true) give the exact rational result at the scale MySQL
// documents:
//
//	a + b, a - b   exact, scale max(sa, sb)
//	a * b          exact, scale sa + sb             (<= 30 on this grid)
//	a / b          NULL if b = 0, else a/b rounded half away from zero to scale sa + 4
//	               (div_precision_increment = 4)
//	a DIV b        NULL if b = 0, else a/b truncated toward zero, an integer
//	a % b          NULL if b = 0, else a - b*trunc(a/b) (sign of the dividend), scale max(sa, sb)
//
// Operands are decimal numerals assembled from concrete pieces (sign, integer
// part, fraction digits) by selectors — symbolic digits do not decide (neither
// through math/big's radix conversion nor, as tried, one symbolic int64 through
// DecimalFromInt64/Cmp) — and enter the expression as a DECIMAL(10,s) column
// holding the value at scale s, as a decimal literal the way planbuilder builds
// it (CreateLiteralDecimalType from the literal's digits; negative = unary
// minus over the literal), or, for numerals without fraction, as a BIGINT
// column (mixed DECIMAL/BIGINT operands).
//
// The reference works on (unscaled int64, scale): the grid is small enough that
// every scaled intermediate fits int64 (|unscaled| < 10^6, scale <= 3, so
// products < 10^12 and the scaled dividend of '/' < 10^13). The result is
// compared as text: the real result's Text('f') against the reference rendered
// by strconv.

var c25decInts = [...]string{"0", "1", "12", "999", "7", "100"}
var c25decFracs = [...]string{"", "5", "50", "0", "05", "125", "995"} // quick: the first five

type c25decNum struct {
	neg bool
	ip  string
	fp  string
}

func c25decPick(tag string) c25decNum {
	var n c25decNum
	n.neg = nd.Pick(tag+".neg", 2) == 1
	n.ip = c25decInts[nd.Pick(tag+".int", nd.Bound(3, len(c25decInts)))]
	n.fp = c25decFracs[nd.Pick(tag+".frac", nd.Bound(5, len(c25decFracs)))]
	return n
}

// text of the numeral without sign
func (n c25decNum) abs() string {
	if n.fp == "" {
		return n.ip
	}
	return n.ip + "." + n.fp
}

func (n c25decNum) scale() int { return len(n.fp) }

// unscaled value with the sign applied: digits of ip followed by fp.
func (n c25decNum) unscaled() int64 {
	var u int64
	ds := n.ip + n.fp
	for i := 0; i < len(ds); i++ {
		u = u*10 + int64(ds[i]-'0')
	}
	if n.neg {
		u = -u
	}
	return u
}

func c25decPow10(k int) int64 {
	r := int64(1)
	for i := 0; i < k; i++ {
		r *= 10
	}
	return r
}

func c25decAbs(x int64) int64 {
	if x < 0 {
		return -x
	}
	return x
}

func c25decDigits(x int64) int {
	return len(strconv.FormatInt(c25decAbs(x), 10))
}

// c25decFixed renders u/10^s with exactly s fraction digits (zero carries no sign).
func c25decFixed(u int64, s int) string {
	neg := u < 0
	ds := strconv.FormatInt(c25decAbs(u), 10)
	for len(ds) <= s {
		ds = "0" + ds
	}
	out := ds
	if s > 0 {
		out = ds[:len(ds)-s] + "." + ds[len(ds)-s:]
	}
	if neg {
		out = "-" + out
	}
	return out
}

// c25decCanon: the numeric content of a fixed-point text: no sign on zero, no
// leading zeros of the integer part beyond one, no trailing zeros of the fraction.
func c25decCanon(t string) string {
	neg := strings.HasPrefix(t, "-")
	t = strings.TrimPrefix(t, "-")
	ip, fp := t, ""
	if i := strings.IndexByte(t, '.'); i >= 0 {
		ip, fp = t[:i], t[i+1:]
	}
	ip = strings.TrimLeft(ip, "0")
	if ip == "" {
		ip = "0"
	}
	fp = strings.TrimRight(fp, "0")
	out := ip
	if fp != "" {
		out = ip + "." + fp
	}
	if neg && out != "0" {
		out = "-" + out
	}
	return out
}

// c25decOperand builds the expression and the row cell for numeral n in row slot idx.
// kind 0: NOT NULL column DECIMAL(10, scale) holding the value at that scale.
// kind 1: a numeral with a fraction: the decimal literal as planbuilder.ConvertVal
// builds it (under a unary minus if negative); a numeral without fraction: a
// NOT NULL BIGINT column holding an int64.
func c25decOperand(idx int, n c25decNum, kind int) (sql.Expression, interface{}) {
	if kind == 0 {
		t := types.MustCreateColumnDecimalType(10, uint8(n.scale()))
		return NewGetField(idx, t, "d", false), apd.New(n.unscaled(), -int32(n.scale()))
	}
	if n.fp == "" {
		return NewGetField(idx, types.Int64, "i", false), n.unscaled()
	}
	p, s := GetDecimalPrecisionAndScale(n.abs())
	dt := types.CreateLiteralDecimalType(p, s)
	v, _, err := dt.Convert(nil, n.abs())
	nd.Assume(err == nil)
	var e sql.Expression = NewLiteral(v, dt)
	if n.neg {
		e = NewUnaryMinus(e)
	}
	return e, nil
}

// c25decResult: a numeric result as fixed-point text, its scale, whether it is a negative zero.
func c25decResult(v interface{}) (text string, scale int, negZero bool, ok bool) {
	switch x := v.(type) {
	case *apd.Decimal:
		if x == nil || x.Form != apd.Finite {
			return "", 0, false, false
		}
		return x.Text('f'), int(-x.Exponent), x.Negative && x.IsZero(), true
	case int64:
		return strconv.FormatInt(x, 10), 0, false, true
	case uint64:
		return strconv.FormatUint(x, 10), 0, false, true
	}
	return "", 0, false, false
}

const (
	c25decPlus = iota
	c25decMinus
	c25decMult
	c25decDiv
	c25decIntDiv
	c25decMod
)

// c25decBinary: one operator over a pair of grid numerals.
func c25decBinary(id string, op int) {
	a, b := c25decPick(id+".a"), c25decPick(id+".b")
	ka, kb := nd.Pick(id+".a.kind", 2), nd.Pick(id+".b.kind", 2)
	le, lv := c25decOperand(0, a, ka)
	re, rv := c25decOperand(1, b, kb)
	var e sql.Expression
	switch op {
	case c25decPlus:
		e = NewPlus(le, re)
	case c25decMinus:
		e = NewMinus(le, re)
	case c25decMult:
		e = NewMult(le, re)
	case c25decDiv:
		e = NewDiv(le, re)
	case c25decIntDiv:
		e = NewIntDiv(le, re)
	default:
		e = NewMod(le, re)
	}
	res, err := e.Eval(nil, sql.Row{lv, rv})
	nd.Reach(id)

	ua, sa, ub, sb := a.unscaled(), a.scale(), b.unscaled(), b.scale()
	smax := sa
	if sb > smax {
		smax = sb
	}
	A, B := ua*c25decPow10(smax-sa), ub*c25decPow10(smax-sb) // both at scale smax
	nd.Observe(a.abs(), b.abs(), a.neg, b.neg, ka, kb, err != nil)

	if op >= c25decDiv && ub == 0 {
		nd.Assert(id+".division-by-zero-is-null", err == nil && res == nil)
		return
	}
	if err != nil {
		// every exact result on this grid is far inside DECIMAL(65,30) / BIGINT
		if op == c25decMod {
			q := c25decAbs(A / B)
			p := c25decDigits(ua)
			if d := c25decDigits(ub); d > p {
				p = d
			}
			if c25decDigits(q) > p {
				// known class: types.DecimalMod gives apd's Rem a context precision of
				// max(digits(a), digits(b)); Rem refuses (DivisionImpossible) when the
				// integer quotient has more digits than that.
				nd.Assert(id+".no-spurious-error.quotient-wider-than-operands", false)
				return
			}
		}
		nd.Assert(id+".no-spurious-error", false)
		return
	}
	nd.Assert(id+".not-null", res != nil)
	if res == nil {
		return
	}
	text, scale, negZero, ok := c25decResult(res)
	nd.Assert(id+".numeric-kind", ok)
	if !ok {
		return
	}
	nd.Observe(text)
	var wantU int64
	var wantS int
	switch op {
	case c25decPlus:
		wantU, wantS = A+B, smax
	case c25decMinus:
		wantU, wantS = A-B, smax
	case c25decMult:
		wantU, wantS = ua*ub, sa+sb
	case c25decDiv:
		// a/b * 10^(sa+4) = ua * 10^(sb+4) / ub, rounded half away from zero
		num, den := ua*c25decPow10(sb+4), ub
		neg := (num < 0) != (den < 0)
		q := (2*c25decAbs(num) + c25decAbs(den)) / (2 * c25decAbs(den))
		if neg {
			q = -q
		}
		wantU, wantS = q, sa+4
	case c25decIntDiv:
		_, isInt := res.(int64)
		nd.Assert(id+".integer-kind", isInt)
		wantU, wantS = A/B, 0 // Go's / truncates toward zero
	default:
		wantU, wantS = A%B, smax // Go's % has the sign of the dividend
	}
	nd.Assert(id+".exact", c25decCanon(text) == c25decCanon(c25decFixed(wantU, wantS)))
	nd.Assert(id+".scale", scale == wantS)
	nd.Assert(id+".no-negative-zero", !negZero)
}

func VerifC25DecimalPlus()   { c25decBinary("c25.dec.plus", c25decPlus) }
func VerifC25DecimalMinus()  { c25decBinary("c25.dec.minus", c25decMinus) }
func VerifC25DecimalMult()   { c25decBinary("c25.dec.mult", c25decMult) }
func VerifC25DecimalDiv()    { c25decBinary("c25.dec.div", c25decDiv) }
func VerifC25DecimalIntDiv() { c25decBinary("c25.dec.intdiv", c25decIntDiv) }
func VerifC25DecimalMod()    { c25decBinary("c25.dec.mod", c25decMod) }

// Values at the 65-digit precision limit: the reference is a string identity
// (9...9 + 1 = 10...0 and so on), no arithmetic. want == "" means "the exact
// result does not fit BIGINT: an error is required" (DIV only); otherwise the
// result is the exact value, or — where mayErr — an out-of-range error (the
// exact value needs more than 65 digits, or more than 30 fraction digits).
type c25decWitness struct {
	op      int
	a, b    string
	want    string
	mayErr  bool
	comment string
}

func c25decWitnesses() []c25decWitness {
	n65 := strings.Repeat("9", 65)
	z64 := strings.Repeat("0", 64)
	z65 := strings.Repeat("0", 65)
	n35 := strings.Repeat("9", 35)
	n30 := strings.Repeat("9", 30)
	z29 := strings.Repeat("0", 29)
	z30 := strings.Repeat("0", 30)
	z35 := strings.Repeat("0", 35)
	return []c25decWitness{
		{c25decPlus, n65, "0", n65, false, "max + 0"},
		{c25decPlus, n65, "1", "1" + z65, true, "max + 1 needs 66 digits"},
		{c25decPlus, "-" + n65, "-1", "-1" + z65, true, "-(max) - 1"},
		{c25decPlus, n65, "-" + n65, "0", false, "max + -max"},
		{c25decPlus, "1" + z64, "-1", strings.Repeat("9", 64), false, "10^64 - 1 by +"},
		{c25decMinus, n65, n65, "0", false, "max - max"},
		{c25decMinus, "-" + n65, "1", "-1" + z65, true, "-max - 1"},
		{c25decMinus, "1" + z64, "1", strings.Repeat("9", 64), false, "10^64 - 1"},
		{c25decMult, n65, "1", n65, false, "max * 1"},
		{c25decMult, n65, "-1", "-" + n65, false, "max * -1"},
		{c25decMult, n65, "0", "0", false, "max * 0"},
		{c25decMult, n65, "10", n65 + "0", true, "max * 10 needs 66 digits"},
		{c25decMult, "1" + z64, "9", "9" + z64, false, "9 * 10^64"},
		{c25decDiv, n65, "1", n65 + ".0000", true, "max / 1 (65 integer digits + scale 4)"},
		{c25decDiv, "9" + z64, "9", "1" + z64 + ".0000", true, "9*10^64 / 9"},
		{c25decIntDiv, n65, "1", "", false, "quotient beyond BIGINT: error required"},
		{c25decIntDiv, n65, "1" + z64, "9", false, "max DIV 10^64"},
		{c25decIntDiv, "-" + n65, "1" + z64, "-9", false, "-max DIV 10^64"},
		{c25decMod, n65, "10", "9", false, "max % 10"},
		{c25decMod, "-" + n65, "10", "-9", false, "-max % 10"},
		{c25decMod, n65, "1" + z64, strings.Repeat("9", 64), false, "max % 10^64"},
		// DECIMAL(65,30): 35 integer digits, 30 fraction digits
		{c25decPlus, n35 + "." + n30, "0." + z29 + "1", "1" + z35 + "." + z30, true, "carry through all 65 digits"},
		{c25decMinus, "1" + z35[1:] + "." + z30, "0." + z29 + "1", n35[1:] + "." + n30, false, "borrow through 64 digits"},
		{c25decMult, "0." + z29 + "1", "1" + z29, "0.1", false, "10^-30 * 10^29 (scale 30)"},
	}
}

func c25decWitnessOperand(idx int, text string) (sql.Expression, interface{}) {
	p, s := GetDecimalPrecisionAndScale(text)
	if p < 1 {
		p = 1
	}
	t := types.MustCreateColumnDecimalType(p, s)
	d, _, err := apd.NewFromString(text)
	nd.Assume(err == nil)
	return NewGetField(idx, t, "w", false), d
}

func VerifC25DecimalLimitWitnesses() {
	ws := c25decWitnesses()
	w := ws[nd.Pick("c25.dec.limit.case", len(ws))]
	le, lv := c25decWitnessOperand(0, w.a)
	re, rv := c25decWitnessOperand(1, w.b)
	var e sql.Expression
	switch w.op {
	case c25decPlus:
		e = NewPlus(le, re)
	case c25decMinus:
		e = NewMinus(le, re)
	case c25decMult:
		e = NewMult(le, re)
	case c25decDiv:
		e = NewDiv(le, re)
	case c25decIntDiv:
		e = NewIntDiv(le, re)
	default:
		e = NewMod(le, re)
	}
	res, err := e.Eval(nil, sql.Row{lv, rv})
	nd.Reach("c25.dec.limit")
	nd.Observe(w.comment, err != nil)
	if w.want == "" {
		nd.Assert("c25.dec.limit.out-of-range-reported", err != nil)
		return
	}
	if err != nil {
		nd.Assert("c25.dec.limit.no-spurious-error", w.mayErr)
		return
	}
	text, _, _, ok := c25decResult(res)
	nd.Assert("c25.dec.limit.numeric-kind", ok)
	if !ok {
		return
	}
	nd.Observe(text)
	nd.Assert("c25.dec.limit.exact", c25decCanon(text) == c25decCanon(w.want))
}

// Mixed signedness, integer path: BIGINT UNSIGNED column (+|-) BIGINT column in
// both orders through Arithmetic.Eval. (Only DIV and % compute mixed signedness
// through DECIMAL(65,0); + and - convert both operands to the reported type
// BIGINT.) Full-range symbolic operands; the reference is the 128-bit two's
// complement sum/difference. A result without error must be the exact value.
// Class ".unsigned-operand-above-int64": convertValueToType drops the
// out-of-range flag of Int64.Convert, so an unsigned operand above MaxInt64 is
// clamped to MaxInt64 before the operation.
func VerifC25EvalMixedSign() {
	u, s := nd.Uint64("c25mix.u"), nd.Int64("c25mix.s")
	minus := nd.Pick("c25mix.op", 2) == 1
	unsignedLeft := nd.Pick("c25mix.order", 2) == 0
	uf, sf := NewGetField(0, types.Uint64, "u", false), NewGetField(1, types.Int64, "s", false)
	var l, r sql.Expression = uf, sf
	if !unsignedLeft {
		l, r = sf, uf
	}
	op := "+"
	if minus {
		op = "-"
	}
	res, err := NewArithmetic(l, r, op).Eval(nil, sql.Row{u, s})
	nd.Reach("c25.eval.mixed-sign")

	// 128-bit operands (hi, lo)
	sHi := uint64(0)
	if s < 0 {
		sHi = ^uint64(0)
	}
	lHi, lLo, rHi, rLo := uint64(0), u, sHi, uint64(s)
	if !unsignedLeft {
		lHi, lLo, rHi, rLo = sHi, uint64(s), 0, u
	}
	var mHi, mLo uint64
	if minus {
		var bw uint64
		mLo, bw = bits.Sub64(lLo, rLo, 0)
		mHi, _ = bits.Sub64(lHi, rHi, bw)
	} else {
		var c uint64
		mLo, c = bits.Add64(lLo, rLo, 0)
		mHi, _ = bits.Add64(lHi, rHi, c)
	}
	fits := nd.Or(nd.And(mHi == 0, int64(mLo) >= 0), nd.And(mHi == ^uint64(0), int64(mLo) < 0))
	above := u > 1<<63-1
	if err != nil {
		nd.Assert("c25.eval.mixed-sign.no-spurious-error", nd.Or(!fits, above))
		return
	}
	v, ok := res.(int64)
	nd.Assert("c25.eval.mixed-sign.kind", ok)
	exact := nd.And(fits, uint64(v) == mLo)
	nd.Assert("c25.eval.mixed-sign.exact", nd.Or(exact, above))
	nd.Assert("c25.eval.mixed-sign.exact.unsigned-operand-above-int64", exact)
}
