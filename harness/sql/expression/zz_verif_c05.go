//go:build verif

package expression

import (
	"encoding/binary"

	"github.com/dolthub/vitess/go/vt/proto/query"

	nd "github.com/dolthub/go-mysql-server/internal/zzverifnd"
	"github.com/dolthub/go-mysql-server/sql"
	"github.com/dolthub/go-mysql-server/sql/types"
)

// C05 at expression level: a predicate p partitions the rows into the rows
// kept by "WHERE p", by "WHERE NOT p" and by "WHERE p IS NULL".
//
// "kept" is the engine's own decision: plan.FilterIter.Next keeps a row iff
// sql.IsTrue(sql.EvaluateCondition(ctx, cond, row)) (sql/plan/filter.go).

// c05UseRealEvaluateCondition: sql.EvaluateCondition opens a runtime/trace
// region ("defer trace2.StartRegion(ctx, ...).End()"), which the executor does
// not model (unsupported: callee outside allow-list: runtime/trace.StartRegion).
// Until it does, the harness evaluates a verbatim copy of the function body
// without that one line. Set to true once StartRegion/(*Region).End are stubbed.
const c05UseRealEvaluateCondition = true

func c05EvaluateCondition(cond sql.Expression, row sql.Row) (interface{}, error) {
	if c05UseRealEvaluateCondition {
		return sql.EvaluateCondition(nil, cond, row)
	}
	// copy of sql.EvaluateCondition (sql/core.go:429-444), ctx = nil
	v, err := cond.Eval(nil, row)
	if err != nil {
		return false, err
	}
	if v == nil {
		return nil, nil
	}
	res, err := sql.ConvertToBool(nil, v)
	if err != nil {
		return nil, err
	}
	return res, nil
}

// c05Keep is that decision; ok is false when evaluation failed.
func c05Keep(e sql.Expression, row sql.Row) (keep bool, ok bool) {
	res, err := c05EvaluateCondition(e, row)
	if err != nil {
		return false, false
	}
	return sql.IsTrue(res), true
}

func c05Row3() sql.Row {
	row := make(sql.Row, 3)
	for i := range row {
		s := string(rune('0' + i))
		v := nd.Int64("c" + s)
		if nd.Bool("c" + s + ".null") {
			row[i] = nil
		} else {
			row[i] = v
		}
	}
	return row
}

const c05AtomKinds = 12

// c05Atom builds one depth-1 predicate over BIGINT columns i, j, k.
func c05Atom(kind, i, j, k int) sql.Expression {
	fi := NewGetField(i, types.Int64, "a", true)
	fj := NewGetField(j, types.Int64, "b", true)
	fk := NewGetField(k, types.Int64, "c", true)
	switch kind {
	case 0:
		return NewEquals(fi, fj)
	case 1:
		return NewNullSafeEquals(fi, fj)
	case 2:
		return NewGreaterThan(fi, fj)
	case 3:
		return NewLessThan(fi, fj)
	case 4:
		return NewGreaterThanOrEqual(fi, fj)
	case 5:
		return NewLessThanOrEqual(fi, fj)
	case 6:
		return NewIsNull(fi)
	case 7:
		return NewBetween(fi, fj, fk)
	case 8:
		return NewInTuple(fi, NewTuple(fj, NewLiteral(int64(7), types.Int64)))
	case 9:
		return NewInTuple(fi, NewTuple(fj, NewLiteral(nil, types.Null)))
	case 10:
		// a bare integer column used as a condition (non-zero is TRUE)
		return fi
	default:
		return NewNot(NewEquals(fi, fj))
	}
}

func c05Partition(id string, p sql.Expression, row sql.Row) {
	kp, ok1 := c05Keep(p, row)
	kn, ok2 := c05Keep(NewNot(p), row)
	ku, ok3 := c05Keep(NewIsNull(p), row)
	nd.Reach(id)
	nd.Observe(kp, kn, ku)
	nd.Assert(id+".no-error", nd.And(ok1, nd.And(ok2, ok3)))
	// exactly one of the three filters keeps the row
	nd.Assert(id+".covered", nd.Or(kp, nd.Or(kn, ku)))
	nd.Assert(id+".disjoint", !nd.Or(nd.And(kp, kn), nd.Or(nd.And(kp, ku), nd.And(kn, ku))))
}

// Depth 1 and NOT(depth 1).
func VerifC05PartitionAtoms() {
	k := nd.Pick("k", c05AtomKinds)
	neg := nd.Pick("neg", 2)
	row := c05Row3()
	p := c05Atom(k, 0, 1, 2)
	if neg == 1 {
		p = NewNot(p)
	}
	c05Partition("c05.partition.atom", p, row)
}

// Depth 2: AND / OR / XOR of two depth-1 predicates (thorough: depth 3, the
// result combined once more with NOT / AND / OR and a third predicate).
func VerifC05PartitionBinary() {
	con := nd.Pick("con", 3)
	lk := nd.Pick("lk", c05AtomKinds)
	rk := [...]int{0, 7, 6, 11, 3}[nd.Pick("rk", nd.Bound(4, 5))]
	var outer, ok3 int
	if nd.Tier() == 1 {
		outer = nd.Pick("outer", 4)
		ok3 = [...]int{4, 9}[nd.Pick("ok", 2)]
	}
	row := c05Row3()
	l, r := c05Atom(lk, 0, 1, 2), c05Atom(rk, 2, 1, 0)
	var p sql.Expression
	switch con {
	case 0:
		p = NewAnd(l, r)
	case 1:
		p = NewOr(l, r)
	default:
		p = NewXor(l, r)
	}
	switch outer {
	case 1:
		p = NewNot(p)
	case 2:
		p = NewAnd(p, c05Atom(ok3, 1, 0, 2))
	case 3:
		p = NewOr(c05Atom(ok3, 1, 0, 2), p)
	}
	c05Partition("c05.partition.binary", p, row)
}

// IS TRUE / IS FALSE: never NULL, and "p IS TRUE" keeps what p keeps,
// "p IS FALSE" keeps what NOT p keeps, "NOT (p IS TRUE)" keeps the rest.
func VerifC05IsTrue() {
	k := nd.Pick("k", c05AtomKinds)
	row := c05Row3()
	p := c05Atom(k, 0, 1, 2)
	kp, ok1 := c05Keep(p, row)
	kn, ok2 := c05Keep(NewNot(p), row)
	it, errT := NewIsTrue(p).Eval(nil, row)
	iF, errF := NewIsFalse(p).Eval(nil, row)
	kNotT, ok3 := c05Keep(NewNot(NewIsTrue(p)), row)
	kNotF, ok4 := c05Keep(NewNot(NewIsFalse(p)), row)
	nd.Reach("c05.istrue")
	nd.Assert("c05.istrue.no-error", nd.And(nd.And(ok1, ok2), nd.And(nd.And(ok3, ok4), nd.And(errT == nil, errF == nil))))
	bt, isBoolT := it.(bool)
	bf, isBoolF := iF.(bool)
	nd.Observe(kp, kn, bt, bf)
	nd.Assert("c05.istrue.two-valued", nd.And(isBoolT, isBoolF))
	nd.Assert("c05.istrue.is-true", bt == kp)
	nd.Assert("c05.istrue.is-false", bf == kn)
	nd.Assert("c05.istrue.not-is-true", kNotT == !kp)
	nd.Assert("c05.istrue.not-is-false", kNotF == !kn)
}

// The second keep decision of the engine: plan.FilterIter.NextValueRow keeps a
// row iff cond.EvalValue(row).Val[0] == 1, and FilterIter.IsValueRowIter
// selects it when the condition is a ValueExpression over number types (the
// four ordering comparisons qualify). It must keep exactly the rows Next keeps.
func VerifC05ValueRowFilter() {
	op := nd.Pick("op", 4)
	lf, rf := NewGetField(0, types.Int64, "l", true), NewGetField(1, types.Int64, "r", true)
	var e sql.Expression
	switch op {
	case 0:
		e = NewGreaterThan(lf, rf)
	case 1:
		e = NewLessThan(lf, rf)
	case 2:
		e = NewGreaterThanOrEqual(lf, rf)
	default:
		e = NewLessThanOrEqual(lf, rf)
	}
	ve, isVE := e.(sql.ValueExpression)
	nd.Assume(isVE && ve.IsValueExpression(nil))
	row := make(sql.Row, 2)
	vrow := make(sql.ValueRow, 2)
	for i := range row {
		s := string(rune('0' + i))
		b := nd.Bytes("v"+s, 8)
		if nd.Bool("v" + s + ".null") {
			row[i] = nil
			vrow[i] = sql.NullValue
		} else {
			row[i] = int64(binary.LittleEndian.Uint64(b))
			vrow[i] = sql.Value{Val: b, Typ: query.Type_INT64}
		}
	}
	keep, ok := c05Keep(e, row)
	res, err := ve.EvalValue(nil, vrow)
	nd.Reach("c05.valuerow")
	nd.Assert("c05.valuerow.no-error", nd.And(ok, err == nil))
	keepV := len(res.Val) > 0 && res.Val[0] == 1
	nd.Observe(keep, keepV)
	// Defect class of the known finding (known_findings.txt): `>=` / `<=` with a
	// NULL operand on the value-row path. Those cells assert under their own id
	// so that the recorded finding masks nothing else.
	if op >= 2 && (row[0] == nil || row[1] == nil) {
		nd.Assert("c05.valuerow.same-rows-kept.null-operand-ge-le", keep == keepV)
		return
	}
	nd.Assert("c05.valuerow.same-rows-kept", keep == keepV)
}
