//go:build verif

package expression

import (
	"math"

	nd "github.com/dolthub/go-mysql-server/internal/zzverifnd"
	"github.com/dolthub/go-mysql-server/sql"
	"github.com/dolthub/go-mysql-server/sql/types"
)

// C06 at expression level: formulations SQL defines as equivalent evaluate to
// the same SQL value (0 FALSE, 1 TRUE, 2 NULL) on every row:
//
//	x IN (e1..en)  ==  x = e1 OR .. OR x = en  ==  HashInTuple(x, (e1..en))
//	x BETWEEN lo AND hi  ==  x >= lo AND x <= hi

// c06Tri: 0 FALSE, 1 TRUE, 2 NULL, -1 error, -2 not a boolean.
func c06Tri(res interface{}, err error) int {
	if err != nil {
		return -1
	}
	if res == nil {
		return 2
	}
	b, ok := res.(bool)
	if !ok {
		return -2
	}
	r := 0
	if b {
		r = 1
	}
	return r
}

// c06Left builds the left operand: column 0 of type BIGINT (lt 0), TINYINT
// (lt 1) or BIGINT UNSIGNED (lt 2), holding NULL or a symbolic value of the
// column's Go type. It returns the column expression and the row cell.
func c06Left(lt int) (sql.Expression, interface{}) {
	null := nd.Bool("x.null")
	var typ sql.Type
	var cell interface{}
	switch lt {
	case 0:
		typ, cell = types.Int64, nd.Int64("x")
	case 1:
		typ, cell = types.Int8, nd.Int8("x")
	default:
		typ, cell = types.Uint64, nd.Uint64("x")
	}
	if null {
		cell = nil
	}
	return NewGetField(0, typ, "x", true), cell
}

// c06Literal builds one IN-list literal: kind 0 NULL (type NULL, as the
// planner builds it), 1 BIGINT, 2 TINYINT, 3 BIGINT UNSIGNED.
func c06Literal(name string, kind int) sql.Expression {
	switch kind {
	case 0:
		return NewLiteral(nil, types.Null)
	case 1:
		return NewLiteral(nd.Int64(name), types.Int64)
	case 2:
		return NewLiteral(nd.Int8(name), types.Int8)
	default:
		return NewLiteral(nd.Uint64(name), types.Uint64)
	}
}

// c06Kind picks a literal kind whose type has the signedness of the column:
// NULL / BIGINT / TINYINT for signed columns, NULL / BIGINT UNSIGNED otherwise.
func c06Kind(name string, lt int) int {
	if lt == 2 {
		return [...]int{0, 3}[nd.Pick(name, 2)]
	}
	return nd.Pick(name, 3)
}

func c06OrOfEquals(left sql.Expression, elems []sql.Expression) sql.Expression {
	eqs := make([]sql.Expression, len(elems))
	for i, el := range elems {
		eqs[i] = NewEquals(left, el)
	}
	return JoinOr(eqs...)
}

// x BETWEEN lo AND hi against x >= lo AND x <= hi; x a BIGINT or TINYINT
// column, the bounds BIGINT columns or literals (a NULL literal has type NULL).
func VerifC06BetweenVsComparisons() {
	lt := nd.Pick("xtype", 2)
	lits := nd.Pick("bounds", 2)
	x, xc := c06Left(lt)
	row := sql.Row{xc, nil, nil}
	var bound [2]sql.Expression
	for i := 0; i < 2; i++ {
		name := [...]string{"lo", "hi"}[i]
		v := nd.Int64(name)
		null := nd.Bool(name + ".null")
		if lits == 1 {
			if null {
				bound[i] = NewLiteral(nil, types.Null)
			} else {
				bound[i] = NewLiteral(v, types.Int64)
			}
		} else {
			bound[i] = NewGetField(1+i, types.Int64, name, true)
			if !null {
				row[1+i] = v
			}
		}
	}
	got := c06Tri(NewBetween(x, bound[0], bound[1]).Eval(nil, row))
	alt := c06Tri(NewAnd(NewGreaterThanOrEqual(x, bound[0]), NewLessThanOrEqual(x, bound[1])).Eval(nil, row))
	nd.Reach("c06.between")
	nd.Observe(got, alt)
	nd.Assert("c06.between.evaluates", nd.And(got >= 0, alt >= 0))
	nd.Assert("c06.between.same-as-comparisons", got == alt)
}

// x IN (list) against the disjunction of equalities, same-signedness operand
// types (these compare as integers): x BIGINT / TINYINT with BIGINT / TINYINT /
// NULL literals, x BIGINT UNSIGNED with BIGINT UNSIGNED / NULL literals.
func VerifC06InVsDisjunction() {
	lt := nd.Pick("xtype", 3)
	n := nd.IntRange("n", 1, nd.Bound(3, 4))
	x, xc := c06Left(lt)
	elems := make([]sql.Expression, n)
	for i := range elems {
		s := string(rune('0' + i))
		k := c06Kind("e"+s+".kind", lt)
		elems[i] = c06Literal("e"+s, k)
	}
	row := sql.Row{xc}
	in := c06Tri(NewInTuple(x, NewTuple(elems...)).Eval(nil, row))
	or := c06Tri(c06OrOfEquals(x, elems).Eval(nil, row))
	nd.Reach("c06.in-vs-or")
	nd.Observe(in, or)
	nd.Assert("c06.in-vs-or.evaluates", nd.And(in >= 0, or >= 0))
	nd.Assert("c06.in-vs-or.same", in == or)
}

// HashInTuple against InTuple and the disjunction, symbolic values, operand
// types that make the hash comparison type an integer type (the first list
// element decides it: types.GetCompareType(left type, type of element 0)).
// Preconditions are those of analyzer.applyHashIn: the right side is a tuple
// of literals of one class (numeric; NULL literals allowed).
//
// Hashing: hash.HashOfSimple renders the converted value with
// strconv.FormatInt/FormatUint and hashes the string with xxhash; equality of
// hashes is equality of strings only if xxhash is injective on the explored
// pre-images (assumption of the claim, to be modelled as an injective
// uninterpreted function). Values are bounded to |v| < 10^4 (thorough 10^5; 10^6 left a fifth of the final queries undecided within the time-out) to
// keep the digit-count fork of FormatInt small.
func VerifC06HashInVsIn() {
	lt := nd.Pick("xtype", 3)
	n := nd.IntRange("n", 1, 2) // (3 literals left final queries undecided at the thorough tier)
	lim := int64(10000)         // (10^5 left three final queries undecided at the thorough tier)
	x, xc := c06Left(lt)
	switch v := xc.(type) {
	case int64:
		nd.Assume(nd.And(v > -lim, v < lim))
	case uint64:
		nd.Assume(v < uint64(lim))
	}
	elems := make([]sql.Expression, n)
	for i := range elems {
		s := string(rune('0' + i))
		k := c06Kind("e"+s+".kind", lt)
		// a leading NULL literal makes the hash comparison type DOUBLE (float
		// rendering): sampled by VerifC06HashInBoundary instead
		nd.Assume(i > 0 || k != 0)
		elems[i] = c06Literal("e"+s, k)
		switch v := elems[i].(*Literal).Val.(type) {
		case int64:
			nd.Assume(nd.And(v > -lim, v < lim))
		case uint64:
			nd.Assume(v < uint64(lim))
		}
	}
	row := sql.Row{xc}
	hit, err := NewHashInTuple(nil, x, NewTuple(elems...))
	nd.Assert("c06.hashin.constructs", nd.And(err == nil, hit != nil))
	if err != nil || hit == nil {
		return
	}
	hv := c06Tri(hit.Eval(nil, row))
	in := c06Tri(NewInTuple(x, NewTuple(elems...)).Eval(nil, row))
	or := c06Tri(c06OrOfEquals(x, elems).Eval(nil, row))
	nd.Reach("c06.hashin")
	nd.Observe(hv, in, or)
	nd.Assert("c06.hashin.evaluates", nd.And(hv >= 0, nd.And(in >= 0, or >= 0)))
	nd.Assert("c06.hashin.same-as-in", hv == in)
	nd.Assert("c06.hashin.in-same-as-or", in == or)
}

// c06BoundaryCase picks one cell of a concrete table of boundary values for
// the operand-type combinations whose comparison goes through float64 (mixed
// signedness, or a leading NULL literal) or whose literal is out of range for
// the column type. No symbolic values.
func c06BoundaryCase() (x sql.Expression, xc interface{}, elems []sql.Expression) {
	lt := nd.Pick("xtype", 3)
	xs := [...]int64{0, -1, 127, -128, 1 << 53, 1<<53 + 1, math.MaxInt64, math.MaxInt64 - 1}
	xi := nd.Pick("xi", len(xs))
	switch lt {
	case 0:
		x, xc = NewGetField(0, types.Int64, "x", true), xs[xi]
	case 1:
		nd.Assume(xi < 4)
		x, xc = NewGetField(0, types.Int8, "x", true), int8(xs[xi])
	default:
		nd.Assume(xs[xi] >= 0)
		x, xc = NewGetField(0, types.Uint64, "x", true), uint64(xs[xi])
	}
	ivals := [...]int64{0, -1, 1000, 1 << 53, 1<<53 + 1, math.MaxInt64}
	uvals := [...]uint64{0, 127, 1 << 53, 1<<53 + 1, 1 << 63, math.MaxUint64}
	switch nd.Pick("list", 5) {
	case 0: // (NULL, bigint)
		elems = []sql.Expression{NewLiteral(nil, types.Null), NewLiteral(ivals[nd.Pick("a", len(ivals))], types.Int64)}
	case 1: // (bigint unsigned)
		elems = []sql.Expression{NewLiteral(uvals[nd.Pick("a", len(uvals))], types.Uint64)}
	case 2: // (bigint)
		elems = []sql.Expression{NewLiteral(ivals[nd.Pick("a", len(ivals))], types.Int64)}
	case 3: // (tinyint, bigint unsigned)
		elems = []sql.Expression{NewLiteral(int8(-1), types.Int8), NewLiteral(uvals[nd.Pick("a", len(uvals))], types.Uint64)}
	default: // (bigint unsigned, bigint)
		elems = []sql.Expression{NewLiteral(uvals[nd.Pick("a", len(uvals))], types.Uint64), NewLiteral(ivals[nd.Pick("b", len(ivals))], types.Int64)}
	}
	return x, xc, elems
}

// x IN (list) against the disjunction of equalities on the boundary table
// (no hashing involved).
func VerifC06InVsDisjunctionBoundary() {
	x, xc, elems := c06BoundaryCase()
	row := sql.Row{xc}
	in := c06Tri(NewInTuple(x, NewTuple(elems...)).Eval(nil, row))
	or := c06Tri(c06OrOfEquals(x, elems).Eval(nil, row))
	nd.Reach("c06.in-vs-or.boundary")
	nd.Observe(in, or)
	nd.Assert("c06.in-vs-or.boundary.evaluates", in >= 0 && or >= 0)
	nd.Assert("c06.in-vs-or.boundary.same", in == or)
}

// HashInTuple against InTuple on the boundary table.
func VerifC06HashInBoundary() {
	x, xc, elems := c06BoundaryCase()
	row := sql.Row{xc}
	hit, err := NewHashInTuple(nil, x, NewTuple(elems...))
	nd.Assert("c06.hashin.boundary.constructs", err == nil && hit != nil)
	if err != nil || hit == nil {
		return
	}
	hv := c06Tri(hit.Eval(nil, row))
	in := c06Tri(NewInTuple(x, NewTuple(elems...)).Eval(nil, row))
	nd.Reach("c06.hashin.boundary")
	nd.Observe(hv, in)
	nd.Assert("c06.hashin.boundary.evaluates", hv >= 0 && in >= 0)
	// Defect class of the known finding (known_findings.txt): x and some list
	// element are different integers with the same float64 image (the
	// comparison type degraded to DOUBLE). Such cells assert under their own id
	// so that the recorded finding masks no other cell of the table.
	if c06FloatCollision(xc, elems) {
		nd.Assert("c06.hashin.boundary.same-as-in.float64-collision", hv == in)
		return
	}
	nd.Assert("c06.hashin.boundary.same-as-in", hv == in)
}

// c06FloatCollision: some non-NULL literal differs from x as an integer but
// equals it after conversion to float64 (concrete values only).
func c06FloatCollision(xc interface{}, elems []sql.Expression) bool {
	toF := func(v interface{}) (f float64, neg bool, mag uint64, ok bool) {
		switch n := v.(type) {
		case int8:
			return c06FromInt(int64(n))
		case int64:
			return c06FromInt(n)
		case uint64:
			return float64(n), false, n, true
		}
		return 0, false, 0, false
	}
	xf, xneg, xmag, ok := toF(xc)
	if !ok {
		return false
	}
	for _, e := range elems {
		lf, lneg, lmag, ok := toF(e.(*Literal).Val)
		if !ok {
			continue
		}
		same := xneg == lneg && xmag == lmag
		if !same && xf == lf {
			return true
		}
	}
	return false
}

func c06FromInt(n int64) (float64, bool, uint64, bool) {
	if n < 0 {
		return float64(n), true, uint64(-(n + 1)) + 1, true
	}
	return float64(n), false, uint64(n), true
}
