//go:build verif

package function

import (
	"strconv"

	nd "github.com/dolthub/go-mysql-server/internal/zzverifnd"
	"github.com/dolthub/go-mysql-server/sql"
	"github.com/dolthub/go-mysql-server/sql/expression"
	"github.com/dolthub/go-mysql-server/sql/types"
)

// C34: defining identities of string functions, on the real expressions
// evaluated with ctx == nil. Strings are ASCII (every byte < 0x80, so bytes
// and characters coincide), 0..3 (thorough 0..4) symbolic bytes; integer
// arguments are enumerated in a small range.

func c34ASCII(name string, lo, hi int) string {
	n := nd.IntRange(name+".n", lo, hi)
	s := nd.String(name, n)
	for i := 0; i < n; i++ {
		c := s[i]
		nd.Assume(c < 0x80)
	}
	return s
}

func c34Str(name string) string { return c34ASCII(name, 0, nd.Bound(3, 4)) }

func c34SF(i int) sql.Expression {
	return expression.NewGetField(i, types.LongText, "s"+strconv.Itoa(i), true)
}
func c34IF(i int) sql.Expression {
	return expression.NewGetField(i, types.Int64, "i"+strconv.Itoa(i), true)
}

// c34Text: the result as a string (string or []byte results), ok=false otherwise.
func c34Text(v interface{}) (string, bool) {
	switch x := v.(type) {
	case string:
		return x, true
	case []byte:
		return string(x), true
	}
	return "", false
}

// ---- len(LPAD(s,n,p)) == n for 0 <= n when p != '' (and RPAD) ---------------

func c34PadLength(id string, pt padType) {
	s := c34Str("s")
	p := c34ASCII("p", 1, 2)
	n := nd.IntRange("n", 0, nd.Bound(6, 8))
	e, err := NewPad(pt, c34SF(0), c34IF(1), c34SF(2))
	nd.Assume(err == nil)
	res, err := e.Eval(nil, sql.Row{s, int64(n), p})
	nd.Reach(id)
	out, ok := c34Text(res)
	nd.Observe(out, ok, err == nil)
	nd.Assert(id+".no-error", err == nil)
	nd.Assert(id+".string", ok)
	nd.Assert(id+".length", len(out) == n)
}

func VerifC34LpadLength() { c34PadLength("c34.lpad", lPadType) }
func VerifC34RpadLength() { c34PadLength("c34.rpad", rPadType) }

// ---- SUBSTRING(s,p,l) by positions ------------------------------------------
// MySQL: positions are 1-based; p < 0 counts from the end; p == 0, a start
// outside the string or l < 1 give ''. Character i (0-based) of s is in the
// result iff start <= i < start+l, in order.

func c34SubstringWant(s string, p, l int) string {
	start := p - 1
	if p < 0 {
		start = len(s) + p
	}
	if p == 0 || start < 0 {
		return ""
	}
	want := ""
	for i := 0; i < len(s); i++ {
		if i >= start && i-start < l {
			want += s[i : i+1]
		}
	}
	return want
}

func VerifC34SubstringDefinition() {
	s := c34Str("s")
	p := nd.IntRange("p", -5, 5)
	l := nd.IntRange("l", -5, 5)
	e, err := NewSubstring(nil, c34SF(0), c34IF(1), c34IF(2))
	nd.Assume(err == nil)
	res, err := e.Eval(nil, sql.Row{s, int64(p), int64(l)})
	nd.Reach("c34.substring")
	out, ok := c34Text(res)
	nd.Observe(out, ok, err == nil)
	nd.Assert("c34.substring.no-error", err == nil)
	nd.Assert("c34.substring.string", ok)
	nd.Assert("c34.substring.definition", out == c34SubstringWant(s, p, l))
}

// two-argument form: everything from the start position.
func VerifC34SubstringDefinition2() {
	s := c34Str("s")
	p := nd.IntRange("p", -5, 5)
	e, err := NewSubstring(nil, c34SF(0), c34IF(1))
	nd.Assume(err == nil)
	res, err := e.Eval(nil, sql.Row{s, int64(p)})
	nd.Reach("c34.substring2")
	out, ok := c34Text(res)
	nd.Observe(out, ok, err == nil)
	nd.Assert("c34.substring2.no-error", err == nil)
	nd.Assert("c34.substring2.string", ok)
	nd.Assert("c34.substring2.definition", out == c34SubstringWant(s, p, len(s)+1))
}

// ---- LEFT(s,n) || SUBSTRING(s,n+1) == s  (n >= 0) ---------------------------

func VerifC34LeftSubstringConcat() {
	s := c34Str("s")
	n := nd.IntRange("n", 0, 5)
	left, err1 := NewLeft(nil, c34SF(0), c34IF(1)).Eval(nil, sql.Row{s, int64(n)})
	sub, cerr := NewSubstring(nil, c34SF(0), c34IF(1))
	nd.Assume(cerr == nil)
	rest, err2 := sub.Eval(nil, sql.Row{s, int64(n + 1)})
	nd.Reach("c34.left-substring")
	a, okA := c34Text(left)
	b, okB := c34Text(rest)
	nd.Observe(a, b, err1 == nil, err2 == nil)
	nd.Assert("c34.left-substring.no-error", nd.And(err1 == nil, err2 == nil))
	nd.Assert("c34.left-substring.strings", nd.And(okA, okB))
	nd.Assert("c34.left-substring.concat", a+b == s)
}

// ---- REVERSE(REVERSE(s)) == s -----------------------------------------------

func VerifC34ReverseInvolution() {
	s := c34Str("s")
	e := NewReverse(nil, NewReverse(nil, c34SF(0)))
	res, err := e.Eval(nil, sql.Row{s})
	nd.Reach("c34.reverse")
	out, ok := c34Text(res)
	nd.Observe(out, ok, err == nil)
	nd.Assert("c34.reverse.no-error", err == nil)
	nd.Assert("c34.reverse.involution", nd.And(ok, out == s))
}

// one application really reverses (so the involution is not satisfied by the identity).
func VerifC34ReverseOnce() {
	s := c34Str("s")
	res, err := NewReverse(nil, c34SF(0)).Eval(nil, sql.Row{s})
	nd.Reach("c34.reverse1")
	out, ok := c34Text(res)
	nd.Observe(out, ok, err == nil)
	nd.Assert("c34.reverse1.no-error", nd.And(err == nil, ok))
	nd.Assert("c34.reverse1.length", len(out) == len(s))
	good := true
	for i := 0; i < len(s) && i < len(out); i++ {
		a, b := out[i], s[len(s)-1-i]
		good = nd.And(good, a == b)
	}
	nd.Assert("c34.reverse1.mirrored", good)
}

// ---- UNHEX(HEX(s)) == s -----------------------------------------------------

func VerifC34HexUnhexRoundTrip() {
	s := c34Str("s")
	e := NewUnhex(nil, NewHex(nil, c34SF(0)))
	res, err := e.Eval(nil, sql.Row{s})
	nd.Reach("c34.unhex-hex")
	out, ok := c34Text(res)
	nd.Observe(out, ok, err == nil)
	nd.Assert("c34.unhex-hex.no-error", err == nil)
	nd.Assert("c34.unhex-hex.identity", nd.And(ok, out == s))
}

// ---- FROM_BASE64(TO_BASE64(s)) == s -----------------------------------------

func VerifC34Base64() {
	s := c34Str("s")
	e := NewFromBase64(nil, NewToBase64(nil, c34SF(0)))
	res, err := e.Eval(nil, sql.Row{s})
	nd.Reach("c34.base64")
	out, ok := c34Text(res)
	nd.Observe(out, ok, err == nil)
	nd.Assert("c34.base64.no-error", err == nil)
	nd.Assert("c34.base64.identity", nd.And(ok, out == s))
}

// ---- INET_NTOA(INET_ATON(a)) == a for canonical dotted quads ----------------

func VerifC34InetRoundTrip() {
	b := nd.Bytes("b", 4)
	a := strconv.Itoa(int(b[0])) + "." + strconv.Itoa(int(b[1])) + "." + strconv.Itoa(int(b[2])) + "." + strconv.Itoa(int(b[3]))
	e := NewInetNtoa(nil, NewInetAton(nil, c34SF(0)))
	res, err := e.Eval(nil, sql.Row{a})
	nd.Reach("c34.inet")
	out, ok := c34Text(res)
	nd.Observe(a, out, ok, err == nil)
	nd.Assert("c34.inet.no-error", err == nil)
	nd.Assert("c34.inet.identity", nd.And(ok, out == a))
}

// INET_ATON alone on canonical quads: the big-endian value.
func VerifC34InetAtonValue() {
	b := nd.Bytes("b", 4)
	a := strconv.Itoa(int(b[0])) + "." + strconv.Itoa(int(b[1])) + "." + strconv.Itoa(int(b[2])) + "." + strconv.Itoa(int(b[3]))
	res, err := NewInetAton(nil, c34SF(0)).Eval(nil, sql.Row{a})
	nd.Reach("c34.inet-aton")
	v, ok := res.(uint32)
	nd.Observe(a, v, ok, err == nil)
	nd.Assert("c34.inet-aton.no-error", err == nil)
	want := uint32(b[0])<<24 | uint32(b[1])<<16 | uint32(b[2])<<8 | uint32(b[3])
	nd.Assert("c34.inet-aton.value", nd.And(ok, v == want))
}

// CONV is its own inverse between base 10 and any base b: CONV(CONV(n,10,b),b,10) = n
// for a decimal numeral n without sign or leading zero, and CONV(n,10,b) is the
// canonical base-b numeral of n (digits 0-9A-Z, checked by positional evaluation).
// (Added after the seeded change /verif/seeded/C34-conv-base36 — the source-base
// bound "> 36" turned into ">= 36" — was missed: CONV was outside the first check.)
func VerifC34ConvRoundTrip() {
	bases := [...]int64{2, 3, 8, 10, 16, 35, 36}
	var b int64
	if nd.Tier() == 0 {
		b = bases[nd.Pick("c34conv.b", len(bases))]
	} else {
		b = int64(nd.IntRange("c34conv.b", 2, 36))
	}
	l := nd.IntRange("c34conv.len", 1, nd.Bound(2, 3))
	n := nd.String("c34conv.n", l)
	var val uint64
	for i := 0; i < l; i++ {
		nd.Assume(n[i] >= '0' && n[i] <= '9')
		val = val*10 + uint64(n[i]-'0')
	}
	nd.Assume(l == 1 || n[0] != '0')
	lit := func(v int64) sql.Expression { return expression.NewLiteral(v, types.Int64) }
	there, err := NewConv(nil, c34SF(0), lit(10), lit(b)).Eval(nil, sql.Row{n})
	nd.Reach("c34.conv")
	nd.Assert("c34.conv.to-base.no-error", err == nil)
	ts, ok := there.(string)
	nd.Assert("c34.conv.to-base.is-text", ok)
	if !ok {
		return
	}
	// positional value of the numeral
	var pos uint64
	digitsOK := len(ts) > 0
	for i := 0; i < len(ts); i++ {
		c := ts[i]
		var dv uint64
		isNum := c >= '0' && c <= '9'
		isUp := c >= 'A' && c <= 'Z'
		if isNum {
			dv = uint64(c - '0')
		} else {
			dv = uint64(c-'A') + 10
		}
		digitsOK = nd.And(digitsOK, nd.And(nd.Or(isNum, isUp), dv < uint64(b)))
		pos = pos*uint64(b) + dv
	}
	nd.Assert("c34.conv.to-base.numeral-denotes-n", nd.And(digitsOK, pos == val))
	back, err := NewConv(nil, c34SF(0), lit(b), lit(10)).Eval(nil, sql.Row{ts})
	nd.Assert("c34.conv.back.no-error", err == nil)
	bs, ok := back.(string)
	nd.Observe(n, ts, bs, ok)
	nd.Assert("c34.conv.round-trip", nd.And(ok, bs == n))
}

// BIN of a negative BIGINT is the 64-digit two's complement pattern: digit i
// (from the left) is bit 63-i of the value, and it agrees with CONV(n, 10, 2).
// (BIN(-256) came out with 57 digits before the repair of binForNegativeInt64.)
func VerifC34BinNegative() {
	v := nd.Int64("c34bin.v")
	nd.Assume(v < 0)
	res, err := NewBin(nil, c34IF(0)).Eval(nil, sql.Row{v})
	nd.Reach("c34.bin.negative")
	s, ok := c34Text(res)
	nd.Assert("c34.bin.negative.no-error", err == nil && ok)
	nd.Assert("c34.bin.negative.64-digits", len(s) == 64)
	if len(s) != 64 {
		return
	}
	good := true
	for i := 0; i < 64; i++ {
		bit := (uint64(v) >> uint(63-i)) & 1
		good = nd.And(good, s[i] == '0'+byte(bit))
	}
	nd.Assert("c34.bin.negative.digits-are-the-bits", good)
}
