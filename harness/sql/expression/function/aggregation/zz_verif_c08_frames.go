//go:build verif

package aggregation

import (
	"math"

	nd "github.com/dolthub/go-mysql-server/internal/zzverifnd"
	"github.com/dolthub/go-mysql-server/sql"
	"github.com/dolthub/go-mysql-server/sql/expression"
)

// C08, part (iii): the window side of the aggregates (window_functions.go):
// SumAgg, AvgAgg, CountAgg, MinAgg/MaxAgg, FirstAgg/LastAgg and the VAR/STDDEV
// family, i.e. everything that answers a frame [s,e) from per-partition state
// (prefix sums, NULL-count prefix arrays, partition start) built by
// StartPartition.
//
// Each harness builds a buffer of L rows, chooses a partition [ps,pe) anywhere
// inside it (so ps > 0 occurs, and rows outside the partition exist on both
// sides), fills the cells of the partition with NULL-or-value, calls the REAL
// StartPartition and then Compute for a short sequence of frames on the SAME
// object, the last of which is an arbitrary frame ps <= s <= e <= pe. Every
// result of the sequence is compared with a reference computed directly from
// the cells of that frame (NULLs ignored; no non-NULL cell -> NULL, COUNT -> 0).
//
// Rows outside the partition hold the non-NULL value 1000, which no cell of
// the partition can hold: a frame answered from a wrong row shows in the value.

const c08wPoison = 1000

// values of a cell of the float-based aggregates (SUM, AVG, VAR, STDDEV go
// through float64, which the executor handles concretely only): index 0 = NULL
var c08wVals = [5]int64{0, 1, 4, 0, -2}

type c08wPart struct {
	buf    sql.WindowBuffer
	v      []int64
	null   []bool
	ps, pe int
}

const (
	c08wCellsPicked   = iota // NULL or one of the first nvals-1 values of c08wVals (concrete selector)
	c08wCellsNullPick        // NULL (concrete selector) or a full-range symbolic int64
)

func c08wSetup(tag string, cells, nvals int) c08wPart {
	L := nd.Bound(4, 5)
	ps := nd.IntRange(tag+".ps", 0, L)
	pe := nd.IntRange(tag+".pe", ps, L)
	p := c08wPart{buf: make(sql.WindowBuffer, L), v: make([]int64, L), null: make([]bool, L), ps: ps, pe: pe}
	for r := 0; r < L; r++ {
		var cell interface{}
		name := c08Name(tag+".x", r)
		if r < ps || r >= pe {
			p.v[r] = c08wPoison
			cell = int64(c08wPoison)
		} else {
			switch cells {
			case c08wCellsPicked:
				k := nd.Pick(name, nvals)
				p.v[r], p.null[r] = c08wVals[k], k == 0
			default:
				p.v[r], p.null[r] = nd.Int64(name), nd.Pick(name+".null", 2) == 1
			}
			cell = p.v[r]
			if p.null[r] {
				cell = nil
			}
		}
		p.buf[r] = sql.Row{cell}
	}
	return p
}

// c08wPred: the frame a sliding ROWS frame had one row earlier (both bounds one
// row back, clipped to the partition start).
func c08wPred(iv sql.WindowInterval, ps int) sql.WindowInterval {
	s, e := iv.Start-1, iv.End-1
	if s < ps {
		s = ps
	}
	if e < s {
		e = s
	}
	return sql.WindowInterval{Start: s, End: e}
}

// c08wSeq: the frames computed, in order, on one object after StartPartition.
// The last one is an arbitrary frame of the partition; restart asks for an
// earlier partition [0,ps) to be started and computed on the same object first
// (WindowPartitionIter reuses the function objects from partition to partition).
func c08wSeq(tag string, ps, pe int) (seq []sql.WindowInterval, restart bool) {
	s := nd.IntRange(tag+".s", ps, pe)
	e := nd.IntRange(tag+".e", s, pe)
	focus := sql.WindowInterval{Start: s, End: e}
	switch nd.Pick(tag+".hist", 5) {
	case 0:
		return []sql.WindowInterval{focus}, false
	case 1:
		return []sql.WindowInterval{c08wPred(focus, ps), focus}, false
	case 2:
		return []sql.WindowInterval{{Start: ps, End: pe}, {Start: s, End: s}, focus}, false
	case 3:
		p1 := c08wPred(focus, ps)
		return []sql.WindowInterval{c08wPred(p1, ps), p1, focus}, false
	default:
		return []sql.WindowInterval{focus}, true
	}
}

func c08wRun(tag string, fn sql.WindowFunction, p c08wPart, check func(iv sql.WindowInterval, res interface{}, err error)) {
	seq, restart := c08wSeq(tag, p.ps, p.pe)
	if restart {
		prev := sql.WindowInterval{Start: 0, End: p.ps}
		err := fn.StartPartition(nil, prev, p.buf)
		nd.Assert(tag+".start-partition-no-error", err == nil)
		res, err := fn.Compute(nil, prev, p.buf)
		check(prev, res, err)
	}
	err := fn.StartPartition(nil, sql.WindowInterval{Start: p.ps, End: p.pe}, p.buf)
	nd.Assert(tag+".start-partition-no-error", err == nil)
	for _, iv := range seq {
		res, err := fn.Compute(nil, iv, p.buf)
		check(iv, res, err)
	}
	nd.Reach(tag)
}

// c08wSumCnt: sum and number of the non-NULL cells of the frame, from the cells.
func c08wSumCnt(p c08wPart, iv sql.WindowInterval) (sum int64, cnt int) {
	for r := iv.Start; r < iv.End; r++ {
		if !p.null[r] {
			sum += p.v[r]
			cnt++
		}
	}
	return sum, cnt
}

func c08wFloat(res interface{}) (float64, bool) {
	switch x := res.(type) {
	case float64:
		return x, true
	case int64:
		return float64(x), true
	}
	return 0, false
}

// c08wNoValue collects, per path, the answers to frames without a non-NULL
// cell; they are asserted after all other checks of the path (a violated
// assertion ends its path), split into the two input classes.
type c08wNoValue struct {
	emptyFrameNull   bool // every empty frame [s,s) answered NULL
	allNullFrameNull bool // every non-empty frame of NULLs only answered NULL
}

func (n *c08wNoValue) note(iv sql.WindowInterval, res interface{}) {
	if iv.End == iv.Start {
		n.emptyFrameNull = n.emptyFrameNull && res == nil
	} else {
		n.allNullFrameNull = n.allNullFrameNull && res == nil
	}
}

func (n *c08wNoValue) assert(tag string) {
	nd.Assert(tag+".null-on-empty-frame", n.emptyFrameNull)
	nd.Assert(tag+".null-on-all-null-frame", n.allNullFrameNull)
}

// SUM(x) OVER (frame): sum of the non-NULL cells of the frame; NULL when the
// frame holds no non-NULL cell.
func VerifC08WinSumFrames() {
	const tag = "c08.wsum"
	p := c08wSetup(tag, c08wCellsPicked, nd.Bound(4, 5))
	nv := &c08wNoValue{true, true}
	c08wRun(tag, NewSumAgg(c08X()), p, func(iv sql.WindowInterval, res interface{}, err error) {
		nd.Assert(tag+".no-error", err == nil)
		sum, cnt := c08wSumCnt(p, iv)
		if cnt == 0 {
			nv.note(iv, res)
			return
		}
		got, ok := c08wFloat(res)
		nd.Assert(tag+".kind", ok)
		nd.Assert(tag+".value", got == float64(sum))
	})
	nv.assert(tag)
}

// AVG(x) OVER (frame): sum / number of the non-NULL cells; NULL when there is none.
func VerifC08WinAvgFrames() {
	const tag = "c08.wavg"
	p := c08wSetup(tag, c08wCellsPicked, nd.Bound(4, 5))
	nv := &c08wNoValue{true, true}
	c08wRun(tag, NewAvgAgg(c08X()), p, func(iv sql.WindowInterval, res interface{}, err error) {
		nd.Assert(tag+".no-error", err == nil)
		sum, cnt := c08wSumCnt(p, iv)
		if cnt == 0 {
			nv.note(iv, res)
			return
		}
		got, ok := c08wFloat(res)
		nd.Assert(tag+".kind", ok)
		nd.Assert(tag+".value", got == float64(sum)/float64(cnt))
	})
	nv.assert(tag)
}

// COUNT(x) / COUNT(*) OVER (frame): number of non-NULL cells / of rows; 0 on a
// frame without any.
func VerifC08WinCountFrames() {
	const tag = "c08.wcount"
	star := nd.Pick(tag+".star", 2) == 1
	p := c08wSetup(tag, c08wCellsNullPick, 0)
	var e sql.Expression = c08X()
	if star {
		e = expression.NewStar()
	}
	c08wRun(tag, NewCountAgg(e), p, func(iv sql.WindowInterval, res interface{}, err error) {
		_, cnt := c08wSumCnt(p, iv)
		if star {
			cnt = iv.End - iv.Start
		}
		got, ok := res.(int64)
		nd.Assert(tag+".kind", err == nil && ok)
		nd.Assert(tag+".value", got == int64(cnt))
	})
}

// MIN(x) / MAX(x) OVER (frame).
func VerifC08WinMinMaxFrames() {
	const tag = "c08.wminmax"
	max := nd.Pick(tag+".max", 2) == 1
	p := c08wSetup(tag, c08wCellsNullPick, 0)
	var fn sql.WindowFunction = NewMinAgg(c08X())
	if max {
		fn = NewMaxAgg(c08X())
	}
	c08wRun(tag, fn, p, func(iv sql.WindowInterval, res interface{}, err error) {
		want, have := c08Extreme(p.v[iv.Start:iv.End], p.null[iv.Start:iv.End], max)
		c08CheckValue(tag, res, err, want, have)
	})
}

// FIRST_VALUE(x) / LAST_VALUE(x) OVER (frame) (FirstAgg / LastAgg, also behind
// the FIRST/LAST aggregates): the value of the first / last row of the frame,
// NULL for an empty frame. Where the edge row holds NULL but another row of the
// frame does not, both readings (NULL, or the nearest non-NULL value) are
// accepted, as for the buffers above.
func VerifC08WinFirstLastFrames() {
	const tag = "c08.wedge"
	last := nd.Pick(tag+".last", 2) == 1
	p := c08wSetup(tag, c08wCellsNullPick, 0)
	var fn sql.WindowFunction = NewFirstAgg(c08X())
	if last {
		fn = NewLastAgg(c08X())
	}
	c08wRun(tag, fn, p, func(iv sql.WindowInterval, res interface{}, err error) {
		nd.Assert(tag+".no-error", err == nil)
		// nearest non-NULL value seen from the edge
		var nn int64
		have := false
		for k := iv.Start; k < iv.End; k++ {
			r := k
			if !last {
				r = iv.End - 1 - (k - iv.Start) // backwards, so that the first one wins
			}
			if !p.null[r] {
				nn, have = p.v[r], true
			}
		}
		if !have {
			nd.Assert(tag+".null-when-no-value", res == nil)
			return
		}
		edge := iv.Start
		if last {
			edge = iv.End - 1
		}
		got, isInt := res.(int64)
		if p.null[edge] {
			nd.Assert(tag+".edge-row-null.null-or-nearest-value", res == nil || (isInt && got == nn))
			return
		}
		nd.Assert(tag+".kind", isInt)
		nd.Assert(tag+".value-of-edge-row", got == p.v[edge])
	})
}

// VAR_POP / VAR_SAMP / STDDEV_POP / STDDEV_SAMP OVER (frame): with c non-NULL
// cells of mean m and S = sum of (x-m)^2: S/c, S/(c-1), and their square
// roots; NULL when c = 0 (population) or c <= 1 (sample).
func VerifC08WinVarStdFrames() {
	const tag = "c08.wvar"
	kind := nd.Pick(tag+".kind", 4)
	p := c08wSetup(tag, c08wCellsPicked, nd.Bound(3, 4))
	var fn sql.WindowFunction
	switch kind {
	case 0:
		fn = NewVarPopAgg(c08X())
	case 1:
		fn = NewVarSampAgg(c08X())
	case 2:
		fn = NewStdDevPopAgg(c08X())
	default:
		fn = NewStdDevSampAgg(c08X())
	}
	sample := kind == 1 || kind == 3
	c08wRun(tag, fn, p, func(iv sql.WindowInterval, res interface{}, err error) {
		nd.Assert(tag+".no-error", err == nil)
		sum, cnt := c08wSumCnt(p, iv)
		div := cnt
		if sample {
			div = cnt - 1
		}
		if div <= 0 {
			nd.Assert(tag+".null-when-too-few-values", res == nil)
			return
		}
		m := float64(sum) / float64(cnt)
		var s2 float64
		for r := iv.Start; r < iv.End; r++ {
			if !p.null[r] {
				d := float64(p.v[r]) - m
				s2 += d * d
			}
		}
		want := s2 / float64(div)
		if kind >= 2 {
			want = math.Sqrt(want)
		}
		got, ok := res.(float64)
		nd.Assert(tag+".kind", ok)
		nd.Assert(tag+".value", got == want)
	})
}
