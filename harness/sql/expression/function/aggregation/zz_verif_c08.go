//go:build verif

package aggregation

import (
	"io"
	"math"

	nd "github.com/dolthub/go-mysql-server/internal/zzverifnd"
	"github.com/dolthub/go-mysql-server/sql"
	"github.com/dolthub/go-mysql-server/sql/expression"
	"github.com/dolthub/go-mysql-server/sql/types"
)

// C08: aggregate and window functions compute their defined values.
//
// Part (i): window frame arithmetic. Every framer is an iterator over the rows
// of one partition [ps, pe); its state is the index of the current row. The
// harnesses take ONE STEP from an arbitrary valid state (ps <= idx <= pe) and
// assert the frame returned for row idx together with the successor state
// (idx+1), so that histories of any length follow by induction from the
// initial state, which is asserted to be idx == ps.
//
// Part (ii): aggregation buffers over sequences of NULL-or-BIGINT values.

// Partition indexes and the N of "N PRECEDING/FOLLOWING" are drawn as full-range
// uint32 and widened to int (0 .. 2^32-1): the zero high half keeps the
// solver's 64-bit adders cheap, and i+N+1 cannot overflow int.

// ---------------------------------------------------------------------------
// ROWS frames: rowFramerBase

const (
	c08StartUnboundedPreceding = iota
	c08StartNPreceding
	c08StartCurrentRow
	c08StartNFollowing
)

const (
	c08EndNPreceding = iota
	c08EndCurrentRow
	c08EndNFollowing
	c08EndUnboundedFollowing
)

// c08RowsParent builds the unpositioned framer exactly as the 16 generated
// constructors NewRows<Start>To<End>Framer do: one start field and one end
// field set, everything else zero.
func c08RowsParent(sk, ek, sN, eN int) *rowFramerBase {
	f := &rowFramerBase{}
	switch sk {
	case c08StartUnboundedPreceding:
		f.unboundedPreceding = true
	case c08StartNPreceding:
		f.startNPreceding = sN
	case c08StartCurrentRow:
		f.startCurrentRow = true
	case c08StartNFollowing:
		f.startNFollowing = sN
	}
	switch ek {
	case c08EndNPreceding:
		f.endNPreceding = eN
	case c08EndCurrentRow:
		f.endCurrentRow = true
	case c08EndNFollowing:
		f.endNFollowing = eN
	case c08EndUnboundedFollowing:
		f.unboundedFollowing = true
	}
	return f
}

func c08Partition() (ps, pe int) {
	ps, pe = int(nd.Uint32("ps")), int(nd.Uint32("pe"))
	nd.Assume(ps <= pe)
	return ps, pe
}

// c08Index: the current row, ps <= idx <= pe (idx == pe: all rows consumed)
func c08Index(ps, pe int) int {
	i := int(nd.Uint32("idx"))
	nd.Assume(nd.And(ps <= i, i <= pe))
	return i
}

func c08Offset(name string) int { return int(nd.Uint32(name)) }

// One step of a ROWS framer from an arbitrary valid state.
//
// Definition (SQL standard / MySQL "ROWS BETWEEN s AND e"): the frame of row i
// is the set of rows j of the partition with i+s <= j <= i+e, where
// s/e = -N (N PRECEDING), 0 (CURRENT ROW), +N (N FOLLOWING), -inf/+inf
// (UNBOUNDED). As a half-open index interval: [max(ps,i+s), min(pe,i+e+1)),
// which is empty when the lower bound is not below the upper bound.
func VerifC08RowsFramerStep() {
	sk, ek := nd.Pick("start", 4), nd.Pick("end", 4)
	sN, eN := c08Offset("sN"), c08Offset("eN")
	// The partition and the current row are enumerated (the engine's solver
	// session does not decide the 64-bit sum comparisons when all of ps, pe,
	// idx and the offsets are symbolic); the offsets stay full-range symbolic,
	// so every relative position of i-N / i+N+1 to ps / pe is covered.
	mx := nd.Bound(4, 6)
	ps := nd.IntRange("ps", 0, mx)
	pe := nd.IntRange("pe", ps, mx)
	i := nd.IntRange("idx", ps, pe)

	fi, err := c08RowsParent(sk, ek, sN, eN).NewFramer(sql.WindowInterval{Start: ps, End: pe})
	f, ok := fi.(*rowFramerBase)
	nd.Assert("c08.rows.newframer", err == nil && ok)
	if !ok {
		return
	}
	nd.Assert("c08.rows.initial-state-is-first-row", f.idx == ps)

	// arbitrary state: current row i, whatever frame the previous step left behind
	f.idx = i
	f.frameStart, f.frameEnd = nd.Int("prevStart"), nd.Int("prevEnd")

	got, err := f.Next(nil, nil)
	nd.Reach("c08.rows.step")
	if i == pe {
		nd.Assert("c08.rows.eof-after-last-row", err == io.EOF)
		return
	}
	nd.Assert("c08.rows.no-eof-before-last-row", err == nil)
	if err != nil {
		return
	}
	nd.Observe(got.Start, got.End)
	nd.Assert("c08.rows.advances-one-row", f.idx == i+1)
	cur, cerr := f.Interval()
	nd.Assert("c08.rows.interval-is-last-frame", cerr == nil && cur == got && f.FirstIdx() == got.Start && f.LastIdx() == got.End)

	// the definition
	lo := ps // unbounded preceding
	switch sk {
	case c08StartNPreceding:
		lo = i - sN
	case c08StartCurrentRow:
		lo = i
	case c08StartNFollowing:
		lo = i + sN
	}
	if lo < ps {
		lo = ps
	}
	hi := pe // unbounded following
	switch ek {
	case c08EndNPreceding:
		hi = i - eN + 1
	case c08EndCurrentRow:
		hi = i + 1
	case c08EndNFollowing:
		hi = i + eN + 1
	}
	if hi > pe {
		hi = pe
	}

	nd.Assert("c08.rows.frame.start-le-end", got.Start <= got.End)
	if lo < hi {
		nd.Assert("c08.rows.frame.exact-when-nonempty", nd.And(got.Start == lo, got.End == hi))
	} else {
		nd.Assert("c08.rows.frame.empty-when-start-after-end", got.Start == got.End)
	}
	inside := nd.And(ps <= got.Start, got.End <= pe)
	// Input class of its own: the END bound "N PRECEDING" lies more than one
	// row before the first row of the partition (i-N+1 < ps); the frame is empty.
	if ek == c08EndNPreceding {
		if i-eN+1 < ps {
			nd.Assert("c08.rows.frame.inside-partition.end-bound-before-partition", inside)
			return
		}
	}
	nd.Assert("c08.rows.frame.inside-partition", inside)
}

// A framer whose partition was never set yields no frame.
func VerifC08FramersUnset() {
	sk, ek := nd.Pick("start", 4), nd.Pick("end", 4)
	rf := c08RowsParent(sk, ek, c08Offset("sN"), c08Offset("eN"))
	_, e1 := rf.Next(nil, nil)
	_, e2 := rf.Interval()
	_, e3 := NewPartitionFramer().Next(nil, nil)
	_, e4 := NewPartitionFramer().Interval()
	_, e5 := NewGroupByFramer().Next(nil, nil)
	_, e6 := NewGroupByFramer().Interval()
	_, e7 := NewPeerGroupFramer(nil).Next(nil, nil)
	_, e8 := NewPeerGroupFramer(nil).Interval()
	nd.Reach("c08.unset")
	nd.Assert("c08.unset.next-eof", e1 == io.EOF && e3 == io.EOF && e5 == io.EOF && e7 == io.EOF)
	nd.Assert("c08.unset.interval-error", e2 == ErrPartitionNotSet && e4 == ErrPartitionNotSet && e6 == ErrPartitionNotSet && e8 == ErrPartitionNotSet)
}

// ---------------------------------------------------------------------------
// PartitionFramer: every row of the partition gets the whole partition.

func VerifC08PartitionFramerStep() {
	ps, pe := c08Partition()
	i := c08Index(ps, pe)
	// The partition [0,0) is the placeholder WindowPartitionIter.initializePartitions
	// creates for an empty input ("lets window framing pass through ... to
	// provide a default result"); PartitionFramer answers it with one frame
	// {0,0}. It is asserted separately below; the step law is stated for all
	// other partitions, including empty ones at ps > 0.
	placeholder := nd.And(ps == 0, pe == 0)

	fi, err := NewPartitionFramer().NewFramer(sql.WindowInterval{Start: ps, End: pe})
	f, ok := fi.(*PartitionFramer)
	nd.Assert("c08.partition.newframer", err == nil && ok)
	if !ok {
		return
	}
	nd.Assert("c08.partition.initial-state-is-first-row", f.idx == ps)
	f.idx = i
	got, err := f.Next(nil, nil)
	nd.Reach("c08.partition.step")
	if placeholder {
		nd.Assert("c08.partition.placeholder.frame-is-empty-partition", err == io.EOF || (err == nil && got.Start == 0 && got.End == 0))
		return
	}
	if i == pe {
		nd.Assert("c08.partition.eof-after-last-row", err == io.EOF)
		return
	}
	nd.Assert("c08.partition.no-eof-before-last-row", err == nil)
	if err != nil {
		return
	}
	nd.Observe(got.Start, got.End)
	nd.Assert("c08.partition.advances-one-row", f.idx == i+1)
	nd.Assert("c08.partition.frame-is-whole-partition", nd.And(got.Start == ps, got.End == pe))
	nd.Assert("c08.partition.first-last-idx", f.FirstIdx() == ps && f.LastIdx() == pe)
}

// GroupByFramer: one frame per partition (= group), covering all of it.
func VerifC08GroupByFramer() {
	ps, pe := c08Partition()
	fi, err := NewGroupByFramer().NewFramer(sql.WindowInterval{Start: ps, End: pe})
	f, ok := fi.(*GroupByFramer)
	nd.Assert("c08.groupby.newframer", err == nil && ok)
	if !ok {
		return
	}
	got, e1 := f.Next(nil, nil)
	_, e2 := f.Next(nil, nil)
	_, e3 := f.Next(nil, nil)
	nd.Reach("c08.groupby")
	nd.Assert("c08.groupby.one-frame-then-eof", e1 == nil && e2 == io.EOF && e3 == io.EOF)
	nd.Assert("c08.groupby.frame-is-whole-group", nd.And(got.Start == ps, got.End == pe))
	nd.Assert("c08.groupby.first-last-idx", f.FirstIdx() == ps && f.LastIdx() == pe)
}

// ---------------------------------------------------------------------------
// PeerGroupFramer (RANGE ... CURRENT ROW peers): whole history over one
// partition of a buffer.

func c08Cell(name string) (cell interface{}, v int64, null bool) {
	v = nd.Int64(name)
	null = nd.Bool(name + ".null")
	cell = v
	if null {
		cell = nil
	}
	return cell, v, null
}

func c08Name(p string, i int) string { return p + string(rune('0'+i)) }

// The frame of row i is its peer group: the maximal run of consecutive rows of
// the partition, containing i, whose ORDER BY keys are all equal (NULL keys
// are peers of each other). The buffer has L rows, the partition [ps,pe) is any
// sub-interval, so rows outside the partition with equal keys exist.
func VerifC08PeerGroupFramerHistory() {
	L := nd.IntRange("L", 0, nd.Bound(4, 5))
	ps := nd.IntRange("ps", 0, L)
	pe := nd.IntRange("pe", ps, L)
	ncol := nd.IntRange("ncol", 1, 2)
	buf := make(sql.WindowBuffer, L)
	vals := make([][]int64, L)
	nulls := make([][]bool, L)
	for r := 0; r < L; r++ {
		row := make(sql.Row, ncol)
		vals[r] = make([]int64, ncol)
		nulls[r] = make([]bool, ncol)
		for c := 0; c < ncol; c++ {
			row[c], vals[r][c], nulls[r][c] = c08Cell(c08Name(c08Name("k", r)+"_", c))
		}
		buf[r] = row
	}
	orderBy := make([]sql.Expression, ncol)
	for c := 0; c < ncol; c++ {
		orderBy[c] = expression.NewGetField(c, types.Int64, c08Name("k", c), true)
	}
	// same[j]: rows j-1 and j have equal ORDER BY keys
	same := make([]bool, L+1)
	for j := 1; j < L; j++ {
		s := true
		for c := 0; c < ncol; c++ {
			an, bn := nulls[j-1][c], nulls[j][c]
			s = nd.And(s, nd.Or(nd.And(an, bn), nd.And(nd.And(!an, !bn), vals[j-1][c] == vals[j][c])))
		}
		same[j] = s
	}

	fi, err := NewPeerGroupFramer(orderBy).NewFramer(sql.WindowInterval{Start: ps, End: pe})
	nd.Assert("c08.peers.newframer", err == nil)
	f := fi
	for i := ps; i < pe; i++ {
		got, err := f.Next(nil, buf)
		nd.Assert("c08.peers.no-eof-before-last-row", err == nil)
		if err != nil {
			return
		}
		nd.Observe(got.Start, got.End)
		// definition: walk outwards from i while adjacent keys are equal
		lo := ps
		for j := ps + 1; j <= i; j++ {
			brk := !same[j]
			if brk {
				lo = j
			}
		}
		hi := pe
		for j := pe - 1; j > i; j-- {
			brk := !same[j]
			if brk {
				hi = j
			}
		}
		nd.Assert("c08.peers.frame-is-peer-group", nd.And(got.Start == lo, got.End == hi))
		nd.Assert("c08.peers.frame-contains-current-row-inside-partition", nd.And(nd.And(ps <= got.Start, got.Start <= i), nd.And(i < got.End, got.End <= pe)))
	}
	_, err = f.Next(nil, buf)
	nd.Reach("c08.peers.history")
	// The partition [0,0) placeholder: see VerifC08PartitionFramerStep.
	if ps == 0 && pe == 0 {
		return
	}
	nd.Assert("c08.peers.eof-after-last-row", err == io.EOF)
}

// ---------------------------------------------------------------------------
// Aggregation buffers

// c08Feed draws n (0..4) values, each NULL or a symbolic BIGINT, feeds them to
// the buffer as one-column rows and returns them.
func c08Feed(b sql.AggregationBuffer) (v []int64, null []bool, ok bool) {
	n := nd.IntRange("n", 0, 4)
	v, null = make([]int64, n), make([]bool, n)
	for i := 0; i < n; i++ {
		var cell interface{}
		cell, v[i], null[i] = c08Cell(c08Name("x", i))
		if err := b.Update(nil, sql.Row{cell}); err != nil {
			nd.Assert("c08.buffer.update-no-error", false)
			return v, null, false
		}
	}
	return v, null, true
}

func c08X() sql.Expression { return expression.NewGetField(0, types.Int64, "x", true) }

func c08CountOracle(null []bool) int64 {
	var c int64
	for _, n := range null {
		if !n {
			c++
		}
	}
	return c
}

// COUNT(x): number of non-NULL values; 0 on empty input.
func VerifC08CountBuffer() {
	b := NewCountBuffer(c08X())
	_, null, ok := c08Feed(b)
	if !ok {
		return
	}
	res, err := b.Eval(nil)
	nd.Reach("c08.count")
	got, isInt := res.(int64)
	nd.Assert("c08.count.kind", err == nil && isInt)
	nd.Observe(got)
	nd.Assert("c08.count.non-null-values", got == c08CountOracle(null))
}

// COUNT(*): number of rows.
func VerifC08CountStarBuffer() {
	b := NewCountBuffer(expression.NewStar())
	v, _, ok := c08Feed(b)
	if !ok {
		return
	}
	res, err := b.Eval(nil)
	nd.Reach("c08.countstar")
	got, isInt := res.(int64)
	nd.Assert("c08.countstar.kind", err == nil && isInt)
	nd.Observe(got)
	nd.Assert("c08.countstar.rows", got == int64(len(v)))
}

// c08Extreme: MIN (sign -1) or MAX (sign +1) of the non-NULL values by plain
// comparison.
func c08Extreme(v []int64, null []bool, max bool) (best int64, have bool) {
	for i := range v {
		if null[i] {
			continue
		}
		x := v[i]
		better := nd.Or(!have, nd.Or(nd.And(max, x > best), nd.And(!max, x < best)))
		if better {
			best = x
		}
		have = true
	}
	return best, have
}

func c08CheckValue(id string, res interface{}, err error, want int64, have bool) {
	nd.Assert(id+".no-error", err == nil)
	if !have {
		nd.Assert(id+".null-when-no-value", res == nil)
		return
	}
	got, isInt := res.(int64)
	nd.Assert(id+".kind", isInt)
	nd.Observe(got)
	nd.Assert(id+".value", got == want)
}

func VerifC08MinBuffer() {
	b := NewMinBuffer(c08X())
	v, null, ok := c08Feed(b)
	if !ok {
		return
	}
	res, err := b.Eval(nil)
	nd.Reach("c08.min")
	want, have := c08Extreme(v, null, false)
	c08CheckValue("c08.min", res, err, want, have)
}

func VerifC08MaxBuffer() {
	b := NewMaxBuffer(c08X())
	v, null, ok := c08Feed(b)
	if !ok {
		return
	}
	res, err := b.Eval(nil)
	nd.Reach("c08.max")
	want, have := c08Extreme(v, null, true)
	c08CheckValue("c08.max", res, err, want, have)
}

// BIT_AND / BIT_OR / BIT_XOR: fold over the non-NULL values taken as unsigned
// 64-bit integers (a negative BIGINT is its two's complement bit pattern, as in
// MySQL: BIT_OR(-1) = 18446744073709551615); the neutral element on empty input.
func c08Bit(id string, b sql.AggregationBuffer, op int) {
	v, null, ok := c08Feed(b)
	if !ok {
		return
	}
	res, err := b.Eval(nil)
	nd.Reach(id)
	want := uint64(0)
	if op == 0 {
		want = math.MaxUint64
	}
	for i := range v {
		if null[i] {
			continue
		}
		switch op {
		case 0:
			want &= uint64(v[i])
		case 1:
			want |= uint64(v[i])
		default:
			want ^= uint64(v[i])
		}
	}
	got, isUint := res.(uint64)
	nd.Assert(id+".kind", err == nil && isUint)
	nd.Observe(got)
	nd.Assert(id+".fold", got == want)
}

func VerifC08BitAndBuffer() { c08Bit("c08.bitand", NewBitAndBuffer(c08X()), 0) }
func VerifC08BitOrBuffer()  { c08Bit("c08.bitor", NewBitOrBuffer(c08X()), 1) }
func VerifC08BitXorBuffer() { c08Bit("c08.bitxor", NewBitXorBuffer(c08X()), 2) }

// FIRST / LAST ("returns the first/last value in a sequence of elements of an
// aggregation"). These are not MySQL functions and the description does not say
// whether a NULL counts as a value, so where the two readings differ (the
// first/last ROW holds NULL but another row does not) either answer is
// accepted: the value of that row (NULL) or the first/last non-NULL value.
func c08Edge(id string, b sql.AggregationBuffer, last bool) {
	v, null, ok := c08Feed(b)
	if !ok {
		return
	}
	res, err := b.Eval(nil)
	nd.Reach(id)
	nd.Assert(id+".no-error", err == nil)
	n := len(v)
	// first/last non-NULL value
	var nn int64
	have := false
	for k := 0; k < n; k++ {
		i := k
		if !last {
			i = n - 1 - k // scan backwards so that the first one wins
		}
		if !null[i] {
			nn, have = v[i], true
		}
	}
	if !have {
		nd.Assert(id+".null-when-no-value", res == nil)
		return
	}
	edge := 0
	if last {
		edge = n - 1
	}
	if null[edge] {
		got, isInt := res.(int64)
		nd.Assert(id+".edge-row-null.null-or-nearest-value", res == nil || (isInt && got == nn))
		return
	}
	got, isInt := res.(int64)
	nd.Assert(id+".kind", isInt)
	nd.Observe(got)
	nd.Assert(id+".value-of-edge-row", got == v[edge])
}

func VerifC08FirstBuffer() { c08Edge("c08.first", NewFirstBuffer(c08X()), false) }
func VerifC08LastBuffer()  { c08Edge("c08.last", NewLastBuffer(c08X()), true) }

// ---------------------------------------------------------------------------
// Window side of MIN / MAX (MIN(x) OVER (... frame ...)): MinAgg/MaxAgg.Compute
// over an arbitrary interval of a buffer.

func c08Buffer(L int) (buf sql.WindowBuffer, v []int64, null []bool) {
	buf = make(sql.WindowBuffer, L)
	v, null = make([]int64, L), make([]bool, L)
	for r := 0; r < L; r++ {
		var cell interface{}
		cell, v[r], null[r] = c08Cell(c08Name("x", r))
		buf[r] = sql.Row{cell}
	}
	return buf, v, null
}

func VerifC08WindowMinMax() {
	max := nd.Pick("max", 2) == 1
	L := nd.IntRange("L", 0, 4)
	s := nd.IntRange("s", 0, L)
	e := nd.IntRange("e", s, L)
	buf, v, null := c08Buffer(L)
	var fn sql.WindowFunction = NewMinAgg(c08X())
	if max {
		fn = NewMaxAgg(c08X())
	}
	res, err := fn.Compute(nil, sql.WindowInterval{Start: s, End: e}, buf)
	nd.Reach("c08.window-minmax")
	want, have := c08Extreme(v[s:e], null[s:e], max)
	c08CheckValue("c08.window-minmax", res, err, want, have)
}

// One framer step fed into MIN(x) OVER (ROWS BETWEEN s AND e): the value is
// the minimum over the rows of the frame as defined (NULL for an empty frame).
// Everything but the row values is concrete here (small offsets 0..2).
func VerifC08RowsFrameIntoMinAgg() {
	sk, ek := nd.Pick("start", 4), nd.Pick("end", 4)
	sN, eN := 0, 0
	if sk == c08StartNPreceding || sk == c08StartNFollowing {
		sN = nd.IntRange("sN", 0, 2)
	}
	if ek == c08EndNPreceding || ek == c08EndNFollowing {
		eN = nd.IntRange("eN", 0, 2)
	}
	L := nd.IntRange("L", 1, 3)
	ps := nd.IntRange("ps", 0, L-1)
	pe := nd.IntRange("pe", ps+1, L)
	i := nd.IntRange("idx", ps, pe-1)
	buf, v, null := c08Buffer(L)

	fi, err := c08RowsParent(sk, ek, sN, eN).NewFramer(sql.WindowInterval{Start: ps, End: pe})
	f, ok := fi.(*rowFramerBase)
	if err != nil || !ok {
		nd.Assert("c08.rows-into-min.newframer", false)
		return
	}
	f.idx = i
	frame, err := f.Next(nil, buf)
	nd.Assert("c08.rows-into-min.frame", err == nil)
	if err != nil {
		return
	}

	lo := ps
	switch sk {
	case c08StartNPreceding:
		lo = i - sN
	case c08StartCurrentRow:
		lo = i
	case c08StartNFollowing:
		lo = i + sN
	}
	if lo < ps {
		lo = ps
	}
	hi := pe
	switch ek {
	case c08EndNPreceding:
		hi = i - eN + 1
	case c08EndCurrentRow:
		hi = i + 1
	case c08EndNFollowing:
		hi = i + eN + 1
	}
	if hi > pe {
		hi = pe
	}
	if hi <= lo {
		lo, hi = ps, ps // empty
	}
	want, have := c08Extreme(v[lo:hi], null[lo:hi], false)

	agg := NewMinAgg(c08X())
	// same input class as c08.rows.frame.inside-partition.end-bound-before-partition
	if ek == c08EndNPreceding && i-eN+1 < ps {
		res, err := agg.Compute(nil, frame, buf)
		nd.Reach("c08.rows-into-min.end-bound-before-partition")
		c08CheckValue("c08.rows-into-min.end-bound-before-partition", res, err, want, have)
		return
	}
	res, err := agg.Compute(nil, frame, buf)
	nd.Reach("c08.rows-into-min")
	c08CheckValue("c08.rows-into-min", res, err, want, have)
}
