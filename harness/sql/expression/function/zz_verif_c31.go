//go:build verif

package function

import (
	"time"

	nd "github.com/dolthub/go-mysql-server/internal/zzverifnd"
	"github.com/dolthub/go-mysql-server/sql"
	"github.com/dolthub/go-mysql-server/sql/expression"
	"github.com/dolthub/go-mysql-server/sql/types"
)

// C31 (date arithmetic part): TIMESTAMPDIFF agrees with differences of day and
// second counts computed independently of package time.
//
// Two DATETIME values are built from a calendar date chosen by concrete
// selectors (boundary years 1000..9999, months 1/2/3/12, days 1/28..31 where
// they exist) and a time of day of symbolic hour / minute / second; the real
// (*TimestampDiff).Eval runs for every unit. The reference counts days with the
// civil-from-days formula (proleptic Gregorian calendar, written out below) and
// seconds as days*86400 + time of day.
// (Added after the seeded change /verif/seeded/C31-timestampdiff-duration-saturation
// — computing the difference through time.Duration, which saturates at ~292
// years — was missed: the first C31 check covered TIME unit arithmetic only.)

var c31fYears = [...]int{1000, 1707, 1970, 2000, 2262, 9999}
var c31fMonths = [...]int{1, 2, 3, 12}

// c31fDaysFromCivil: days since 1970-01-01 of y-m-d (m 1..12), proleptic Gregorian.
func c31fDaysFromCivil(y, m, d int64) int64 {
	if m <= 2 {
		y--
	}
	era := y / 400 // y >= 0 here
	yoe := y - era*400
	mp := (m + 9) % 12
	doy := (153*mp+2)/5 + d - 1
	doe := yoe*365 + yoe/4 - yoe/100 + doy
	return era*146097 + doe - 719468
}

func c31fLastDay(y, m int) int {
	switch m {
	case 2:
		if y%4 == 0 && (y%100 != 0 || y%400 == 0) {
			return 29
		}
		return 28
	case 4, 6, 9, 11:
		return 30
	}
	return 31
}

// c31fMoment: a DATETIME and its reference (days since epoch, second of day).
// symbolic: the time of day is 23:59:ss with a symbolic second; otherwise it is
// one of three concrete ones. (Measured: with hour and minute symbolic as well
// the solver answers unknown on a fifth of the final assertions within 20 s, and
// the 64-bit division of a symbolic value by 60 / 3600 / 86400 that the units
// from MINUTE up perform is not decided at all — so those units run on concrete
// times of day.)
func c31fMoment(tag string, years []int, months []int, symbolic bool) (time.Time, int64, int64) {
	y := years[nd.Pick(tag+".y", len(years))]
	m := months[nd.Pick(tag+".m", len(months))]
	d := 1
	if nd.Pick(tag+".dsel", 2) == 1 {
		d = c31fLastDay(y, m)
	}
	var h, mi, s uint8
	if symbolic {
		h, mi, s = 23, 59, nd.Uint8(tag+".s")
		nd.Assume(s < 60)
	} else {
		switch nd.Pick(tag+".tod", 3) {
		case 1:
			h, mi, s = 12, 34, 56
		case 2:
			h, mi, s = 23, 59, 59
		}
	}
	t := time.Date(y, time.Month(m), d, int(h), int(mi), int(s), 0, time.UTC)
	return t, c31fDaysFromCivil(int64(y), int64(m), int64(d)), int64(h)*3600 + int64(mi)*60 + int64(s)
}

func c31fTrunc(a, b int64) int64 { return a / b } // Go division truncates toward zero, like TIMESTAMPDIFF

var c31fUnits = [...]string{"microsecond", "second", "minute", "hour", "day", "week"}

func c31fDiff(id string, u int, t1, t2 time.Time, d1, s1, d2, s2 int64) {
	e := NewTimestampDiff(nil, expression.NewLiteral(c31fUnits[u], types.LongText),
		expression.NewGetField(0, types.DatetimeMaxPrecision, "a", false),
		expression.NewGetField(1, types.DatetimeMaxPrecision, "b", false))
	res, err := e.Eval(nil, sql.Row{t1, t2})
	nd.Reach(id)
	nd.Assert(id+".no-error", err == nil)
	if err != nil {
		return
	}
	got, ok := res.(int64)
	nd.Assert(id+".int64", ok)
	secs := (d2-d1)*86400 + (s2 - s1)
	var want int64
	switch u {
	case 0:
		want = secs * 1000000
	case 1:
		want = secs
	case 2:
		want = c31fTrunc(secs, 60)
	case 3:
		want = c31fTrunc(secs, 3600)
	case 4:
		want = c31fTrunc(secs, 86400)
	default:
		want = c31fTrunc(secs, 7*86400)
	}
	nd.Observe(got, want)
	nd.Assert(id+".agrees-with-day-and-second-counts", got == want)
}

// MICROSECOND and SECOND with a symbolic second.
func VerifC31TimestampDiffSeconds() {
	years, months := []int{1000, 2000, 9999}, []int{2, 12}
	t1, d1, s1 := c31fMoment("c31f.sa", years, months, true)
	t2, d2, s2 := c31fMoment("c31f.sb", years, months, true)
	c31fDiff("c31f.seconds", nd.Pick("c31f.sunit", 2), t1, t2, d1, s1, d2, s2)
}

// MINUTE .. WEEK on concrete times of day.
func VerifC31TimestampDiffUnits() {
	years, months := c31fYears[:], c31fMonths[:]
	if nd.Tier() == 0 {
		years, months = []int{1000, 1970, 2262, 9999}, []int{2, 12}
	}
	t1, d1, s1 := c31fMoment("c31f.ua", years, months, false)
	t2, d2, s2 := c31fMoment("c31f.ub", years, months, false)
	c31fDiff("c31f.units", 2+nd.Pick("c31f.uunit", 4), t1, t2, d1, s1, d2, s2)
}
