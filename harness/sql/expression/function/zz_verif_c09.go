//go:build verif

package function

import (
	nd "github.com/dolthub/go-mysql-server/internal/zzverifnd"
	"github.com/dolthub/go-mysql-server/sql"
	"github.com/dolthub/go-mysql-server/sql/expression"
	"github.com/dolthub/go-mysql-server/sql/types"
)

// C09 for the conditional functions IF, IFNULL, NULLIF over integer columns
// (see sql/expression/zz_verif_c09.go for the oracle): the value returned is
// NULL only if the function is nullable, and otherwise a valid value of the
// reported type.

var c09fTypes = [...]sql.Type{types.Int8, types.Int16, types.Int32, types.Int64, types.Uint8, types.Uint16, types.Uint32, types.Uint64}

const (
	c09fInt8   = 0
	c09fUint8  = 4
	c09fUint64 = 7
)

func c09fUnsigned(ti int) bool { return ti >= c09fUint8 }

// c09fField: column idx of type ti. mode 0: NOT NULL column with a value;
// 1: nullable column holding a value; 2: nullable column holding NULL.
func c09fField(idx int, name string, ti int, mode int) (sql.Expression, interface{}) {
	f := expression.NewGetField(idx, c09fTypes[ti], name, mode != 0)
	if mode == 2 {
		return f, nil
	}
	switch ti {
	case 0:
		return f, nd.Int8(name)
	case 1:
		return f, nd.Int16(name)
	case 2:
		return f, nd.Int32(name)
	case 3:
		return f, nd.Int64(name)
	case 4:
		return f, nd.Uint8(name)
	case 5:
		return f, nd.Uint16(name)
	case 6:
		return f, nd.Uint32(name)
	}
	return f, nd.Uint64(name)
}

func c09fWide(v interface{}) (neg bool, bits uint64, ok bool) {
	switch x := v.(type) {
	case int8:
		return x < 0, uint64(int64(x)), true
	case int16:
		return x < 0, uint64(int64(x)), true
	case int32:
		return x < 0, uint64(int64(x)), true
	case int64:
		return x < 0, uint64(x), true
	case int:
		return x < 0, uint64(int64(x)), true
	case uint8:
		return false, uint64(x), true
	case uint16:
		return false, uint64(x), true
	case uint32:
		return false, uint64(x), true
	case uint64:
		return false, x, true
	case uint:
		return false, uint64(x), true
	}
	return false, 0, false
}

func c09fWideOfType(c interface{}, t sql.Type) (neg bool, bits uint64, kindOK bool) {
	switch t {
	case types.Int8:
		x, ok := c.(int8)
		return x < 0, uint64(int64(x)), ok
	case types.Int16:
		x, ok := c.(int16)
		return x < 0, uint64(int64(x)), ok
	case types.Int24, types.Int32:
		x, ok := c.(int32)
		return x < 0, uint64(int64(x)), ok
	case types.Int64:
		x, ok := c.(int64)
		return x < 0, uint64(x), ok
	case types.Uint8:
		x, ok := c.(uint8)
		return false, uint64(x), ok
	case types.Uint16:
		x, ok := c.(uint16)
		return false, uint64(x), ok
	case types.Uint24, types.Uint32:
		x, ok := c.(uint32)
		return false, uint64(x), ok
	case types.Uint64:
		x, ok := c.(uint64)
		return false, x, ok
	}
	return false, 0, false
}

func c09fCheck(id string, e sql.Expression, row sql.Row) {
	v, err := e.Eval(nil, row)
	if err != nil {
		nd.Reach(id + ".eval-error")
		return
	}
	t := e.Type(nil)
	nd.Reach(id)
	if v == nil {
		nd.Assert(id+".null-only-if-nullable", e.IsNullable(nil))
		return
	}
	nd.Assert(id+".integer-type", types.IsInteger(t))
	if !types.IsInteger(t) {
		return
	}
	c, inRange, cerr := t.Convert(nil, v)
	nd.Assert(id+".convert-ok", cerr == nil)
	nd.Assert(id+".in-range", inRange == sql.InRange)
	vn, vb, vok := c09fWide(v)
	cn, cb, kindOK := c09fWideOfType(c, t)
	nd.Assert(id+".value-is-integer", vok)
	nd.Assert(id+".converted-kind", kindOK)
	nd.Assert(id+".value-preserved", nd.And(vn == cn, vb == cb))
}

var c09fModePairs = [...][2]int{{0, 0}, {1, 1}, {2, 1}, {1, 2}, {2, 2}, {0, 2}, {2, 0}}

// VerifC09If: IF(c, a, b); c a TINYINT column (NULL or symbolic), a and b
// integer columns whose common type is an integer type (BIGINT UNSIGNED with a
// signed type generalises to DECIMAL(65,0): excluded).
func VerifC09If() {
	at := nd.Pick("atype", len(c09fTypes))
	bt := nd.Pick("btype", len(c09fTypes))
	nd.Assume(!(at == c09fUint64 && !c09fUnsigned(bt)))
	nd.Assume(!(bt == c09fUint64 && !c09fUnsigned(at)))
	m := c09fModePairs[nd.Pick("modes", nd.Bound(4, len(c09fModePairs)))]
	cond, cv := c09fField(0, "c", c09fInt8, nd.Pick("cmode", 2)+1)
	a, av := c09fField(1, "a", at, m[0])
	b, bv := c09fField(2, "b", bt, m[1])
	c09fCheck("c09.if", NewIf(nil, cond, a, b), sql.Row{cv, av, bv})
}

// VerifC09IfNull: IFNULL(a, b), same type pairs, every NULL mode.
func VerifC09IfNull() {
	at := nd.Pick("atype", len(c09fTypes))
	bt := nd.Pick("btype", len(c09fTypes))
	nd.Assume(!(at == c09fUint64 && !c09fUnsigned(bt)))
	nd.Assume(!(bt == c09fUint64 && !c09fUnsigned(at)))
	m := c09fModePairs[nd.Pick("modes", len(c09fModePairs))]
	a, av := c09fField(0, "a", at, m[0])
	b, bv := c09fField(1, "b", bt, m[1])
	c09fCheck("c09.ifnull", NewIfNull(nil, a, b), sql.Row{av, bv})
}

// VerifC09NullIf: NULLIF(a, b) for column types of the same signedness (the
// equality test of mixed signedness goes through float64, which is not
// executable symbolically).
func VerifC09NullIf() {
	at := nd.Pick("atype", len(c09fTypes))
	bt := nd.Pick("btype", len(c09fTypes))
	nd.Assume(c09fUnsigned(at) == c09fUnsigned(bt))
	m := c09fModePairs[nd.Pick("modes", nd.Bound(5, len(c09fModePairs)))]
	a, av := c09fField(0, "a", at, m[0])
	b, bv := c09fField(1, "b", bt, m[1])
	c09fCheck("c09.nullif", NewNullIf(nil, a, b), sql.Row{av, bv})
}
