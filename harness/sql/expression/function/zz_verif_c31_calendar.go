//go:build verif

package function

import (
	"math"
	"time"

	nd "github.com/dolthub/go-mysql-server/internal/zzverifnd"
	"github.com/dolthub/go-mysql-server/sql"
	"github.com/dolthub/go-mysql-server/sql/expression"
	"github.com/dolthub/go-mysql-server/sql/types"
)

// C31 (calendar part): DATE_ADD / DATE_SUB, DATEDIFF, LAST_DAY, TO_DAYS / FROM_DAYS,
// TIMESTAMPDIFF(MONTH|QUARTER|YEAR), DAYOFWEEK / WEEKDAY / DAYOFYEAR against a
// civil-calendar reference written here (proleptic Gregorian, as MySQL uses).
//
// The reference uses two unrelated formulas: the day number of a date is counted
// from the number of leap days before the year plus a cumulative month table
// (c31cDayNo); the date of a day number is recovered with the era / day-of-era
// decomposition (c31cCivil). Every harness path checks that the two agree on its
// operands (".oracle-self-check"), so a slip in either shows up as a violation of
// that id rather than as a false alarm against the code.
//
// Dates are chosen by concrete selectors (boundary years x months x days); the
// only symbolic quantity is the second of the time of day in
// VerifC31CalAddSecondsSymbolic.

// ---------------------------------------------------------------- reference

func c31cLeap(y int) bool { return y%4 == 0 && (y%100 != 0 || y%400 == 0) }

var c31cCum = [13]int{0, 31, 59, 90, 120, 151, 181, 212, 243, 273, 304, 334, 365}

func c31cMonthLen(y, m int) int {
	n := c31cCum[m] - c31cCum[m-1]
	if m == 2 && c31cLeap(y) {
		n++
	}
	return n
}

// c31cDayNo: days since 1970-01-01 of y-m-d; y >= 1, m 1..12.
func c31cDayNo(y, m, d int) int64 {
	p := int64(y - 1)
	n := p*365 + p/4 - p/100 + p/400 + int64(c31cCum[m-1]) + int64(d-1)
	if m > 2 && c31cLeap(y) {
		n++
	}
	return n - 719162 // 0001-01-01 .. 1970-01-01
}

// c31cCivil: the date of day number z (days since 1970-01-01), z >= -719468.
func c31cCivil(z int64) (int, int, int) {
	z += 719468
	era := z / 146097
	doe := z - era*146097
	yoe := (doe - doe/1460 + doe/36524 - doe/146096) / 365
	y := yoe + era*400
	doy := doe - (365*yoe + yoe/4 - yoe/100)
	mp := (5*doy + 2) / 153
	d := doy - (153*mp+2)/5 + 1
	m := mp + 3
	if mp >= 10 {
		m = mp - 9
	}
	if m <= 2 {
		y++
	}
	return int(y), int(m), int(d)
}

func c31cFloorDiv(a, b int64) int64 {
	q := a / b
	if a%b != 0 && (a < 0) != (b < 0) {
		q--
	}
	return q
}

// c31cStamp: a calendar moment, microsecond resolution.
type c31cStamp struct{ y, m, d, h, mi, s, us int }

func (w c31cStamp) time() time.Time {
	return time.Date(w.y, time.Month(w.m), w.d, w.h, w.mi, w.s, w.us*1000, time.UTC)
}

func (w c31cStamp) sod() int64 { return int64(w.h)*3600 + int64(w.mi)*60 + int64(w.s) }

func c31cDigits(b []byte, v, n int) []byte {
	var tmp [8]byte
	for i := n - 1; i >= 0; i-- {
		tmp[i] = byte('0' + v%10)
		v /= 10
	}
	return append(b, tmp[:n]...)
}

// text: 'YYYY-MM-DD', plus ' hh:mm:ss' when clock, plus '.ffffff' when micros.
func (w c31cStamp) text(clock, micros bool) string {
	b := c31cDigits(nil, w.y, 4)
	b = append(b, '-')
	b = c31cDigits(b, w.m, 2)
	b = append(b, '-')
	b = c31cDigits(b, w.d, 2)
	if clock {
		b = append(b, ' ')
		b = c31cDigits(b, w.h, 2)
		b = append(b, ':')
		b = c31cDigits(b, w.mi, 2)
		b = append(b, ':')
		b = c31cDigits(b, w.s, 2)
		if micros {
			b = append(b, '.')
			b = c31cDigits(b, w.us, 6)
		}
	}
	return string(b)
}

func c31cIsTime(res interface{}, w c31cStamp) bool {
	t, ok := res.(time.Time)
	if !ok {
		return false
	}
	return t.Year() == w.y && int(t.Month()) == w.m && t.Day() == w.d &&
		t.Hour() == w.h && t.Minute() == w.mi && t.Second() == w.s && t.Nanosecond() == w.us*1000
}

func c31cIsText(res interface{}, want string) bool {
	s, ok := res.(string)
	return ok && s == want
}

// c31cShiftSeconds: w moved by n microseconds (floor semantics), ok=false when the
// result leaves years 1..9999.
func c31cShiftMicros(w c31cStamp, n int64) (c31cStamp, bool) {
	const dayUs = 86400 * 1000000
	tot := w.sod()*1000000 + int64(w.us) + n
	dd := c31cFloorDiv(tot, dayUs)
	rem := tot - dd*dayUs
	z := c31cDayNo(w.y, w.m, w.d) + dd
	if z < c31cDayNo(1, 1, 1) || z > c31cDayNo(9999, 12, 31) {
		return c31cStamp{}, false
	}
	y, m, d := c31cCivil(z)
	sec := rem / 1000000
	return c31cStamp{y, m, d, int(sec / 3600), int(sec / 60 % 60), int(sec % 60), int(rem % 1000000)}, true
}

// c31cShiftMonths: MySQL's rule for INTERVAL n MONTH (YEAR = 12 months, QUARTER = 3):
// move the (year, month) pair, keep the day, clamp it to the length of the target
// month. ok=false when the year leaves 1..9999.
func c31cShiftMonths(w c31cStamp, n int64) (c31cStamp, bool, bool) {
	tot := int64(w.y)*12 + int64(w.m-1) + n
	y := c31cFloorDiv(tot, 12)
	m := tot - y*12 + 1
	if y < 1 || y > 9999 {
		return c31cStamp{}, false, false
	}
	r := w
	r.y, r.m = int(y), int(m)
	clamped := false
	if l := c31cMonthLen(r.y, r.m); r.d > l {
		r.d, clamped = l, true
	}
	return r, clamped, true
}

// ---------------------------------------------------------------- operand selection

var c31cYearsQuick = []int{1000, 2000, 2024, 9999}
var c31cYearsAll = []int{1000, 1582, 1900, 1999, 2000, 2024, 2262, 9999}
var c31cMonthsQuick = []int{1, 2, 3, 12}
var c31cMonthsAll = []int{1, 2, 3, 4, 10, 12}
var c31cDays = [...]int{1, 28, 29, 30, 31}

func c31cPickDate(tag string, years, months []int) (int, int, int) {
	y := years[nd.Pick(tag+".y", len(years))]
	m := months[nd.Pick(tag+".m", len(months))]
	d := c31cDays[nd.Pick(tag+".d", len(c31cDays))]
	nd.Assume(d <= c31cMonthLen(y, m))
	return y, m, d
}

func c31cTierSets() ([]int, []int) {
	if nd.Tier() == 0 {
		return c31cYearsQuick, c31cMonthsQuick
	}
	return c31cYearsAll, c31cMonthsAll
}

func c31cSelfCheck(id string, y, m, d int) {
	cy, cm, cd := c31cCivil(c31cDayNo(y, m, d))
	nd.Assert(id+".oracle-self-check", cy == y && cm == m && cd == d)
}

// Operand forms of the date argument.
const (
	c31cFormDate      = iota // DATE column (time.Time at midnight)
	c31cFormDatetime         // DATETIME(6) column, 23:59:59.000000
	c31cFormText             // character string 'YYYY-MM-DD'
	c31cFormTextClock        // character string 'YYYY-MM-DD 23:59:59'
	c31cForms
)

// c31cPickForm: every form at the thorough tier, the two given ones at the quick tier.
func c31cPickForm(tag string, q0, q1 int) int {
	if nd.Tier() == 0 {
		return [2]int{q0, q1}[nd.Pick(tag, 2)]
	}
	return nd.Pick(tag, c31cForms)
}

// c31cPickCount: one of the first `quick` counts at the quick tier, any at the thorough tier.
func c31cPickCount(tag string, counts []int64, quick int) int64 {
	if nd.Tier() == 0 {
		return counts[nd.Pick(tag, quick)]
	}
	return counts[nd.Pick(tag, len(counts))]
}

// c31cOperand: the expression, its row and the moment it denotes.
func c31cOperand(form, y, m, d int) (sql.Expression, sql.Row, c31cStamp) {
	w := c31cStamp{y: y, m: m, d: d}
	switch form {
	case c31cFormDate:
		return expression.NewGetField(0, types.Date, "d", false), sql.Row{w.time()}, w
	case c31cFormDatetime:
		w.h, w.mi, w.s = 23, 59, 59
		return expression.NewGetField(0, types.DatetimeMaxPrecision, "d", false), sql.Row{w.time()}, w
	case c31cFormText:
		return expression.NewLiteral(w.text(false, false), types.LongText), nil, w
	}
	w.h, w.mi, w.s = 23, 59, 59
	return expression.NewLiteral(w.text(true, false), types.LongText), nil, w
}

// c31cSameValue: res denotes w in the representation DATE_ADD documents for the
// operand form and unit class (hms: the interval has a time part).
func c31cSameValue(form int, hms bool, res interface{}, w c31cStamp) bool {
	switch form {
	case c31cFormDate, c31cFormDatetime:
		return c31cIsTime(res, w)
	case c31cFormText:
		if hms || w.us != 0 {
			return c31cIsText(res, w.text(true, w.us != 0))
		}
		return c31cIsText(res, w.text(false, false))
	}
	return c31cIsText(res, w.text(true, w.us != 0))
}

func c31cOffset(sub bool, date sql.Expression, n int64, unit string) sql.Expression {
	iv := expression.NewInterval(expression.NewLiteral(n, types.Int64), unit)
	var e sql.Expression
	var err error
	if sub {
		e, err = NewDateSub(nil, date, iv)
	} else {
		e, err = NewDateAdd(nil, date, iv)
	}
	if err != nil {
		panic(err)
	}
	return e
}

// c31cBack: applies the opposite operation to a result and returns the value.
func c31cBack(form int, sub bool, res interface{}, n int64, unit string) (interface{}, error) {
	var arg sql.Expression
	var row sql.Row
	switch form {
	case c31cFormDate:
		arg, row = expression.NewGetField(0, types.Date, "d", false), sql.Row{res}
	case c31cFormDatetime:
		arg, row = expression.NewGetField(0, types.DatetimeMaxPrecision, "d", false), sql.Row{res}
	default:
		arg = expression.NewLiteral(res, types.LongText)
	}
	return c31cOffset(!sub, arg, n, unit).Eval(nil, row)
}

// ---------------------------------------------------------------- DATE_ADD / DATE_SUB, day-based units

var c31cDayCounts = [...]int64{1, -1, 28, 31, 59, 366, -366, 146097, -36525, 0, 2, 29, 30, -31, 365, 1461, 36524, -146097}

// INTERVAL n DAY | WEEK.
func VerifC31CalAddDays() {
	years, months := c31cTierSets()
	y, m, d := c31cPickDate("c31c.days", years, months)
	c31cSelfCheck("c31c.days", y, m, d)
	form := c31cPickForm("c31c.days.form", c31cFormDate, c31cFormTextClock)
	arg, row, w := c31cOperand(form, y, m, d)
	n := c31cPickCount("c31c.days.n", c31cDayCounts[:], 9)
	unit, scale := "DAY", int64(1)
	if nd.Tier() == 1 && nd.Pick("c31c.days.week", 2) == 1 {
		unit, scale = "WEEK", 7
	}
	sub := nd.Pick("c31c.days.sub", 2) == 1
	shift := n * scale
	if sub {
		shift = -shift
	}
	res, err := c31cOffset(sub, arg, n, unit).Eval(nil, row)
	nd.Reach("c31c.days")
	nd.Assert("c31c.days.no-error", err == nil)
	z := c31cDayNo(y, m, d) + shift
	if z < c31cDayNo(1, 1, 1) || z > c31cDayNo(9999, 12, 31) {
		nd.Assert("c31c.days.out-of-range-is-null", res == nil)
		return
	}
	want := w
	want.y, want.m, want.d = c31cCivil(z)
	nd.Observe(want.y, want.m, want.d)
	nd.Assert("c31c.days.agrees-with-day-number", c31cSameValue(form, false, res, want))
	back, err2 := c31cBack(form, sub, res, n, unit)
	nd.Assert("c31c.days.add-then-sub-restores", err2 == nil && c31cSameValue(form, false, back, w))
}

// ---------------------------------------------------------------- DATE_ADD / DATE_SUB, month-based units

var c31cMonthCounts = [...]int64{1, -13, 1200, -1200, -1, 11, 0, 2, -2, 3, 12, -12, 13, 24, 48, -48}

// INTERVAL n MONTH | QUARTER | YEAR with end-of-month clamping.
func VerifC31CalAddMonths() {
	years, months := c31cTierSets()
	y, m, d := c31cPickDate("c31c.months", years, months)
	form := c31cPickForm("c31c.months.form", c31cFormDatetime, c31cFormText)
	arg, row, w := c31cOperand(form, y, m, d)
	n := c31cPickCount("c31c.months.n", c31cMonthCounts[:], 4)
	unit, scale := "MONTH", int64(1)
	switch nd.Pick("c31c.months.unit", 3) {
	case 1:
		unit, scale = "QUARTER", 3
	case 2:
		unit, scale = "YEAR", 12
	}
	sub := nd.Pick("c31c.months.sub", 2) == 1
	shift := n * scale
	if sub {
		shift = -shift
	}
	res, err := c31cOffset(sub, arg, n, unit).Eval(nil, row)
	nd.Reach("c31c.months")
	nd.Assert("c31c.months.no-error", err == nil)
	want, clamped, ok := c31cShiftMonths(w, shift)
	if !ok {
		nd.Assert("c31c.months.out-of-range-is-null", res == nil)
		return
	}
	nd.Observe(want.y, want.m, want.d, clamped)
	nd.Assert("c31c.months.agrees-with-month-rule", c31cSameValue(form, false, res, want))
	if !clamped {
		// no clamping on the way out: the way back lands on a month that has day w.d
		back, err2 := c31cBack(form, sub, res, n, unit)
		nd.Assert("c31c.months.add-then-sub-restores", err2 == nil && c31cSameValue(form, false, back, w))
	}
}

// ---------------------------------------------------------------- DATE_ADD / DATE_SUB, clock units

var c31cClockCounts = [...]int64{1, -1, 3600, 86399, -86400, 31536000, 60, -31622400, 0, 59, 61, 3599, 86400, 86401}

// INTERVAL n SECOND | MINUTE | HOUR | MICROSECOND on concrete operands.
func VerifC31CalAddClock() {
	years, months := c31cTierSets()
	if nd.Tier() == 0 {
		years = []int{1000, 2024, 9999}
	}
	y, m, d := c31cPickDate("c31c.clock", years, months)
	form := c31cPickForm("c31c.clock.form", c31cFormDate, c31cFormTextClock)
	arg, row, w := c31cOperand(form, y, m, d)
	n := c31cPickCount("c31c.clock.n", c31cClockCounts[:], 7)
	unit, scale := "SECOND", int64(1000000)
	switch nd.Pick("c31c.clock.unit", 4) {
	case 1:
		unit, scale = "MINUTE", 60*1000000
	case 2:
		unit, scale = "HOUR", 3600*1000000
	case 3:
		unit, scale = "MICROSECOND", 1
	}
	sub := nd.Pick("c31c.clock.sub", 2) == 1
	shift := n * scale
	if sub {
		shift = -shift
	}
	res, err := c31cOffset(sub, arg, n, unit).Eval(nil, row)
	nd.Reach("c31c.clock")
	nd.Assert("c31c.clock.no-error", err == nil)
	// Defect class (TimeDelta.apply, sql/expression/interval.go:311-314): the interval is
	// turned into a time.Duration; beyond 2^63 ns (~292 years: 2562047 hours) the
	// product wraps and a wrong date comes back. The wrapped value has no meaning
	// worth mirroring, so on that class the correct expectation is asserted alone.
	if an := max(n, -n); an > math.MaxInt64/(scale*1000) {
		if want, ok := c31cShiftMicros(w, shift); ok {
			nd.Assert("c31c.clock.interval-beyond-292-years-wraps", c31cSameValue(form, true, res, want))
		} else {
			nd.Assert("c31c.clock.interval-beyond-292-years-wraps", res == nil)
		}
		return
	}
	want, ok := c31cShiftMicros(w, shift)
	if !ok {
		nd.Assert("c31c.clock.out-of-range-is-null", res == nil)
		return
	}
	nd.Observe(want.y, want.m, want.d, want.h, want.mi, want.s, want.us)
	// a DATE operand moved by a clock interval becomes a DATETIME
	nd.Assert("c31c.clock.agrees-with-second-count", c31cSameValue(form, true, res, want))
}

// INTERVAL n SECOND on a DATETIME whose second is symbolic (23:59:ss): the result is
// compared through its Unix second count, which is linear in ss.
func VerifC31CalAddSecondsSymbolic() {
	years, months := []int{1000, 2024, 9999}, []int{2, 12}
	y := years[nd.Pick("c31c.symsec.y", len(years))]
	m := months[nd.Pick("c31c.symsec.m", len(months))]
	d := c31cMonthLen(y, m)
	s := nd.Uint8("c31c.symsec.s")
	nd.Assume(s < 60)
	t := time.Date(y, time.Month(m), d, 23, 59, int(s), 0, time.UTC)
	counts := [...]int64{1, -1, 59, 60, 86400, -86400, 31536000}
	n := counts[nd.Pick("c31c.symsec.n", len(counts))]
	sub := nd.Pick("c31c.symsec.sub", 2) == 1
	shift := n
	if sub {
		shift = -n
	}
	arg := expression.NewGetField(0, types.DatetimeMaxPrecision, "d", false)
	res, err := c31cOffset(sub, arg, n, "SECOND").Eval(nil, sql.Row{t})
	nd.Reach("c31c.symsec")
	nd.Assert("c31c.symsec.no-error", err == nil)
	total := c31cDayNo(y, m, d)*86400 + 23*3600 + 59*60 + int64(s) + shift
	inRange := total < (c31cDayNo(9999, 12, 31)+1)*86400
	if res == nil {
		nd.Assert("c31c.symsec.null-only-out-of-range", !inRange)
		return
	}
	rt, ok := res.(time.Time)
	nd.Assert("c31c.symsec.datetime", ok)
	nd.Assert("c31c.symsec.agrees-with-second-count", nd.And(inRange, nd.And(rt.Unix() == total, rt.Nanosecond() == 0)))
}

// ---------------------------------------------------------------- DATEDIFF

// DATEDIFF(a, b) = day number of a - day number of b, times of day ignored.
func VerifC31CalDateDiff() {
	years, months := c31cTierSets()
	if nd.Tier() == 0 {
		months = []int{2, 12}
	}
	ya, ma, da := c31cPickDate("c31c.datediff.a", years, months)
	// the second operand: same year, the neighbouring year, 2000, 9999 (the last two
	// are more than 292 years from most first operands: the known saturation class)
	near := ya + 1
	if near > 9999 {
		near = ya - 1
	}
	yb := [4]int{ya, near, 2000, 9999}[nd.Pick("c31c.datediff.b.y", 4)]
	mb := [2]int{2, 12}[nd.Pick("c31c.datediff.b.m", 2)]
	db := c31cMonthLen(yb, mb)
	fa := c31cPickForm("c31c.datediff.fa", c31cFormDatetime, c31cFormText)
	ea, rowa, _ := c31cOperand(fa, ya, ma, da)
	var eb sql.Expression
	wb := c31cStamp{y: yb, m: mb, d: db, h: 0, mi: 0, s: 1}
	if nd.Pick("c31c.datediff.fb", 2) == 0 {
		eb = expression.NewLiteral(wb.time(), types.DatetimeMaxPrecision)
	} else {
		eb = expression.NewLiteral(wb.text(true, false), types.LongText)
	}
	res, err := NewDateDiff(nil, ea, eb).Eval(nil, rowa)
	nd.Reach("c31c.datediff")
	nd.Assert("c31c.datediff.no-error", err == nil)
	got, ok := res.(int64)
	nd.Assert("c31c.datediff.int64", ok)
	want := c31cDayNo(ya, ma, da) - c31cDayNo(yb, mb, db)
	nd.Observe(got, want)
	// Known defect class (not re-reported): the difference is taken through
	// time.Duration, which saturates at 2^63 ns = 106751.99 days; the reference
	// follows the code there and the class is asserted last under its own id.
	const sat = 106752
	if want > sat || want < -sat {
		mirrored := int64(sat)
		if want < 0 {
			mirrored = -sat
		}
		nd.Assert("c31c.datediff.saturated-value", got == mirrored)
		nd.Assert("c31c.datediff.far-apart-known-saturation", got == want)
		return
	}
	nd.Assert("c31c.datediff.agrees-with-day-numbers", got == want)
}

// ---------------------------------------------------------------- LAST_DAY, day-of-week / day-of-year, TO_DAYS / FROM_DAYS

func VerifC31CalDateParts() {
	years, months := c31cTierSets()
	y, m, d := c31cPickDate("c31c.parts", years, months)
	c31cSelfCheck("c31c.parts", y, m, d)
	form := nd.Pick("c31c.parts.form", c31cForms)
	arg, row, _ := c31cOperand(form, y, m, d)
	z := c31cDayNo(y, m, d)
	dow := int((z%7+7+4)%7) + 1  // 1970-01-01 was a Thursday; 1 = Sunday
	wd := int((z%7 + 7 + 3) % 7) // 0 = Monday
	doy := int(z-c31cDayNo(y, 1, 1)) + 1

	last, err := NewLastDay(nil, arg).Eval(nil, row)
	nd.Reach("c31c.parts")
	nd.Assert("c31c.parts.last-day", err == nil && c31cIsTime(last, c31cStamp{y: y, m: m, d: c31cMonthLen(y, m)}))

	r1, err1 := NewDayOfWeek(nil, arg).Eval(nil, row)
	g1, ok1 := r1.(int)
	nd.Assert("c31c.parts.dayofweek", err1 == nil && ok1 && g1 == dow)
	r2, err2 := NewWeekday(nil, arg).Eval(nil, row)
	g2, ok2 := r2.(int)
	nd.Assert("c31c.parts.weekday", err2 == nil && ok2 && g2 == wd)
	r3, err3 := NewDayOfYear(nil, arg).Eval(nil, row)
	g3, ok3 := r3.(int)
	nd.Assert("c31c.parts.dayofyear", err3 == nil && ok3 && g3 == doy)
}

// TO_DAYS(d) = day number + 719528 (TO_DAYS('1970-01-01')); FROM_DAYS is its inverse.
func VerifC31CalToFromDays() {
	years, months := c31cTierSets()
	y := years[nd.Pick("c31c.todays.y", len(years))]
	m := months[nd.Pick("c31c.todays.m", len(months))]
	dsel := [...]int{1, 2, 28, 29, 30, 31}
	d := dsel[nd.Pick("c31c.todays.d", len(dsel))]
	nd.Assume(d <= c31cMonthLen(y, m))
	form := nd.Pick("c31c.todays.form", c31cForms)
	arg, row, _ := c31cOperand(form, y, m, d)
	want := c31cDayNo(y, m, d) + 719528
	res, err := NewToDays(nil, arg).Eval(nil, row)
	nd.Reach("c31c.todays")
	got, ok := res.(int)
	nd.Observe(got, want)
	nd.Assert("c31c.todays.agrees-with-day-number", err == nil && ok && int64(got) == want)
	back, err2 := NewFromDays(nil, expression.NewLiteral(want, types.Int64)).Eval(nil, nil)
	// (30 December of a leap year came back as 31 December before the repair of daysToYear.)
	nd.Assert("c31c.fromdays.inverse-of-to-days", err2 == nil && c31cIsTime(back, c31cStamp{y: y, m: m, d: d}))
}

// ---------------------------------------------------------------- TIMESTAMPDIFF in MONTH / QUARTER / YEAR

// c31cMonthsBetween: complete months from a to b (MySQL's definition): the
// (year, month) distance of the ordered pair, less one when the later operand's
// (day, time of day) lies before the earlier operand's; negative when b < a.
func c31cMonthsBetween(a, b c31cStamp) int64 {
	key := func(w c31cStamp) [3]int64 {
		return [3]int64{c31cDayNo(w.y, w.m, w.d), w.sod(), int64(w.us)}
	}
	less := func(p, q [3]int64) bool {
		for i := range p {
			if p[i] != q[i] {
				return p[i] < q[i]
			}
		}
		return false
	}
	lo, hi, sign := a, b, int64(1)
	if less(key(b), key(a)) {
		lo, hi, sign = b, a, -1
	}
	n := int64(hi.y-lo.y)*12 + int64(hi.m-lo.m)
	if less([3]int64{int64(hi.d), hi.sod(), int64(hi.us)}, [3]int64{int64(lo.d), lo.sod(), int64(lo.us)}) {
		n--
	}
	return sign * n
}

var c31cClocks = [...][4]int{{0, 0, 0, 0}, {12, 34, 56, 0}, {12, 34, 56, 1}, {23, 59, 59, 999999}}

func c31cPickMoment(tag string, years, months []int, days []int) c31cStamp {
	y := years[nd.Pick(tag+".y", len(years))]
	m := months[nd.Pick(tag+".m", len(months))]
	d := days[nd.Pick(tag+".d", len(days))]
	nd.Assume(d <= c31cMonthLen(y, m))
	c := c31cClocks[nd.Pick(tag+".clock", len(c31cClocks))]
	return c31cStamp{y, m, d, c[0], c[1], c[2], c[3]}
}

func VerifC31CalTimestampDiffMonths() {
	yearsA, years, months, days := []int{2024}, []int{2023, 2024}, []int{1, 2, 3, 12}, []int{1, 28, 29, 31}
	if nd.Tier() == 1 {
		years, days = []int{1000, 2000, 2023, 2024, 9999}, c31cDays[:]
		yearsA = years
	}
	a := c31cPickMoment("c31c.tsdiff.a", yearsA, months, days)
	b := c31cPickMoment("c31c.tsdiff.b", years, months, days)
	row := sql.Row{a.time(), b.time()}
	want := c31cMonthsBetween(a, b)
	units := [...]string{"month", "quarter", "year"}
	div := [...]int64{1, 3, 12}
	nd.Reach("c31c.tsdiff")
	for u := range units {
		e := NewTimestampDiff(nil, expression.NewLiteral(units[u], types.LongText),
			expression.NewGetField(0, types.DatetimeMaxPrecision, "a", false),
			expression.NewGetField(1, types.DatetimeMaxPrecision, "b", false))
		res, err := e.Eval(nil, row)
		got, ok := res.(int64)
		nd.Observe(got, want/div[u])
		nd.Assert("c31c.tsdiff."+units[u]+".agrees-with-complete-months", err == nil && ok && got == want/div[u])
	}
}

// ---------------------------------------------------------------- invalid dates are flagged, not shifted

var c31cInvalid = [...]string{"2021-02-30", "2023-02-29", "2021-04-31", "2021-13-01", "2021-00-10", "2021-02-30 10:11:12", "1900-02-29"}

// A character string that names no calendar date yields NULL (MySQL: NULL with a
// warning) from every date function here — never the value of a shifted date.
func VerifC31CalInvalidDateFlagged() {
	s := c31cInvalid[nd.Pick("c31c.invalid.s", len(c31cInvalid))]
	arg := expression.NewLiteral(s, types.LongText)
	ok31 := expression.NewLiteral("2021-03-02", types.LongText)
	var res interface{}
	var err error
	switch nd.Pick("c31c.invalid.fn", 8) {
	case 0:
		res, err = c31cOffset(false, arg, 1, "DAY").Eval(nil, nil)
	case 1:
		res, err = c31cOffset(true, arg, 1, "MONTH").Eval(nil, nil)
	case 2:
		res, err = NewDateDiff(nil, arg, ok31).Eval(nil, nil)
	case 3:
		res, err = NewDateDiff(nil, ok31, arg).Eval(nil, nil)
	case 4:
		res, err = NewLastDay(nil, arg).Eval(nil, nil)
	case 5:
		res, err = NewDayOfWeek(nil, arg).Eval(nil, nil)
	case 6:
		res, err = NewDayOfYear(nil, arg).Eval(nil, nil)
	case 7:
		res, err = NewToDays(nil, arg).Eval(nil, nil)
	}
	nd.Reach("c31c.invalid")
	nd.Assert("c31c.invalid.null-or-error", res == nil || err != nil)
}
