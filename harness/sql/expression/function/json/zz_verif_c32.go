//go:build verif

package json

// C32, SQL function layer: JSON_SET / JSON_INSERT / JSON_REPLACE / JSON_REMOVE / JSON_ARRAY_APPEND evaluated
// through their real Eval methods (getMutableJSONVal -> Clone -> JSONDocument mutation). Documents and new values
// are types.JSONDocument literals, paths are concrete strings with quoted member names. The document family, the
// path family and the oracle are those of sql/types/zz_verif_c32.go (addressed by selector numbers).
//
// JSON_CONTAINS_PATH and JSON_EXTRACT cannot be evaluated by the executor: every path other than "$" goes through
// github.com/dolthub/jsonpath, which walks the document with reflect ("unsupported: method Kind on reflect.Type").
// The result documents are therefore inspected with the structural oracle instead.

import (
	nd "github.com/dolthub/go-mysql-server/internal/zzverifnd"
	"github.com/dolthub/go-mysql-server/sql"
	"github.com/dolthub/go-mysql-server/sql/expression"
	"github.com/dolthub/go-mysql-server/sql/types"
)

func c32FnDocVal(v interface{}) (interface{}, bool) {
	switch d := v.(type) {
	case types.JSONDocument:
		return d.Val, true
	case *types.JSONDocument:
		return d.Val, true
	}
	return nil, false
}

func c32FnName(mode int) string {
	switch mode {
	case types.ZzC32ModeSet:
		return "set"
	case types.ZzC32ModeInsert:
		return "insert"
	case types.ZzC32ModeReplace:
		return "replace"
	case types.ZzC32ModeRemove:
		return "remove"
	default:
		return "arrayappend"
	}
}

func c32FnHarness(mode int) {
	pfx := "c32.fn." + c32FnName(mode)
	s := nd.Pick(pfx+".shape", types.ZzC32Shapes)
	k1 := nd.Pick(pfx+".k1", types.ZzC32ValKinds)
	k2 := 0
	if s == 3 || s == 5 {
		k2 = types.ZzC32SecondKind(nd.Pick(pfx+".k2", nd.Bound(5, types.ZzC32ValKinds)))
	}
	p := nd.Pick(pfx+".path", types.ZzC32Paths)
	vk := 0
	if mode != types.ZzC32ModeRemove {
		vk = nd.Pick(pfx+".newval", nd.Bound(1, types.ZzC32NewVals))
	}
	path := types.ZzC32PathString(p)

	input := types.JSONDocument{Val: types.ZzC32Doc(s, k1, k2)}
	docArg := expression.NewLiteral(input, types.JSON)
	pathArg := expression.NewLiteral(path, types.LongText)
	valArg := expression.NewLiteral(types.JSONDocument{Val: types.ZzC32NewVal(vk)}, types.JSON)

	var fn sql.Expression
	var cerr error
	switch mode {
	case types.ZzC32ModeSet:
		fn, cerr = NewJSONSet(nil, docArg, pathArg, valArg)
	case types.ZzC32ModeInsert:
		fn, cerr = NewJSONInsert(nil, docArg, pathArg, valArg)
	case types.ZzC32ModeReplace:
		fn, cerr = NewJSONReplace(nil, docArg, pathArg, valArg)
	case types.ZzC32ModeRemove:
		fn, cerr = NewJSONRemove(nil, docArg, pathArg)
	default:
		fn, cerr = NewJSONArrayAppend(nil, docArg, pathArg, valArg)
	}
	nd.Assert(pfx+".constructed", cerr == nil && fn != nil)
	res, err := fn.Eval(nil, nil)
	nd.Reach(pfx)
	nd.Observe(path, err)

	if mode == types.ZzC32ModeRemove && types.ZzC32PathLen(p) == 0 {
		nd.Assert(pfx+".root-rejected", err != nil)
		return
	}
	nd.Assert(pfx+".no-error", err == nil)
	got, ok := c32FnDocVal(res)
	nd.Assert(pfx+".result-is-document", ok)

	// the argument row value is not modified: getMutableJSONVal promises a deep copy
	nd.Assert(pfx+".input-document-unmodified", types.ZzC32Eq(input.Val, types.ZzC32Doc(s, k1, k2)))

	exp, asserted := types.ZzC32Expect(mode, s, k1, k2, p, vk)
	if asserted {
		class := types.ZzC32PathClass(s, k1, k2, p)
		if mode == types.ZzC32ModeRemove {
			class = "" // no known deviation for JSON_REMOVE
		}
		nd.Assert(pfx+".document-as-documented"+class, types.ZzC32Eq(got, exp))
	}
}

func VerifC32FnSet()         { c32FnHarness(types.ZzC32ModeSet) }
func VerifC32FnInsert()      { c32FnHarness(types.ZzC32ModeInsert) }
func VerifC32FnReplace()     { c32FnHarness(types.ZzC32ModeReplace) }
func VerifC32FnRemove()      { c32FnHarness(types.ZzC32ModeRemove) }
func VerifC32FnArrayAppend() { c32FnHarness(types.ZzC32ModeArrayAppend) }

// VerifC32FnValueArgumentUnmodified: a multi-pair JSON_SET / JSON_INSERT / JSON_REPLACE / JSON_ARRAY_APPEND whose
// first pair stores a value argument (an object or array taken from the row) and whose second pair writes INSIDE
// that stored value must not modify the argument itself: evaluating an expression never changes its input row.
// The pairs are applied left to right, each to the result of the previous one (as documented).
func VerifC32FnValueArgumentUnmodified() {
	pfx := "c32.fn.valuearg"
	fnSel := nd.Pick(pfx+".fn", 4)   // 0 JSON_SET, 1 JSON_INSERT, 2 JSON_REPLACE (2nd pair), 3 JSON_ARRAY_APPEND (2nd pair)
	valSel := nd.Pick(pfx+".val", 3) // the stored argument: {"z": 9}, {"z": {"y": 1}}, [9]
	where := nd.Pick(pfx+".where", 2)

	mkVal := func() interface{} {
		switch valSel {
		case 0:
			return map[string]interface{}{"z": 9.0}
		case 1:
			return map[string]interface{}{"z": map[string]interface{}{"y": 1.0}}
		default:
			return []interface{}{9.0}
		}
	}
	var mkDoc func() interface{}
	var p1 string
	if where == 0 {
		mkDoc = func() interface{} { return map[string]interface{}{"a": 1.0} }
		p1 = "$.\"c\""
	} else {
		mkDoc = func() interface{} { return []interface{}{1.0} }
		p1 = "$[1]"
	}
	// second path: inside the stored value
	var inner string
	switch valSel {
	case 0:
		inner = ".\"w\"" // new member of the stored object
	case 1:
		inner = ".\"z\".\"y\"" // existing nested member
	default:
		inner = "[0]" // existing cell of the stored array
	}
	if fnSel == 1 && valSel != 0 {
		inner = map[int]string{1: ".\"z\".\"w\"", 2: "[1]"}[valSel] // JSON_INSERT needs a missing path
	}
	if fnSel >= 2 && valSel == 0 {
		inner = ".\"z\"" // JSON_REPLACE / JSON_ARRAY_APPEND need an existing path
	}
	p2 := p1 + inner

	arg := types.JSONDocument{Val: mkVal()}
	input := types.JSONDocument{Val: mkDoc()}
	docArg := expression.NewLiteral(input, types.JSON)
	lit := func(v interface{}) sql.Expression { return expression.NewLiteral(v, types.LongText) }
	jl := func(v interface{}) sql.Expression {
		return expression.NewLiteral(types.JSONDocument{Val: v}, types.JSON)
	}
	argLit := expression.NewLiteral(arg, types.JSON)

	var res interface{}
	var err error
	switch fnSel {
	case 0:
		fn, _ := NewJSONSet(nil, docArg, lit(p1), argLit, lit(p2), jl(7.0))
		res, err = fn.Eval(nil, nil)
	case 1:
		fn, _ := NewJSONInsert(nil, docArg, lit(p1), argLit, lit(p2), jl(7.0))
		res, err = fn.Eval(nil, nil)
	case 2:
		fn1, _ := NewJSONSet(nil, docArg, lit(p1), argLit)
		fn, _ := NewJSONReplace(nil, fn1, lit(p2), jl(7.0))
		res, err = fn.Eval(nil, nil)
	default:
		fn1, _ := NewJSONSet(nil, docArg, lit(p1), argLit)
		fn, _ := NewJSONArrayAppend(nil, fn1, lit(p2), jl(7.0))
		res, err = fn.Eval(nil, nil)
	}
	nd.Reach(pfx)
	nd.Observe(p1, p2, err)
	nd.Assert(pfx+".no-error", err == nil)
	_, ok := c32FnDocVal(res)
	nd.Assert(pfx+".result-is-document", ok)
	nd.Assert(pfx+".input-document-unmodified", types.ZzC32Eq(input.Val, mkDoc()))
	if fnSel <= 1 {
		// both pairs in ONE call: the second pair walks into the value stored by the first
		nd.Assert(pfx+".value-argument-unmodified.same-call", types.ZzC32Eq(arg.Val, mkVal()))
	} else {
		// nested calls: the outer function clones its document first
		nd.Assert(pfx+".value-argument-unmodified.nested-call", types.ZzC32Eq(arg.Val, mkVal()))
	}
}

// VerifC32FnRootLookup documents the executor limit: JSON_CONTAINS_PATH / JSON_EXTRACT on the identity path "$"
// (the only path that does not reach the jsonpath library) after JSON_SET.
func VerifC32FnRootLookup() {
	pfx := "c32.fn.rootlookup"
	s := nd.Pick(pfx+".shape", types.ZzC32Shapes)
	k1 := nd.Pick(pfx+".k1", types.ZzC32ValKinds)
	vk := nd.Pick(pfx+".newval", types.ZzC32NewVals)
	docArg := expression.NewLiteral(types.JSONDocument{Val: types.ZzC32Doc(s, k1, 0)}, types.JSON)
	root := expression.NewLiteral("$", types.LongText)
	valArg := expression.NewLiteral(types.JSONDocument{Val: types.ZzC32NewVal(vk)}, types.JSON)
	set, _ := NewJSONSet(nil, docArg, root, valArg)
	cp, e1 := NewJSONContainsPath(nil, set, expression.NewLiteral("one", types.LongText), root)
	nd.Assert(pfx+".constructed", e1 == nil)
	has, err := cp.Eval(nil, nil)
	nd.Reach(pfx)
	nd.Assert(pfx+".contains-root", err == nil && has == true)
}
