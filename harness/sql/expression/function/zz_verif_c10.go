//go:build verif

package function

import (
	"math"

	nd "github.com/dolthub/go-mysql-server/internal/zzverifnd"
	"github.com/dolthub/go-mysql-server/sql"
	"github.com/dolthub/go-mysql-server/sql/expression"
	"github.com/dolthub/go-mysql-server/sql/types"
)

// C10: panic-freedom of scalar-function kernels. Every harness builds the real
// expression over GetField children, evaluates it (ctx == nil) on a row of
// symbolic cells and requires nothing but: no Go panic (reported by the
// executor by itself), and a result or an error on every path.
//
// Strings are NULL, 0..3 (thorough 0..5) symbolic ASCII bytes, or one of a few
// concrete valid multi-byte samples (symbolic bytes >= 0x80 make the UTF-8
// validation in LONGTEXT conversion undecidable in practice, and invalid UTF-8
// needs a session: LoadSqlMode(nil) dereferences the nil context).
// Integers are NULL or full-range symbolic int64 in the plain harnesses. The
// executor cannot slice with a symbolic bound outside 0..64 (it reports
// "unsupported"), which is exactly where length arithmetic overflows: where a
// kernel slices with the argument, the plain harness bounds |v| <= 2^62
// (c10IntMid), the *Edge harness enumerates concrete boundary integers
// (MinInt64 .. MaxInt64), and the *Full harness (thorough only) keeps the
// full-range symbolic version that documents the executor gap.

func c10Name(p string, i int) string { return p + string(rune('0'+i)) }

var c10Samples = [...]string{"é", "a€b", "\U0001D11E"}

// c10Str: NULL | symbolic ASCII of 0..maxN bytes | (samples) a concrete multi-byte string.
func c10StrN(name string, maxN int, samples bool) interface{} {
	hi := maxN
	if samples {
		hi += len(c10Samples)
	}
	n := nd.IntRange(name+".n", -1, hi)
	if n < 0 {
		return nil
	}
	if n > maxN {
		return c10Samples[n-maxN-1]
	}
	s := nd.String(name, n)
	for i := 0; i < n; i++ {
		c := s[i]
		nd.Assume(c < 0x80)
	}
	return s
}

func c10Str(name string) interface{}      { return c10StrN(name, nd.Bound(3, 5), true) }
func c10StrShort(name string) interface{} { return c10StrN(name, nd.Bound(2, 3), false) }

// c10Int: NULL or a full-range symbolic int64.
func c10Int(name string) interface{} {
	if nd.Pick(name+".null", 2) == 1 {
		return nil
	}
	return nd.Int64(name)
}

// c10IntMid: NULL or a symbolic int64 with |v| <= 2^62.
func c10IntMid(name string) interface{} {
	v := c10Int(name)
	if n, ok := v.(int64); ok {
		nd.Assume(nd.And(n >= -(1<<62), n <= 1<<62))
	}
	return v
}

var c10Edges = [...]int64{math.MinInt64, math.MinInt64 + 1, -2, -1, 0, 1, 2, 3, 4, math.MaxInt64 - 1, math.MaxInt64}

// c10Edge: a concrete boundary integer.
func c10Edge(name string) interface{} { return c10Edges[nd.Pick(name+".edge", len(c10Edges))] }

func c10S(i int) sql.Expression {
	return expression.NewGetField(i, types.LongText, c10Name("s", i), true)
}
func c10I(i int) sql.Expression {
	return expression.NewGetField(i, types.Int64, c10Name("i", i), true)
}

func c10Done(id string, res interface{}, err error) {
	nd.Reach(id)
	nd.Observe(err == nil, res == nil)
	// a value or an error, never both
	nd.Assert(id+".value-xor-error", nd.Or(err == nil, res == nil))
}

func c10Eval(id string, e sql.Expression, cerr error, row sql.Row) {
	nd.Assume(cerr == nil)
	res, err := e.Eval(nil, row)
	c10Done(id, res, err)
}

// ---- SUBSTRING / MID --------------------------------------------------------

func VerifC10Substring() {
	row := sql.Row{c10Str("s"), c10IntMid("pos"), c10IntMid("len")}
	e, err := NewSubstring(nil, c10S(0), c10I(1), c10I(2))
	c10Eval("c10.substring", e, err, row)
}

// full-range symbolic integers (executor: slice bound outside 0..64 unsupported).
func VerifC10SubstringFull() {
	row := sql.Row{c10StrN("s", 3, false), c10Int("pos"), c10Int("len")}
	e, err := NewSubstring(nil, c10S(0), c10I(1), c10I(2))
	c10Eval("c10.substring.full", e, err, row)
}

func VerifC10SubstringEdge() {
	row := sql.Row{c10StrN("s", 3, false), c10Edge("pos"), c10Edge("len")}
	e, err := NewSubstring(nil, c10S(0), c10I(1), c10I(2))
	c10Eval("c10.substring.edge", e, err, row)
}

// two-argument form; MID and SUBSTR are registered to the same constructor.
func VerifC10Mid() {
	row := sql.Row{c10Str("s"), c10Int("pos")}
	e, err := NewSubstring(nil, c10S(0), c10I(1))
	c10Eval("c10.mid", e, err, row)
}

func VerifC10MidEdge() {
	row := sql.Row{c10StrN("s", 3, false), c10Edge("pos")}
	e, err := NewSubstring(nil, c10S(0), c10I(1))
	c10Eval("c10.mid.edge", e, err, row)
}

// ---- SUBSTRING_INDEX --------------------------------------------------------

func VerifC10SubstringIndex() {
	row := sql.Row{c10StrN("s", nd.Bound(3, 4), true), c10StrShort("d"), c10Int("count")}
	e := NewSubstringIndex(nil, c10S(0), c10S(1), c10I(2))
	c10Eval("c10.substring_index", e, nil, row)
}

func VerifC10SubstringIndexEdge() {
	row := sql.Row{c10StrN("s", 3, false), c10StrN("d", 1, false), c10Edge("count")}
	e := NewSubstringIndex(nil, c10S(0), c10S(1), c10I(2))
	c10Eval("c10.substring_index.edge", e, nil, row)
}

// ---- LEFT / RIGHT -----------------------------------------------------------

func VerifC10Left() {
	row := sql.Row{c10Str("s"), c10Int("n")}
	c10Eval("c10.left", NewLeft(nil, c10S(0), c10I(1)), nil, row)
}

func VerifC10LeftEdge() {
	row := sql.Row{c10StrN("s", 3, false), c10Edge("n")}
	c10Eval("c10.left.edge", NewLeft(nil, c10S(0), c10I(1)), nil, row)
}

func VerifC10Right() {
	row := sql.Row{c10Str("s"), c10Int("n")}
	c10Eval("c10.right", NewRight(nil, c10S(0), c10I(1)), nil, row)
}

func VerifC10RightEdge() {
	row := sql.Row{c10StrN("s", 3, false), c10Edge("n")}
	c10Eval("c10.right.edge", NewRight(nil, c10S(0), c10I(1)), nil, row)
}

// ---- INSERT -----------------------------------------------------------------

func VerifC10Insert() {
	row := sql.Row{c10Str("s"), c10IntMid("pos"), c10IntMid("len"), c10StrShort("new")}
	c10Eval("c10.insert", NewInsert(nil, c10S(0), c10I(1), c10I(2), c10S(3)), nil, row)
}

// full-range symbolic integers (executor: slice bound outside 0..64 unsupported).
func VerifC10InsertFull() {
	row := sql.Row{c10StrN("s", 3, false), c10Int("pos"), c10Int("len"), c10StrN("new", 1, false)}
	c10Eval("c10.insert.full", NewInsert(nil, c10S(0), c10I(1), c10I(2), c10S(3)), nil, row)
}

func VerifC10InsertEdge() {
	row := sql.Row{c10StrN("s", 3, false), c10Edge("pos"), c10Edge("len"), c10StrN("new", 1, false)}
	c10Eval("c10.insert.edge", NewInsert(nil, c10S(0), c10I(1), c10I(2), c10S(3)), nil, row)
}

// ---- LPAD / RPAD ------------------------------------------------------------
// padString allocates proportional to the requested length and has no size
// guard. strings.Repeat needs a concrete count in the executor, so the length
// is enumerated: -2..8 in the plain harnesses, the boundary table without its
// two largest entries in the Edge harnesses, and MaxInt64-1 / MaxInt64 in the
// Huge harnesses (thorough only: the executor turns the oversized make into
// INTERNAL instead of the Go panic that the native build raises).

func c10Pad(id string, pt padType, length interface{}) {
	row := sql.Row{c10Str("s"), length, c10StrShort("pad")}
	e, err := NewPad(pt, c10S(0), c10I(1), c10S(2))
	c10Eval(id, e, err, row)
}

func c10LenSmall(name string, lo, hi int) interface{} {
	if nd.Pick(name+".null", 2) == 1 {
		return nil
	}
	return int64(nd.IntRange(name, lo, hi))
}

func c10EdgeNotHuge(name string) interface{} {
	return c10Edges[nd.Pick(name+".edge", len(c10Edges)-2)]
}

func c10EdgeHuge(name string) interface{} {
	return c10Edges[len(c10Edges)-2+nd.Pick(name+".huge", 2)]
}

func VerifC10Lpad()     { c10Pad("c10.lpad", lPadType, c10LenSmall("len", -2, 8)) }
func VerifC10Rpad()     { c10Pad("c10.rpad", rPadType, c10LenSmall("len", -2, 8)) }
func VerifC10LpadEdge() { c10Pad("c10.lpad.edge", lPadType, c10EdgeNotHuge("len")) }
func VerifC10RpadEdge() { c10Pad("c10.rpad.edge", rPadType, c10EdgeNotHuge("len")) }

func c10PadHuge(id string, pt padType) {
	row := sql.Row{c10StrN("s", 1, false), c10EdgeHuge("len"), c10StrN("pad", 1, false)}
	e, err := NewPad(pt, c10S(0), c10I(1), c10S(2))
	c10Eval(id, e, err, row)
}

func VerifC10LpadHuge() { c10PadHuge("c10.lpad.huge", lPadType) }
func VerifC10RpadHuge() { c10PadHuge("c10.rpad.huge", rPadType) }

// ---- REPEAT / SPACE ---------------------------------------------------------
// No size guard in either kernel: REPEAT converts the count to INT (values
// above 2^31-1 are clamped to 2^31-1, not rejected) and allocates
// len(str)*count bytes; SPACE loops count times appending one byte. Counts
// above the small range are resource exhaustion, not panics, and cannot be
// executed (natively: gigabytes; the executor was OOM-killed on
// REPEAT(s, > 2^31)). REPEAT: count in -2..4; SPACE: symbolic n <= 5.

func VerifC10Repeat() {
	row := sql.Row{c10Str("s"), c10LenSmall("count", -2, 4)}
	c10Eval("c10.repeat", NewRepeat(nil, c10S(0), c10I(1)), nil, row)
}

func c10SmallLen(name string, hi int64) interface{} {
	v := c10Int(name)
	if n, ok := v.(int64); ok {
		nd.Assume(n <= hi)
	}
	return v
}

func VerifC10Space() {
	row := sql.Row{c10SmallLen("n", 5)}
	c10Eval("c10.space", NewSpace(nil, c10I(0)), nil, row)
}

// ---- ELT / FIELD ------------------------------------------------------------

func VerifC10Elt() {
	row := sql.Row{c10Int("idx"), c10StrShort("a"), c10StrShort("b")}
	e, err := NewElt(nil, c10I(0), c10S(1), c10S(2))
	c10Eval("c10.elt", e, err, row)
}

func VerifC10Field() {
	row := sql.Row{c10StrShort("key"), c10StrShort("a"), c10StrShort("b")}
	e, err := NewField(nil, c10S(0), c10S(1), c10S(2))
	c10Eval("c10.field", e, err, row)
}

// ---- LOCATE -----------------------------------------------------------------

// the start position is converted to INT (clamped) and used as a slice bound:
// symbolic pos <= 64 here, larger values concretely in LocateEdge.
func VerifC10Locate() {
	row := sql.Row{c10StrShort("sub"), c10StrN("s", 3, true), c10SmallLen("pos", 64)}
	e, err := NewLocate(nil, c10S(0), c10S(1), c10I(2))
	c10Eval("c10.locate", e, err, row)
}

func VerifC10LocateEdge() {
	row := sql.Row{c10StrN("sub", 1, false), c10StrN("s", 2, false), c10Edge("pos")}
	e, err := NewLocate(nil, c10S(0), c10S(1), c10I(2))
	c10Eval("c10.locate.edge", e, err, row)
}

func VerifC10Locate2() {
	row := sql.Row{c10StrShort("sub"), c10StrN("s", 3, true)}
	e, err := NewLocate(nil, c10S(0), c10S(1))
	c10Eval("c10.locate2", e, err, row)
}

// ---- CONV -------------------------------------------------------------------
// The kernel takes math.Abs(float64(base)): bases are enumerated (floats are
// concrete-only in the executor).

var c10FromBases = [...]int64{math.MinInt64, -36, -2, 1, 2, 10, 36, 37}
var c10ToBases = [...]int64{math.MinInt64, -37, -16, 2, 10, 16, 37, math.MaxInt64}

func VerifC10Conv() {
	from := c10FromBases[nd.Pick("from", len(c10FromBases))]
	to := c10ToBases[nd.Pick("to", len(c10ToBases))]
	row := sql.Row{c10StrN("n", nd.Bound(2, 3), false), from, to}
	c10Eval("c10.conv", NewConv(nil, c10S(0), c10I(1), c10I(2)), nil, row)
}

// output bases that are not powers of two or ten (executor: strconv.Format of a
// symbolic value is modelled for bases 2,4,8,10,16,32 only): thorough only.
func VerifC10ConvTo36() {
	to := [...]int64{-36, 3, 36}[nd.Pick("to", 3)]
	row := sql.Row{c10StrN("n", 2, false), int64(10), to}
	c10Eval("c10.conv.to36", NewConv(nil, c10S(0), c10I(1), c10I(2)), nil, row)
}

// ---- CHAR / ORD -------------------------------------------------------------

func VerifC10Char() {
	row := sql.Row{c10Int("a"), c10Int("b")}
	e, err := NewChar(nil, c10I(0), c10I(1))
	c10Eval("c10.char", e, err, row)
}

func VerifC10Ord() {
	row := sql.Row{c10Str("s")}
	c10Eval("c10.ord", NewOrd(nil, c10S(0)), nil, row)
}

// ---- HEX / UNHEX / BIN ------------------------------------------------------

func VerifC10HexString() {
	row := sql.Row{c10Str("s")}
	c10Eval("c10.hex.string", NewHex(nil, c10S(0)), nil, row)
}

// negative values go through (*[8]byte)(unsafe.Pointer(&n)), which the executor
// cannot interpret (INTERNAL): v >= 0 here, v < 0 in the thorough-only harness.
func VerifC10HexInt() {
	v := c10Int("v")
	if n, ok := v.(int64); ok {
		nd.Assume(n >= 0)
	}
	c10Eval("c10.hex.int", NewHex(nil, c10I(0)), nil, sql.Row{v})
}

func VerifC10HexIntNegative() {
	v := nd.Int64("v")
	nd.Assume(v < 0)
	c10Eval("c10.hex.int.negative", NewHex(nil, c10I(0)), nil, sql.Row{v})
}

func VerifC10Unhex() {
	row := sql.Row{c10StrN("s", nd.Bound(4, 5), true)}
	c10Eval("c10.unhex", NewUnhex(nil, c10S(0)), nil, row)
}

func VerifC10Bin() {
	v := c10Int("v")
	if n, ok := v.(int64); ok {
		nd.Assume(n >= 0)
	}
	c10Eval("c10.bin", NewBin(nil, c10I(0)), nil, sql.Row{v})
}

func VerifC10BinNegative() {
	v := nd.Int64("v")
	nd.Assume(v < 0)
	c10Eval("c10.bin.negative", NewBin(nil, c10I(0)), nil, sql.Row{v})
}

// ---- EXPORT_SET / MAKE_SET --------------------------------------------------
// EXPORT_SET loops number_of_bits (clipped to 0..64) times with a branch on
// every bit of `bits`: bits is symbolic only when number_of_bits <= 3, else it
// is a concrete boundary value.

func VerifC10ExportSet() {
	var bits, nbits interface{}
	if nd.Pick("shape", 2) == 0 {
		bits = c10Int("bits")
		nbits = int64(nd.IntRange("nbits", 0, 3))
	} else {
		bits = c10Edge("bits")
		nbits = c10Edge("nbits")
		if nd.Pick("nbits.64", 2) == 1 {
			nbits = int64(64)
		}
	}
	row := sql.Row{bits, c10StrN("on", 1, false), c10StrN("off", 1, false), c10StrN("sep", 1, false), nbits}
	e, err := NewExportSet(nil, c10I(0), c10S(1), c10S(2), c10S(3), c10I(4))
	c10Eval("c10.export_set", e, err, row)
}

func VerifC10ExportSet3() {
	row := sql.Row{c10Edge("bits"), c10StrN("on", 1, false), c10StrN("off", 1, false)}
	e, err := NewExportSet(nil, c10I(0), c10S(1), c10S(2))
	c10Eval("c10.export_set3", e, err, row)
}

func VerifC10MakeSet() {
	row := sql.Row{c10Int("bits"), c10StrShort("a"), c10StrShort("b")}
	e, err := NewMakeSet(nil, c10I(0), c10S(1), c10S(2))
	c10Eval("c10.make_set", e, err, row)
}

// ---- INET_ATON / INET_NTOA --------------------------------------------------
// thorough only: net.ParseIP and (net.IP).String are outside the executor's
// allow-list.

func VerifC10InetAton() {
	row := sql.Row{c10StrN("s", nd.Bound(3, 5), false)}
	c10Eval("c10.inet_aton", NewInetAton(nil, c10S(0)), nil, row)
}

func VerifC10InetNtoa() {
	row := sql.Row{c10Int("v")}
	c10Eval("c10.inet_ntoa", NewInetNtoa(nil, c10I(0)), nil, row)
}
