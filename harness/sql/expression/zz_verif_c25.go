//go:build verif

package expression

import (
	"math"
	"math/bits"

	nd "github.com/dolthub/go-mysql-server/internal/zzverifnd"
	"github.com/dolthub/go-mysql-server/sql"
	"github.com/dolthub/go-mysql-server/sql/types"
)

// C25: integer arithmetic is exact or reports out-of-range.
// Oracles are written with comparisons / math/bits wide arithmetic, not with
// the operators under test.

func VerifC25PlusInt64() {
	l, r := nd.Int64("l"), nd.Int64("r")
	res, err := plus(l, r)
	nd.Reach("c25.plus.int64")
	overflow := nd.Or(nd.And(r > 0, l > math.MaxInt64-r), nd.And(r < 0, l < math.MinInt64-r))
	if err == nil {
		v, ok := res.(int64)
		nd.Assert("c25.plus.int64.kind", ok)
		nd.Assert("c25.plus.int64.overflow-reported", !overflow)
		nd.Assert("c25.plus.int64.exact", v == l+r)
	} else {
		nd.Assert("c25.plus.int64.no-spurious-error", overflow)
	}
}

func VerifC25PlusUint64() {
	l, r := nd.Uint64("l"), nd.Uint64("r")
	res, err := plus(l, r)
	nd.Reach("c25.plus.uint64")
	sum, carry := bits.Add64(l, r, 0)
	if err == nil {
		v, ok := res.(uint64)
		nd.Assert("c25.plus.uint64.kind", ok)
		nd.Assert("c25.plus.uint64.overflow-reported", carry == 0)
		nd.Assert("c25.plus.uint64.exact", v == sum)
	} else {
		nd.Assert("c25.plus.uint64.no-spurious-error", carry != 0)
	}
}

func VerifC25MinusInt64() {
	l, r := nd.Int64("l"), nd.Int64("r")
	res, err := minus(l, r)
	nd.Reach("c25.minus.int64")
	overflow := nd.Or(nd.And(r < 0, l > math.MaxInt64+r), nd.And(r > 0, l < math.MinInt64+r))
	if err == nil {
		v, ok := res.(int64)
		nd.Assert("c25.minus.int64.kind", ok)
		nd.Assert("c25.minus.int64.overflow-reported", !overflow)
		nd.Assert("c25.minus.int64.exact", v == l-r)
	} else {
		nd.Assert("c25.minus.int64.no-spurious-error", overflow)
	}
}

func VerifC25MinusUint64() {
	l, r := nd.Uint64("l"), nd.Uint64("r")
	res, err := minus(l, r)
	nd.Reach("c25.minus.uint64")
	diff, borrow := bits.Sub64(l, r, 0)
	if err == nil {
		v, ok := res.(uint64)
		nd.Assert("c25.minus.uint64.kind", ok)
		nd.Assert("c25.minus.uint64.overflow-reported", borrow == 0)
		nd.Assert("c25.minus.uint64.exact", v == diff)
	} else {
		nd.Assert("c25.minus.uint64.no-spurious-error", borrow != 0)
	}
}

// signedProductFits computes the exact 128-bit signed product and whether it
// is representable in int64.
func signedProductFits(l, r int64) (lo uint64, fits bool) {
	hi, lo := bits.Mul64(uint64(l), uint64(r))
	if l < 0 {
		hi -= uint64(r)
	}
	if r < 0 {
		hi -= uint64(l)
	}
	fits = nd.Or(nd.And(hi == 0, int64(lo) >= 0), nd.And(hi == math.MaxUint64, int64(lo) < 0))
	return lo, fits
}

// sliceInt64 restricts the left operand to one of the operand slices for
// which the multiplication queries decide (DESIGN §C25): an 8-bit value, a
// power of two (either sign), or within 2 of 0, ±2^31, ±2^63.
func sliceInt64(name string, v int64) {
	switch nd.Pick(name, 4) {
	case 0:
		nd.Assume(nd.And(v >= -128, v <= 127))
	case 1:
		nd.Assume(nd.And(v&(v-1) == 0, v != 0))
	case 2:
		nd.Assume(nd.And(-v&(-v-1) == 0, v != 0))
	case 3:
		d := nd.Int8(name + ".d")
		nd.Assume(nd.And(d >= -2, d <= 2))
		b := nd.Pick(name+".base", 5)
		base := [...]int64{0, 1 << 31, -(1 << 31), math.MaxInt64 - 2, math.MinInt64 + 2}[b]
		nd.Assume(v == base+int64(d))
	}
}

func VerifC25MultInt64() {
	l, r := nd.Int64("l"), nd.Int64("r")
	sliceInt64("lslice", l)
	res, err := mult(l, r)
	nd.Reach("c25.mult.int64")
	lo, fits := signedProductFits(l, r)
	if err == nil {
		v, ok := res.(int64)
		nd.Assert("c25.mult.int64.kind", ok)
		nd.Assert("c25.mult.int64.overflow-reported", fits)
		nd.Assert("c25.mult.int64.exact", uint64(v) == lo)
	} else {
		nd.Assert("c25.mult.int64.no-spurious-error", !fits)
	}
}

// VerifC25MultInt64Wrap is the bug-finding direction at full width: a wrap
// that is not reported is a cheap sat query even where unsat is not decidable.
func VerifC25MultInt64Wrap() {
	l, r := nd.Int64("l"), nd.Int64("r")
	res, err := mult(l, r)
	nd.Reach("c25.mult.int64.full")
	if err == nil {
		_, fits := signedProductFits(l, r)
		_, ok := res.(int64)
		nd.Assert("c25.mult.int64.full.kind", ok)
		nd.Assert("c25.mult.int64.full.overflow-reported", fits)
	}
}

func VerifC25MultUint64() {
	l, r := nd.Uint64("l"), nd.Uint64("r")
	res, err := mult(l, r)
	nd.Reach("c25.mult.uint64")
	hi, lo := bits.Mul64(l, r)
	if err == nil {
		v, ok := res.(uint64)
		nd.Assert("c25.mult.uint64.kind", ok)
		nd.Assert("c25.mult.uint64.overflow-reported", hi == 0)
		nd.Assert("c25.mult.uint64.exact", v == lo)
	} else {
		nd.Assert("c25.mult.uint64.no-spurious-error", hi != 0)
	}
}

func VerifC25IntDivInt64() {
	l, r := nd.Int64("l"), nd.Int64("r")
	res, err := intDiv(nil, l, r)
	nd.Reach("c25.intdiv.int64")
	if r == 0 {
		nd.Assert("c25.intdiv.int64.by-zero-null", nd.And(res == nil, err == nil))
		return
	}
	overflow := nd.And(l == math.MinInt64, r == -1)
	if err == nil {
		_, ok := res.(int64)
		nd.Assert("c25.intdiv.int64.kind", ok)
		nd.Assert("c25.intdiv.int64.overflow-reported", !overflow)
	} else {
		nd.Assert("c25.intdiv.int64.no-spurious-error", overflow)
	}
}

// Exactness of the quotient: 64-bit symbolic-by-symbolic division does not
// decide on any back-end (DESIGN §2), so the divisor is enumerated concretely
// (|r| <= 4, thorough 8) and the dividend is symbolic with |l| < 2^15
// (thorough 2^22); the quotient is checked by the defining inequalities.
func VerifC25IntDivInt64Exact() {
	rb := nd.Bound(4, 8)
	r := int64(nd.IntRange("r", -rb, rb))
	nd.Assume(r != 0)
	l := nd.Int64("l")
	lb := int64(nd.Bound(1<<15, 1<<22))
	nd.Assume(nd.And(l >= -lb, l < lb))
	res, err := intDiv(nil, l, r)
	nd.Reach("c25.intdiv.int64.exact")
	nd.Assert("c25.intdiv.int64.small.no-error", err == nil)
	q, ok := res.(int64)
	nd.Assert("c25.intdiv.int64.small.kind", ok)
	nd.Assert("c25.intdiv.int64.small.magnitude", nd.And(q >= -lb, q <= lb))
	rem := l - q*r
	absLess := nd.Or(nd.And(r > 0, nd.And(rem < r, rem > -r)), nd.And(r < 0, nd.And(rem > r, rem < -r)))
	nd.Assert("c25.intdiv.int64.small.remainder-small", absLess)
	nd.Assert("c25.intdiv.int64.small.remainder-sign", nd.Or(rem == 0, (rem < 0) == (l < 0)))
}

func VerifC25IntDivUint64() {
	l, r := nd.Uint64("l"), nd.Uint64("r")
	res, err := intDiv(nil, l, r)
	nd.Reach("c25.intdiv.uint64")
	if r == 0 {
		nd.Assert("c25.intdiv.uint64.by-zero-null", nd.And(res == nil, err == nil))
		return
	}
	nd.Assert("c25.intdiv.uint64.no-error", err == nil)
	_, ok := res.(uint64)
	nd.Assert("c25.intdiv.uint64.kind", ok)
}

// Exactness of the unsigned quotient: divisor enumerated concretely (1..4,
// thorough 1..12), dividend symbolic below 2^16 (thorough 2^32) — see
// VerifC25IntDivInt64Exact for why the divisor is not symbolic.
func VerifC25IntDivUint64Exact() {
	r := uint64(nd.IntRange("r", 1, nd.Bound(4, 12)))
	l := nd.Uint64("l")
	nd.Assume(l < uint64(nd.Bound(1<<16, 1<<32)))
	res, err := intDiv(nil, l, r)
	nd.Reach("c25.intdiv.uint64.exact")
	nd.Assert("c25.intdiv.uint64.small.no-error", err == nil)
	q, ok := res.(uint64)
	nd.Assert("c25.intdiv.uint64.small.kind", ok)
	nd.Assert("c25.intdiv.uint64.small.magnitude", q <= l)
	lo := q * r
	nd.Assert("c25.intdiv.uint64.small.floor", nd.And(lo <= l, l-lo < r))
}

func VerifC25UnaryMinus() {
	v := nd.Int64("v")
	null := nd.Bool("null")
	var cell interface{} = v
	if null {
		cell = nil
	}
	e := NewUnaryMinus(NewGetField(0, types.Int64, "x", true))
	res, err := e.Eval(nil, sql.Row{cell})
	nd.Reach("c25.neg.int64")
	if null {
		nd.Assert("c25.neg.null", nd.And(res == nil, err == nil))
		return
	}
	if err == nil {
		n, ok := res.(int64)
		nd.Assert("c25.neg.kind", ok)
		nd.Assert("c25.neg.overflow-reported", v != math.MinInt64)
		nd.Assert("c25.neg.exact", nd.And(n+v == 0, (n < 0) != (v < 0) || v == 0))
	} else {
		nd.Assert("c25.neg.no-spurious-error", v == math.MinInt64)
	}
}

// End to end through Arithmetic.Eval with typed columns: conversion of the
// operands to the result type followed by the kernels above.
func VerifC25EvalInt64Columns() {
	l, r := nd.Int64("l"), nd.Int64("r")
	op := nd.Pick("op", 3)
	var e *Arithmetic
	lf, rf := NewGetField(0, types.Int64, "l", false), NewGetField(1, types.Int64, "r", false)
	switch op {
	case 0:
		e = NewPlus(lf, rf)
	case 1:
		e = NewMinus(lf, rf)
	default:
		e = NewMult(lf, rf)
		sliceInt64("lslice", l)
	}
	res, err := e.Eval(nil, sql.Row{l, r})
	nd.Reach("c25.eval.int64")
	if err != nil {
		return
	}
	v, ok := res.(int64)
	nd.Assert("c25.eval.kind", ok)
	switch op {
	case 0:
		nd.Assert("c25.eval.plus", nd.And(v == l+r, !nd.Or(nd.And(r > 0, l > math.MaxInt64-r), nd.And(r < 0, l < math.MinInt64-r))))
	case 1:
		nd.Assert("c25.eval.minus", nd.And(v == l-r, !nd.Or(nd.And(r < 0, l > math.MaxInt64+r), nd.And(r > 0, l < math.MinInt64+r))))
	default:
		lo, fits := signedProductFits(l, r)
		nd.Assert("c25.eval.mult", nd.And(fits, uint64(v) == lo))
	}
}

// Unary minus over the unsigned column types. The exact negation of an
// unsigned value always fits BIGINT unless the value exceeds 2^63.
// Known finding (known_findings.txt): UnaryMinus.Eval negates uint8 / uint16 /
// uint32 / uint64 values in the SIGNED type of the same width, so large values
// wrap (TINYINT UNSIGNED 200 -> 56). Each width asserts under its own id.
func VerifC25UnaryMinusUnsigned() {
	k := nd.Pick("kind", 4)
	var cell interface{}
	var typ sql.Type
	var mag uint64
	switch k {
	case 0:
		v := nd.Uint8("v8")
		cell, typ, mag = v, types.Uint8, uint64(v)
	case 1:
		v := nd.Uint16("v16")
		cell, typ, mag = v, types.Uint16, uint64(v)
	case 2:
		v := nd.Uint32("v32")
		cell, typ, mag = v, types.Uint32, uint64(v)
	default:
		v := nd.Uint64("v64")
		cell, typ, mag = v, types.Uint64, v
	}
	e := NewUnaryMinus(NewGetField(0, typ, "x", false))
	res, err := e.Eval(nil, sql.Row{cell})
	nd.Reach("c25.neg.unsigned")
	if err != nil {
		nd.Assert("c25.neg.unsigned.no-spurious-error", mag > 1<<63)
		return
	}
	// the result as a signed 64-bit number, whatever signed Go kind carries it
	var got int64
	switch r := res.(type) {
	case int8:
		got = int64(r)
	case int16:
		got = int64(r)
	case int32:
		got = int64(r)
	case int64:
		got = r
	case int:
		got = int64(r)
	default:
		nd.Assert("c25.neg.unsigned.kind", false)
		return
	}
	exact := nd.And(mag <= 1<<63, uint64(-got) == mag)
	id := [...]string{"c25.neg.unsigned.exact.uint8-negated-in-int8", "c25.neg.unsigned.exact.uint16-negated-in-int16", "c25.neg.unsigned.exact.uint32-negated-in-int32", "c25.neg.unsigned.exact.uint64-negated-in-int64"}[k]
	nd.Assert(id, exact)
}
