//go:build verif

package expression

import (
	"math"
	"math/bits"

	nd "github.com/dolthub/go-mysql-server/internal/zzverifnd"
)

// C25: integer arithmetic is exact or reports out-of-range.

func VerifC25PlusInt64() {
	l, r := nd.Int64("l"), nd.Int64("r")
	res, err := plus(l, r)
	nd.Reach("c25.plus.int64")
	if err == nil {
		v, ok := res.(int64)
		nd.Assert("c25.plus.int64.kind", ok)
		overflow := nd.Or(nd.And(r > 0, l > math.MaxInt64-r), nd.And(r < 0, l < math.MinInt64-r))
		nd.Assert("c25.plus.int64.exact", nd.And(!overflow, v == l+r))
	}
}

func VerifC25PlusUint64() {
	l, r := nd.Uint64("l"), nd.Uint64("r")
	res, err := plus(l, r)
	nd.Reach("c25.plus.uint64")
	if err == nil {
		v, ok := res.(uint64)
		nd.Assert("c25.plus.uint64.kind", ok)
		_, carry := bits.Add64(l, r, 0)
		nd.Assert("c25.plus.uint64.exact", nd.And(carry == 0, v == l+r))
	}
}

func VerifC25MinusInt64() {
	l, r := nd.Int64("l"), nd.Int64("r")
	res, err := minus(l, r)
	nd.Reach("c25.minus.int64")
	if err == nil {
		v, ok := res.(int64)
		nd.Assert("c25.minus.int64.kind", ok)
		overflow := nd.Or(nd.And(r < 0, l > math.MaxInt64+r), nd.And(r > 0, l < math.MinInt64+r))
		nd.Assert("c25.minus.int64.exact", nd.And(!overflow, v == l-r))
	}
}

func VerifC25MinusUint64() {
	l, r := nd.Uint64("l"), nd.Uint64("r")
	res, err := minus(l, r)
	nd.Reach("c25.minus.uint64")
	if err == nil {
		v, ok := res.(uint64)
		nd.Assert("c25.minus.uint64.kind", ok)
		nd.Assert("c25.minus.uint64.exact", nd.And(l >= r, v == l-r))
	}
}

func VerifC25MultInt64() {
	l, r := nd.Int64("l"), nd.Int64("r")
	res, err := mult(l, r)
	nd.Reach("c25.mult.int64")
	if err == nil {
		v, ok := res.(int64)
		nd.Assert("c25.mult.int64.kind", ok)
		// exact signed 128-bit product from the unsigned one
		hi, lo := bits.Mul64(uint64(l), uint64(r))
		if l < 0 {
			hi -= uint64(r)
		}
		if r < 0 {
			hi -= uint64(l)
		}
		fits := nd.Or(nd.And(hi == 0, int64(lo) >= 0), nd.And(hi == math.MaxUint64, int64(lo) < 0))
		nd.Assert("c25.mult.int64.exact", nd.And(fits, uint64(v) == lo))
	}
}

func VerifC25MultUint64() {
	l, r := nd.Uint64("l"), nd.Uint64("r")
	res, err := mult(l, r)
	nd.Reach("c25.mult.uint64")
	if err == nil {
		v, ok := res.(uint64)
		nd.Assert("c25.mult.uint64.kind", ok)
		hi, lo := bits.Mul64(l, r)
		nd.Assert("c25.mult.uint64.exact", nd.And(hi == 0, v == lo))
	}
}
