//go:build verif

package expression

import (
	nd "github.com/dolthub/go-mysql-server/internal/zzverifnd"
	"github.com/dolthub/go-mysql-server/sql"
	"github.com/dolthub/go-mysql-server/sql/types"
)

// (Was gated behind an extra build tag until the executor could interpret the
// OpenTelemetry no-op tracer that (*Case).Eval reaches through ctx.Span.)

// VerifC09Case: CASE WHEN c THEN a [ELSE b] END and CASE x WHEN y THEN a ELSE b
// END over integer columns whose common type is an integer type (a BIGINT
// UNSIGNED branch together with a signed branch makes the type DECIMAL(65,0):
// excluded).
func VerifC09Case() {
	at := nd.Pick("atype", len(c09Types))
	bt := nd.Pick("btype", len(c09Types))
	nd.Assume(!(at == c09Uint64 && !c09Unsigned(bt)))
	nd.Assume(!(bt == c09Uint64 && !c09Unsigned(at)))
	shape := nd.Pick("shape", 3)
	m := c09ModePairs[nd.Pick("modes", nd.Bound(3, len(c09ModePairs)))]
	a, av := c09Field(1, "a", at, m[0])
	b, bv := c09Field(2, "b", bt, m[1])
	cond, cv := c09Field(0, "c", c09Int8, nd.Pick("cmode", 2)+1)
	row := sql.Row{cv, av, bv}
	var e sql.Expression
	switch shape {
	case 0:
		e = NewCase(nil, []CaseBranch{{Cond: cond, Value: a}}, b)
	case 1:
		e = NewCase(nil, []CaseBranch{{Cond: cond, Value: a}}, nil)
	default:
		e = NewCase(cond, []CaseBranch{{Cond: NewLiteral(int8(1), types.Int8), Value: a}}, b)
	}
	c09Check("c09.case", "", e, row)
}
