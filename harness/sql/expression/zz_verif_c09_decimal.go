//go:build verif

package expression

import (
	"math"
	"strings"

	"github.com/cockroachdb/apd/v3"

	nd "github.com/dolthub/go-mysql-server/internal/zzverifnd"
	"github.com/dolthub/go-mysql-server/sql"
	"github.com/dolthub/go-mysql-server/sql/types"
)

// C09, DECIMAL-valued results: the value an arithmetic / CASE expression returns
// is a valid value of the type the expression reports:
//
//	v == nil                =>  e.IsNullable()
//	v is *apd.Decimal       =>  Type() is a DECIMAL(p,s) with
//	    scale-holds             v has at most s fraction digits
//	    precision-holds         v has at most p-s integer digits
//	    convert-ok / in-range / convert-exact
//	                            Type().Convert(v) succeeds, reports InRange and returns a value
//	                            numerically equal to v (no rounding, no bounds error)
//	v is a Go integer       =>  Type() is an integer type holding it (as c09Check)
//
// Operands are decimal numerals assembled from concrete pieces by selectors
// (apd/math-big interpreted from source, "math_big": true; symbolic digits do
// not decide). They enter with the TIGHTEST type, the one a literal or a user
// column of exactly that shape has: 12.50 is DECIMAL(4,2). kind 0: NOT NULL
// column; kind 1: decimal literal as planbuilder builds it (unary minus over
// it if negative) or, without fraction, a NOT NULL BIGINT column; kind 2:
// nullable DECIMAL column holding NULL.

var c09decInts = [...]string{"0", "9", "12", "999", "1", "100"}
var c09decFracs = [...]string{"", "5", "50", "05", "999", "0"}

type c09decNum struct {
	neg bool
	ip  string
	fp  string
}

func (n c09decNum) abs() string {
	if n.fp == "" {
		return n.ip
	}
	return n.ip + "." + n.fp
}

func (n c09decNum) unscaled() int64 {
	var u int64
	ds := n.ip + n.fp
	for i := 0; i < len(ds); i++ {
		u = u*10 + int64(ds[i]-'0')
	}
	if n.neg {
		u = -u
	}
	return u
}

func c09decPick(tag string) c09decNum {
	var n c09decNum
	n.neg = nd.Pick(tag+".neg", 2) == 1
	n.ip = c09decInts[nd.Pick(tag+".int", nd.Bound(4, len(c09decInts)))]
	n.fp = c09decFracs[nd.Pick(tag+".frac", nd.Bound(4, len(c09decFracs)))]
	return n
}

func c09decOperand(idx int, n c09decNum, kind int) (sql.Expression, interface{}) {
	p, s := uint8(len(n.ip)+len(n.fp)), uint8(len(n.fp))
	switch kind {
	case 0:
		return NewGetField(idx, types.MustCreateColumnDecimalType(p, s), "d", false), apd.New(n.unscaled(), -int32(s))
	case 2:
		return NewGetField(idx, types.MustCreateColumnDecimalType(p, s), "d", true), nil
	}
	if n.fp == "" {
		return NewGetField(idx, types.Int64, "i", false), n.unscaled()
	}
	lp, ls := GetDecimalPrecisionAndScale(n.abs())
	dt := types.CreateLiteralDecimalType(lp, ls)
	v, _, err := dt.Convert(nil, n.abs())
	nd.Assume(err == nil)
	var e sql.Expression = NewLiteral(v, dt)
	if n.neg {
		e = NewUnaryMinus(e)
	}
	return e, nil
}

// c09decShape: integer and fraction digit counts of a fixed-point text.
func c09decShape(text string) (intDigits, fracDigits int) {
	text = strings.TrimPrefix(text, "-")
	ip, fp := text, ""
	if i := strings.IndexByte(text, '.'); i >= 0 {
		ip, fp = text[:i], text[i+1:]
	}
	return len(strings.TrimLeft(ip, "0")), len(fp)
}

func c09decCanon(t string) string {
	neg := strings.HasPrefix(t, "-")
	t = strings.TrimPrefix(t, "-")
	ip, fp := t, ""
	if i := strings.IndexByte(t, '.'); i >= 0 {
		ip, fp = t[:i], t[i+1:]
	}
	ip = strings.TrimLeft(ip, "0")
	if ip == "" {
		ip = "0"
	}
	fp = strings.TrimRight(fp, "0")
	out := ip
	if fp != "" {
		out = ip + "." + fp
	}
	if neg && out != "0" {
		out = "-" + out
	}
	return out
}

// c09decCheck evaluates e and asserts conformance; class is appended to the ids of
// the value assertions of a known defect class ("" otherwise).
func c09decCheck(id string, class string, e sql.Expression, row sql.Row) {
	v, err := e.Eval(nil, row)
	if err != nil {
		nd.Reach(id + ".eval-error")
		return
	}
	t := e.Type(nil)
	nd.Reach(id)
	if v == nil {
		nd.Assert(id+".null-only-if-nullable", e.IsNullable(nil))
		return
	}
	d, isDec := v.(*apd.Decimal)
	if !isDec {
		// integer-valued result (DIV; BIGINT op BIGINT)
		nd.Assert(id+".integer-type", types.IsInteger(t))
		if !types.IsInteger(t) {
			return
		}
		c, inRange, cerr := t.Convert(nil, v)
		nd.Assert(id+".convert-ok"+class, cerr == nil)
		nd.Assert(id+".in-range"+class, inRange == sql.InRange)
		vn, vb, vok := c09Wide(v)
		cn, cb, kindOK := c09WideOfType(c, t)
		nd.Assert(id+".value-is-integer", vok)
		nd.Assert(id+".value-preserved"+class, kindOK && vn == cn && vb == cb)
		return
	}
	_ = d
	c09decCheckValue(id, class, t, v)
}

// c09decCheckValue: a decimal value v against the reported type t.
func c09decCheckValue(id string, class string, t sql.Type, v interface{}) {
	d, isDec := v.(*apd.Decimal)
	nd.Assert(id+".decimal-kind", isDec && d != nil)
	if !isDec || d == nil {
		return
	}
	nd.Assert(id+".decimal-type", types.IsDecimal(t))
	dt, ok := t.(sql.DecimalType)
	if !ok || !types.IsDecimal(t) {
		return
	}
	text := d.Text('f')
	intDigits, fracDigits := c09decShape(text)
	nd.Observe(text, int(dt.Precision()), int(dt.Scale()))
	nd.Assert(id+".scale-holds"+class, fracDigits <= int(dt.Scale()))
	nd.Assert(id+".precision-holds"+class, intDigits <= int(dt.Precision())-int(dt.Scale()))
	c, inRange, cerr := t.Convert(nil, v)
	nd.Assert(id+".convert-ok"+class, cerr == nil)
	nd.Assert(id+".in-range"+class, inRange == sql.InRange)
	cd, cok := c.(*apd.Decimal)
	nd.Assert(id+".convert-exact"+class, cok && cd != nil && c09decCanon(cd.Text('f')) == c09decCanon(text))
}

const (
	c09decPlus = iota
	c09decMinus
	c09decMult
	c09decDiv
	c09decIntDiv
	c09decMod
)

func c09decBinary(id string, op int) {
	a, b := c09decPick(id+".a"), c09decPick(id+".b")
	ka, kb := nd.Pick(id+".a.kind", 2), nd.Pick(id+".b.kind", 2)
	le, lv := c09decOperand(0, a, ka)
	re, rv := c09decOperand(1, b, kb)
	var e sql.Expression
	switch op {
	case c09decPlus:
		e = NewPlus(le, re)
	case c09decMinus:
		e = NewMinus(le, re)
	case c09decMult:
		e = NewMult(le, re)
	case c09decDiv:
		e = NewDiv(le, re)
	case c09decIntDiv:
		e = NewIntDiv(le, re)
	default:
		e = NewMod(le, re)
	}
	nd.Observe(a.abs(), a.neg, ka, b.abs(), b.neg, kb)
	c09decCheck(id, c09decClass(op, le, re, e), e, sql.Row{lv, rv})
}

// c09decTypeShape: integer digits and scale a type's values can have (BIGINT: 19, 0).
func c09decTypeShape(t sql.Type) (intg, scale int) {
	if dt, ok := t.(sql.DecimalType); ok && types.IsDecimal(t) {
		return int(dt.Precision()) - int(dt.Scale()), int(dt.Scale())
	}
	return 19, 0
}

// c09decClass: the known defect class of the reported type, decided on the TYPES
// alone: the reported DECIMAL(p,s) has fewer integer digits than the operator
// can produce from operands of the operand types (worst case: + and - one more
// than the wider operand, * the sum, / the dividend's integer digits plus the
// divisor's scale), all capped at 65 digits. Arithmetic.getReturnType takes
// max(p1,p2)+scale (or the decimal operand's own type when the other operand is
// an integer); Div.determineResultType takes p1+4.
func c09decClass(op int, le, re, e sql.Expression) string {
	t := e.Type(nil)
	if !types.IsDecimal(t) {
		return ""
	}
	ri, rs := c09decTypeShape(t)
	li1, _ := c09decTypeShape(le.Type(nil))
	li2, ls2 := c09decTypeShape(re.Type(nil))
	need := 0
	switch op {
	case c09decPlus, c09decMinus:
		need = li1 + 1
		if li2+1 > need {
			need = li2 + 1
		}
	case c09decMult:
		need = li1 + li2
	case c09decDiv:
		need = li1 + ls2
	default:
		return ""
	}
	if need > 65-rs {
		need = 65 - rs
	}
	if ri < need {
		return ".reported-integer-digits-below-worst-case"
	}
	return ""
}

func VerifC09DecimalPlus()   { c09decBinary("c09.dec.plus", c09decPlus) }
func VerifC09DecimalMinus()  { c09decBinary("c09.dec.minus", c09decMinus) }
func VerifC09DecimalMult()   { c09decBinary("c09.dec.mult", c09decMult) }
func VerifC09DecimalDiv()    { c09decBinary("c09.dec.div", c09decDiv) }
func VerifC09DecimalIntDiv() { c09decBinary("c09.dec.intdiv", c09decIntDiv) }
func VerifC09DecimalMod()    { c09decBinary("c09.dec.mod", c09decMod) }

// VerifC09DecimalNull: NULL-ness of the six operators against IsNullable with a
// NULL DECIMAL operand on either side, and division by a decimal zero.
func VerifC09DecimalNull() {
	op := nd.Pick("c09.dec.null.op", 6)
	a := c09decNum{false, "12", "5"}
	b := c09decNum{false, [...]string{"0", "9"}[nd.Pick("c09.dec.null.b", 2)], "0"}
	m := [...][2]int{{2, 0}, {0, 2}, {2, 2}, {0, 0}}[nd.Pick("c09.dec.null.modes", 4)]
	le, lv := c09decOperand(0, a, m[0])
	re, rv := c09decOperand(1, b, m[1])
	var e sql.Expression
	switch op {
	case c09decPlus:
		e = NewPlus(le, re)
	case c09decMinus:
		e = NewMinus(le, re)
	case c09decMult:
		e = NewMult(le, re)
	case c09decDiv:
		e = NewDiv(le, re)
	case c09decIntDiv:
		e = NewIntDiv(le, re)
	default:
		e = NewMod(le, re)
	}
	c09decCheck("c09.dec.null", "", e, sql.Row{lv, rv})
}

// VerifC09DecimalCase: CASE WHEN c THEN a ELSE b END / without ELSE where a is a
// DECIMAL operand and b a DECIMAL, BIGINT or BIGINT UNSIGNED column (the common
// type is DECIMAL(65,30), or DECIMAL(65,0) for BIGINT UNSIGNED with BIGINT).
func VerifC09DecimalCase() {
	a := c09decPick("c09.dec.case.a")
	ae, av := c09decOperand(1, a, nd.Pick("c09.dec.case.a.kind", 3))
	var be sql.Expression
	var bv interface{}
	switch nd.Pick("c09.dec.case.b.kind", 5) {
	case 0:
		be, bv = c09decOperand(2, c09decNum{true, "999", "05"}, 0)
	case 1:
		be, bv = NewGetField(2, types.Int64, "b", false), int64(math.MinInt64)
	case 2:
		be, bv = NewGetField(2, types.Uint64, "b", false), uint64(math.MaxUint64)
	case 3:
		// BIGINT UNSIGNED with BIGINT: no decimal operand, common type DECIMAL(65,0)
		ae, av = NewGetField(1, types.Int64, "a", false), int64(math.MinInt64)
		be, bv = NewGetField(2, types.Uint64, "b", false), uint64(math.MaxUint64)
	default:
		be, bv = nil, nil
	}
	cond, cv := NewGetField(0, types.Int8, "c", true), interface{}(nil)
	switch nd.Pick("c09.dec.case.cond", 3) {
	case 1:
		cv = int8(1)
	case 2:
		cv = int8(0)
	}
	e := NewCase(nil, []CaseBranch{{Cond: cond, Value: ae}}, be)
	c09decCheck("c09.dec.case", "", e, sql.Row{cv, av, bv})
}

// VerifC09DecimalScaleCap: products whose exact scale reaches / exceeds the
// maximum scale 30 (the reported type caps the scale at 30; MySQL rounds the
// product to 30 fraction digits). Class ".scale-above-30": mult returns apd's
// exact product (scale s1+s2) unrounded.
func VerifC09DecimalScaleCap() {
	k := nd.Pick("c09.dec.scalecap.case", 4)
	fa := [...]string{"000000000000001", "0000000000000001", "5", "000000000000000000000000000001"}[k] // scales 15, 16, 1, 30
	fb := [...]string{"000000000000001", "0000000000000001", "00000000000000000000000000001", "5"}[k]  // scales 15, 16, 29, 1
	a, b := c09decNum{false, "1", fa}, c09decNum{nd.Pick("c09.dec.scalecap.neg", 2) == 1, "2", fb}
	kind := nd.Pick("c09.dec.scalecap.kind", 2)
	le, lv := c09decOperand(0, a, kind)
	re, rv := c09decOperand(1, b, kind)
	class := ""
	if len(fa)+len(fb) > 30 {
		class = ".scale-above-30"
	}
	c09decCheck("c09.dec.scalecap", class, NewMult(le, re), sql.Row{lv, rv})
}

// VerifC09DecimalPathPick: the operator/type combinations over INTEGER columns
// that compute through decimals — l DIV r with mixed signedness (operands go
// through DECIMAL(65,0); reported type BIGINT UNSIGNED) and l % r (reported type
// DECIMAL) — one path per sample. Same samples and assertion ids as
// VerifC09DecimalPathSweep (zz_verif_c09_gaps.go, which stays behind its build
// tag: as ONE path it ends at the first sample of its known class, so its
// closing reach witness is never reached), plus the 64-bit extremes. DIV samples
// whose mathematical quotient is negative assert under the class
// ".negative-quotient" (IntDiv.Type reports BIGINT UNSIGNED as soon as one
// operand is unsigned; Eval returns the negative int64). % samples over two
// 64-bit columns assert under ".bigint-operands-reported-decimal-10-0".
func VerifC09DecimalPathPick() {
	vals := [...]int64{0, 1, -1, 7, -7, 127, -128, math.MaxInt64, math.MinInt64}
	tis := [...]int{c09Int8, c09Uint8, c09Int64, c09Uint64}
	lt, rt := tis[nd.Pick("c09.decpath.ltype", 4)], tis[nd.Pick("c09.decpath.rtype", 4)]
	isMod := nd.Pick("c09.decpath.op", 2) == 1
	nd.Assume(isMod || c09Unsigned(lt) != c09Unsigned(rt))
	lx, rx := vals[nd.Pick("c09.decpath.l", len(vals))], vals[nd.Pick("c09.decpath.r", len(vals))]
	fits := func(ti int, x int64) bool {
		switch ti {
		case c09Int8:
			return x >= -128 && x <= 127
		case c09Uint8:
			return x >= 0 && x <= 255
		case c09Uint64:
			return x >= 0
		}
		return true
	}
	nd.Assume(fits(lt, lx) && fits(rt, rx))
	mk := func(ti int, x int64) interface{} {
		switch ti {
		case c09Int8:
			return int8(x)
		case c09Uint8:
			return uint8(x)
		case c09Int64:
			return x
		}
		return uint64(x)
	}
	l := NewGetField(0, c09Types[lt], "l", false)
	r := NewGetField(1, c09Types[rt], "r", false)
	row := sql.Row{mk(lt, lx), mk(rt, rx)}
	var e sql.Expression = NewMod(l, r)
	id, class := "c09.decimal-path.mod", ""
	if (lt == c09Int64 || lt == c09Uint64) && (rt == c09Int64 || rt == c09Uint64) {
		// both operands 64-bit columns: Mod.Type finds no decimal operand, asks
		// CreateDecimalType(0,0) and gets the default DECIMAL(10,0)
		class = ".bigint-operands-reported-decimal-10-0"
	}
	if !isMod {
		e = NewIntDiv(l, r)
		id = "c09.decimal-path.intdiv-mixed-sign"
		if rx != 0 && lx/rx < 0 {
			class = ".negative-quotient"
		}
	}
	v, err := e.Eval(nil, row)
	nd.Reach("c09.decimal-path.pick")
	nd.Observe(lx, rx, lt, rt, isMod, err != nil)
	if err != nil {
		return
	}
	t := e.Type(nil)
	if v == nil {
		nd.Assert(id+".null-only-if-nullable", e.IsNullable(nil))
		return
	}
	if types.IsInteger(t) {
		c, inRange, cerr := t.Convert(nil, v)
		nd.Assert(id+".convert-ok"+class, cerr == nil)
		nd.Assert(id+".in-range"+class, inRange == sql.InRange)
		vn, vb, vok := c09Wide(v)
		cn, cb, kindOK := c09WideOfType(c, t)
		nd.Assert(id+".value-preserved"+class, vok && kindOK && vn == cn && vb == cb)
		return
	}
	c09decCheckValue(id, class, t, v)
}
