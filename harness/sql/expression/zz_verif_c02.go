//go:build verif

package expression

import (
	"math"

	nd "github.com/dolthub/go-mysql-server/internal/zzverifnd"
	"github.com/dolthub/go-mysql-server/sql"
	"github.com/dolthub/go-mysql-server/sql/types"
)

// C02 at expression-kernel level: SQL three-valued logic.
//
// Tri-state encoding used by every oracle here: 0 = FALSE, 1 = TRUE, 2 = NULL.
// The oracles are the SQL definitions (truth tables, membership by
// definition); they never look at the code under test.

// Kleene truth tables, row = left operand, column = right operand (flattened:
// index 3*left+right, because the executor reads one symbolic index at a time).
var c02AndTab = [9]int{
	0, 0, 0,
	0, 1, 2,
	0, 2, 2,
}
var c02OrTab = [9]int{
	0, 1, 2,
	1, 1, 1,
	2, 1, 2,
}
var c02XorTab = [9]int{
	0, 1, 2,
	1, 0, 2,
	2, 2, 2,
}
var c02NotTab = [3]int{1, 0, 2}

func c02And(l, r int) int { return c02AndTab[3*l+r] }
func c02Or(l, r int) int  { return c02OrTab[3*l+r] }
func c02Xor(l, r int) int { return c02XorTab[3*l+r] }
func c02Not(v int) int    { return c02NotTab[v] }

func c02B(b bool) int {
	r := 0
	if b {
		r = 1
	}
	return r
}

// c02Tri maps an Eval result to the tri-state; -1 = error, -2 = not a boolean.
func c02Tri(res interface{}, err error) int {
	if err != nil {
		return -1
	}
	if res == nil {
		return 2
	}
	b, ok := res.(bool)
	if !ok {
		return -2
	}
	return c02B(b)
}

// c02Cell returns a NULL-or-int64 row cell; null reports which.
func c02Cell(name string) (cell interface{}, v int64, null bool) {
	v = nd.Int64(name)
	null = nd.Bool(name + ".null")
	cell = v
	if null {
		cell = nil
	}
	return cell, v, null
}

// c02Rel is the SQL definition of the six comparison operators on two
// NULL-or-integer operands whose mathematical order is given by lt / eq.
//
//	0 '='  1 '<=>'  2 '>'  3 '<'  4 '>='  5 '<='
func c02Rel(op int, ln, rn bool, lt, eq bool) int {
	gt := nd.And(!lt, !eq)
	var t bool
	switch op {
	case 0, 1:
		t = eq
	case 2:
		t = gt
	case 3:
		t = lt
	case 4:
		t = nd.Or(gt, eq)
	default:
		t = nd.Or(lt, eq)
	}
	if op == 1 {
		// NULL-safe equality never yields NULL.
		if ln || rn {
			return c02B(nd.And(ln, rn))
		}
		return c02B(t)
	}
	if ln || rn {
		return 2
	}
	return c02B(t)
}

func c02NewCmp(op int, l, r sql.Expression) sql.Expression {
	switch op {
	case 0:
		return NewEquals(l, r)
	case 1:
		return NewNullSafeEquals(l, r)
	case 2:
		return NewGreaterThan(l, r)
	case 3:
		return NewLessThan(l, r)
	case 4:
		return NewGreaterThanOrEqual(l, r)
	default:
		return NewLessThanOrEqual(l, r)
	}
}

// The six comparison operators over two BIGINT columns.
func VerifC02CompareInt64() {
	op := nd.Pick("op", 6)
	lc, l, ln := c02Cell("l")
	rc, r, rn := c02Cell("r")
	e := c02NewCmp(op, NewGetField(0, types.Int64, "l", true), NewGetField(1, types.Int64, "r", true))
	got := c02Tri(e.Eval(nil, sql.Row{lc, rc}))
	nd.Reach("c02.cmp.int64")
	nd.Observe(got)
	nd.Assert("c02.cmp.int64.3vl", got == c02Rel(op, ln, rn, l < r, l == r))
}

// Same-signedness mixed widths: TINYINT column against BIGINT column.
func VerifC02CompareInt8Int64() {
	op := nd.Pick("op", 6)
	swap := nd.Bool("swap")
	a := nd.Int8("a")
	b := nd.Int64("b")
	an, bn := nd.Bool("a.null"), nd.Bool("b.null")
	var ac, bc interface{} = a, b
	if an {
		ac = nil
	}
	if bn {
		bc = nil
	}
	var e sql.Expression
	var want int
	if swap {
		e = c02NewCmp(op, NewGetField(1, types.Int64, "b", true), NewGetField(0, types.Int8, "a", true))
		want = c02Rel(op, bn, an, b < int64(a), b == int64(a))
	} else {
		e = c02NewCmp(op, NewGetField(0, types.Int8, "a", true), NewGetField(1, types.Int64, "b", true))
		want = c02Rel(op, an, bn, int64(a) < b, int64(a) == b)
	}
	got := c02Tri(e.Eval(nil, sql.Row{ac, bc}))
	nd.Reach("c02.cmp.int8-int64")
	nd.Observe(got)
	nd.Assert("c02.cmp.int8-int64.3vl", got == want)
}

// Two BIGINT UNSIGNED columns.
func VerifC02CompareUint64() {
	op := nd.Pick("op", 6)
	l, r := nd.Uint64("l"), nd.Uint64("r")
	ln, rn := nd.Bool("l.null"), nd.Bool("r.null")
	var lc, rc interface{} = l, r
	if ln {
		lc = nil
	}
	if rn {
		rc = nil
	}
	e := c02NewCmp(op, NewGetField(0, types.Uint64, "l", true), NewGetField(1, types.Uint64, "r", true))
	got := c02Tri(e.Eval(nil, sql.Row{lc, rc}))
	nd.Reach("c02.cmp.uint64")
	nd.Observe(got)
	nd.Assert("c02.cmp.uint64.3vl", got == c02Rel(op, ln, rn, l < r, l == r))
}

// Mixed signedness: BIGINT column against BIGINT UNSIGNED column, compared as
// mathematical integers (MySQL compares integer operands exactly). The engine
// converts both non-NULL operands to float64, which the executor cannot do for
// symbolic values, so this harness is restricted to rows with a NULL operand;
// non-NULL operands are sampled by VerifC02CompareInt64Uint64Boundary.
func VerifC02CompareInt64Uint64() {
	op := nd.Pick("op", 6)
	a := nd.Int64("a")
	b := nd.Uint64("b")
	an, bn := nd.Bool("a.null"), nd.Bool("b.null")
	nd.Assume(nd.Or(an, bn))
	var ac, bc interface{} = a, b
	if an {
		ac = nil
	}
	if bn {
		bc = nil
	}
	e := c02NewCmp(op, NewGetField(0, types.Int64, "a", true), NewGetField(1, types.Uint64, "b", true))
	got := c02Tri(e.Eval(nil, sql.Row{ac, bc}))
	nd.Reach("c02.cmp.int64-uint64")
	nd.Observe(got)
	lt := nd.Or(a < 0, uint64(a) < b)
	eq := nd.And(a >= 0, uint64(a) == b)
	nd.Assert("c02.cmp.int64-uint64.3vl", got == c02Rel(op, an, bn, lt, eq))
}

// The same mixed-signedness comparison on concrete boundary values only (the
// engine compares these operands as float64, which the executor handles for
// concrete values): a table of pairs around 2^53 and 2^63.
func VerifC02CompareInt64Uint64Boundary() {
	op := nd.Pick("op", 6)
	as := [...]int64{math.MaxInt64, math.MaxInt64 - 1, 1<<53 + 1, 1 << 53, -1, 0}
	bs := [...]uint64{1 << 63, 1<<63 - 1, 1 << 53, 1<<53 + 1, math.MaxUint64, 0}
	a := as[nd.Pick("ai", len(as))]
	b := bs[nd.Pick("bi", len(bs))]
	e := c02NewCmp(op, NewGetField(0, types.Int64, "a", true), NewGetField(1, types.Uint64, "b", true))
	got := c02Tri(e.Eval(nil, sql.Row{a, b}))
	nd.Reach("c02.cmp.int64-uint64.boundary")
	nd.Observe(got)
	lt := a < 0 || uint64(a) < b
	eq := a >= 0 && uint64(a) == b
	// Defect class of the known finding (see known_findings.txt): the two operands are
	// different integers that round to the same float64.
	// Cells of that class assert under their own id, so that the recorded finding
	// does not mask any other cell of this table.
	if a >= 0 && uint64(a) != b && float64(a) == float64(b) {
		nd.Assert("c02.cmp.int64-uint64.boundary.3vl.float64-collision", got == c02Rel(op, false, false, lt, eq))
		return
	}
	nd.Assert("c02.cmp.int64-uint64.boundary.3vl", got == c02Rel(op, false, false, lt, eq))
}

// c02Atom builds a depth-1 predicate over columns i and j of an all-BIGINT
// row and returns it with its SQL value.
//
//	0..5 comparison   6 'ci IS NULL'   7 'ci IN (cj, 7)'
func c02Atom(kind, i, j int, v []int64, null []bool) (sql.Expression, int) {
	fi := NewGetField(i, types.Int64, "c", true)
	fj := NewGetField(j, types.Int64, "d", true)
	a, b := v[i], v[j]
	an, bn := null[i], null[j]
	switch kind {
	case 6:
		return NewIsNull(fi), c02B(an)
	case 7:
		e := NewInTuple(fi, NewTuple(fj, NewLiteral(int64(7), types.Int64)))
		want := 0
		if an {
			want = 2
		} else if nd.Or(nd.And(!bn, a == b), a == 7) {
			want = 1
		} else if bn {
			want = 2
		}
		return e, want
	}
	return c02NewCmp(kind, fi, fj), c02Rel(kind, an, bn, a < b, a == b)
}

func c02Row3() (sql.Row, []int64, []bool) {
	c0, v0, n0 := c02Cell("c0")
	c1, v1, n1 := c02Cell("c1")
	c2, v2, n2 := c02Cell("c2")
	return sql.Row{c0, c1, c2}, []int64{v0, v1, v2}, []bool{n0, n1, n2}
}

// Depth 2: AND / OR / XOR of two depth-1 predicates, and NOT of one, over a row
// of three NULL-or-BIGINT columns.
func VerifC02LogicOverPredicates() {
	con := nd.Pick("con", 4)
	lk := nd.Pick("lk", 8)
	row, v, null := c02Row3()
	le, lw := c02Atom(lk, 0, 1, v, null)
	var e sql.Expression
	var want int
	if con == 3 {
		e = NewNot(le)
		want = c02NotTab[lw]
	} else {
		// right operand: '=', '<', '<=>' or IS NULL over (c2, c1)
		rk := [...]int{0, 3, 1, 6}[nd.Pick("rk", 4)]
		re, rw := c02Atom(rk, 2, 1, v, null)
		switch con {
		case 0:
			e, want = NewAnd(le, re), c02And(lw, rw)
		case 1:
			e, want = NewOr(le, re), c02Or(lw, rw)
		default:
			e, want = NewXor(le, re), c02Xor(lw, rw)
		}
	}
	got := c02Tri(e.Eval(nil, row))
	nd.Reach("c02.logic.predicates")
	nd.Observe(got)
	nd.Assert("c02.logic.predicates.kleene", got == want)
}

// AND / OR / XOR / NOT directly over NULL-or-BIGINT operands (non-zero is TRUE).
func VerifC02LogicOverIntegers() {
	con := nd.Pick("con", 4)
	lc, l, ln := c02Cell("l")
	rc, r, rn := c02Cell("r")
	lw, rw := c02B(l != 0), c02B(r != 0)
	if ln {
		lw = 2
	}
	if rn {
		rw = 2
	}
	lf, rf := NewGetField(0, types.Int64, "l", true), NewGetField(1, types.Int64, "r", true)
	var e sql.Expression
	var want int
	switch con {
	case 0:
		e, want = NewAnd(lf, rf), c02And(lw, rw)
	case 1:
		e, want = NewOr(lf, rf), c02Or(lw, rw)
	case 2:
		e, want = NewXor(lf, rf), c02Xor(lw, rw)
	default:
		e, want = NewNot(lf), c02NotTab[lw]
	}
	got := c02Tri(e.Eval(nil, sql.Row{lc, rc}))
	nd.Reach("c02.logic.integers")
	nd.Observe(got)
	nd.Assert("c02.logic.integers.kleene", got == want)
}

// Depth 3 sample: (p AND q) OR NOT r, (p OR q) AND NOT r — nested connectives
// keep the tri-state through two levels.
func VerifC02LogicNested() {
	sh := nd.Pick("shape", 2)
	// quick: 3 x 2 x 2 predicate kinds per shape; thorough: 6 x 2 x 3
	pk := [...]int{0, 3, 5, 1, 2, 4}[nd.Pick("pk", nd.Bound(3, 6))]
	qk := [...]int{0, 3}[nd.Pick("qk", 2)]
	rk := [...]int{1, 6, 4}[nd.Pick("rk", nd.Bound(2, 3))]
	row, v, null := c02Row3()
	p, pw := c02Atom(pk, 0, 1, v, null)
	q, qw := c02Atom(qk, 1, 2, v, null)
	r, rw := c02Atom(rk, 2, 0, v, null)
	var e sql.Expression
	var want int
	if sh == 0 {
		e = NewOr(NewAnd(p, q), NewNot(r))
		want = c02Or(c02And(pw, qw), c02Not(rw))
	} else {
		e = NewAnd(NewOr(p, q), NewNot(r))
		want = c02And(c02Or(pw, qw), c02Not(rw))
	}
	got := c02Tri(e.Eval(nil, row))
	nd.Reach("c02.logic.nested")
	nd.Observe(got)
	nd.Assert("c02.logic.nested.kleene", got == want)
}

// x IN (e1..en) and x NOT IN (e1..en), n in 1..3 (thorough 4); x and every
// element NULL or a symbolic BIGINT; an element is a literal (a NULL literal
// has type NULL, as the planner builds it) or a nullable column.
func VerifC02InTuple() {
	n := nd.IntRange("n", 1, nd.Bound(3, 4))
	xc, x, xn := c02Cell("x")
	row := sql.Row{xc}
	elems := make([]sql.Expression, n)
	anyEq, anyNull := false, false
	for i := 0; i < n; i++ {
		s := string(rune('0' + i))
		v := nd.Int64("e" + s)
		null := nd.Bool("e" + s + ".null")
		if nd.Pick("e"+s+".kind", 2) == 0 {
			if null {
				elems[i] = NewLiteral(nil, types.Null)
			} else {
				elems[i] = NewLiteral(v, types.Int64)
			}
		} else {
			var c interface{} = v
			if null {
				c = nil
			}
			elems[i] = NewGetField(len(row), types.Int64, "e"+s, true)
			row = append(row, c)
		}
		anyNull = nd.Or(anyNull, null)
		anyEq = nd.Or(anyEq, nd.And(!null, v == x))
	}
	in := NewInTuple(NewGetField(0, types.Int64, "x", true), NewTuple(elems...))
	got := c02Tri(in.Eval(nil, row))
	gotNot := c02Tri(NewNotInTuple(NewGetField(0, types.Int64, "x", true), NewTuple(elems...)).Eval(nil, row))
	nd.Reach("c02.in")
	nd.Observe(got, gotNot)
	// definition: TRUE iff some element equals x; else NULL iff x is NULL or
	// some element is NULL; else FALSE.
	want := 0
	if nd.And(!xn, anyEq) {
		want = 1
	} else if nd.Or(xn, anyNull) {
		want = 2
	}
	nd.Assert("c02.in.definition", got == want)
	nd.Assert("c02.notin.definition", gotNot == c02NotTab[want])
	nd.Assert("c02.notin.null-element-never-true", nd.Implies(anyNull, gotNot != 1))
	nd.Assert("c02.notin.null-left-never-true", nd.Implies(xn, gotNot != 1))
}

// IS NULL / IS NOT NULL of a column and of a comparison.
func VerifC02IsNull() {
	k := nd.Pick("k", 7)
	row, v, null := c02Row3()
	var child sql.Expression
	var cw int
	if k == 6 {
		child, cw = NewGetField(0, types.Int64, "c", true), 0
		if null[0] {
			cw = 2
		}
	} else {
		child, cw = c02Atom(k, 0, 1, v, null)
	}
	got := c02Tri(NewIsNull(child).Eval(nil, row))
	gotNot := c02Tri(NewNot(NewIsNull(child)).Eval(nil, row))
	nd.Reach("c02.isnull")
	nd.Observe(got, gotNot)
	nd.Assert("c02.isnull.definition", got == c02B(cw == 2))
	nd.Assert("c02.isnotnull.definition", gotNot == c02B(cw != 2))
}
