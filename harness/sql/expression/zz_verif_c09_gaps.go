//go:build verif && c09gaps

package expression

import (
	"github.com/cockroachdb/apd/v3"

	nd "github.com/dolthub/go-mysql-server/internal/zzverifnd"
	"github.com/dolthub/go-mysql-server/sql"
	"github.com/dolthub/go-mysql-server/sql/types"
)

// Harnesses written for C09 that gosymx cannot execute yet (needs the extra
// build tag c09gaps, so `gosymx check C09` does not see it):
//
// (*Case).Eval starts with `span, ctx := ctx.Span("expression.Case"); defer
// span.End()`. With a nil context Span returns the package variable
// sql.noopSpan, created at package init by
// trace.NewNoopTracerProvider().Tracer(..).Start(..); the executor keeps it as
// a poisoned opaque value and every path aborts with
// "method call on poison: ... method Tracer on opaque trace.TracerProvider".
// Natively the harness runs (conformance vectors: native=ok).
//
// VerifC09DecimalPathSweep computes through apd.Decimal / math/big
// ("callee outside allow-list: (*math/big.Int).SetUint64", "...String"), even on
// concrete operands. It has no nd inputs; it was run natively once with
// `gosymx replay` on {"harness":"VerifC09DecimalPathSweep","package":
// "sql/expression","vals":{}} (with this file temporarily under the plain
// verif tag): REPRODUCED, failed assertions
// [c09.decimal-path.intdiv-mixed-sign.in-range.negative-quotient], nothing else.

// VerifC09Case: CASE WHEN c THEN a [ELSE b] END and CASE x WHEN y THEN a ELSE b
// END over integer columns whose common type is an integer type (a BIGINT
// UNSIGNED branch together with a signed branch makes the type DECIMAL(65,0):
// excluded).
func VerifC09Case() {
	at := nd.Pick("atype", len(c09Types))
	bt := nd.Pick("btype", len(c09Types))
	nd.Assume(!(at == c09Uint64 && !c09Unsigned(bt)))
	nd.Assume(!(bt == c09Uint64 && !c09Unsigned(at)))
	shape := nd.Pick("shape", 3)
	m := c09ModePairs[nd.Pick("modes", nd.Bound(3, len(c09ModePairs)))]
	a, av := c09Field(1, "a", at, m[0])
	b, bv := c09Field(2, "b", bt, m[1])
	cond, cv := c09Field(0, "c", c09Int8, nd.Pick("cmode", 2)+1)
	row := sql.Row{cv, av, bv}
	var e sql.Expression
	switch shape {
	case 0:
		e = NewCase(nil, []CaseBranch{{Cond: cond, Value: a}}, b)
	case 1:
		e = NewCase(nil, []CaseBranch{{Cond: cond, Value: a}}, nil)
	default:
		e = NewCase(cond, []CaseBranch{{Cond: NewLiteral(int8(1), types.Int8), Value: a}}, b)
	}
	c09Check("c09.case", "", e, row)
}

// VerifC09DecimalPathSweep: the operator/type combinations that compute through
// decimals (math/big: not executable by gosymx, so this harness only runs
// natively, through `gosymx replay`): l DIV r with mixed signedness (reported
// type BIGINT UNSIGNED) and l % r (reported type DECIMAL), over a concrete
// table of operand values. Asserted per sample: NULL only if nullable; an
// integer result conforms to the reported integer type; a decimal result is
// accepted in range by the reported decimal type. DIV samples whose
// mathematical quotient is negative assert under the class
// ".negative-quotient".
func VerifC09DecimalPathSweep() {
	vals := [...]int64{0, 1, -1, 7, -7, 127, -128}
	tis := [...]int{c09Int8, c09Uint8, c09Int64, c09Uint64}
	mk := func(ti int, x int64) interface{} {
		switch ti {
		case c09Int8:
			return int8(x)
		case c09Uint8:
			return uint8(x)
		case c09Int64:
			return x
		}
		return uint64(x)
	}
	n := 0
	for _, lt := range tis {
		for _, rt := range tis {
			for _, lx := range vals {
				for _, rx := range vals {
					if (c09Unsigned(lt) && lx < 0) || (c09Unsigned(rt) && rx < 0) {
						continue
					}
					l := NewGetField(0, c09Types[lt], "l", false)
					r := NewGetField(1, c09Types[rt], "r", false)
					row := sql.Row{mk(lt, lx), mk(rt, rx)}
					for op := 0; op < 2; op++ {
						var e sql.Expression
						id, class := "c09.decimal-path.mod", ""
						if op == 0 {
							if c09Unsigned(lt) == c09Unsigned(rt) {
								continue
							}
							e = NewIntDiv(l, r)
							id = "c09.decimal-path.intdiv-mixed-sign"
							if rx != 0 && lx/rx < 0 {
								class = ".negative-quotient"
							}
						} else {
							e = NewMod(l, r)
						}
						v, err := e.Eval(nil, row)
						if err != nil {
							continue
						}
						n++
						t := e.Type(nil)
						if v == nil {
							nd.Assert(id+".null-only-if-nullable", e.IsNullable(nil))
							continue
						}
						c, inRange, cerr := t.Convert(nil, v)
						nd.Assert(id+".convert-ok"+class, cerr == nil)
						nd.Assert(id+".in-range"+class, inRange == sql.InRange)
						if types.IsInteger(t) {
							vn, vb, vok := c09Wide(v)
							cn, cb, kindOK := c09WideOfType(c, t)
							nd.Assert(id+".value-preserved"+class, vok && kindOK && vn == cn && vb == cb)
						} else {
							_, isDec := c.(*apd.Decimal)
							nd.Assert(id+".decimal-kind", isDec)
						}
					}
				}
			}
		}
	}
	nd.Observe(n)
	nd.Reach("c09.decimal-path")
}
