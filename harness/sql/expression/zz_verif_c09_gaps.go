//go:build verif && c09gaps

package expression

import (
	"github.com/cockroachdb/apd/v3"

	nd "github.com/dolthub/go-mysql-server/internal/zzverifnd"
	"github.com/dolthub/go-mysql-server/sql"
	"github.com/dolthub/go-mysql-server/sql/types"
)

// Harnesses written for C09 that gosymx cannot execute yet (needs the extra
// build tag c09gaps, so `gosymx check C09` does not see it):
//
// VerifC09DecimalPathSweep computes through apd.Decimal / math/big
// ("callee outside allow-list: (*math/big.Int).SetUint64", "...String"), even on
// concrete operands. It has no nd inputs; it was run natively once with
// `gosymx replay` on {"harness":"VerifC09DecimalPathSweep","package":
// "sql/expression","vals":{}} (with this file temporarily under the plain
// verif tag): REPRODUCED, failed assertions
// [c09.decimal-path.intdiv-mixed-sign.in-range.negative-quotient], nothing else.

// VerifC09DecimalPathSweep: the operator/type combinations that compute through
// decimals (math/big: not executable by gosymx, so this harness only runs
// natively, through `gosymx replay`): l DIV r with mixed signedness (reported
// type BIGINT UNSIGNED) and l % r (reported type DECIMAL), over a concrete
// table of operand values. Asserted per sample: NULL only if nullable; an
// integer result conforms to the reported integer type; a decimal result is
// accepted in range by the reported decimal type. DIV samples whose
// mathematical quotient is negative assert under the class
// ".negative-quotient".
func VerifC09DecimalPathSweep() {
	vals := [...]int64{0, 1, -1, 7, -7, 127, -128}
	tis := [...]int{c09Int8, c09Uint8, c09Int64, c09Uint64}
	mk := func(ti int, x int64) interface{} {
		switch ti {
		case c09Int8:
			return int8(x)
		case c09Uint8:
			return uint8(x)
		case c09Int64:
			return x
		}
		return uint64(x)
	}
	n := 0
	for _, lt := range tis {
		for _, rt := range tis {
			for _, lx := range vals {
				for _, rx := range vals {
					if (c09Unsigned(lt) && lx < 0) || (c09Unsigned(rt) && rx < 0) {
						continue
					}
					l := NewGetField(0, c09Types[lt], "l", false)
					r := NewGetField(1, c09Types[rt], "r", false)
					row := sql.Row{mk(lt, lx), mk(rt, rx)}
					for op := 0; op < 2; op++ {
						var e sql.Expression
						id, class := "c09.decimal-path.mod", ""
						if op == 0 {
							if c09Unsigned(lt) == c09Unsigned(rt) {
								continue
							}
							e = NewIntDiv(l, r)
							id = "c09.decimal-path.intdiv-mixed-sign"
							if rx != 0 && lx/rx < 0 {
								class = ".negative-quotient"
							}
						} else {
							e = NewMod(l, r)
						}
						v, err := e.Eval(nil, row)
						if err != nil {
							continue
						}
						n++
						t := e.Type(nil)
						if v == nil {
							nd.Assert(id+".null-only-if-nullable", e.IsNullable(nil))
							continue
						}
						c, inRange, cerr := t.Convert(nil, v)
						nd.Assert(id+".convert-ok"+class, cerr == nil)
						nd.Assert(id+".in-range"+class, inRange == sql.InRange)
						if types.IsInteger(t) {
							vn, vb, vok := c09Wide(v)
							cn, cb, kindOK := c09WideOfType(c, t)
							nd.Assert(id+".value-preserved"+class, vok && kindOK && vn == cn && vb == cb)
						} else {
							_, isDec := c.(*apd.Decimal)
							nd.Assert(id+".decimal-kind", isDec)
						}
					}
				}
			}
		}
	}
	nd.Observe(n)
	nd.Reach("c09.decimal-path")
}
