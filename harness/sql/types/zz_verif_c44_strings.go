//go:build verif

package types

import (
	nd "github.com/dolthub/go-mysql-server/internal/zzverifnd"
	"github.com/dolthub/go-mysql-server/sql"
)

// C44, string sources: an integer system variable set from a STRING (SET x =
// '010', or through the session API) takes the DECIMAL reading of the text or
// rejects it — never another base, never digit separators.
// The text is assembled from concrete pieces by selectors: optional sign,
// optional prefix (0, 00, 0x, 0b, 0o), 1..2 symbolic decimal digits, optional
// '_' between them. Reference: accepted exactly when the text is sign? digit+
// and then the value is its decimal reading (leading zeros are plain zeros).
// (Added after the seeded change /verif/seeded/C44-sysint-parse-base0 —
// strconv.ParseInt with base 0 — was missed: the first C44 check had no string
// sources.)
func VerifC44SysIntFromString() {
	t := NewSystemIntType("verif_var", -1000, 1000, false)
	sign := [...]string{"", "-", "+"}[nd.Pick("c44s.sign", 3)]
	prefix := [...]string{"", "0", "00", "0x", "0b", "0o"}[nd.Pick("c44s.prefix", 6)]
	n := nd.IntRange("c44s.n", 1, 2)
	sep := nd.Pick("c44s.sep", 2) == 1 && n == 2
	d := nd.Bytes("c44s.d", n)
	val := int64(0)
	for i := 0; i < n; i++ {
		nd.Assume(d[i] >= '0' && d[i] <= '9')
		val = val*10 + int64(d[i]-'0')
	}
	text := sign + prefix + string(d[:1])
	if n == 2 {
		if sep {
			text += "_"
		}
		text += string(d[1:])
	}
	if sign == "-" {
		val = -val
	}
	decimal := !sep && (prefix == "" || prefix == "0" || prefix == "00")
	r, flag, err := t.Convert(c44ctx, text)
	nd.Reach("c44.int.string")
	nd.Observe(text, r, int(flag), err != nil)
	if !decimal {
		nd.Assert("c44.int.string.non-decimal-text-rejected", err != nil && r == nil)
		return
	}
	nd.Assert("c44.int.string.decimal-text-accepted", err == nil)
	if err != nil {
		return
	}
	s, ok := r.(int64)
	nd.Assert("c44.int.string.value-is-the-decimal-reading", nd.And(ok, nd.And(flag == sql.InRange, s == val)))
}
