//go:build verif

package types

// C32, JSON document layer: JSONDocument.Set / Insert / Replace / Remove / ArrayAppend / ArrayInsert
// (walkPathAndUpdate, updateObject, updateArray, updateObjectTreatAsArray, parseIndex, parseNameAfterDot),
// memberAccessOnNonObject + jsonPathScanner (the locally written part of Lookup) and CompareJSON.
//
// Documents are Go values (map[string]interface{} / []interface{} / nil / bool / float64 / string) picked by
// concrete selectors; paths are concrete strings with QUOTED member names ($."a"[0]), because the unquoted form
// goes through regexp (parseNameAfterDot), which the executor does not interpret.
//
// The oracle is a definitional model of MySQL's documented path semantics (JSON path syntax + JSON_SET /
// JSON_INSERT / JSON_REPLACE / JSON_REMOVE / JSON_ARRAY_APPEND / JSON_ARRAY_INSERT in the reference manual):
// resolve the path functionally, then build a NEW expected document; nothing is updated in place.

import (
	"strconv"

	nd "github.com/dolthub/go-mysql-server/internal/zzverifnd"
)

// ---------------------------------------------------------------------------------------------------------
// document family

const c32ValKinds = 10

// c32Val builds (fresh on every call) one member / element value.
func c32Val(k int) interface{} {
	switch k {
	case 0:
		return nil // JSON null
	case 1:
		return true
	case 2:
		return 1.0
	case 3:
		return "s"
	case 4:
		return map[string]interface{}{}
	case 5:
		return map[string]interface{}{"b": 2.0}
	case 6:
		return map[string]interface{}{"b": nil}
	case 7:
		return []interface{}{}
	case 8:
		return []interface{}{3.0}
	default:
		return []interface{}{nil, map[string]interface{}{"b": 4.0}}
	}
}

const c32Shapes = 6

// c32Doc builds (fresh on every call) the document of shape s with member/element kinds k1, k2.
//
//	0: the value k1 itself (scalars, {}, {"b":..}, [], [3], [null,{"b":4}] as whole documents)
//	1: {"a": k1}   2: {"b": k1}   3: {"a": k1, "b": k2}   4: [k1]   5: [k1, k2]
func c32Doc(s, k1, k2 int) interface{} {
	switch s {
	case 0:
		return c32Val(k1)
	case 1:
		return map[string]interface{}{"a": c32Val(k1)}
	case 2:
		return map[string]interface{}{"b": c32Val(k1)}
	case 3:
		return map[string]interface{}{"a": c32Val(k1), "b": c32Val(k2)}
	case 4:
		return []interface{}{c32Val(k1)}
	default:
		return []interface{}{c32Val(k1), c32Val(k2)}
	}
}

// c32PickDoc draws the selectors of a document; k2 is only drawn for the two-member shapes.
func c32PickDoc(prefix string, kinds2 int) (s, k1, k2 int) {
	s = nd.Pick(prefix+".shape", c32Shapes)
	k1 = nd.Pick(prefix+".k1", c32ValKinds)
	if s == 3 || s == 5 {
		k2 = c32SecondKind(nd.Pick(prefix+".k2", kinds2))
	}
	return
}

// c32SecondKind orders the kinds of the SECOND member/element so that a prefix of 5 still has one of each sort:
// null, {"b":2}, [3], "s", [], then the rest.
func c32SecondKind(i int) int {
	switch i {
	case 0:
		return 0
	case 1:
		return 5
	case 2:
		return 8
	case 3:
		return 3
	case 4:
		return 7
	case 5:
		return 1
	case 6:
		return 2
	case 7:
		return 4
	case 8:
		return 6
	default:
		return 9
	}
}

const c32NewVals = 4

// c32NewVal builds the value written by a mutation. Every non-null one differs from every value of the
// document family, so that "replaced" always means "differs".
func c32NewVal(k int) interface{} {
	switch k {
	case 0:
		return 9.0
	case 1:
		return nil // JSON null as the NEW value
	case 2:
		return map[string]interface{}{"z": 9.0}
	default:
		return []interface{}{9.0}
	}
}

// ---------------------------------------------------------------------------------------------------------
// path family

type c32Leg struct {
	isMember bool
	member   string
	index    int
	last     bool
}

func c32M(name string) c32Leg { return c32Leg{isMember: true, member: name} }
func c32I(i int) c32Leg       { return c32Leg{index: i} }
func c32L() c32Leg            { return c32Leg{last: true} }

const c32Paths = 24

// c32Path: path number p as legs. 0 is the root path "$".
func c32Path(p int) []c32Leg {
	switch p {
	case 0:
		return []c32Leg{}
	case 1:
		return []c32Leg{c32M("a")}
	case 2:
		return []c32Leg{c32M("b")}
	case 3:
		return []c32Leg{c32M("c")}
	case 4:
		return []c32Leg{c32M("a"), c32M("b")}
	case 5:
		return []c32Leg{c32M("a"), c32M("c")}
	case 6:
		return []c32Leg{c32I(0)}
	case 7:
		return []c32Leg{c32I(1)}
	case 8:
		return []c32Leg{c32I(2)}
	case 9:
		return []c32Leg{c32L()}
	case 10:
		return []c32Leg{c32M("a"), c32I(0)}
	case 11:
		return []c32Leg{c32M("a"), c32I(1)}
	case 12:
		return []c32Leg{c32M("a"), c32L()}
	case 13:
		return []c32Leg{c32I(0), c32M("b")}
	case 14:
		return []c32Leg{c32I(1), c32M("b")}
	case 15:
		return []c32Leg{c32I(1), c32I(0)}
	case 16:
		return []c32Leg{c32I(0), c32I(0)}
	case 17:
		return []c32Leg{c32M("a"), c32I(0), c32M("b")}
	case 18:
		return []c32Leg{c32M("a"), c32I(1), c32M("b")}
	case 19:
		return []c32Leg{c32M("c"), c32I(0)}
	case 20:
		return []c32Leg{c32M("c"), c32I(1)}
	case 21:
		return []c32Leg{c32L(), c32M("b")}
	case 22:
		return []c32Leg{c32I(1), c32I(1)}
	default:
		return []c32Leg{c32M("a"), c32I(1), c32I(0)}
	}
}

// c32PathString renders legs as MySQL path text; member names quoted or bare.
func c32PathString(legs []c32Leg, quoted bool) string {
	s := "$"
	for _, l := range legs {
		if l.isMember {
			if quoted {
				s += ".\"" + l.member + "\""
			} else {
				s += "." + l.member
			}
		} else if l.last {
			s += "[last]"
		} else {
			s += "[" + strconv.Itoa(l.index) + "]"
		}
	}
	return s
}

func c32EndsInCell(legs []c32Leg) bool {
	return len(legs) > 0 && !legs[len(legs)-1].isMember
}

// ---------------------------------------------------------------------------------------------------------
// oracle

// c32Eq: structural equality of JSON values (objects as key sets, arrays positionally).
func c32Eq(a, b interface{}) bool {
	switch x := a.(type) {
	case nil:
		return b == nil
	case bool:
		y, ok := b.(bool)
		return ok && x == y
	case float64:
		switch y := b.(type) {
		case float64:
			return x == y
		case int64:
			return x == float64(y)
		}
		return false
	case int64:
		switch y := b.(type) {
		case float64:
			return float64(x) == y
		case int64:
			return x == y
		}
		return false
	case string:
		y, ok := b.(string)
		return ok && x == y
	case map[string]interface{}:
		y, ok := b.(map[string]interface{})
		if !ok || len(x) != len(y) {
			return false
		}
		for k, xv := range x {
			yv, has := y[k]
			if !has || !c32Eq(xv, yv) {
				return false
			}
		}
		return true
	case []interface{}:
		y, ok := b.([]interface{})
		if !ok || len(x) != len(y) {
			return false
		}
		for i := range x {
			if !c32Eq(x[i], y[i]) {
				return false
			}
		}
		return true
	}
	return false
}

func c32Copy(v interface{}) interface{} {
	switch x := v.(type) {
	case map[string]interface{}:
		r := map[string]interface{}{}
		for k, c := range x {
			r[k] = c32Copy(c)
		}
		return r
	case []interface{}:
		r := make([]interface{}, len(x))
		for i := range x {
			r[i] = c32Copy(x[i])
		}
		return r
	}
	return v
}

// c32Step: the value selected by one leg. Member legs match objects only. A cell leg on an array selects the
// element (last = len-1). With autowrap, a cell leg [0] / [last] on a NON-array selects the value itself
// ("If path does not select an array value, path[0] evaluates to the same value as path").
func c32Step(v interface{}, l c32Leg, autowrap bool) (interface{}, bool) {
	if l.isMember {
		o, ok := v.(map[string]interface{})
		if !ok {
			return nil, false
		}
		c, has := o[l.member]
		return c, has
	}
	a, ok := v.([]interface{})
	if !ok {
		if autowrap && (l.last || l.index == 0) {
			return v, true
		}
		return nil, false
	}
	i := l.index
	if l.last {
		i = len(a) - 1
	}
	if i < 0 || i >= len(a) {
		return nil, false
	}
	return a[i], true
}

func c32Resolve(v interface{}, legs []c32Leg, autowrap bool) (interface{}, bool) {
	for _, l := range legs {
		var ok bool
		v, ok = c32Step(v, l, autowrap)
		if !ok {
			return nil, false
		}
	}
	return v, true
}

// c32With: a fresh copy of v in which the value selected by legs (which must resolve, autowrap allowed) is nv.
func c32With(v interface{}, legs []c32Leg, nv interface{}) interface{} {
	if len(legs) == 0 {
		return nv
	}
	l := legs[0]
	if l.isMember {
		o := v.(map[string]interface{})
		r := map[string]interface{}{}
		for k, c := range o {
			if k == l.member {
				r[k] = c32With(c, legs[1:], nv)
			} else {
				r[k] = c32Copy(c)
			}
		}
		return r
	}
	a, ok := v.([]interface{})
	if !ok {
		return c32With(v, legs[1:], nv) // auto-wrapped cell: the same value
	}
	i := l.index
	if l.last {
		i = len(a) - 1
	}
	r := make([]interface{}, len(a))
	for j := range a {
		if j == i {
			r[j] = c32With(a[j], legs[1:], nv)
		} else {
			r[j] = c32Copy(a[j])
		}
	}
	return r
}

func c32Appended(a []interface{}, v interface{}) []interface{} {
	r := make([]interface{}, 0, len(a)+1)
	for _, e := range a {
		r = append(r, c32Copy(e))
	}
	return append(r, v)
}

const (
	c32Set = iota
	c32Insert
	c32Replace
)

// c32ExpectWrite: the document JSON_SET / JSON_INSERT / JSON_REPLACE must produce.
//
//	existing path: SET/REPLACE overwrite, INSERT ignores.
//	missing path:  REPLACE ignores. SET/INSERT add the value only if the PARENT path exists and
//	               - the last leg is a member and the parent is an object (member added), or
//	               - the last leg is a cell: parent array -> value appended; parent not an array -> [parent, value];
//	               anything else is ignored.
func c32ExpectWrite(mode int, doc interface{}, legs []c32Leg, v interface{}) interface{} {
	if _, exists := c32Resolve(doc, legs, true); exists {
		if mode == c32Insert {
			return c32Copy(doc)
		}
		return c32With(doc, legs, v)
	}
	if mode == c32Replace {
		return c32Copy(doc)
	}
	n := len(legs)
	parentLegs := legs[:n-1]
	parent, pex := c32Resolve(doc, parentLegs, true)
	if !pex {
		return c32Copy(doc)
	}
	last := legs[n-1]
	if last.isMember {
		o, isObj := parent.(map[string]interface{})
		if !isObj {
			return c32Copy(doc)
		}
		no := c32Copy(o).(map[string]interface{})
		no[last.member] = v
		return c32With(doc, parentLegs, no)
	}
	if a, isArr := parent.([]interface{}); isArr {
		return c32With(doc, parentLegs, c32Appended(a, v))
	}
	// parent is not an array and the cell is neither [0] nor [last] (those exist by auto-wrapping)
	return c32With(doc, parentLegs, []interface{}{c32Copy(parent), v})
}

// c32ExpectRemove: JSON_REMOVE. asserted=false where the path exists only through auto-wrapping
// (a cell leg on a non-array): nothing is claimed there.
func c32ExpectRemove(doc interface{}, legs []c32Leg) (exp interface{}, asserted bool) {
	if _, strict := c32Resolve(doc, legs, false); strict {
		n := len(legs)
		parent, _ := c32Resolve(doc, legs[:n-1], false)
		last := legs[n-1]
		if last.isMember {
			o := parent.(map[string]interface{})
			no := map[string]interface{}{}
			for k, c := range o {
				if k != last.member {
					no[k] = c32Copy(c)
				}
			}
			return c32With(doc, legs[:n-1], no), true
		}
		a := parent.([]interface{})
		i := last.index
		if last.last {
			i = len(a) - 1
		}
		na := make([]interface{}, 0, len(a))
		for j := range a {
			if j != i {
				na = append(na, c32Copy(a[j]))
			}
		}
		return c32With(doc, legs[:n-1], na), true
	}
	if _, wrapped := c32Resolve(doc, legs, true); wrapped {
		return nil, false
	}
	return c32Copy(doc), true
}

// c32ExpectArrayAppend: JSON_ARRAY_APPEND. The path must select a value (auto-wrapping allowed); an array
// gets the value appended, anything else becomes [old, value]; a path that selects nothing is ignored.
func c32ExpectArrayAppend(doc interface{}, legs []c32Leg, v interface{}) interface{} {
	old, exists := c32Resolve(doc, legs, true)
	if !exists {
		return c32Copy(doc)
	}
	if a, isArr := old.([]interface{}); isArr {
		return c32With(doc, legs, c32Appended(a, v))
	}
	return c32With(doc, legs, []interface{}{c32Copy(old), v})
}

// c32ExpectArrayInsert: JSON_ARRAY_INSERT for a path ending in a cell. Parent array: insert at the cell,
// shifting the rest right; a position past the end appends. A parent that is not an array (or does not
// exist) is ignored. asserted=false where the parent exists only through auto-wrapping.
func c32ExpectArrayInsert(doc interface{}, legs []c32Leg, v interface{}) (exp interface{}, asserted bool) {
	n := len(legs)
	parent, strict := c32Resolve(doc, legs[:n-1], false)
	if !strict {
		if _, wrapped := c32Resolve(doc, legs[:n-1], true); wrapped {
			return nil, false
		}
		return c32Copy(doc), true
	}
	a, isArr := parent.([]interface{})
	if !isArr {
		return c32Copy(doc), true
	}
	last := legs[n-1]
	i := last.index
	if last.last {
		i = len(a) - 1
		if i < 0 {
			i = 0
		}
	}
	if i > len(a) {
		i = len(a)
	}
	na := make([]interface{}, 0, len(a)+1)
	for j := 0; j <= len(a); j++ {
		if j == i {
			na = append(na, v)
		}
		if j < len(a) {
			na = append(na, c32Copy(a[j]))
		}
	}
	return c32With(doc, legs[:n-1], na), true
}

// c32PathClass names the shape of (document, path) on which the code is KNOWN (found with these harnesses, see the
// report / known findings) to deviate from the documented semantics; "" for every other input. It is computed from
// the inputs only. Assertions on such inputs carry the class as a suffix of their id, so that a known finding does
// not hide a failure anywhere else.
//
//	.missing-member-then-cell          a member leg names a member the object does not have and the NEXT leg is a cell
//	                                   (updateObject descends into doc[name] without checking that it exists)
//	.cell-on-non-array-then-more-legs  a cell leg is applied to a value that is not an array and more legs follow
//	                                   (updateObjectTreatAsArray ignores the rest of the path)
//	.cell-past-end-then-more-legs      a cell leg is past the end of an array and more legs follow
//	                                   (updateArray's out-of-range branch ignores the rest of the path)
func c32PathClass(doc interface{}, legs []c32Leg) string {
	v := doc
	n := len(legs)
	for k := 0; k < n; k++ {
		l := legs[k]
		more := k < n-1
		if l.isMember {
			o, isObj := v.(map[string]interface{})
			if !isObj {
				return ""
			}
			c, has := o[l.member]
			if !has {
				if more && !legs[k+1].isMember {
					return ".missing-member-then-cell"
				}
				return ""
			}
			v = c
			continue
		}
		a, isArr := v.([]interface{})
		if !isArr {
			if more {
				return ".cell-on-non-array-then-more-legs"
			}
			return ""
		}
		i := l.index
		if l.last {
			i = len(a) - 1
		}
		if i < 0 || i >= len(a) {
			if more {
				return ".cell-past-end-then-more-legs"
			}
			return ""
		}
		v = a[i]
	}
	return ""
}

// c32MemberLegOnNonObject: some member leg is applied to a value that is not an object.
func c32MemberLegOnNonObject(doc interface{}, legs []c32Leg) bool {
	for k, l := range legs {
		if !l.isMember {
			continue
		}
		if at, sel := c32Resolve(doc, legs[:k], true); sel {
			if _, isObj := at.(map[string]interface{}); !isObj {
				return true
			}
		}
	}
	return false
}

func c32ResultVal(m MutableJSON) (interface{}, bool) {
	switch d := m.(type) {
	case JSONDocument:
		return d.Val, true
	case *JSONDocument:
		return d.Val, true
	}
	return nil, false
}

// ---------------------------------------------------------------------------------------------------------
// write laws: one harness per function (expected document, lookup-after-write, changed flag)

func c32WriteHarness(mode int, tag string) {
	pfx := "c32." + tag
	s, k1, k2 := c32PickDoc(pfx, nd.Bound(5, c32ValKinds))
	legs := c32Path(nd.Pick(pfx+".path", c32Paths))
	vk := nd.Pick(pfx+".newval", nd.Bound(2, c32NewVals))
	path := c32PathString(legs, true)

	orig := c32Doc(s, k1, k2)
	exp := c32ExpectWrite(mode, orig, legs, c32NewVal(vk))
	old, existed := c32Resolve(orig, legs, true)
	sameVal := existed && c32Eq(old, c32NewVal(vk))

	doc := JSONDocument{Val: c32Doc(s, k1, k2)}
	var res MutableJSON
	var changed bool
	var err error
	switch mode {
	case c32Set:
		res, changed, err = doc.Set(nil, path, JSONDocument{Val: c32NewVal(vk)})
	case c32Insert:
		res, changed, err = doc.Insert(nil, path, JSONDocument{Val: c32NewVal(vk)})
	default:
		res, changed, err = doc.Replace(nil, path, JSONDocument{Val: c32NewVal(vk)})
	}
	nd.Reach(pfx)
	nd.Observe(path, changed, err)
	nd.Assert(pfx+".no-error", err == nil)
	got, ok := c32ResultVal(res)
	nd.Assert(pfx+".result-is-document", ok)
	if class := c32PathClass(orig, legs); class != "" {
		nd.Assert(pfx+".document-as-documented"+class, c32Eq(got, exp))
		return
	}

	// lookup-after-write: where the write applies to an existing path (SET/REPLACE) or adds a member (SET/INSERT),
	// the path selects the written value afterwards.
	if after, sel := c32Resolve(exp, legs, true); sel && c32Eq(after, c32NewVal(vk)) {
		gotAt, gotSel := c32Resolve(got, legs, true)
		nd.Assert(pfx+".path-selects-written-value", gotSel && c32Eq(gotAt, c32NewVal(vk)))
	}
	// the whole document: the addressed place updated as documented, everything else unchanged
	nd.Assert(pfx+".document-as-documented", c32Eq(got, exp))
	// changed flag
	differs := !c32Eq(got, orig)
	nd.Assert(pfx+".unchanged-flag-means-unchanged", changed || !differs)
	if !sameVal {
		nd.Assert(pfx+".changed-flag-means-changed", !changed || differs)
	}
}

func VerifC32DocSet()     { c32WriteHarness(c32Set, "set") }
func VerifC32DocInsert()  { c32WriteHarness(c32Insert, "insert") }
func VerifC32DocReplace() { c32WriteHarness(c32Replace, "replace") }

// VerifC32DocSetInsertReplace: the cross laws, with path existence as the only oracle input:
// SET = REPLACE and INSERT = identity where the path exists; SET = INSERT and REPLACE = identity where it does not.
func VerifC32DocSetInsertReplace() {
	pfx := "c32.sir"
	s, k1, k2 := c32PickDoc(pfx, nd.Bound(5, c32ValKinds))
	legs := c32Path(nd.Pick(pfx+".path", c32Paths))
	vk := nd.Pick(pfx+".newval", nd.Bound(2, c32NewVals))
	path := c32PathString(legs, true)

	orig := c32Doc(s, k1, k2)
	_, exists := c32Resolve(orig, legs, true)

	rs, _, es := JSONDocument{Val: c32Doc(s, k1, k2)}.Set(nil, path, JSONDocument{Val: c32NewVal(vk)})
	ri, _, ei := JSONDocument{Val: c32Doc(s, k1, k2)}.Insert(nil, path, JSONDocument{Val: c32NewVal(vk)})
	rr, _, er := JSONDocument{Val: c32Doc(s, k1, k2)}.Replace(nil, path, JSONDocument{Val: c32NewVal(vk)})
	nd.Reach(pfx)
	nd.Assert(pfx+".no-error", es == nil && ei == nil && er == nil)
	vs, _ := c32ResultVal(rs)
	vi, _ := c32ResultVal(ri)
	vr, _ := c32ResultVal(rr)
	nd.Observe(path, exists)
	class := c32PathClass(orig, legs)
	if exists {
		nd.Assert(pfx+".insert-on-existing-is-identity"+class, c32Eq(vi, orig))
		nd.Assert(pfx+".set-equals-replace-on-existing"+class, c32Eq(vs, vr))
	} else {
		nd.Assert(pfx+".replace-on-missing-is-identity"+class, c32Eq(vr, orig))
		nd.Assert(pfx+".set-equals-insert-on-missing"+class, c32Eq(vs, vi))
	}
}

// ---------------------------------------------------------------------------------------------------------
// remove

func VerifC32DocRemove() {
	pfx := "c32.remove"
	s, k1, k2 := c32PickDoc(pfx, nd.Bound(5, c32ValKinds))
	legs := c32Path(nd.Pick(pfx+".path", c32Paths))
	path := c32PathString(legs, true)

	orig := c32Doc(s, k1, k2)
	doc := JSONDocument{Val: c32Doc(s, k1, k2)}
	res, changed, err := doc.Remove(nil, path)
	nd.Reach(pfx)
	nd.Observe(path, changed, err)
	if len(legs) == 0 {
		nd.Assert(pfx+".root-rejected", err != nil)
		return
	}
	nd.Assert(pfx+".no-error", err == nil)
	got, ok := c32ResultVal(res)
	nd.Assert(pfx+".result-is-document", ok)

	_, strict := c32Resolve(orig, legs, false)
	_, wrapped := c32Resolve(orig, legs, true)
	if strict {
		// the removed path no longer selects what it selected; for a member it selects nothing at all
		_, still := c32Resolve(got, legs, false)
		if legs[len(legs)-1].isMember {
			nd.Assert(pfx+".removed-member-gone", !still)
		}
	}
	if !wrapped {
		nd.Assert(pfx+".missing-path-is-identity", c32Eq(got, orig))
	}
	exp, asserted := c32ExpectRemove(orig, legs)
	if asserted {
		nd.Assert(pfx+".document-as-documented", c32Eq(got, exp))
	}
	differs := !c32Eq(got, orig)
	nd.Assert(pfx+".changed-flag-agrees", changed == differs)
}

// VerifC32DocRemoveCellShifts: removing $[i] from an array of 1..3 elements leaves the other elements, in order.
func VerifC32DocRemoveCellShifts() {
	pfx := "c32.removecell"
	n := nd.IntRange(pfx+".len", 1, 3)
	kinds := make([]int, n)
	for j := 0; j < n; j++ {
		kinds[j] = c32SecondKind(nd.Pick(pfx+".k"+strconv.Itoa(j), nd.Bound(6, c32ValKinds)))
	}
	nested := nd.Pick(pfx+".nested", 2) // 0: the array is the document; 1: it is member "a"
	sel := nd.Pick(pfx+".cell", n+2)    // 0..n-1: that cell; n: [last]; n+1: one past the end

	build := func() interface{} {
		a := make([]interface{}, n)
		for j := 0; j < n; j++ {
			a[j] = c32Val(kinds[j])
		}
		if nested == 1 {
			return map[string]interface{}{"a": a, "b": 7.0}
		}
		return a
	}
	cell := "[" + strconv.Itoa(sel) + "]"
	idx := sel
	if sel == n {
		cell, idx = "[last]", n-1
	}
	path := "$" + cell
	if nested == 1 {
		path = "$.\"a\"" + cell
	}
	res, changed, err := JSONDocument{Val: build()}.Remove(nil, path)
	nd.Reach(pfx)
	nd.Assert(pfx+".no-error", err == nil)
	got, _ := c32ResultVal(res)
	if nested == 1 {
		o, isObj := got.(map[string]interface{})
		nd.Assert(pfx+".sibling-member-kept", isObj && len(o) == 2 && c32Eq(o["b"], 7.0))
		got = o["a"]
	}
	arr, isArr := got.([]interface{})
	nd.Assert(pfx+".still-array", isArr)
	if idx >= n {
		nd.Assert(pfx+".past-the-end-is-identity", !changed && len(arr) == n)
		return
	}
	nd.Assert(pfx+".one-shorter", changed && len(arr) == n-1)
	okAll := true
	for j := 0; j < n-1; j++ {
		src := j
		if j >= idx {
			src = j + 1
		}
		if !c32Eq(arr[j], c32Val(kinds[src])) {
			okAll = false
		}
	}
	nd.Assert(pfx+".rest-shifted-in-order", okAll)
}

// ---------------------------------------------------------------------------------------------------------
// array append / insert

func VerifC32DocArrayAppend() {
	pfx := "c32.append"
	s, k1, k2 := c32PickDoc(pfx, nd.Bound(5, c32ValKinds))
	legs := c32Path(nd.Pick(pfx+".path", c32Paths))
	vk := nd.Pick(pfx+".newval", nd.Bound(2, c32NewVals))
	path := c32PathString(legs, true)

	orig := c32Doc(s, k1, k2)
	old, exists := c32Resolve(orig, legs, true)
	res, changed, err := JSONDocument{Val: c32Doc(s, k1, k2)}.ArrayAppend(nil, path, JSONDocument{Val: c32NewVal(vk)})
	nd.Reach(pfx)
	nd.Observe(path, changed, err)
	nd.Assert(pfx+".no-error", err == nil)
	got, ok := c32ResultVal(res)
	nd.Assert(pfx+".result-is-document", ok)
	if class := c32PathClass(orig, legs); class != "" {
		nd.Assert(pfx+".document-as-documented"+class, c32Eq(got, c32ExpectArrayAppend(orig, legs, c32NewVal(vk))))
		return
	}
	if _, strict := c32Resolve(orig, legs, false); strict {
		// exactly one element more, and it is the value. (Only for a path that selects the value without auto-wrapping:
		// after wrapping, a [0]/[last] leg selects an element of the new array, no longer the array.)
		at, sel := c32Resolve(got, legs, false)
		arr, isArr := at.([]interface{})
		want := 2
		if oa, wasArr := old.([]interface{}); wasArr {
			want = len(oa) + 1
		}
		nd.Assert(pfx+".one-more-element-and-last-is-value",
			sel && isArr && len(arr) == want && c32Eq(arr[len(arr)-1], c32NewVal(vk)))
	}
	if !exists {
		nd.Assert(pfx+".missing-path-is-identity", c32Eq(got, orig) && !changed)
	}
	nd.Assert(pfx+".document-as-documented", c32Eq(got, c32ExpectArrayAppend(orig, legs, c32NewVal(vk))))
	nd.Assert(pfx+".changed-flag-agrees", changed == !c32Eq(got, orig))
}

func VerifC32DocArrayInsert() {
	pfx := "c32.arrayinsert"
	s, k1, k2 := c32PickDoc(pfx, nd.Bound(5, c32ValKinds))
	legs := c32Path(nd.Pick(pfx+".path", c32Paths))
	vk := nd.Pick(pfx+".newval", nd.Bound(2, c32NewVals))
	path := c32PathString(legs, true)

	orig := c32Doc(s, k1, k2)
	res, changed, err := JSONDocument{Val: c32Doc(s, k1, k2)}.ArrayInsert(nil, path, JSONDocument{Val: c32NewVal(vk)})
	nd.Reach(pfx)
	nd.Observe(path, changed, err)
	if !c32EndsInCell(legs) {
		return // only paths that end in an array cell are claimed
	}
	exp, asserted := c32ExpectArrayInsert(orig, legs, c32NewVal(vk))
	if !asserted {
		return
	}
	if err != nil && c32MemberLegOnNonObject(orig, legs) {
		// walkPathAndUpdate deliberately answers "A path expression is not a path to a cell in an array" when a member
		// leg meets a non-object (its comment says MySQL does so); the manual only says such a pair is ignored.
		// Nothing is claimed for this case.
		return
	}
	nd.Assert(pfx+".no-error", err == nil)
	got, ok := c32ResultVal(res)
	nd.Assert(pfx+".result-is-document", ok)
	if class := c32PathClass(orig, legs); class != "" {
		nd.Assert(pfx+".document-as-documented"+class, c32Eq(got, exp))
		return
	}
	nd.Assert(pfx+".document-as-documented", c32Eq(got, exp))
	nd.Assert(pfx+".changed-flag-agrees", changed == !c32Eq(got, orig))
}

// ---------------------------------------------------------------------------------------------------------
// the locally written part of Lookup: memberAccessOnNonObject (jsonPathScanner)

// VerifC32MemberAccessOnNonObject: memberAccessOnNonObject(doc, path) (which makes Lookup answer SQL NULL without
// consulting the jsonpath library) is true exactly when some member leg is applied to a value that is not an
// object; in particular it is never true for a path that selects a value.
func VerifC32MemberAccessOnNonObject() {
	pfx := "c32.maono"
	s, k1, k2 := c32PickDoc(pfx, nd.Bound(5, c32ValKinds))
	p := nd.Pick(pfx+".path", c32Paths)
	quoted := nd.Pick(pfx+".quoted", 2) == 1
	legs := c32Path(p)
	for _, l := range legs {
		if l.last {
			return // the scanner models non-negative integer cells only
		}
	}
	doc := c32Doc(s, k1, k2)
	path := c32PathString(legs, quoted)
	got := memberAccessOnNonObject(doc, path)
	nd.Reach(pfx)
	nd.Observe(path, got)

	want := c32MemberLegOnNonObject(doc, legs)
	_, exists := c32Resolve(doc, legs, true)
	nd.Assert(pfx+".never-hides-an-existing-path", !(got && exists))
	nd.Assert(pfx+".exact", got == want)
}

// ---------------------------------------------------------------------------------------------------------
// comparison

const c32CmpVals = 28

func c32CmpVal(k int) interface{} {
	switch k {
	case 0:
		return nil
	case 1:
		return false
	case 2:
		return true
	case 3:
		return -1.5
	case 4:
		return 0.0
	case 5:
		return 2.0
	case 6:
		return int64(2)
	case 7:
		return ""
	case 8:
		return "a"
	case 9:
		return "ab"
	case 10:
		return "b"
	case 11:
		return map[string]interface{}{}
	case 12:
		return map[string]interface{}{"a": nil}
	case 13:
		return map[string]interface{}{"a": 1.0}
	case 14:
		return map[string]interface{}{"b": 1.0}
	case 15:
		return map[string]interface{}{"a": 1.0, "b": nil}
	case 16:
		return map[string]interface{}{"a": 1.0, "b": 2.0}
	case 17:
		return map[string]interface{}{"a": map[string]interface{}{"a": 1.0}}
	case 18:
		return []interface{}{}
	case 19:
		return []interface{}{nil}
	case 20:
		return []interface{}{1.0}
	case 21:
		return []interface{}{1.0, 2.0}
	case 22:
		return []interface{}{2.0}
	case 23:
		return []interface{}{[]interface{}{}}
	case 24:
		return []interface{}{map[string]interface{}{"a": 1.0}}
	case 25:
		return []interface{}{true}
	case 26:
		return []interface{}{"a"}
	default:
		return int64(3)
	}
}

// c32Rank: MySQL's documented precedence of JSON types, lowest first:
// NULL < number (INTEGER, DOUBLE) < STRING < OBJECT < ARRAY < BOOLEAN.
func c32Rank(v interface{}) int {
	switch v.(type) {
	case nil:
		return 0
	case float64, int64:
		return 1
	case string:
		return 2
	case map[string]interface{}:
		return 3
	case []interface{}:
		return 4
	default:
		return 5
	}
}

func c32Sign(x int) int {
	if x < 0 {
		return -1
	}
	if x > 0 {
		return 1
	}
	return 0
}

// VerifC32ComparePairs: reflexive, antisymmetric, 0 exactly on equal documents, type precedence as documented,
// and the wrapper entry points (JsonType.Compare, JSONDocument.Compare) agree with CompareJSON.
func VerifC32ComparePairs() {
	pfx := "c32.cmp"
	ka := nd.Pick(pfx+".a", c32CmpVals)
	kb := nd.Pick(pfx+".b", c32CmpVals)
	a, b := c32CmpVal(ka), c32CmpVal(kb)
	ab, e1 := CompareJSON(nil, a, b)
	ba, e2 := CompareJSON(nil, b, a)
	aa, e3 := CompareJSON(nil, a, c32CmpVal(ka))
	nd.Reach(pfx)
	nd.Observe(ab, ba, aa)
	nd.Assert(pfx+".no-error", e1 == nil && e2 == nil && e3 == nil)
	nd.Assert(pfx+".reflexive", aa == 0)
	nd.Assert(pfx+".result-is-sign", ab >= -1 && ab <= 1)
	nd.Assert(pfx+".antisymmetric", ab == -ba)
	nd.Assert(pfx+".zero-iff-equal", (ab == 0) == c32Eq(a, b))
	ra, rb := c32Rank(a), c32Rank(b)
	if ra != rb {
		nd.Assert(pfx+".type-precedence", ab == c32Sign(ra-rb))
	}
	w1, e4 := JSON.Compare(nil, JSONDocument{Val: a}, JSONDocument{Val: b})
	w2, e5 := JSONDocument{Val: a}.Compare(nil, JSONDocument{Val: b})
	nd.Assert(pfx+".wrappers-agree", e4 == nil && e5 == nil && w1 == ab && w2 == ab)
}

// VerifC32CompareTransitive: a <= b and b <= c imply a <= c (strict if either is strict).
func VerifC32CompareTransitive() {
	pfx := "c32.cmptrans"
	a := c32CmpVal(nd.Pick(pfx+".a", c32CmpVals))
	b := c32CmpVal(nd.Pick(pfx+".b", c32CmpVals))
	c := c32CmpVal(nd.Pick(pfx+".c", c32CmpVals))
	ab, e1 := CompareJSON(nil, a, b)
	bc, e2 := CompareJSON(nil, b, c)
	ac, e3 := CompareJSON(nil, a, c)
	nd.Reach(pfx)
	nd.Assert(pfx+".no-error", e1 == nil && e2 == nil && e3 == nil)
	if ab <= 0 && bc <= 0 {
		nd.Assert(pfx+".transitive", ac <= 0)
		if ab < 0 || bc < 0 {
			nd.Assert(pfx+".transitive-strict", ac < 0)
		}
	}
}

// VerifC32CompareStringsSym: JSON strings order bytewise (utf8mb4_bin), shorter prefix first; symbolic bytes.
func VerifC32CompareStringsSym() {
	pfx := "c32.cmpstr"
	la := nd.IntRange(pfx+".la", 0, 2)
	lb := nd.IntRange(pfx+".lb", 0, 2)
	a := nd.String(pfx+".a", la)
	b := nd.String(pfx+".b", lb)
	got, err := CompareJSON(nil, a, b)
	nd.Reach(pfx)
	nd.Assert(pfx+".no-error", err == nil)
	// definition: first differing byte decides; otherwise the shorter string is smaller
	want := 0
	decided := false
	for i := 0; i < 2; i++ {
		if i < la && i < lb {
			x, y := a[i], b[i]
			lt := nd.And(!decided, x < y)
			gt := nd.And(!decided, x > y)
			if lt {
				want = -1
			}
			if gt {
				want = 1
			}
			decided = nd.Or(decided, x != y)
		}
	}
	if !decided {
		want = c32Sign(la - lb)
	}
	nd.Assert(pfx+".bytewise", got == want)
	// a string against the other type classes
	n, _ := CompareJSON(nil, a, 1.0)
	o, _ := CompareJSON(nil, a, map[string]interface{}{})
	nd.Assert(pfx+".above-number-below-object", n == 1 && o == -1)
}

// ---------------------------------------------------------------------------------------------------------
// the same family and oracle, by selector numbers, for the harness in sql/expression/function/json

const (
	ZzC32Shapes                                                                            = c32Shapes
	ZzC32ValKinds                                                                          = c32ValKinds
	ZzC32Paths                                                                             = c32Paths
	ZzC32NewVals                                                                           = c32NewVals
	ZzC32ModeSet, ZzC32ModeInsert, ZzC32ModeReplace, ZzC32ModeRemove, ZzC32ModeArrayAppend = 0, 1, 2, 3, 4
)

func ZzC32Doc(s, k1, k2 int) interface{} { return c32Doc(s, k1, k2) }
func ZzC32NewVal(k int) interface{}      { return c32NewVal(k) }
func ZzC32SecondKind(i int) int          { return c32SecondKind(i) }
func ZzC32PathString(p int) string       { return c32PathString(c32Path(p), true) }
func ZzC32PathLen(p int) int             { return len(c32Path(p)) }
func ZzC32Eq(a, b interface{}) bool      { return c32Eq(a, b) }
func ZzC32PathClass(s, k1, k2, p int) string {
	return c32PathClass(c32Doc(s, k1, k2), c32Path(p))
}

// ZzC32Expect: the documented result of mode on document (s,k1,k2) at path p with new value vk.
func ZzC32Expect(mode, s, k1, k2, p, vk int) (exp interface{}, asserted bool) {
	doc, legs := c32Doc(s, k1, k2), c32Path(p)
	switch mode {
	case ZzC32ModeSet:
		return c32ExpectWrite(c32Set, doc, legs, c32NewVal(vk)), true
	case ZzC32ModeInsert:
		return c32ExpectWrite(c32Insert, doc, legs, c32NewVal(vk)), true
	case ZzC32ModeReplace:
		return c32ExpectWrite(c32Replace, doc, legs, c32NewVal(vk)), true
	case ZzC32ModeRemove:
		return c32ExpectRemove(doc, legs)
	default:
		return c32ExpectArrayAppend(doc, legs, c32NewVal(vk)), true
	}
}
