//go:build verif

package types

import (
	"time"

	nd "github.com/dolthub/go-mysql-server/internal/zzverifnd"
	"github.com/dolthub/go-mysql-server/sql"
)

// C27 (DATE / DATETIME / TIMESTAMP part): Convert keeps a representable value
// exactly, rounds a longer fraction to the column's precision the way MySQL
// documents (half up, carrying into the date), and REPORTS text that names no
// calendar date or a moment outside the type's range — it never hands back a
// different moment without an error. Converting a converted value changes nothing.
//
// Reference: calendar validity by month-length table, carry by next-day
// stepping; written here, independent of package time.

type c27tStamp struct{ y, m, d, h, mi, s, us int }

func c27tLeap(y int) bool { return y%4 == 0 && (y%100 != 0 || y%400 == 0) }

func c27tMonthLen(y, m int) int {
	switch m {
	case 2:
		if c27tLeap(y) {
			return 29
		}
		return 28
	case 4, 6, 9, 11:
		return 30
	}
	return 31
}

func c27tDigits(b []byte, v, n int) []byte {
	var tmp [8]byte
	for i := n - 1; i >= 0; i-- {
		tmp[i] = byte('0' + v%10)
		v /= 10
	}
	return append(b, tmp[:n]...)
}

// Text forms MySQL documents for date and time literals.
const (
	c27tCanonical = iota // 'YYYY-MM-DD hh:mm:ss.ffffff' (fraction only when non-zero)
	c27tTSep             // 'YYYY-MM-DDThh:mm:ss.ffffff'
	c27tUnpadded         // 'YYYY-M-D h:m:s.ffffff'
	c27tCompact          // 'YYYYMMDDhhmmss' (no fraction)
	c27tTextForms
)

func c27tNum(b []byte, v, n int, pad bool) []byte {
	if pad || v >= 10 {
		return c27tDigits(b, v, n)
	}
	return append(b, byte('0'+v))
}

func (w c27tStamp) text(form int) string {
	pad := form != c27tUnpadded
	sepD, sepT := "-", ":"
	mid := byte(' ')
	if form == c27tTSep {
		mid = 'T'
	}
	if form == c27tCompact {
		sepD, sepT = "", ""
	}
	b := c27tDigits(nil, w.y, 4)
	b = append(b, sepD...)
	b = c27tNum(b, w.m, 2, pad)
	b = append(b, sepD...)
	b = c27tNum(b, w.d, 2, pad)
	if form != c27tCompact {
		b = append(b, mid)
	}
	b = c27tNum(b, w.h, 2, pad)
	b = append(b, sepT...)
	b = c27tNum(b, w.mi, 2, pad)
	b = append(b, sepT...)
	b = c27tNum(b, w.s, 2, pad)
	if w.us != 0 && form != c27tCompact {
		b = append(b, '.')
		b = c27tDigits(b, w.us, 6)
	}
	return string(b)
}

func (w c27tStamp) time() time.Time {
	return time.Date(w.y, time.Month(w.m), w.d, w.h, w.mi, w.s, w.us*1000, time.UTC)
}

func c27tIs(v interface{}, w c27tStamp) bool {
	t, ok := v.(time.Time)
	if !ok {
		return false
	}
	return t.Year() == w.y && int(t.Month()) == w.m && t.Day() == w.d &&
		t.Hour() == w.h && t.Minute() == w.mi && t.Second() == w.s && t.Nanosecond() == w.us*1000
}

// c27tNextSecond: w + 1 s with the fraction cleared, carrying through the calendar.
func c27tNextSecond(w c27tStamp) c27tStamp {
	w.us = 0
	w.s++
	if w.s < 60 {
		return w
	}
	w.s = 0
	w.mi++
	if w.mi < 60 {
		return w
	}
	w.mi = 0
	w.h++
	if w.h < 24 {
		return w
	}
	w.h = 0
	w.d++
	if w.d <= c27tMonthLen(w.y, w.m) {
		return w
	}
	w.d = 1
	w.m++
	if w.m <= 12 {
		return w
	}
	w.m = 1
	w.y++
	return w
}

var c27tPow10 = [7]int{1, 10, 100, 1000, 10000, 100000, 1000000}

// c27tRound: w rounded half up to prec fraction digits.
func c27tRound(w c27tStamp, prec int) c27tStamp {
	unit := c27tPow10[6-prec]
	r := (w.us + unit/2) / unit * unit
	if r < 1000000 {
		w.us = r
		return w
	}
	return c27tNextSecond(w)
}

type c27tType struct {
	t    sql.DatetimeType
	prec int
	date bool
	ts   bool
}

func c27tTypes() []c27tType {
	return []c27tType{
		{Date, 0, true, false}, {Datetime, 0, false, false}, {Datetime3, 3, false, false}, {DatetimeMaxPrecision, 6, false, false},
		{Timestamp, 0, false, true}, {TimestampMaxPrecision, 6, false, true},
	}
}

var c27tDays = [...]int{1, 28, 29, 30, 31}
var c27tClocks = [...][4]int{{0, 0, 0, 0}, {23, 59, 59, 999999}, {12, 34, 56, 789012}, {1, 2, 3, 4000}, {23, 59, 59, 500000}, {9, 0, 7, 499999}}

// c27tInRange: MySQL's documented ranges, the lower DATETIME bound widened to year
// 0 as the code documents ("res.Year() < 0 || res.Year() > 9999").
func c27tInRange(ty c27tType, w c27tStamp) bool {
	if !ty.ts {
		return w.y >= 0 && w.y <= 9999
	}
	lo := c27tStamp{1970, 1, 1, 0, 0, 1, 0}
	hi := c27tStamp{2038, 1, 19, 3, 14, 7, 999999}
	return !c27tBefore(w, lo) && !c27tBefore(hi, w)
}

func c27tBefore(a, b c27tStamp) bool {
	ka := [7]int{a.y, a.m, a.d, a.h, a.mi, a.s, a.us}
	kb := [7]int{b.y, b.m, b.d, b.h, b.mi, b.s, b.us}
	for i := range ka {
		if ka[i] != kb[i] {
			return ka[i] < kb[i]
		}
	}
	return false
}

// c27tExpect: what the column holds for the moment w.
func c27tExpect(ty c27tType, w c27tStamp) c27tStamp {
	if ty.date {
		return c27tStamp{y: w.y, m: w.m, d: w.d}
	}
	return c27tRound(w, ty.prec)
}

// c27tCheck: Convert of src, which denotes the valid calendar moment w.
func c27tCheck(id string, ty c27tType, src interface{}, w c27tStamp) {
	v, flag, err := ty.t.Convert(nil, src)
	nd.Reach(id)
	want := c27tExpect(ty, w)
	if !c27tInRange(ty, want) {
		nd.Assert(id+".out-of-range-reported", err != nil || flag != sql.InRange)
		return
	}
	nd.Assert(id+".accepted", err == nil && flag == sql.InRange)
	if err != nil {
		return
	}
	nd.Assert(id+".kept-or-rounded-to-precision", c27tIs(v, want))
	again, flag2, err2 := ty.t.Convert(nil, v)
	nd.Assert(id+".idempotent", err2 == nil && flag2 == sql.InRange && c27tIs(again, want))
}

// Valid text in four documented spellings and engine-built time.Time values, on
// boundary dates x six times of day, for DATE, DATETIME(0|3|6), TIMESTAMP(0|6):
// kept exactly when representable, rounded half up to the precision otherwise,
// reported when the (rounded) moment leaves the type's range.
func VerifC27DatetimeConvertValid() {
	years := []int{1000, 1970, 2024, 2038, 9999}
	months := []int{1, 2, 12}
	if nd.Tier() == 1 {
		years = []int{1, 999, 1000, 1582, 1900, 1969, 1970, 2000, 2024, 2038, 2262, 9999}
		months = []int{1, 2, 3, 4, 10, 12}
	}
	y := years[nd.Pick("c27t.valid.y", len(years))]
	m := months[nd.Pick("c27t.valid.m", len(months))]
	d := c27tDays[nd.Pick("c27t.valid.d", len(c27tDays))]
	nd.Assume(d <= c27tMonthLen(y, m))
	c := c27tClocks[nd.Pick("c27t.valid.clock", len(c27tClocks))]
	w := c27tStamp{y, m, d, c[0], c[1], c[2], c[3]}
	tys := c27tTypes()
	ty := tys[nd.Pick("c27t.valid.type", len(tys))]
	// DATE from a moment within half a second of midnight: MySQL 8 rounds the time
	// part into the date, older versions and this code drop it; not decided here.
	nd.Assume(!(ty.date && c[0] == 23 && c[1] == 59 && c[2] == 59 && c[3] >= 500000))
	var src interface{}
	switch form := nd.Pick("c27t.valid.form", c27tTextForms+2); form {
	case c27tTextForms:
		src = w.time()
	case c27tTextForms + 1:
		src = []byte(w.text(c27tCanonical))
	default:
		if form == c27tCompact {
			w.us = 0
		}
		src = w.text(form)
	}
	c27tCheck("c27t.valid", ty, src, w)
}

// TIMESTAMP range bounds with a symbolic second: 1970-01-01 00:00:ss is in range
// iff ss >= 1, 2038-01-19 03:14:ss iff ss <= 7; DATETIME accepts both.
func VerifC27TimestampBoundsSymbolic() {
	s := nd.Uint8("c27t.tsbound.s")
	nd.Assume(s < 60)
	upper := nd.Pick("c27t.tsbound.upper", 2) == 1
	var t time.Time
	var inRange bool
	var unix int64
	if upper {
		t = time.Date(2038, 1, 19, 3, 14, int(s), 0, time.UTC)
		inRange = s <= 7
		unix = 2147483640 + int64(s) // 2^31-1 = 2038-01-19 03:14:07
	} else {
		t = time.Date(1970, 1, 1, 0, 0, int(s), 0, time.UTC)
		inRange = s >= 1
		unix = int64(s)
	}
	tys := [...]sql.DatetimeType{Timestamp, TimestampMaxPrecision, DatetimeMaxPrecision}
	k := nd.Pick("c27t.tsbound.type", len(tys))
	v, flag, err := tys[k].Convert(nil, t)
	nd.Reach("c27t.tsbound")
	if err != nil {
		nd.Assert("c27t.tsbound.rejected-only-out-of-range", nd.And(k < 2, !inRange))
		return
	}
	vt, ok := v.(time.Time)
	nd.Assert("c27t.tsbound.accepted-only-in-range", nd.And(nd.And(ok, flag == sql.InRange), nd.Or(k == 2, inRange)))
	nd.Assert("c27t.tsbound.kept", nd.And(vt.Unix() == unix, vt.Nanosecond() == 0))
}

// Moments outside the range handed over as engine values (time.Time).
func VerifC27DatetimeOutOfRangeValue() {
	moments := [...]c27tStamp{
		{10000, 1, 1, 0, 0, 0, 0}, {-1, 12, 31, 23, 59, 59, 0}, {12000, 6, 15, 12, 0, 0, 0},
		{1970, 1, 1, 0, 0, 0, 0}, {1969, 12, 31, 23, 59, 59, 999999}, {2038, 1, 19, 3, 14, 8, 0}, {1000, 1, 1, 0, 0, 0, 0}, {9999, 12, 31, 0, 0, 0, 0},
	}
	w := moments[nd.Pick("c27t.oor.moment", len(moments))]
	tys := c27tTypes()
	ty := tys[nd.Pick("c27t.oor.type", len(tys))]
	// Defect class (ConvertToTime / ValidateTime, sql/types/datetime.go:276-282,617):
	// DATETIME(6) is the same Go value as DatetimeMaxRange, whose lower bound is the
	// zero-date stand-in -0001-11-30, so the last 32 days of year -1 pass as DATETIME(6)
	// values while DATE and DATETIME(0..5) reject every year below 0. Own id, asserted alone.
	if w.y == -1 && ty.prec == 6 && !ty.ts {
		_, flag, err := ty.t.Convert(nil, w.time())
		nd.Reach("c27t.oor")
		nd.Assert("c27t.oor.year-minus-one-rejected-by-datetime6", err != nil || flag != sql.InRange)
		return
	}
	c27tCheck("c27t.oor", ty, w.time(), w)
}

// Text that names no calendar date, or no time of day, or a year beyond 9999: an
// error comes back (MySQL: error in strict mode, zero date plus warning
// otherwise); an error of a kind other than "truncated" carries no value.
var c27tBadDates = [...]string{
	"2021-13-01", "2021-00-10", "2021-05-00", "2021-05-32", "2021-02-30", "2023-02-29", "1900-02-29", "2100-02-29",
	"2021-04-31", "2021-06-31", "2021-09-31", "2021-11-31", "10000-01-01", "99999-12-31", "abcd-ef-gh", "", "2021-02", "2021", "20211301", "20210230",
}
var c27tBadSuffix = [...]string{"", " 00:00:00", " 12:34:56.789012"}
var c27tBadClocks = [...]string{"2021-05-10 24:00:00", "2021-05-10 12:60:00", "2021-05-10 12:00:60", "2021-05-10 25:61:61", "20210510240000"}

func VerifC27DatetimeInvalidReported() {
	var s string
	if k := nd.Pick("c27t.invalid.text", len(c27tBadDates)+len(c27tBadClocks)); k < len(c27tBadDates) {
		s = c27tBadDates[k] + c27tBadSuffix[nd.Pick("c27t.invalid.suffix", len(c27tBadSuffix))]
	} else {
		s = c27tBadClocks[k-len(c27tBadDates)]
	}
	tys := c27tTypes()
	ty := tys[nd.Pick("c27t.invalid.type", len(tys))]
	var src interface{} = s
	if nd.Pick("c27t.invalid.bytes", 2) == 1 {
		src = []byte(s)
	}
	v, flag, err := ty.t.Convert(nil, src)
	nd.Reach("c27t.invalid")
	nd.Observe(s, err != nil)
	nd.Assert("c27t.invalid.reported", err != nil || flag != sql.InRange)
	if err != nil && !sql.ErrTruncatedIncorrect.Is(err) {
		nd.Assert("c27t.invalid.no-value-with-error", v == nil)
	}
}

// The zero date in its documented spellings and as numeric / boolean zero is kept
// as the zero value; Convert of the zero value is the zero value.
func VerifC27DatetimeZeroDate() {
	srcs := [...]interface{}{
		"0000-00-00", "0000-00-00 00:00:00", "0000-00-00 00:00:00.000000", []byte("0000-00-00"),
		int(0), int8(0), int16(0), int32(0), int64(0), uint(0), uint8(0), uint16(0), uint32(0), uint64(0), false, ZeroTime,
	}
	src := srcs[nd.Pick("c27t.zero.src", len(srcs))]
	tys := c27tTypes()
	ty := tys[nd.Pick("c27t.zero.type", len(tys))]
	v, flag, err := ty.t.Convert(nil, src)
	nd.Reach("c27t.zero")
	vt, ok := v.(time.Time)
	nd.Assert("c27t.zero.kept-as-zero-value", err == nil && flag == sql.InRange && ok && vt.Equal(ZeroTime))
	again, _, err2 := ty.t.Convert(nil, v)
	at, ok2 := again.(time.Time)
	nd.Assert("c27t.zero.idempotent", err2 == nil && ok2 && at.Equal(ZeroTime))
}

// A non-zero number is not a date for Convert (the code documents: "For most
// integer values, we just return an error"): it is reported, never read as some date.
func VerifC27DatetimeNumberReported() {
	n := nd.Int64("c27t.number.n")
	nd.Assume(n != 0)
	tys := c27tTypes()
	ty := tys[nd.Pick("c27t.number.type", len(tys))]
	var src interface{} = n
	switch nd.Pick("c27t.number.kind", 3) {
	case 1:
		src = uint64(n)
	case 2:
		src = int32(n)
		nd.Assume(int32(n) != 0)
	}
	v, _, err := ty.t.Convert(nil, src)
	nd.Reach("c27t.number")
	nd.Assert("c27t.number.reported", nd.And(err != nil, v == nil))
}
