//go:build verif

package types

import (
	"time"

	nd "github.com/dolthub/go-mysql-server/internal/zzverifnd"
	"github.com/dolthub/go-mysql-server/sql"
)

// C26 (DATE / DATETIME / TIMESTAMP part): datetimeType.Compare orders two values
// exactly as the triple (day number, second of the day, microsecond) computed
// here orders them (DATE: the day number alone), is reflexive and antisymmetric,
// transitive over triples, treats a NULL operand as CompareNulls does, and agrees
// with comparing the operands after the type's own Convert. The zero date
// ('0000-00-00') sorts below every date.
//
// Reference: day numbers from the count of leap days before the year plus a
// cumulative month table — independent of package time.

type c26tStamp struct{ y, m, d, h, mi, s, us int }

var c26tCum = [13]int{0, 31, 59, 90, 120, 151, 181, 212, 243, 273, 304, 334, 365}

func c26tLeap(y int) bool { return y%4 == 0 && (y%100 != 0 || y%400 == 0) }

// c26tDayNo: days since 0001-01-01 (= day 1); the zero date gets 0.
func c26tDayNo(w c26tStamp) int64 {
	if w.y == 0 && w.m == 0 && w.d == 0 {
		return 0
	}
	p := int64(w.y - 1)
	n := p*365 + p/4 - p/100 + p/400 + int64(c26tCum[w.m-1]) + int64(w.d)
	if w.m > 2 && c26tLeap(w.y) {
		n++
	}
	return n
}

func (w c26tStamp) key(dateOnly bool) [3]int64 {
	if dateOnly {
		return [3]int64{c26tDayNo(w), 0, 0}
	}
	return [3]int64{c26tDayNo(w), int64(w.h)*3600 + int64(w.mi)*60 + int64(w.s), int64(w.us)}
}

func c26tCmp(a, b [3]int64) int {
	for i := range a {
		if a[i] < b[i] {
			return -1
		}
		if a[i] > b[i] {
			return 1
		}
	}
	return 0
}

func c26tDigits(b []byte, v, n int) []byte {
	var tmp [8]byte
	for i := n - 1; i >= 0; i-- {
		tmp[i] = byte('0' + v%10)
		v /= 10
	}
	return append(b, tmp[:n]...)
}

func (w c26tStamp) text() string {
	b := c26tDigits(nil, w.y, 4)
	b = append(b, '-')
	b = c26tDigits(b, w.m, 2)
	b = append(b, '-')
	b = c26tDigits(b, w.d, 2)
	b = append(b, ' ')
	b = c26tDigits(b, w.h, 2)
	b = append(b, ':')
	b = c26tDigits(b, w.mi, 2)
	b = append(b, ':')
	b = c26tDigits(b, w.s, 2)
	if w.us != 0 {
		b = append(b, '.')
		b = c26tDigits(b, w.us, 6)
	}
	return string(b)
}

func (w c26tStamp) isZero() bool { return w.y == 0 && w.m == 0 && w.d == 0 }

// value: the operand as the engine holds it (kind 0: time.Time) or as a client
// sends it (kind 1: character string).
func (w c26tStamp) value(kind int) interface{} {
	if kind == 1 {
		return w.text()
	}
	if w.isZero() {
		return ZeroTime
	}
	return time.Date(w.y, time.Month(w.m), w.d, w.h, w.mi, w.s, w.us*1000, time.UTC)
}

// Moments around every boundary the types know: the zero date, the DATETIME and
// TIMESTAMP range bounds, the Unix epoch, a leap day, neighbours one microsecond,
// one second and one day apart.
var c26tMoments = [...]c26tStamp{
	{0, 0, 0, 0, 0, 0, 0},
	{1000, 1, 1, 0, 0, 0, 0},
	{1969, 12, 31, 23, 59, 59, 999999},
	{1970, 1, 1, 0, 0, 0, 0},
	{1970, 1, 1, 0, 0, 1, 0},
	{2000, 2, 29, 12, 34, 56, 0},
	{2000, 2, 29, 12, 34, 56, 1},
	{2000, 2, 29, 12, 34, 57, 0},
	{2000, 3, 1, 0, 0, 0, 0},
	{2024, 12, 31, 23, 59, 59, 0},
	{2038, 1, 19, 3, 14, 7, 0},
	{2038, 1, 19, 3, 14, 8, 0},
	{9999, 12, 31, 23, 59, 59, 999999},
}

type c26tType struct {
	t        sql.DatetimeType
	dateOnly bool
	whole    bool // precision 0: operands restricted to whole seconds
	ts       bool
}

func c26tTypes() []c26tType {
	return []c26tType{{Date, true, false, false}, {Datetime, false, true, false}, {DatetimeMaxPrecision, false, false, false}, {TimestampMaxPrecision, false, false, true}}
}

// c26tTsOK: inside TIMESTAMP's range (string operands outside are rejected by Compare).
func c26tTsOK(w c26tStamp) bool {
	k := w.key(false)
	lo := c26tStamp{1970, 1, 1, 0, 0, 1, 0}.key(false)
	hi := c26tStamp{2038, 1, 19, 3, 14, 7, 999999}.key(false)
	return c26tCmp(k, lo) >= 0 && c26tCmp(k, hi) <= 0
}

// c26tPickOperand: NULL (ok=false), or a moment in one of two kinds.
func c26tPickOperand(tag string, ty c26tType, moments []c26tStamp) (interface{}, c26tStamp, bool) {
	k := nd.Pick(tag+".moment", len(moments)+1)
	if k == len(moments) {
		return nil, c26tStamp{}, false
	}
	w := moments[k]
	kind := nd.Pick(tag+".kind", 2)
	// DATETIME(0): a string operand is rounded to whole seconds by Compare while a
	// time.Time operand is compared as it is (MySQL compares at full precision);
	// the agreement with Convert is stated for operands the type represents.
	nd.Assume(!(ty.whole && w.us != 0))
	// TIMESTAMP: string operands outside the range are rejected (checked separately).
	nd.Assume(!(ty.ts && kind == 1 && !w.isZero() && !c26tTsOK(w)))
	return w.value(kind), w, true
}

func c26tSign(c int) int {
	if c < 0 {
		return -1
	}
	if c > 0 {
		return 1
	}
	return 0
}

// Pairs: agreement with the reference order, antisymmetry, reflexivity, NULL
// handling, agreement with the converted operands.
func VerifC26DatetimePair() {
	tys := c26tTypes()
	ty := tys[nd.Pick("c26t.pair.type", len(tys))]
	a, wa, oka := c26tPickOperand("c26t.pair.a", ty, c26tMoments[:])
	b, wb, okb := c26tPickOperand("c26t.pair.b", ty, c26tMoments[:])
	ab, err1 := ty.t.Compare(nil, a, b)
	ba, err2 := ty.t.Compare(nil, b, a)
	aa, err3 := ty.t.Compare(nil, a, a)
	nd.Reach("c26t.pair")
	nd.Assert("c26t.pair.no-error", err1 == nil && err2 == nil && err3 == nil)
	nd.Assert("c26t.pair.reflexive", aa == 0)
	nd.Assert("c26t.pair.antisymmetric", c26tSign(ab) == -c26tSign(ba))
	if !oka || !okb {
		_, want := CompareNulls(a, b)
		nd.Assert("c26t.pair.null-as-compare-nulls", ab == want)
		return
	}
	want := c26tCmp(wa.key(ty.dateOnly), wb.key(ty.dateOnly))
	nd.Observe(ab, want)
	nd.Assert("c26t.pair.agrees-with-day-second-microsecond-order", c26tSign(ab) == want)
	ca, _, erra := ty.t.Convert(nil, a)
	cb, _, errb := ty.t.Convert(nil, b)
	if erra == nil && errb == nil {
		cc, err4 := ty.t.Compare(nil, ca, cb)
		nd.Assert("c26t.pair.same-after-convert", err4 == nil && c26tSign(cc) == c26tSign(ab))
	}
}

// Triples of mixed kinds: transitivity.
func VerifC26DatetimeTriple() {
	moments := []c26tStamp{c26tMoments[0], c26tMoments[5], c26tMoments[6], c26tMoments[8]}
	if nd.Tier() == 1 {
		moments = []c26tStamp{c26tMoments[0], c26tMoments[4], c26tMoments[5], c26tMoments[6], c26tMoments[8], c26tMoments[10], c26tMoments[12]}
	}
	tys := c26tTypes()
	ty := tys[nd.Pick("c26t.triple.type", len(tys))]
	a, _, _ := c26tPickOperand("c26t.triple.a", ty, moments)
	b, _, _ := c26tPickOperand("c26t.triple.b", ty, moments)
	c, _, _ := c26tPickOperand("c26t.triple.c", ty, moments)
	ab, err1 := ty.t.Compare(nil, a, b)
	bc, err2 := ty.t.Compare(nil, b, c)
	ac, err3 := ty.t.Compare(nil, a, c)
	nd.Reach("c26t.triple")
	nd.Assert("c26t.triple.no-error", err1 == nil && err2 == nil && err3 == nil)
	if ab <= 0 && bc <= 0 {
		nd.Assert("c26t.triple.transitive-le", ac <= 0)
		nd.Assert("c26t.triple.equal-only-if-both-equal", ac != 0 || (ab == 0 && bc == 0))
	}
	if ab >= 0 && bc >= 0 {
		nd.Assert("c26t.triple.transitive-ge", ac >= 0)
	}
}

// Triples whose seconds are symbolic (23:59:ss on 2024-02-29 or 00:00:ss on
// 2024-03-01, each operand): order = order of the linear second counts, and
// transitivity, for DATETIME(6) and TIMESTAMP(6) on engine values.
func c26tSymbolic(tag string) (time.Time, int64) {
	s := nd.Uint8(tag + ".s")
	nd.Assume(s < 60)
	if nd.Pick(tag+".day", 2) == 0 {
		return time.Date(2024, 2, 29, 23, 59, int(s), 0, time.UTC), 23*3600 + 59*60 + int64(s)
	}
	return time.Date(2024, 3, 1, 0, 0, int(s), 0, time.UTC), 86400 + int64(s)
}

func c26tOrd(x, y int64) int {
	r := 0
	if x < y {
		r = -1
	}
	if x > y {
		r = 1
	}
	return r
}

func VerifC26DatetimeTripleSymbolicSeconds() {
	tys := [...]sql.DatetimeType{DatetimeMaxPrecision, TimestampMaxPrecision}
	ty := tys[nd.Pick("c26t.sym.type", len(tys))]
	a, ka := c26tSymbolic("c26t.sym.a")
	b, kb := c26tSymbolic("c26t.sym.b")
	c, kc := c26tSymbolic("c26t.sym.c")
	ab, err1 := ty.Compare(nil, a, b)
	ba, err2 := ty.Compare(nil, b, a)
	bc, err3 := ty.Compare(nil, b, c)
	ac, err4 := ty.Compare(nil, a, c)
	nd.Reach("c26t.sym")
	nd.Assert("c26t.sym.no-error", err1 == nil && err2 == nil && err3 == nil && err4 == nil)
	nd.Assert("c26t.sym.agrees-with-second-count", nd.And(ab == c26tOrd(ka, kb), nd.And(bc == c26tOrd(kb, kc), ac == c26tOrd(ka, kc))))
	nd.Assert("c26t.sym.antisymmetric", ab == -ba)
	nd.Assert("c26t.sym.transitive", nd.And(nd.Implies(nd.And(ab <= 0, bc <= 0), ac <= 0), nd.Implies(nd.And(ab >= 0, bc >= 0), ac >= 0)))
}

// TIMESTAMP: a string operand outside the type's range is rejected whichever
// side it stands on (rejection is symmetric), never ordered as some other moment.
func VerifC26TimestampStringOutOfRange() {
	outs := [...]c26tStamp{c26tMoments[1], c26tMoments[2], c26tMoments[3], c26tMoments[11], c26tMoments[12]}
	w := outs[nd.Pick("c26t.tsout.w", len(outs))]
	other := c26tMoments[5].value(nd.Pick("c26t.tsout.kind", 2))
	_, err1 := TimestampMaxPrecision.Compare(nil, w.text(), other)
	_, err2 := TimestampMaxPrecision.Compare(nil, other, w.text())
	nd.Reach("c26t.tsout")
	nd.Assert("c26t.tsout.rejected-both-sides", err1 != nil && err2 != nil)
}
