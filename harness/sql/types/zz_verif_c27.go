//go:build verif

package types

import (
	"context"
	"math"

	nd "github.com/dolthub/go-mysql-server/internal/zzverifnd"
	"github.com/dolthub/go-mysql-server/sql"
)

// C27: storing a value keeps it exactly or reports the change (integer-like
// targets). The source is a full-range symbolic payload of a Go integer kind
// (or bool) chosen by a concrete selector; its mathematical value m is kept as
// (negative, two's-complement bits), so m ranges over [-2^63, 2^64).
//
// For target type T with range [lo,hi] and r, flag, err := T.Convert(src):
//   representable-kept   lo<=m<=hi  =>  err==nil, flag==InRange, r has T's Go kind and equals m
//   change-reported      otherwise  =>  not (err==nil and flag==InRange)
//   overflow-nearest     m>hi, err==nil  =>  flag==Overflow and r==hi
//   underflow-nearest    m<lo, err==nil  =>  flag==Underflow and r==lo        (signed targets)
//   underflow-flagged    m<0,  err==nil  =>  flag==Underflow                  (unsigned targets: the
//                        value is the CAST(.. AS UNSIGNED) wrap pinned by number_test.go, not asserted)
//   result-in-type-range err==nil  =>  r has T's Go kind and lo<=r<=hi
//   idempotent           err==nil  =>  T.Convert(r) == (r, InRange, nil)
// The oracle uses only comparisons on the widened source.

var c27ctx context.Context // nil: only read for JSON wrappers

const (
	c27Int8 = iota
	c27Int16
	c27Int32
	c27Int64
	c27Int
	c27Uint8
	c27Uint16
	c27Uint32
	c27Uint64
	c27Uint
	c27Bool
	c27NumKinds
)

// c27Src returns a symbolic source of the selected kind.
func c27Src(name string, kind int) interface{} {
	switch kind {
	case c27Int8:
		return nd.Int8(name)
	case c27Int16:
		return nd.Int16(name)
	case c27Int32:
		return nd.Int32(name)
	case c27Int64:
		return nd.Int64(name)
	case c27Int:
		return nd.Int(name)
	case c27Uint8:
		return nd.Uint8(name)
	case c27Uint16:
		return nd.Uint16(name)
	case c27Uint32:
		return nd.Uint32(name)
	case c27Uint64:
		return nd.Uint64(name)
	case c27Uint:
		return nd.Uint(name)
	}
	return nd.Bool(name)
}

// c27Wide: mathematical value of a Go integer/bool as (negative, bits) and its kind.
func c27Wide(v interface{}) (neg bool, bits uint64, kind int) {
	switch x := v.(type) {
	case int8:
		return x < 0, uint64(int64(x)), c27Int8
	case int16:
		return x < 0, uint64(int64(x)), c27Int16
	case int32:
		return x < 0, uint64(int64(x)), c27Int32
	case int64:
		return x < 0, uint64(x), c27Int64
	case int:
		return x < 0, uint64(int64(x)), c27Int
	case uint8:
		return false, uint64(x), c27Uint8
	case uint16:
		return false, uint64(x), c27Uint16
	case uint32:
		return false, uint64(x), c27Uint32
	case uint64:
		return false, x, c27Uint64
	case uint:
		return false, uint64(x), c27Uint
	case bool:
		one := uint64(0)
		if x {
			one = 1
		}
		return false, one, c27Bool
	}
	return false, 0, -1
}

type c27Target struct {
	id     string
	t      sql.Type
	signed bool
	lo     int64  // <= 0
	hi     uint64 // > 0
	kind   int    // Go kind of stored values
}

var c27Targets = []c27Target{
	{"c27.int8", Int8, true, math.MinInt8, math.MaxInt8, c27Int8},
	{"c27.int16", Int16, true, math.MinInt16, math.MaxInt16, c27Int16},
	{"c27.int24", Int24, true, -(1 << 23), 1<<23 - 1, c27Int32},
	{"c27.int32", Int32, true, math.MinInt32, math.MaxInt32, c27Int32},
	{"c27.int64", Int64, true, math.MinInt64, math.MaxInt64, c27Int64},
	{"c27.uint8", Uint8, false, 0, math.MaxUint8, c27Uint8},
	{"c27.uint16", Uint16, false, 0, math.MaxUint16, c27Uint16},
	{"c27.uint24", Uint24, false, 0, 1<<24 - 1, c27Uint32},
	{"c27.uint32", Uint32, false, 0, math.MaxUint32, c27Uint32},
	{"c27.uint64", Uint64, false, 0, math.MaxUint64, c27Uint64},
}

// c27Check: the conversion laws for one converted source with value (neg,bits).
func c27Check(tg c27Target, neg bool, bits uint64, r interface{}, flag sql.ConvertInRange, err error) {
	id := tg.id
	over := nd.And(!neg, bits > tg.hi)
	under := nd.And(neg, int64(bits) < tg.lo) // lo == 0 for unsigned targets: every negative value
	representable := nd.And(!over, !under)

	rn, rb, rk := c27Wide(r)
	exact := nd.And(rk == tg.kind, nd.And(rn == neg, rb == bits))
	nd.Assert(id+".representable-kept", nd.Implies(representable, nd.And(nd.And(err == nil, flag == sql.InRange), exact)))
	nd.Assert(id+".change-reported", nd.Implies(!representable, !nd.And(err == nil, flag == sql.InRange)))
	if err != nil {
		return
	}
	nd.Assert(id+".overflow-nearest", nd.Implies(over, nd.And(flag == sql.Overflow, nd.And(!rn, rb == tg.hi))))
	if tg.signed {
		nd.Assert(id+".underflow-nearest", nd.Implies(under, nd.And(flag == sql.Underflow, nd.And(rn, int64(rb) == tg.lo))))
	} else {
		nd.Assert(id+".underflow-flagged", nd.Implies(under, flag == sql.Underflow))
	}
	inType := nd.Or(nd.And(rn, int64(rb) >= tg.lo), nd.And(!rn, rb <= tg.hi))
	nd.Assert(id+".result-in-type-range", nd.And(rk == tg.kind, inType))

	r2, flag2, err2 := tg.t.Convert(c27ctx, r)
	r2n, r2b, r2k := c27Wide(r2)
	nd.Assert(id+".idempotent", nd.And(nd.And(err2 == nil, flag2 == sql.InRange), nd.And(r2k == rk, nd.And(r2n == rn, r2b == rb))))
}

// c27NumberKinds: the source kinds of the per-type harnesses. Go's `uint` has
// its own harness (VerifC27ConvertFromUint) so that one root cause is one finding.
var c27NumberKinds = []int{c27Int8, c27Int16, c27Int32, c27Int64, c27Int, c27Uint8, c27Uint16, c27Uint32, c27Uint64, c27Bool}

func c27Number(i int) {
	tg := c27Targets[i]
	src := c27Src("v", c27NumberKinds[nd.Pick("kind", len(c27NumberKinds))])
	neg, bits, _ := c27Wide(src)
	r, flag, err := tg.t.Convert(c27ctx, src)
	nd.Reach(tg.id)
	nd.Observe(r, int(flag), err != nil)
	c27Check(tg, neg, bits, r, flag, err)
}

func VerifC27ConvertInt8()   { c27Number(0) }
func VerifC27ConvertInt16()  { c27Number(1) }
func VerifC27ConvertInt24()  { c27Number(2) }
func VerifC27ConvertInt32()  { c27Number(3) }
func VerifC27ConvertInt64()  { c27Number(4) }
func VerifC27ConvertUint8()  { c27Number(5) }
func VerifC27ConvertUint16() { c27Number(6) }
func VerifC27ConvertUint24() { c27Number(7) }
func VerifC27ConvertUint32() { c27Number(8) }
func VerifC27ConvertUint64() { c27Number(9) }

// Source of Go kind `uint`, into each of the ten integer types.
func VerifC27ConvertFromUint() {
	tg := c27Targets[nd.Pick("type", len(c27Targets))]
	tg.id = "c27.from-uint"
	src := nd.Uint("v")
	r, flag, err := tg.t.Convert(c27ctx, src)
	nd.Reach(tg.id)
	nd.Observe(r, int(flag), err != nil)
	c27Check(tg, false, uint64(src), r, flag, err)
}

// NULL is stored as NULL by every integer type.
func VerifC27ConvertNull() {
	tg := c27Targets[nd.Pick("type", len(c27Targets))]
	r, flag, err := tg.t.Convert(c27ctx, nil)
	nd.Reach("c27.null")
	nd.Assert("c27.null.kept", nd.And(r == nil, nd.And(flag == sql.InRange, err == nil)))
}

// Decimal digit strings of 1..3 digits: the value is the decimal reading.
func VerifC27ConvertDigitString() {
	tg := c27Targets[nd.Pick("type", len(c27Targets))]
	tg.id += ".digits"
	n := nd.IntRange("n", 1, nd.Bound(3, 4))
	s := nd.String("s", n)
	m := uint64(0)
	for i := 0; i < n; i++ {
		c := s[i]
		nd.Assume(nd.And(c >= '0', c <= '9'))
		m = m*10 + uint64(c-'0')
	}
	r, flag, err := tg.t.Convert(c27ctx, s)
	nd.Reach(tg.id)
	nd.Observe(r, int(flag), err != nil)
	c27Check(tg, false, m, r, flag, err)
}

// Binary strings of 1..2 (thorough 1..3) bytes: the value is the big-endian
// unsigned reading (x'01FF' = 511), as for hexadecimal literals in numeric
// context. Split by target signedness only to run in parallel.
func c27Bytes(first int) {
	tg := c27Targets[first+nd.Pick("type", 5)]
	tg.id += ".bytes"
	n := nd.IntRange("n", 1, nd.Bound(2, 3))
	b := nd.Bytes("b", n)
	m := uint64(0)
	for i := 0; i < n; i++ {
		m = m<<8 | uint64(b[i])
	}
	r, flag, err := tg.t.Convert(c27ctx, b)
	nd.Reach(tg.id)
	nd.Observe(r, int(flag), err != nil)
	c27Check(tg, false, m, r, flag, err)
}

func VerifC27ConvertBytesSigned()   { c27Bytes(0) }
func VerifC27ConvertBytesUnsigned() { c27Bytes(5) }

// YEAR: accepted integers are 0, 1..69 (-> 2001..2069), 70..99 (-> 1970..1999)
// and 1901..2155 (MySQL's documented YEAR rules); everything else is rejected.
func VerifC27ConvertYear() {
	src := c27Src("v", nd.Pick("kind", c27NumKinds-1)) // integer kinds; YEAR has no bool arm
	neg, bits, _ := c27Wide(src)
	t := YearType_{}
	r, flag, err := t.Convert(c27ctx, src)
	nd.Reach("c27.year")
	nd.Observe(r, int(flag), err != nil)

	twoLow := nd.And(!neg, nd.And(bits >= 1, bits <= 69))
	twoHigh := nd.And(!neg, nd.And(bits >= 70, bits <= 99))
	four := nd.And(!neg, nd.And(bits >= 1901, bits <= 2155))
	zero := nd.And(!neg, bits == 0)
	want := bits // zero, four
	if twoLow {
		want = bits + 2000
	}
	if twoHigh {
		want = bits + 1900
	}
	valid := nd.Or(nd.Or(zero, four), nd.Or(twoLow, twoHigh))
	nd.Assert("c27.year.accepted-iff-valid", (err == nil) == valid)
	if err != nil {
		nd.Assert("c27.year.rejected-no-value", r == nil)
		return
	}
	y, ok := r.(int16)
	nd.Assert("c27.year.kind", ok)
	nd.Assert("c27.year.value", nd.And(flag == sql.InRange, nd.And(y >= 0, uint64(y) == want)))
	r2, flag2, err2 := t.Convert(c27ctx, r)
	y2, ok2 := r2.(int16)
	nd.Assert("c27.year.idempotent", nd.And(nd.And(err2 == nil, ok2), nd.And(flag2 == sql.InRange, y2 == y)))
}

// BIT(n), n symbolic in 1..64, non-negative sources: stored exactly iff below 2^n.
func VerifC27ConvertBit() {
	n := nd.Uint8("bits")
	nd.Assume(nd.And(n >= BitTypeMinBits, n <= BitTypeMaxBits))
	t := MustCreateBitType(n)
	src := c27Src("v", nd.Pick("kind", c27NumKinds))
	neg, bits, _ := c27Wide(src)
	nd.Assume(!neg)
	r, flag, err := t.Convert(c27ctx, src)
	nd.Reach("c27.bit")
	nd.Observe(r, int(flag), err != nil)
	fits := nd.Or(n == 64, bits>>(n&63) == 0)
	nd.Assert("c27.bit.accepted-iff-fits", (err == nil) == fits)
	if err != nil {
		nd.Assert("c27.bit.rejected-no-value", nd.And(r == nil, flag != sql.InRange))
		return
	}
	u, ok := r.(uint64)
	nd.Assert("c27.bit.kind", ok)
	nd.Assert("c27.bit.exact", nd.And(flag == sql.InRange, u == bits))
	r2, flag2, err2 := t.Convert(c27ctx, r)
	u2, ok2 := r2.(uint64)
	nd.Assert("c27.bit.idempotent", nd.And(nd.And(err2 == nil, ok2), nd.And(flag2 == sql.InRange, u2 == u)))
}
