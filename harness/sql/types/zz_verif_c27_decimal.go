//go:build verif

package types

import (
	"math"
	"strings"

	"github.com/cockroachdb/apd/v3"

	nd "github.com/dolthub/go-mysql-server/internal/zzverifnd"
	"github.com/dolthub/go-mysql-server/sql"
)

// C27, DECIMAL targets: DecimalType_.Convert of a source whose exact value is a
// decimal numeral m into DECIMAL(p,s).
//
// Let r = m rounded half away from zero to s fraction digits (MySQL's rule for
// storing into a DECIMAL column) and "fits" = r has at most p-s integer digits.
//
//   out-of-range-reported  not fits            =>  an error (or a flag other than InRange): never a
//                                                  wrapped / clamped value reported as in range
//   no-spurious-error      fits                =>  no error
//   representable-kept     fits, r == m        =>  flag InRange and the result equals m
//   rounded-half-away      fits, r != m        =>  the result equals r
//   scale-within-type      result has at most s fraction digits; a COLUMN type returns exactly s
//                          ("the result will be restricted to the defined precision and scale")
//   idempotent             Convert(result) = (result, InRange, nil)
//   text-round-trip        the result's fixed-point text is r's numeral (column type: with exactly
//                          s fraction digits)
//   no-negative-zero-stored  a negative source whose stored value is zero is stored (and printed)
//                          as 0, not as apd's negative zero "-0.00". Asserted LAST (class).
//   rounding-reported      fits, r != m        =>  the change is reported (error or flag != InRange).
//                          Asserted LAST: BoundsCheck rounds silently (its own TODO: "add 'Data
//                          truncated' warning"); MySQL raises Note 1265.
//
// Sources: numerals assembled from concrete pieces by selectors, as string or
// *apd.Decimal; concrete int/uint/float/bool values; 65-digit witnesses. The
// reference rounds and measures the numeral on its digit string (no arithmetic).

type c27decNum struct {
	neg bool
	ip  string
	fp  string
}

func (n c27decNum) text() string {
	t := n.ip
	if n.fp != "" {
		t += "." + n.fp
	}
	if n.neg {
		t = "-" + t
	}
	return t
}

// c27decRound: n rounded half away from zero to at most s fraction digits; lost =
// a non-zero digit was dropped.
func c27decRound(n c27decNum, s int) (r c27decNum, lost bool) {
	if len(n.fp) <= s {
		return n, false
	}
	lost = strings.Trim(n.fp[s:], "0") != ""
	digits := []byte(n.ip + n.fp[:s])
	if n.fp[s] >= '5' {
		i := len(digits) - 1
		for ; i >= 0; i-- {
			if digits[i] == '9' {
				digits[i] = '0'
			} else {
				digits[i]++
				break
			}
		}
		if i < 0 {
			digits = append([]byte{'1'}, digits...)
		}
	}
	return c27decNum{neg: n.neg, ip: string(digits[:len(digits)-s]), fp: string(digits[len(digits)-s:])}, lost
}

// c27decCanon: numeric content of a numeral / fixed-point text.
func c27decCanon(t string) string {
	neg := strings.HasPrefix(t, "-")
	t = strings.TrimPrefix(t, "-")
	ip, fp := t, ""
	if i := strings.IndexByte(t, '.'); i >= 0 {
		ip, fp = t[:i], t[i+1:]
	}
	ip = strings.TrimLeft(ip, "0")
	if ip == "" {
		ip = "0"
	}
	fp = strings.TrimRight(fp, "0")
	out := ip
	if fp != "" {
		out = ip + "." + fp
	}
	if neg && out != "0" {
		out = "-" + out
	}
	return out
}

// c27decFixed: the numeral with exactly s fraction digits (it has at most s), no
// sign on zero, one leading zero at most.
func c27decFixed(n c27decNum, s int) string {
	ip := strings.TrimLeft(n.ip, "0")
	if ip == "" {
		ip = "0"
	}
	fp := n.fp
	for len(fp) < s {
		fp += "0"
	}
	out := ip
	if s > 0 {
		out = ip + "." + fp
	}
	if n.neg && strings.Trim(ip+fp, "0") != "" {
		out = "-" + out
	}
	return out
}

type c27decTarget struct {
	p, s   uint8
	column bool
}

var c27decTargets = [...]c27decTarget{
	{5, 2, true}, {5, 2, false}, {3, 0, true}, {65, 30, false}, {4, 4, true}, {10, 0, false}, {65, 0, true},
}

func (g c27decTarget) typ() sql.DecimalType {
	if g.column {
		return MustCreateColumnDecimalType(g.p, g.s)
	}
	return MustCreateDecimalType(g.p, g.s)
}

// c27decCheck: all laws for one Convert of src (exact value m) into target g.
func c27decCheck(id string, g c27decTarget, src interface{}, m c27decNum) {
	t := g.typ()
	res, flag, err := t.Convert(c27ctx, src)
	nd.Reach(id)
	p, s := int(g.p), int(g.s)
	r, lost := c27decRound(m, s)
	fits := len(strings.TrimLeft(r.ip, "0")) <= p-s
	nd.Observe(m.text(), p, s, g.column, err != nil, int(flag))
	if !fits {
		nd.Assert(id+".out-of-range-reported", err != nil || flag != sql.InRange)
		return
	}
	nd.Assert(id+".no-spurious-error", err == nil)
	if err != nil {
		return
	}
	d, ok := res.(*apd.Decimal)
	nd.Assert(id+".decimal-kind", ok && d != nil)
	if !ok || d == nil {
		return
	}
	text := d.Text('f')
	nd.Observe(text)
	if lost {
		nd.Assert(id+".rounded-half-away", c27decCanon(text) == c27decCanon(r.text()))
	} else {
		nd.Assert(id+".representable-kept", flag == sql.InRange && c27decCanon(text) == c27decCanon(m.text()))
	}
	nd.Assert(id+".scale-within-type", int(-d.Exponent) <= s && (!g.column || int(-d.Exponent) == s))
	// class ".negative-zero": a negative source whose stored value is zero ('-0',
	// or -0.004 into scale 2) keeps apd's sign bit and prints as "-0.00"
	negZero := m.neg && strings.Trim(r.ip+r.fp, "0") == ""
	fixed := ""
	if g.column {
		fixed = t.(DecimalType_).DecimalValueStringFixed(d)
		nd.Assert(id+".text-round-trip", negZero || fixed == c27decFixed(r, s))
	}
	res2, flag2, err2 := t.Convert(c27ctx, res)
	d2, ok2 := res2.(*apd.Decimal)
	nd.Assert(id+".idempotent", err2 == nil && flag2 == sql.InRange && ok2 && d2.Text('f') == text)
	// known classes, each asserted last on its path
	if negZero {
		nd.Assert(id+".no-negative-zero-stored", !(d.Negative && d.IsZero()) && (!g.column || fixed == c27decFixed(r, s)))
	}
	if lost {
		nd.Assert(id+".rounding-reported", flag != sql.InRange)
	}
}

var c27decInts = [...]string{"0", "1", "999", "1000", "12", "99999"}
var c27decFracs = [...]string{"", "5", "50", "005", "995", "004", "994999", "0"}

// VerifC27ConvertDecimalNumeral: grid numerals as string or *apd.Decimal.
func VerifC27ConvertDecimalNumeral() {
	g := c27decTargets[nd.Pick("c27dec.target", nd.Bound(4, len(c27decTargets)))]
	var m c27decNum
	m.neg = nd.Pick("c27dec.neg", 2) == 1
	m.ip = c27decInts[nd.Pick("c27dec.int", nd.Bound(4, len(c27decInts)))]
	m.fp = c27decFracs[nd.Pick("c27dec.frac", nd.Bound(5, len(c27decFracs)))]
	var src interface{} = m.text()
	if nd.Pick("c27dec.form", 2) == 1 {
		d, _, err := apd.NewFromString(m.text())
		nd.Assume(err == nil)
		src = d
	}
	c27decCheck("c27.decimal.numeral", g, src, m)
}

// Concrete sources of the other Go kinds with their exact decimal value.
type c27decKindSample struct {
	v interface{}
	m c27decNum
}

func c27decKindSamples() []c27decKindSample {
	return []c27decKindSample{
		{int64(0), c27decNum{false, "0", ""}},
		{int64(-1), c27decNum{true, "1", ""}},
		{int64(999), c27decNum{false, "999", ""}},
		{int64(1000), c27decNum{false, "1000", ""}},
		{int64(-1000), c27decNum{true, "1000", ""}},
		{int64(math.MaxInt64), c27decNum{false, "9223372036854775807", ""}},
		{int64(math.MinInt64), c27decNum{true, "9223372036854775808", ""}},
		{uint64(math.MaxUint64), c27decNum{false, "18446744073709551615", ""}},
		{uint64(1 << 63), c27decNum{false, "9223372036854775808", ""}},
		{int8(-128), c27decNum{true, "128", ""}},
		{uint8(255), c27decNum{false, "255", ""}},
		{int16(-999), c27decNum{true, "999", ""}},
		{uint16(65535), c27decNum{false, "65535", ""}},
		{int32(math.MinInt32), c27decNum{true, "2147483648", ""}},
		{uint32(math.MaxUint32), c27decNum{false, "4294967295", ""}},
		{int(7), c27decNum{false, "7", ""}},
		{uint(7), c27decNum{false, "7", ""}},
		{true, c27decNum{false, "1", ""}},
		{false, c27decNum{false, "0", ""}},
		{float64(0.5), c27decNum{false, "0", "5"}},
		{float64(-2.5), c27decNum{true, "2", "5"}},
		{float64(1.25), c27decNum{false, "1", "25"}},
		{float64(0.125), c27decNum{false, "0", "125"}},
		{float64(1e3), c27decNum{false, "1000", ""}},
		{float64(999.995), c27decNum{false, "999", "995"}},
		{float64(1.005), c27decNum{false, "1", "005"}},
		{float64(0.1), c27decNum{false, "0", "1"}},
		{float64(1e15), c27decNum{false, "1000000000000000", ""}},
		{float32(0.5), c27decNum{false, "0", "5"}},
		{float32(-1.25), c27decNum{true, "1", "25"}},
		{[]byte("12.50"), c27decNum{false, "12", "50"}},
	}
}

// VerifC27ConvertDecimalFromKinds: float sources stand for the shortest decimal
// numeral that round-trips (what DecimalFromFloat64 parses).
func VerifC27ConvertDecimalFromKinds() {
	ks := c27decKindSamples()
	k := ks[nd.Pick("c27deckind.sample", len(ks))]
	g := c27decTargets[nd.Pick("c27deckind.target", len(c27decTargets))]
	c27decCheck("c27.decimal.kinds", g, k.v, k.m)
}

// VerifC27ConvertDecimalLimit: numerals at the 65-digit precision limit.
func VerifC27ConvertDecimalLimit() {
	n65 := strings.Repeat("9", 65)
	n35 := strings.Repeat("9", 35)
	n30 := strings.Repeat("9", 30)
	ws := []c27decNum{
		{false, n65, ""}, // fits (65,0) exactly
		{true, n65, ""},  //
		{false, "1" + strings.Repeat("0", 65), ""},  // 66 digits: out of range everywhere
		{false, n65, "4"},                           // rounds down into (65,0)
		{false, n65, "5"},                           // rounds up to 10^65: out of range
		{true, n65, "5"},                            //
		{false, n35, n30},                           // fits (65,30) exactly
		{false, n35, n30 + "4"},                     // rounds down into (65,30)
		{false, n35, n30 + "5"},                     // rounds up to 10^35: out of range for (65,30)
		{false, "1" + strings.Repeat("0", 35), ""},  // 36 integer digits: out of range for (65,30)
		{false, "0", strings.Repeat("0", 30) + "5"}, // 10^-31 * 5 rounds to 10^-30
		{true, "0", strings.Repeat("0", 30) + "4"},  // rounds to (negative) zero
	}
	m := ws[nd.Pick("c27declim.case", len(ws))]
	g := [...]c27decTarget{{65, 0, true}, {65, 30, true}, {65, 30, false}, {65, 0, false}}[nd.Pick("c27declim.target", 4)]
	var src interface{} = m.text()
	if nd.Pick("c27declim.form", 2) == 1 {
		d, _, err := apd.NewFromString(m.text())
		nd.Assume(err == nil)
		src = d
	}
	c27decCheck("c27.decimal.limit", g, src, m)
}

// VerifC27ConvertDecimalStrings: strings that are not plain numerals. exact:
// other spellings of a number MySQL accepts without a warning — kept exactly,
// no error. Otherwise (trailing garbage, no number at all): the change must be
// reported, and a returned value is the numeric prefix.
type c27decStringSample struct {
	s     string
	m     c27decNum
	exact bool
}

func VerifC27ConvertDecimalStrings() {
	ws := []c27decStringSample{
		{"1e2", c27decNum{false, "100", ""}, true},
		{".5", c27decNum{false, "0", "5"}, true},
		{"5.", c27decNum{false, "5", ""}, true},
		{"+5", c27decNum{false, "5", ""}, true},
		{"-.5", c27decNum{true, "0", "5"}, true},
		{" 1.5", c27decNum{false, "1", "5"}, true},
		{"1.5e-1", c27decNum{false, "0", "15"}, true},
		{"0012.50", c27decNum{false, "12", "50"}, true},
		{"1.5abc", c27decNum{false, "1", "5"}, false},
		{"abc", c27decNum{false, "0", ""}, false},
		{"", c27decNum{false, "0", ""}, false},
		{"1.5.5", c27decNum{false, "1", "5"}, false},
		{"--5", c27decNum{false, "0", ""}, false},
		{"1,5", c27decNum{false, "1", ""}, false},
		{"12 3", c27decNum{false, "12", ""}, false},
		{"  ", c27decNum{false, "0", ""}, false},
	}
	w := ws[nd.Pick("c27decstr.case", len(ws))]
	g := c27decTarget{10, 4, nd.Pick("c27decstr.column", 2) == 1}
	if w.exact {
		c27decCheck("c27.decimal.strings.numeral", g, w.s, w.m)
		return
	}
	res, flag, err := g.typ().Convert(c27ctx, w.s)
	nd.Reach("c27.decimal.strings.malformed")
	nd.Observe(w.s, err != nil, int(flag))
	// class ".empty-string": TruncateStringToDouble("") reports no truncation
	empty := strings.TrimSpace(w.s) == ""
	nd.Assert("c27.decimal.strings.malformed.reported", empty || err != nil || flag != sql.InRange)
	if d, ok := res.(*apd.Decimal); ok && d != nil {
		nd.Observe(d.Text('f'))
		nd.Assert("c27.decimal.strings.malformed.numeric-prefix-kept", c27decCanon(d.Text('f')) == c27decCanon(w.m.text()))
	}
	if empty {
		nd.Assert("c27.decimal.strings.malformed.reported.empty-string", err != nil || flag != sql.InRange)
	}
}
