//go:build verif

package types

import (
	"math"

	nd "github.com/dolthub/go-mysql-server/internal/zzverifnd"
	"github.com/dolthub/go-mysql-server/sql"
)

// C28 (integer types over the text protocol, and TIME): the text a client
// receives denotes the stored value, and is never longer than announced.
//
// For an integer column type T and a storable value v (a value of T's own Go
// kind inside T's range):
//
//	sql-ok        T.SQL(ctx, dest, v) returns no error
//	max-length    len(text) <= T.MaxTextResponseByteLength(ctx)
//	reparsed      T.Convert(ctx, string(text)) = (v' , InRange, nil)
//	roundtrip     v' has T's Go kind and v' == v
//
// The text is handed back as a Go string: that is what a text-protocol client
// holds. (A []byte is a *binary string* for Convert: x'3132' is 12594, not 12.)
//
// For TIME the same with T = types.Time and v a Timespan within
// +-838:59:59.000000; see the TIME section for what is symbolic.

type c28IntType struct {
	id     string
	t      sql.Type
	signed bool
	bits   int   // 8, 16, 24, 32, 64
	lo     int64 // minimum (<= 0)
	hi     uint64
}

var c28IntTypes = []c28IntType{
	{"c28.int8", Int8, true, 8, math.MinInt8, math.MaxInt8},
	{"c28.int16", Int16, true, 16, math.MinInt16, math.MaxInt16},
	{"c28.int24", Int24, true, 24, -(1 << 23), 1<<23 - 1},
	{"c28.int32", Int32, true, 32, math.MinInt32, math.MaxInt32},
	{"c28.int64", Int64, true, 64, math.MinInt64, math.MaxInt64},
	{"c28.uint8", Uint8, false, 8, 0, math.MaxUint8},
	{"c28.uint16", Uint16, false, 16, 0, math.MaxUint16},
	{"c28.uint24", Uint24, false, 24, 0, 1<<24 - 1},
	{"c28.uint32", Uint32, false, 32, 0, math.MaxUint32},
	{"c28.uint64", Uint64, false, 64, 0, math.MaxUint64},
}

const c28Small = 100000 // 24/32/64-bit types: |v| < 10^5 (6-digit values do not decide in 90 s), plus the neighbourhoods of the bounds

// c28Value: a storable value of the type, as its mathematical value (signed
// types in s, unsigned in u) and boxed in the type's Go kind.
func c28Value(tg c28IntType) (s int64, u uint64, boxed interface{}) {
	switch tg.bits {
	case 8:
		if tg.signed {
			x := nd.Int8(tg.id + ".v")
			return int64(x), 0, x
		}
		x := nd.Uint8(tg.id + ".v")
		return 0, uint64(x), x
	case 16:
		if tg.signed {
			x := nd.Int16(tg.id + ".v")
			return int64(x), 0, x
		}
		x := nd.Uint16(tg.id + ".v")
		return 0, uint64(x), x
	}
	// 24, 32, 64 bits: region 0 = small magnitudes, 1 = upper bound - d, 2 = lower bound + d (signed)
	regions := 2
	if tg.signed {
		regions = 3
	}
	switch nd.Pick(tg.id+".region", regions) {
	case 0:
		if tg.signed {
			x := nd.Int32(tg.id + ".v")
			nd.Assume(nd.And(x > -c28Small, x < c28Small))
			s = int64(x)
		} else {
			x := nd.Uint32(tg.id + ".v")
			nd.Assume(x < c28Small)
			u = uint64(x)
		}
	case 1:
		d := nd.Uint8(tg.id + ".d")
		nd.Assume(d <= 2)
		if tg.signed {
			s = int64(tg.hi) - int64(d)
		} else {
			u = tg.hi - uint64(d)
		}
	default:
		d := nd.Uint8(tg.id + ".d")
		nd.Assume(d <= 2)
		s = tg.lo + int64(d)
	}
	switch {
	case tg.bits == 64 && tg.signed:
		boxed = s
	case tg.bits == 64:
		boxed = u
	case tg.signed: // MEDIUMINT and INT are stored as int32
		boxed = int32(s)
	default:
		boxed = uint32(u)
	}
	return s, u, boxed
}

// c28Same: back has the same Go kind as v and the same value.
func c28Same(back, v interface{}) bool {
	switch x := v.(type) {
	case int8:
		y, ok := back.(int8)
		return nd.And(ok, x == y)
	case int16:
		y, ok := back.(int16)
		return nd.And(ok, x == y)
	case int32:
		y, ok := back.(int32)
		return nd.And(ok, x == y)
	case int64:
		y, ok := back.(int64)
		return nd.And(ok, x == y)
	case uint8:
		y, ok := back.(uint8)
		return nd.And(ok, x == y)
	case uint16:
		y, ok := back.(uint16)
		return nd.And(ok, x == y)
	case uint32:
		y, ok := back.(uint32)
		return nd.And(ok, x == y)
	case uint64:
		y, ok := back.(uint64)
		return nd.And(ok, x == y)
	}
	return false
}

func c28Int(i int) {
	tg := c28IntTypes[i]
	_, _, v := c28Value(tg)
	// dest as the server passes it: an empty buffer, or one that already holds earlier columns
	// (the choice forks; it is made only for the narrow types, the wide ones
	// always get the prefixed buffer — the dest handling does not depend on the type)
	var dest []byte
	if tg.bits > 16 || nd.Bool(tg.id+".destHasPrefix") {
		dest = append(make([]byte, 0, 8), 'x', 'y')
	}
	val, err := tg.t.SQL(nil, dest, v)
	nd.Reach(tg.id)
	nd.Assert(tg.id+".sql-ok", err == nil)
	if err != nil {
		return
	}
	text := val.ToString()
	nd.Observe(text)
	nd.Assert(tg.id+".max-length", uint32(len(text)) <= tg.t.MaxTextResponseByteLength(nil))
	back, flag, err2 := tg.t.Convert(nil, text)
	nd.Assert(tg.id+".reparsed", nd.And(err2 == nil, flag == sql.InRange))
	if err2 != nil {
		return
	}
	nd.Assert(tg.id+".roundtrip", c28Same(back, v))
}

func VerifC28Int8()   { c28Int(0) }
func VerifC28Int16()  { c28Int(1) }
func VerifC28Int24()  { c28Int(2) }
func VerifC28Int32()  { c28Int(3) }
func VerifC28Int64()  { c28Int(4) }
func VerifC28Uint8()  { c28Int(5) }
func VerifC28Uint16() { c28Int(6) }
func VerifC28Uint24() { c28Int(7) }
func VerifC28Uint32() { c28Int(8) }
func VerifC28Uint64() { c28Int(9) }

// ---- TIME -------------------------------------------------------------------
//
// What is symbolic (64-bit division by 3.6e9 / 6e7 / 1e6 inside timespanToUnits
// and the multiplications back do not decide on wide ranges):
//
//	VerifC28TimeSmall                        |t| < 10^5 microseconds
//	VerifC28TimeUnitsRecompose               |t| < 2^20 microseconds (crosses the 1 s carry)
//	VerifC28TimeEdges                        +-(base + d) for the unit carries and both bounds, concrete
//	VerifC28TimeField*                       the formatter/parser pair over the WHOLE range, one field
//	                                         (hours / minutes+seconds / microseconds < 10^5) symbolic at a time,
//	                                         the other fields at their extreme values
//
// Timespan.Bytes / String are not encoded: appendDigit relies on
// strconv.AppendInt(buf[i:i], ..) writing into buf's backing array, which the
// executor's AppendInt model does not do (executor gap, see report).

const (
	c28TimeMaxUS = 3020399000000 // 838:59:59.000000 in microseconds (MySQL's documented TIME range)
	c28TimeSmall = 1 << 20       // microseconds
)

// c28TimeCheck: the wire laws for one Timespan.
func c28TimeCheck(id string, t Timespan) {
	val, err := Time.SQL(nil, nil, t)
	nd.Reach(id)
	nd.Assert(id+".sql-ok", err == nil)
	if err != nil {
		return
	}
	text := val.ToString()
	nd.Observe(text)
	nd.Assert(id+".max-length", uint32(len(text)) <= Time.MaxTextResponseByteLength(nil))
	back, flag, err2 := Time.Convert(nil, text)
	nd.Assert(id+".reparsed", nd.And(err2 == nil, flag == sql.InRange))
	if err2 != nil {
		return
	}
	bt, ok := back.(Timespan)
	nd.Assert(id+".roundtrip", nd.And(ok, bt == t))
}

// |t| < 10^5 microseconds, fully symbolic (six and more digits do not decide).
func VerifC28TimeSmall() {
	x := nd.Int32("c28.time.small.t")
	nd.Assume(nd.And(x > -100000, x < 100000))
	c28TimeCheck("c28.time.small", Timespan(x))
}

var c28TimeBases = [...]int64{
	0, 1000000, 59000000, 60000000, 3599000000, 3600000000, 10 * 3600000000, 99*3600000000 + 3599000000,
	100 * 3600000000, 838 * 3600000000, c28TimeMaxUS,
}

// the neighbourhoods (+-2 us) of zero, of every unit carry and of both bounds,
// concretely enumerated; also unitsToTimespan(timespanToUnits(t)) == t there.
func VerifC28TimeEdges() {
	base := c28TimeBases[nd.Pick("c28.time.edges.base", len(c28TimeBases))]
	d := int64(nd.IntRange("c28.time.edges.d", -2, 2))
	if base == c28TimeMaxUS && d > 0 {
		d = -d
	}
	us := base + d
	if nd.Pick("c28.time.edges.neg", 2) == 1 {
		us = -us
	}
	t := Timespan(us)
	neg, h, m, s, frac := t.timespanToUnits()
	nd.Assert("c28.time.edges.recompose", unitsToTimespan(neg, h, m, s, frac) == t)
	c28TimeCheck("c28.time.edges", t)
}

// unitsToTimespan(timespanToUnits(t)) == t and the units are in range, |t| < 2^20 microseconds.
func VerifC28TimeUnitsRecompose() {
	x := nd.Int32("c28.time.recompose.t")
	nd.Assume(nd.And(x > -c28TimeSmall, x < c28TimeSmall))
	t := Timespan(x)
	neg, h, m, s, us := t.timespanToUnits()
	nd.Reach("c28.time.recompose")
	nd.Observe(neg, h, m, s, us)
	nd.Assert("c28.time.recompose.units-in-range", nd.And(nd.And(h >= 0, h <= 838), nd.And(nd.And(m >= 0, m <= 59), nd.And(nd.And(s >= 0, s <= 59), nd.And(us >= 0, us <= 999999)))))
	nd.Assert("c28.time.recompose.identity", unitsToTimespan(neg, h, m, s, us) == t)
}

// c28TimeUnits: the text appendTimeFormat produces for (h,m,s,us) — exactly
// what Timespan.AppendBytes emits after timespanToUnits — is read back by
// stringToTimespan as unitsToTimespan(h,m,s,us), and fits the announced length.
func c28TimeUnits(id string, neg bool, h int16, m, s int8, us int32) {
	var dest []byte
	if neg {
		dest = append(dest, '-')
	}
	dest = appendTimeFormat(dest, int64(h), int64(m), int64(s), int64(us), 6)
	text := string(dest)
	nd.Reach(id)
	nd.Observe(text)
	nd.Assert(id+".max-length", uint32(len(text)) <= Time.MaxTextResponseByteLength(nil))
	back, err := stringToTimespan(text)
	nd.Assert(id+".reparsed", err == nil)
	if err != nil {
		return
	}
	nd.Assert(id+".roundtrip", back == unitsToTimespan(neg, h, m, s, us))
}

// hours 0..838 symbolic; the other fields all-zero or all-maximal (fraction 0 at 838:59:59).
func VerifC28TimeFieldHours() {
	h := nd.Int16("c28.time.hours.h")
	nd.Assume(nd.And(h >= 0, h <= 838))
	m, s, us := int8(0), int8(0), int32(0)
	if nd.Pick("c28.time.hours.rest", 2) == 1 {
		m, s, us = 59, 59, 999999
		nd.Assume(h < 838)
	}
	c28TimeUnits("c28.time.field.hours", nd.Bool("c28.time.hours.neg"), h, m, s, us)
}

// minutes and seconds 0..59 symbolic; hours 0 or 837, fraction 0 or 999999.
func VerifC28TimeFieldMinSec() {
	m := nd.Int8("c28.time.minsec.m")
	s := nd.Int8("c28.time.minsec.s")
	nd.Assume(nd.And(m >= 0, m <= 59))
	nd.Assume(nd.And(s >= 0, s <= 59))
	h, us := int16(0), int32(0)
	if nd.Pick("c28.time.minsec.rest", 2) == 1 {
		h, us = 837, 999999
	}
	c28TimeUnits("c28.time.field.minsec", nd.Bool("c28.time.minsec.neg"), h, m, s, us)
}

// microseconds 0..99999 symbolic (a symbolic 6-digit value does not decide in
// 60 s) or one of eight concrete 6-digit values; the other fields 00:00:00 or 837:59:59.
var c28Micros6 = [...]int32{100000, 100001, 123456, 499999, 500000, 909090, 999998, 999999}

func VerifC28TimeFieldMicros() {
	var us int32
	if k := nd.Pick("c28.time.micros.kind", 1+len(c28Micros6)); k == 0 {
		us = nd.Int32("c28.time.micros.us")
		nd.Assume(nd.And(us >= 0, us <= 99999))
	} else {
		us = c28Micros6[k-1]
	}
	h, m, s := int16(0), int8(0), int8(0)
	if nd.Pick("c28.time.micros.rest", 2) == 1 {
		h, m, s = 837, 59, 59
	}
	c28TimeUnits("c28.time.field.micros", nd.Bool("c28.time.micros.neg"), h, m, s, us)
}
