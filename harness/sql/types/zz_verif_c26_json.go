//go:build verif

package types

// C26 for the JSON type: the comparison of JSON documents is a consistent total
// order. The harnesses are the ones written for C32 (same package: document
// family of scalars, objects and arrays of 0..2 elements incl. arrays that are
// prefixes of one another; CompareJSON reflexive, antisymmetric, transitive, 0
// exactly on equal documents, MySQL's type precedence) — run under C26 as well,
// so their assert ids keep the c32 prefix.
// (Added after the seeded change /verif/seeded/C26-json-array-prefix-compare was
// missed by the C26 check, which had no JSON operands.)

func VerifC26JsonComparePairs() { VerifC32ComparePairs() }

func VerifC26JsonCompareTransitive() { VerifC32CompareTransitive() }
