//go:build verif

package types

import (
	nd "github.com/dolthub/go-mysql-server/internal/zzverifnd"
	"github.com/dolthub/go-mysql-server/sql"
)

// C21, the decision ALTER TABLE ... MODIFY COLUMN takes for ENUM -> ENUM.
//
// Contract of EnumType.IsSubsetOf (sql/type.go, interface sql.EnumType):
//
//	"IsSubsetOf returns whether every element in this is also in |otherType|, with
//	 the same indexes. |otherType| may contain additional elements not in this."
//
// Its one caller, modifyColumnIter.rewriteTable (sql/rowexec/ddl_iters.go), uses it as
// "the stored indexes can be kept": when old.IsSubsetOf(new) holds (and nothing else
// asks for a rewrite) the column is modified in place, where every stored uint16 index
// passes unchanged through new.Convert; only when it does not hold are the rows
// rewritten with the index remapped by label (new.IndexOf(old.At(idx))). So, for two
// ENUM types of the same collation:
//
//	old.IsSubsetOf(new)  <=>  for every index i of old (1..len):  i is an index of new
//	                          and new denotes at i the label old denotes at i
//
// "true" on anything else changes stored values silently; "false" on such a pair only
// costs a rewrite, but the documented contract is the equivalence, which is asserted.

// ZzC21Alphabet: the labels the C21 enum / set harnesses draw from (no label is a decimal
// number: a string that is not a member is taken as an index by ENUM and SET conversion).
var ZzC21Alphabet = [4]string{"a", "b", "c", "z"}

// ZzC21Labels draws a list of n distinct labels from the first k labels of the alphabet:
// position j picks among the labels not used yet (no dead paths).
func ZzC21Labels(name string, n, k int) []string {
	var used [len(ZzC21Alphabet)]bool
	out := make([]string, 0, n)
	for j := 0; j < n; j++ {
		r := nd.Pick(name+"."+string(rune('0'+j)), k-j)
		for i := 0; i < k; i++ {
			if used[i] {
				continue
			}
			if r == 0 {
				used[i] = true
				out = append(out, ZzC21Alphabet[i])
				break
			}
			r--
		}
	}
	return out
}

// ZzC21KeepsIndexes: every index of the old list denotes the same label in the new list.
func ZzC21KeepsIndexes(oldLabels, newLabels []string) bool {
	for i, l := range oldLabels {
		if i >= len(newLabels) || newLabels[i] != l {
			return false
		}
	}
	return true
}

// VerifC21EnumIsSubsetOf: two ENUM types from the real constructor, value lists of
// 1..3 (thorough 1..4) distinct labels over {a,b,c,z}, same collation.
func VerifC21EnumIsSubsetOf() {
	max := nd.Bound(3, 4)
	oldLabels := ZzC21Labels("c21.subset.old", nd.IntRange("c21.subset.old.len", 1, max), 4)
	newLabels := ZzC21Labels("c21.subset.new", nd.IntRange("c21.subset.new.len", 1, max), 4)

	// the constructor keeps (and normalises) the slice it is given
	oldT, err1 := CreateEnumType(append([]string(nil), oldLabels...), sql.Collation_Default)
	newT, err2 := CreateEnumType(append([]string(nil), newLabels...), sql.Collation_Default)
	nd.Assert("c21.subset.constructed", err1 == nil && err2 == nil)
	if err1 != nil || err2 != nil {
		return
	}
	got := oldT.IsSubsetOf(newT)
	nd.Reach("c21.subset.decided")
	nd.Observe(got)

	// the types denote the lists they were built from (index i+1 <-> label i)
	denotes := int(oldT.NumberOfElements()) == len(oldLabels) && int(newT.NumberOfElements()) == len(newLabels)
	for i, l := range oldLabels {
		s, ok := oldT.At(i + 1)
		denotes = denotes && ok && s == l && oldT.IndexOf(l) == i+1
	}
	for i, l := range newLabels {
		s, ok := newT.At(i + 1)
		denotes = denotes && ok && s == l && newT.IndexOf(l) == i+1
	}
	nd.Assert("c21.subset.types-denote-their-lists", denotes)

	// reference 1: on the harness's own lists
	want := ZzC21KeepsIndexes(oldLabels, newLabels)
	// reference 2: through the types' own index -> label reading, index by index
	keeps := true
	for i := 1; i <= len(oldLabels); i++ {
		a, _ := oldT.At(i)
		b, ok := newT.At(i)
		keeps = keeps && ok && a == b
	}
	nd.Assert("c21.subset.references-agree", want == keeps)

	if got {
		nd.Assert("c21.subset.true-only-if-every-index-keeps-its-label", want)
	} else {
		nd.Assert("c21.subset.false-only-if-some-index-changes-its-label", !want)
	}
	// an ENUM type is a subset of itself and of any extension at the end
	nd.Assert("c21.subset.reflexive", oldT.IsSubsetOf(oldT))
}
