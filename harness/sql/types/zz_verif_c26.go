//go:build verif

package types

import (
	"context"

	nd "github.com/dolthub/go-mysql-server/internal/zzverifnd"
	"github.com/dolthub/go-mysql-server/sql"
)

// C26: comparison of values is a consistent total order per type (integer-like
// types). Values are NULL or a full-range symbolic payload of a Go integer kind
// chosen by a concrete selector.
//
//   Pair harnesses   (a,b):   result in {-1,0,1}, reflexive, antisymmetric
//                             cmp(a,b) == -cmp(b,a), a NULL operand is ordered
//                             exactly as CompareNulls orders it, and for values
//                             the type represents cmp(a,b) equals the numeric
//                             comparison of the values after the type's own Convert.
//   Triple harnesses (a,b,c): transitivity (<=, <, =).
//   VerifC26CompareNulls:     NULL sorts before every non-NULL value.
//
// The oracle for "comparing the converted values" is a plain numeric comparison
// of the converted Go integers (c26Wide / c26Cmp), not Compare.

var c26ctx context.Context // nil: none of the kernels below touches it for integer inputs

const (
	c26Null = iota
	c26Int8
	c26Int16
	c26Int32
	c26Int64
	c26Int
	c26Uint8
	c26Uint16
	c26Uint32
	c26Uint64
	c26Uint
	c26NumKinds
)

// all kinds; c26Reps is the same set ordered so that a prefix is a
// representative subset where a second/third operand would multiply the path
// count: NULL, int64, the two kinds that do not fit int64 (uint64, uint), then
// a sign-extended and a zero-extended narrow kind, int, and the rest.
var c26All = []int{c26Null, c26Int8, c26Int16, c26Int32, c26Int64, c26Int, c26Uint8, c26Uint16, c26Uint32, c26Uint64, c26Uint}
var c26Reps = []int{c26Null, c26Int64, c26Uint64, c26Uint, c26Int8, c26Uint16, c26Int, c26Int16, c26Int32, c26Uint8, c26Uint32}

// c26Val returns NULL or a full-range symbolic payload of a Go integer kind
// selected (concretely) among the first n entries of set.
func c26Val(name string, set []int, n int) interface{} {
	switch set[nd.Pick(name+".kind", n)] {
	case c26Int8:
		return nd.Int8(name)
	case c26Int16:
		return nd.Int16(name)
	case c26Int32:
		return nd.Int32(name)
	case c26Int64:
		return nd.Int64(name)
	case c26Int:
		return nd.Int(name)
	case c26Uint8:
		return nd.Uint8(name)
	case c26Uint16:
		return nd.Uint16(name)
	case c26Uint32:
		return nd.Uint32(name)
	case c26Uint64:
		return nd.Uint64(name)
	case c26Uint:
		return nd.Uint(name)
	}
	return nil
}

// c26Wide widens a Go integer to (negative, two's-complement bits): the
// mathematical value is int64(bits) if negative, else bits as unsigned.
func c26Wide(v interface{}) (neg bool, bits uint64, ok bool) {
	switch x := v.(type) {
	case int8:
		return x < 0, uint64(int64(x)), true
	case int16:
		return x < 0, uint64(int64(x)), true
	case int32:
		return x < 0, uint64(int64(x)), true
	case int64:
		return x < 0, uint64(x), true
	case int:
		return x < 0, uint64(int64(x)), true
	case uint8:
		return false, uint64(x), true
	case uint16:
		return false, uint64(x), true
	case uint32:
		return false, uint64(x), true
	case uint64:
		return false, x, true
	case uint:
		return false, uint64(x), true
	case Timespan:
		return x < 0, uint64(int64(x)), true
	}
	return false, 0, false
}

// c26Cmp is the mathematical three-way comparison of two widened integers.
func c26Cmp(xn bool, xb uint64, yn bool, yb uint64) int {
	less := nd.Or(nd.And(xn, !yn), nd.And(xn == yn, xb < yb))
	greater := nd.Or(nd.And(!xn, yn), nd.And(xn == yn, xb > yb))
	r := 0
	if less {
		r = -1
	}
	if greater {
		r = 1
	}
	return r
}

// c26Pair: the two-operand laws of t.Compare and its agreement with t.Convert.
func c26Pair(id string, t sql.Type, a, b interface{}) {
	ab, eab := t.Compare(c26ctx, a, b)
	ba, eba := t.Compare(c26ctx, b, a)
	aa, eaa := t.Compare(c26ctx, a, a)
	nd.Reach(id)
	if eab != nil || eba != nil {
		// an operand the type rejects (YEAR, BIT): rejected in both orders
		nd.Assert(id+".error-symmetric", eab != nil && eba != nil)
		return
	}
	nd.Observe(ab, ba)
	nd.Assert(id+".range", nd.And(ab >= -1, ab <= 1))
	nd.Assert(id+".antisymmetric", ab == -ba)
	if eaa == nil {
		nd.Assert(id+".reflexive", aa == 0)
	}

	hasNull, nullRes := CompareNulls(a, b)
	nd.Assert(id+".null-detected", hasNull == (a == nil || b == nil))
	if hasNull {
		// the direction itself (NULL first) is VerifC26CompareNulls
		nd.Assert(id+".null-order-as-CompareNulls", ab == nullRes)
		return
	}

	// agreement with Convert, for values the type represents
	ca, ra, ea := t.Convert(c26ctx, a)
	cb, rb, eb := t.Convert(c26ctx, b)
	nd.Assert(id+".compared-values-convert", nd.And(ea == nil, eb == nil))
	if ea != nil || eb != nil {
		return
	}
	an, abits, aok := c26Wide(ca)
	bn, bbits, bok := c26Wide(cb)
	nd.Assert(id+".convert-kind", aok && bok)
	nd.Assert(id+".agrees-with-convert", nd.Implies(nd.And(ra == sql.InRange, rb == sql.InRange), ab == c26Cmp(an, abits, bn, bbits)))
}

// c26Triple: transitivity of t.Compare.
func c26Triple(id string, t sql.Type, a, b, c interface{}) {
	ab, eab := t.Compare(c26ctx, a, b)
	bc, ebc := t.Compare(c26ctx, b, c)
	ac, eac := t.Compare(c26ctx, a, c)
	nd.Reach(id)
	if eab != nil || ebc != nil || eac != nil {
		return
	}
	nd.Observe(ab, bc, ac)
	le := nd.And(ab <= 0, bc <= 0)
	nd.Assert(id+".transitive", nd.And(nd.Implies(le, ac <= 0),
		nd.And(nd.Implies(nd.And(le, nd.Or(ab < 0, bc < 0)), ac < 0),
			nd.Implies(nd.And(ab == 0, bc == 0), ac == 0))))
}

func c26NumberPair(id string, t sql.Type) {
	a := c26Val("a", c26All, len(c26All))
	b := c26Val("b", c26All, len(c26All))
	c26Pair(id, t, a, b)
}

func c26NumberTriple(id string, t sql.Type) {
	n := nd.Bound(7, len(c26Reps))
	a := c26Val("a", c26Reps, n)
	b := c26Val("b", c26Reps, n)
	c := c26Val("c", c26Reps, n)
	c26Triple(id, t, a, b, c)
}

func VerifC26PairInt8()   { c26NumberPair("c26.int8", Int8) }
func VerifC26PairInt16()  { c26NumberPair("c26.int16", Int16) }
func VerifC26PairInt24()  { c26NumberPair("c26.int24", Int24) }
func VerifC26PairInt32()  { c26NumberPair("c26.int32", Int32) }
func VerifC26PairInt64()  { c26NumberPair("c26.int64", Int64) }
func VerifC26PairUint8()  { c26NumberPair("c26.uint8", Uint8) }
func VerifC26PairUint16() { c26NumberPair("c26.uint16", Uint16) }
func VerifC26PairUint24() { c26NumberPair("c26.uint24", Uint24) }
func VerifC26PairUint32() { c26NumberPair("c26.uint32", Uint32) }
func VerifC26PairUint64() { c26NumberPair("c26.uint64", Uint64) }

func VerifC26TripleInt8()   { c26NumberTriple("c26.int8.triple", Int8) }
func VerifC26TripleInt16()  { c26NumberTriple("c26.int16.triple", Int16) }
func VerifC26TripleInt24()  { c26NumberTriple("c26.int24.triple", Int24) }
func VerifC26TripleInt32()  { c26NumberTriple("c26.int32.triple", Int32) }
func VerifC26TripleInt64()  { c26NumberTriple("c26.int64.triple", Int64) }
func VerifC26TripleUint8()  { c26NumberTriple("c26.uint8.triple", Uint8) }
func VerifC26TripleUint16() { c26NumberTriple("c26.uint16.triple", Uint16) }
func VerifC26TripleUint24() { c26NumberTriple("c26.uint24.triple", Uint24) }
func VerifC26TripleUint32() { c26NumberTriple("c26.uint32.triple", Uint32) }
func VerifC26TripleUint64() { c26NumberTriple("c26.uint64.triple", Uint64) }

// NULL sorts before every non-NULL value; two NULLs are equal in the order.
func VerifC26CompareNulls() {
	a := c26Val("a", c26All, len(c26All))
	b := c26Val("b", c26All, len(c26All))
	has, res := CompareNulls(a, b)
	nd.Reach("c26.nulls")
	nd.Observe(has, res)
	nd.Assert("c26.nulls.detected", has == (a == nil || b == nil))
	switch {
	case a == nil && b == nil:
		nd.Assert("c26.nulls.null-null-equal", res == 0)
	case a == nil:
		nd.Assert("c26.nulls.null-before-value", res == -1)
	case b == nil:
		nd.Assert("c26.nulls.value-after-null", res == 1)
	default:
		nd.Assert("c26.nulls.no-nulls", res == 0)
	}
}

// YEAR: every integer kind funnels into the int64 arm of Convert (4 accepting
// ranges + rejection), so the second operand is limited to NULL/int64/uint16.
var c26YearB = []int{c26Null, c26Int64, c26Uint16}

func VerifC26PairYear() {
	a := c26Val("a", c26All, len(c26All))
	b := c26Val("b", c26YearB, len(c26YearB))
	c26Pair("c26.year", YearType_{}, a, b)
}

func VerifC26TripleYear() {
	n := nd.Bound(2, 3)
	a := c26Val("a", c26YearB, n)
	b := c26Val("b", c26YearB, n)
	c := c26Val("c", c26YearB, n)
	c26Triple("c26.year.triple", YearType_{}, a, b, c)
}

// BIT(n), n symbolic in 1..64 (the constructor's range).
func c26BitType() sql.Type {
	n := nd.Uint8("bits")
	nd.Assume(nd.And(n >= BitTypeMinBits, n <= BitTypeMaxBits))
	return MustCreateBitType(n)
}

func VerifC26PairBit() {
	t := c26BitType()
	a := c26Val("a", c26All, len(c26All))
	b := c26Val("b", c26Reps, 4)
	c26Pair("c26.bit", t, a, b)
}

func VerifC26TripleBit() {
	t := c26BitType()
	n := nd.Bound(4, 7)
	a := c26Val("a", c26Reps, n)
	b := c26Val("b", c26Reps, n)
	c := c26Val("c", c26Reps, n)
	c26Triple("c26.bit.triple", t, a, b, c)
}

// TIME on Timespan values (the stored representation).
func c26Timespan(name string) interface{} {
	if nd.Pick(name+".null", 2) == 1 {
		return nil
	}
	return Timespan(nd.Int64(name))
}

func VerifC26PairTimespan() {
	c26Pair("c26.timespan", TimespanType_{}, c26Timespan("a"), c26Timespan("b"))
}

func VerifC26TripleTimespan() {
	c26Triple("c26.timespan.triple", TimespanType_{}, c26Timespan("a"), c26Timespan("b"), c26Timespan("c"))
}
