//go:build verif

package types

import (
	nd "github.com/dolthub/go-mysql-server/internal/zzverifnd"
)

// C31 (TIME unit arithmetic only): Timespan.Add / Subtract / Negate / Compare /
// Equals / AsMicroseconds and TimeType.MicrosecondsToTimespan.
//
// Reference: a TIME value is an integer number of microseconds in
// [-L, +L], L = 838:59:59.000000 = (838*3600 + 59*60 + 59) * 10^6 (MySQL's
// documented range). Sums are taken in the integers (no overflow is possible:
// |a|,|b| <= L < 2^42) and clamped to the nearest bound.
//
//	clamp            MicrosecondsToTimespan(v) = min(max(v,-L),L) for EVERY int64 v
//	add/sub          a.Add(b) = clamp(a+b), a.Subtract(b) = clamp(a-b); results stay in range
//	restore          a+b in range  =>  a.Add(b).Subtract(b) == a   (and the mirrored law)
//	negate           t.Negate() = -t, stays in range, t.Negate().Negate() == t
//	compare          a.Compare(b) is -1 / 0 / +1 exactly as a.AsMicroseconds() <,==,> b.AsMicroseconds();
//	                 Equals iff Compare == 0; the column type's Compare agrees
//
// Everything that involves time.Time (DATE_FORMAT / STR_TO_DATE, DATEDIFF,
// TIMESTAMPDIFF, interval arithmetic on dates, end-of-month clamping) is outside.

const c31L = (838*3600 + 59*60 + 59) * 1000000

func c31InRange(v int64) bool { return nd.And(v >= -c31L, v <= c31L) }

// c31Clamp: the reference clamp, by comparison.
func c31Clamp(v int64) int64 {
	r := v
	if v > c31L {
		r = c31L
	}
	if v < -c31L {
		r = -c31L
	}
	return r
}

// c31Span: a valid Timespan (the type's invariant: only valid values are created).
func c31Span(name string) Timespan {
	v := nd.Int64(name)
	nd.Assume(c31InRange(v))
	return Timespan(v)
}

func VerifC31MicrosecondsToTimespan() {
	v := nd.Int64("c31.clamp.v")
	t := Time.MicrosecondsToTimespan(v)
	nd.Reach("c31.clamp")
	nd.Observe(int64(t))
	nd.Assert("c31.clamp.in-range", c31InRange(int64(t)))
	nd.Assert("c31.clamp.identity-inside", nd.Implies(c31InRange(v), int64(t) == v))
	nd.Assert("c31.clamp.nearest-bound", int64(t) == c31Clamp(v))
	nd.Assert("c31.clamp.as-microseconds", t.AsMicroseconds() == c31Clamp(v))
}

func VerifC31Add() {
	a, b := c31Span("c31.add.a"), c31Span("c31.add.b")
	r := a.Add(b)
	nd.Reach("c31.add")
	nd.Observe(int64(r))
	sum := int64(a) + int64(b) // exact: |a|,|b| <= L < 2^42
	nd.Assert("c31.add.in-range", c31InRange(int64(r)))
	nd.Assert("c31.add.exact-when-representable", nd.Implies(c31InRange(sum), int64(r) == sum))
	nd.Assert("c31.add.clamped-to-nearest", int64(r) == c31Clamp(sum))
	nd.Assert("c31.add.commutative", b.Add(a) == r)
}

func VerifC31Subtract() {
	a, b := c31Span("c31.sub.a"), c31Span("c31.sub.b")
	r := a.Subtract(b)
	nd.Reach("c31.sub")
	nd.Observe(int64(r))
	diff := int64(a) - int64(b)
	nd.Assert("c31.sub.in-range", c31InRange(int64(r)))
	nd.Assert("c31.sub.exact-when-representable", nd.Implies(c31InRange(diff), int64(r) == diff))
	nd.Assert("c31.sub.clamped-to-nearest", int64(r) == c31Clamp(diff))
	nd.Assert("c31.sub.is-add-of-negation", r == a.Add(b.Negate()))
}

func VerifC31AddThenSubtractRestores() {
	a, b := c31Span("c31.restore.a"), c31Span("c31.restore.b")
	noClampAdd := c31InRange(int64(a) + int64(b))
	noClampSub := c31InRange(int64(a) - int64(b))
	r1 := a.Add(b).Subtract(b)
	r2 := a.Subtract(b).Add(b)
	nd.Reach("c31.restore")
	nd.Observe(int64(r1), int64(r2))
	nd.Assert("c31.restore.add-then-subtract", nd.Implies(noClampAdd, r1 == a))
	nd.Assert("c31.restore.subtract-then-add", nd.Implies(noClampSub, r2 == a))
	// with clamping the result is still a valid TIME
	nd.Assert("c31.restore.in-range", nd.And(c31InRange(int64(r1)), c31InRange(int64(r2))))
}

func VerifC31Negate() {
	t := c31Span("c31.neg.t")
	n := t.Negate()
	nd.Reach("c31.neg")
	nd.Observe(int64(n))
	nd.Assert("c31.neg.value", int64(n) == -int64(t))
	nd.Assert("c31.neg.in-range", c31InRange(int64(n)))
	nd.Assert("c31.neg.involution", n.Negate() == t)
	nd.Assert("c31.neg.add-cancels", t.Add(n) == 0)
}

func VerifC31Compare() {
	a, b := c31Span("c31.cmp.a"), c31Span("c31.cmp.b")
	c := a.Compare(b)
	nd.Reach("c31.cmp")
	nd.Observe(c)
	ua, ub := a.AsMicroseconds(), b.AsMicroseconds()
	nd.Assert("c31.cmp.as-microseconds-is-the-value", nd.And(ua == int64(a), ub == int64(b)))
	nd.Assert("c31.cmp.less", (c == -1) == (ua < ub))
	nd.Assert("c31.cmp.equal", (c == 0) == (ua == ub))
	nd.Assert("c31.cmp.greater", (c == 1) == (ua > ub))
	nd.Assert("c31.cmp.antisymmetric", b.Compare(a) == -c)
	nd.Assert("c31.cmp.equals", a.Equals(b) == (c == 0))
	// the column type compares stored values the same way
	tc, err := Time.Compare(nil, a, b)
	nd.Assert("c31.cmp.type-compare", nd.And(err == nil, tc == c))
}
