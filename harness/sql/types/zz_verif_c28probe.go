//go:build verif

package types

import (
	nd "github.com/dolthub/go-mysql-server/internal/zzverifnd"
)

func VerifC28ProbeA() {
	x := nd.Int32("v")
	nd.Assume(x < 0)
	s := 0
	if x < -5 {
		s = 1
	}
	nd.Reach("probe.a")
	nd.Observe(s)
}

func VerifC28ProbeB() {
	y := nd.Uint32("v")
	nd.Assume(y < 10)
	s := 0
	if y < 5 {
		s = 1
	}
	nd.Reach("probe.b")
	nd.Observe(s)
}
