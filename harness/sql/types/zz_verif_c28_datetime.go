//go:build verif

package types

import (
	"time"

	nd "github.com/dolthub/go-mysql-server/internal/zzverifnd"
	"github.com/dolthub/go-mysql-server/sql"
)

// C28 (DATE / DATETIME / TIMESTAMP part): the text a client receives for a stored
// temporal value is MySQL's canonical 'YYYY-MM-DD[ hh:mm:ss[.fff…]]' with exactly
// the column's number of fraction digits, is no longer than the announced
// maximum, and converts back into the column type to an equal value; in the other
// direction canonical text -> Convert -> SQL() is the identity on text.
//
// The reference text is composed digit by digit here; the calendar date and the
// time of day are chosen by concrete selectors (package time is interpreted from
// source: time.Parse with the package's layouts, Round, Truncate, Date, Clock).

type c28tStamp struct{ y, m, d, h, mi, s, us int }

func c28tLeap(y int) bool { return y%4 == 0 && (y%100 != 0 || y%400 == 0) }

func c28tMonthLen(y, m int) int {
	switch m {
	case 2:
		if c28tLeap(y) {
			return 29
		}
		return 28
	case 4, 6, 9, 11:
		return 30
	}
	return 31
}

func c28tDigits(b []byte, v, n int) []byte {
	var tmp [8]byte
	for i := n - 1; i >= 0; i-- {
		tmp[i] = byte('0' + v%10)
		v /= 10
	}
	return append(b, tmp[:n]...)
}

var c28tPow10 = [7]int{1, 10, 100, 1000, 10000, 100000, 1000000}

// text: canonical wire text; prec < 0 = DATE (no clock).
func (w c28tStamp) text(prec int) string {
	b := c28tDigits(nil, w.y, 4)
	b = append(b, '-')
	b = c28tDigits(b, w.m, 2)
	b = append(b, '-')
	b = c28tDigits(b, w.d, 2)
	if prec < 0 {
		return string(b)
	}
	b = append(b, ' ')
	b = c28tDigits(b, w.h, 2)
	b = append(b, ':')
	b = c28tDigits(b, w.mi, 2)
	b = append(b, ':')
	b = c28tDigits(b, w.s, 2)
	if prec > 0 {
		b = append(b, '.')
		b = c28tDigits(b, w.us/c28tPow10[6-prec], prec)
	}
	return string(b)
}

func c28tIs(v interface{}, w c28tStamp) bool {
	t, ok := v.(time.Time)
	if !ok {
		return false
	}
	return t.Year() == w.y && int(t.Month()) == w.m && t.Day() == w.d &&
		t.Hour() == w.h && t.Minute() == w.mi && t.Second() == w.s && t.Nanosecond() == w.us*1000
}

type c28tType struct {
	t    sql.DatetimeType
	prec int // -1: DATE
}

func c28tDateTypes() []c28tType {
	return []c28tType{{Date, -1}, {Datetime, 0}, {Datetime3, 3}, {DatetimeMaxPrecision, 6}}
}

func c28tStampTypes() []c28tType {
	return []c28tType{{Timestamp, 0}, {MustCreateDatetimeType(Timestamp.Type(), 3), 3}, {TimestampMaxPrecision, 6}}
}

// fit: w cut down to what the type can hold (fraction digits beyond the precision
// and, for DATE, the whole clock dropped).
func (w c28tStamp) fit(prec int) c28tStamp {
	if prec < 0 {
		return c28tStamp{y: w.y, m: w.m, d: w.d}
	}
	w.us -= w.us % c28tPow10[6-prec]
	return w
}

var c28tClocks = [...][4]int{{0, 0, 0, 0}, {23, 59, 59, 999999}, {12, 34, 56, 789012}, {1, 2, 3, 4000}, {9, 0, 7, 500000}}
var c28tDays = [...]int{1, 28, 29, 30, 31}

// c28tLaws: both round trips for one representable value w of type ty.
func c28tLaws(id string, ty c28tType, w c28tStamp) {
	want := w.text(ty.prec)
	v, flag, err := ty.t.Convert(nil, want)
	nd.Reach(id)
	nd.Assert(id+".text-accepted", err == nil && flag == sql.InRange)
	if err != nil {
		return
	}
	nd.Assert(id+".text-denotes-value", c28tIs(v, w))
	val, err2 := ty.t.SQL(nil, nil, v)
	nd.Assert(id+".sql-ok", err2 == nil)
	if err2 != nil {
		return
	}
	got := val.ToString()
	nd.Observe(got, want)
	nd.Assert(id+".max-length", uint32(len(got)) <= ty.t.MaxTextResponseByteLength(nil))
	nd.Assert(id+".canonical-text", got == want)
	back, flag3, err3 := ty.t.Convert(nil, got)
	nd.Assert(id+".roundtrip", err3 == nil && flag3 == sql.InRange && c28tIs(back, w))
	// a value built by the engine (time.Time in UTC) renders the same
	val4, err4 := ty.t.SQL(nil, nil, time.Date(w.y, time.Month(w.m), w.d, w.h, w.mi, w.s, w.us*1000, time.UTC))
	nd.Assert(id+".time-value-same-text", err4 == nil && val4.ToString() == want)
}

// DATE, DATETIME(0|3|6) on boundary dates x five times of day.
func VerifC28DatetimeRoundTrip() {
	years := []int{1000, 2000, 2024, 9999}
	months := []int{1, 2, 3, 12}
	if nd.Tier() == 1 {
		years = []int{1000, 1582, 1900, 1969, 1970, 1999, 2000, 2024, 2038, 2262, 9999}
		months = []int{1, 2, 3, 4, 10, 12}
	}
	y := years[nd.Pick("c28t.rt.y", len(years))]
	m := months[nd.Pick("c28t.rt.m", len(months))]
	d := c28tDays[nd.Pick("c28t.rt.d", len(c28tDays))]
	nd.Assume(d <= c28tMonthLen(y, m))
	c := c28tClocks[nd.Pick("c28t.rt.clock", len(c28tClocks))]
	tys := c28tDateTypes()
	ty := tys[nd.Pick("c28t.rt.type", len(tys))]
	c28tLaws("c28t.rt", ty, c28tStamp{y, m, d, c[0], c[1], c[2], c[3]}.fit(ty.prec))
}

var c28tStampMoments = [...]c28tStamp{
	{1970, 1, 1, 0, 0, 1, 0}, {1970, 1, 1, 0, 0, 1, 999999}, {1970, 1, 2, 0, 0, 0, 0},
	{2000, 2, 29, 12, 34, 56, 789012}, {2001, 9, 9, 1, 46, 40, 4000}, {2024, 12, 31, 23, 59, 59, 999999},
	{2038, 1, 19, 3, 14, 7, 0}, {2038, 1, 19, 3, 14, 7, 999999}, {2038, 1, 18, 23, 59, 59, 500000},
}

// TIMESTAMP(0|3|6) on the bounds of its range and moments inside.
func VerifC28TimestampRoundTrip() {
	w := c28tStampMoments[nd.Pick("c28t.ts.moment", len(c28tStampMoments))]
	tys := c28tStampTypes()
	ty := tys[nd.Pick("c28t.ts.type", len(tys))]
	c28tLaws("c28t.ts", ty, w.fit(ty.prec))
}

// The zero date round-trips as '0000-00-00[ 00:00:00[.0…]]'.
func VerifC28DatetimeZeroDate() {
	tys := append(c28tDateTypes(), c28tStampTypes()...)
	ty := tys[nd.Pick("c28t.zero.type", len(tys))]
	want := c28tStamp{}.text(ty.prec)
	v, _, err := ty.t.Convert(nil, want)
	nd.Reach("c28t.zero")
	nd.Assert("c28t.zero.accepted", err == nil)
	vt, ok := v.(time.Time)
	nd.Assert("c28t.zero.is-zero-value", ok && vt.Equal(ZeroTime))
	val, err2 := ty.t.SQL(nil, nil, v)
	nd.Assert("c28t.zero.canonical-text", err2 == nil && val.ToString() == want)
}

// Years 0001..0999 are accepted by every DATE / DATETIME type (Convert checks
// 0 <= year <= 9999); their text must still carry a four-digit year.
// Defect class (appendDateFormat, sql/types/datetime.go:529-534): the year is
// printed with strconv.AppendInt and not padded, so DATE '0999-12-31' goes out as
// '999-12-31', which the same type's Convert no longer accepts. Asserted under
// its own id, last on the path.
func VerifC28DatetimeEarlyYears() {
	years := [...]int{1, 99, 100, 999}
	y := years[nd.Pick("c28t.early.y", len(years))]
	tys := c28tDateTypes()
	ty := tys[nd.Pick("c28t.early.type", len(tys))]
	w := c28tStamp{y, 12, 31, 23, 59, 59, 0}.fit(ty.prec)
	want := w.text(ty.prec)
	v, _, err := ty.t.Convert(nil, want)
	nd.Reach("c28t.early")
	nd.Assert("c28t.early.accepted", err == nil && c28tIs(v, w))
	if err != nil {
		return
	}
	val, err2 := ty.t.SQL(nil, nil, v)
	nd.Assert("c28t.early.sql-ok", err2 == nil)
	nd.Observe(val.ToString(), want)
	nd.Assert("c28t.early.year-below-1000-four-digits", val.ToString() == want)
}
