//go:build verif

package types

import (
	"math"
	"strings"

	"github.com/cockroachdb/apd/v3"

	nd "github.com/dolthub/go-mysql-server/internal/zzverifnd"
	"github.com/dolthub/go-mysql-server/sql"
)

// C26, DECIMAL: DecimalType_.Compare is a consistent total order that equals the
// order of the exact values.
//
// Operands are decimal numerals assembled from concrete pieces (sign, integer
// part, fraction digits) by selectors and handed to Compare as a string or as
// an *apd.Decimal (apd/math-big are interpreted from source with
// "math_big": true; symbolic digits do not decide), or NULL. The reference
// compares the numerals as digit strings (sign, length of the integer part,
// digits, zero-padded fraction): no arithmetic, so 65-digit numerals are in the
// grid.
//
//   exact-order            cmp(a,b) = order of the exact values          (non-column types)
//   order-of-stored-values cmp(a,b) = order of the values rounded half away from zero
//                          to the column's scale: a column type compares what it
//                          would store                                    (column types)
//   range / antisymmetric / reflexive / transitive (triples)
//   NULL operand ordered exactly as CompareNulls orders it (the direction is
//   VerifC26CompareNulls, a known finding)
//   agrees-with-convert    for operands the type represents exactly, cmp(a,b) equals the
//                          order of the Convert results (read back as text)

var c26decN65 = strings.Repeat("9", 65)

var c26decInts = [...]string{"0", "1", "10", "9", "100", c26decN65, "1" + strings.Repeat("0", 64)}
var c26decFracs = [...]string{"", "5", "50", "005", "004", "0", "05", "995"}

type c26decNum struct {
	neg bool
	ip  string
	fp  string
}

func (n c26decNum) text() string {
	t := n.ip
	if n.fp != "" {
		t += "." + n.fp
	}
	if n.neg {
		t = "-" + t
	}
	return t
}

func c26decPickNum(tag string, nInts, nFracs int) c26decNum {
	var n c26decNum
	n.neg = nd.Pick(tag+".neg", 2) == 1
	n.ip = c26decInts[nd.Pick(tag+".int", nInts)]
	n.fp = c26decFracs[nd.Pick(tag+".frac", nFracs)]
	return n
}

// c26decPickVal: form 0 = NULL, 1 = the numeral as a string, 2 = as *apd.Decimal
// (forms limited to nForms).
func c26decPickVal(tag string, nForms, nInts, nFracs int) (interface{}, c26decNum, bool) {
	form := nd.Pick(tag+".form", nForms)
	if form == 0 {
		return nil, c26decNum{}, true
	}
	n := c26decPickNum(tag, nInts, nFracs)
	if form == 1 {
		return n.text(), n, false
	}
	d, _, err := apd.NewFromString(n.text())
	nd.Assume(err == nil)
	return d, n, false
}

func c26decIsZero(n c26decNum) bool { return strings.Trim(n.ip+n.fp, "0") == "" }

// c26decRound rounds the numeral half away from zero to s fraction digits, on the digits.
func c26decRound(n c26decNum, s int) c26decNum {
	if len(n.fp) <= s {
		return n
	}
	digits := []byte(n.ip + n.fp[:s])
	if n.fp[s] >= '5' {
		i := len(digits) - 1
		for ; i >= 0; i-- {
			if digits[i] == '9' {
				digits[i] = '0'
			} else {
				digits[i]++
				break
			}
		}
		if i < 0 {
			digits = append([]byte{'1'}, digits...)
		}
	}
	return c26decNum{neg: n.neg, ip: string(digits[:len(digits)-s]), fp: string(digits[len(digits)-s:])}
}

// c26decCmp: order of the exact values of two numerals.
func c26decCmp(a, b c26decNum) int {
	sa, sb := 1, 1
	if a.neg {
		sa = -1
	}
	if b.neg {
		sb = -1
	}
	if c26decIsZero(a) {
		sa = 0
	}
	if c26decIsZero(b) {
		sb = 0
	}
	if sa != sb {
		if sa < sb {
			return -1
		}
		return 1
	}
	if sa == 0 {
		return 0
	}
	ai, bi := strings.TrimLeft(a.ip, "0"), strings.TrimLeft(b.ip, "0")
	m := 0
	switch {
	case len(ai) != len(bi):
		m = -1
		if len(ai) > len(bi) {
			m = 1
		}
	case ai != bi:
		m = strings.Compare(ai, bi)
	default:
		af, bf := a.fp, b.fp
		for len(af) < len(bf) {
			af += "0"
		}
		for len(bf) < len(af) {
			bf += "0"
		}
		m = strings.Compare(af, bf)
	}
	return m * sa
}

// c26decParse reads a fixed-point text ("-12.50") back into a numeral.
func c26decParse(t string) c26decNum {
	var n c26decNum
	if strings.HasPrefix(t, "-") {
		n.neg = true
		t = t[1:]
	}
	n.ip = t
	if i := strings.IndexByte(t, '.'); i >= 0 {
		n.ip, n.fp = t[:i], t[i+1:]
	}
	return n
}

// c26decRepresentable: the numeral is a value of DECIMAL(p,s) without rounding.
func c26decRepresentable(n c26decNum, p, s int) bool {
	return len(strings.TrimRight(n.fp, "0")) <= s && len(strings.TrimLeft(n.ip, "0")) <= p-s
}

func c26decPair(id string, t sql.DecimalType, column bool, a, b interface{}, an, bn c26decNum) {
	ab, eab := t.Compare(c26ctx, a, b)
	ba, eba := t.Compare(c26ctx, b, a)
	aa, eaa := t.Compare(c26ctx, a, a)
	nd.Reach(id)
	nd.Observe(ab, ba, aa)
	nd.Assert(id+".no-error", eab == nil && eba == nil && eaa == nil)
	if eab != nil || eba != nil || eaa != nil {
		return
	}
	nd.Assert(id+".range", ab >= -1 && ab <= 1)
	nd.Assert(id+".antisymmetric", ab == -ba)
	nd.Assert(id+".reflexive", aa == 0)

	hasNull, nullRes := CompareNulls(a, b)
	nd.Assert(id+".null-detected", hasNull == (a == nil || b == nil))
	if hasNull {
		nd.Assert(id+".null-order-as-CompareNulls", ab == nullRes)
		return
	}
	p, s := int(t.Precision()), int(t.Scale())
	if column {
		nd.Assert(id+".order-of-stored-values", ab == c26decCmp(c26decRound(an, s), c26decRound(bn, s)))
	} else {
		nd.Assert(id+".exact-order", ab == c26decCmp(an, bn))
	}
	if !c26decRepresentable(an, p, s) || !c26decRepresentable(bn, p, s) {
		return
	}
	ca, ra, ea := t.Convert(c26ctx, a)
	cb, rb, eb := t.Convert(c26ctx, b)
	nd.Assert(id+".compared-values-convert", ea == nil && eb == nil && ra == sql.InRange && rb == sql.InRange)
	da, aok := ca.(*apd.Decimal)
	db, bok := cb.(*apd.Decimal)
	nd.Assert(id+".convert-kind", aok && bok)
	if ea != nil || eb != nil || !aok || !bok {
		return
	}
	nd.Assert(id+".agrees-with-convert", ab == c26decCmp(c26decParse(da.Text('f')), c26decParse(db.Text('f'))))
}

// c26decTypes: the non-column types compared on.
func c26decNonColumnType(tag string) sql.DecimalType {
	if nd.Pick(tag, 2) == 1 {
		return InternalDecimalType
	}
	return MustCreateDecimalType(10, 2)
}

// VerifC26PairDecimal: DECIMAL(10,2) (not a column type) and InternalDecimalType
// (65,30), the type GetCompareType hands to comparisons.
func VerifC26PairDecimal() {
	ni, nf := nd.Bound(3, len(c26decInts)), nd.Bound(5, len(c26decFracs))
	a, an, _ := c26decPickVal("c26dec.a", 3, ni, nf)
	b, bn, _ := c26decPickVal("c26dec.b", 2, ni, nf)
	c26decPair("c26.decimal", c26decNonColumnType("c26dec.type"), false, a, b, an, bn)
}

// VerifC26PairDecimalColumn: the column type DECIMAL(10,2).
func VerifC26PairDecimalColumn() {
	ni, nf := nd.Bound(3, len(c26decInts)), nd.Bound(5, len(c26decFracs))
	a, an, _ := c26decPickVal("c26deccol.a", 3, ni, nf)
	b, bn, _ := c26decPickVal("c26deccol.b", 2, ni, nf)
	c26decPair("c26.decimal-column", MustCreateColumnDecimalType(10, 2), true, a, b, an, bn)
}

func c26decTripleVals(tag string) (a, b, c interface{}) {
	ni, nf := nd.Bound(2, 4), nd.Bound(3, 5)
	a, _, _ = c26decPickVal(tag+".a", 2, ni, nf)
	b, _, _ = c26decPickVal(tag+".b", 2, ni, nf)
	c, _, _ = c26decPickVal(tag+".c", 2, ni, nf)
	return
}

// Transitivity over triples of NULL / numerals (strings).
func VerifC26TripleDecimal() {
	a, b, c := c26decTripleVals("c26dec3")
	c26Triple("c26.decimal.triple", MustCreateDecimalType(10, 2), a, b, c)
}

func VerifC26TripleDecimalColumn() {
	a, b, c := c26decTripleVals("c26deccol3")
	c26Triple("c26.decimal-column.triple", MustCreateColumnDecimalType(10, 2), a, b, c)
}

// Other Go operand kinds under a DECIMAL type: concrete integers of every
// kind, floats, bool and []byte against grid numerals, both orders.
type c26decKindSample struct {
	v interface{}
	n c26decNum
}

func c26decKindSamples() []c26decKindSample {
	return []c26decKindSample{
		{int8(-128), c26decNum{true, "128", ""}},
		{int16(300), c26decNum{false, "300", ""}},
		{int32(-70000), c26decNum{true, "70000", ""}},
		{int64(math.MaxInt64), c26decNum{false, "9223372036854775807", ""}},
		{int64(math.MinInt64), c26decNum{true, "9223372036854775808", ""}},
		{int(10), c26decNum{false, "10", ""}},
		{uint8(255), c26decNum{false, "255", ""}},
		{uint16(9), c26decNum{false, "9", ""}},
		{uint32(math.MaxUint32), c26decNum{false, "4294967295", ""}},
		{uint64(math.MaxUint64), c26decNum{false, "18446744073709551615", ""}},
		{uint(1), c26decNum{false, "1", ""}},
		{float32(0.5), c26decNum{false, "0", "5"}},
		{float64(-2.25), c26decNum{true, "2", "25"}},
		{float64(1e3), c26decNum{false, "1000", ""}},
		{float64(0.005), c26decNum{false, "0", "005"}},
		{true, c26decNum{false, "1", ""}},
		{false, c26decNum{false, "0", ""}},
		{[]byte("1.50"), c26decNum{false, "1", "50"}},
		{[]byte("-10"), c26decNum{true, "10", ""}},
	}
}

func VerifC26DecimalOperandKinds() {
	ks := c26decKindSamples()
	k := ks[nd.Pick("c26deckind.sample", len(ks))]
	b := c26decPickNum("c26deckind.b", nd.Bound(4, len(c26decInts)), nd.Bound(5, len(c26decFracs)))
	t := c26decNonColumnType("c26deckind.type")
	ab, e1 := t.Compare(c26ctx, k.v, b.text())
	ba, e2 := t.Compare(c26ctx, b.text(), k.v)
	kk, e3 := t.Compare(c26ctx, k.v, k.v)
	nd.Reach("c26.decimal.kinds")
	nd.Observe(ab, ba, kk)
	nd.Assert("c26.decimal.kinds.no-error", e1 == nil && e2 == nil && e3 == nil)
	if e1 != nil || e2 != nil || e3 != nil {
		return
	}
	nd.Assert("c26.decimal.kinds.reflexive", kk == 0)
	nd.Assert("c26.decimal.kinds.antisymmetric", ab == -ba)
	nd.Assert("c26.decimal.kinds.exact-order", ab == c26decCmp(k.n, b))
}
