//go:build verif

package types

import (
	"context"
	"math"

	nd "github.com/dolthub/go-mysql-server/internal/zzverifnd"
	"github.com/dolthub/go-mysql-server/sql"
)

// C44 (value-conversion kernels of system variables): SET validates the value
// and converts it to the variable's type, rejecting invalid values.
//
// The types are built with their real constructors from symbolic bounds
// lo <= hi; the value is a full-range symbolic payload of a Go integer kind
// chosen by a concrete selector, with mathematical value m kept as
// (negative, two's-complement bits), m in [-2^63, 2^64).
//   accepted (err == nil)  <=>  lo <= m <= hi  (or m == -1 where the type allows it)
//   accepted  =>  the stored value has the type's Go kind and equals m, flag InRange
//   rejected  =>  no value
// The oracle compares the widened value with the bounds; it never converts it.

var c44ctx context.Context // nil: never read by these kernels

const (
	c44Int8 = iota
	c44Int16
	c44Int32
	c44Int64
	c44Int
	c44Uint8
	c44Uint16
	c44Uint32
	c44Uint64
	c44Uint
	c44NumKinds
)

// c44Src returns a symbolic integer of the selected kind and its mathematical value.
func c44Src(name string) (v interface{}, neg bool, bits uint64) {
	switch nd.Pick(name+".kind", c44NumKinds) {
	case c44Int8:
		x := nd.Int8(name)
		return x, x < 0, uint64(int64(x))
	case c44Int16:
		x := nd.Int16(name)
		return x, x < 0, uint64(int64(x))
	case c44Int32:
		x := nd.Int32(name)
		return x, x < 0, uint64(int64(x))
	case c44Int64:
		x := nd.Int64(name)
		return x, x < 0, uint64(x)
	case c44Int:
		x := nd.Int(name)
		return x, x < 0, uint64(int64(x))
	case c44Uint8:
		x := nd.Uint8(name)
		return x, false, uint64(x)
	case c44Uint16:
		x := nd.Uint16(name)
		return x, false, uint64(x)
	case c44Uint32:
		x := nd.Uint32(name)
		return x, false, uint64(x)
	case c44Uint64:
		x := nd.Uint64(name)
		return x, false, x
	}
	x := nd.Uint(name)
	return x, false, uint64(x)
}

// Integer system variable with range [lo,hi] and optional extra value -1.
func VerifC44SysInt() {
	lo, hi := nd.Int64("lo"), nd.Int64("hi")
	nd.Assume(lo <= hi)
	negOne := nd.Bool("negativeOne")
	t := NewSystemIntType("verif_var", lo, hi, negOne)
	v, neg, bits := c44Src("v")
	r, flag, err := t.Convert(c44ctx, v)
	nd.Reach("c44.int")
	nd.Observe(r, int(flag), err != nil)

	fitsInt64 := nd.Or(neg, bits <= math.MaxInt64) // m is an int64 value; then m == int64(bits)
	within := nd.And(fitsInt64, nd.And(int64(bits) >= lo, int64(bits) <= hi))
	minusOne := nd.And(negOne, nd.And(neg, bits == math.MaxUint64))
	allowed := nd.Or(within, minusOne)
	if err != nil {
		nd.Assert("c44.int.valid-value-accepted", !allowed)
		nd.Assert("c44.int.rejected-no-value", r == nil)
		return
	}
	nd.Assert("c44.int.accepted-only-if-in-range", allowed)
	s, ok := r.(int64)
	nd.Assert("c44.int.kind", ok)
	nd.Assert("c44.int.stored-equals-input", nd.And(flag == sql.InRange, nd.And(fitsInt64, s == int64(bits))))
}

// Unsigned system variable with range [lo,hi].
func VerifC44SysUint() {
	lo, hi := nd.Uint64("lo"), nd.Uint64("hi")
	nd.Assume(lo <= hi)
	t := NewSystemUintType("verif_var", lo, hi)
	v, neg, bits := c44Src("v")
	r, flag, err := t.Convert(c44ctx, v)
	nd.Reach("c44.uint")
	nd.Observe(r, int(flag), err != nil)

	allowed := nd.And(!neg, nd.And(bits >= lo, bits <= hi))
	if err != nil {
		nd.Assert("c44.uint.valid-value-accepted", !allowed)
		nd.Assert("c44.uint.rejected-no-value", r == nil)
		return
	}
	nd.Assert("c44.uint.accepted-only-if-in-range", allowed)
	s, ok := r.(uint64)
	nd.Assert("c44.uint.kind", ok)
	nd.Assert("c44.uint.stored-equals-input", nd.And(flag == sql.InRange, nd.And(!neg, s == bits)))
}

// Boolean system variable: integers 0 and 1 (and Go bools) only.
func VerifC44SysBool() {
	t := NewSystemBoolType("verif_var")
	var v interface{}
	var neg bool
	var bits uint64
	if nd.Pick("bool", 2) == 1 {
		b := nd.Bool("b")
		v = b
		if b {
			bits = 1
		}
	} else {
		v, neg, bits = c44Src("v")
	}
	r, flag, err := t.Convert(c44ctx, v)
	nd.Reach("c44.bool")
	nd.Observe(r, int(flag), err != nil)

	allowed := nd.And(!neg, bits <= 1)
	if err != nil {
		nd.Assert("c44.bool.valid-value-accepted", !allowed)
		nd.Assert("c44.bool.rejected-no-value", r == nil)
		return
	}
	nd.Assert("c44.bool.accepted-only-if-0-or-1", allowed)
	s, ok := r.(int8)
	nd.Assert("c44.bool.kind", ok)
	nd.Assert("c44.bool.stored-equals-input", nd.And(flag == sql.InRange, nd.And(s >= 0, uint64(s) == bits)))
}

// Enum system variable addressed by index: 0 <= m < number of values.
func VerifC44SysEnum() {
	all := []string{"OFF", "ON", "DEMAND", "FORCE"}
	k := nd.IntRange("k", 1, nd.Bound(3, 4))
	t := NewSystemEnumType("verif_var", all[:k]...)
	v, neg, bits := c44Src("v")
	r, flag, err := t.Convert(c44ctx, v)
	nd.Reach("c44.enum")
	nd.Observe(r, int(flag), err != nil)

	allowed := nd.And(!neg, bits < uint64(k))
	if err != nil {
		nd.Assert("c44.enum.valid-index-accepted", !allowed)
		nd.Assert("c44.enum.rejected-no-value", r == nil)
		return
	}
	nd.Assert("c44.enum.accepted-only-if-index-in-range", allowed)
	s, ok := r.(string)
	nd.Assert("c44.enum.kind", ok)
	want := ""
	for i := 0; i < k; i++ {
		if bits == uint64(i) {
			want = all[i]
		}
	}
	nd.Assert("c44.enum.stored-is-indexed-value", nd.And(flag == sql.InRange, s == want))
}
