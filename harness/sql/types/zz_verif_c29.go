//go:build verif

package types

import (
	"unicode/utf8"

	"github.com/dolthub/vitess/go/sqltypes"

	nd "github.com/dolthub/go-mysql-server/internal/zzverifnd"
	"github.com/dolthub/go-mysql-server/sql"
)

// C29: collation comparison (StringType.Compare) is a total preorder coherent
// with the collation's weight string (CollationID.WriteWeightString) and hash
// (CollationID.HashToUint).
//
// What the code does (sql/types/strings.go Compare, sql/collations.go): both
// walk the string rune by rune (charset encoder NextRune: utf8.DecodeRune for
// every charset except binary, one byte per "rune" for binary) and map each
// rune through the SAME function collationArray[c].Sorter. Compare orders
// lexicographically by weight and then by remaining length; the weight string
// is the concatenation of the 4-byte little-endian weights (raw bytes for the
// binary collation). Neither function looks at the collation's PAD attribute:
// 'a' and 'a ' are different under every collation here, including the PAD
// SPACE ones (utf8mb4_general_ci, latin1_swedish_ci, utf8mb4_bin). The oracle
// below therefore states NO PAD semantics; trailing-space insensitivity is not
// part of the property and is outside the claim.

const (
	c29Binary = iota
	c29U8Bin0900
	c29U8Bin
	c29Latin1SwedishCI
	c29U8GeneralCI
	c29NumColl
)

var c29CollIDs = [...]sql.CollationID{
	sql.Collation_binary,
	sql.Collation_utf8mb4_0900_bin,
	sql.Collation_utf8mb4_bin,
	sql.Collation_latin1_swedish_ci,
	sql.Collation_utf8mb4_general_ci,
}

func c29Type(coll int) StringType {
	if coll == c29Binary {
		return MustCreateBinary(sqltypes.VarBinary, 32).(StringType)
	}
	return MustCreateString(sqltypes.VarChar, 32, c29CollIDs[coll]).(StringType)
}

// c29Str is a string together with its code points (for the oracle).
type c29Str struct {
	s   string
	cps []rune
}

// multi-byte code points mixed into symbolic strings: 2-byte (e-acute, its
// upper case), 3-byte, 4-byte.
var c29Alpha = [...]rune{0xE9, 0xC9, 0x800, 0x10000}

// c29String: 0..maxLen characters; each character is a symbolic ASCII byte or,
// if nAlpha > 0, one of the first nAlpha code points of c29Alpha (concrete
// selector).
func c29String(name string, maxLen int, nAlpha int) c29Str {
	n := nd.IntRange(name+".len", 0, maxLen)
	var bs []byte
	cps := make([]rune, 0, n)
	for i := 0; i < n; i++ {
		si := string(rune('0' + i))
		k := 0
		if nAlpha > 0 {
			k = nd.Pick(name+".k"+si, 1+nAlpha)
		}
		if k == 0 {
			b := nd.Uint8(name + "." + si)
			nd.Assume(b < 0x80)
			bs = append(bs, b)
			cps = append(cps, rune(b))
		} else {
			bs = utf8.AppendRune(bs, c29Alpha[k-1])
			cps = append(cps, c29Alpha[k-1])
		}
	}
	return c29Str{string(bs), cps}
}

// concrete strings for the non-symbolic operands under the table-driven
// collations (see c29Operand).
var c29Concrete = [...]string{"", "a", "A", "b", "a ", "aB", "Ab", "é", "É", "aé", "\x00", "~"}

// c29Operand: the i-th operand (i = 0 first). Under latin1_swedish_ci and
// utf8mb4_general_ci the weight function is a Go map (257 / ~1900 entries) and
// a lookup with a symbolic key is an if-then-else chain over all entries; the
// solver decides queries with one such operand, not with two or three. So only
// operand 0 is symbolic under these collations; the others are concrete.
func c29Operand(name string, coll int, i int, maxLen int, nAlpha int, nConcrete int) c29Str {
	if i > 0 && (coll == c29Latin1SwedishCI || coll == c29U8GeneralCI) {
		s := c29Concrete[nd.Pick(name+".c", nConcrete)]
		return c29Str{s, []rune(s)}
	}
	return c29String(name, maxLen, nAlpha)
}

// c29Sink collects what WriteWeightString writes.
type c29Sink struct{ b []byte }

func (w *c29Sink) Write(p []byte) (int, error) {
	w.b = append(w.b, p...)
	return len(p), nil
}

func c29Weights(coll int, s string) ([]byte, error) {
	w := &c29Sink{}
	err := c29CollIDs[coll].WriteWeightString(w, s)
	return w.b, err
}

func c29BytesEqual(a, b []byte) bool {
	if len(a) != len(b) {
		return false
	}
	eq := true
	for i := range a {
		eq = nd.And(eq, a[i] == b[i])
	}
	return eq
}

// c29CodePointOrder: three-way lexicographic comparison of code point
// sequences, shorter first on a common prefix.
func c29CodePointOrder(a, b []rune) int {
	n := len(a)
	if len(b) < n {
		n = len(b)
	}
	r := 0
	for i := n - 1; i >= 0; i-- {
		x, y := a[i], b[i]
		if x < y {
			r = -1
		}
		if x > y {
			r = 1
		}
	}
	if r == 0 {
		if len(a) < len(b) {
			r = -1
		}
		if len(a) > len(b) {
			r = 1
		}
	}
	return r
}

// VerifC29PairLaws: for two strings: Compare is reflexive and antisymmetric,
// never fails, returns -1/0/1; Compare == 0 exactly when the weight strings are
// byte-equal, exactly when (xxhash injective) HashToUint is equal; under the
// binary collations the order is the code point order.
func VerifC29PairLaws() {
	coll := nd.Pick("coll", c29NumColl)
	typ := c29Type(coll)
	maxLen := nd.Bound(2, 3)
	nAlpha := nd.Bound(2, 4)
	a := c29Operand("a", coll, 0, maxLen, nAlpha, 0)
	b := c29Operand("b", coll, 1, maxLen, nAlpha, len(c29Concrete))
	ab, e1 := typ.Compare(nil, a.s, b.s)
	ba, e2 := typ.Compare(nil, b.s, a.s)
	aa, e3 := typ.Compare(nil, a.s, a.s)
	wa, e4 := c29Weights(coll, a.s)
	wb, e5 := c29Weights(coll, b.s)
	ha, e6 := c29CollIDs[coll].HashToUint(a.s)
	hb, e7 := c29CollIDs[coll].HashToUint(b.s)
	nd.Reach("c29.pair")
	nd.Assert("c29.pair.no-error", nd.And(nd.And(e1 == nil, e2 == nil), nd.And(nd.And(e3 == nil, e4 == nil), nd.And(e5 == nil, nd.And(e6 == nil, e7 == nil)))))
	nd.Assert("c29.pair.result-is-sign", nd.And(ab >= -1, ab <= 1))
	nd.Assert("c29.pair.reflexive", aa == 0)
	nd.Assert("c29.pair.antisymmetric", ab == -ba)
	weq := c29BytesEqual(wa, wb)
	nd.Assert("c29.pair.equal-iff-same-weight-string", (ab == 0) == weq)
	nd.Assert("c29.pair.equal-iff-same-hash", (ab == 0) == (ha == hb))
	if coll <= c29U8Bin {
		nd.Assert("c29.pair.binary-is-code-point-order", ab == c29CodePointOrder(a.cps, b.cps))
	}
}

// VerifC29Transitive: for three strings: a <= b and b <= c imply a <= c, with
// equality only if both are equalities (so < is transitive and = is an
// equivalence compatible with the order).
func VerifC29Transitive() {
	coll := nd.Pick("coll", c29NumColl)
	typ := c29Type(coll)
	maxLen := nd.Bound(2, 3)
	a := c29Operand("a", coll, 0, maxLen, 0, 0)
	b := c29Operand("b", coll, 1, maxLen, 0, nd.Bound(7, len(c29Concrete)))
	c := c29Operand("c", coll, 2, maxLen, 0, nd.Bound(7, len(c29Concrete)))
	ab, e1 := typ.Compare(nil, a.s, b.s)
	bc, e2 := typ.Compare(nil, b.s, c.s)
	ac, e3 := typ.Compare(nil, a.s, c.s)
	nd.Reach("c29.transitive")
	nd.Assert("c29.transitive.no-error", nd.And(e1 == nil, nd.And(e2 == nil, e3 == nil)))
	le := nd.And(ab <= 0, bc <= 0)
	nd.Assert("c29.transitive.le", nd.Implies(le, ac <= 0))
	nd.Assert("c29.transitive.lt", nd.Implies(nd.And(le, nd.Or(ab < 0, bc < 0)), ac < 0))
	nd.Assert("c29.transitive.eq", nd.Implies(nd.And(ab == 0, bc == 0), ac == 0))
}

// VerifC29CaseVariants: the case-insensitive collations equate strings that
// differ only in the case of ASCII letters: a string of 1..3 characters (each a
// letter chosen by a concrete selector, or a symbolic non-letter ASCII byte)
// against the same string with the case of every letter flipped according to
// a concrete mask.
func VerifC29CaseVariants() {
	coll := [...]int{c29Latin1SwedishCI, c29U8GeneralCI}[nd.Pick("coll", 2)]
	typ := c29Type(coll)
	n := nd.IntRange("len", 1, nd.Bound(2, 3))
	x := make([]byte, n)
	y := make([]byte, n)
	letters := 0
	for i := 0; i < n; i++ {
		si := string(rune('0' + i))
		// position 0 enumerates the alphabet; later positions a few letters or a
		// symbolic non-letter (identical in both strings)
		var k int
		if i == 0 {
			k = 1 + nd.Pick("letter"+si, 26)
		} else {
			k = [...]int{0, 1, 13, 26}[nd.Pick("letter"+si, 4)]
		}
		if k == 0 {
			b := nd.Uint8("other" + si)
			nd.Assume(b < 0x80)
			nd.Assume(nd.Or(b < 'A', nd.Or(nd.And(b > 'Z', b < 'a'), b > 'z')))
			x[i], y[i] = b, b
			continue
		}
		letters++
		lower := byte('a' + k - 1)
		switch nd.Pick("case"+si, 3) {
		case 0:
			x[i], y[i] = lower, lower-32
		case 1:
			x[i], y[i] = lower-32, lower
		default:
			x[i], y[i] = lower, lower
		}
	}
	xy, e1 := typ.Compare(nil, string(x), string(y))
	hx, e2 := c29CollIDs[coll].HashToUint(string(x))
	hy, e3 := c29CollIDs[coll].HashToUint(string(y))
	nd.Reach("c29.case")
	nd.Assert("c29.case.no-error", nd.And(e1 == nil, nd.And(e2 == nil, e3 == nil)))
	nd.Assert("c29.case.variants-compare-equal", xy == 0)
	nd.Assert("c29.case.variants-same-hash", hx == hy)
}

// VerifC29BinaryCodePointBoundaries: binary collations order single code
// points, and two-character strings made of them, by code point, on the
// boundaries of the UTF-8 length classes and of the surrogate gap (concrete
// values; complements the symbolic ASCII space of VerifC29PairLaws).
func VerifC29BinaryCodePointBoundaries() {
	coll := nd.Pick("coll", 3) // binary, utf8mb4_0900_bin, utf8mb4_bin
	typ := c29Type(coll)
	pts := [...]rune{0x00, 0x7F, 0x80, 0x7FF, 0x800, 0xD7FF, 0xE000, 0xE001, 0xFFFD, 0xFFFF, 0x10000, 0x10FFFF}
	p := pts[nd.Pick("p", len(pts))]
	q := pts[nd.Pick("q", len(pts))]
	var a, b []rune
	switch nd.Pick("shape", 3) {
	case 0:
		a, b = []rune{p}, []rune{q}
	case 1:
		a, b = []rune{'x', p}, []rune{'x', q}
	default:
		a, b = []rune{p}, []rune{p, q}
	}
	ab, e1 := typ.Compare(nil, string(a), string(b))
	wa, e2 := c29Weights(coll, string(a))
	wb, e3 := c29Weights(coll, string(b))
	nd.Reach("c29.binary-boundaries")
	nd.Assert("c29.binary-boundaries.no-error", e1 == nil && e2 == nil && e3 == nil)
	nd.Assert("c29.binary-boundaries.code-point-order", ab == c29CodePointOrder(a, b))
	nd.Assert("c29.binary-boundaries.equal-iff-same-weight-string", (ab == 0) == c29BytesEqual(wa, wb))
}
