//go:build verif

package types

import (
	"math"

	nd "github.com/dolthub/go-mysql-server/internal/zzverifnd"
)

// C52 (codec part): the WKB / EWKB parsers of sql/types never crash, and
// Deserialize(Serialize(g)) == g bit for bit.
//
// (i) Parsers. The input is a buffer of symbolic bytes (length forked over the
// structurally interesting sizes), a symbolic byte order flag and a symbolic
// SRID. A reference walker written from the WKB format definition (not from the
// parsers) classifies the buffer:
//
//	complete   every count / type field is followed by all the bytes it promises
//	           (trailing bytes after the geometry are allowed);
//	truncated  some count or element header promises more bytes than the buffer has;
//	invalid    an inner element carries a type code its container does not allow.
//
// and records the coordinate bit patterns and element counts it met. Laws:
//
//	no-crash          no input makes a parser panic (reported by the executor by itself)
//	<t>.exact         complete, err == nil  =>  consumed length, every element count, every
//	                  coordinate (compared through math.Float64bits) and every SRID are
//	                  what the bytes denote
//	<t>.invalid       invalid    =>  err != nil
//	<t>.truncated     truncated  =>  err != nil            (own harness per parser: a
//	                  recorded defect of this class must not mask the other inputs)
//
// A parser may reject a complete buffer (minimum-size rules): that is not asserted.
// Every count field the walker reads is assumed <= a per-harness bound (c52Ref.max for
// containers, c52Ref.maxPts for the points of a linestring / ring):
// the executor enumerates make() sizes only up to 64, and natively an unchecked
// count of 0xFFFFFFFF makes the parsers allocate ~100 GiB before they look at
// the buffer.
//
// (ii) Round trip: Point, LineString, Polygon, MultiPoint built from opaque
// 64-bit float patterns and a symbolic SRID.

const (
	c52Complete = iota
	c52Truncated
	c52Invalid
)

// c52U32 / c52U64: definition of the two byte orders (no fork: both readings are
// computed and one is selected).
func c52U32(b []byte, big bool) uint32 {
	le := uint32(b[0]) | uint32(b[1])<<8 | uint32(b[2])<<16 | uint32(b[3])<<24
	be := uint32(b[3]) | uint32(b[2])<<8 | uint32(b[1])<<16 | uint32(b[0])<<24
	v := le
	if big {
		v = be
	}
	return v
}

func c52U64(b []byte, big bool) uint64 {
	// unrolled: the executor's unwind bound counts loop-header visits per path
	le := uint64(b[0]) | uint64(b[1])<<8 | uint64(b[2])<<16 | uint64(b[3])<<24 |
		uint64(b[4])<<32 | uint64(b[5])<<40 | uint64(b[6])<<48 | uint64(b[7])<<56
	be := uint64(b[7]) | uint64(b[6])<<8 | uint64(b[5])<<16 | uint64(b[4])<<24 |
		uint64(b[3])<<32 | uint64(b[2])<<40 | uint64(b[1])<<48 | uint64(b[0])<<56
	v := le
	if big {
		v = be
	}
	return v
}

// c52Ref: what the walker (or the flattening of a parsed value) met, in order.
type c52Ref struct {
	xs, ys []uint64 // coordinate bit patterns
	shape  []int    // element counts
	max    int      // walker only: assumed bound of every container count field
	maxPts int      // walker only: assumed bound of every linestring point count
}

// count reads the count field b[0:4] (len(b) >= 4 checked by the caller),
// bounds it and returns it as a concrete int. room < 0: no fit test; otherwise
// a count above room is reported as not fitting (one path for all such values).
func (r *c52Ref) count(b []byte, big bool, room int) (int, bool) {
	c := c52U32(b, big)
	max := r.max
	if room >= 0 {
		max = r.maxPts
	}
	nd.Assume(c <= uint32(max))
	if room >= 0 && room < max {
		if c > uint32(room) {
			return 0, false
		}
		max = room
	}
	for i := 0; i < max; i++ {
		if c == uint32(i) {
			return i, true
		}
	}
	return max, true
}

// walk: the reference reading of WKB data of (concrete) type typ at b.
func (r *c52Ref) walk(typ uint32, b []byte, big bool) (int, int) {
	switch typ {
	case WKBPointID:
		if len(b) < 16 {
			return 0, c52Truncated
		}
		r.xs = append(r.xs, c52U64(b[0:8], big))
		r.ys = append(r.ys, c52U64(b[8:16], big))
		return 16, c52Complete
	case WKBLineID:
		if len(b) < 4 {
			return 0, c52Truncated
		}
		k, fits := r.count(b, big, (len(b)-4)/16)
		if !fits {
			return 0, c52Truncated
		}
		r.shape = append(r.shape, k)
		off := 4
		for i := 0; i < k; i++ {
			r.walk(WKBPointID, b[off:off+16], big)
			off += 16
		}
		return off, c52Complete
	case WKBPolyID:
		if len(b) < 4 {
			return 0, c52Truncated
		}
		n, _ := r.count(b, big, -1)
		r.shape = append(r.shape, n)
		off := 4
		for i := 0; i < n; i++ {
			c, st := r.walk(WKBLineID, b[off:], big)
			if st != c52Complete {
				return 0, st
			}
			off += c
		}
		return off, c52Complete
	case WKBMultiPointID, WKBMultiLineID, WKBMultiPolyID, WKBGeomCollID:
		if len(b) < 4 {
			return 0, c52Truncated
		}
		n, _ := r.count(b, big, -1)
		r.shape = append(r.shape, n)
		off := 4
		for i := 0; i < n; i++ {
			if len(b)-off < 5 {
				return 0, c52Truncated
			}
			ebig := b[off] == 0
			etyp := c52U32(b[off+1:off+5], ebig)
			off += 5
			want := uint32(0)
			switch typ {
			case WKBMultiPointID:
				want = WKBPointID
			case WKBMultiLineID:
				want = WKBLineID
			case WKBMultiPolyID:
				want = WKBPolyID
			default: // collection: any of the seven types
				for t := uint32(WKBPointID); t <= WKBGeomCollID; t++ {
					if etyp == t {
						want = t
						break
					}
				}
			}
			if want == 0 || etyp != want {
				return 0, c52Invalid
			}
			c, st := r.walk(want, b[off:], ebig)
			if st != c52Complete {
				return 0, st
			}
			off += c
		}
		return off, c52Complete
	}
	return 0, c52Invalid
}

// flatten a parsed value the same way; reports whether every SRID is srid.
func (r *c52Ref) flatten(g GeometryValue, srid uint32) bool {
	ok := true
	switch v := g.(type) {
	case Point:
		r.xs = append(r.xs, math.Float64bits(v.X))
		r.ys = append(r.ys, math.Float64bits(v.Y))
		ok = v.SRID == srid
	case LineString:
		r.shape = append(r.shape, len(v.Points))
		ok = v.SRID == srid
		for _, p := range v.Points {
			ok = nd.And(ok, r.flatten(p, srid))
		}
	case Polygon:
		r.shape = append(r.shape, len(v.Lines))
		ok = v.SRID == srid
		for _, l := range v.Lines {
			ok = nd.And(ok, r.flatten(l, srid))
		}
	case MultiPoint:
		r.shape = append(r.shape, len(v.Points))
		ok = v.SRID == srid
		for _, p := range v.Points {
			ok = nd.And(ok, r.flatten(p, srid))
		}
	case MultiLineString:
		r.shape = append(r.shape, len(v.Lines))
		ok = v.SRID == srid
		for _, l := range v.Lines {
			ok = nd.And(ok, r.flatten(l, srid))
		}
	case MultiPolygon:
		r.shape = append(r.shape, len(v.Polygons))
		ok = v.SRID == srid
		for _, p := range v.Polygons {
			ok = nd.And(ok, r.flatten(p, srid))
		}
	case GeomColl:
		r.shape = append(r.shape, len(v.Geoms))
		ok = v.SRID == srid
		for _, e := range v.Geoms {
			ok = nd.And(ok, r.flatten(e, srid))
		}
	default:
		ok = false
	}
	return ok
}

func c52SameShape(a, b *c52Ref) bool {
	if len(a.shape) != len(b.shape) || len(a.xs) != len(b.xs) || len(a.ys) != len(b.ys) {
		return false
	}
	for i := range a.shape {
		if a.shape[i] != b.shape[i] {
			return false
		}
	}
	return true
}

func c52SameCoords(a, b *c52Ref) bool {
	same := true
	for i := range a.xs {
		same = nd.And(same, nd.And(a.xs[i] == b.xs[i], a.ys[i] == b.ys[i]))
	}
	return same
}

// c52Parse: the real parser for typ.
func c52Parse(typ uint32, b []byte, big bool, srid uint32) (GeometryValue, int, error) {
	switch typ {
	case WKBPointID:
		return DeserializePoint(b, big, srid)
	case WKBLineID:
		return DeserializeLine(b, big, srid)
	case WKBPolyID:
		return DeserializePoly(b, big, srid)
	case WKBMultiPointID:
		return DeserializeMPoint(b, big, srid)
	case WKBMultiLineID:
		return DeserializeMLine(b, big, srid)
	case WKBMultiPolyID:
		return DeserializeMPoly(b, big, srid)
	}
	return DeserializeGeomColl(b, big, srid)
}

const (
	c52NotTruncated = iota // complete and invalid buffers
	c52OnlyTruncated
	c52AllClasses
)

func c52Check(id string, typ uint32, class int, lens []int, maxCount, maxPts int) {
	// nd names are unique per harness
	pfx := id + [...]string{".c.", ".t.", ".a."}[class]
	n := lens[nd.Pick(pfx+"nSel", len(lens))]
	buf := nd.Bytes(pfx+"buf", n)
	big := nd.Bool(pfx + "isBig")
	srid := nd.Uint32(pfx + "srid")

	want := c52Ref{max: maxCount, maxPts: maxPts}
	wantLen, st := want.walk(typ, buf, big)
	if class == c52NotTruncated {
		nd.Assume(st != c52Truncated)
	} else if class == c52OnlyTruncated {
		nd.Assume(st == c52Truncated)
	}

	g, c, err := c52Parse(typ, buf, big, srid)
	nd.Reach(id)
	nd.Observe(n, c, err == nil)

	switch st {
	case c52Truncated:
		nd.Assert(id+".truncated-rejected", err != nil)
	case c52Invalid:
		nd.Assert(id+".invalid-rejected", err != nil)
	default:
		if err == nil {
			var got c52Ref
			sridOK := got.flatten(g, srid)
			nd.Assert(id+".exact.consumed", c == wantLen)
			nd.Assert(id+".exact.shape", c52SameShape(&got, &want))
			nd.Assert(id+".exact.srid", sridOK)
			nd.Assert(id+".exact.coordinates", c52SameCoords(&got, &want))
		}
	}
}

// ---- headers ----------------------------------------------------------------

func VerifC52HeaderEWKB() {
	n := [...]int{0, 1, 4, 5, 8, 9, 10, 25}[nd.Pick("c52.ewkb.nSel", 8)]
	buf := nd.Bytes("c52.ewkb.buf", n)
	srid, big, typ, err := DeserializeEWKBHeader(buf)
	nd.Reach("c52.header.ewkb")
	nd.Observe(n, srid, big, typ, err == nil)
	// nine bytes are a header; fewer cannot be one
	nd.Assert("c52.header.ewkb.accepted-iff-9-bytes", (err == nil) == (n >= 9))
	if err == nil {
		nd.Assert("c52.header.ewkb.srid", srid == c52U32(buf[0:4], false))
		nd.Assert("c52.header.ewkb.byte-order", big == (buf[4] == 0))
		nd.Assert("c52.header.ewkb.type", typ == c52U32(buf[5:9], buf[4] == 0))
	}
}

func VerifC52HeaderWKB() {
	n := [...]int{0, 1, 4, 5, 6, 21}[nd.Pick("c52.wkb.nSel", 6)]
	buf := nd.Bytes("c52.wkb.buf", n)
	big, typ, err := DeserializeWKBHeader(buf)
	nd.Reach("c52.header.wkb")
	nd.Observe(n, big, typ, err == nil)
	nd.Assert("c52.header.wkb.accepted-iff-5-bytes", (err == nil) == (n >= 5))
	if err == nil {
		nd.Assert("c52.header.wkb.byte-order", big == (buf[0] == 0))
		nd.Assert("c52.header.wkb.type", typ == c52U32(buf[1:5], buf[0] == 0))
	}
}

// ---- parsers ----------------------------------------------------------------

var (
	c52PointLens = []int{0, 1, 8, 15, 16, 17, 24, 32}
	// count(4) + k*16
	c52LineLens = []int{0, 3, 4, 20, 35, 36, 37, 51, 52, 68}
	// count(4) + rings; a ring is count(4) + k*16; the parser wants >= 72
	c52PolyLens = []int{0, 4, 8, 71, 72, 73, 76, 88}
	// count(4) + k*(header(5)+16); the parser wants >= 25
	c52MPointLens = []int{0, 4, 9, 24, 25, 26, 30, 45, 46, 50, 51}
	// count(4) + lines; a line is header(5) + count(4) + k*16; the parser wants >= 45
	c52MLineLens = []int{0, 4, 44, 45, 46, 54, 61, 86}
	// count(4) + polygons; a polygon is header(5) + count(4) + rings; the parser wants >= 81
	c52MPolyLens = []int{0, 4, 80, 81, 97}
	// count(4) + elements; an element is header(5) + data
	c52CollLens = []int{0, 3, 4, 9, 13, 24, 25, 30}
)

// a point has no count field: one harness for every class.
func VerifC52ParsePoint() {
	c52Check("c52.point", WKBPointID, c52AllClasses, c52PointLens, 0, 0)
}

func VerifC52ParseLine() {
	c52Check("c52.line", WKBLineID, c52NotTruncated, c52LineLens, 0, nd.Bound(4, 8))
}
func VerifC52ParseLineTruncated() {
	c52Check("c52.line", WKBLineID, c52OnlyTruncated, c52LineLens, 0, nd.Bound(4, 8))
}

func VerifC52ParsePoly() {
	c52Check("c52.poly", WKBPolyID, c52NotTruncated, c52PolyLens, nd.Bound(3, 4), nd.Bound(3, 5))
}
func VerifC52ParsePolyTruncated() {
	c52Check("c52.poly", WKBPolyID, c52OnlyTruncated, c52PolyLens, nd.Bound(3, 4), nd.Bound(3, 5))
}

func VerifC52ParseMPoint() {
	c52Check("c52.mpoint", WKBMultiPointID, c52NotTruncated, c52MPointLens, nd.Bound(4, 8), 0)
}
func VerifC52ParseMPointTruncated() {
	c52Check("c52.mpoint", WKBMultiPointID, c52OnlyTruncated, c52MPointLens, nd.Bound(4, 8), 0)
}

func VerifC52ParseMLine() {
	c52Check("c52.mline", WKBMultiLineID, c52NotTruncated, c52MLineLens, nd.Bound(3, 4), nd.Bound(3, 5))
}
func VerifC52ParseMLineTruncated() {
	c52Check("c52.mline", WKBMultiLineID, c52OnlyTruncated, c52MLineLens, nd.Bound(3, 4), nd.Bound(3, 5))
}

func VerifC52ParseMPoly() {
	c52Check("c52.mpoly", WKBMultiPolyID, c52NotTruncated, c52MPolyLens, nd.Bound(2, 3), nd.Bound(3, 4))
}
func VerifC52ParseMPolyTruncated() {
	c52Check("c52.mpoly", WKBMultiPolyID, c52OnlyTruncated, c52MPolyLens, nd.Bound(2, 3), nd.Bound(3, 4))
}

func VerifC52ParseGeomColl() {
	c52Check("c52.geomcoll", WKBGeomCollID, c52NotTruncated, c52CollLens, nd.Bound(2, 3), nd.Bound(3, 3))
}
func VerifC52ParseGeomCollTruncated() {
	c52Check("c52.geomcoll", WKBGeomCollID, c52OnlyTruncated, c52CollLens, nd.Bound(2, 3), nd.Bound(3, 3))
}

// ---- round trip ---------------------------------------------------------------

func c52Name(p string, i int) string { return p + string(rune('0'+i)) }

func c52Pt(name string, srid uint32) Point {
	return Point{SRID: srid, X: math.Float64frombits(nd.Uint64(name + "x")), Y: math.Float64frombits(nd.Uint64(name + "y"))}
}

func c52Pts(name string, k int, srid uint32) []Point {
	ps := make([]Point, k)
	for i := range ps {
		ps[i] = c52Pt(c52Name(name, i), srid)
	}
	return ps
}

// c52RoundTrip: g -> Serialize -> (EWKB header, data parser) and -> GeometryType.Convert.
func c52RoundTrip(id string, typ uint32, g GeometryValue, srid uint32) {
	buf := g.Serialize()
	var want c52Ref
	want.flatten(g, srid)

	hsrid, big, htyp, herr := DeserializeEWKBHeader(buf)
	nd.Assert(id+".header", nd.And(herr == nil, nd.And(hsrid == srid, nd.And(!big, htyp == typ))))
	if herr != nil {
		return
	}
	back, c, err := c52Parse(htyp, buf[EWKBHeaderSize:], big, hsrid)
	nd.Reach(id)
	nd.Observe(buf, c, err == nil)
	nd.Assert(id+".parses", err == nil)
	if err == nil {
		var got c52Ref
		sridOK := got.flatten(back, srid)
		nd.Assert(id+".consumed-all", c == len(buf)-EWKBHeaderSize)
		nd.Assert(id+".shape", c52SameShape(&got, &want))
		nd.Assert(id+".srid", sridOK)
		nd.Assert(id+".coordinates", c52SameCoords(&got, &want))
	}

	// the path a stored value takes: GEOMETRY column, value as bytes
	v, _, err2 := GeometryType{}.Convert(nil, buf)
	nd.Assert(id+".convert.parses", err2 == nil)
	if err2 == nil {
		gv, isGeom := v.(GeometryValue)
		nd.Assert(id+".convert.kind", isGeom)
		if isGeom {
			var got c52Ref
			sridOK := got.flatten(gv, srid)
			nd.Assert(id+".convert.shape", c52SameShape(&got, &want))
			nd.Assert(id+".convert.srid", sridOK)
			nd.Assert(id+".convert.coordinates", c52SameCoords(&got, &want))
		}
	}
}

func VerifC52RoundTripPoint() {
	srid := nd.Uint32("c52.rt.point.srid")
	c52RoundTrip("c52.roundtrip.point", WKBPointID, c52Pt("c52.rt.point.p", srid), srid)
}

func VerifC52RoundTripLine() {
	srid := nd.Uint32("c52.rt.line.srid")
	k := nd.IntRange("c52.rt.line.k", 2, nd.Bound(3, 5))
	c52RoundTrip("c52.roundtrip.line", WKBLineID, LineString{SRID: srid, Points: c52Pts("c52.rt.line.p", k, srid)}, srid)
}

func VerifC52RoundTripPoly() {
	srid := nd.Uint32("c52.rt.poly.srid")
	rings := nd.IntRange("c52.rt.poly.rings", 1, 2)
	lines := make([]LineString, rings)
	for i := range lines {
		lines[i] = LineString{SRID: srid, Points: c52Pts(c52Name("c52.rt.poly.r", i)+".", 4, srid)}
	}
	c52RoundTrip("c52.roundtrip.poly", WKBPolyID, Polygon{SRID: srid, Lines: lines}, srid)
}

func VerifC52RoundTripMPoint() {
	srid := nd.Uint32("c52.rt.mpoint.srid")
	k := nd.IntRange("c52.rt.mpoint.k", 1, nd.Bound(2, 4))
	c52RoundTrip("c52.roundtrip.mpoint", WKBMultiPointID, MultiPoint{SRID: srid, Points: c52Pts("c52.rt.mpoint.p", k, srid)}, srid)
}
