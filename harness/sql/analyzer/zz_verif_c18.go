//go:build verif

package analyzer

import (
	"context"
	"errors"
	"io"
	"strconv"

	nd "github.com/dolthub/go-mysql-server/internal/zzverifnd"
	"github.com/dolthub/go-mysql-server/memory"
	"github.com/dolthub/go-mysql-server/sql"
	"github.com/dolthub/go-mysql-server/sql/plan"
	"github.com/dolthub/go-mysql-server/sql/types"
)

// C18: foreign keys keep referential integrity.
//
// What runs for real: the analyzer's editor-graph construction
// (getForeignKeyReferences / getForeignKeyEditor / getForeignKeyRefActions, the
// three entry points applyForeignKeysToNodes uses for INSERT / UPDATE / DELETE,
// with foreignKeyCache and foreignKeyChain), plan.ForeignKeyHandler,
// plan.ForeignKeyEditor (Update / Delete / OnUpdate* / OnDelete* /
// ColumnsUpdated), plan.ForeignKeyReferenceHandler.CheckReference,
// plan.ForeignKeyRowMapper.GetIter, sql.TableRowIter, and the statement protocol
// of plan.TableEditorIter (StatementBegin, then StatementComplete or
// DiscardChanges on every updater of the chain).
//
// What is a test double: storage. A table is a slice of rows with the schema
// (k BIGINT NOT NULL UNIQUE, r BIGINT NULL), an index on each column, immediate
// edits (an index lookup sees every earlier edit of the statement, as the
// in-memory backend guarantees by applying pending edits before a lookup), a
// lookup result that is a snapshot, and StatementBegin / DiscardChanges that
// snapshot / restore the rows. The catalog is never consulted: every table is
// entered into the foreignKeyCache beforehand (what GetUpdater would do on a miss).

// ---- storage doubles ---------------------------------------------------------------

var (
	c18ErrNoRow       = errors.New("c18: row to delete/update is not in the table")
	c18ErrLookupShape = errors.New("c18: index lookup is not a single closed point range")
	c18ErrRowShape    = errors.New("c18: row does not fit the schema")
)

type c18Table struct {
	name       string
	sch        sql.Schema
	rows       []sql.Row
	snap       []sql.Row
	idxs       []sql.Index
	declared   []sql.ForeignKeyConstraint
	referenced []sql.ForeignKeyConstraint

	begun, discarded, completed int
	edits                       int // successful Insert / Update / Delete calls
	badLookup                   bool
}

var _ sql.ForeignKeyTable = (*c18Table)(nil)
var _ sql.ForeignKeyEditor = (*c18Table)(nil)

func c18NewTable(name string) *c18Table {
	t := &c18Table{name: name}
	t.sch = sql.Schema{
		{Name: "k", Type: types.Int64, Source: name, Nullable: false, PrimaryKey: true},
		{Name: "r", Type: types.Int64, Source: name, Nullable: true},
	}
	t.idxs = []sql.Index{
		&c18Index{tbl: t, id: "PRIMARY", col: 0, unique: true},
		&c18Index{tbl: t, id: "idx_r", col: 1},
	}
	return t
}

func c18CopyRows(rows []sql.Row) []sql.Row {
	out := make([]sql.Row, len(rows))
	for i, r := range rows {
		out[i] = r.Copy()
	}
	return out
}

func c18CellEq(a, b interface{}) bool {
	if a == nil || b == nil {
		return a == nil && b == nil
	}
	x, ok1 := a.(int64)
	y, ok2 := b.(int64)
	return ok1 && ok2 && x == y
}

func (t *c18Table) find(row sql.Row) int {
	if len(row) != 2 {
		return -1
	}
	for i, r := range t.rows {
		if c18CellEq(r[0], row[0]) && c18CellEq(r[1], row[1]) {
			return i
		}
	}
	return -1
}

func c18RowOk(row sql.Row) bool {
	if len(row) != 2 || row[0] == nil {
		return false
	}
	if _, ok := row[0].(int64); !ok {
		return false
	}
	if row[1] != nil {
		if _, ok := row[1].(int64); !ok {
			return false
		}
	}
	return true
}

// keyTaken: some row other than row number except has the key k.
func (t *c18Table) keyTaken(k interface{}, except int) bool {
	for i, r := range t.rows {
		if i != except && c18CellEq(r[0], k) {
			return true
		}
	}
	return false
}

// sql.Table
func (t *c18Table) Name() string                   { return t.name }
func (t *c18Table) String() string                 { return t.name }
func (t *c18Table) Schema(*sql.Context) sql.Schema { return t.sch }
func (t *c18Table) Collation() sql.CollationID     { return sql.Collation_Default }
func (t *c18Table) Partitions(*sql.Context) (sql.PartitionIter, error) {
	return &c18PartIter{part: &c18Part{rows: c18CopyRows(t.rows)}}, nil
}
func (t *c18Table) PartitionRows(_ *sql.Context, p sql.Partition) (sql.RowIter, error) {
	return sql.RowsToRowIter(p.(*c18Part).rows...), nil
}

// sql.IndexAddressable
func (t *c18Table) IndexedAccess(_ *sql.Context, lookup sql.IndexLookup) sql.IndexedTable {
	return &c18Access{c18Table: t}
}
func (t *c18Table) GetIndexes(*sql.Context) ([]sql.Index, error) { return t.idxs, nil }
func (t *c18Table) PreciseMatch() bool                           { return true }

// sql.ForeignKeyTable
func (t *c18Table) CreateIndexForForeignKey(*sql.Context, sql.IndexDef) error { return nil }
func (t *c18Table) GetDeclaredForeignKeys(*sql.Context) ([]sql.ForeignKeyConstraint, error) {
	return t.declared, nil
}
func (t *c18Table) GetReferencedForeignKeys(*sql.Context) ([]sql.ForeignKeyConstraint, error) {
	return t.referenced, nil
}
func (t *c18Table) AddForeignKey(*sql.Context, sql.ForeignKeyConstraint) error { return nil }
func (t *c18Table) DropForeignKey(*sql.Context, string, string, string) error  { return nil }
func (t *c18Table) UpdateForeignKey(*sql.Context, string, sql.ForeignKeyConstraint) error {
	return nil
}
func (t *c18Table) GetForeignKeyEditor(*sql.Context) sql.ForeignKeyEditor { return t }

// sql.TableEditor
func (t *c18Table) StatementBegin(*sql.Context) {
	t.begun++
	t.snap = c18CopyRows(t.rows)
}
func (t *c18Table) DiscardChanges(_ *sql.Context, err error) error {
	t.discarded++
	if _, ignorable := err.(sql.IgnorableError); !ignorable {
		t.rows = c18CopyRows(t.snap)
	}
	return nil
}
func (t *c18Table) StatementComplete(*sql.Context) error { t.completed++; return nil }
func (t *c18Table) Close(*sql.Context) error             { return nil }

func (t *c18Table) Insert(_ *sql.Context, row sql.Row) error {
	if !c18RowOk(row) {
		return c18ErrRowShape
	}
	if t.keyTaken(row[0], -1) {
		return sql.NewUniqueKeyErr("[k]", true, row)
	}
	t.rows = append(t.rows, row.Copy())
	t.edits++
	return nil
}

func (t *c18Table) Delete(_ *sql.Context, row sql.Row) error {
	i := t.find(row)
	if i < 0 {
		return c18ErrNoRow
	}
	rows := make([]sql.Row, 0, len(t.rows)-1)
	rows = append(rows, t.rows[:i]...)
	rows = append(rows, t.rows[i+1:]...)
	t.rows = rows
	t.edits++
	return nil
}

func (t *c18Table) Update(_ *sql.Context, old, new sql.Row) error {
	if !c18RowOk(new) {
		return c18ErrRowShape
	}
	i := t.find(old)
	if i < 0 {
		return c18ErrNoRow
	}
	if t.keyTaken(new[0], i) {
		return sql.NewUniqueKeyErr("[k]", true, new)
	}
	t.rows[i] = new.Copy()
	t.edits++
	return nil
}

// c18Access is the table restricted to an index lookup.
type c18Access struct{ *c18Table }

func (a *c18Access) LookupPartitions(_ *sql.Context, lookup sql.IndexLookup) (sql.PartitionIter, error) {
	idx, ok := lookup.Index.(*c18Index)
	if !ok || idx.tbl != a.c18Table {
		a.badLookup = true
		return nil, c18ErrLookupShape
	}
	rc, ok := lookup.Ranges.(sql.MySQLRangeCollection)
	if !ok || len(rc) != 1 || len(rc[0]) != 1 {
		a.badLookup = true
		return nil, c18ErrLookupShape
	}
	lo, ok1 := rc[0][0].LowerBound.(sql.Below)
	hi, ok2 := rc[0][0].UpperBound.(sql.Above)
	if !ok1 || !ok2 {
		a.badLookup = true
		return nil, c18ErrLookupShape
	}
	lk, ok1 := lo.Key.(int64)
	hk, ok2 := hi.Key.(int64)
	if !ok1 || !ok2 || lk != hk {
		a.badLookup = true
		return nil, c18ErrLookupShape
	}
	var hits []sql.Row
	for _, r := range a.rows {
		if v, isInt := r[idx.col].(int64); isInt && v == lk {
			hits = append(hits, r.Copy())
		}
	}
	return &c18PartIter{part: &c18Part{rows: hits}}, nil
}

type c18Part struct{ rows []sql.Row }

func (*c18Part) Key() []byte { return []byte("0") }

type c18PartIter struct {
	part *c18Part
	done bool
}

func (p *c18PartIter) Next(*sql.Context) (sql.Partition, error) {
	if p.done {
		return nil, io.EOF
	}
	p.done = true
	return p.part, nil
}
func (p *c18PartIter) Close(*sql.Context) error { return nil }

type c18Index struct {
	tbl    *c18Table
	id     string
	col    int
	unique bool
}

func (i *c18Index) ID() string       { return i.id }
func (i *c18Index) Database() string { return "db" }
func (i *c18Index) Table() string    { return i.tbl.name }
func (i *c18Index) Expressions() []string {
	return []string{i.tbl.name + "." + i.tbl.sch[i.col].Name}
}
func (i *c18Index) IsUnique() bool          { return i.unique }
func (i *c18Index) IsSpatial() bool         { return false }
func (i *c18Index) IsFullText() bool        { return false }
func (i *c18Index) IsVector() bool          { return false }
func (i *c18Index) Comment() string         { return "" }
func (i *c18Index) IndexType() string       { return "BTREE" }
func (i *c18Index) IsGenerated() bool       { return false }
func (i *c18Index) PrefixLengths() []uint16 { return nil }
func (i *c18Index) ColumnExpressionTypes(*sql.Context) []sql.ColumnExpressionType {
	return []sql.ColumnExpressionType{{Expression: i.Expressions()[0], Type: types.Int64}}
}
func (i *c18Index) CanSupport(*sql.Context, ...sql.Range) bool { return true }
func (i *c18Index) CanSupportOrderBy(sql.Expression) bool      { return false }
func (i *c18Index) CoversColumns([]string) bool                { return false }

// c18Session: only what the wiring asks of a session.
type c18Session struct{ sql.Session }

func (c18Session) GetCurrentDatabase() string { return "db" }
func (c18Session) GetSessionVariable(*sql.Context, string) (interface{}, error) {
	return nil, errors.New("c18: no system variables")
}

func c18Ctx() *sql.Context {
	return &sql.Context{Context: context.Background(), Session: c18Session{}}
}

// ---- the in-memory backend as storage --------------------------------------------------

// c18Mem is a real memory.Table (k BIGINT PRIMARY KEY, r BIGINT NULL, KEY idx_r (r))
// used through the table's own editor, indexes and session.
type c18Mem struct {
	t   *memory.Table
	bad bool
}

// c18Store is a table of the fixture: the double or the in-memory table.
type c18Store interface {
	fkTable() sql.ForeignKeyTable
	load(ctx *sql.Context, rows []c18Row) bool
	dump(ctx *sql.Context) ([]c18Row, bool)
	sound() bool
	// ended: the statement protocol reached this table consistently with the outcome
	// (begin, then exactly one of complete / discard); a table the statement edited took part in it
	ended(failed bool) bool
	began() bool
}

func (t *c18Table) fkTable() sql.ForeignKeyTable { return t }
func (t *c18Table) load(_ *sql.Context, rows []c18Row) bool {
	for _, m := range rows {
		t.rows = append(t.rows, m.row())
	}
	return true
}
func (t *c18Table) dump(*sql.Context) ([]c18Row, bool) { return c18FromRows(t.rows) }
func (t *c18Table) sound() bool                        { return !t.badLookup }
func (t *c18Table) began() bool                        { return t.begun == 1 }
func (t *c18Table) ended(failed bool) bool {
	if t.begun == 0 {
		// a table outside the statement's updaters must not have been edited:
		// nobody would roll it back or complete it
		return t.completed == 0 && t.discarded == 0 && t.edits == 0
	}
	if failed {
		return t.begun == 1 && t.discarded == 1 && t.completed == 0
	}
	return t.begun == 1 && t.discarded == 0 && t.completed == 1
}

func (m *c18Mem) fkTable() sql.ForeignKeyTable { return m.t }
func (m *c18Mem) load(ctx *sql.Context, rows []c18Row) bool {
	for _, r := range rows {
		if err := m.t.Insert(ctx, r.row()); err != nil {
			return false
		}
	}
	return true
}
func (m *c18Mem) dump(ctx *sql.Context) ([]c18Row, bool) {
	pi, err := m.t.Partitions(ctx)
	if err != nil {
		return nil, false
	}
	rows, err := sql.RowIterToRows(ctx, sql.NewTableRowIter(ctx, m.t, pi))
	if err != nil {
		return nil, false
	}
	return c18FromRows(rows)
}
func (m *c18Mem) sound() bool     { return !m.bad }
func (m *c18Mem) began() bool     { return true }
func (m *c18Mem) ended(bool) bool { return true }

// ---- fixture ----------------------------------------------------------------------------

// c18Env is one fixture: storage kind, context, prefix of the input names and
// assertion ids.
type c18Env struct {
	pre    string
	mem    bool
	ctx    *sql.Context
	db     *memory.Database
	stores map[string]c18Store
}

// c18Doubles: storage doubles, inputs are full-range symbolic values.
func c18Doubles(pre string) *c18Env {
	return &c18Env{pre: pre, ctx: c18Ctx(), stores: map[string]c18Store{}}
}

// c18MemDomain: keys and references of the in-memory fixture are drawn from 0..c18MemDomain-1.
const c18MemDomain = 3

// c18Memory: real in-memory tables in a real session; inputs are concrete selectors.
func c18Memory(pre string) *c18Env {
	db := memory.NewDatabase("db")
	sess := memory.NewSession(sql.NewBaseSession(), sql.NewDatabaseProvider(db))
	ctx := sql.NewContext(context.Background(), sql.WithSession(sess))
	return &c18Env{pre: pre, mem: true, ctx: ctx, db: db, stores: map[string]c18Store{}}
}

func (e *c18Env) id(s string) string { return e.pre + "." + s }

func (e *c18Env) table(name string) c18Store {
	var s c18Store
	if !e.mem {
		s = c18NewTable(name)
	} else {
		sch := sql.NewPrimaryKeySchema(sql.Schema{
			{Name: "k", Type: types.Int64, Source: name, Nullable: false, PrimaryKey: true},
			{Name: "r", Type: types.Int64, Source: name, Nullable: true},
		})
		t := memory.NewTable(e.ctx, e.db, name, sch, e.db.GetForeignKeyCollection())
		e.db.AddTable(name, t)
		m := &c18Mem{t: t}
		if err := t.CreateIndex(e.ctx, sql.IndexDef{Name: "idx_r", Columns: []sql.IndexColumn{{Name: "r"}}, Constraint: sql.IndexConstraint_None}); err != nil {
			m.bad = true
		}
		s = m
	}
	e.stores[name] = s
	return s
}

const (
	c18Default = iota // no action given
	c18Restrict
	c18NoAction
	c18Cascade
	c18SetNull
	c18NumActions
)

func c18Action(a int) sql.ForeignKeyReferentialAction {
	switch a {
	case c18Restrict:
		return sql.ForeignKeyReferentialAction_Restrict
	case c18NoAction:
		return sql.ForeignKeyReferentialAction_NoAction
	case c18Cascade:
		return sql.ForeignKeyReferentialAction_Cascade
	case c18SetNull:
		return sql.ForeignKeyReferentialAction_SetNull
	}
	return sql.ForeignKeyReferentialAction_DefaultAction
}

func c18Restricts(a int) bool { return a != c18Cascade && a != c18SetNull }

// link declares FOREIGN KEY name (child.r) REFERENCES parent (parentCol).
func (e *c18Env) link(name, child, parent, parentCol string, onUpdate, onDelete int) {
	fk := sql.ForeignKeyConstraint{
		Name: name, Database: "db", Table: child, Columns: []string{"r"},
		ParentDatabase: "db", ParentTable: parent, ParentColumns: []string{parentCol},
		OnUpdate: c18Action(onUpdate), OnDelete: c18Action(onDelete), IsResolved: true,
	}
	if e.mem {
		m := e.stores[child].(*c18Mem)
		if err := m.t.AddForeignKey(e.ctx, fk); err != nil {
			m.bad = true
		}
		return
	}
	c, p := e.stores[child].(*c18Table), e.stores[parent].(*c18Table)
	c.declared = append(c.declared, fk)
	p.referenced = append(p.referenced, fk)
}

const (
	c18Insert = iota
	c18Update
	c18Delete
)

// wire builds the handler for one statement on the table the way
// applyForeignKeysToNodes does for plan.InsertInto / plan.Update / plan.DeleteFrom.
func (e *c18Env) wire(stmt int, on c18Store) (*plan.ForeignKeyHandler, error) {
	ctx := e.ctx
	cat := &Catalog{AuthHandler: sql.NoopAuthorizationHandler{}}
	cache := newForeignKeyCache()
	for name, s := range e.stores {
		t := s.fkTable()
		cache.updaterCache[newForeignKeyTableName("db", "", name)] = foreignKeyTableUpdater{tbl: t, updater: t.GetForeignKeyEditor(ctx)}
	}
	chain := newForeignKeyChain()
	tbl := on.fkTable()
	var ed *plan.ForeignKeyEditor
	var err error
	switch stmt {
	case c18Insert:
		ed, err = getForeignKeyReferences(ctx, cat, tbl, cache, chain, true)
	case c18Update:
		ed, err = getForeignKeyEditor(ctx, cat, tbl, cache, chain, false)
	default:
		ed, err = getForeignKeyRefActions(ctx, cat, tbl, cache, chain, nil, false)
	}
	if err != nil || ed == nil {
		return nil, err
	}
	return &plan.ForeignKeyHandler{
		Table:        tbl,
		Sch:          tbl.Schema(ctx),
		OriginalNode: plan.NewResolvedTable(tbl, nil, nil),
		Editor:       ed,
		AllUpdaters:  chain.GetUpdaters(),
	}, nil
}

// c18Stmt is the row-at-a-time DML iterator under plan.TableEditorIter: one edit.
type c18Stmt struct {
	do   func(*sql.Context) error
	done bool
}

func (s *c18Stmt) Next(ctx *sql.Context) (sql.Row, error) {
	if s.done {
		return nil, io.EOF
	}
	s.done = true
	if err := s.do(ctx); err != nil {
		return nil, err
	}
	return sql.Row{}, nil
}
func (s *c18Stmt) Close(*sql.Context) error { return nil }

// run executes one single-row statement under the real statement protocol.
func (e *c18Env) run(h *plan.ForeignKeyHandler, do func(*sql.Context) error) error {
	it := plan.NewTableEditorIter(&c18Stmt{do: do}, h)
	_, err := it.Next(e.ctx)
	if err == nil {
		_, eof := it.Next(e.ctx)
		if eof != io.EOF {
			err = eof
		}
	}
	cerr := it.Close(e.ctx)
	if err == nil {
		err = cerr
	}
	return err
}

// ---- reference model ----------------------------------------------------------------

// c18Row is a row as values: key k, reference r (NULL or a value).
type c18Row struct {
	k    int64
	null bool
	r    int64
}

func (m c18Row) row() sql.Row {
	if m.null {
		return sql.Row{m.k, nil}
	}
	return sql.Row{m.k, m.r}
}

func c18FromRows(rows []sql.Row) ([]c18Row, bool) {
	out := make([]c18Row, len(rows))
	for i, r := range rows {
		if !c18RowOk(r) {
			return nil, false
		}
		out[i].k = r[0].(int64)
		if r[1] == nil {
			out[i].null = true
		} else {
			out[i].r = r[1].(int64)
		}
	}
	return out, true
}

func (e *c18Env) value(name string) int64 {
	if e.mem {
		return int64(nd.Pick(name, c18MemDomain))
	}
	return nd.Int64(name)
}

// draw draws a row: key, and a reference that is NULL or a value.
func (e *c18Env) draw(tag string) c18Row {
	tag = e.pre + "." + tag
	m := c18Row{k: e.value(tag + ".k")}
	if nd.Pick(tag+".null", 2) == 1 {
		m.null = true
	} else {
		m.r = e.value(tag + ".r")
	}
	return m
}

// drawNoRef draws a row whose reference is NULL.
func (e *c18Env) drawNoRef(tag string) c18Row {
	return c18Row{k: e.value(e.pre + "." + tag + ".k"), null: true}
}

// fill stores n drawn rows with pairwise distinct keys.
func (e *c18Env) fill(tag string, n int, noRef bool) []c18Row {
	ms := make([]c18Row, n)
	for i := 0; i < n; i++ {
		if noRef {
			ms[i] = e.drawNoRef(tag + strconv.Itoa(i))
		} else {
			ms[i] = e.draw(tag + strconv.Itoa(i))
		}
		for j := 0; j < i; j++ {
			nd.Assume(ms[j].k != ms[i].k)
		}
	}
	return ms
}

// byKey: rows in ascending key order (concrete keys only: the in-memory fixture).
func c18ByKey(rows []c18Row) []c18Row {
	out := append([]c18Row{}, rows...)
	for i := 1; i < len(out); i++ {
		for j := i; j > 0 && out[j-1].k > out[j].k; j-- {
			out[j-1], out[j] = out[j], out[j-1]
		}
	}
	return out
}

// same: the table holds exactly the rows want. The doubles keep rows in place,
// the in-memory table returns them in key order.
func (e *c18Env) same(got, want []c18Row) bool {
	if len(got) != len(want) {
		return false
	}
	if e.mem {
		got, want = c18ByKey(got), c18ByKey(want)
	}
	eq := true
	for i := range got {
		if got[i].null != want[i].null {
			return false
		}
		eq = nd.And(eq, got[i].k == want[i].k)
		if !got[i].null {
			eq = nd.And(eq, got[i].r == want[i].r)
		}
	}
	return eq
}

func c18Replace(rows []c18Row, i int, n c18Row) []c18Row {
	out := append([]c18Row{}, rows...)
	out[i] = n
	return out
}

func c18Without(rows []c18Row, i int) []c18Row {
	var out []c18Row
	for j := range rows {
		if j != i {
			out = append(out, rows[j])
		}
	}
	return out
}

func c18With(rows []c18Row, n c18Row) []c18Row { return append(append([]c18Row{}, rows...), n) }

// c18HasKey: some row of rows has key v.
func c18HasKey(rows []c18Row, v int64) bool {
	f := false
	for _, p := range rows {
		f = nd.Or(f, p.k == v)
	}
	return f
}

// c18HasRef: some row of rows has the (non-NULL) reference v.
func c18HasRef(rows []c18Row, v int64) bool {
	f := false
	for _, p := range rows {
		if !p.null {
			f = nd.Or(f, p.r == v)
		}
	}
	return f
}

// c18KeyTakenByOther: a row other than number i has key v.
func c18KeyTakenByOther(rows []c18Row, i int, v int64) bool {
	f := false
	for j, p := range rows {
		if j != i {
			f = nd.Or(f, p.k == v)
		}
	}
	return f
}

// c18Integrity: every non-NULL reference of child is the key of a parent row.
func c18Integrity(child, parent []c18Row) bool {
	ok := true
	for _, c := range child {
		if !c.null {
			ok = nd.And(ok, c18HasKey(parent, c.r))
		}
	}
	return ok
}

// c18IntegrityOnRef: every non-NULL reference of child is the r value of a parent row.
func c18IntegrityOnRef(child, parent []c18Row) bool {
	ok := true
	for _, c := range child {
		if !c.null {
			ok = nd.And(ok, c18HasRef(parent, c.r))
		}
	}
	return ok
}

// load stores the initial contents.
func (e *c18Env) load(contents map[string][]c18Row) bool {
	loaded := true
	for name, rows := range contents {
		loaded = e.stores[name].load(e.ctx, rows) && loaded
	}
	nd.Assert(e.id("fixture-loaded"), loaded)
	return loaded
}

// start wires the statement.
func (e *c18Env) start(stmt int, on c18Store) *plan.ForeignKeyHandler {
	h, werr := e.wire(stmt, on)
	ok := werr == nil && h != nil
	nd.Assert(e.id("statement-wired"), ok)
	if !ok {
		return nil
	}
	return h
}

// finish reads the tables back and checks the statement protocol.
func (e *c18Env) finish(err error, on c18Store, names ...string) ([][]c18Row, bool) {
	out := make([][]c18Row, len(names))
	ok, sound, ended := true, true, true
	for i, name := range names {
		s := e.stores[name]
		var rok bool
		out[i], rok = s.dump(e.ctx)
		ok = ok && rok
		sound = sound && s.sound()
		ended = ended && s.ended(err != nil)
	}
	nd.Assert(e.id("rows-well-formed"), ok && sound)
	if !ok {
		return nil, false
	}
	nd.Assert(e.id("statement-protocol"), ended && on.began())
	return out, true
}

// ---- parent / child ----------------------------------------------------------------------

// c18ParentDelete: DELETE of one parent row; c.r REFERENCES p.k with every ON DELETE action.
func c18ParentDelete(e *c18Env, maxChildren int) {
	p := e.table("p")
	e.table("c")
	np := nd.IntRange(e.id("np"), 1, 2)
	nc := nd.IntRange(e.id("nc"), 0, maxChildren)
	P := e.fill("p", np, true)
	C := e.fill("c", nc, false)
	nd.Assume(c18Integrity(C, P))
	if !e.load(map[string][]c18Row{"p": P, "c": C}) {
		return
	}
	act := nd.Pick(e.id("ondelete"), c18NumActions)
	e.link("fk_cp", "c", "p", "k", c18Restrict, act)
	i := nd.IntRange(e.id("target"), 0, np-1)
	h := e.start(c18Delete, p)
	if h == nil {
		return
	}
	err := e.run(h, func(ctx *sql.Context) error { return h.Delete(ctx, P[i].row()) })
	nd.Reach(e.id("done"))
	got, ok := e.finish(err, p, "p", "c")
	if !ok {
		return
	}
	gotP, gotC := got[0], got[1]
	nd.Observe(err == nil, len(gotP), len(gotC))

	ref := make([]bool, nc)
	any := false
	for j := range C {
		ref[j] = nd.And(!C[j].null, C[j].r == P[i].k)
		any = nd.Or(any, ref[j])
	}
	nd.Assert(e.id("fails-iff-restricting-action-and-referencing-child"), (err != nil) == nd.And(c18Restricts(act), any))
	if err != nil {
		nd.Assert(e.id("error-is-parent-violation"), sql.ErrForeignKeyParentViolation.Is(err))
		nd.Assert(e.id("failed-without-effect"), nd.And(e.same(gotP, P), e.same(gotC, C)))
		return
	}
	var wantC []c18Row
	for j := range C {
		m := C[j]
		if ref[j] {
			if act == c18Cascade {
				continue
			}
			m.null, m.r = true, 0
		}
		wantC = append(wantC, m)
	}
	nd.Assert(e.id("parent-loses-exactly-the-row"), e.same(gotP, c18Without(P, i)))
	nd.Assert(e.id("child-changes-exactly-as-prescribed"), e.same(gotC, wantC))
	nd.Assert(e.id("integrity"), c18Integrity(gotC, gotP))
}

// c18ParentUpdate: UPDATE of one parent row (key and payload); c.r REFERENCES
// p.k with every ON UPDATE action.
func c18ParentUpdate(e *c18Env, maxChildren int) {
	p := e.table("p")
	e.table("c")
	np := nd.IntRange(e.id("np"), 1, 2)
	nc := nd.IntRange(e.id("nc"), 0, maxChildren)
	P := e.fill("p", np, true)
	C := e.fill("c", nc, false)
	nd.Assume(c18Integrity(C, P))
	if !e.load(map[string][]c18Row{"p": P, "c": C}) {
		return
	}
	act := nd.Pick(e.id("onupdate"), c18NumActions)
	e.link("fk_cp", "c", "p", "k", act, c18Restrict)
	i := nd.IntRange(e.id("target"), 0, np-1)
	N := e.draw("new")
	h := e.start(c18Update, p)
	if h == nil {
		return
	}
	err := e.run(h, func(ctx *sql.Context) error { return h.Update(ctx, P[i].row(), N.row()) })
	nd.Reach(e.id("done"))
	got, ok := e.finish(err, p, "p", "c")
	if !ok {
		return
	}
	gotP, gotC := got[0], got[1]
	nd.Observe(err == nil, len(gotP), len(gotC))

	keyChanged := N.k != P[i].k
	ref := make([]bool, nc)
	any := false
	for j := range C {
		ref[j] = nd.And(!C[j].null, C[j].r == P[i].k)
		any = nd.Or(any, ref[j])
	}
	restricted := nd.And(c18Restricts(act), nd.And(keyChanged, any))
	dup := c18KeyTakenByOther(P, i, N.k)
	nd.Assert(e.id("fails-iff-restricted-key-change-or-duplicate-key"), (err != nil) == nd.Or(restricted, dup))
	if err != nil {
		if restricted {
			nd.Assert(e.id("error-is-parent-violation"), sql.ErrForeignKeyParentViolation.Is(err))
		}
		nd.Assert(e.id("failed-without-effect"), nd.And(e.same(gotP, P), e.same(gotC, C)))
		return
	}
	var wantC []c18Row
	for j := range C {
		m := C[j]
		if nd.And(keyChanged, ref[j]) {
			if act == c18Cascade {
				m.r = N.k
			} else {
				m.null, m.r = true, 0
			}
		}
		wantC = append(wantC, m)
	}
	nd.Assert(e.id("parent-row-replaced-exactly"), e.same(gotP, c18Replace(P, i, N)))
	nd.Assert(e.id("child-changes-exactly-as-prescribed"), e.same(gotC, wantC))
	nd.Assert(e.id("integrity"), c18Integrity(gotC, gotP))
}

// c18ChildInsert: INSERT of one child row.
func c18ChildInsert(e *c18Env, maxRows int) {
	e.table("p")
	c := e.table("c")
	e.link("fk_cp", "c", "p", "k", c18Default, c18Default)
	np := nd.IntRange(e.id("np"), 0, 2)
	nc := nd.IntRange(e.id("nc"), 0, maxRows)
	P := e.fill("p", np, true)
	C := e.fill("c", nc, false)
	nd.Assume(c18Integrity(C, P))
	if !e.load(map[string][]c18Row{"p": P, "c": C}) {
		return
	}
	N := e.draw("new")
	h := e.start(c18Insert, c)
	if h == nil {
		return
	}
	err := e.run(h, func(ctx *sql.Context) error { return h.Insert(ctx, N.row()) })
	nd.Reach(e.id("done"))
	got, ok := e.finish(err, c, "p", "c")
	if !ok {
		return
	}
	gotP, gotC := got[0], got[1]
	nd.Observe(err == nil, len(gotP), len(gotC))

	dangling := false
	if !N.null {
		dangling = !c18HasKey(P, N.r)
	}
	dup := c18HasKey(C, N.k)
	nd.Assert(e.id("fails-iff-no-parent-row-or-duplicate-key"), (err != nil) == nd.Or(dangling, dup))
	if err != nil {
		if dangling {
			nd.Assert(e.id("error-is-child-violation"), sql.ErrForeignKeyChildViolation.Is(err))
		}
		nd.Assert(e.id("failed-without-effect"), nd.And(e.same(gotP, P), e.same(gotC, C)))
		return
	}
	nd.Assert(e.id("row-added-nothing-else-changed"), nd.And(e.same(gotP, P), e.same(gotC, c18With(C, N))))
	nd.Assert(e.id("integrity"), c18Integrity(gotC, gotP))
}

// c18ChildUpdate: UPDATE of one child row (key and reference).
func c18ChildUpdate(e *c18Env, maxRows int) {
	e.table("p")
	c := e.table("c")
	e.link("fk_cp", "c", "p", "k", c18Default, c18Default)
	np := nd.IntRange(e.id("np"), 0, 2)
	nc := nd.IntRange(e.id("nc"), 1, maxRows)
	P := e.fill("p", np, true)
	C := e.fill("c", nc, false)
	nd.Assume(c18Integrity(C, P))
	if !e.load(map[string][]c18Row{"p": P, "c": C}) {
		return
	}
	j := nd.IntRange(e.id("target"), 0, nc-1)
	N := e.draw("new")
	h := e.start(c18Update, c)
	if h == nil {
		return
	}
	err := e.run(h, func(ctx *sql.Context) error { return h.Update(ctx, C[j].row(), N.row()) })
	nd.Reach(e.id("done"))
	got, ok := e.finish(err, c, "p", "c")
	if !ok {
		return
	}
	gotP, gotC := got[0], got[1]
	nd.Observe(err == nil, len(gotP), len(gotC))

	dangling := false
	if !N.null {
		dangling = !c18HasKey(P, N.r)
	}
	dup := c18KeyTakenByOther(C, j, N.k)
	nd.Assert(e.id("fails-iff-no-parent-row-or-duplicate-key"), (err != nil) == nd.Or(dangling, dup))
	if err != nil {
		if dangling {
			nd.Assert(e.id("error-is-child-violation"), sql.ErrForeignKeyChildViolation.Is(err))
		}
		nd.Assert(e.id("failed-without-effect"), nd.And(e.same(gotP, P), e.same(gotC, C)))
		return
	}
	nd.Assert(e.id("row-replaced-nothing-else-changed"), nd.And(e.same(gotP, P), e.same(gotC, c18Replace(C, j, N))))
	nd.Assert(e.id("integrity"), c18Integrity(gotC, gotP))
}

// ---- self-referencing table ----------------------------------------------------------

// c18SelfInsert: t.r REFERENCES t.k; INSERT of one row. A row may reference itself.
func c18SelfInsert(e *c18Env, maxRows int) {
	t := e.table("t")
	e.link("fk_tt", "t", "t", "k", c18Default, c18Default)
	n := nd.IntRange(e.id("n"), 0, maxRows)
	T := e.fill("t", n, false)
	nd.Assume(c18Integrity(T, T))
	if !e.load(map[string][]c18Row{"t": T}) {
		return
	}
	N := e.draw("new")
	h := e.start(c18Insert, t)
	if h == nil {
		return
	}
	err := e.run(h, func(ctx *sql.Context) error { return h.Insert(ctx, N.row()) })
	nd.Reach(e.id("done"))
	gots, ok := e.finish(err, t, "t")
	if !ok {
		return
	}
	got := gots[0]
	nd.Observe(err == nil, len(got))

	dangling := false
	if !N.null {
		dangling = nd.And(N.r != N.k, !c18HasKey(T, N.r))
	}
	dup := c18HasKey(T, N.k)
	nd.Assert(e.id("fails-iff-no-parent-row-or-duplicate-key"), (err != nil) == nd.Or(dangling, dup))
	if err != nil {
		if dangling {
			nd.Assert(e.id("error-is-child-violation"), sql.ErrForeignKeyChildViolation.Is(err))
		}
		nd.Assert(e.id("failed-without-effect"), e.same(got, T))
		return
	}
	nd.Assert(e.id("row-added-nothing-else-changed"), e.same(got, c18With(T, N)))
	nd.Assert(e.id("integrity"), c18Integrity(got, got))
}

// c18SelfDelete: DELETE of one row of the self-referencing table, every
// ON DELETE action. CASCADE removes the least set of rows that contains the
// deleted row and every row referencing a member (multi-level within the table).
//
// Input class with its own assertion ids: "self-only" = a restricting action
// and the only row that references the deleted row is the row itself.
func c18SelfDelete(e *c18Env, maxRows int) {
	t := e.table("t")
	n := nd.IntRange(e.id("n"), 1, maxRows)
	T := e.fill("t", n, false)
	nd.Assume(c18Integrity(T, T))
	if !e.load(map[string][]c18Row{"t": T}) {
		return
	}
	act := nd.Pick(e.id("ondelete"), c18NumActions)
	e.link("fk_tt", "t", "t", "k", act, act)
	i := nd.IntRange(e.id("target"), 0, n-1)
	h := e.start(c18Delete, t)
	if h == nil {
		return
	}
	err := e.run(h, func(ctx *sql.Context) error { return h.Delete(ctx, T[i].row()) })
	nd.Reach(e.id("done"))
	gots, ok := e.finish(err, t, "t")
	if !ok {
		return
	}
	got := gots[0]
	nd.Observe(err == nil, len(got))

	ref := make([]bool, n) // row j references the deleted row
	others := false
	for j := range T {
		ref[j] = nd.And(!T[j].null, T[j].r == T[i].k)
		if j != i {
			others = nd.Or(others, ref[j])
		}
	}
	if err != nil {
		nd.Assert(e.id("failed-without-effect"), e.same(got, T))
	}
	var want []c18Row
	switch {
	case c18Restricts(act):
		if nd.And(!others, ref[i]) {
			// self-only: the outcome is not prescribed here; the effect still is
			if err == nil {
				nd.Assert(e.id("self-only.row-removed-exactly"), e.same(got, c18Without(T, i)))
			}
			return
		}
		nd.Assert(e.id("fails-iff-restricting-action-and-referencing-row"), (err != nil) == others)
		if err != nil {
			nd.Assert(e.id("error-is-parent-violation"), sql.ErrForeignKeyParentViolation.Is(err))
			return
		}
		want = c18Without(T, i)
	case act == c18SetNull:
		nd.Assert(e.id("set-null-succeeds"), err == nil)
		if err != nil {
			return
		}
		for j := range T {
			if j == i {
				continue
			}
			m := T[j]
			if ref[j] {
				m.null, m.r = true, 0
			}
			want = append(want, m)
		}
	default: // CASCADE
		nd.Assert(e.id("cascade-succeeds"), err == nil)
		if err != nil {
			return
		}
		in := make([]bool, n)
		in[i] = true
		for round := 0; round < n; round++ {
			for j := range T {
				if T[j].null {
					continue
				}
				for m := range T {
					in[j] = nd.Or(in[j], nd.And(in[m], T[j].r == T[m].k))
				}
			}
		}
		for j := range T {
			if !in[j] {
				want = append(want, T[j])
			}
		}
	}
	nd.Assert(e.id("rows-change-exactly-as-prescribed"), e.same(got, want))
	nd.Assert(e.id("integrity"), c18Integrity(got, got))
}

// c18SelfUpdate: UPDATE of one row (key and reference) of the self-referencing
// table. ON UPDATE CASCADE / SET NULL that comes back to the table being
// updated acts as RESTRICT (MySQL's documented rule, applied by the analyzer),
// so every declared action restricts.
//
// The statement must fail when (a) the key changes and another row references
// the old key, (b) the new key is taken, (c) the new reference has no parent in
// the table as it would be after the update. Input classes with their own ids:
//
//	self-old     the key changes and the row referenced itself (and a, b, c do
//	             not apply): outcome not prescribed here
//	own-old-key  the key changes and the new reference is the row's OLD key
//	             (so (c) applies: that key no longer exists afterwards)
func c18SelfUpdate(e *c18Env, maxRows int) {
	t := e.table("t")
	n := nd.IntRange(e.id("n"), 1, maxRows)
	T := e.fill("t", n, false)
	nd.Assume(c18Integrity(T, T))
	if !e.load(map[string][]c18Row{"t": T}) {
		return
	}
	act := nd.Pick(e.id("onupdate"), c18NumActions)
	e.link("fk_tt", "t", "t", "k", act, c18Restrict)
	i := nd.IntRange(e.id("target"), 0, n-1)
	N := e.draw("new")
	h := e.start(c18Update, t)
	if h == nil {
		return
	}
	err := e.run(h, func(ctx *sql.Context) error { return h.Update(ctx, T[i].row(), N.row()) })
	nd.Reach(e.id("done"))
	gots, ok := e.finish(err, t, "t")
	if !ok {
		return
	}
	got := gots[0]
	nd.Observe(err == nil, len(got))
	if err != nil {
		nd.Assert(e.id("failed-without-effect"), e.same(got, T))
	} else {
		nd.Assert(e.id("row-replaced-nothing-else-changed"), e.same(got, c18Replace(T, i, N)))
	}

	keyChanged := N.k != T[i].k
	others := false // another row references the old key
	for j := range T {
		if j != i && !T[j].null {
			others = nd.Or(others, T[j].r == T[i].k)
		}
	}
	selfOld := nd.And(!T[i].null, T[i].r == T[i].k)
	dup := c18KeyTakenByOther(T, i, N.k)
	dangling, ownOldKey := false, false
	if !N.null {
		dangling = nd.And(N.r != N.k, !c18KeyTakenByOther(T, i, N.r))
		ownOldKey = nd.And(keyChanged, N.r == T[i].k)
	}
	restricted := nd.And(keyChanged, others)
	if ownOldKey {
		// (c) applies. Rules (a), (b) and "the row referenced itself" reject some of these anyway:
		if nd.Or(nd.Or(restricted, dup), selfOld) {
			nd.Assert(e.id("own-old-key.rejected-by-other-rule"), err != nil)
			return
		}
		nd.Assert(e.id("own-old-key.reference-to-vanishing-key-rejected"), err != nil)
		return
	}
	mustFail := nd.Or(nd.Or(restricted, dup), dangling)
	if nd.And(!mustFail, nd.And(keyChanged, selfOld)) {
		return // self-old
	}
	nd.Assert(e.id("fails-iff-restricted-key-change-or-no-parent-or-duplicate-key"), (err != nil) == mustFail)
	if err == nil {
		nd.Assert(e.id("integrity"), c18Integrity(got, got))
	}
}

// ---- three levels: c -> b -> a ---------------------------------------------------------

const (
	c18ChRestrict = iota
	c18ChCascade
	c18ChSetNull
	c18ChActions
)

func c18ChAction(a int) int {
	switch a {
	case c18ChCascade:
		return c18Cascade
	case c18ChSetNull:
		return c18SetNull
	}
	return c18Restrict
}

// c18ChainDelete: b.r REFERENCES a.k (ON DELETE act1), c.r REFERENCES b.k
// (ON DELETE act2); DELETE of one row of a.
func c18ChainDelete(e *c18Env, maxRows int) {
	a := e.table("a")
	e.table("b")
	e.table("c")
	na := nd.IntRange(e.id("na"), 1, 2)
	nb := nd.IntRange(e.id("nb"), 0, maxRows)
	nc := nd.IntRange(e.id("nc"), 0, maxRows)
	A := e.fill("a", na, true)
	B := e.fill("b", nb, false)
	C := e.fill("c", nc, false)
	nd.Assume(nd.And(c18Integrity(B, A), c18Integrity(C, B)))
	if !e.load(map[string][]c18Row{"a": A, "b": B, "c": C}) {
		return
	}
	act1 := nd.Pick(e.id("act1"), c18ChActions)
	act2 := nd.Pick(e.id("act2"), c18ChActions)
	e.link("fk_ba", "b", "a", "k", c18Restrict, c18ChAction(act1))
	e.link("fk_cb", "c", "b", "k", c18Restrict, c18ChAction(act2))
	i := nd.IntRange(e.id("target"), 0, na-1)
	h := e.start(c18Delete, a)
	if h == nil {
		return
	}
	err := e.run(h, func(ctx *sql.Context) error { return h.Delete(ctx, A[i].row()) })
	nd.Reach(e.id("done"))
	got, ok := e.finish(err, a, "a", "b", "c")
	if !ok {
		return
	}
	gotA, gotB, gotC := got[0], got[1], got[2]
	nd.Observe(err == nil, len(gotA), len(gotB), len(gotC))

	b1 := make([]bool, nb) // b rows referencing the deleted a row
	anyB := false
	for j := range B {
		b1[j] = nd.And(!B[j].null, B[j].r == A[i].k)
		anyB = nd.Or(anyB, b1[j])
	}
	c1 := make([]bool, nc) // c rows referencing a b row of b1
	anyC := false
	for m := range C {
		if !C[m].null {
			for j := range B {
				c1[m] = nd.Or(c1[m], nd.And(b1[j], C[m].r == B[j].k))
			}
		}
		anyC = nd.Or(anyC, c1[m])
	}
	wantErr := false
	switch act1 {
	case c18ChRestrict:
		wantErr = anyB
	case c18ChCascade:
		if act2 == c18ChRestrict {
			wantErr = anyC
		}
	}
	nd.Assert(e.id("fails-iff-a-restricting-key-is-referenced"), (err != nil) == wantErr)
	if err != nil {
		nd.Assert(e.id("error-is-parent-violation"), sql.ErrForeignKeyParentViolation.Is(err))
		nd.Assert(e.id("failed-without-effect"), nd.And(e.same(gotA, A), nd.And(e.same(gotB, B), e.same(gotC, C))))
		return
	}
	var wantB, wantC []c18Row
	for j := range B {
		m := B[j]
		if b1[j] {
			if act1 == c18ChCascade {
				continue
			}
			m.null, m.r = true, 0
		}
		wantB = append(wantB, m)
	}
	for m := range C {
		r := C[m]
		if act1 == c18ChCascade && c1[m] {
			if act2 == c18ChCascade {
				continue
			}
			r.null, r.r = true, 0
		}
		wantC = append(wantC, r)
	}
	nd.Assert(e.id("top-loses-exactly-the-row"), e.same(gotA, c18Without(A, i)))
	nd.Assert(e.id("middle-changes-exactly-as-prescribed"), e.same(gotB, wantB))
	nd.Assert(e.id("bottom-changes-exactly-as-prescribed"), e.same(gotC, wantC))
	nd.Assert(e.id("integrity"), nd.And(c18Integrity(gotB, gotA), c18Integrity(gotC, gotB)))
}

// c18ChainUpdate: b.r REFERENCES a.k (ON UPDATE act1), c.r REFERENCES b.r
// (ON UPDATE act2): a key change of a propagates through b.r into c.r.
func c18ChainUpdate(e *c18Env, maxRows int) {
	a := e.table("a")
	e.table("b")
	e.table("c")
	na := nd.IntRange(e.id("na"), 1, 2)
	nb := nd.IntRange(e.id("nb"), 0, maxRows)
	nc := nd.IntRange(e.id("nc"), 0, maxRows)
	A := e.fill("a", na, true)
	B := e.fill("b", nb, false)
	C := e.fill("c", nc, false)
	nd.Assume(nd.And(c18Integrity(B, A), c18IntegrityOnRef(C, B)))
	if !e.load(map[string][]c18Row{"a": A, "b": B, "c": C}) {
		return
	}
	act1 := nd.Pick(e.id("act1"), c18ChActions)
	act2 := nd.Pick(e.id("act2"), c18ChActions)
	e.link("fk_ba", "b", "a", "k", c18ChAction(act1), c18Restrict)
	e.link("fk_cb", "c", "b", "r", c18ChAction(act2), c18Restrict)
	i := nd.IntRange(e.id("target"), 0, na-1)
	N := e.drawNoRef("new")
	h := e.start(c18Update, a)
	if h == nil {
		return
	}
	err := e.run(h, func(ctx *sql.Context) error { return h.Update(ctx, A[i].row(), N.row()) })
	nd.Reach(e.id("done"))
	got, ok := e.finish(err, a, "a", "b", "c")
	if !ok {
		return
	}
	gotA, gotB, gotC := got[0], got[1], got[2]
	nd.Observe(err == nil, len(gotA), len(gotB), len(gotC))

	keyChanged := N.k != A[i].k
	dup := c18KeyTakenByOther(A, i, N.k)
	b1 := make([]bool, nb)
	anyB := false
	for j := range B {
		b1[j] = nd.And(keyChanged, nd.And(!B[j].null, B[j].r == A[i].k))
		anyB = nd.Or(anyB, b1[j])
	}
	c1 := make([]bool, nc) // c rows whose reference is the r value that changes in b
	anyC := false
	for m := range C {
		c1[m] = nd.And(anyB, nd.And(!C[m].null, C[m].r == A[i].k))
		anyC = nd.Or(anyC, c1[m])
	}
	wantErr := dup
	if act1 == c18ChRestrict {
		wantErr = nd.Or(wantErr, anyB)
	} else if act2 == c18ChRestrict {
		wantErr = nd.Or(wantErr, anyC)
	}
	nd.Assert(e.id("fails-iff-a-restricting-key-is-referenced-or-duplicate-key"), (err != nil) == wantErr)
	if err != nil {
		nd.Assert(e.id("failed-without-effect"), nd.And(e.same(gotA, A), nd.And(e.same(gotB, B), e.same(gotC, C))))
		return
	}
	var wantB, wantC []c18Row
	for j := range B {
		m := B[j]
		if b1[j] {
			if act1 == c18ChCascade {
				m.r = N.k
			} else {
				m.null, m.r = true, 0
			}
		}
		wantB = append(wantB, m)
	}
	for m := range C {
		r := C[m]
		if c1[m] {
			if act1 == c18ChCascade && act2 == c18ChCascade {
				r.r = N.k
			} else {
				r.null, r.r = true, 0
			}
		}
		wantC = append(wantC, r)
	}
	nd.Assert(e.id("top-row-replaced-exactly"), e.same(gotA, c18Replace(A, i, N)))
	nd.Assert(e.id("middle-changes-exactly-as-prescribed"), e.same(gotB, wantB))
	nd.Assert(e.id("bottom-changes-exactly-as-prescribed"), e.same(gotC, wantC))
	nd.Assert(e.id("integrity"), nd.And(c18Integrity(gotB, gotA), c18IntegrityOnRef(gotC, gotB)))
}

// c18DepthChain: concrete self-referencing chain (1,NULL),(2,1),...,(n,n-1)
// with ON DELETE CASCADE; DELETE of row 1 cascades through all n rows. The
// cascade depth is limited (15 levels, as in MySQL): a statement that exceeds it
// fails without effect; a chain of up to 14 rows is within the limit.
func c18DepthChain(e *c18Env) {
	t := e.table("t")
	e.link("fk_tt", "t", "t", "k", c18Cascade, c18Cascade)
	n := nd.IntRange(e.id("n"), 1, 17)
	var T []c18Row
	for k := 1; k <= n; k++ {
		m := c18Row{k: int64(k), r: int64(k - 1), null: k == 1}
		if m.null {
			m.r = 0
		}
		T = append(T, m)
	}
	if !e.load(map[string][]c18Row{"t": T}) {
		return
	}
	h := e.start(c18Delete, t)
	if h == nil {
		return
	}
	err := e.run(h, func(ctx *sql.Context) error { return h.Delete(ctx, T[0].row()) })
	nd.Reach(e.id("done"))
	gots, ok := e.finish(err, t, "t")
	if !ok {
		return
	}
	got := gots[0]
	nd.Observe(err == nil, len(got))
	if err != nil {
		nd.Assert(e.id("error-is-depth-limit"), sql.ErrForeignKeyDepthLimit.Is(err))
		nd.Assert(e.id("no-depth-error-within-14-levels"), n > 14)
		nd.Assert(e.id("failed-without-effect"), e.same(got, T))
		return
	}
	nd.Assert(e.id("all-rows-removed"), len(got) == 0)
}

// ---- harnesses: storage doubles, full-range symbolic keys ------------------------------

func VerifC18ParentDelete() { c18ParentDelete(c18Doubles("c18.pdel"), nd.Bound(2, 3)) }
func VerifC18ParentUpdate() { c18ParentUpdate(c18Doubles("c18.pupd"), nd.Bound(2, 3)) }
func VerifC18ChildInsert()  { c18ChildInsert(c18Doubles("c18.cins"), nd.Bound(2, 3)) }
func VerifC18ChildUpdate()  { c18ChildUpdate(c18Doubles("c18.cupd"), nd.Bound(2, 3)) }
func VerifC18SelfInsert()   { c18SelfInsert(c18Doubles("c18.sins"), nd.Bound(2, 3)) }
func VerifC18SelfDelete()   { c18SelfDelete(c18Doubles("c18.sdel"), nd.Bound(2, 3)) }
func VerifC18SelfUpdate()   { c18SelfUpdate(c18Doubles("c18.supd"), nd.Bound(2, 3)) }
func VerifC18ChainDelete()  { c18ChainDelete(c18Doubles("c18.chdel"), 2) }
func VerifC18ChainUpdate()  { c18ChainUpdate(c18Doubles("c18.chupd"), 2) }
func VerifC18DepthChain()   { c18DepthChain(c18Doubles("c18.depth")) }

// ---- harnesses: the in-memory backend, keys and references from 0..2 ---------------------

func VerifC18MemParentDelete() { c18ParentDelete(c18Memory("c18.mem.pdel"), nd.Bound(1, 2)) }
func VerifC18MemParentUpdate() { c18ParentUpdate(c18Memory("c18.mem.pupd"), nd.Bound(1, 2)) }
func VerifC18MemChildInsert()  { c18ChildInsert(c18Memory("c18.mem.cins"), nd.Bound(1, 2)) }
func VerifC18MemChildUpdate()  { c18ChildUpdate(c18Memory("c18.mem.cupd"), nd.Bound(1, 2)) }
func VerifC18MemSelfInsert()   { c18SelfInsert(c18Memory("c18.mem.sins"), 2) }
func VerifC18MemSelfDelete()   { c18SelfDelete(c18Memory("c18.mem.sdel"), nd.Bound(2, 3)) }
func VerifC18MemSelfUpdate()   { c18SelfUpdate(c18Memory("c18.mem.supd"), nd.Bound(1, 2)) }
func VerifC18MemChainDelete()  { c18ChainDelete(c18Memory("c18.mem.chdel"), 1) }
func VerifC18MemChainUpdate()  { c18ChainUpdate(c18Memory("c18.mem.chupd"), 1) }
func VerifC18MemDepthChain()   { c18DepthChain(c18Memory("c18.mem.depth")) }
