//go:build verif

package analyzer

import (
	nd "github.com/dolthub/go-mysql-server/internal/zzverifnd"
	"github.com/dolthub/go-mysql-server/sql"
	"github.com/dolthub/go-mysql-server/sql/expression"
	"github.com/dolthub/go-mysql-server/sql/types"
)

// C05, NOT push-down: translation validation of pushNotFiltersHelper. For each
// concrete expression shape e, the rewritten expression evaluates to the same
// SQL value (TRUE / FALSE / NULL) as e on every row.

// c05Tri: 0 FALSE, 1 TRUE, 2 NULL, -1 error, -2 not a boolean.
func c05Tri(res interface{}, err error) int {
	if err != nil {
		return -1
	}
	if res == nil {
		return 2
	}
	b, ok := res.(bool)
	if !ok {
		return -2
	}
	r := 0
	if b {
		r = 1
	}
	return r
}

func c05Row3() sql.Row {
	row := make(sql.Row, 3)
	for i := range row {
		s := string(rune('0' + i))
		v := nd.Int64("c" + s)
		if nd.Bool("c" + s + ".null") {
			row[i] = nil
		} else {
			row[i] = v
		}
	}
	return row
}

const c05AtomKinds = 10

func c05Atom(kind, i, j, k int) sql.Expression {
	fi := expression.NewGetField(i, types.Int64, "a", true)
	fj := expression.NewGetField(j, types.Int64, "b", true)
	fk := expression.NewGetField(k, types.Int64, "c", true)
	switch kind {
	case 0:
		return expression.NewEquals(fi, fj)
	case 1:
		return expression.NewNullSafeEquals(fi, fj)
	case 2:
		return expression.NewGreaterThan(fi, fj)
	case 3:
		return expression.NewLessThan(fi, fj)
	case 4:
		return expression.NewGreaterThanOrEqual(fi, fj)
	case 5:
		return expression.NewLessThanOrEqual(fi, fj)
	case 6:
		return expression.NewIsNull(fi)
	case 7:
		return expression.NewBetween(fi, fj, fk)
	case 8:
		return expression.NewInTuple(fi, expression.NewTuple(fj, expression.NewLiteral(nil, types.Null)))
	default:
		return expression.NewNot(expression.NewGreaterThan(fi, fj))
	}
}

func c05CheckPushNot(id string, e sql.Expression, row sql.Row) {
	pushed, err := pushNotFiltersHelper(nil, e)
	nd.Reach(id)
	nd.Assert(id+".rewrite-succeeds", nd.And(err == nil, pushed != nil))
	if err != nil || pushed == nil {
		return
	}
	want := c05Tri(e.Eval(nil, row))
	got := c05Tri(pushed.Eval(nil, row))
	nd.Observe(want, got)
	nd.Assert(id+".original-evaluates", want >= 0)
	nd.Assert(id+".same-value", got == want)
}

// NOT(atom), NOT(NOT(atom)), NOT(NOT(NOT(atom))) and the atom itself.
func VerifC05PushNotUnary() {
	k := nd.Pick("k", c05AtomKinds)
	nots := nd.Pick("nots", 4)
	row := c05Row3()
	e := c05Atom(k, 0, 1, 2)
	for i := 0; i < nots; i++ {
		e = expression.NewNot(e)
	}
	c05CheckPushNot("c05.pushnot.unary", e, row)
}

// NOT over AND / OR (De Morgan) with operands that are themselves rewritable,
// and the same connectives un-negated with negated operands.
func VerifC05PushNotBinary() {
	shape := nd.Pick("shape", 6)
	lk := nd.Pick("lk", c05AtomKinds)
	rk := [...]int{0, 7, 9, 3}[nd.Pick("rk", nd.Bound(3, 4))]
	var ok3 int
	if nd.Tier() == 1 {
		ok3 = 1 + nd.Pick("third", 2)
	}
	row := c05Row3()
	l, r := c05Atom(lk, 0, 1, 2), c05Atom(rk, 2, 1, 0)
	var e sql.Expression
	switch shape {
	case 0:
		e = expression.NewNot(expression.NewAnd(l, r))
	case 1:
		e = expression.NewNot(expression.NewOr(l, r))
	case 2:
		e = expression.NewNot(expression.NewAnd(expression.NewNot(l), r))
	case 3:
		e = expression.NewNot(expression.NewOr(l, expression.NewNot(r)))
	case 4:
		e = expression.NewAnd(expression.NewNot(l), expression.NewNot(r))
	default:
		e = expression.NewNot(expression.NewXor(l, r))
	}
	// thorough: one more level, NOT((l . r) AND/OR third)
	switch ok3 {
	case 1:
		e = expression.NewNot(expression.NewAnd(e, c05Atom(4, 1, 0, 2)))
	case 2:
		e = expression.NewNot(expression.NewOr(c05Atom(7, 1, 0, 2), e))
	}
	c05CheckPushNot("c05.pushnot.binary", e, row)
}
