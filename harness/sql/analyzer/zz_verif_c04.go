//go:build verif

package analyzer

import (
	"strings"

	nd "github.com/dolthub/go-mysql-server/internal/zzverifnd"
	"github.com/dolthub/go-mysql-server/sql"
	"github.com/dolthub/go-mysql-server/sql/expression"
	"github.com/dolthub/go-mysql-server/sql/plan"
	"github.com/dolthub/go-mysql-server/sql/transform"
	"github.com/dolthub/go-mysql-server/sql/types"
)

// C04, sort elimination: replaceIdxSort removes a Sort node and answers
// ORDER BY from the (forward or reverse) order of an index scan.
//
// What an index scan provides (sql.OrderedIndex with Order() == IndexOrderAsc):
// a forward scan of an index on (k1, ..., km) returns the rows ordered by
// k1 ASC, ..., km ASC (NULL lowest), a reverse scan by k1 DESC, ..., km DESC.
// So ORDER BY e1 d1, ..., en dn can be answered by that index iff n <= m, ei
// is ki for every i, and d1 = ... = dn; the scan is reversed iff the di are DESC.

// ---------------------------------------------------------------------------
// the decision functions on their own

func c04Name(p string, i int) string { return p + string(rune('0'+i)) }

var c04Cols = [4]string{"a", "b", "c", "d"}

func c04Field(col int, upper bool) *expression.GetField {
	name := c04Cols[col]
	if upper {
		name = strings.ToUpper(name)
	}
	return expression.NewGetFieldWithTable(col, 0, types.Int64, "db", "t", name, true)
}

// isValidSortOrder: the list is accepted iff one scan direction serves all keys.
func VerifC04IdxSortValidOrder() {
	n := nd.IntRange("c04vo.n", 1, nd.Bound(4, 6))
	scs := make(sql.SortConditions, n)
	allAsc, allDesc := true, true
	for i := 0; i < n; i++ {
		o := sql.SortOrder(nd.Uint8(c04Name("c04vo.order", i)))
		nd.Assume(nd.Or(o == sql.Ascending, o == sql.Descending))
		// the flag is ignored by the rule and always NullsFirst in plans built
		// by planbuilder; it is left arbitrary here
		no := sql.NullOrdering(nd.Uint8(c04Name("c04vo.nulls", i)))
		nd.Assume(nd.Or(no == sql.NullsFirst, no == sql.NullsLast))
		scs[i] = sql.SortCondition{Expr: c04Field(i%3, false), Order: o, NullOrdering: no}
		allAsc = nd.And(allAsc, o == sql.Ascending)
		allDesc = nd.And(allDesc, o == sql.Descending)
	}
	got := isValidSortOrder(scs)
	nd.Reach("c04.idxsort.valid-order")
	single := nd.Or(allAsc, allDesc)
	nd.Assert("c04.idxsort.valid-order.only-single-direction", nd.Implies(got, single))
	nd.Assert("c04.idxsort.valid-order.accepts-single-direction", nd.Implies(single, got))
}

// sortExprsMatchIdxColExprs: true iff the sort expressions are, position by
// position, the first columns of the index (compared case-insensitively; a
// projection alias of the index column counts as that column).
func VerifC04IdxSortPrefixMatch() {
	perm := [6][3]int{{0, 1, 2}, {0, 2, 1}, {1, 0, 2}, {1, 2, 0}, {2, 0, 1}, {2, 1, 0}}[nd.Pick("c04pm.perm", 6)]
	k := nd.IntRange("c04pm.k", 1, 3)
	idxUpper := nd.Pick("c04pm.idxupper", 2) == 1
	idxCols := make([]string, k)
	for i := 0; i < k; i++ {
		idxCols[i] = "t." + c04Cols[perm[i]]
		if idxUpper {
			idxCols[i] = strings.ToUpper(idxCols[i])
		}
	}
	// 0: plain column references; 1: the select list aliases the first index
	// column as x and a sort key may be x; 2: sort keys are Alias nodes over the
	// column reference
	aliasMode := nd.Pick("c04pm.alias", 3)
	var sortAliases map[string]string
	if aliasMode == 1 {
		sortAliases = map[string]string{"t." + c04Cols[perm[0]]: "x"}
	}
	sortUpper := nd.Pick("c04pm.sortupper", 2) == 1
	n := nd.IntRange("c04pm.n", 1, nd.Bound(3, 4))
	sortExprs := make([]sql.Expression, n)
	ref := make([]int, n) // the column a sort key denotes
	for i := 0; i < n; i++ {
		choices := 4
		if aliasMode == 1 {
			choices = 5
		}
		c := nd.Pick(c04Name("c04pm.col", i), choices)
		if c == 4 {
			sortExprs[i] = expression.NewGetField(0, types.Int64, "x", true)
			ref[i] = perm[0]
			continue
		}
		ref[i] = c
		var e sql.Expression = c04Field(c, sortUpper)
		if aliasMode == 2 {
			e = expression.NewAlias(nil, "y", e)
		}
		sortExprs[i] = e
	}
	got := sortExprsMatchIdxColExprs(sortExprs, sortAliases, idxCols)
	nd.Reach("c04.idxsort.prefix-match")
	want := n <= k
	for i := 0; want && i < n; i++ {
		want = ref[i] == perm[i]
	}
	nd.Assert("c04.idxsort.prefix-match.only-index-prefix", !got || want)
	nd.Assert("c04.idxsort.prefix-match.accepts-index-prefix", !want || got)
}

// ---------------------------------------------------------------------------
// plan level: a stub table with stub indexes (package memory's tables need a
// session; the rule only uses the interfaces below)

type c04IdxBase struct {
	id   string
	cols []int
}

func (i *c04IdxBase) ID() string       { return i.id }
func (i *c04IdxBase) Database() string { return "db" }
func (i *c04IdxBase) Table() string    { return "t" }
func (i *c04IdxBase) Expressions() []string {
	out := make([]string, len(i.cols))
	for k, c := range i.cols {
		out[k] = "t." + c04Cols[c]
	}
	return out
}
func (i *c04IdxBase) IsUnique() bool          { return false }
func (i *c04IdxBase) IsSpatial() bool         { return false }
func (i *c04IdxBase) IsFullText() bool        { return false }
func (i *c04IdxBase) IsVector() bool          { return false }
func (i *c04IdxBase) Comment() string         { return "" }
func (i *c04IdxBase) IndexType() string       { return "BTREE" }
func (i *c04IdxBase) IsGenerated() bool       { return false }
func (i *c04IdxBase) PrefixLengths() []uint16 { return nil }
func (i *c04IdxBase) ColumnExpressionTypes(*sql.Context) []sql.ColumnExpressionType {
	out := make([]sql.ColumnExpressionType, len(i.cols))
	for k, c := range i.cols {
		out[k] = sql.ColumnExpressionType{Type: types.Int64, Expression: "t." + c04Cols[c]}
	}
	return out
}
func (i *c04IdxBase) CanSupport(*sql.Context, ...sql.Range) bool { return true }
func (i *c04IdxBase) CanSupportOrderBy(sql.Expression) bool      { return true }
func (i *c04IdxBase) CoversColumns([]string) bool                { return false }

// c04PlainIdx: an index that does not declare an order (no sql.OrderedIndex)
type c04PlainIdx struct{ c04IdxBase }

// c04OrdIdx: sql.OrderedIndex
type c04OrdIdx struct {
	c04IdxBase
	order      sql.IndexOrder
	reversible bool
}

func (i *c04OrdIdx) Order(*sql.Context) sql.IndexOrder { return i.order }
func (i *c04OrdIdx) Reversible(*sql.Context) bool      { return i.reversible }

type c04Tbl struct{ idxs []sql.Index }

func (t *c04Tbl) Name() string   { return "t" }
func (t *c04Tbl) String() string { return "t" }
func (t *c04Tbl) Schema(*sql.Context) sql.Schema {
	return sql.Schema{
		{Name: "a", Type: types.Int64, Nullable: true, Source: "t"},
		{Name: "b", Type: types.Int64, Nullable: true, Source: "t"},
		{Name: "c", Type: types.Int64, Nullable: true, Source: "t"},
	}
}
func (t *c04Tbl) Collation() sql.CollationID                         { return sql.Collation_Default }
func (t *c04Tbl) Partitions(*sql.Context) (sql.PartitionIter, error) { return nil, nil }
func (t *c04Tbl) PartitionRows(*sql.Context, sql.Partition) (sql.RowIter, error) {
	return nil, nil
}
func (t *c04Tbl) IndexedAccess(ctx *sql.Context, lookup sql.IndexLookup) sql.IndexedTable {
	return &c04IdxTbl{c04Tbl: t}
}
func (t *c04Tbl) GetIndexes(*sql.Context) ([]sql.Index, error) { return t.idxs, nil }
func (t *c04Tbl) PreciseMatch() bool                           { return true }

type c04IdxTbl struct{ *c04Tbl }

func (t *c04IdxTbl) LookupPartitions(*sql.Context, sql.IndexLookup) (sql.PartitionIter, error) {
	return nil, nil
}

type c04Db struct{ t *c04Tbl }

func (d *c04Db) Name() string { return "db" }
func (d *c04Db) GetTableInsensitive(ctx *sql.Context, name string) (sql.Table, bool, error) {
	if strings.EqualFold(name, "t") {
		return d.t, true, nil
	}
	return nil, false, nil
}
func (d *c04Db) GetTableNames(*sql.Context) ([]string, error) { return []string{"t"}, nil }

// c04Index: flavour 0 ordered + reversible, 1 ordered, not reversible,
// 2 declares IndexOrderNone, 3 is not an OrderedIndex at all
func c04Index(id string, flavour int, cols ...int) sql.Index {
	base := c04IdxBase{id: id, cols: cols}
	switch flavour {
	case 0:
		return &c04OrdIdx{c04IdxBase: base, order: sql.IndexOrderAsc, reversible: true}
	case 1:
		return &c04OrdIdx{c04IdxBase: base, order: sql.IndexOrderAsc, reversible: false}
	case 2:
		return &c04OrdIdx{c04IdxBase: base, order: sql.IndexOrderNone, reversible: true}
	default:
		return &c04PlainIdx{base}
	}
}

// c04Indexes: the indexes of the table, in GetIndexes order. The flavour
// applies to the first index; the others are ordered and reversible.
func c04Indexes(set, flavour int) []sql.Index {
	switch set {
	case 0:
		return []sql.Index{c04Index("ab", flavour, 0, 1)}
	case 1:
		return []sql.Index{c04Index("a", flavour, 0), c04Index("abc", 0, 0, 1, 2)}
	case 2:
		return []sql.Index{c04Index("ba", flavour, 1, 0), c04Index("ab", 0, 0, 1)}
	default:
		return nil
	}
}

// ---------------------------------------------------------------------------
// the order a plan guarantees

type c04Key struct {
	col  int
	desc bool
}

func c04ColOf(e sql.Expression) int {
	gf, ok := e.(*expression.GetField)
	if !ok {
		return -1
	}
	for i, c := range c04Cols {
		if strings.EqualFold(gf.Name(), c) {
			return i
		}
	}
	return -1
}

func c04SortKeys(s *plan.Sort) []c04Key {
	keys := make([]c04Key, len(s.SortConditions))
	for i, sc := range s.SortConditions {
		keys[i] = c04Key{col: c04ColOf(sc.Expr), desc: sc.Order == sql.Descending}
	}
	return keys
}

// c04Ranges describes the two-range lookups the harness builds: (a < x) and
// (a > y); as sets of rows they are disjoint, and (a < x) lies wholly before
// (a > y), iff x <= y.
type c04Ranges struct{ x, y int64 }

// c04ScanKeys: the order the rows of a static index scan are guaranteed to
// have, or ok=false when there is no such guarantee: the index must declare
// an order and a reverse scan needs a reversible index.
//
// listOk is a condition of its own on lookups with several ranges: the ranges
// are disjoint and listed in scan order. sql.NewIndexLookup reverses the list
// for a reverse scan, so the list order is part of the lookup for backends
// that scan range by range; the in-memory tables filter the index rows with
// the union of the ranges and do not depend on it.
func c04ScanKeys(ita *plan.IndexedTableAccess, rg c04Ranges) (keys []c04Key, ok, listOk bool) {
	lookup, _, err := ita.GetLookup(nil, nil)
	if err != nil {
		return nil, false, false
	}
	oi, isOrd := lookup.Index.(*c04OrdIdx)
	if !isOrd || oi.order != sql.IndexOrderAsc {
		return nil, false, false
	}
	if lookup.IsReverse && !oi.reversible {
		return nil, false, false
	}
	ranges, isMySQL := lookup.Ranges.(sql.MySQLRangeCollection)
	if !isMySQL || len(ranges) < 1 || len(ranges) > 2 {
		return nil, false, false
	}
	listOk = true
	if len(ranges) == 2 {
		// (a < x) has the type OpenOpen (NULL excluded), (a > y) GreaterThan
		first := ranges[0][0].Type()
		inScanOrder := first == sql.RangeType_OpenOpen
		if lookup.IsReverse {
			inScanOrder = first == sql.RangeType_GreaterThan
		}
		listOk = nd.And(inScanOrder, rg.x <= rg.y)
	}
	keys = make([]c04Key, len(oi.cols))
	for i, c := range oi.cols {
		keys[i] = c04Key{col: c, desc: lookup.IsReverse}
	}
	return keys, true, listOk
}

func c04Chain(n sql.Node) []sql.Node {
	var out []sql.Node
	for n != nil {
		out = append(out, n)
		ch := n.Children()
		if len(ch) != 1 {
			break
		}
		n = ch[0]
	}
	return out
}

type c04Guar struct {
	keys     []c04Key
	ok       bool // the rows are ordered by keys
	listOk   bool // index scan: see c04ScanKeys
	fromScan bool // the order comes from an index scan, not from a Sort
}

// c04Guaranteed: the order of the rows leaving chain[0]: that of the nearest
// Sort or index scan below, seen through Filter / Limit / Offset (which keep
// the order of their input); a plain table scan guarantees nothing.
func c04Guaranteed(chain []sql.Node, rg c04Ranges) c04Guar {
	for _, n := range chain {
		switch n := n.(type) {
		case *plan.Sort:
			return c04Guar{keys: c04SortKeys(n), ok: true, listOk: true}
		case *plan.IndexedTableAccess:
			keys, ok, listOk := c04ScanKeys(n, rg)
			return c04Guar{keys: keys, ok: ok, listOk: listOk, fromScan: true}
		case *plan.Filter, *plan.Limit, *plan.Offset:
		default:
			return c04Guar{}
		}
	}
	return c04Guar{}
}

// c04Provides: rows ordered by got (valid iff gotOk) are ordered by want.
func c04Provides(want, got []c04Key, gotOk bool) bool {
	if len(want) > len(got) {
		return false
	}
	ok := gotOk
	for i := range want {
		if want[i].col != got[i].col || want[i].col < 0 {
			return false
		}
		ok = nd.And(ok, nd.Iff(want[i].desc, got[i].desc))
	}
	return ok
}

// c04Validate runs the rule on the plan and validates the rewritten plan
// against the original one (translation validation). Both are chains.
func c04Validate(tag string, node sql.Node, rg c04Ranges) {
	ochain := c04Chain(node)
	// facts about the original plan, taken before the rule runs (the rule
	// reorders the range list of an existing lookup in place)
	oguar := make([]c04Guar, len(ochain)+1)
	for i := range ochain {
		oguar[i] = c04Guaranteed(ochain[i:], rg)
	}
	var oRangeTypes []sql.RangeType
	if ita, isIta := ochain[len(ochain)-1].(*plan.IndexedTableAccess); isIta {
		lookup, _, _ := ita.GetLookup(nil, nil)
		for _, r := range lookup.Ranges.(sql.MySQLRangeCollection) {
			oRangeTypes = append(oRangeTypes, r[0].Type())
		}
	}

	res, same, err := replaceIdxSort(nil, nil, node, nil, nil, nil)
	nd.Assert(tag+".no-error", err == nil && res != nil)
	if err != nil || res == nil {
		return
	}
	nd.Assert(tag+".same-tree-means-unchanged", same == transform.NewTree || res == node)

	rchain := c04Chain(res)
	shape, rows, order, orderNested, limitIn, rangeList := true, true, true, true, true, true
	removed := 0
	j := 0
	for i, on := range ochain {
		if j >= len(rchain) {
			shape = false
			break
		}
		rn := rchain[j]
		switch o := on.(type) {
		case *plan.Sort:
			if r, isSort := rn.(*plan.Sort); isSort && len(r.SortConditions) == len(o.SortConditions) && r.SortConditions[0].Expr == o.SortConditions[0].Expr {
				// the Sort is still there
				for q := range o.SortConditions {
					shape = nd.And(shape, nd.And(r.SortConditions[q].Expr == o.SortConditions[q].Expr, r.SortConditions[q].Order == o.SortConditions[q].Order))
				}
				j++
				continue
			}
			// the Sort was removed: what is below must provide its order
			removed++
			got := c04Guaranteed(rchain[j:], rg)
			provided := c04Provides(oguar[i].keys, got.keys, got.ok)
			nested := false
			for _, below := range ochain[i+1:] {
				if _, isSort := below.(*plan.Sort); isSort {
					nested = true
				}
			}
			if nested {
				orderNested = nd.And(orderNested, provided)
			} else {
				order = nd.And(order, provided)
			}
			rangeList = nd.And(rangeList, got.listOk)
		case *plan.Filter:
			r, is := rn.(*plan.Filter)
			shape = nd.And(shape, is && r.Expression == o.Expression)
			j++
		case *plan.Limit:
			r, is := rn.(*plan.Limit)
			shape = nd.And(shape, is && r.Limit == o.Limit)
			if in := oguar[i+1]; in.fromScan && in.ok {
				got := c04Guaranteed(rchain[j+1:], rg)
				limitIn = nd.And(limitIn, c04Provides(in.keys, got.keys, got.ok))
			}
			j++
		case *plan.Offset:
			r, is := rn.(*plan.Offset)
			shape = nd.And(shape, is && r.Offset == o.Offset)
			if in := oguar[i+1]; in.fromScan && in.ok {
				got := c04Guaranteed(rchain[j+1:], rg)
				limitIn = nd.And(limitIn, c04Provides(in.keys, got.keys, got.ok))
			}
			j++
		case *plan.ResolvedTable:
			if rn != on {
				// replaced by an index scan: of the same table, over all rows
				ita, is := rn.(*plan.IndexedTableAccess)
				shape = nd.And(shape, is)
				if is {
					lookup, _, _ := ita.GetLookup(nil, nil)
					ranges, isMySQL := lookup.Ranges.(sql.MySQLRangeCollection)
					it, isIdxTbl := ita.TableNode.UnderlyingTable().(*c04IdxTbl)
					all := isMySQL && len(ranges) == 1 && !lookup.IsEmptyRange && isIdxTbl && sql.Table(it.c04Tbl) == o.UnderlyingTable()
					if all {
						for _, ce := range ranges[0] {
							all = all && ce.Type() == sql.RangeType_All
						}
					}
					rows = nd.And(rows, all)
				}
			}
			j++
		case *plan.IndexedTableAccess:
			if rn != on {
				// replaced by another scan: same index, same set of ranges
				ita, is := rn.(*plan.IndexedTableAccess)
				shape = nd.And(shape, is)
				if is {
					lookup, _, _ := ita.GetLookup(nil, nil)
					ranges, isMySQL := lookup.Ranges.(sql.MySQLRangeCollection)
					sameSet := isMySQL && lookup.Index == o.Index() && len(ranges) == len(oRangeTypes)
					if sameSet && len(ranges) == 1 {
						sameSet = ranges[0][0].Type() == oRangeTypes[0]
					}
					if sameSet && len(ranges) == 2 {
						t0, t1 := ranges[0][0].Type(), ranges[1][0].Type()
						sameSet = (t0 == oRangeTypes[0] && t1 == oRangeTypes[1]) || (t0 == oRangeTypes[1] && t1 == oRangeTypes[0])
					}
					rows = nd.And(rows, sameSet)
				}
			}
			j++
		default:
			shape = false
		}
	}
	shape = nd.And(shape, j == len(rchain))
	if removed > 0 {
		nd.Reach(tag + ".sort-removed")
	} else {
		nd.Reach(tag + ".sort-kept")
	}
	nd.Assert(tag+".plan-otherwise-unchanged", shape)
	nd.Assert(tag+".no-row-lost", rows)
	nd.Assert(tag+".removed-sort-order-provided", order)
	// Input classes of their own, asserted last:
	// (1) the removed Sort has another Sort between itself and the scan
	nd.Assert(tag+".removed-sort-order-provided.other-sort-below", orderNested)
	// (2) a LIMIT / OFFSET whose input was ordered by an index scan in the
	// original plan (that is how this very rule leaves ORDER BY ... LIMIT
	// behind) must still see that order
	nd.Assert(tag+".limit-input-order-kept", limitIn)
	// (3) lookups with several ranges: see c04ScanKeys
	nd.Assert(tag+".range-list-in-scan-order", rangeList)
}

func c04SortConds(tag string, n int, upper bool) sql.SortConditions {
	scs := make(sql.SortConditions, n)
	for i := 0; i < n; i++ {
		col := nd.Pick(c04Name(tag+".col", i), 3)
		o := sql.Ascending
		if nd.Pick(c04Name(tag+".desc", i), 2) == 1 {
			o = sql.Descending
		}
		scs[i] = sql.SortCondition{Expr: c04Field(col, upper), Order: o}
	}
	return scs
}

func c04Filter(child sql.Node) sql.Node {
	return plan.NewFilter(nil, expression.NewGreaterThan(c04Field(1, false), expression.NewLiteral(int64(0), types.Int64)), child)
}

func c04Limit(child sql.Node) sql.Node {
	return plan.NewLimit(expression.NewLiteral(int64(2), types.Int64), child)
}

func c04Offset(child sql.Node) sql.Node {
	return plan.NewOffset(expression.NewLiteral(int64(1), types.Int64), child)
}

// ORDER BY over a table scan: Sort [Filter|Limit|Offset] ResolvedTable, with
// and without a LIMIT above.
func VerifC04IdxSortPlanTable() {
	const tag = "c04.idxsort.table"
	tbl := &c04Tbl{idxs: c04Indexes(nd.Pick(tag+".indexes", 4), nd.Pick(tag+".flavour", 4))}
	var rt sql.Node = plan.NewResolvedTable(tbl, &c04Db{tbl}, nil)
	upper := nd.Pick(tag+".upper", nd.Bound(1, 2)) == 1
	scs := c04SortConds(tag+".k", nd.IntRange(tag+".n", 1, nd.Bound(2, 3)), upper)
	var node sql.Node
	switch nd.Pick(tag+".shape", 5) {
	case 0:
		node = plan.NewSort(scs, rt)
	case 1:
		node = plan.NewSort(scs, c04Filter(rt))
	case 2:
		node = c04Limit(plan.NewSort(scs, rt))
	case 3:
		node = plan.NewSort(scs, c04Limit(rt))
	default:
		node = c04Limit(plan.NewSort(scs, c04Offset(c04Filter(rt))))
	}
	c04Validate(tag, node, c04Ranges{})
}

// Two ORDER BYs in one chain (the outer one of a derived table's parent query
// reaches the inner one through the SubqueryAlias case of the rule, which hands
// the alias's child chain to the same walk): Sort Offset Sort ResolvedTable.
func VerifC04IdxSortPlanNestedSorts() {
	const tag = "c04.idxsort.nested"
	flavour := [2]int{0, 2}[nd.Pick(tag+".flavour", 2)]
	tbl := &c04Tbl{idxs: c04Indexes(nd.Pick(tag+".indexes", 3), flavour)}
	var rt sql.Node = plan.NewResolvedTable(tbl, &c04Db{tbl}, nil)
	outer := c04SortConds(tag+".k", nd.IntRange(tag+".n", 1, nd.Bound(1, 2)), false)
	inner := c04SortConds(tag+".i", nd.IntRange(tag+".ni", 1, 2), false)
	c04Validate(tag, plan.NewSort(outer, c04Offset(plan.NewSort(inner, rt))), c04Ranges{})
}

// ORDER BY over an existing static index scan (as left by filter push-down, or
// by an earlier application of this rule): Sort [Filter|Limit] IndexedTableAccess.
func VerifC04IdxSortPlanIndexedAccess() {
	const tag = "c04.idxsort.scan"
	var idx sql.Index
	flavour := nd.Pick(tag+".flavour", 4)
	switch nd.Pick(tag+".index", 2) {
	case 0:
		idx = c04Index("ab", flavour, 0, 1)
	default:
		idx = c04Index("a", flavour, 0)
	}
	ncols := len(idx.Expressions())
	tbl := &c04Tbl{idxs: []sql.Index{idx}}
	rt := plan.NewResolvedTable(tbl, &c04Db{tbl}, nil)

	rg := c04Ranges{}
	mk := func(first sql.MySQLRangeColumnExpr) sql.MySQLRange {
		r := sql.MySQLRange{first}
		for len(r) < ncols {
			r = append(r, sql.AllRangeColumnExpr(types.Int64))
		}
		return r
	}
	var ranges sql.MySQLRangeCollection
	switch nd.Pick(tag+".ranges", 3) {
	case 0: // all rows
		ranges = sql.MySQLRangeCollection{mk(sql.AllRangeColumnExpr(types.Int64))}
	case 1: // a > y
		rg.y = nd.Int64(tag + ".y")
		ranges = sql.MySQLRangeCollection{mk(sql.GreaterThanRangeColumnExpr(rg.y, types.Int64))}
	default: // a < x OR a > y
		rg.x, rg.y = nd.Int64(tag+".x"), nd.Int64(tag+".y")
		ranges = sql.MySQLRangeCollection{mk(sql.LessThanRangeColumnExpr(rg.x, types.Int64)), mk(sql.GreaterThanRangeColumnExpr(rg.y, types.Int64))}
	}
	// the existing scan is a reverse one only over an ordered, reversible index
	reversed := flavour == 0 && nd.Pick(tag+".reversed", 2) == 1
	lookup := sql.NewIndexLookup(idx, ranges, false, false, false, reversed)
	ita, err := plan.NewStaticIndexedAccessForTableNode(nil, rt, lookup)
	if err != nil {
		nd.Assert(tag+".fixture", false)
		return
	}
	scs := c04SortConds(tag+".k", nd.IntRange(tag+".n", 1, 2), false)
	var node sql.Node
	switch nd.Pick(tag+".shape", 4) {
	case 0:
		node = plan.NewSort(scs, ita)
	case 1:
		node = plan.NewSort(scs, c04Filter(ita))
	case 2:
		node = plan.NewSort(scs, c04Limit(ita))
	default:
		node = c04Limit(plan.NewSort(scs, c04Offset(ita)))
	}
	c04Validate(tag, node, rg)
}
