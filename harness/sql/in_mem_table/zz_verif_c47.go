//go:build verif

package in_mem_table

import (
	nd "github.com/dolthub/go-mysql-server/internal/zzverifnd"
)

// C47: in-memory indexed sets behave like sets.
//
// Reference model: a BAG. The pinned TestIndexedSetCount documents that the
// same entry may be stored several times ("IndexedSet allows the same entry
// multiple times"), and TestIndexedSetRemove that Remove deletes every entry
// equal to its argument. The model is a fixed table of slots, one per
// operation that Put something, with an "alive" flag per slot:
//
//	Put(e)            slot s := e, alive[s] = true
//	Remove(e)         alive[s] = false for every slot equal to e; found iff one was alive
//	RemoveMany(kr,k)  alive[s] = false for every slot whose key under kr is k
//	Clear()           alive[s] = false for all s
//
// Every element carries a concrete tag (the number of the operation that put
// it) that takes no part in equality, so that the oracle can tell which stored
// object it is looking at: "index i holds the bag" is stated as "for every slot
// s, index i holds the object of slot s exactly once if alive[s], else not at
// all".

type c47Elem struct {
	a, b byte // the two key fields, symbolic in {0,1,2}
	tag  int  // concrete identity of the object, ignored by equality
}

func c47Eq(l, r *c47Elem) bool { return l.a == r.a && l.b == r.b }

type c47KeyA struct{}

func (c47KeyA) GetKey(e *c47Elem) any { return e.a }

type c47KeyB struct{}

func (c47KeyB) GetKey(e *c47Elem) any { return e.b }

var c47Keyers = []Keyer[*c47Elem]{c47KeyA{}, c47KeyB{}}

func c47Name(p string, i int) string { return p + string(rune('0'+i)) }

func c47Key(name string) byte {
	k := nd.Uint8(name)
	nd.Assume(k <= 2)
	return k
}

func c47B(b bool) int {
	r := 0
	if b {
		r = 1
	}
	return r
}

// the bag model
type c47Model struct {
	slot  []*c47Elem // slot[s] is the object put by the s-th Put
	alive []bool
}

func (m *c47Model) put(e *c47Elem) {
	m.slot = append(m.slot, e)
	m.alive = append(m.alive, true)
}

func (m *c47Model) count() int {
	c := 0
	for s := range m.slot {
		c += c47B(m.alive[s])
	}
	return c
}

// contains: some live slot has the key fields (a, b)
func (m *c47Model) contains(a, b byte) bool {
	r := false
	for s, e := range m.slot {
		r = nd.Or(r, nd.And(m.alive[s], nd.And(e.a == a, e.b == b)))
	}
	return r
}

// c47SameObjects: the sequence got holds, for every slot s, the object of slot
// s exactly once if want[s] and not at all otherwise — and nothing else.
func c47SameObjects(m *c47Model, got []*c47Elem, want []bool) bool {
	ok := true
	cnt := make([]int, len(m.slot))
	for _, e := range got {
		if e == nil || e.tag < 0 || e.tag >= len(m.slot) || m.slot[e.tag] != e {
			return false // not an object that was ever put
		}
		cnt[e.tag]++
	}
	for s := range m.slot {
		ok = nd.And(ok, cnt[s] == c47B(want[s]))
	}
	return ok
}

// c47CheckIndexes: every index holds exactly the live bag, every entry is
// filed under its own key, and Count is the size of the bag.
func c47CheckIndexes(id string, set IndexedSet[*c47Elem], m *c47Model) {
	for i := range set.Indexes {
		var got []*c47Elem
		set.Indexes[i].VisitEntries(func(e *c47Elem) { got = append(got, e) })
		nd.Assert(id+".every-index-holds-the-bag", c47SameObjects(m, got, m.alive))
		filed := true
		for k, vs := range set.Indexes[i].entries {
			for _, e := range vs {
				filed = nd.And(filed, k == set.Keyers[i].GetKey(e))
			}
		}
		nd.Assert(id+".entries-filed-under-own-key", filed)
	}
	nd.Assert(id+".count-is-bag-size", set.Count() == m.count())
}

// A history of up to 4 operations on an IndexedSet with two keyers, then every
// observer is compared with the model.
//
//	op 0 Put(e)  1 Remove(e)  2 RemoveMany(keyer A, e.a)  3 RemoveMany(keyer B, e.b)  4 Clear()
func VerifC47IndexedSetHistory() {
	c47SetHistory(0, nd.IntRange("n", 0, nd.Bound(3, 4)))
}

// The same from a populated set: 3 (thorough 3..4) elements are put first, then
// one arbitrary operation follows. Key fields are CONCRETE selectors here
// (a in {0,1}, b in {0,1,2}: every way three or four elements share or do not
// share keys, including three distinct elements under one key and duplicates),
// so each path runs without the solver.
func VerifC47IndexedSetPopulated() {
	pre := nd.IntRange("pre", 3, nd.Bound(3, 4))
	c47SetHistoryKeys(pre, 1, true)
}

func c47SetHistory(pre, n int) { c47SetHistoryKeys(pre, n, false) }

// c47SetHistory: pre Puts followed by n operations chosen by selector, then
// every observer is compared with the model.
func c47SetHistoryKeys(pre, n int, concrete bool) {
	set := NewIndexedSet(c47Eq, c47Keyers)
	m := &c47Model{}
	for i := 0; i < pre+n; i++ {
		op := 0
		if i >= pre {
			op = nd.Pick(c47Name("op", i), 5)
		}
		if op == 4 {
			set.Clear()
			for s := range m.alive {
				m.alive[s] = false
			}
			continue
		}
		var e *c47Elem
		if concrete {
			e = &c47Elem{a: byte(nd.Pick(c47Name("a", i), 2)), b: byte(nd.Pick(c47Name("b", i), 3)), tag: len(m.slot)}
		} else {
			e = &c47Elem{a: c47Key(c47Name("a", i)), b: c47Key(c47Name("b", i)), tag: len(m.slot)}
		}
		switch op {
		case 0:
			set.Put(e)
			m.put(e)
		case 1:
			e.tag = -1 // a probe object, never stored
			had := m.contains(e.a, e.b)
			res, found := set.Remove(e)
			nd.Assert("c47.set.remove.found-iff-present", found == had)
			if found {
				nd.Assert("c47.set.remove.returns-element", res != nil)
				if res != nil {
					nd.Assert("c47.set.remove.returns-equal-element", nd.And(res.a == e.a, res.b == e.b))
				}
			} else {
				nd.Assert("c47.set.remove.absent-returns-zero", res == nil)
			}
			for s, x := range m.slot {
				m.alive[s] = nd.And(m.alive[s], !nd.And(x.a == e.a, x.b == e.b))
			}
			// after Remove(e) no element equal to e remains, in any index
			for ix := range set.Indexes {
				none := true
				set.Indexes[ix].VisitEntries(func(x *c47Elem) { none = nd.And(none, !nd.And(x.a == e.a, x.b == e.b)) })
				nd.Assert("c47.set.remove.no-equal-element-remains", none)
			}
		case 2:
			set.RemoveMany(c47Keyers[0], e.a)
			for s, x := range m.slot {
				m.alive[s] = nd.And(m.alive[s], x.a != e.a)
			}
		case 3:
			set.RemoveMany(c47Keyers[1], e.b)
			for s, x := range m.slot {
				m.alive[s] = nd.And(m.alive[s], x.b != e.b)
			}
		}
	}
	nd.Reach("c47.set.history")

	// state: all indexes, Count
	c47CheckIndexes("c47.set", set, m)
	nd.Observe(set.Count())

	// observers, on a symbolic probe
	pa, pb := c47Key("pa"), c47Key("pb")
	probe := &c47Elem{a: pa, b: pb, tag: -1}
	wantA := make([]bool, len(m.slot))
	wantB := make([]bool, len(m.slot))
	for s, x := range m.slot {
		wantA[s] = nd.And(m.alive[s], x.a == pa)
		wantB[s] = nd.And(m.alive[s], x.b == pb)
	}
	gotA := set.GetMany(c47Keyers[0], pa)
	gotB := set.GetMany(c47Keyers[1], pb)
	nd.Observe(len(gotA), len(gotB))
	nd.Assert("c47.set.getmany.exactly-elements-with-key", c47SameObjects(m, gotA, wantA))
	nd.Assert("c47.set.getmany.exactly-elements-with-key", c47SameObjects(m, gotB, wantB))

	res, found := set.Get(probe)
	nd.Observe(found)
	nd.Assert("c47.set.get.found-iff-present", found == m.contains(pa, pb))
	if found {
		stored := res != nil && res.tag >= 0 && res.tag < len(m.slot) && m.slot[res.tag] == res
		nd.Assert("c47.set.get.returns-stored-element", stored)
		if stored {
			nd.Assert("c47.set.get.returns-live-equal-element", nd.And(m.alive[res.tag], nd.And(res.a == pa, res.b == pb)))
		}
	} else {
		nd.Assert("c47.set.get.absent-returns-zero", res == nil)
	}

	// observers do not change the state
	c47CheckIndexes("c47.set.after-observers", set, m)
}

// The MultiMap on its own: the key is chosen independently of the value.
//
//	op 0 Put(k,v)  1 Remove(k,v)  2 Clear()
func VerifC47MultiMapHistory() {
	n := nd.IntRange("n", 0, nd.Bound(3, 4))
	mm := NewMultiMap(c47Eq)
	m := &c47Model{}
	var keys []byte // keys[s]: the key slot s was put under
	for i := 0; i < n; i++ {
		op := nd.Pick(c47Name("op", i), 3)
		if op == 2 {
			mm.Clear()
			for s := range m.alive {
				m.alive[s] = false
			}
			continue
		}
		k := c47Key(c47Name("k", i))
		e := &c47Elem{a: c47Key(c47Name("a", i)), b: c47Key(c47Name("b", i)), tag: len(m.slot)}
		if op == 0 {
			mm.Put(k, e)
			m.put(e)
			keys = append(keys, k)
			continue
		}
		e.tag = -1
		had := false
		for s, x := range m.slot {
			hit := nd.And(nd.And(m.alive[s], keys[s] == k), nd.And(x.a == e.a, x.b == e.b))
			had = nd.Or(had, hit)
			m.alive[s] = nd.And(m.alive[s], !hit)
		}
		res, found := mm.Remove(k, e)
		nd.Assert("c47.multimap.remove.found-iff-present", found == had)
		if found {
			nd.Assert("c47.multimap.remove.returns-element", res != nil)
			if res != nil {
				nd.Assert("c47.multimap.remove.returns-equal-element", nd.And(res.a == e.a, res.b == e.b))
			}
		} else {
			nd.Assert("c47.multimap.remove.absent-returns-zero", res == nil)
		}
	}
	nd.Reach("c47.multimap.history")

	var all []*c47Elem
	mm.VisitEntries(func(e *c47Elem) { all = append(all, e) })
	nd.Observe(len(all))
	nd.Assert("c47.multimap.holds-the-bag", c47SameObjects(m, all, m.alive))

	pk, pa, pb := c47Key("pk"), c47Key("pa"), c47Key("pb")
	want := make([]bool, len(m.slot))
	present := false
	for s, x := range m.slot {
		want[s] = nd.And(m.alive[s], keys[s] == pk)
		present = nd.Or(present, nd.And(want[s], nd.And(x.a == pa, x.b == pb)))
	}
	got := mm.GetMany(pk)
	nd.Observe(len(got))
	nd.Assert("c47.multimap.getmany.exactly-elements-under-key", c47SameObjects(m, got, want))

	res, found := mm.Get(pk, &c47Elem{a: pa, b: pb, tag: -1})
	nd.Observe(found)
	nd.Assert("c47.multimap.get.found-iff-present", found == present)
	if found {
		stored := res != nil && res.tag >= 0 && res.tag < len(m.slot) && m.slot[res.tag] == res
		nd.Assert("c47.multimap.get.returns-stored-element", stored)
		if stored {
			nd.Assert("c47.multimap.get.returns-live-equal-element", nd.And(want[res.tag], nd.And(res.a == pa, res.b == pb)))
		}
	} else {
		nd.Assert("c47.multimap.get.absent-returns-zero", res == nil)
	}
}
