// Package solver drives a long-lived SMT solver process (z3 -in, z3-new -in,
// cvc5 --incremental) over SMT-LIB2 text, with per-query soft timeouts, a
// wall-clock watchdog, and detection of "(error" lines (always inconclusive).
package solver

import (
	"bufio"
	"fmt"
	"io"
	"os"
	"os/exec"
	"regexp"
	"strconv"
	"strings"
	"sync/atomic"
	"time"

	"verif/engine/sym"
)

type Result int

const (
	Unknown Result = iota
	Sat
	Unsat
)

func (r Result) String() string { return [...]string{"unknown", "sat", "unsat"}[r] }

type Stats struct {
	Queries  int
	Sat      int
	Unsat    int
	Unknown  int
	Errors   int
	Restarts int
	Time     time.Duration
	MaxQuery time.Duration
}

type Solver struct {
	Kind      string
	TimeoutMS int
	F         *sym.Factory
	Stats     Stats
	LastErr   string

	cmd    *exec.Cmd
	in     io.WriteCloser
	out    *bufio.Reader
	lines  chan string
	buf    strings.Builder
	levels []*level // assertion stack, level 0 is the base
	seq    int
	nq     int // queries since (re)start

	isDef      map[int]bool
	pendingPop bool
	curMS      int
	logf       *os.File
}

type level struct {
	asserts []*sym.Term
	defined []int // term ids defined at this level
}

func New(kind string, f *sym.Factory, timeoutMS int) (*Solver, error) {
	s := &Solver{Kind: kind, F: f, TimeoutMS: timeoutMS}
	s.levels = []*level{{}}
	if err := s.start(); err != nil {
		return nil, err
	}
	return s, nil
}

func (s *Solver) start() error {
	var cmd *exec.Cmd
	switch s.Kind {
	case "z3":
		cmd = exec.Command("z3", "-in", "-smt2")
	case "z3-new":
		cmd = exec.Command("z3-new", "-in", "-smt2")
	case "cvc5":
		cmd = exec.Command("cvc5", "--incremental", "--produce-models", "--lang=smt2", fmt.Sprintf("--tlimit-per=%d", s.TimeoutMS))
	default:
		return fmt.Errorf("unknown solver kind %q", s.Kind)
	}
	in, err := cmd.StdinPipe()
	if err != nil {
		return err
	}
	out, err := cmd.StdoutPipe()
	if err != nil {
		return err
	}
	cmd.Stderr = cmd.Stdout
	if err := cmd.Start(); err != nil {
		return err
	}
	s.cmd, s.in = cmd, in
	s.out = bufio.NewReaderSize(out, 1<<16)
	s.lines = make(chan string, 256)
	go func(r *bufio.Reader, ch chan string) {
		for {
			l, err := r.ReadString('\n')
			if l != "" {
				ch <- strings.TrimRight(l, "\r\n")
			}
			if err != nil {
				close(ch)
				return
			}
		}
	}(s.out, s.lines)
	s.isDef = map[int]bool{}
	s.nq = 0
	s.curMS = s.TimeoutMS
	s.buf.Reset()
	if s.Kind == "cvc5" {
		s.buf.WriteString("(set-logic ALL)\n")
	} else {
		s.buf.WriteString("(set-option :produce-models true)\n")
		fmt.Fprintf(&s.buf, "(set-option :timeout %d)\n", s.TimeoutMS)
	}
	return nil
}

func (s *Solver) Close() {
	if s.cmd != nil {
		s.in.Close()
		s.cmd.Process.Kill()
		s.cmd.Wait()
		s.cmd = nil
	}
}

// restart kills the process and replays the assertion stack.
// Restart replaces the solver process (only at assertion depth 0).
func (s *Solver) Restart() {
	if s.Depth() == 0 && s.nq > 0 {
		s.restart()
		s.Stats.Restarts--
	}
}

func (s *Solver) restart() {
	s.Close()
	s.Stats.Restarts++
	if err := s.start(); err != nil {
		panic(err)
	}
	old := s.levels
	s.levels = []*level{{}}
	for i, lv := range old {
		if i > 0 {
			s.Push()
		}
		for _, a := range lv.asserts {
			s.Assert(a)
		}
	}
}

func (s *Solver) Depth() int { return len(s.levels) - 1 }

func (s *Solver) Push() {
	s.buf.WriteString("(push 1)\n")
	s.levels = append(s.levels, &level{})
}

func (s *Solver) Pop() {
	top := s.levels[len(s.levels)-1]
	for _, id := range top.defined {
		delete(s.isDef, id)
	}
	s.levels = s.levels[:len(s.levels)-1]
	s.buf.WriteString("(pop 1)\n")
}

// PopTo pops until Depth()==d.
func (s *Solver) PopTo(d int) {
	for s.Depth() > d {
		s.Pop()
	}
}

func sortOf(w int) string {
	if w == 0 {
		return "Bool"
	}
	return fmt.Sprintf("(_ BitVec %d)", w)
}

func (s *Solver) ref(t *sym.Term) string {
	switch t.Op {
	case sym.OpConst:
		if t.W == 0 {
			if t.Val != 0 {
				return "true"
			}
			return "false"
		}
		return fmt.Sprintf("(_ bv%d %d)", t.Val, t.W)
	case sym.OpVar:
		return "v" + strconv.Itoa(t.ID)
	}
	return "t" + strconv.Itoa(t.ID)
}

var smtOps = map[sym.Op]string{
	sym.OpNot: "not", sym.OpAnd: "and", sym.OpOr: "or", sym.OpIte: "ite", sym.OpEq: "=",
	sym.OpAdd: "bvadd", sym.OpSub: "bvsub", sym.OpMul: "bvmul", sym.OpUDiv: "bvudiv", sym.OpSDiv: "bvsdiv",
	sym.OpURem: "bvurem", sym.OpSRem: "bvsrem", sym.OpBAnd: "bvand", sym.OpBOr: "bvor", sym.OpBXor: "bvxor",
	sym.OpBNot: "bvnot", sym.OpNeg: "bvneg", sym.OpShl: "bvshl", sym.OpLShr: "bvlshr", sym.OpAShr: "bvashr",
	sym.OpUlt: "bvult", sym.OpUle: "bvule", sym.OpSlt: "bvslt", sym.OpSle: "bvsle", sym.OpConcat: "concat",
}

// define makes sure t (and its sub-terms) are declared/defined in the solver.
func (s *Solver) define(t *sym.Term) {
	if t.Op == sym.OpConst || s.isDef[t.ID] {
		return
	}
	// iterative post-order to avoid deep recursion on long chains
	type fr struct {
		t *sym.Term
		i int
	}
	stack := []fr{{t, 0}}
	for len(stack) > 0 {
		top := &stack[len(stack)-1]
		if top.i < len(top.t.Args) {
			a := top.t.Args[top.i]
			top.i++
			if a.Op != sym.OpConst && !s.isDef[a.ID] {
				stack = append(stack, fr{a, 0})
			}
			continue
		}
		x := top.t
		stack = stack[:len(stack)-1]
		if s.isDef[x.ID] {
			continue
		}
		s.emitDef(x)
		s.isDef[x.ID] = true
		lv := s.levels[len(s.levels)-1]
		lv.defined = append(lv.defined, x.ID)
	}
}

func (s *Solver) emitDef(x *sym.Term) {
	b := &s.buf
	switch x.Op {
	case sym.OpVar:
		fmt.Fprintf(b, "(declare-const v%d %s)\n", x.ID, sortOf(x.W))
		return
	case sym.OpUF:
		key := -1 - ufIndex(s, x.Name)
		if !s.isDef[key] {
			sig := s.F.UFs[x.Name]
			fmt.Fprintf(b, "(declare-fun %s (", x.Name)
			for i := 0; i < len(sig)-1; i++ {
				b.WriteString(sortOf(sig[i]))
				b.WriteByte(' ')
			}
			fmt.Fprintf(b, ") %s)\n", sortOf(sig[len(sig)-1]))
			s.isDef[key] = true
			lv := s.levels[len(s.levels)-1]
			lv.defined = append(lv.defined, key)
		}
		fmt.Fprintf(b, "(define-fun t%d () %s (%s", x.ID, sortOf(x.W), x.Name)
		for _, a := range x.Args {
			b.WriteByte(' ')
			b.WriteString(s.ref(a))
		}
		b.WriteString("))\n")
		return
	}
	fmt.Fprintf(b, "(define-fun t%d () %s ", x.ID, sortOf(x.W))
	switch x.Op {
	case sym.OpExtract:
		fmt.Fprintf(b, "((_ extract %d %d) %s)", x.Val>>16, x.Val&0xffff, s.ref(x.Args[0]))
	case sym.OpZext:
		fmt.Fprintf(b, "((_ zero_extend %d) %s)", x.W-x.Args[0].W, s.ref(x.Args[0]))
	case sym.OpSext:
		fmt.Fprintf(b, "((_ sign_extend %d) %s)", x.W-x.Args[0].W, s.ref(x.Args[0]))
	default:
		b.WriteByte('(')
		b.WriteString(smtOps[x.Op])
		for _, a := range x.Args {
			b.WriteByte(' ')
			b.WriteString(s.ref(a))
		}
		b.WriteByte(')')
	}
	b.WriteString(")\n")
}

func ufIndex(s *Solver, name string) int {
	for i, n := range s.F.UFOrder {
		if n == name {
			return i
		}
	}
	return len(s.F.UFOrder)
}

func (s *Solver) Assert(t *sym.Term) {
	s.define(t)
	fmt.Fprintf(&s.buf, "(assert %s)\n", s.ref(t))
	lv := s.levels[len(s.levels)-1]
	lv.asserts = append(lv.asserts, t)
}

var smtLogSeq int32

func (s *Solver) flush() error {
	if dir := os.Getenv("VERIF_SMTLOG"); dir != "" {
		if s.logf == nil {
			n := atomic.AddInt32(&smtLogSeq, 1)
			s.logf, _ = os.Create(fmt.Sprintf("%s/solver-%d-%d.smt2", dir, os.Getpid(), n))
		}
		if s.logf != nil {
			fmt.Fprintf(s.logf, "; t=%s\n%s", time.Now().Format("15:04:05.000"), s.buf.String())
		}
	}
	_, err := io.WriteString(s.in, s.buf.String())
	s.buf.Reset()
	return err
}

// roundTrip sends the buffered text plus cmd and reads output lines until the
// echo marker. ok=false on process death or watchdog expiry.
func (s *Solver) roundTrip(cmd string) ([]string, bool) {
	s.seq++
	marker := fmt.Sprintf("DONE-%d", s.seq)
	s.buf.WriteString(cmd)
	fmt.Fprintf(&s.buf, "\n(echo \"%s\")\n", marker)
	if err := s.flush(); err != nil {
		return nil, false
	}
	var res []string
	deadline := time.NewTimer(time.Duration(s.curMS)*time.Millisecond + 10*time.Second)
	defer deadline.Stop()
	for {
		select {
		case l, ok := <-s.lines:
			if !ok {
				return res, false
			}
			if strings.Contains(l, marker) {
				return res, true
			}
			res = append(res, l)
		case <-deadline.C:
			return res, false
		}
	}
}

// Check runs check-sat on the current stack plus extra assumptions (asserted
// in a temporary scope when extra is non-empty).
func (s *Solver) Check(extra ...*sym.Term) Result { return s.CheckT(0, extra...) }

// CheckT is Check with a per-query soft timeout override (ms; 0 = default).
func (s *Solver) CheckT(ms int, extra ...*sym.Term) Result {
	t0 := time.Now()
	if ms <= 0 {
		ms = s.TimeoutMS
	}
	if ms != s.curMS && s.Kind != "cvc5" {
		fmt.Fprintf(&s.buf, "(set-option :timeout %d)\n", ms)
		s.curMS = ms
	}
	if s.nq > 4000 && s.Depth() == 0 {
		s.restart() // bound solver memory growth from accumulated definitions
		s.Stats.Restarts--
	}
	s.nq++
	if len(extra) > 0 {
		s.Push()
		for _, e := range extra {
			s.Assert(e)
		}
	}
	lines, ok := s.roundTrip("(check-sat)")
	r := Unknown
	if !ok {
		s.LastErr = "solver process died or watchdog expired"
		s.Stats.Errors++
		if len(extra) > 0 {
			// drop the temporary level from our record before replaying
			s.levels = s.levels[:len(s.levels)-1]
		}
		s.restart()
		s.account(r, t0)
		return r
	}
	hasErr := false
	for _, l := range lines {
		switch {
		case strings.Contains(l, "(error"):
			hasErr = true
			s.LastErr = l
		case l == "sat":
			r = Sat
		case l == "unsat":
			r = Unsat
		}
	}
	if hasErr {
		r = Unknown
		s.Stats.Errors++
	}
	if len(extra) > 0 && r != Sat {
		s.Pop()
	}
	if hasErr {
		// z3 drops a command it reports an error for and carries on: from here on its assertion stack may
		// be weaker than the one recorded in s.levels. Start a fresh process and replay the recorded stack.
		s.restart()
	}
	// when Sat with extras the temporary level is kept so the caller can read
	// the model; caller must call EndModel.
	s.pendingPop = len(extra) > 0 && r == Sat
	s.account(r, t0)
	return r
}

func (s *Solver) account(r Result, t0 time.Time) {
	d := time.Since(t0)
	s.Stats.Queries++
	s.Stats.Time += d
	if d > s.Stats.MaxQuery {
		s.Stats.MaxQuery = d
	}
	switch r {
	case Sat:
		s.Stats.Sat++
	case Unsat:
		s.Stats.Unsat++
	default:
		s.Stats.Unknown++
	}
}

// EndModel pops the temporary level left by a Sat Check with extras.
func (s *Solver) EndModel() {
	if s.pendingPop {
		s.Pop()
		s.pendingPop = false
	}
}

var pairRe = regexp.MustCompile(`\(\s*v(\d+)\s+(#x[0-9a-fA-F]+|#b[01]+|true|false|\(_ bv(\d+) \d+\))\s*\)`)

// Model returns values of the given variables (by name) after a Sat result.
// Variables wider than 64 bits are skipped.
func (s *Solver) Model(vars []*sym.Term) (map[string]uint64, bool) {
	res := map[string]uint64{}
	byID := map[int]*sym.Term{}
	var names []string
	for _, v := range vars {
		if v.W > 64 || !s.isDef[v.ID] {
			continue
		}
		byID[v.ID] = v
		names = append(names, "v"+strconv.Itoa(v.ID))
	}
	for i := 0; i < len(names); i += 200 {
		j := i + 200
		if j > len(names) {
			j = len(names)
		}
		lines, ok := s.roundTrip("(get-value (" + strings.Join(names[i:j], " ") + "))")
		if !ok {
			return res, false
		}
		txt := strings.Join(lines, " ")
		if os.Getenv("VERIF_DEBUGCE") != "" {
			fmt.Fprintf(os.Stderr, "DEBUGMODEL names=%d reply=%.300s\n", len(names), txt)
		}
		if strings.Contains(txt, "(error") {
			s.LastErr = txt
			return res, false
		}
		for _, m := range pairRe.FindAllStringSubmatch(txt, -1) {
			id, _ := strconv.Atoi(m[1])
			v := byID[id]
			if v == nil {
				continue
			}
			var val uint64
			switch {
			case m[2] == "true":
				val = 1
			case m[2] == "false":
				val = 0
			case strings.HasPrefix(m[2], "#x"):
				val, _ = strconv.ParseUint(m[2][2:], 16, 64)
			case strings.HasPrefix(m[2], "#b"):
				val, _ = strconv.ParseUint(m[2][2:], 2, 64)
			default:
				val, _ = strconv.ParseUint(m[3], 10, 64)
			}
			res[v.Name] = val
		}
	}
	return res, true
}
