package sym
import ("testing";"math/rand")
func TestPow2Rewrites(t *testing.T){
	f:=NewFactory()
	r:=rand.New(rand.NewSource(1))
	for _,w:=range []int{8,16,32,64}{
		x:=f.Var("x",w)
		for k:=1;k<w;k++{
			c:=f.Const(w,uint64(1)<<uint(k))
			for _,op:=range []Op{OpMul,OpUDiv,OpURem,OpSDiv,OpSRem}{
				term:=f.binBV(op,x,c)
				for i:=0;i<200;i++{
					v:=r.Uint64()&mask(w)
					if i<4 { v=[]uint64{0,mask(w),uint64(1)<<uint(w-1),(uint64(1)<<uint(w-1))-1}[i] }
					got,ok:=Eval(term,map[string]uint64{"x":v}); if !ok {t.Fatal("eval")}
					want:=f.binBV(op,f.Const(w,v),c).Val
					if got!=want {t.Fatalf("w=%d k=%d op=%v v=%x got=%x want=%x",w,k,op,v,got,want)}
				}
			}
		}
	}
}
