package sym

// Simplifications that keep table lookups and bounds checks away from the
// solver.
//
//  1. Const-leaf ite trees ("CLT"): a symbolic index into a table of
//     constants is ite(i==0, t0, ite(i==1, t1, …)). Applying an operation
//     with a constant other operand (==k, <k, +k, <<k, zext, extract, …) to
//     such a tree is pushed into the leaves, where it folds. Chained lookups
//     (hex digit → nibble → byte) therefore collapse instead of nesting.
//  2. Unsigned ranges: a cheap interval for a term (zext, extract, and-mask,
//     ite) decides comparisons such as zext8(x) < 256 syntactically.

const cltMaxLeaves = 600

// cltSize returns the number of leaves if t is a const-leaf ite tree (a plain
// constant counts as 1), else 0.
func (f *Factory) cltSize(t *Term) int {
	if t.Op == OpConst {
		return 1
	}
	if t.Op != OpIte || t.W == 0 || t.W > 64 {
		return 0
	}
	if f.clt == nil {
		f.clt = map[*Term]int{}
	}
	if n, ok := f.clt[t]; ok {
		return n
	}
	n := 0
	a, b := f.cltSize(t.Args[1]), f.cltSize(t.Args[2])
	if a > 0 && b > 0 && a+b <= cltMaxLeaves {
		n = a + b
	}
	f.clt[t] = n
	return n
}

// isCLT reports a proper (non-constant) const-leaf ite tree.
func (f *Factory) isCLT(t *Term) bool { return t.Op == OpIte && f.cltSize(t) > 0 }

// mapCLT rebuilds the tree with fn applied to every leaf.
func (f *Factory) mapCLT(t *Term, fn func(*Term) *Term) *Term {
	memo := map[*Term]*Term{}
	var rec func(*Term) *Term
	rec = func(x *Term) *Term {
		if x.Op == OpConst {
			return fn(x)
		}
		if r, ok := memo[x]; ok {
			return r
		}
		r := f.Ite(x.Args[0], rec(x.Args[1]), rec(x.Args[2]))
		memo[x] = r
		return r
	}
	return rec(t)
}

// urange returns unsigned bounds of t (W <= 64); ok=false when nothing better
// than the full range is known cheaply.
func (f *Factory) urange(t *Term, depth int) (lo, hi uint64, ok bool) {
	if t.W == 0 || t.W > 64 {
		return 0, 0, false
	}
	full := mask(t.W)
	switch t.Op {
	case OpConst:
		return t.Val, t.Val, true
	case OpZext:
		in := t.Args[0]
		if in.W > 64 {
			return 0, 0, false
		}
		if l, h, ok := f.urange(in, depth+1); ok {
			return l, h, true
		}
		return 0, mask(in.W), in.W < t.W
	case OpIte:
		if depth > 12 {
			return 0, 0, false
		}
		if n := f.cltSize(t); n > 0 {
			if r, ok := f.cltRange[t]; ok {
				return r[0], r[1], true
			}
			lo, hi = full, 0
			seen := map[*Term]bool{}
			var rec func(*Term)
			rec = func(x *Term) {
				if x.Op == OpConst {
					if x.Val < lo {
						lo = x.Val
					}
					if x.Val > hi {
						hi = x.Val
					}
					return
				}
				if seen[x] {
					return
				}
				seen[x] = true
				rec(x.Args[1])
				rec(x.Args[2])
			}
			rec(t)
			if f.cltRange == nil {
				f.cltRange = map[*Term][2]uint64{}
			}
			f.cltRange[t] = [2]uint64{lo, hi}
			return lo, hi, true
		}
		l1, h1, ok1 := f.urange(t.Args[1], depth+1)
		l2, h2, ok2 := f.urange(t.Args[2], depth+1)
		if !ok1 || !ok2 {
			return 0, 0, false
		}
		if l2 < l1 {
			l1 = l2
		}
		if h2 > h1 {
			h1 = h2
		}
		return l1, h1, true
	case OpBAnd:
		for _, a := range t.Args {
			if a.Op == OpConst {
				return 0, a.Val, a.Val != full
			}
		}
	case OpURem:
		if b := t.Args[1]; b.Op == OpConst && b.Val > 0 {
			return 0, b.Val - 1, true
		}
	case OpLShr:
		if b := t.Args[1]; b.Op == OpConst && b.Val > 0 && b.Val < uint64(t.W) {
			return 0, full >> b.Val, true
		}
	case OpExtract:
		// result already has the narrow width: nothing beyond the full range
	}
	return 0, 0, false
}

// foldCmpRange decides an unsigned comparison from ranges.
func (f *Factory) foldCmpRange(op Op, a, b *Term) *Term {
	la, ha, ok1 := f.urange(a, 0)
	lb, hb, ok2 := f.urange(b, 0)
	if !ok1 && !ok2 {
		return nil
	}
	if !ok1 {
		la, ha = 0, mask(a.W)
	}
	if !ok2 {
		lb, hb = 0, mask(b.W)
	}
	switch op {
	case OpUlt:
		if ha < lb {
			return f.True
		}
		if la >= hb {
			return f.False
		}
	case OpUle:
		if ha <= lb {
			return f.True
		}
		if la > hb {
			return f.False
		}
	case OpEq:
		if ha < lb || hb < la {
			return f.False
		}
	case OpSlt, OpSle:
		// valid when both ranges stay in the non-negative half
		half := uint64(1) << uint(a.W-1)
		if ha < half && hb < half {
			if op == OpSlt {
				return f.foldCmpRange(OpUlt, a, b)
			}
			return f.foldCmpRange(OpUle, a, b)
		}
	}
	return nil
}

// IsCLT reports whether t is a (non-constant) ite tree whose leaves are all constants.
func (f *Factory) IsCLT(t *Term) bool { return f.isCLT(t) }

// CLTParts exposes the structure of a const-leaf ite tree node.
func (f *Factory) CLTParts(t *Term) (cond, a, b *Term) { return t.Args[0], t.Args[1], t.Args[2] }
