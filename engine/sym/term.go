// Package sym implements hash-consed SMT terms (booleans and fixed-width
// bit-vectors) with constant folding, an SMT-LIB2 printer and an evaluator.
package sym

import (
	"fmt"
	"math/bits"
	"strings"
)

type Op uint8

const (
	OpConst Op = iota // Val, W (W==0: bool)
	OpVar             // Name, W
	OpNot
	OpAnd
	OpOr
	OpIte // bool or bv
	OpEq
	OpAdd
	OpSub
	OpMul
	OpUDiv
	OpSDiv
	OpURem
	OpSRem
	OpBAnd
	OpBOr
	OpBXor
	OpBNot
	OpNeg
	OpShl
	OpLShr
	OpAShr
	OpUlt
	OpUle
	OpSlt
	OpSle
	OpConcat
	OpExtract // Val = hi<<8|lo
	OpZext    // to W
	OpSext    // to W
	OpUF      // Name, Args, W
)

var opNames = [...]string{"const", "var", "not", "and", "or", "ite", "=", "bvadd", "bvsub", "bvmul", "bvudiv", "bvsdiv", "bvurem", "bvsrem",
	"bvand", "bvor", "bvxor", "bvnot", "bvneg", "bvshl", "bvlshr", "bvashr", "bvult", "bvule", "bvslt", "bvsle", "concat", "extract", "zext", "sext", "uf"}

// Term is an immutable hash-consed node. W==0 means Bool, otherwise a
// bit-vector of width W (W may exceed 64; constants never do).
type Term struct {
	Op   Op
	W    int
	Val  uint64
	Name string
	Args []*Term
	ID   int
}

func (t *Term) IsConst() bool { return t.Op == OpConst }
func (t *Term) IsBool() bool  { return t.W == 0 }

// Factory owns a hash-cons table. Not safe for concurrent use.
type Factory struct {
	tab    map[string]*Term
	nextID int
	True   *Term
	False  *Term
	// UF signatures: name -> (arg widths, result width)
	UFs     map[string][]int
	UFOrder []string
	Vars    []*Term

	clt      map[*Term]int
	cltRange map[*Term][2]uint64
}

func NewFactory() *Factory {
	f := &Factory{tab: map[string]*Term{}, UFs: map[string][]int{}}
	f.True = f.mk(OpConst, 0, 1, "", nil)
	f.False = f.mk(OpConst, 0, 0, "", nil)
	return f
}

func (f *Factory) NumTerms() int { return f.nextID }

func (f *Factory) mk(op Op, w int, val uint64, name string, args []*Term) *Term {
	var sb strings.Builder
	sb.Grow(24 + 8*len(args) + len(name))
	sb.WriteByte(byte(op))
	sb.WriteByte(byte(w))
	sb.WriteByte(byte(w >> 8))
	var b [8]byte
	for i := 0; i < 8; i++ {
		b[i] = byte(val >> (8 * i))
	}
	sb.Write(b[:])
	sb.WriteString(name)
	for _, a := range args {
		sb.WriteByte(0)
		id := a.ID
		sb.WriteByte(byte(id))
		sb.WriteByte(byte(id >> 8))
		sb.WriteByte(byte(id >> 16))
		sb.WriteByte(byte(id >> 24))
	}
	k := sb.String()
	if t, ok := f.tab[k]; ok {
		return t
	}
	t := &Term{Op: op, W: w, Val: val, Name: name, Args: args, ID: f.nextID}
	f.nextID++
	f.tab[k] = t
	if op == OpVar {
		f.Vars = append(f.Vars, t)
	}
	return t
}

func mask(w int) uint64 {
	if w >= 64 {
		return ^uint64(0)
	}
	return (uint64(1) << uint(w)) - 1
}

func sext64(v uint64, w int) int64 {
	if w >= 64 {
		return int64(v)
	}
	sh := uint(64 - w)
	return int64(v<<sh) >> sh
}

// Const makes a bit-vector constant (w in 1..64).
func (f *Factory) Const(w int, v uint64) *Term {
	if w <= 0 || w > 64 {
		panic(fmt.Sprintf("sym.Const: bad width %d", w))
	}
	return f.mk(OpConst, w, v&mask(w), "", nil)
}

func (f *Factory) Bool(b bool) *Term {
	if b {
		return f.True
	}
	return f.False
}

func (f *Factory) Var(name string, w int) *Term { return f.mk(OpVar, w, 0, name, nil) }

func (f *Factory) Not(a *Term) *Term {
	if a.Op == OpConst {
		return f.Bool(a.Val == 0)
	}
	if a.Op == OpNot {
		return a.Args[0]
	}
	return f.mk(OpNot, 0, 0, "", []*Term{a})
}

func (f *Factory) And(a, b *Term) *Term {
	if a.Op == OpConst {
		if a.Val == 0 {
			return f.False
		}
		return b
	}
	if b.Op == OpConst {
		if b.Val == 0 {
			return f.False
		}
		return a
	}
	if a == b {
		return a
	}
	if a.ID > b.ID {
		a, b = b, a
	}
	return f.mk(OpAnd, 0, 0, "", []*Term{a, b})
}

func (f *Factory) Or(a, b *Term) *Term {
	if a.Op == OpConst {
		if a.Val != 0 {
			return f.True
		}
		return b
	}
	if b.Op == OpConst {
		if b.Val != 0 {
			return f.True
		}
		return a
	}
	if a == b {
		return a
	}
	if a.ID > b.ID {
		a, b = b, a
	}
	return f.mk(OpOr, 0, 0, "", []*Term{a, b})
}

func (f *Factory) Implies(a, b *Term) *Term { return f.Or(f.Not(a), b) }

func (f *Factory) Ite(c, a, b *Term) *Term {
	if c.Op == OpConst {
		if c.Val != 0 {
			return a
		}
		return b
	}
	if a == b {
		return a
	}
	if a.W != b.W {
		panic(fmt.Sprintf("sym.Ite: width mismatch %d vs %d", a.W, b.W))
	}
	if a.W == 0 {
		if a.Op == OpConst && b.Op == OpConst {
			if a.Val != 0 {
				return c
			}
			return f.Not(c)
		}
		if a.Op == OpConst {
			if a.Val != 0 {
				return f.Or(c, b)
			}
			return f.And(f.Not(c), b)
		}
		if b.Op == OpConst {
			if b.Val != 0 {
				return f.Or(f.Not(c), a)
			}
			return f.And(c, a)
		}
	}
	return f.mk(OpIte, a.W, 0, "", []*Term{c, a, b})
}

func (f *Factory) Eq(a, b *Term) *Term {
	if a.W != b.W {
		panic(fmt.Sprintf("sym.Eq: width mismatch %d vs %d (%s, %s)", a.W, b.W, a, b))
	}
	if a == b {
		return f.True
	}
	if a.Op == OpConst && b.Op == OpConst {
		return f.Bool(a.Val == b.Val)
	}
	if a.W == 0 {
		if a.Op == OpConst {
			if a.Val != 0 {
				return b
			}
			return f.Not(b)
		}
		if b.Op == OpConst {
			if b.Val != 0 {
				return a
			}
			return f.Not(a)
		}
	}
	// eq(ite(c, k1, k2), k) with constants folds to c / not c
	if b.Op == OpConst && a.Op == OpIte && a.Args[1].Op == OpConst && a.Args[2].Op == OpConst {
		t1 := a.Args[1].Val == b.Val
		t2 := a.Args[2].Val == b.Val
		switch {
		case t1 && t2:
			return f.True
		case t1:
			return a.Args[0]
		case t2:
			return f.Not(a.Args[0])
		default:
			return f.False
		}
	}
	if a.Op == OpConst && b.Op == OpIte {
		return f.Eq(b, a)
	}
	if a.W > 0 && a.W <= 64 {
		if b.Op == OpConst && f.isCLT(a) {
			return f.mapCLT(a, func(l *Term) *Term { return f.Bool(l.Val == b.Val) })
		}
		if a.Op == OpConst && f.isCLT(b) {
			return f.mapCLT(b, func(l *Term) *Term { return f.Bool(l.Val == a.Val) })
		}
		if r := f.foldCmpRange(OpEq, a, b); r != nil {
			return r
		}
	}
	if a.ID > b.ID {
		a, b = b, a
	}
	return f.mk(OpEq, 0, 0, "", []*Term{a, b})
}

func (f *Factory) binBV(op Op, a, b *Term) *Term {
	if a.W != b.W {
		panic(fmt.Sprintf("sym.%s: width mismatch %d vs %d", opNames[op], a.W, b.W))
	}
	w := a.W
	if a.Op == OpConst && b.Op == OpConst && w <= 64 {
		x, y := a.Val, b.Val
		var r uint64
		switch op {
		case OpAdd:
			r = x + y
		case OpSub:
			r = x - y
		case OpMul:
			r = x * y
		case OpUDiv:
			if y == 0 {
				r = mask(w)
			} else {
				r = x / y
			}
		case OpURem:
			if y == 0 {
				r = x
			} else {
				r = x % y
			}
		case OpSDiv:
			sx, sy := sext64(x, w), sext64(y, w)
			if sy == 0 {
				if sx < 0 {
					r = 1
				} else {
					r = mask(w)
				}
			} else if sy == -1 {
				r = uint64(-sx)
			} else {
				r = uint64(sx / sy)
			}
		case OpSRem:
			sx, sy := sext64(x, w), sext64(y, w)
			if sy == 0 {
				r = x
			} else if sy == -1 {
				r = 0
			} else {
				r = uint64(sx % sy)
			}
		case OpBAnd:
			r = x & y
		case OpBOr:
			r = x | y
		case OpBXor:
			r = x ^ y
		case OpShl:
			if y >= uint64(w) {
				r = 0
			} else {
				r = x << y
			}
		case OpLShr:
			if y >= uint64(w) {
				r = 0
			} else {
				r = x >> y
			}
		case OpAShr:
			sx := sext64(x, w)
			if y >= uint64(w) {
				if sx < 0 {
					r = mask(w)
				} else {
					r = 0
				}
			} else {
				r = uint64(sx >> y)
			}
		}
		return f.Const(w, r)
	}
	if w <= 64 {
		if b.Op == OpConst && f.isCLT(a) {
			return f.mapCLT(a, func(l *Term) *Term { return f.binBV(op, l, b) })
		}
		if a.Op == OpConst && f.isCLT(b) {
			return f.mapCLT(b, func(l *Term) *Term { return f.binBV(op, a, l) })
		}
	}
	// multiplication / division / remainder by a power of two as shifts and masks
	// (exact for wrapping machine arithmetic; signed division rounds toward zero)
	if w <= 64 && b.Op == OpConst && b.Val == 1 {
		switch op {
		case OpUDiv, OpSDiv:
			return a
		case OpURem, OpSRem:
			return f.Const(w, 0)
		}
	}
	if w <= 64 && w > 1 {
		if k, ok := pow2(b); ok && k > 0 {
			kc := f.Const(w, uint64(k))
			low := f.Const(w, (uint64(1)<<uint(k))-1)
			switch op {
			case OpMul:
				return f.binBV(OpShl, a, kc)
			case OpUDiv:
				return f.binBV(OpLShr, a, kc)
			case OpURem:
				return f.binBV(OpBAnd, a, low)
			case OpSDiv, OpSRem:
				if k < w-1 { // 2^(w-1) is negative as a signed divisor
					bias := f.binBV(OpBAnd, f.binBV(OpAShr, a, f.Const(w, uint64(w-1))), low)
					q := f.binBV(OpAShr, f.binBV(OpAdd, a, bias), kc)
					if op == OpSDiv {
						return q
					}
					return f.binBV(OpSub, a, f.binBV(OpShl, q, kc))
				}
			}
		}
		if op == OpMul {
			if k, ok := pow2(a); ok && k > 0 {
				return f.binBV(OpShl, b, f.Const(w, uint64(k)))
			}
		}
	}
	// light identities
	if w <= 64 {
		switch op {
		case OpAdd, OpBOr, OpBXor:
			if a.Op == OpConst && a.Val == 0 {
				return b
			}
			if b.Op == OpConst && b.Val == 0 {
				return a
			}
		case OpSub, OpShl, OpLShr, OpAShr:
			if b.Op == OpConst && b.Val == 0 {
				return a
			}
		case OpMul:
			if a.Op == OpConst && a.Val == 1 {
				return b
			}
			if b.Op == OpConst && b.Val == 1 {
				return a
			}
			if (a.Op == OpConst && a.Val == 0) || (b.Op == OpConst && b.Val == 0) {
				return f.Const(w, 0)
			}
		case OpBAnd:
			if a.Op == OpConst && a.Val == 0 || b.Op == OpConst && b.Val == 0 {
				return f.Const(w, 0)
			}
			if a.Op == OpConst && a.Val == mask(w) {
				return b
			}
			if b.Op == OpConst && b.Val == mask(w) {
				return a
			}
		}
	}
	if op == OpBXor {
		// (x ^ y) ^ y = x in all four operand orders
		if a.Op == OpBXor {
			if a.Args[0] == b {
				return a.Args[1]
			}
			if a.Args[1] == b {
				return a.Args[0]
			}
		}
		if b.Op == OpBXor {
			if b.Args[0] == a {
				return b.Args[1]
			}
			if b.Args[1] == a {
				return b.Args[0]
			}
		}
	}
	if a == b {
		switch op {
		case OpBAnd, OpBOr:
			return a
		case OpSub, OpBXor:
			if w <= 64 {
				return f.Const(w, 0)
			}
		}
	}
	switch op {
	case OpAdd, OpMul, OpBAnd, OpBOr, OpBXor:
		if a.ID > b.ID {
			a, b = b, a
		}
	}
	return f.mk(op, w, 0, "", []*Term{a, b})
}

func (f *Factory) Add(a, b *Term) *Term  { return f.binBV(OpAdd, a, b) }
func (f *Factory) Sub(a, b *Term) *Term  { return f.binBV(OpSub, a, b) }
func (f *Factory) Mul(a, b *Term) *Term  { return f.binBV(OpMul, a, b) }
func (f *Factory) UDiv(a, b *Term) *Term { return f.binBV(OpUDiv, a, b) }
func (f *Factory) SDiv(a, b *Term) *Term { return f.binBV(OpSDiv, a, b) }
func (f *Factory) URem(a, b *Term) *Term { return f.binBV(OpURem, a, b) }
func (f *Factory) SRem(a, b *Term) *Term { return f.binBV(OpSRem, a, b) }
func (f *Factory) BAnd(a, b *Term) *Term { return f.binBV(OpBAnd, a, b) }
func (f *Factory) BOr(a, b *Term) *Term  { return f.binBV(OpBOr, a, b) }
func (f *Factory) BXor(a, b *Term) *Term { return f.binBV(OpBXor, a, b) }
func (f *Factory) Shl(a, b *Term) *Term  { return f.binBV(OpShl, a, b) }
func (f *Factory) LShr(a, b *Term) *Term { return f.binBV(OpLShr, a, b) }
func (f *Factory) AShr(a, b *Term) *Term { return f.binBV(OpAShr, a, b) }

func (f *Factory) BNot(a *Term) *Term {
	if a.Op == OpConst {
		return f.Const(a.W, ^a.Val)
	}
	if f.isCLT(a) {
		return f.mapCLT(a, f.BNot)
	}
	return f.mk(OpBNot, a.W, 0, "", []*Term{a})
}

func (f *Factory) Neg(a *Term) *Term {
	if a.Op == OpConst {
		return f.Const(a.W, -a.Val)
	}
	if f.isCLT(a) {
		return f.mapCLT(a, f.Neg)
	}
	return f.mk(OpNeg, a.W, 0, "", []*Term{a})
}

func (f *Factory) cmp(op Op, a, b *Term) *Term {
	if a.W != b.W {
		panic(fmt.Sprintf("sym.%s: width mismatch %d vs %d", opNames[op], a.W, b.W))
	}
	if a.Op == OpConst && b.Op == OpConst {
		switch op {
		case OpUlt:
			return f.Bool(a.Val < b.Val)
		case OpUle:
			return f.Bool(a.Val <= b.Val)
		case OpSlt:
			return f.Bool(sext64(a.Val, a.W) < sext64(b.Val, b.W))
		case OpSle:
			return f.Bool(sext64(a.Val, a.W) <= sext64(b.Val, b.W))
		}
	}
	if a == b {
		return f.Bool(op == OpUle || op == OpSle)
	}
	if a.W <= 64 {
		if b.Op == OpConst && f.isCLT(a) {
			return f.mapCLT(a, func(l *Term) *Term { return f.cmp(op, l, b) })
		}
		if a.Op == OpConst && f.isCLT(b) {
			return f.mapCLT(b, func(l *Term) *Term { return f.cmp(op, a, l) })
		}
		if r := f.foldCmpRange(op, a, b); r != nil {
			return r
		}
	}
	return f.mk(op, 0, 0, "", []*Term{a, b})
}

func (f *Factory) Ult(a, b *Term) *Term { return f.cmp(OpUlt, a, b) }
func (f *Factory) Ule(a, b *Term) *Term { return f.cmp(OpUle, a, b) }
func (f *Factory) Slt(a, b *Term) *Term { return f.cmp(OpSlt, a, b) }
func (f *Factory) Sle(a, b *Term) *Term { return f.cmp(OpSle, a, b) }

// Concat: a is the high part.
func (f *Factory) Concat(a, b *Term) *Term {
	w := a.W + b.W
	if a.Op == OpConst && b.Op == OpConst && w <= 64 {
		return f.Const(w, a.Val<<uint(b.W)|b.Val)
	}
	return f.mk(OpConcat, w, 0, "", []*Term{a, b})
}

func (f *Factory) Extract(a *Term, hi, lo int) *Term {
	if hi < lo || hi >= a.W {
		panic(fmt.Sprintf("sym.Extract: bad range [%d:%d] of width %d", hi, lo, a.W))
	}
	w := hi - lo + 1
	if w == a.W {
		return a
	}
	if a.Op == OpConst {
		return f.Const(w, a.Val>>uint(lo))
	}
	if f.isCLT(a) {
		return f.mapCLT(a, func(l *Term) *Term { return f.Extract(l, hi, lo) })
	}
	switch a.Op {
	case OpZext, OpSext:
		in := a.Args[0]
		if hi < in.W {
			return f.Extract(in, hi, lo)
		}
		if a.Op == OpZext && lo >= in.W && w <= 64 {
			return f.Const(w, 0)
		}
	case OpConcat:
		lowW := a.Args[1].W
		if hi < lowW {
			return f.Extract(a.Args[1], hi, lo)
		}
		if lo >= lowW {
			return f.Extract(a.Args[0], hi-lowW, lo-lowW)
		}
	}
	return f.mk(OpExtract, w, uint64(hi)<<16|uint64(lo), "", []*Term{a})
}

func (f *Factory) Zext(a *Term, w int) *Term {
	if w == a.W {
		return a
	}
	if w < a.W {
		return f.Extract(a, w-1, 0)
	}
	if a.Op == OpConst && w <= 64 {
		return f.Const(w, a.Val)
	}
	if a.Op == OpZext {
		return f.Zext(a.Args[0], w)
	}
	if w <= 64 && f.isCLT(a) {
		return f.mapCLT(a, func(l *Term) *Term { return f.Zext(l, w) })
	}
	return f.mk(OpZext, w, 0, "", []*Term{a})
}

func (f *Factory) Sext(a *Term, w int) *Term {
	if w == a.W {
		return a
	}
	if w < a.W {
		return f.Extract(a, w-1, 0)
	}
	if a.Op == OpConst && w <= 64 {
		return f.Const(w, uint64(sext64(a.Val, a.W)))
	}
	if a.Op == OpSext {
		return f.Sext(a.Args[0], w)
	}
	if a.Op == OpZext {
		return f.Zext(a.Args[0], w)
	}
	if w <= 64 && f.isCLT(a) {
		return f.mapCLT(a, func(l *Term) *Term { return f.Sext(l, w) })
	}
	return f.mk(OpSext, w, 0, "", []*Term{a})
}

// UF applies an uninterpreted function. resW==0 for Bool result.
func (f *Factory) UF(name string, resW int, args ...*Term) *Term {
	sig := make([]int, 0, len(args)+1)
	for _, a := range args {
		sig = append(sig, a.W)
	}
	sig = append(sig, resW)
	if old, ok := f.UFs[name]; ok {
		if len(old) != len(sig) {
			panic("sym.UF: arity change for " + name)
		}
		for i := range old {
			if old[i] != sig[i] {
				panic("sym.UF: signature change for " + name)
			}
		}
	} else {
		f.UFs[name] = sig
		f.UFOrder = append(f.UFOrder, name)
	}
	return f.mk(OpUF, resW, 0, name, append([]*Term(nil), args...))
}

// SignedVal returns the constant as a sign-extended int64.
func (t *Term) SignedVal() int64 { return sext64(t.Val, t.W) }

func (t *Term) String() string {
	var sb strings.Builder
	t.str(&sb, 0)
	return sb.String()
}

func (t *Term) str(sb *strings.Builder, depth int) {
	if depth > 6 {
		sb.WriteString("…")
		return
	}
	switch t.Op {
	case OpConst:
		if t.W == 0 {
			if t.Val != 0 {
				sb.WriteString("true")
			} else {
				sb.WriteString("false")
			}
		} else {
			fmt.Fprintf(sb, "%d:%d", t.Val, t.W)
		}
	case OpVar:
		sb.WriteString(t.Name)
	default:
		sb.WriteByte('(')
		if t.Op == OpUF {
			sb.WriteString(t.Name)
		} else {
			sb.WriteString(opNames[t.Op])
		}
		for _, a := range t.Args {
			sb.WriteByte(' ')
			a.str(sb, depth+1)
		}
		sb.WriteByte(')')
	}
}

var _ = bits.Len

// pow2 reports whether t is a constant 2^k.
func pow2(t *Term) (int, bool) {
	if t.Op != OpConst || t.Val == 0 || t.Val&(t.Val-1) != 0 {
		return 0, false
	}
	return bits.TrailingZeros64(t.Val), true
}
