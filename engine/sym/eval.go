package sym

// Eval evaluates t under an assignment of variables (missing variables are 0).
// It returns ok=false if the term contains an uninterpreted function or a
// sub-term wider than 64 bits.
func Eval(t *Term, env map[string]uint64) (uint64, bool) {
	memo := map[*Term]uint64{}
	return eval(t, env, memo)
}

type Evaluator struct {
	Env  map[string]uint64
	memo map[*Term]uint64
	bad  map[*Term]bool
}

func NewEvaluator(env map[string]uint64) *Evaluator {
	return &Evaluator{Env: env, memo: map[*Term]uint64{}, bad: map[*Term]bool{}}
}

func (e *Evaluator) Eval(t *Term) (uint64, bool) {
	if e.bad[t] {
		return 0, false
	}
	v, ok := eval(t, e.Env, e.memo)
	if !ok {
		e.bad[t] = true
	}
	return v, ok
}

func b2u(b bool) uint64 {
	if b {
		return 1
	}
	return 0
}

func eval(t *Term, env map[string]uint64, memo map[*Term]uint64) (uint64, bool) {
	switch t.Op {
	case OpConst:
		return t.Val, true
	case OpVar:
		if t.W > 64 {
			return 0, false
		}
		return env[t.Name] & maskB(t.W), true
	case OpUF:
		return 0, false
	}
	if v, ok := memo[t]; ok {
		return v, true
	}
	if t.W > 64 {
		return 0, false
	}
	var args [3]uint64
	// short-circuit for ite/and/or to tolerate unevaluable dead branches
	switch t.Op {
	case OpIte:
		c, ok := eval(t.Args[0], env, memo)
		if !ok {
			return 0, false
		}
		var r uint64
		if c != 0 {
			r, ok = eval(t.Args[1], env, memo)
		} else {
			r, ok = eval(t.Args[2], env, memo)
		}
		if ok {
			memo[t] = r
		}
		return r, ok
	}
	for i, a := range t.Args {
		if a.W > 64 {
			return 0, false
		}
		v, ok := eval(a, env, memo)
		if !ok {
			return 0, false
		}
		args[i] = v
	}
	x, y := args[0], args[1]
	var r uint64
	w := t.W
	aw := 0
	if len(t.Args) > 0 {
		aw = t.Args[0].W
	}
	switch t.Op {
	case OpNot:
		r = b2u(x == 0)
	case OpAnd:
		r = b2u(x != 0 && y != 0)
	case OpOr:
		r = b2u(x != 0 || y != 0)
	case OpEq:
		r = b2u(x == y)
	case OpAdd:
		r = x + y
	case OpSub:
		r = x - y
	case OpMul:
		r = x * y
	case OpUDiv:
		if y == 0 {
			r = mask(w)
		} else {
			r = x / y
		}
	case OpURem:
		if y == 0 {
			r = x
		} else {
			r = x % y
		}
	case OpSDiv:
		sx, sy := sext64(x, w), sext64(y, w)
		if sy == 0 {
			if sx < 0 {
				r = 1
			} else {
				r = mask(w)
			}
		} else if sy == -1 {
			r = uint64(-sx)
		} else {
			r = uint64(sx / sy)
		}
	case OpSRem:
		sx, sy := sext64(x, w), sext64(y, w)
		if sy == 0 {
			r = x
		} else if sy == -1 {
			r = 0
		} else {
			r = uint64(sx % sy)
		}
	case OpBAnd:
		r = x & y
	case OpBOr:
		r = x | y
	case OpBXor:
		r = x ^ y
	case OpBNot:
		r = ^x
	case OpNeg:
		r = -x
	case OpShl:
		if y >= uint64(w) {
			r = 0
		} else {
			r = x << y
		}
	case OpLShr:
		if y >= uint64(w) {
			r = 0
		} else {
			r = x >> y
		}
	case OpAShr:
		sx := sext64(x, w)
		if y >= uint64(w) {
			if sx < 0 {
				r = mask(w)
			}
		} else {
			r = uint64(sx >> y)
		}
	case OpUlt:
		r = b2u(x < y)
	case OpUle:
		r = b2u(x <= y)
	case OpSlt:
		r = b2u(sext64(x, aw) < sext64(y, aw))
	case OpSle:
		r = b2u(sext64(x, aw) <= sext64(y, aw))
	case OpConcat:
		r = x<<uint(t.Args[1].W) | y
	case OpExtract:
		lo := int(t.Val & 0xffff)
		r = x >> uint(lo)
	case OpZext:
		r = x
	case OpSext:
		r = uint64(sext64(x, aw))
	default:
		return 0, false
	}
	if w > 0 {
		r &= mask(w)
	}
	memo[t] = r
	return r, true
}

func maskB(w int) uint64 {
	if w == 0 {
		return 1
	}
	return mask(w)
}
