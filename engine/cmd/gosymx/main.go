package main

import (
	"flag"
	"fmt"
	"os"
	"regexp"
	"runtime"
	"sort"
	"strconv"
	"strings"
	"time"

	"golang.org/x/tools/go/ssa"

	"verif/engine/sx"
)

func main() {
	if len(os.Args) < 2 {
		fmt.Fprintln(os.Stderr, "usage: gosymx run|check|replay ...")
		os.Exit(2)
	}
	switch os.Args[1] {
	case "run":
		os.Exit(cmdRun(os.Args[2:]))
	case "replay":
		os.Exit(cmdReplay(os.Args[2:]))
	case "check":
		os.Exit(cmdCheck(os.Args[2:]))
	default:
		fmt.Fprintln(os.Stderr, "unknown command", os.Args[1])
		os.Exit(2)
	}
}

func envOr(k, d string) string {
	if v := os.Getenv(k); v != "" {
		return v
	}
	return d
}

func setupEnv() {
	os.Setenv("PATH", "/opt/veriftools/go1.26.8/bin:"+os.Getenv("PATH"))
	os.Setenv("GOTOOLCHAIN", "local")
	os.Setenv("GOFLAGS", "-mod=mod")
	os.Setenv("GOPROXY", "off")
	os.Setenv("GOSUMDB", "off")
}

// cmdRun: debugging entry point — explore harnesses of one package.
func cmdRun(args []string) int {
	fs := flag.NewFlagSet("run", flag.ExitOnError)
	pkg := fs.String("pkg", "", "package import path suffix (relative to module), e.g. sql/expression")
	pat := fs.String("harness", "^Verif", "regexp on harness function names")
	unwind := fs.Int("unwind", 16, "loop unwinding bound")
	paths := fs.Int("paths", 100000, "max paths")
	maxTime := fs.Duration("time", 5*time.Minute, "time budget per harness")
	workers := fs.Int("workers", runtime.NumCPU(), "parallel workers")
	steps := fs.Int("steps", 2000000, "max steps per path")
	solverKind := fs.String("solver", "z3", "z3|z3-new|cvc5")
	solverMS := fs.Int("solver-ms", 20000, "per-query timeout")
	verbose := fs.Bool("v", false, "verbose")
	propName := fs.String("prop", "", "take merge / fmt_ints / hash_injective settings from harness/props/<prop>.json")
	concrete := fs.String("concrete", "", "run ONE path in concrete mode with nd values k=v,k=v (unsigned decimal); prints outcome and observations")
	fs.Parse(args)
	setupEnv()
	repo := envOr("VERIF_REPO", "/repo")
	verif := envOr("VERIF_HOME", "/verif")
	ov, err := sx.BuildOverlay(repo, verif)
	if err != nil {
		fmt.Fprintln(os.Stderr, err)
		return 2
	}
	w, err := sx.Load(repo, ov, []string{"./" + *pkg})
	if err != nil {
		fmt.Fprintln(os.Stderr, err)
		return 2
	}
	fmt.Printf("loaded in %v, ssa in %v\n", w.LoadTime, w.SSATime)
	sp := w.SSAPkgs[pkgPath(*pkg)]
	if sp == nil {
		fmt.Fprintln(os.Stderr, "package not found")
		return 2
	}
	re := regexp.MustCompile(*pat)
	var hs []*ssa.Function
	for name, mem := range sp.Members {
		if f, ok := mem.(*ssa.Function); ok && strings.HasPrefix(name, "Verif") && re.MatchString(name) {
			hs = append(hs, f)
		}
	}
	sort.Slice(hs, func(i, j int) bool { return hs[i].Name() < hs[j].Name() })
	conf := sx.Config{NoIfConv: os.Getenv("VERIF_NOIFCONV") != "", Unwind: *unwind, MaxSteps: *steps, MaxPaths: *paths, MaxTime: *maxTime, SolverKind: *solverKind, SolverMS: *solverMS, BranchMS: 1500}
	if *propName != "" {
		props, err := loadProps(verif)
		if err != nil || props[*propName] == nil {
			fmt.Fprintln(os.Stderr, "cannot load props for", *propName, err)
			return 2
		}
		pc := props[*propName]
		conf.FmtInts, conf.HashInjective = pc.FmtInts, pc.HashInj
		sx.EnableBig = pc.MathBig
		sx.EnableParser = pc.SQLParser
		if len(pc.StubText) > 0 {
			conf.StubText = map[string]bool{}
			for _, f := range pc.StubText {
				conf.StubText[f] = true
			}
		}
		conf.Merge = map[string]bool{}
		for _, f := range pc.Merge {
			conf.Merge[f] = true
		}
	}
	t0 := time.Now()
	pool, err := w.NewPool(conf, sp, *workers)
	if err != nil {
		fmt.Fprintln(os.Stderr, err)
		return 2
	}
	defer pool.Close()
	fmt.Printf("pool of %d machines initialised in %v\n", len(pool.Ms), time.Since(t0))
	if *verbose {
		for _, n := range pool.Ms[0].InitNotes {
			fmt.Println("  init-note:", n)
		}
	} else {
		fmt.Printf("  (%d init notes)\n", len(pool.Ms[0].InitNotes))
	}
	if *concrete != "" {
		vals := map[string]uint64{}
		for _, kv := range strings.Split(*concrete, ",") {
			if i := strings.LastIndex(kv, "="); i > 0 {
				v, _ := strconv.ParseUint(kv[i+1:], 10, 64)
				vals[kv[:i]] = v
			}
		}
		for _, h := range hs {
			c := conf
			c.Concrete, c.ConcreteSet = vals, true
			m := pool.Ms[0]
			m.Conf = c
			pr := m.RunPath(h, nil)
			kind, detail := pr.Outcome()
			fmt.Printf("== %s concrete: outcome=%s %s\n   observes=%v\n   reached=%v choices=%v notes=%v\n", h.Name(), kind, detail, pr.Observes, pr.Reached, pr.Choices, pr.Notes)
		}
		return 0
	}
	for _, h := range hs {
		r := pool.Explore(h, conf)
		printResult(r, *verbose)
	}
	return 0
}

func printResult(r *sx.HarnessResult, verbose bool) {
	fmt.Printf("== %s: paths=%d done=%d infeasible=%d panics=%d unwind=%d budget=%d complete=%v wall=%v steps=%d\n",
		r.Name, r.Paths, r.Done, r.Infeasible, r.Panics, r.Unwind, r.Budget, r.Complete, r.Wall.Round(time.Millisecond), r.Steps)
	fmt.Printf("   solver: queries=%d sat=%d unsat=%d unknown=%d errors=%d time=%v max=%v | asserts unsat=%d sat=%d unk=%d\n",
		r.Solver.Queries, r.Solver.Sat, r.Solver.Unsat, r.Solver.Unknown, r.Solver.Errors, r.Solver.Time.Round(time.Millisecond), r.Solver.MaxQuery.Round(time.Millisecond),
		r.AssertUnsat, r.AssertSat, r.AssertUnk)
	for _, k := range sx.SortedKeys(r.Unsupported) {
		fmt.Printf("   unsupported x%d: %s\n", r.Unsupported[k], k)
	}
	for _, k := range sx.SortedKeys(r.Internal) {
		fmt.Printf("   INTERNAL x%d: %s\n", r.Internal[k], k)
	}
	for _, k := range sx.SortedKeys(r.Reached) {
		fmt.Printf("   reached %s x%d\n", k, r.Reached[k])
	}
	for _, k := range sx.SortedKeys(r.CEs) {
		g := r.CEs[k]
		fmt.Printf("   CE %s x%d: %s model=%v choices=%v\n", k, g.Count, g.First.Where, g.First.Model, g.First.Choices)
	}
	for _, n := range r.Notes {
		fmt.Printf("   note: %s\n", n)
	}
	if verbose {
		for _, s := range r.SamplePaths {
			fmt.Printf("   path: %s\n", s)
		}
	}
}

// pkgPath maps a package path relative to the module ("." = the root package) to its import path.
func pkgPath(rel string) string {
	if rel == "." || rel == "" {
		return sx.ModulePath
	}
	return sx.ModulePath + "/" + rel
}
