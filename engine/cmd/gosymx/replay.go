package main

import (
	"encoding/json"
	"fmt"
	"os"
	"path/filepath"
	"regexp"
	"sort"
	"strings"

	"golang.org/x/tools/go/ssa"

	"verif/engine/sx"
)

// cmdReplay re-runs one recorded counterexample against the natively compiled
// real code: gosymx replay <file.json>. Exit 1 when the violation reproduces.
func cmdReplay(args []string) int {
	if len(args) != 1 {
		fmt.Fprintln(os.Stderr, "usage: gosymx replay <replay.json>")
		return 2
	}
	setupEnv()
	if abs, err := filepath.Abs(args[0]); err == nil {
		args[0] = abs
	}
	raw, err := os.ReadFile(args[0])
	if err != nil {
		fmt.Fprintln(os.Stderr, err)
		return 2
	}
	var in struct {
		Harness string            `json:"harness"`
		Package string            `json:"package"`
		Vals    map[string]string `json:"vals"`
	}
	if err := json.Unmarshal(raw, &in); err != nil || in.Harness == "" || in.Package == "" {
		fmt.Fprintln(os.Stderr, "not a replay file:", err)
		return 2
	}
	repo := envOr("VERIF_REPO", "/repo")
	verif := envOr("VERIF_HOME", "/verif")
	work := filepath.Join(verif, ".work", "replay-"+sanitize(in.Harness))
	os.RemoveAll(work)
	os.MkdirAll(work, 0o755)
	defer os.RemoveAll(work)
	ov, err := sx.BuildOverlay(repo, verif)
	if err != nil {
		fmt.Fprintln(os.Stderr, err)
		return 2
	}
	w, err := sx.Load(repo, ov, []string{"./" + in.Package})
	if err != nil {
		fmt.Fprintln(os.Stderr, "load failed:", err)
		return 2
	}
	sp := w.SSAPkgs[pkgPath(in.Package)]
	if sp == nil {
		fmt.Fprintln(os.Stderr, "package not loaded:", in.Package)
		return 2
	}
	var names []string
	for name, mem := range sp.Members {
		if f, ok := mem.(*ssa.Function); ok && strings.HasPrefix(name, "Verif") && f.Signature.Params().Len() == 0 && f.Signature.Results().Len() == 0 {
			names = append(names, name)
		}
	}
	sort.Strings(names)
	virt, real, err := genTestMain(work, repo, in.Package, sp.Pkg.Name(), names)
	if err != nil {
		fmt.Fprintln(os.Stderr, err)
		return 2
	}
	ov[virt] = real
	if mm := regexp.MustCompile(`^Verif(C[0-9]+|SELF)`).FindStringSubmatch(in.Harness); mm != nil {
		if props, err := loadProps(verif); err == nil && props[mm[1]] != nil && props[mm[1]].Sched {
			pc := props[mm[1]]
			var ipkgs []string
			for _, rel := range pc.Pkgs {
				ipkgs = append(ipkgs, pkgPath(rel))
			}
			ipkgs = append(ipkgs, pc.SchedPkgs...)
			iov, err := sx.InstrumentForSched(w, ipkgs, filepath.Join(work, "sched"))
			if err != nil {
				fmt.Fprintln(os.Stderr, "schedule-replay instrumentation failed:", err)
				return 2
			}
			for k, v := range iov {
				ov[k] = v
			}
		}
	}
	np := buildNative(work, repo, ov, in.Package)
	if np.err != nil {
		fmt.Fprintln(os.Stderr, np.err)
		return 2
	}
	out, _ := np.run(repo, []string{"VERIF_HARNESS=" + in.Harness, "VERIF_REPLAY=" + args[0]}, 120e9)
	for _, line := range strings.Split(out, "\n") {
		if i := strings.Index(line, "VERIF-RESULT "); i >= 0 {
			var nr nativeResult
			if e := json.Unmarshal([]byte(line[i+len("VERIF-RESULT "):]), &nr); e != nil {
				continue
			}
			fmt.Printf("harness=%s inputs=%v\n", in.Harness, nr.Inputs)
			switch {
			case nr.Panic != "":
				fmt.Printf("REPRODUCED: panic: %s\n%s\n", firstLine(nr.Panic), nr.Stack)
				return 1
			case len(nr.Failed) > 0:
				fmt.Printf("REPRODUCED: failed assertions %v\n", nr.Failed)
				return 1
			case nr.AssumeFailed:
				fmt.Println("NOT REPRODUCED: the input no longer satisfies the harness assumptions")
				return 0
			}
			fmt.Println("NOT REPRODUCED: the harness passes on this input")
			return 0
		}
	}
	fmt.Fprintln(os.Stderr, "no result from native run:\n"+tail(out, 2000))
	return 2
}
