package main

import (
	"bufio"
	"bytes"
	"encoding/json"
	"flag"
	"fmt"
	"os"
	"os/exec"
	"path/filepath"
	"regexp"
	"runtime"
	"sort"
	"strconv"
	"strings"
	"sync"
	"time"

	"golang.org/x/tools/go/ssa"

	"verif/engine/sx"
)

// ---------- property configuration (/verif/harness/props.json) ----------

type Bounds struct {
	Unwind   int    `json:"unwind,omitempty"`
	MaxPaths int    `json:"max_paths,omitempty"`
	Time     string `json:"time,omitempty"`
	SolverMS int    `json:"solver_ms,omitempty"`
	Steps    int    `json:"steps,omitempty"`
	Conf     int    `json:"conformance_runs,omitempty"`
	BranchMS int    `json:"branch_ms,omitempty"`
}

type PropConf struct {
	Pkgs        []string          `json:"pkgs"`
	Level       string            `json:"level"`
	Functions   []string          `json:"functions"`
	Assumptions []string          `json:"assumptions"`
	Outside     []string          `json:"outside_claim"`
	Quick       Bounds            `json:"quick"`
	Thorough    Bounds            `json:"thorough"`
	PerHarness  map[string]Bounds `json:"per_harness"`
	SkipQuick   []string          `json:"thorough_only"`
	Merge       []string          `json:"merge"`
	Bounds      map[string]string `json:"bounds_text"`
	FmtInts     bool              `json:"fmt_ints"`
	HashInj     bool              `json:"hash_injective"`
	SQLParser   bool              `json:"sql_parser"` // run the vitess parser's package initialisers (harnesses that hand SQL text to the engine)
	MathBig     bool              `json:"math_big"` // interpret math/big (and run apd's table-building initialisers: about 20 s of start-up)
	StubText    []string          `json:"stub_text"`
	Sched       bool              `json:"sched"`            // harnesses start goroutines: native builds use the schedule-replay instrumentation
	SchedPkgs   []string          `json:"sched_instrument"` // extra package import paths to instrument (the harness packages always are)
	MaxPreempt  int               `json:"max_preempt"`
}

func loadProps(verif string) (map[string]*PropConf, error) {
	dir := filepath.Join(verif, "harness/props")
	ents, err := os.ReadDir(dir)
	if err != nil {
		return nil, err
	}
	m := map[string]*PropConf{}
	for _, e := range ents {
		if !strings.HasSuffix(e.Name(), ".json") {
			continue
		}
		raw, err := os.ReadFile(filepath.Join(dir, e.Name()))
		if err != nil {
			return nil, err
		}
		pc := &PropConf{}
		if err := json.Unmarshal(raw, pc); err != nil {
			return nil, fmt.Errorf("%s: %v", e.Name(), err)
		}
		m[strings.TrimSuffix(e.Name(), ".json")] = pc
	}
	return m, nil
}

func merge(base, over Bounds) Bounds {
	if over.Unwind != 0 {
		base.Unwind = over.Unwind
	}
	if over.MaxPaths != 0 {
		base.MaxPaths = over.MaxPaths
	}
	if over.Time != "" {
		base.Time = over.Time
	}
	if over.SolverMS != 0 {
		base.SolverMS = over.SolverMS
	}
	if over.Steps != 0 {
		base.Steps = over.Steps
	}
	if over.Conf != 0 {
		base.Conf = over.Conf
	}
	if over.BranchMS != 0 {
		base.BranchMS = over.BranchMS
	}
	return base
}

// ---------- known findings ----------

type finding struct {
	kind    string // finding | fixed
	prop    string
	harness string
	assert  string
	text    string
	used    bool
}

var currentTier = "quick"

var kvRe = regexp.MustCompile(`(\w+)=(\S+)`)

func loadFindings(verif string) []*finding {
	f, err := os.Open(filepath.Join(verif, "known_findings.txt"))
	if err != nil {
		return nil
	}
	defer f.Close()
	var out []*finding
	sc := bufio.NewScanner(f)
	for sc.Scan() {
		line := strings.TrimSpace(sc.Text())
		if line == "" || strings.HasPrefix(line, "#") {
			continue
		}
		fd := &finding{}
		switch {
		case strings.HasPrefix(line, "finding:"):
			fd.kind = "finding"
		case strings.HasPrefix(line, "fixed:"):
			fd.kind = "fixed"
		default:
			continue
		}
		head := line
		if i := strings.Index(line, " -- "); i >= 0 {
			head, fd.text = line[:i], line[i+4:]
		}
		for _, kv := range kvRe.FindAllStringSubmatch(head, -1) {
			switch kv[1] {
			case "property":
				fd.prop = kv[2]
			case "harness":
				fd.harness = kv[2]
			case "assert":
				fd.assert = kv[2]
			}
		}
		out = append(out, fd)
	}
	return out
}

// ---------- native side: generated test main, build, run ----------

type nativeResult struct {
	Inputs       map[string]string `json:"inputs"`
	Failed       []string          `json:"failed"`
	Reached      []string          `json:"reached"`
	Observes     []string          `json:"observes"`
	AssumeFailed bool              `json:"assume_failed"`
	Panic        string            `json:"panic"`
	Stack        string            `json:"stack"`
	Deadlock     bool              `json:"deadlock"`
	SchedDesync  bool              `json:"sched_desync"`
}

type nativePkg struct {
	rel     string // package path relative to module
	binary  string
	workdir string
	err     error
	buildS  float64
}

func genTestMain(work, repo, rel, pkgName string, harnesses []string) (virt, real string, err error) {
	dir := filepath.Join(work, "gen", rel)
	if err = os.MkdirAll(dir, 0o755); err != nil {
		return
	}
	var sb strings.Builder
	sb.WriteString("//go:build verif\n\npackage " + pkgName + "\n\nimport (\n\t\"testing\"\n\n\tzzverifndmain \"" + sx.NdPath + "\"\n)\n\n")
	sb.WriteString("func TestVerifHarness(t *testing.T) {\n\tzzverifndmain.Main(t, map[string]func(){\n")
	for _, h := range harnesses {
		fmt.Fprintf(&sb, "\t\t%q: %s,\n", h, h)
	}
	sb.WriteString("\t})\n}\n")
	real = filepath.Join(dir, "zz_verif_main_test.go")
	virt = filepath.Join(repo, rel, "zz_verif_main_test.go")
	err = os.WriteFile(real, []byte(sb.String()), 0o644)
	return
}

func buildNative(work, repo string, ov sx.Overlay, rel string) *nativePkg {
	np := &nativePkg{rel: rel}
	t0 := time.Now()
	ovFile := filepath.Join(work, "overlay-"+strings.ReplaceAll(rel, "/", "_")+".json")
	if err := ov.WriteJSON(ovFile); err != nil {
		np.err = err
		return np
	}
	bin := filepath.Join(work, "bin", strings.ReplaceAll(rel, "/", "_")+".test")
	os.MkdirAll(filepath.Dir(bin), 0o755)
	cmd := exec.Command("go", "test", "-c", "-vet=off", "-tags", "verif", "-overlay", ovFile, "-o", bin, "./"+rel)
	cmd.Dir = repo
	out, err := cmd.CombinedOutput()
	if err != nil {
		np.err = fmt.Errorf("go test -c ./%s: %v\n%s", rel, err, tail(string(out), 3000))
		return np
	}
	np.binary = bin
	np.buildS = time.Since(t0).Seconds()
	return np
}

func tail(s string, n int) string {
	if len(s) > n {
		return s[len(s)-n:]
	}
	return s
}

func (np *nativePkg) run(repo string, env []string, timeout time.Duration) (string, error) {
	cmd := exec.Command("timeout", "-k", "5", strconv.Itoa(int(timeout.Seconds())), np.binary, "-test.run", "^TestVerifHarness$", "-test.count=1", "-test.v")
	cmd.Dir = repo
	cmd.Env = append(append(os.Environ(), "VERIF_TIER="+currentTier), env...)
	out, err := cmd.CombinedOutput()
	return string(out), err
}

func (np *nativePkg) replay(work, repo, harness string, vals map[string]uint64, sched []int, maxPre int, tag string) (*nativeResult, string, error) {
	dir := filepath.Join(work, "replay")
	os.MkdirAll(dir, 0o755)
	file := filepath.Join(dir, harness+"-"+tag+".json")
	sv := map[string]string{}
	for k, v := range vals {
		sv[k] = strconv.FormatUint(v, 10)
	}
	doc := map[string]any{"harness": harness, "package": np.rel, "vals": sv}
	if len(sched) > 0 {
		doc["sched"] = sched
		doc["max_preempt"] = maxPre
	}
	raw, _ := json.MarshalIndent(doc, "", " ")
	if err := os.WriteFile(file, raw, 0o644); err != nil {
		return nil, file, err
	}
	out, err := np.run(repo, []string{"VERIF_HARNESS=" + harness, "VERIF_REPLAY=" + file}, 120*time.Second)
	for _, line := range strings.Split(out, "\n") {
		if i := strings.Index(line, "VERIF-RESULT "); i >= 0 {
			var nr nativeResult
			if e := json.Unmarshal([]byte(line[i+len("VERIF-RESULT "):]), &nr); e == nil {
				return &nr, file, nil
			}
		}
	}
	return nil, file, fmt.Errorf("no VERIF-RESULT in replay output (%v): %s", err, tail(out, 1500))
}

func (np *nativePkg) conformance(work, repo, harness string, seed int64, n int) ([]nativeResult, error) {
	dir := filepath.Join(work, "conf")
	os.MkdirAll(dir, 0o755)
	file := filepath.Join(dir, harness+".jsonl")
	os.Remove(file)
	out, err := np.run(repo, []string{"VERIF_HARNESS=" + harness, fmt.Sprintf("VERIF_CONF=%d,%d,%s", seed, n, file)}, 300*time.Second)
	if err != nil {
		return nil, fmt.Errorf("conformance run failed: %v: %s", err, tail(out, 1500))
	}
	f, err := os.Open(file)
	if err != nil {
		return nil, err
	}
	defer f.Close()
	var res []nativeResult
	sc := bufio.NewScanner(f)
	sc.Buffer(make([]byte, 1<<20), 1<<24)
	for sc.Scan() {
		var nr nativeResult
		if err := json.Unmarshal(sc.Bytes(), &nr); err != nil {
			return nil, err
		}
		res = append(res, nr)
	}
	return res, nil
}

// ---------- evidence ----------

type harnessEvidence struct {
	Harness      string            `json:"harness"`
	Package      string            `json:"package"`
	Bounds       map[string]any    `json:"bounds"`
	Paths        int               `json:"paths_explored"`
	PathsDone    int               `json:"paths_completed"`
	Infeasible   int               `json:"paths_pruned_infeasible"`
	Queries      map[string]int    `json:"solver_queries"`
	AssertChecks map[string]int    `json:"assertion_queries"`
	AssertIDs    []string          `json:"assert_ids"`
	Reached      []string          `json:"reach_witnesses"`
	Unwind       int               `json:"unwinding_failures"`
	Unsupported  map[string]int    `json:"unsupported_aborts,omitempty"`
	Budget       int               `json:"budget_aborts"`
	Internal     map[string]int    `json:"internal_errors,omitempty"`
	Complete     bool              `json:"worklist_drained"`
	Solver       string            `json:"solver"`
	SolverS      float64           `json:"solver_s"`
	MaxQueryS    float64           `json:"max_query_s"`
	WallS        float64           `json:"wall_s"`
	ConfRuns     int               `json:"conformance_runs"`
	ConfMismatch int               `json:"conformance_mismatches"`
	CEs          []map[string]any  `json:"counterexamples,omitempty"`
	SamplePaths  []string          `json:"sample_paths,omitempty"`
	Notes        []string          `json:"notes,omitempty"`
	Extra        map[string]string `json:"-"`
}

func cmdCheck(args []string) int {
	fs := flag.NewFlagSet("check", flag.ExitOnError)
	tier := fs.String("tier", envOr("VERIF_TIER", "quick"), "quick|thorough")
	workers := fs.Int("workers", runtime.NumCPU(), "parallel workers")
	only := fs.String("harness", "", "regexp restricting harnesses (debugging; evidence marks the run partial)")
	noNative := fs.Bool("no-native", false, "skip native build, conformance and replay (debugging)")
	verbose := fs.Bool("v", false, "verbose")
	solverKind := fs.String("solver", "z3", "z3|z3-new|cvc5")
	// allow "check C25 --tier quick"
	var prop string
	rest := args
	if len(rest) > 0 && !strings.HasPrefix(rest[0], "-") {
		prop = rest[0]
		rest = rest[1:]
	}
	fs.Parse(rest)
	if prop == "" && fs.NArg() > 0 {
		prop = fs.Arg(0)
	}
	if prop == "" {
		fmt.Fprintln(os.Stderr, "usage: gosymx check <property> [--tier quick|thorough]")
		return 2
	}
	setupEnv()
	currentTier = *tier
	t0 := time.Now()
	repo := envOr("VERIF_REPO", "/repo")
	verif := envOr("VERIF_HOME", "/verif")
	work := filepath.Join(verif, ".work", prop+envOr("VERIF_WORKTAG", ""))
	os.RemoveAll(work)
	os.MkdirAll(work, 0o755)
	seed, _ := strconv.ParseInt(envOr("VERIF_SEED", "1"), 10, 64)

	props, err := loadProps(verif)
	if err != nil {
		fmt.Fprintln(os.Stderr, err)
		return 2
	}
	pc := props[prop]
	if pc == nil {
		fmt.Fprintf(os.Stderr, "property %s not configured in props.json\n", prop)
		return 2
	}
	sx.EnableBig = pc.MathBig
	sx.EnableParser = pc.SQLParser
	findings := loadFindings(verif)
	evDir := envOr("VERIF_EVIDENCE", filepath.Join(verif, "evidence")) // seed evaluation writes elsewhere
	evPath := filepath.Join(evDir, prop+".json")
	os.Remove(evPath)
	if onlyStale, _ := filepath.Glob(filepath.Join(evDir, "replays", prop+"-*.json")); len(onlyStale) > 0 {
		for _, f := range onlyStale {
			os.Remove(f) // replay files belong to one run: stale ones from earlier runs are dropped
		}
	}

	ov, err := sx.BuildOverlay(repo, verif)
	if err != nil {
		fmt.Fprintln(os.Stderr, err)
		return 2
	}
	var patterns []string
	for _, p := range pc.Pkgs {
		patterns = append(patterns, "./"+p)
	}
	w, err := sx.Load(repo, ov, patterns)
	if err != nil {
		fmt.Fprintln(os.Stderr, "LOAD FAILED:", err)
		fmt.Printf("INCONCLUSIVE property=%s reason=load-failed\n", prop)
		writeBrokenEvidence(evPath, prop, *tier, seed, "package load failed: "+err.Error(), time.Since(t0))
		return 0
	}
	fmt.Printf("[%s] loaded %v in %.1fs (ssa %.1fs)\n", prop, pc.Pkgs, w.LoadTime.Seconds(), w.SSATime.Seconds())

	base := Bounds{Unwind: 16, MaxPaths: 200000, Time: "4m", SolverMS: 20000, Steps: 3000000, Conf: 40, BranchMS: 1500}
	tb := merge(base, pc.Quick)
	if *tier == "thorough" {
		tb = merge(merge(base, Bounds{Time: "20m", Conf: 200, SolverMS: 60000}), pc.Thorough)
	}
	var onlyRe *regexp.Regexp
	if *only != "" {
		onlyRe = regexp.MustCompile(*only)
	}

	type hrec struct {
		rel string
		sp  *ssa.Package
		fn  *ssa.Function
	}
	var hs []hrec
	pkgHarness := map[string][]string{}
	prefix := "Verif" + prop
	for _, rel := range pc.Pkgs {
		sp := w.SSAPkgs[pkgPath(rel)]
		if sp == nil {
			fmt.Fprintf(os.Stderr, "package %s not loaded\n", rel)
			return 2
		}
		var names []string
		for name, mem := range sp.Members {
			f, ok := mem.(*ssa.Function)
			if !ok || !strings.HasPrefix(name, "Verif") || f.Signature.Params().Len() != 0 || f.Signature.Results().Len() != 0 {
				continue
			}
			names = append(names, name)
		}
		sort.Strings(names)
		pkgHarness[rel] = names
		for _, name := range names {
			if !strings.HasPrefix(name, prefix) {
				continue
			}
			if onlyRe != nil && !onlyRe.MatchString(name) {
				continue
			}
			skip := false
			if *tier != "thorough" {
				for _, s := range pc.SkipQuick {
					if s == name {
						skip = true
					}
				}
			}
			if !skip {
				hs = append(hs, hrec{rel, sp, sp.Func(name)})
			}
		}
	}
	if len(hs) == 0 {
		fmt.Fprintf(os.Stderr, "no harnesses for %s\n", prop)
		return 2
	}

	// native builds run in the background while symbolic exploration proceeds
	natives := map[string]*nativePkg{}
	var nativeMu sync.Mutex
	nativeDone := map[string]chan struct{}{}
	if !*noNative {
		for _, rel := range pc.Pkgs {
			sp := w.SSAPkgs[pkgPath(rel)]
			virt, real, err := genTestMain(work, repo, rel, sp.Pkg.Name(), pkgHarness[rel])
			if err != nil {
				fmt.Fprintln(os.Stderr, err)
				return 2
			}
			ov[virt] = real
		}
		if pc.Sched {
			var ipkgs []string
			for _, rel := range pc.Pkgs {
				ipkgs = append(ipkgs, pkgPath(rel))
			}
			ipkgs = append(ipkgs, pc.SchedPkgs...)
			iov, err := sx.InstrumentForSched(w, ipkgs, filepath.Join(work, "sched"))
			if err != nil {
				fmt.Fprintln(os.Stderr, "schedule-replay instrumentation failed:", err)
				fmt.Printf("INCONCLUSIVE property=%s reason=schedule-replay-instrumentation-failed\n", prop)
			}
			for k, v := range iov {
				if _, isHarness := ov[k]; isHarness {
					// harness files are overlays themselves: the instrumented text replaces them
				}
				ov[k] = v
			}
		}
		for _, rel := range pc.Pkgs {
			rel := rel
			ch := make(chan struct{})
			nativeDone[rel] = ch
			go func() {
				np := buildNative(work, repo, ov, rel)
				nativeMu.Lock()
				natives[rel] = np
				nativeMu.Unlock()
				close(ch)
			}()
		}
	}

	var evs []*harnessEvidence
	violations := 0
	inconclusive := 0
	confTotal := 0
	totalPaths, totalQueries := 0, 0
	var violationLines, knownLines, inconcLines []string
	pools := map[string]*sx.Pool{}
	defer func() {
		for _, p := range pools {
			p.Close()
		}
	}()
	// bounds per harness
	boundsOf := func(name string) (Bounds, sx.Config) {
		b := tb
		if o, ok := pc.PerHarness[name]; ok {
			b = merge(b, o)
		}
		if *tier == "thorough" {
			if o, ok := pc.PerHarness[name+"@thorough"]; ok {
				b = merge(b, o)
			}
		}
		maxTime, _ := time.ParseDuration(b.Time)
		tierN := 0
		if *tier == "thorough" {
			tierN = 1
		}
		mergeSet := map[string]bool{}
		for _, f := range pc.Merge {
			mergeSet[f] = true
		}
		var stubSet map[string]bool
		if len(pc.StubText) > 0 {
			stubSet = map[string]bool{}
			for _, f := range pc.StubText {
				stubSet[f] = true
			}
		}
		return b, sx.Config{StubText: stubSet, FmtInts: pc.FmtInts, HashInjective: pc.HashInj, MaxPreempt: pc.MaxPreempt, NoIfConv: os.Getenv("VERIF_NOIFCONV") != "", Merge: mergeSet, Unwind: b.Unwind, MaxSteps: b.Steps, MaxPaths: b.MaxPaths, MaxTime: maxTime, SolverKind: *solverKind, SolverMS: b.SolverMS,
			BranchMS: b.BranchMS, Tier: tierN}
	}
	// explore all harnesses of a package concurrently
	explored := map[*ssa.Function]*sx.HarnessResult{}
	for _, rel := range pc.Pkgs {
		var jobs []sx.Job
		var sp *ssa.Package
		for _, h := range hs {
			if h.rel != rel {
				continue
			}
			_, conf := boundsOf(h.fn.Name())
			jobs = append(jobs, sx.Job{Fn: h.fn, Conf: conf})
			sp = h.sp
		}
		if len(jobs) == 0 {
			continue
		}
		tp := time.Now()
		pool, err := w.NewPool(jobs[0].Conf, sp, *workers)
		if err != nil {
			fmt.Fprintln(os.Stderr, err)
			return 2
		}
		pools[rel] = pool
		fmt.Printf("[%s] %d machines for %s initialised in %.1fs (%d init notes)\n", prop, len(pool.Ms), rel, time.Since(tp).Seconds(), len(pool.Ms[0].InitNotes))
		if *verbose {
			for _, n := range pool.Ms[0].InitNotes {
				fmt.Println("   init-note:", n)
			}
		}
		for i, r := range pool.ExploreAll(jobs) {
			explored[jobs[i].Fn] = r
		}
	}
	for _, h := range hs {
		b, conf := boundsOf(h.fn.Name())
		pool := pools[h.rel]
		r := explored[h.fn]
		printResult(r, *verbose)
		totalPaths += r.Paths
		totalQueries += r.Solver.Queries
		ev := &harnessEvidence{Harness: r.Name, Package: h.rel,
			Bounds: map[string]any{"unwind": b.Unwind, "max_paths": b.MaxPaths, "time_budget": b.Time, "solver_timeout_ms": b.SolverMS, "max_steps_per_path": b.Steps},
			Paths:  r.Paths, PathsDone: r.Done, Infeasible: r.Infeasible,
			Queries:      map[string]int{"total": r.Solver.Queries, "sat": r.Solver.Sat, "unsat": r.Solver.Unsat, "unknown": r.Solver.Unknown, "errors": r.Solver.Errors},
			AssertChecks: map[string]int{"unsat": r.AssertUnsat, "sat": r.AssertSat, "inconclusive": r.AssertUnk},
			AssertIDs:    sx.SortedKeys(r.Asserted), Reached: sx.SortedKeys(r.Reached),
			Unwind: r.Unwind, Unsupported: r.Unsupported, Budget: r.Budget, Internal: r.Internal, Complete: r.Complete,
			Solver: *solverKind, SolverS: r.Solver.Time.Seconds(), MaxQueryS: r.Solver.MaxQuery.Seconds(), WallS: r.Wall.Seconds(),
			SamplePaths: r.SamplePaths, Notes: r.Notes}
		if bt, ok := pc.Bounds[r.Name]; ok {
			ev.Bounds["inputs"] = bt
		}
		evs = append(evs, ev)

		// vacuity: every nd.Reach id in the harness body must have been reached
		for _, id := range reachIDs(h.fn) {
			if r.Reached[id] == 0 {
				inconclusive++
				inconcLines = append(inconcLines, fmt.Sprintf("INCONCLUSIVE property=%s harness=%s reason=reach-witness-%s-not-reached", prop, r.Name, id))
			}
		}
		if n := r.Inconclusive(); n > 0 {
			inconclusive += n
			why := []string{}
			if !r.Complete {
				why = append(why, "budget-exhausted")
			}
			if r.Unwind > 0 {
				why = append(why, fmt.Sprintf("unwinding-failures=%d", r.Unwind))
			}
			if r.AssertUnk > 0 {
				why = append(why, fmt.Sprintf("solver-unknown=%d", r.AssertUnk))
			}
			if r.Budget > 0 {
				why = append(why, fmt.Sprintf("path-budget=%d", r.Budget))
			}
			for k, c := range r.Unsupported {
				why = append(why, fmt.Sprintf("unsupported(%s)x%d", strings.ReplaceAll(k, " ", "_"), c))
			}
			for k, c := range r.Internal {
				why = append(why, fmt.Sprintf("internal(%s)x%d", strings.ReplaceAll(firstLine(k), " ", "_"), c))
			}
			inconcLines = append(inconcLines, fmt.Sprintf("INCONCLUSIVE property=%s harness=%s reason=%s", prop, r.Name, strings.Join(why, ",")))
		}

		var np *nativePkg
		if !*noNative {
			<-nativeDone[h.rel]
			nativeMu.Lock()
			np = natives[h.rel]
			nativeMu.Unlock()
			if np.err != nil {
				inconclusive++
				inconcLines = append(inconcLines, fmt.Sprintf("INCONCLUSIVE property=%s harness=%s reason=native-build-failed", prop, r.Name))
				fmt.Fprintln(os.Stderr, np.err)
				np = nil
			}
		}

		// translator validation: native random runs vs executor in concrete mode
		if np != nil && b.Conf > 0 {
			runs, err := np.conformance(work, repo, r.Name, seed, b.Conf)
			if err != nil {
				inconclusive++
				inconcLines = append(inconcLines, fmt.Sprintf("INCONCLUSIVE property=%s harness=%s reason=conformance-run-failed", prop, r.Name))
				fmt.Fprintln(os.Stderr, err)
			} else {
				mism := 0
				m := pool.Ms[0]
				for i, nr := range runs {
					if msg := conformOne(m, h.fn, conf, nr); msg != "" {
						mism++
						if mism <= 3 {
							fmt.Printf("   CONFORMANCE-MISMATCH %s run %d: %s\n      inputs=%v\n", r.Name, i, msg, nr.Inputs)
							ev.Notes = append(ev.Notes, "conformance mismatch: "+msg)
						}
					}
				}
				ev.ConfRuns = len(runs)
				ev.ConfMismatch = mism
				confTotal += len(runs) - mism
				if mism > 0 {
					inconclusive++
					inconcLines = append(inconcLines, fmt.Sprintf("INCONCLUSIVE property=%s harness=%s reason=executor-disagrees-with-native-on-%d-of-%d-vectors", prop, r.Name, mism, len(runs)))
				}
			}
		}

		// counterexamples: replay natively, then classify
		for _, id := range sx.SortedKeys(r.CEs) {
			g := r.CEs[id]
			ceEv := map[string]any{"id": id, "kind": g.First.Kind, "paths": g.Count}
			vals := map[string]uint64{}
			for k, v := range g.First.Model {
				vals[k] = v
			}
			for k, v := range g.First.Choices {
				vals[k] = uint64(v)
			}
			ceEv["input"] = renderVals(vals, g.First.Widths)
			status := "not-replayed"
			var replayFile string
			if np != nil {
				reproduced := false
				for i, ce := range g.All {
					v2 := map[string]uint64{}
					for k, v := range ce.Model {
						v2[k] = v
					}
					for k, v := range ce.Choices {
						v2[k] = uint64(v)
					}
					nr, file, err := np.replay(work, repo, r.Name, v2, ce.Sched, maxPreemptOf(conf), sanitize(id)+"-"+strconv.Itoa(i))
					if err != nil {
						fmt.Fprintln(os.Stderr, "replay error:", err)
						continue
					}
					ok := false
					if nr.SchedDesync {
						fmt.Fprintf(os.Stderr, "replay of %s: native schedule diverged from the recorded one\n", id)
					}
					if g.First.Kind == "panic" {
						ok = nr.Panic != "" && !nr.Deadlock
					} else if g.First.Kind == "deadlock" {
						ok = nr.Deadlock
					} else {
						for _, f := range nr.Failed {
							if f == id {
								ok = true
							}
						}
					}
					if ok {
						reproduced = true
						replayFile = file
						ceEv["input"] = renderVals(v2, ce.Widths)
						if nr.Panic != "" {
							ceEv["native_panic"] = firstLine(nr.Panic)
						}
						break
					}
				}
				if reproduced {
					status = "reproduced-natively"
					confTotal++
				} else {
					status = "ENCODING-MISMATCH"
				}
			}
			ceEv["status"] = status
			switch status {
			case "reproduced-natively":
				// keep the replay file under /verif/evidence/replays
				keep := filepath.Join(envOr("VERIF_EVIDENCE", filepath.Join(verif, "evidence")), "replays", prop+"-"+r.Name+"-"+sanitize(id)+".json")
				os.MkdirAll(filepath.Dir(keep), 0o755)
				if raw, err := os.ReadFile(replayFile); err == nil {
					os.WriteFile(keep, raw, 0o644)
				}
				var known *finding
				for _, fd := range findings {
					if fd.kind == "finding" && fd.prop == prop && fd.harness == r.Name && fd.assert == id {
						known = fd
					}
				}
				if known != nil {
					known.used = true
					ceEv["classification"] = "known-finding"
					knownLines = append(knownLines, fmt.Sprintf("KNOWN-FINDING: property=%s harness=%s assert=%s %s", prop, r.Name, id, known.text))
				} else {
					violations++
					ceEv["classification"] = "violation"
					violationLines = append(violationLines, fmt.Sprintf("VIOLATION property=%s replay=%s harness=%s assert=%s", prop, keep, r.Name, id))
				}
			case "ENCODING-MISMATCH":
				inconclusive++
				inconcLines = append(inconcLines, fmt.Sprintf("INCONCLUSIVE property=%s harness=%s reason=ENCODING-MISMATCH-on-%s", prop, r.Name, id))
			default:
				inconclusive++
				inconcLines = append(inconcLines, fmt.Sprintf("INCONCLUSIVE property=%s harness=%s reason=counterexample-%s-not-replayed", prop, r.Name, id))
			}
			ev.CEs = append(ev.CEs, ceEv)
		}
	}

	for _, l := range knownLines {
		fmt.Println(l)
	}
	for _, l := range inconcLines {
		fmt.Println(l)
	}
	for _, l := range violationLines {
		fmt.Println(l)
	}

	// evidence
	level := pc.Level
	if level == "" {
		level = "model_checking"
	}
	samples := []any{}
	for _, e := range evs {
		samples = append(samples, e)
	}
	if totalPaths == 0 {
		totalPaths = 1
	}
	if totalQueries == 0 {
		totalQueries = 1
	}
	cov := map[string]any{
		"states":                        totalPaths,
		"transitions":                   totalQueries,
		"traces_validated_against_impl": confTotal,
		"samples":                       samples,
		"inconclusive":                  inconclusive,
		"functions_encoded":             pc.Functions,
		"callees_path_merged":           pc.Merge,
		"outside_claim":                 pc.Outside,
		"known_findings_reported":       len(knownLines),
		"explanation":                   "states = symbolic paths explored; transitions = SMT queries discharged; traces_validated = native random vectors on which the executor (concrete mode) agreed with the compiled code, plus natively replayed counterexamples",
		"partial_run":                   onlyRe != nil,
	}
	evd := map[string]any{
		"property_id": prop, "tier": *tier, "seed": seed, "level": level, "coverage": cov,
		"assumptions": append([]string{"bounds as listed per harness; nothing outside them is claimed", "map iteration order = insertion order", "solver: " + *solverKind + " (any unknown/timeout/(error is counted inconclusive)"}, pc.Assumptions...),
		"wall_s":      time.Since(t0).Seconds(), "violations": violations,
	}
	raw, _ := json.MarshalIndent(evd, "", " ")
	os.MkdirAll(filepath.Dir(evPath), 0o755)
	if err := os.WriteFile(evPath, raw, 0o644); err != nil {
		fmt.Fprintln(os.Stderr, err)
		return 2
	}
	fmt.Printf("[%s] tier=%s harnesses=%d paths=%d queries=%d validated=%d inconclusive=%d known=%d violations=%d wall=%.1fs\n",
		prop, *tier, len(hs), totalPaths, totalQueries, confTotal, inconclusive, len(knownLines), violations, time.Since(t0).Seconds())
	os.RemoveAll(filepath.Join(work, "bin"))
	if violations > 0 {
		return 1
	}
	return 0
}

func writeBrokenEvidence(path, prop, tier string, seed int64, why string, d time.Duration) {
	evd := map[string]any{"property_id": prop, "tier": tier, "seed": seed, "level": "other",
		"coverage": map[string]any{"explanation": "check could not run: " + why, "inconclusive": 1}, "wall_s": d.Seconds(), "violations": 0}
	raw, _ := json.MarshalIndent(evd, "", " ")
	os.MkdirAll(filepath.Dir(path), 0o755)
	os.WriteFile(path, raw, 0o644)
}

func firstLine(s string) string {
	if i := strings.IndexByte(s, '\n'); i >= 0 {
		s = s[:i]
	}
	if len(s) > 160 {
		s = s[:160]
	}
	return s
}

func sanitize(s string) string {
	var sb strings.Builder
	for _, r := range s {
		switch {
		case r >= 'a' && r <= 'z', r >= 'A' && r <= 'Z', r >= '0' && r <= '9', r == '.', r == '-', r == '_':
			sb.WriteRune(r)
		default:
			sb.WriteByte('_')
		}
	}
	out := sb.String()
	if len(out) > 100 {
		out = out[:100]
	}
	return out
}

func renderVals(vals map[string]uint64, widths map[string]int) map[string]string {
	out := map[string]string{}
	for k, v := range vals {
		w := widths[k]
		s := strconv.FormatUint(v, 10)
		if w > 1 && w <= 64 && v>>(uint(w)-1)&1 == 1 {
			var sv int64
			if w == 64 {
				sv = int64(v)
			} else {
				sv = int64(v) - (int64(1) << uint(w))
			}
			s += " (signed " + strconv.FormatInt(sv, 10) + ")"
		}
		out[k] = s
	}
	return out
}

// reachIDs lists the constant ids passed to nd.Reach anywhere in fn.
func reachIDs(fn *ssa.Function) []string {
	seen := map[string]bool{}
	var visit func(f *ssa.Function)
	visit = func(f *ssa.Function) {
		for _, b := range f.Blocks {
			for _, in := range b.Instrs {
				c, ok := in.(*ssa.Call)
				if !ok {
					continue
				}
				callee := c.Call.StaticCallee()
				if callee == nil || callee.String() != sx.NdPath+".Reach" {
					continue
				}
				if k, ok := c.Call.Args[0].(*ssa.Const); ok {
					seen[strings.Trim(k.Value.ExactString(), "\"")] = true
				}
			}
		}
		for _, af := range f.AnonFuncs {
			visit(af)
		}
	}
	visit(fn)
	return sx.SortedKeys(seen)
}

// conformOne runs the executor in concrete mode on one native vector and
// compares outcome and observations. Returns "" on agreement.
func conformOne(m *sx.Machine, fn *ssa.Function, conf sx.Config, nr nativeResult) string {
	vals := map[string]uint64{}
	for k, s := range nr.Inputs {
		v, _ := strconv.ParseUint(s, 10, 64)
		vals[k] = v
	}
	c := conf
	c.Concrete = vals
	c.ConcreteSet = true
	m.Conf = c
	pr := m.RunPath(fn, nil)
	m.Conf = conf
	kind, detail := pr.Outcome()
	var exp string
	switch {
	case nr.Panic != "":
		exp = "panic"
	case len(nr.Failed) > 0:
		exp = "assert-failed:" + strings.Join(nr.Failed, ",")
	case nr.AssumeFailed:
		exp = "assume-failed"
	default:
		exp = "ok"
	}
	got := kind
	if kind == "assert-failed" {
		got += ":" + detail
	}
	if got != exp {
		return fmt.Sprintf("outcome native=%s executor=%s (%s)", exp, got, firstLine(detail))
	}
	if !equalStrings(pr.Observes, nr.Observes) {
		return fmt.Sprintf("observations differ: native=%v executor=%v", clip(nr.Observes), clip(pr.Observes))
	}
	return ""
}

func clip(xs []string) []string {
	if len(xs) > 12 {
		return append(append([]string{}, xs[:12]...), "…")
	}
	return xs
}

func equalStrings(a, b []string) bool {
	if len(a) != len(b) {
		return false
	}
	for i := range a {
		if a[i] != b[i] {
			return false
		}
	}
	return true
}

var _ = bytes.Compare

func maxPreemptOf(c sx.Config) int {
	if c.MaxPreempt > 0 {
		return c.MaxPreempt
	}
	return 3
}
