package sx

import (
	"fmt"
	"go/types"

	"golang.org/x/tools/go/ssa"
)

func (m *Machine) zero(t types.Type) Value {
	switch t := t.(type) {
	case *types.Basic:
		if t.Kind() == types.UntypedNil {
			panic("untyped nil has no zero value")
		}
		if t.Info()&types.IsUntyped != 0 {
			t = types.Default(t).(*types.Basic)
		}
		switch {
		case t.Info()&types.IsBoolean != 0:
			return m.F.False
		case t.Info()&types.IsInteger != 0:
			return m.F.Const(m.width(t), 0)
		case t.Kind() == types.Float32:
			return float32(0)
		case t.Kind() == types.Float64:
			return float64(0)
		case t.Info()&types.IsComplex != 0:
			return complex128(0)
		case t.Info()&types.IsString != 0:
			return Str{}
		case t.Kind() == types.UnsafePointer:
			return Ptr(nil)
		}
		panic("zero of basic " + t.String())
	case *types.Pointer:
		return Ptr(nil)
	case *types.Array:
		n := int(t.Len())
		a := make(Array, n)
		if n > 0 {
			z := m.zero(t.Elem())
			if _, shareable := z.(T); shareable {
				for i := range a {
					a[i] = z
				}
			} else {
				a[0] = z
				for i := 1; i < n; i++ {
					a[i] = m.zero(t.Elem())
				}
			}
		}
		return a
	case *types.Named:
		return m.zero(t.Underlying())
	case *types.Alias:
		return m.zero(types.Unalias(t))
	case *types.Interface:
		return Iface{}
	case *types.Slice:
		return Slice{}
	case *types.Struct:
		s := make(Struct, t.NumFields())
		for i := range s {
			s[i] = m.zero(t.Field(i).Type())
		}
		return s
	case *types.Tuple:
		if t.Len() == 1 {
			return m.zero(t.At(0).Type())
		}
		s := make(Tuple, t.Len())
		for i := range s {
			s[i] = m.zero(t.At(i).Type())
		}
		return s
	case *types.Chan:
		return (*Chan)(nil)
	case *types.Map:
		return (*Map)(nil)
	case *types.Signature:
		return nilFunc
	case *types.TypeParam:
		panic("zero of type parameter")
	}
	panic(fmt.Sprint("zero: unexpected ", t))
}

// Chan is a channel: buffered sends/receives, close, and blocking receives
// under the cooperative scheduler. Unbuffered rendezvous sends and select are
// not supported.
type Chan struct {
	cap    int
	buf    []Value
	closed bool
	elem   types.Type
}

// copyVal deep-copies aggregates (struct/array); other values are immutable
// or have reference semantics.
func copyVal(v Value) Value {
	switch v := v.(type) {
	case Struct:
		c := make(Struct, len(v))
		for i, f := range v {
			c[i] = copyVal(f)
		}
		return c
	case Array:
		c := make(Array, len(v))
		for i, f := range v {
			c[i] = copyVal(f)
		}
		return c
	}
	return v
}

func (m *Machine) load(fr *frame, addr Value) Value {
	switch p := addr.(type) {
	case Ptr:
		if p == nil {
			m.rtPanic(fr, "nil-dereference")
		}
		if le, ok := (*p).(LazyEmbed); ok {
			m.forceEmbed(p, le) // not journaled: the file content is the variable's initial value
		}
		return copyVal(*p)
	case SymPtr:
		return m.symLoad(fr, p)
	case Poison:
		m.unsupported("load through poison: %s", p.Why)
	}
	panic(fmt.Sprintf("load from %T", addr))
}

func (m *Machine) store(fr *frame, t types.Type, addr Value, v Value) {
	switch p := addr.(type) {
	case Ptr:
		if p == nil {
			m.rtPanic(fr, "nil-dereference")
		}
		m.storeAt(p, v)
	case SymPtr:
		m.symStore(fr, p, v)
	case Poison:
		m.unsupported("store through poison: %s", p.Why)
	default:
		panic(fmt.Sprintf("store to %T", addr))
	}
}

// storeAt stores v into *p, recursing into aggregates so that pointers to
// fields/elements stay valid; leaf writes are journaled.
func (m *Machine) storeAt(p Ptr, v Value) {
	switch rhs := v.(type) {
	case Struct:
		if lhs, ok := (*p).(Struct); ok && len(lhs) == len(rhs) {
			for i := range lhs {
				m.storeAt(&lhs[i], rhs[i])
			}
			return
		}
		m.set(p, copyVal(v))
	case Array:
		if lhs, ok := (*p).(Array); ok && len(lhs) == len(rhs) {
			for i := range lhs {
				m.storeAt(&lhs[i], rhs[i])
			}
			return
		}
		m.set(p, copyVal(v))
	default:
		m.set(p, v)
	}
}

func walk(v Value, path []int) Value {
	for _, i := range path {
		switch a := v.(type) {
		case Struct:
			v = a[i]
		case Array:
			v = a[i]
		default:
			panic(fmt.Sprintf("walk into %T", v))
		}
	}
	return v
}

func walkAddr(p Ptr, path []int) Ptr {
	for _, i := range path {
		switch a := (*p).(type) {
		case Struct:
			p = &a[i]
		case Array:
			p = &a[i]
		default:
			panic(fmt.Sprintf("walkAddr into %T", *p))
		}
	}
	return p
}

// symLoad reads through a symbolic pointer: an ite-chain when the leaves can
// be merged, otherwise a fork on the index.
func (m *Machine) symLoad(fr *frame, p SymPtr) Value {
	n := len(p.Elems)
	if n == 0 {
		m.abort("internal", "symLoad from empty window")
	}
	w := p.Idx.W
	if v, ok := m.cltLoad(p.Idx, func(k int) Value { return walk(p.Elems[k], p.Path) }, n); ok {
		return copyVal(v)
	}
	res := copyVal(walk(p.Elems[n-1], p.Path))
	ok := true
	for k := n - 2; k >= 0 && ok; k-- {
		c := m.F.Eq(p.Idx, m.F.Const(w, uint64(k)))
		var merged Value
		merged, ok = m.ite(c, walk(p.Elems[k], p.Path), res)
		if ok {
			res = merged
		}
	}
	if ok {
		return res
	}
	k := m.forkIndex(fr, p.Idx, n)
	return copyVal(walk(p.Elems[k], p.Path))
}

func (m *Machine) forkIndex(fr *frame, idx T, n int) int {
	for k := 0; k < n-1; k++ {
		if m.Decide(m.F.Eq(idx, m.F.Const(idx.W, uint64(k)))) {
			return k
		}
	}
	return n - 1
}

func (m *Machine) symStore(fr *frame, p SymPtr, v Value) {
	n := len(p.Elems)
	w := p.Idx.W
	// weak update when mergeable
	type upd struct {
		addr Ptr
		val  Value
	}
	var upds []upd
	ok := true
	for k := 0; k < n && ok; k++ {
		addr := walkAddr(&p.Elems[k], p.Path)
		c := m.F.Eq(p.Idx, m.F.Const(w, uint64(k)))
		var merged Value
		merged, ok = m.ite(c, v, *addr)
		if ok {
			upds = append(upds, upd{addr, merged})
		}
	}
	if ok {
		for _, u := range upds {
			m.storeAt(u.addr, u.val)
		}
		return
	}
	k := m.forkIndex(fr, p.Idx, n)
	m.storeAt(walkAddr(&p.Elems[k], p.Path), v)
}

// ite merges two values under condition c; ok=false when the shapes differ.
func (m *Machine) ite(c T, a, b Value) (Value, bool) {
	if c.IsConst() {
		if c.Val != 0 {
			return a, true
		}
		return b, true
	}
	switch x := a.(type) {
	case T:
		y, ok := b.(T)
		if !ok || x.W != y.W {
			return nil, false
		}
		return m.F.Ite(c, x, y), true
	case Str:
		y, ok := b.(Str)
		if !ok || x.Len() != y.Len() {
			return nil, false
		}
		if x.B == nil && y.B == nil && x.S == y.S {
			return x, true
		}
		n := x.Len()
		out := make([]T, n)
		for i := 0; i < n; i++ {
			out[i] = m.F.Ite(c, m.strAt(x, i), m.strAt(y, i))
		}
		return Str{B: out}, true
	case Struct:
		y, ok := b.(Struct)
		if !ok || len(x) != len(y) {
			return nil, false
		}
		out := make(Struct, len(x))
		for i := range x {
			v, ok := m.ite(c, x[i], y[i])
			if !ok {
				return nil, false
			}
			out[i] = v
		}
		return out, true
	case Array:
		y, ok := b.(Array)
		if !ok || len(x) != len(y) {
			return nil, false
		}
		out := make(Array, len(x))
		for i := range x {
			v, ok := m.ite(c, x[i], y[i])
			if !ok {
				return nil, false
			}
			out[i] = v
		}
		return out, true
	case Tuple:
		y, ok := b.(Tuple)
		if !ok || len(x) != len(y) {
			return nil, false
		}
		out := make(Tuple, len(x))
		for i := range x {
			v, ok := m.ite(c, x[i], y[i])
			if !ok {
				return nil, false
			}
			out[i] = v
		}
		return out, true
	case Iface:
		y, ok := b.(Iface)
		if !ok {
			return nil, false
		}
		if x.T == nil && y.T == nil {
			return x, true
		}
		if x.T == nil || y.T == nil || !types.Identical(x.T, y.T) {
			return nil, false
		}
		v, ok := m.ite(c, x.V, y.V)
		if !ok {
			return nil, false
		}
		return Iface{T: x.T, V: v}, true
	case Ptr:
		if y, ok := b.(Ptr); ok && x == y {
			return x, true
		}
	case float64:
		if y, ok := b.(float64); ok && (x == y || x != x && y != y) {
			return x, true
		}
	case Slice:
		if y, ok := b.(Slice); ok && len(x.V) == len(y.V) && (len(x.V) == 0 && (x.V == nil) == (y.V == nil) || len(x.V) > 0 && &x.V[0] == &y.V[0]) {
			return x, true
		}
	case *ssa.Function:
		if y, ok := b.(*ssa.Function); ok && x == y {
			return x, true
		}
	case *Map:
		if y, ok := b.(*Map); ok && x == y {
			return x, true
		}
	case nil:
		if b == nil {
			return nil, true
		}
	}
	return nil, false
}

func (m *Machine) strAt(s Str, i int) T {
	if s.B != nil {
		return s.B[i]
	}
	return m.F.Const(8, uint64(s.S[i]))
}

func (m *Machine) strBytes(s Str) []T {
	if s.B != nil {
		return s.B
	}
	out := make([]T, len(s.S))
	for i := 0; i < len(s.S); i++ {
		out[i] = m.F.Const(8, uint64(s.S[i]))
	}
	return out
}

func (m *Machine) mkStr(bs []T) Str {
	conc := true
	for _, b := range bs {
		if !b.IsConst() {
			conc = false
			break
		}
	}
	if conc {
		raw := make([]byte, len(bs))
		for i, b := range bs {
			raw[i] = byte(b.Val)
		}
		return Str{S: string(raw)}
	}
	return Str{B: bs}
}

func (m *Machine) fieldAddr(fr *frame, x Value, field int) Value {
	switch p := x.(type) {
	case Ptr:
		if p == nil {
			m.rtPanic(fr, "nil-dereference")
		}
		st, ok := (*p).(Struct)
		if !ok {
			if ps, isP := (*p).(Poison); isP {
				return ps
			}
			panic(fmt.Sprintf("FieldAddr of pointer to %T in %s", *p, fr.fn))
		}
		return Ptr(&st[field])
	case SymPtr:
		np := SymPtr{Elems: p.Elems, Idx: p.Idx, Path: append(append([]int(nil), p.Path...), field)}
		return np
	case Poison:
		return p
	}
	panic(fmt.Sprintf("FieldAddr of %T", x))
}

// boundsCheck decides 0 <= idx < n (idx of static type it); raises the Go
// run-time panic on the failing side.
func (m *Machine) boundsCheck(fr *frame, idx T, it types.Type, n int, kind string) {
	var inb T
	if idx.W < 64 {
		// compare in 64 bits: n may not fit the index type (e.g. [256]T indexed by a byte)
		if isSigned(it) {
			idx = m.F.Sext(idx, 64)
		} else {
			idx = m.F.Zext(idx, 64)
		}
	}
	nn := m.F.Const(idx.W, uint64(n))
	if isSigned(it) {
		inb = m.F.And(m.F.Sle(m.F.Const(idx.W, 0), idx), m.F.Slt(idx, nn))
	} else {
		inb = m.F.Ult(idx, nn)
	}
	if !m.Decide(inb) {
		m.rtPanic(fr, kind)
	}
}

func (m *Machine) indexAddr(fr *frame, in *ssa.IndexAddr, x Value, iv Value) Value {
	idx, ok := iv.(T)
	if !ok {
		m.unsupported("index %s", describe(iv))
	}
	var elems []Value
	switch a := x.(type) {
	case Ptr: // pointer to array
		if a == nil {
			m.rtPanic(fr, "nil-dereference")
		}
		arr, ok := (*a).(Array)
		if !ok {
			if ps, isP := (*a).(Poison); isP {
				return ps
			}
			panic(fmt.Sprintf("IndexAddr of pointer to %T", *a))
		}
		elems = arr
	case Slice:
		elems = a.V
	case SymPtr:
		// pointer to array inside a symbolically indexed element
		if !idx.IsConst() {
			// nested symbolic index: make the outer index concrete by forking
			k := m.forkIndex(fr, a.Idx, len(a.Elems))
			return m.indexAddr(fr, in, Ptr(walkAddr(&a.Elems[k], a.Path)), iv)
		}
		probe := walk(a.Elems[0], a.Path)
		arr, ok := probe.(Array)
		if !ok {
			panic("IndexAddr SymPtr non-array")
		}
		k := int(idx.SignedVal())
		if k < 0 || k >= len(arr) {
			m.rtPanic(fr, "index-out-of-range")
		}
		return SymPtr{Elems: a.Elems, Idx: a.Idx, Path: append(append([]int(nil), a.Path...), k)}
	case Poison:
		return a
	default:
		panic(fmt.Sprintf("IndexAddr of %T", x))
	}
	m.boundsCheck(fr, idx, in.Index.Type(), len(elems), "index-out-of-range")
	if idx.IsConst() {
		return Ptr(&elems[idx.Val])
	}
	if len(elems) == 1 {
		return Ptr(&elems[0])
	}
	if len(elems) > 4096 {
		m.unsupported("symbolic index into %d elements", len(elems))
	}
	return SymPtr{Elems: elems, Idx: idx}
}

func (m *Machine) index(fr *frame, in *ssa.Index, x Value, iv Value) Value {
	idx, ok := iv.(T)
	if !ok {
		m.unsupported("index %s", describe(iv))
	}
	switch a := x.(type) {
	case Array:
		m.boundsCheck(fr, idx, in.Index.Type(), len(a), "index-out-of-range")
		if idx.IsConst() {
			return a[idx.Val]
		}
		return m.symLoad(fr, SymPtr{Elems: a, Idx: idx})
	case Str:
		return m.strIndex(fr, a, idx, in.Index.Type())
	}
	panic(fmt.Sprintf("Index of %T", x))
}

func (m *Machine) strIndex(fr *frame, s Str, idx T, it types.Type) Value {
	n := s.Len()
	m.boundsCheck(fr, idx, it, n, "index-out-of-range")
	if idx.IsConst() {
		return m.strAt(s, int(idx.Val))
	}
	if n > 4096 {
		m.unsupported("symbolic index into string of %d bytes", n)
	}
	if v, ok := m.cltLoad(idx, func(k int) Value { return m.strAt(s, k) }, n); ok {
		return v
	}
	res := m.strAt(s, n-1)
	for k := n - 2; k >= 0; k-- {
		res = m.F.Ite(m.F.Eq(idx, m.F.Const(idx.W, uint64(k))), m.strAt(s, k), res)
	}
	return res
}

func (m *Machine) slice(fr *frame, in *ssa.Slice) Value {
	x := fr.get(in.X)
	var n, c int
	switch a := x.(type) {
	case Str:
		n, c = a.Len(), a.Len()
	case Slice:
		n, c = len(a.V), cap(a.V)
	case Ptr:
		if a == nil {
			m.rtPanic(fr, "nil-dereference")
		}
		arr, ok := (*a).(Array)
		if !ok {
			if ps, isP := (*a).(Poison); isP {
				m.unsupported("slice of poison: %s", ps.Why)
			}
			panic(fmt.Sprintf("slice of pointer to %T", *a))
		}
		n, c = len(arr), len(arr)
	case Poison:
		m.unsupported("slice of poison: %s", a.Why)
	default:
		panic(fmt.Sprintf("slice of %T", x))
	}
	// Bounds as terms: 0 <= lo <= hi <= max <= cap (hi defaults to len, max to cap).
	// The validity condition is decided symbolically FIRST — huge or negative
	// symbolic bounds (integer overflow in length arithmetic) end in the Go
	// run-time panic branch — and only then are the in-range values enumerated.
	F := m.F
	term := func(v ssa.Value, def int) T {
		if v == nil {
			return F.Const(64, uint64(def))
		}
		t, ok := fr.get(v).(T)
		if !ok {
			m.unsupported("slice bound %s", describe(fr.get(v)))
		}
		if t.W < 64 {
			if isSigned(v.Type()) {
				t = F.Sext(t, 64)
			} else {
				t = F.Zext(t, 64)
			}
		}
		return t
	}
	lo, hi, mx := term(in.Low, 0), term(in.High, n), term(in.Max, c)
	valid := F.And(F.And(F.Sle(F.Const(64, 0), lo), F.Sle(lo, hi)), F.And(F.Sle(hi, mx), F.Sle(mx, F.Const(64, uint64(c)))))
	if !m.Decide(valid) {
		m.rtPanic(fr, "slice-bounds-out-of-range")
	}
	conc := func(t T, upto int, what string) int {
		if t.IsConst() {
			return int(t.SignedVal())
		}
		if upto > 4096 {
			m.unsupported("%s: symbolic slice bound over %d positions in %s", what, upto, fr.fn)
		}
		for i := 0; i < upto; i++ {
			if m.Decide(F.Eq(t, F.Const(64, uint64(i)))) {
				return i
			}
		}
		return upto
	}
	l := conc(lo, c, "low")
	h := conc(hi, c, "high")
	mxv := conc(mx, c, "max")
	switch a := x.(type) {
	case Str:
		if a.B != nil {
			return m.mkStr(a.B[l:h:h])
		}
		return Str{S: a.S[l:h]}
	case Slice:
		if a.V == nil {
			return Slice{}
		}
		return Slice{V: a.V[l:h:mxv]}
	case Ptr:
		arr := (*a).(Array)
		return Slice{V: []Value(arr)[l:h:mxv]}
	}
	panic("unreachable")
}

// cltLoad reads elem(idx) when idx is an ite tree with constant leaves (the
// result of an earlier table lookup): the lookup is pushed into the leaves, so
// chained table lookups do not build a fresh n-way chain per level.
func (m *Machine) cltLoad(idx T, elem func(k int) Value, n int) (Value, bool) {
	if !m.F.IsCLT(idx) {
		return nil, false
	}
	memo := map[T]Value{}
	var rec func(x T) (Value, bool)
	rec = func(x T) (Value, bool) {
		if x.IsConst() {
			if x.Val >= uint64(n) {
				return nil, false // out-of-range leaf: excluded by the bounds check's path condition, but do not guess
			}
			return elem(int(x.Val)), true
		}
		if v, ok := memo[x]; ok {
			return v, true
		}
		c, a, b := m.F.CLTParts(x)
		va, ok := rec(a)
		if !ok {
			return nil, false
		}
		vb, ok := rec(b)
		if !ok {
			return nil, false
		}
		v, ok := m.ite(c, va, vb)
		if !ok {
			return nil, false
		}
		memo[x] = v
		return v, true
	}
	return rec(idx)
}
