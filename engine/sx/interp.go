package sx

import (
	"fmt"
	"go/constant"
	"go/token"
	"go/types"
	"os"
	"runtime"
	"slices"
	"time"

	"golang.org/x/tools/go/ssa"
)

func runtimeStack(buf []byte) int { return runtime.Stack(buf, false) }

type deferred struct {
	fn    Value
	args  []Value
	instr *ssa.Defer
	tail  *deferred
}

type fnInfo struct {
	idx map[ssa.Value]int
	n   int
}

type frame struct {
	m         *Machine
	caller    *frame
	fn        *ssa.Function
	info      *fnInfo
	block     *ssa.BasicBlock
	prev      *ssa.BasicBlock
	env       []Value
	defers    *deferred
	result    Value
	panicking bool
	panicV    *GoPanic
	loops     map[*ssa.BasicBlock]int
	phitmp    []Value
	depth     int
	skipPhis  bool
}

func (w *World) info(fn *ssa.Function) *fnInfo {
	w.infoMu.Lock()
	defer w.infoMu.Unlock()
	if fi, ok := w.infos[fn]; ok {
		return fi
	}
	fi := &fnInfo{idx: map[ssa.Value]int{}}
	add := func(v ssa.Value) {
		fi.idx[v] = fi.n
		fi.n++
	}
	for _, p := range fn.Params {
		add(p)
	}
	for _, fv := range fn.FreeVars {
		add(fv)
	}
	for _, b := range fn.Blocks {
		for _, in := range b.Instrs {
			if v, ok := in.(ssa.Value); ok {
				add(v)
			}
		}
	}
	w.infos[fn] = fi
	return fi
}

func (fr *frame) get(key ssa.Value) Value {
	switch key := key.(type) {
	case nil:
		return nil
	case *ssa.Function:
		return key
	case *ssa.Builtin:
		return key
	case *ssa.Const:
		return fr.m.constValue(key)
	case *ssa.Global:
		return fr.m.globalAddr(key)
	}
	if i, ok := fr.info.idx[key]; ok {
		return fr.env[i]
	}
	panic(fmt.Sprintf("get: no value for %T: %v in %s", key, key.Name(), fr.fn))
}

func (fr *frame) setv(key ssa.Value, v Value) {
	fr.env[fr.info.idx[key]] = v
}

func (m *Machine) globalAddr(g *ssa.Global) Ptr {
	if p, ok := m.globals[g]; ok {
		return p
	}
	p := new(Value)
	if g.Pkg != nil && (m.W.wantInit(g.Pkg) || g.Pkg.Pkg.Path() == "internal/cpu" || g.Pkg.Pkg.Path() == "internal/bytealg") {
		*p = m.zero(deref(g.Type()))
	} else {
		*p = Poison{"global of uninitialised package: " + g.String()}
	}
	m.globals[g] = p
	return p
}

func deref(t types.Type) types.Type {
	if p, ok := t.Underlying().(*types.Pointer); ok {
		return p.Elem()
	}
	return t
}

func (m *Machine) constValue(c *ssa.Const) Value {
	t := c.Type()
	if c.Value == nil {
		return m.zero(t)
	}
	if tp, ok := t.(*types.TypeParam); ok {
		_ = tp
		m.unsupported("constant of type parameter type")
	}
	switch u := t.Underlying().(type) {
	case *types.Basic:
		switch {
		case u.Info()&types.IsBoolean != 0:
			return m.F.Bool(constant.BoolVal(c.Value))
		case u.Info()&types.IsInteger != 0:
			w := m.width(u)
			if u.Info()&types.IsUnsigned != 0 {
				v, _ := constant.Uint64Val(constant.ToInt(c.Value))
				return m.F.Const(w, v)
			}
			v, _ := constant.Int64Val(constant.ToInt(c.Value))
			return m.F.Const(w, uint64(v))
		case u.Info()&types.IsString != 0:
			if c.Value.Kind() == constant.String {
				return Str{S: constant.StringVal(c.Value)}
			}
			// integer constant converted to string
			v, _ := constant.Int64Val(constant.ToInt(c.Value))
			return Str{S: string(rune(v))}
		case u.Info()&types.IsFloat != 0:
			f, _ := constant.Float64Val(c.Value)
			if u.Kind() == types.Float32 {
				return float32(f)
			}
			return f
		case u.Info()&types.IsComplex != 0:
			re, _ := constant.Float64Val(constant.Real(c.Value))
			im, _ := constant.Float64Val(constant.Imag(c.Value))
			return complex(re, im)
		case u.Kind() == types.UnsafePointer:
			return Ptr(nil)
		}
	}
	panic(fmt.Sprintf("constValue: %v of type %v", c, t))
}

func (m *Machine) width(t types.Type) int {
	b, ok := t.Underlying().(*types.Basic)
	if !ok {
		panic("width of non-basic " + t.String())
	}
	switch b.Kind() {
	case types.Bool, types.UntypedBool:
		return 0
	case types.Int8, types.Uint8:
		return 8
	case types.Int16, types.Uint16:
		return 16
	case types.Int32, types.Uint32, types.UntypedRune:
		return 32
	case types.Int, types.Uint, types.Int64, types.Uint64, types.Uintptr, types.UntypedInt:
		return 64
	}
	panic("width of " + t.String())
}

// ---------- calls ----------

func (m *Machine) call(caller *frame, pos token.Pos, fn Value, args []Value) Value {
	if m.initing {
		return m.protectedCall(caller, pos, fn, args)
	}
	return m.call2(caller, pos, fn, args)
}

func (m *Machine) call2(caller *frame, pos token.Pos, fn Value, args []Value) Value {
	switch fn := fn.(type) {
	case builtinConst:
		return fn.v
	case *ssa.Function:
		if fn == nil {
			m.rtPanic(caller, "nil-func-call")
		}
		return m.callFunction(caller, pos, fn, args)
	case *Closure:
		return m.callSSA(caller, pos, fn.Fn, args, fn.Env)
	case *ssa.Builtin:
		return m.callBuiltin(caller, fn, args)
	case Poison:
		m.unsupported("call of poison: %s", fn.Why)
	}
	panic(fmt.Sprintf("cannot call %T", fn))
}

func (m *Machine) callFunction(caller *frame, pos token.Pos, fn *ssa.Function, args []Value) Value {
	return m.callSSA(caller, pos, fn, args, nil)
}

func (m *Machine) callSSA(caller *frame, pos token.Pos, fn *ssa.Function, args []Value, env []Value) Value {
	if m.Conf.Merge != nil && m.inPath && !m.Conf.ConcreteSet && m.Conf.Merge[fn.String()] {
		if res, ok := m.tryMerged(caller, pos, fn, args, env); ok {
			return res
		}
	}
	return m.callSSA2(caller, pos, fn, args, env)
}

// runRealBody is returned by an intrinsic that declines: the function's own code is interpreted.
type runRealBody struct{}

func (m *Machine) callSSA2(caller *frame, pos token.Pos, fn *ssa.Function, args []Value, env []Value) Value {
	if fn.Parent() == nil {
		if in := m.W.intrinsic(fn); in != nil {
			if r := in(m, caller, fn, args); r != (runRealBody{}) {
				return r
			}
		}
		if m.Conf.StubText != nil && m.inPath && m.Conf.StubText[fn.String()] {
			// message-formatting helper declared "not the subject" by the property's
			// config: its string result is a placeholder (listed among the assumptions)
			if res := fn.Signature.Results(); res.Len() == 1 {
				if b, ok := res.At(0).Type().Underlying().(*types.Basic); ok && b.Info()&types.IsString != 0 {
					return Str{S: "<text not modelled>"}
				}
			}
			m.unsupported("stub_text function %s does not return a single string", fn.String())
		}
	}
	if fn.Synthetic == "package initializer" {
		if !m.W.wantInit(fn.Pkg) {
			// the package's own initialiser is not run, but packages it imports
			// that are wanted (e.g. net -> net/netip) must still be initialised
			if m.initSkipped == nil {
				m.initSkipped = map[*ssa.Package]bool{}
			}
			if !m.initSkipped[fn.Pkg] {
				m.initSkipped[fn.Pkg] = true
				for _, imp := range fn.Pkg.Pkg.Imports() {
					if ip := m.W.Prog.Package(imp); ip != nil && m.W.wantInit(ip) {
						if f := ip.Func("init"); f != nil {
							m.callSSA2(caller, pos, f, nil, nil)
						}
					}
				}
			}
			return nil
		}
		if !m.embedsDone[fn.Pkg] {
			if m.embedsDone == nil {
				m.embedsDone = map[*ssa.Package]bool{}
			}
			m.embedsDone[fn.Pkg] = true
			m.loadEmbeds(fn.Pkg)
		}
	}
	if fn.Pkg != nil && fn.Pkg.Pkg.Path() == "github.com/sirupsen/logrus" && fn.Synthetic != "package initializer" {
		// Logging is not the subject of any property: every logrus function is an
		// empty stub. Results are zero values, except that a pointer result (the
		// *Logger / *Entry that calls are chained on) is a fresh zero object.
		return m.loggingStub(fn)
	}
	if fn.Synthetic == "package initializer" && os.Getenv("VERIF_INITTIME") != "" {
		t0 := time.Now()
		defer func() {
			if d := time.Since(t0); d > 50*time.Millisecond {
				fmt.Fprintf(os.Stderr, "init %s: %v (inclusive)\n", fn.Pkg.Pkg.Path(), d)
			}
		}()
	}
	if fn.Blocks == nil {
		m.unsupported("no code for function %s", fn.String())
	}
	if fn.TypeParams().Len() > 0 && len(fn.TypeArgs()) == 0 {
		m.unsupported("uninstantiated generic %s", fn.String())
	}
	if !m.W.allowed(fn) {
		m.unsupported("callee outside allow-list: %s", fn.String())
	}
	m.depth++
	if m.depth > 400 {
		m.abort("budget", "call depth > 400 in %s", fn.String())
	}
	m.curFn = fn.String()
	fi := m.W.info(fn)
	fr := &frame{m: m, caller: caller, fn: fn, info: fi, depth: m.depth}
	fr.env = make([]Value, fi.n)
	fr.block = fn.Blocks[0]
	for _, l := range fn.Locals {
		p := new(Value)
		*p = m.zero(deref(l.Type()))
		fr.env[fi.idx[l]] = p
	}
	for i, p := range fn.Params {
		fr.env[fi.idx[p]] = args[i]
	}
	for i, fv := range fn.FreeVars {
		fr.env[fi.idx[fv]] = env[i]
	}
	for fr.block != nil {
		m.runFrame(fr)
	}
	m.depth--
	return fr.result
}

func (m *Machine) runFrame(fr *frame) {
	defer func() {
		if fr.block == nil {
			return
		}
		r := recover()
		gp, ok := r.(*GoPanic)
		if !ok {
			panic(r) // pathEnd or interpreter bug: not visible to the program
		}
		fr.panicking = true
		fr.panicV = gp
		fr.runDefers()
		fr.block = fr.fn.Recover
		if fr.block == nil {
			// recovered in a function without named results: return zero values
			fr.result = m.zeroResults(fr.fn)
		}
	}()
	for {
		m.depth = fr.depth
		instrs := fr.block.Instrs
		i := 0
		// parallel phi assignment
		if fr.skipPhis {
			// the phis were set by if-conversion
			fr.skipPhis = false
			for i < len(instrs) {
				if _, ok := instrs[i].(*ssa.Phi); !ok {
					break
				}
				i++
			}
		} else if _, ok := instrs[0].(*ssa.Phi); ok {
			pi := slices.Index(fr.block.Preds, fr.prev)
			fr.phitmp = fr.phitmp[:0]
			for i < len(instrs) {
				phi, ok := instrs[i].(*ssa.Phi)
				if !ok {
					break
				}
				fr.phitmp = append(fr.phitmp, fr.get(phi.Edges[pi]))
				i++
			}
			for j := 0; j < i; j++ {
				fr.setv(instrs[j].(*ssa.Phi), fr.phitmp[j])
			}
		}
		for ; i < len(instrs); i++ {
			m.steps++
			if m.steps > m.Conf.MaxSteps {
				m.abort("budget", "step budget %d exceeded in %s", m.Conf.MaxSteps, fr.fn)
			}
			if m.visit(fr, instrs[i]) {
				return
			}
		}
	}
}

func (m *Machine) loggingStub(fn *ssa.Function) Value {
	res := fn.Signature.Results()
	one := func(t types.Type) Value {
		if pt, ok := t.Underlying().(*types.Pointer); ok {
			p := new(Value)
			*p = m.zero(pt.Elem())
			return p
		}
		return m.zero(t)
	}
	switch res.Len() {
	case 0:
		return nil
	case 1:
		return one(res.At(0).Type())
	}
	t := make(Tuple, res.Len())
	for i := range t {
		t[i] = one(res.At(i).Type())
	}
	return t
}

func (m *Machine) zeroResults(fn *ssa.Function) Value {
	res := fn.Signature.Results()
	switch res.Len() {
	case 0:
		return nil
	case 1:
		return m.zero(res.At(0).Type())
	}
	t := make(Tuple, res.Len())
	for i := range t {
		t[i] = m.zero(res.At(i).Type())
	}
	return t
}

func (fr *frame) runDefer(d *deferred) {
	var ok bool
	defer func() {
		if !ok {
			r := recover()
			gp, isGP := r.(*GoPanic)
			if !isGP {
				panic(r)
			}
			fr.panicking = true
			fr.panicV = gp
		}
	}()
	fr.m.call(fr, d.instr.Pos(), d.fn, d.args)
	ok = true
}

func (fr *frame) runDefers() {
	for d := fr.defers; d != nil; d = d.tail {
		fr.runDefer(d)
	}
	fr.defers = nil
	if fr.panicking {
		panic(fr.panicV)
	}
}

func (m *Machine) doRecover(caller *frame) Value {
	if caller != nil && !caller.panicking && caller.caller != nil && caller.caller.panicking {
		caller.caller.panicking = false
		p := caller.caller.panicV
		caller.caller.panicV = nil
		if p == nil {
			return Iface{}
		}
		return p.V
	}
	return Iface{}
}

// rtPanic raises a Go run-time panic in the interpreted program.
func (m *Machine) rtPanic(fr *frame, kind string) {
	site := kind
	if fr != nil {
		site = kind + "@" + fr.fn.String()
	}
	panic(&GoPanic{V: Iface{T: m.W.runtimeErrorType(), V: Str{S: "runtime error: " + kind}}, Site: site, RT: true})
}

func (m *Machine) prepareCall(fr *frame, call *ssa.CallCommon) (Value, []Value) {
	v := fr.get(call.Value)
	var fn Value
	var args []Value
	if call.Method == nil {
		fn = v
	} else {
		recv, ok := v.(Iface)
		if !ok {
			if p, isP := v.(Poison); isP {
				m.unsupported("method call on poison: %s", p.Why)
			}
			if o, isO := v.(*Opaque); isO {
				m.unsupported("method %s on opaque %s", call.Method.Name(), o.Tag)
			}
			panic(fmt.Sprintf("invoke on non-interface %T", v))
		}
		if recv.T == nil {
			m.rtPanic(fr, "nil-interface-method-call")
		}
		if recv.T == reflectTypeCarrier {
			// the few reflect.Type methods that only need the static type
			if o, ok := recv.V.(*Opaque); ok {
				if t, ok := o.Data.(types.Type); ok {
					switch call.Method.Name() {
					case "Comparable":
						return builtinConst{m.F.Bool(types.Comparable(t))}, nil
					case "String":
						return builtinConst{Str{S: typeStr(t)}}, nil
					}
				}
			}
			m.unsupported("method %s on reflect.Type", call.Method.Name())
		}
		f := m.W.Prog.LookupMethod(recv.T, call.Method.Pkg(), call.Method.Name())
		if f == nil {
			m.unsupported("no method %s on dynamic type %s", call.Method.Name(), typeStr(recv.T))
		}
		fn = f
		args = append(args, recv.V)
	}
	for _, a := range call.Args {
		args = append(args, fr.get(a))
	}
	return fn, args
}

// visit executes one instruction; returns true when the frame is finished
// (Return) — jumps update fr.block and return false after the last instr.
func (m *Machine) visit(fr *frame, instr ssa.Instruction) bool {
	switch in := instr.(type) {
	case *ssa.DebugRef:
	case *ssa.UnOp:
		fr.setv(in, m.unop(fr, in, fr.get(in.X)))
	case *ssa.BinOp:
		y := fr.get(in.Y)
		if (in.Op == token.SHL || in.Op == token.SHR) && isSigned(in.Y.Type()) {
			if yt, ok := y.(T); ok && !m.Decide(m.F.Sle(m.F.Const(yt.W, 0), yt)) {
				m.rtPanic(fr, "negative-shift-amount")
			}
		}
		fr.setv(in, m.binop(fr, in.Op, in.X.Type(), fr.get(in.X), y))
	case *ssa.Call:
		if m.initing {
			fr.setv(in, m.protectedInstr(fr, in))
			break
		}
		fn, args := m.prepareCall(fr, &in.Call)
		fr.setv(in, m.call(fr, in.Pos(), fn, args))
	case *ssa.ChangeInterface:
		fr.setv(in, fr.get(in.X))
	case *ssa.ChangeType:
		fr.setv(in, fr.get(in.X))
	case *ssa.Convert:
		fr.setv(in, m.conv(fr, in.Type(), in.X.Type(), fr.get(in.X)))
	case *ssa.MultiConvert:
		fr.setv(in, m.conv(fr, in.Type(), in.X.Type(), fr.get(in.X)))
	case *ssa.SliceToArrayPointer:
		s := fr.get(in.X).(Slice)
		n := int(in.Type().Underlying().(*types.Pointer).Elem().Underlying().(*types.Array).Len())
		if len(s.V) < n {
			m.rtPanic(fr, "slice-to-array-pointer")
		}
		if s.V == nil {
			fr.setv(in, Ptr(nil))
		} else {
			// alias the backing store: an Array value sharing elements
			p := new(Value)
			*p = Array(s.V[:n:n])
			fr.setv(in, p)
		}
	case *ssa.MakeInterface:
		fr.setv(in, Iface{T: in.X.Type(), V: fr.get(in.X)})
	case *ssa.Extract:
		fr.setv(in, fr.get(in.Tuple).(Tuple)[in.Index])
	case *ssa.Slice:
		fr.setv(in, m.slice(fr, in))
	case *ssa.Return:
		switch len(in.Results) {
		case 0:
		case 1:
			fr.result = fr.get(in.Results[0])
		default:
			t := make(Tuple, len(in.Results))
			for i, r := range in.Results {
				t[i] = fr.get(r)
			}
			fr.result = t
		}
		fr.block = nil
		return true
	case *ssa.RunDefers:
		fr.runDefers()
	case *ssa.Panic:
		v := m.panicValue(fr.get(in.X))
		panic(&GoPanic{V: v, Site: "panic@" + fr.fn.String()})
	case *ssa.MakeChan:
		n := m.concreteInt(fr, fr.get(in.Size), "make-chan-size")
		if n < 0 {
			m.rtPanic(fr, "makechan-size-out-of-range")
		}
		fr.setv(in, &Chan{cap: n, elem: in.Type().Underlying().(*types.Chan).Elem()})
	case *ssa.Send:
		ch, _ := fr.get(in.Chan).(*Chan)
		m.chanSend(fr, ch, fr.get(in.X))
	case *ssa.Select:
		fr.setv(in, m.selectStmt(fr, in))
	case *ssa.Store:
		m.store(fr, deref(in.Addr.Type()), fr.get(in.Addr), fr.get(in.Val))
	case *ssa.If:
		c := fr.get(in.Cond)
		t, ok := c.(T)
		if !ok {
			m.unsupported("branch on %s", describe(c))
		}
		if !t.IsConst() && m.inPath && !m.Conf.ConcreteSet && !m.Conf.NoIfConv {
			if handled, finished := m.tryIfConvert(fr, t); handled {
				return finished
			}
		}
		succ := 1
		if m.Decide(t) {
			succ = 0
		}
		m.jump(fr, fr.block.Succs[succ])
		return false
	case *ssa.Jump:
		m.jump(fr, fr.block.Succs[0])
		return false
	case *ssa.Defer:
		fn, args := m.prepareCall(fr, &in.Call)
		fr.defers = &deferred{fn: fn, args: args, instr: in, tail: fr.defers}
	case *ssa.Go:
		fn, args := m.prepareCall(fr, &in.Call)
		m.spawn(fr, fn, args)
	case *ssa.Alloc:
		p := new(Value)
		*p = m.zero(deref(in.Type()))
		if in.Heap {
			fr.setv(in, p)
		} else {
			// locals were allocated at frame entry; re-zero on re-execution (loops)
			cur := fr.env[fr.info.idx[in]].(Ptr)
			*cur = *p
		}
	case *ssa.MakeSlice:
		ln := m.makeLen(fr, fr.get(in.Len), in.Len.Type(), "make-len")
		cp := ln
		if in.Cap != nil {
			cp = m.makeLen(fr, fr.get(in.Cap), in.Cap.Type(), "make-cap")
		}
		if ln < 0 || cp < ln {
			m.rtPanic(fr, "makeslice-len-out-of-range")
		}
		et := in.Type().Underlying().(*types.Slice).Elem()
		s := make([]Value, ln, cp)
		if cp > 0 {
			full := s[:cp]
			z := m.zero(et)
			_, shareable := z.(T)
			for i := range full {
				if shareable || i == 0 {
					full[i] = z
				} else {
					full[i] = m.zero(et)
				}
			}
		}
		fr.setv(in, Slice{V: s})
	case *ssa.MakeMap:
		fr.setv(in, m.newMap(in.Type()))
	case *ssa.Range:
		fr.setv(in, m.rangeIter(fr, in.X.Type(), fr.get(in.X)))
	case *ssa.Next:
		fr.setv(in, fr.get(in.Iter).(iterator).next(fr))
	case *ssa.FieldAddr:
		fr.setv(in, m.fieldAddr(fr, fr.get(in.X), in.Field))
	case *ssa.Field:
		x := fr.get(in.X)
		st, ok := x.(Struct)
		if !ok {
			if p, isP := x.(Poison); isP {
				fr.setv(in, p)
				break
			}
			panic(fmt.Sprintf("Field of %T", x))
		}
		fr.setv(in, st[in.Field])
	case *ssa.IndexAddr:
		fr.setv(in, m.indexAddr(fr, in, fr.get(in.X), fr.get(in.Index)))
	case *ssa.Index:
		fr.setv(in, m.index(fr, in, fr.get(in.X), fr.get(in.Index)))
	case *ssa.Lookup:
		fr.setv(in, m.lookup(fr, in, fr.get(in.X), fr.get(in.Index)))
	case *ssa.MapUpdate:
		mp := fr.get(in.Map)
		mm, ok := mp.(*Map)
		if !ok {
			m.unsupported("map update on %s", describe(mp))
		}
		if mm == nil {
			m.rtPanic(fr, "assignment-to-nil-map")
		}
		m.mapSet(fr, mm, fr.get(in.Key), fr.get(in.Value))
	case *ssa.TypeAssert:
		fr.setv(in, m.typeAssert(fr, in, fr.get(in.X)))
	case *ssa.MakeClosure:
		var bindings []Value
		for _, b := range in.Bindings {
			bindings = append(bindings, fr.get(b))
		}
		fr.setv(in, &Closure{Fn: in.Fn.(*ssa.Function), Env: bindings})
	case *ssa.Phi:
		panic("unexpected phi")
	default:
		panic(fmt.Sprintf("unexpected instruction %T", instr))
	}
	return false
}

func (m *Machine) jump(fr *frame, to *ssa.BasicBlock) {
	// back-edge detection: target index <= current index
	if to.Index <= fr.block.Index {
		if fr.loops == nil {
			fr.loops = map[*ssa.BasicBlock]int{}
		}
		fr.loops[to]++
		if m.inPath && fr.loops[to] > m.unwindFor(fr.fn) {
			m.abort("unwind", "loop at %s block %d exceeded unwind bound %d", fr.fn, to.Index, m.unwindFor(fr.fn))
		}
	}
	fr.prev, fr.block = fr.block, to
}

func (m *Machine) unwindFor(fn *ssa.Function) int {
	if m.initing {
		return 1 << 30
	}
	return m.Conf.Unwind
}

// concreteInt turns an integer value into a Go int, enumerating feasible
// values of a symbolic term in [0, 64] by forking.
func (m *Machine) concreteInt(fr *frame, v Value, what string) int {
	t, ok := v.(T)
	if !ok {
		m.unsupported("%s: non-integer %s", what, describe(v))
	}
	if t.IsConst() {
		return int(t.SignedVal())
	}
	return m.concretize(fr, t, what)
}

func (m *Machine) concretize(fr *frame, t T, what string) int {
	// negative?
	w := t.W
	for i := 0; i <= 64; i++ {
		if m.Decide(m.F.Eq(t, m.F.Const(w, uint64(i)))) {
			return i
		}
	}
	// try -1 (common sentinel)
	if m.Decide(m.F.Eq(t, m.F.Const(w, ^uint64(0)))) {
		return -1
	}
	m.unsupported("%s: symbolic integer outside 0..64 in %s", what, fr.fn)
	return 0
}

// panicValue implements Go 1.21+ semantics of panic(nil): the panic value is a
// *runtime.PanicNilError, so recover() returns non-nil.
func (m *Machine) panicValue(v Value) Value {
	iv, ok := v.(Iface)
	if !ok || iv.T != nil {
		return v
	}
	if rt := m.W.SSAPkgs["runtime"]; rt != nil {
		if tn := rt.Type("PanicNilError"); tn != nil {
			p := new(Value)
			*p = m.zero(tn.Type())
			return Iface{T: types.NewPointer(tn.Type()), V: Ptr(p)}
		}
	}
	return Iface{T: m.W.runtimeErrorType(), V: Str{S: "panic called with nil argument (obsolete and disabled by GODEBUG=panicnil=0)"}}
}

// maxMake bounds allocations the executor is willing to model; a larger
// CONCRETE size is reported as unsupported (not as a Go panic: the real
// runtime may well satisfy it).
const maxMake = 1 << 24

// makeLen resolves the length/capacity operand of make: a symbolic value is
// first tested against "negative or too large for any allocation" (the Go
// run-time panic makeslice: len out of range), then enumerated in 0..64.
func (m *Machine) makeLen(fr *frame, v Value, vt types.Type, what string) int {
	t, ok := v.(T)
	if !ok {
		m.unsupported("%s: non-integer %s", what, describe(v))
	}
	if t.IsConst() {
		n := t.SignedVal()
		if !isSigned(vt) && t.W == 64 && n < 0 {
			m.rtPanic(fr, "makeslice-len-out-of-range")
		}
		if n < 0 || n > 1<<48 {
			m.rtPanic(fr, "makeslice-len-out-of-range")
		}
		if n > maxMake {
			m.unsupported("%s: allocation of %d elements in %s", what, n, fr.fn)
		}
		return int(n)
	}
	F := m.F
	w := t
	if w.W < 64 {
		if isSigned(vt) {
			w = F.Sext(w, 64)
		} else {
			w = F.Zext(w, 64)
		}
	}
	// out of range for every element size: negative, or above the 2^48-byte address space
	bad := F.Or(F.Slt(w, F.Const(64, 0)), F.Slt(F.Const(64, 1<<48), w))
	if m.Decide(bad) {
		m.rtPanic(fr, "makeslice-len-out-of-range")
	}
	for i := 0; i <= 64; i++ {
		if m.Decide(F.Eq(w, F.Const(64, uint64(i)))) {
			return i
		}
	}
	m.unsupported("%s: symbolic allocation size above 64 in %s", what, fr.fn)
	return 0
}

// ---- channels ----

func (m *Machine) chanSend(fr *frame, ch *Chan, v Value) {
	if m.initing && ch == nil {
		m.unsupported("send on nil channel during init")
	}
	if ch == nil {
		m.block(fr, new(int)) // blocks forever: deadlock unless other threads run
		return
	}
	m.yield(fr, "chan-send")
	for {
		if ch.closed {
			panic(&GoPanic{V: Iface{T: m.W.runtimeErrorType(), V: Str{S: "send on closed channel"}}, Site: "send-on-closed-channel@" + fnName(fr), RT: true})
		}
		if len(ch.buf) < ch.cap {
			old := ch.buf
			ch.buf = append(append([]Value(nil), old...), copyVal(v))
			m.onUndo(func() { ch.buf = old })
			if m.threads != nil {
				m.threads.wake(ch)
			}
			return
		}
		if ch.cap == 0 {
			m.unsupported("send on an unbuffered channel in %s", fnName(fr))
		}
		m.block(fr, ch)
	}
}

func (m *Machine) chanRecv(fr *frame, ch *Chan, commaOk bool, elem types.Type) Value {
	if ch == nil {
		m.block(fr, new(int))
		return nil
	}
	m.yield(fr, "chan-recv")
	for {
		if len(ch.buf) > 0 {
			old := ch.buf
			v := old[0]
			ch.buf = append([]Value(nil), old[1:]...)
			m.onUndo(func() { ch.buf = old })
			if m.threads != nil {
				m.threads.wake(ch)
			}
			if commaOk {
				return Tuple{v, m.F.True}
			}
			return v
		}
		if ch.closed {
			z := m.zero(elem)
			if commaOk {
				return Tuple{z, m.F.False}
			}
			return z
		}
		if m.initing {
			m.unsupported("blocking channel receive during init")
		}
		m.block(fr, ch)
	}
}

// selectStmt: a select over channel operations that are ready NOW. A receive is
// ready on a non-nil channel that is closed or has a buffered value, a send on a
// non-nil open channel with buffer space (or a closed one: it then panics, as in
// Go). With several ready cases the choice is a nondeterministic fork (Go picks
// pseudo-randomly). With none ready a non-blocking select takes its default; a
// blocking select with nothing ready is not modelled.
func (m *Machine) selectStmt(fr *frame, in *ssa.Select) Value {
	var ready []int
	for i, st := range in.States {
		ch, _ := fr.get(st.Chan).(*Chan)
		if ch == nil {
			continue
		}
		if st.Dir == types.RecvOnly {
			if len(ch.buf) > 0 || ch.closed {
				ready = append(ready, i)
			}
		} else if ch.closed || len(ch.buf) < ch.cap {
			ready = append(ready, i)
		}
	}
	sel := -1
	switch {
	case len(ready) == 1:
		sel = ready[0]
	case len(ready) > 1:
		sel = ready[m.Fork(len(ready))]
	case in.Blocking:
		m.unsupported("blocking select with no ready case in %s", fr.fn)
	}
	res := Tuple{m.F.Const(64, uint64(int64(sel))), m.F.False}
	for i, st := range in.States {
		if st.Dir != types.RecvOnly {
			if i == sel {
				ch, _ := fr.get(st.Chan).(*Chan)
				m.chanSend(fr, ch, fr.get(st.Send))
			}
			continue
		}
		elem := st.Chan.Type().Underlying().(*types.Chan).Elem()
		if i != sel {
			res = append(res, m.zero(elem))
			continue
		}
		ch, _ := fr.get(st.Chan).(*Chan)
		tv := m.chanRecv(fr, ch, true, elem).(Tuple)
		res[1] = tv[1]
		res = append(res, tv[0])
	}
	return res
}

func (m *Machine) chanClose(fr *frame, ch *Chan) {
	if ch == nil {
		panic(&GoPanic{V: Iface{T: m.W.runtimeErrorType(), V: Str{S: "close of nil channel"}}, Site: "close-of-nil-channel@" + fnName(fr), RT: true})
	}
	if ch.closed {
		panic(&GoPanic{V: Iface{T: m.W.runtimeErrorType(), V: Str{S: "close of closed channel"}}, Site: "close-of-closed-channel@" + fnName(fr), RT: true})
	}
	ch.closed = true
	m.onUndo(func() { ch.closed = false })
	if m.threads != nil {
		m.threads.wake(ch)
	}
}

// builtinConst is a pseudo-callee whose call returns a fixed value.
type builtinConst struct{ v Value }
