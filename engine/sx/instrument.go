package sx

import (
	"bytes"
	"fmt"
	"go/ast"
	"go/printer"
	"go/token"
	"go/types"
	"os"
	"path/filepath"
	"strconv"
	"strings"

	"golang.org/x/tools/go/ast/astutil"
	"golang.org/x/tools/go/packages"
)

// Schedule-replay instrumentation.
//
// A counterexample found under the cooperative scheduler is a schedule: the
// thread chosen at each scheduling point. To replay it against the REAL code
// compiled natively, the source files of the packages involved are rewritten —
// in a build overlay only, nothing under /repo or the module cache is touched
// — so that every scheduling point the executor knows (go statements,
// sync.Mutex / sync.RWMutex operations, sync.WaitGroup operations, sync/atomic
// operations) first reports to the native cooperative scheduler in
// zzverifnd, which then runs exactly one goroutine at a time and follows the
// recorded choices. The rewritten code is the real code plus those calls:
//
//	go f(x)                  ->  zzverifsched.Go(func() { f(x) })
//	mu.Lock()                ->  zzverifsched.MuLock(&mu)           (Unlock, RLock, RUnlock, TryLock alike)
//	wg.Add(n) / Done / Wait  ->  zzverifsched.WgAdd(&wg, n) / WgAdd(&wg, -1) / WgWait(&wg)
//	atomic.F(a, b)           ->  zzverifsched.Sp2(atomic.F, a, b)   (SpV2 when F has no result)
//	x.Load() on atomic.T     ->  zzverifsched.Sp0(x.Load)
//
// Limits (a construct outside them makes the replay build fail or the replay
// desynchronise, which is reported as inconclusive, never as a verdict):
// mutexes reached through embedding promotion, go statements whose operands
// change between the statement and the goroutine's start, sync.Cond, channels.

const schedAlias = "zzverifsched"

// InstrumentForSched returns overlay entries (real file path -> generated
// file) for every file of the given packages that contains a scheduling point.
func InstrumentForSched(w *World, pkgPaths []string, outDir string) (Overlay, error) {
	ov := Overlay{}
	want := map[string]bool{}
	for _, p := range pkgPaths {
		want[p] = true
	}
	var firstErr error
	packages.Visit(w.Pkgs, nil, func(p *packages.Package) {
		if !want[p.PkgPath] || firstErr != nil {
			return
		}
		for i, f := range p.Syntax {
			name := p.CompiledGoFiles[i]
			if strings.HasSuffix(name, "_test.go") {
				continue
			}
			in := &instr{info: p.TypesInfo, fset: p.Fset}
			in.file(f)
			if in.err != nil {
				firstErr = fmt.Errorf("%s: %v", name, in.err)
				return
			}
			if in.n == 0 {
				continue
			}
			astutil.AddNamedImport(p.Fset, f, schedAlias, NdPath)
			var buf bytes.Buffer
			if err := printer.Fprint(&buf, p.Fset, f); err != nil {
				firstErr = err
				return
			}
			out := filepath.Join(outDir, strings.ReplaceAll(strings.TrimPrefix(name, "/"), "/", "_"))
			if err := os.MkdirAll(outDir, 0o755); err != nil {
				firstErr = err
				return
			}
			if err := os.WriteFile(out, buf.Bytes(), 0o644); err != nil {
				firstErr = err
				return
			}
			ov[name] = out
		}
	})
	return ov, firstErr
}

type instr struct {
	info *types.Info
	fset *token.FileSet
	n    int
	err  error
}

func sel(name string) ast.Expr {
	return &ast.SelectorExpr{X: ast.NewIdent(schedAlias), Sel: ast.NewIdent(name)}
}

func (in *instr) file(f *ast.File) {
	astutil.Apply(f, nil, func(c *astutil.Cursor) bool {
		switch n := c.Node().(type) {
		case *ast.GoStmt:
			// go f(x)  ->  zzverifsched.Go(func() { f(x) })
			lit := &ast.FuncLit{Type: &ast.FuncType{Params: &ast.FieldList{}}, Body: &ast.BlockStmt{List: []ast.Stmt{&ast.ExprStmt{X: n.Call}}}}
			c.Replace(&ast.ExprStmt{X: &ast.CallExpr{Fun: sel("Go"), Args: []ast.Expr{lit}}})
			in.n++
		case *ast.CallExpr:
			if r := in.call(n); r != nil {
				c.Replace(r)
				in.n++
			}
		}
		return true
	})
}

// namedOf returns the named type behind t (through one pointer) with its package path.
func namedOf(t types.Type) (pkg, name string, isPtr bool) {
	if p, ok := types.Unalias(t).(*types.Pointer); ok {
		t = p.Elem()
		isPtr = true
	}
	if n, ok := types.Unalias(t).(*types.Named); ok && n.Obj().Pkg() != nil {
		return n.Obj().Pkg().Path(), n.Obj().Name(), isPtr
	}
	return "", "", isPtr
}

func (in *instr) call(call *ast.CallExpr) ast.Expr {
	se, ok := call.Fun.(*ast.SelectorExpr)
	if !ok {
		return nil
	}
	// package-level function of sync/atomic
	if id, ok := se.X.(*ast.Ident); ok {
		if pn, ok := in.info.Uses[id].(*types.PkgName); ok {
			if pn.Imported().Path() != "sync/atomic" {
				return nil
			}
			fn, ok := in.info.Uses[se.Sel].(*types.Func)
			if !ok {
				return nil
			}
			sig := fn.Type().(*types.Signature)
			if sig.TypeParams().Len() > 0 {
				return nil
			}
			return in.sp(call, sig)
		}
	}
	s := in.info.Selections[se]
	if s == nil || s.Kind() != types.MethodVal {
		return nil
	}
	m, ok := s.Obj().(*types.Func)
	if !ok || m.Pkg() == nil {
		return nil
	}
	recv := m.Type().(*types.Signature).Recv()
	if recv == nil {
		return nil
	}
	rp, rn, _ := namedOf(recv.Type())
	switch {
	case rp == "sync" && (rn == "Mutex" || rn == "RWMutex"):
		var fn string
		switch m.Name() {
		case "Lock":
			fn = "MuLock"
		case "Unlock":
			fn = "MuUnlock"
		case "RLock":
			fn = "MuRLock"
		case "RUnlock":
			fn = "MuRUnlock"
		case "TryLock":
			fn = "MuTryLock"
		default:
			return nil
		}
		addr := in.addrOf(se.X, s, rn)
		if addr == nil {
			return nil
		}
		return &ast.CallExpr{Fun: sel(fn), Args: []ast.Expr{addr}}
	case rp == "sync" && rn == "WaitGroup":
		addr := in.addrOf(se.X, s, rn)
		if addr == nil {
			return nil
		}
		switch m.Name() {
		case "Add":
			return &ast.CallExpr{Fun: sel("WgAdd"), Args: []ast.Expr{addr, call.Args[0]}}
		case "Done":
			return &ast.CallExpr{Fun: sel("WgAdd"), Args: []ast.Expr{addr, &ast.UnaryExpr{Op: token.SUB, X: &ast.BasicLit{Kind: token.INT, Value: "1"}}}}
		case "Wait":
			return &ast.CallExpr{Fun: sel("WgWait"), Args: []ast.Expr{addr}}
		}
		return nil
	case rp == "sync/atomic":
		// method of an atomic.T value: x.M(args) -> SpN(x.M, args...)
		return in.sp(call, m.Type().(*types.Signature))
	}
	return nil
}

// addrOf builds the *sync.T expression for the receiver of a method call.
func (in *instr) addrOf(x ast.Expr, s *types.Selection, want string) ast.Expr {
	if len(s.Index()) != 1 {
		in.err = fmt.Errorf("sync.%s reached through embedding promotion at %s: not supported by schedule replay", want, in.fset.Position(x.Pos()))
		return nil
	}
	t := in.info.TypeOf(x)
	if t == nil {
		return nil
	}
	if _, isPtr := types.Unalias(t).(*types.Pointer); isPtr {
		return x
	}
	return &ast.UnaryExpr{Op: token.AND, X: x}
}

func (in *instr) sp(call *ast.CallExpr, sig *types.Signature) ast.Expr {
	if sig.Variadic() || call.Ellipsis.IsValid() {
		return nil
	}
	n := len(call.Args)
	if n > 3 || sig.Results().Len() > 1 {
		return nil
	}
	name := "Sp"
	if sig.Results().Len() == 0 {
		name = "SpV"
	}
	name += strconv.Itoa(n)
	args := append([]ast.Expr{call.Fun}, call.Args...)
	return &ast.CallExpr{Fun: sel(name), Args: args}
}
